(** Binary32 rounding on exact rationals: [rnd32 q] is the binary32 number
    nearest to [q] (ties to even) for results in the normal range
    [2^-126, 2^128); zero maps to zero.  Subnormal results, overflow, NaN and
    infinities are outside this function's domain (the models that use it say
    where that matters).  Every binary32 operation the C code performs is
    modelled as the exact operation followed by [rnd32]. *)
From Coq Require Import ZArith QArith Qround.
From SB Require Import Base.Num.
Local Open Scope Z_scope.

(** exact power of two as a rational *)
Definition pow2 (e : Z) : Q :=
  if 0 <=? e then inject_Z (2 ^ e) else 1 # (Pos.pow 2 (Z.to_pos (- e))).

(** [e] with 2^e <= a < 2^(e+1), for a > 0 *)
Definition exponent (a : Q) : Z :=
  let e0 := Z.log2 (Qnum a) - Z.log2 (Zpos (Qden a)) in
  if Qle_bool (pow2 e0) a then e0 else e0 - 1.

(** round a non-negative rational to the nearest integer, ties to even *)
Definition round_half_even (x : Q) : Z :=
  let m := Qfloor x in
  let f := Qred (x - inject_Z m) in
  match Qcompare f (1 # 2) with
  | Lt => m
  | Gt => m + 1
  | Eq => if Z.even m then m else m + 1
  end.

Definition rnd32 (q : Q) : Q :=
  match Qcompare q 0 with
  | Eq => 0%Q
  | c =>
    let a := Qabs' q in
    let e := exponent a in
    let m := round_half_even (Qred (a * pow2 (23 - e))) in      (* in [2^23, 2^24] *)
    let r := Qred (inject_Z m * pow2 (e - 23)) in
    match c with Lt => Qred (- r) | _ => r end
  end.

(** binary32 operations *)
Definition fadd (a b : Q) : Q := rnd32 (a + b).
Definition fsub (a b : Q) : Q := rnd32 (a - b).
Definition fmul (a b : Q) : Q := rnd32 (a * b).
Definition fdiv (a b : Q) : Q := rnd32 (a / b).

(** correctly rounded square root (sqrtf) of a positive rational *)
Definition fsqrt (a : Q) : Q :=
  match Qcompare a 0 with
  | Gt =>
    (* E with 4^E <= a < 4^(E+1): sqrt a in [2^E, 2^(E+1)) *)
    let e := exponent a in
    let E := Z.div e 2 in
    (* A = a / 4^(E-23): (sqrt a / 2^(E-23))^2, in [2^46, 2^48) *)
    let A := Qred (a * pow2 (2 * (23 - E))) in
    let m := Z.sqrt (Qfloor A) in
    let mid := Qred (inject_Z (m * m + m) + (1 # 4)) in          (* (m + 1/2)^2 *)
    let m' := match Qcompare A mid with
              | Lt => m
              | Gt => m + 1
              | Eq => if Z.even m then m else m + 1
              end in
    Qred (inject_Z m' * pow2 (E - 23))
  | _ => 0%Q
  end.

(** floorf / ceilf / truncation toward zero of an exact value *)
Definition ffloor (q : Q) : Z := Qfloor q.
Definition fceil (q : Q) : Z := Qceiling q.
Definition ftrunc (q : Q) : Z := if Qle_bool 0 q then Qfloor q else Qceiling q.

(** (float)n for an integer n *)
Definition f32_of_Z (n : Z) : Q := rnd32 (inject_Z n).

(** largest finite binary32, FLT_MIN, FLT_EPSILON *)
Definition FLT_MAX : Q := inject_Z ((2 ^ 24 - 1) * 2 ^ 104).
Definition FLT_MIN : Q := pow2 (-126).
Definition FLT_EPSILON : Q := pow2 (-23).

(** the binary32 instance of the field operations: every operation rounds *)
Definition F32Ops : Ops Q := {|
  zero := 0%Q; one := 1%Q;
  add := fadd; sub := fsub; mul := fmul; div := fdiv;
  ofZ := fun z => rnd32 (inject_Z z) |}.
