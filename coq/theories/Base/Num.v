(** One record of field operations, three uses: exact rationals (executable:
    the oracle and the extracted model), Coq reals (the carrier of the
    analytic theorems), and any other field.  The numeric algorithms of the C
    code (Bezier -> power basis, Horner, derivative, scaling, ...) are written
    once, polymorphic in [Ops A]. *)
From Coq Require Import ZArith QArith Qreals Reals List.
Import ListNotations.

Record Ops (A : Type) := mkOps {
  zero : A; one : A;
  add : A -> A -> A; sub : A -> A -> A; mul : A -> A -> A; div : A -> A -> A;
  ofZ : Z -> A
}.
Arguments zero {A}. Arguments one {A}. Arguments add {A}. Arguments sub {A}.
Arguments mul {A}. Arguments div {A}. Arguments ofZ {A}.

Definition QOps : Ops Q := {|
  zero := 0%Q; one := 1%Q;
  add := fun a b => Qred (Qplus a b); sub := fun a b => Qred (Qminus a b);
  mul := fun a b => Qred (Qmult a b); div := fun a b => Qred (Qdiv a b);
  ofZ := inject_Z |}.

Definition ROps : Ops R := {|
  zero := 0%R; one := 1%R; add := Rplus; sub := Rminus; mul := Rmult; div := Rdiv; ofZ := IZR |}.

(** Small helpers on Q used by the executable models. *)
Definition Qabs' (q : Q) : Q := if Qle_bool 0 q then q else Qopp q.
Definition Qmax' (a b : Q) : Q := if Qle_bool a b then b else a.
Definition Qmin' (a b : Q) : Q := if Qle_bool a b then a else b.
Definition Qltb (a b : Q) : bool := negb (Qle_bool b a).
