(** Common definitions for every model: results, bytes, checked reads. *)
From Coq Require Export ZArith List Lia Bool.
Export ListNotations.
Local Open Scope Z_scope.

(** Outcome of a modelled call.  [Err e] carries the C [sb_error_t] code,
    [OOB site off] is a read the C code performs outside the supplied bytes
    (a *value* of the model, so memory safety is a statement about models),
    [Fuel] is fuel exhaustion (never a normal-looking value). *)
Inductive res (A : Type) : Type :=
| Ok (a : A)
| Err (e : Z)
| OOB (site : Z) (off : Z)
| Fuel.
Arguments Ok {A} a.
Arguments Err {A} e.
Arguments OOB {A} site off.
Arguments Fuel {A}.

Definition bind {A B} (r : res A) (k : A -> res B) : res B :=
  match r with
  | Ok a => k a
  | Err e => Err e
  | OOB s o => OOB s o
  | Fuel => Fuel
  end.
Notation "x <- e ;; k" := (bind e (fun x => k))
  (at level 61, e at next level, right associativity).
Notation "' p <- e ;; k" := (bind e (fun x => let p := x in k))
  (at level 61, p pattern, e at next level, right associativity).

Definition is_ok {A} (r : res A) : bool := match r with Ok _ => true | _ => false end.

(** Bytes are integers in [0,256). *)
Definition byte := Z.
Definition wf_byte (b : Z) : bool := (0 <=? b) && (b <? 256).
Definition wf_bytes (bs : list Z) : bool := forallb wf_byte bs.

Lemma wf_bytes_forall bs : wf_bytes bs = true <-> Forall (fun b => 0 <= b < 256) bs.
Proof.
  unfold wf_bytes. rewrite forallb_forall, Forall_forall. unfold wf_byte.
  split; intros H x Hx; specialize (H x Hx); lia.
Qed.

(** Checked read at an absolute index. *)
Definition rd (b : list Z) (i : nat) : option Z := nth_error b i.

(** Little-endian composition/decomposition. *)
Definition le16 (b0 b1 : Z) : Z := b0 + 256 * b1.
Definition le32 (b0 b1 b2 b3 : Z) : Z := b0 + 256 * (b1 + 256 * (b2 + 256 * b3)).
Definition sx16 (u : Z) : Z := if u <? 32768 then u else u - 65536.
Definition sx32 (u : Z) : Z := if u <? 2147483648 then u else u - 4294967296.

(** List update (used by the writers and the builder). *)
Fixpoint upd (b : list Z) (i : nat) (v : Z) : list Z :=
  match b, i with
  | [], _ => []
  | _ :: t, O => v :: t
  | h :: t, S i' => h :: upd t i' v
  end.

Lemma upd_length b i v : length (upd b i v) = length b.
Proof. revert i; induction b as [|h t IH]; intros [|i]; simpl; auto. Qed.

Lemma nth_error_upd_eq b i v : (i < length b)%nat -> nth_error (upd b i v) i = Some v.
Proof.
  revert i; induction b as [|h t IH]; intros [|i] H; simpl in *; try lia; auto.
  apply IH; lia.
Qed.

Lemma nth_error_upd_neq b i j v : i <> j -> nth_error (upd b i v) j = nth_error b j.
Proof.
  revert i j; induction b as [|h t IH]; intros [|i] [|j] H; simpl; auto; try congruence.
Qed.

(** C error codes are generated from error.h (Gen/Generated.v); models refer to
    them by name. *)
