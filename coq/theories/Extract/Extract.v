(** Extraction of the executable models and specifications to OCaml.
    ExtrOcamlBasic (bool, option, unit, list, prod, sumbool, sumor, andb, orb)
    and ExtrOcamlZBigInt (positive, N, Z as arbitrary-precision integers of
    the zarith library: no overflow; its directives are listed in DESIGN.md);
    nat and Q stay the extracted inductive / record types.  A sample of every
    run is re-evaluated inside Coq with vm_compute and compared with the
    extracted program (tools/coq_eval.py), so the extraction directives are not
    trusted blindly.  Run with the build directory as working directory:
    the files sbmodel.ml / sbmodel.mli are written there. *)
From Coq Require Import Extraction ExtrOcamlBasic ExtrOcamlZBigInt.
From SB Require Import Base.Prelude Gen.Generated Model.Codec Model.Colors Spec.CodecSpec
  Model.Crc Model.Container Spec.CrcSpec Spec.ContainerSpec Model.Loaders Model.Rth Spec.RthSpec
  Base.Num Model.Poly Model.Traj Spec.BezierSpec Spec.TrajSpec Model.Yaw Spec.YawSpec Model.Light Spec.LightSpec Base.F32 Model.Utils Model.Builder Model.Buffer Model.RootCert Model.Stats Model.Alloc Model.Touch Model.Solve32 Extract.XCheck.

Extraction Language OCaml.

(** Two further directives (performance only; cross-checked like the rest):
    gcd with cofactors and gcd on zarith integers.  Coq: Z.ggcd a b = (g, (aa, bb))
    with g >= 0, a = g * aa, b = g * bb. *)
Extract Constant Z.ggcd =>
  "(fun a b -> let g = Z.gcd a b in if Z.equal g Z.zero then (Z.zero, (Z.zero, Z.zero)) else (g, (Z.divexact a g, Z.divexact b g)))".
Extract Constant Z.gcd => "(fun a b -> Z.gcd a b)".

Extraction "sbmodel.ml"
  (* C19 *)
  parse_u16 parse_i16 parse_u32 parse_i32 write_u16 write_u32 parse_varuint32 varuint_spec
  decode_rgb565 encode_rgb565 rgbw_min_sub rgbw_fixed
  (* C04 C05 *)
  crc_update file_crc crc_spec zero_field
  parser_init rewind seek_to_next_block find_first read_current_block read_current_block_ex block_valid
  init_spec all_records find_spec tail_error body_of load
  (* C11 *)
  plan_init plan_empty num_entries get_point evaluate_at encode_plan eval_spec wf_splan
  (* C01 C07 C08 *)
  traj_init traj_empty seek cursor0 position_of velocity_of acceleration_of landing_cursor total_duration_msec segments segments_prefix
  tol_at final_tol traj_pos encode_traj wf_straj total_ms bezier make_bezier make_bezier_c horner deriv scale stretch add_constant QOps
  (* C10 *)
  yaw_init yaw_empty yaw_is_empty yseek ycursor0 ylanding_cursor yaw_of yaw_rate_of yaw_total_duration_msec
  yaw_tol yaw_tol_at yaw_spec rate_spec encode_yaw wf_syaw
  (* C02 C09 *)
  player_fresh light_seek obs_color obs_pyro obs_ended obs_next state_at spec_color spec_pyro spec_ended spec_next decode
  (* C16 C12 C20 *)
  builder_init set_start_position append_line hold_position_for hold_fast finish rth_to_trajectory rth_to_trajectory_fast
  travel_time scale_update msec_of_sec interval_expand rnd32 fadd fsub fmul fdiv fsqrt position_at
  interp_rgb rgbw_reference buf_init buf_init_from_bytes buf_init_view buf_resize buf_clear buf_prune buf_fill
  buf_append buf_extend_zeros bf_size
  (* C13 C14 C15 C18 *)
  propose_takeoff propose_landing propose_landing_spec poly_max poly_min first_root root_boxes merge_boxes sign_change cauchy_bound
  shift_poly qeval irange zpoly axis_bounds max_degree touches_linear eval_linear_f32 solve32
  (* C17 *)
  scenario trace_of
  (* kernel cross-check *)
  xc_arith xc_q xc_codec xc_crc xc_load xc_rth xc_traj xc_yaw xc_light xc_alloc.
