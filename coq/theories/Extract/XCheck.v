(** Kernel cross-check of the extracted program.  Every function below maps
    plain data (byte lists, integers, numerators/denominators) to a flat
    [list Z].  tools/xcheck.py evaluates them on the same arguments twice:
    inside Coq by [Eval vm_compute] (a generated cases.v) and in the extracted
    OCaml program (driver op "xc"); the two lists must be identical.  This keeps
    the extraction directives (ExtrOcamlBasic, ExtrOcamlZBigInt, the two gcd
    constants) and the build of the OCaml program out of the set of things
    that can silently lie. *)
From Coq Require Import ZArith QArith Qabs Qround List Bool.
From SB Require Import Base.Prelude Base.Num Base.F32 Gen.Generated Model.Codec Model.Crc Model.Container Model.Loaders
  Model.Rth Model.Poly Model.Traj Model.Yaw Model.Light Model.Utils Model.Alloc.
Import ListNotations.
Local Open Scope Z_scope.

Definition zq (q : Q) : list Z := let r := Qred q in [Qnum r; Zpos (Qden r)].
Definition zb (b : bool) : Z := if b then 1 else 0.
Definition zres {A} (f : A -> list Z) (r : res A) : list Z :=
  match r with
  | Ok a => 0 :: f a
  | Err e => [1; e]
  | OOB s o => [2; s; o]
  | Fuel => [3]
  end.
Definition zopt (o : option (Z * nat)) : list Z :=
  match o with Some (v, off) => [1; v; Z.of_nat off] | None => [0] end.

(** the arithmetic the extraction directives re-implement *)
Definition xc_arith (a b : Z) : list Z :=
  [a + b; a - b; a * b; a / b; a mod b; Z.quot a b; Z.rem a b; Z.gcd a b; fst (Z.ggcd a b);
   fst (snd (Z.ggcd a b)); snd (snd (Z.ggcd a b)); Z.land a b; Z.lor a b; Z.lxor a b;
   Z.shiftl a (Z.abs b mod 70); Z.shiftr a (Z.abs b mod 70); Z.abs a; Z.opp a; Z.sgn a; Z.max a b; Z.min a b;
   Z.log2 (Z.abs a); Z.sqrt (Z.abs a); Z.pow a (Z.abs b mod 9); zb (a <? b); zb (a <=? b); zb (a =? b);
   (match a ?= b with Lt => -1 | Eq => 0 | Gt => 1 end);
   Z.of_nat (Z.to_nat (a mod 1000)); Z.of_N (Z.to_N a); Z.succ a; Z.pred a; Z.div2 a; zb (Z.even a); zb (Z.odd a);
   zb (Z.testbit a (Z.abs b mod 70))].

Definition xc_q (an ad bn bd : Z) : list Z :=
  let a := an # Z.to_pos ad in let b := bn # Z.to_pos bd in
  zq (a + b) ++ zq (a * b) ++ zq (a - b) ++ zq (if Qeq_bool b 0 then 0 else a / b) ++
  [Qfloor a; Qceiling a; zb (Qle_bool a b); zb (Qeq_bool a b)] ++
  zq (rnd32 a) ++ zq (fadd a b) ++ zq (fmul a b) ++ zq (if Qeq_bool b 0 then 0 else fdiv a b) ++
  zq (fsqrt (Qabs a)) ++ [ffloor a; ftrunc a].

Definition xc_codec (b : list Z) (off : nat) : list Z :=
  zopt (parse_u16 b off) ++ zopt (parse_i16 b off) ++ zopt (parse_u32 b off) ++ zopt (parse_i32 b off) ++
  (match parse_varuint32 b (length b) off with
   | VuOk v o => [0; v; Z.of_nat o]
   | VuErr c o => [1; c; Z.of_nat o]
   | VuOOB o => [2; Z.of_nat o]
   end).

Definition xc_crc (b : list Z) : list Z := [crc_update 0 b; file_crc b].

Definition xc_load (b : list Z) : list Z :=
  flat_map (fun k => flat_map (fun r => zres (fun x : list Z * bool => zb (snd x) :: Z.of_nat (length (fst x)) :: fst x) (load k r b))
                              [Mem; Fd]) [KTraj; KLight; KYaw; KRth].

Definition xc_rth (b : list Z) (tn td : Z) : list Z :=
  match plan_init b with
  | Ok pl =>
    Z.of_nat (num_entries pl) ::
    zres (fun r : eval_result =>
            [match r_time r with Some z => z | None => -1 end; r_action r; r_duration r; fst (r_target r); snd (r_target r);
             r_altitude r; r_pre_delay r; r_post_delay r; r_neck r; r_neck_duration r])
         (evaluate_at pl (TFin (tn # Z.to_pos td)))
  | r => zres (fun _ => []) r
  end.

Definition zvec (v : vec4) : list Z := zq (vx v) ++ zq (vy v) ++ zq (vz v) ++ zq (vyaw v).

Definition xc_traj (b : list Z) (tn td : Z) : list Z :=
  match traj_init b with
  | Ok tr =>
    let t := QFin (tn # Z.to_pos td) in
    zres (fun d : Z => [d]) (total_duration_msec tr) ++ zres zvec (position_at tr t) ++
    zres zvec (velocity_at tr t) ++ zres zvec (acceleration_at tr t)
  | r => zres (fun _ => []) r
  end.

Definition xc_yaw (b : list Z) (tn td : Z) : list Z :=
  match yaw_init b with
  | Ok y =>
    yaw_total_duration_msec y ::
    zres (fun l => zq (yaw_of l) ++ match yaw_rate_of l with Some r => zq r | None => [] end)
         (yseek y (ycursor0 y) (QFin (tn # Z.to_pos td)))
  | r => zres (fun _ => []) r
  end.

Definition xc_light (prog : list Z) (t : Z) : list Z :=
  zres (fun p => zq (qr (obs_color p)) ++ zq (qg (obs_color p)) ++ zq (qb (obs_color p)) ++
                 [obs_pyro p; zb (obs_ended p); obs_next p])
       (light_seek (Z.to_nat 20000) prog (player_fresh prog) t).

(** buffer scenarios of the allocation model: (op code, slot, n) triples *)
Definition xc_alloc (fail : Z) (codes : list Z) : list Z :=
  let fix ops (l : list Z) : list op :=
    match l with
    | c :: o :: n :: rest =>
      let o := Z.to_nat o in let n := Z.to_nat n in
      (match c with
       | 0 => OpBufInit o n | 1 => OpBufAppend o n | 2 => OpBufExtend o n | 3 => OpBufResize o n
       | 4 => OpBufPrune o | 5 => OpDestroy o | 6 => OpEmpty KLight o | 7 => OpPlayerInit o n
       | 8 => OpBuilderInit o (Z.of_nat n) | 9 => OpBuilderHold o (Z.of_nat n * 1000) | 10 => OpBuilderFinish o n
       | _ => OpPolySolve n
       end) :: ops rest
    | _ => []
    end in
  let '(rcs, _, h) := scenario 4 (if fail <=? 0 then None else Some (Z.to_nat (fail - 1))) (ops codes) in
  map (fun r => match r with Rc e => e | Skipped => -1 end) rcs ++
  flat_map (fun e => match e with
                     | EvAlloc i s => [1; Z.of_nat i; Z.of_nat s]
                     | EvAllocFail s => [2; Z.of_nat s]
                     | EvRealloc a i s => [3; Z.of_nat a; Z.of_nat i; Z.of_nat s]
                     | EvReallocFail a s => [4; Z.of_nat a; Z.of_nat s]
                     | EvFree i => [5; Z.of_nat i]
                     | EvNew i => [6; Z.of_nat i]
                     | EvDelete i => [7; Z.of_nat i]
                     | EvCallerAlloc i s => [8; Z.of_nat i; Z.of_nat s]
                     | EvBad _ => [9]
                     end) (trace_of h).
