(** Model of the allocation discipline of the library (property C17): which
    calls allocate, reallocate and free which blocks, on success and on every
    failure path, over an abstract heap with fault injection.

    The heap hands out fresh block identifiers; [free] and [realloc] are
    CHECKED: applying them to anything but a live library block (a block freed
    before, memory supplied by the caller for a view, a null pointer for
    realloc) is recorded as the event [EvBad], so 'double free', 'use of a
    freed block as realloc argument' and 'caller memory freed or resized' are
    VALUES of the model, and the theorems say they never occur.

    Data-dependent control flow (does the file contain the block, is the body
    complete, is a coordinate representable, how long is an encoded segment) is
    taken from the models of the container (Model/Container.v) and of the
    builder (Model/Builder.v); the capacity arithmetic is that of buffer.c, so
    the sizes in the predicted allocation trace are exact.

    C++ [operator new] (sb_light_player_init) is modelled as an allocation that
    cannot fail: the property quantifies over failures of C allocations. *)
From Coq Require Import ZArith QArith List Bool Arith Lia.
From SB Require Import Base.Prelude Base.Num Base.F32 Gen.Generated Model.Crc Model.Container Model.Loaders
  Model.Traj Model.Utils Model.Rth Model.Builder.
Import ListNotations.
Local Open Scope nat_scope.

(** * The abstract heap *)

Inductive ptr := PNull | PLib (id : nat) | PCaller (c : nat).

Inductive event :=
| EvAlloc (id sz : nat)            (* calloc/malloc by the library: block id of sz bytes *)
| EvAllocFail (sz : nat)           (* the injected failure hit a calloc/malloc *)
| EvRealloc (old id sz : nat)      (* realloc: block old is gone, block id of sz bytes lives *)
| EvReallocFail (old sz : nat)     (* the injected failure hit a realloc: old stays *)
| EvFree (id : nat)
| EvNew (id : nat)                 (* operator new / delete *)
| EvDelete (id : nat)
| EvCallerAlloc (id sz : nat)      (* a block the caller allocates and hands over with ownership *)
| EvBad (p : ptr).                 (* free / realloc / delete of something that is not a live library block *)

Record heap := mkheap {
  h_live : list nat;               (* identifiers of the live blocks *)
  h_next : nat;                    (* next fresh identifier *)
  h_fail : option nat;             (* Some k: the (k+1)-th C allocation from now fails; None: no failure pending *)
  h_trace : list event             (* most recent first *)
}.

Definition heap0 (fail : option nat) : heap := mkheap [] 0 fail [].

Definition is_live (id : nat) (h : heap) : bool := existsb (Nat.eqb id) (h_live h).
Definition remove_id (id : nat) (l : list nat) : list nat := filter (fun x => negb (Nat.eqb id x)) l.
Definition log (e : event) (h : heap) : heap := mkheap (h_live h) (h_next h) (h_fail h) (e :: h_trace h).

(** calloc / malloc *)
Definition h_alloc (sz : nat) (h : heap) : ptr * heap :=
  match h_fail h with
  | Some O => (PNull, mkheap (h_live h) (h_next h) None (EvAllocFail sz :: h_trace h))
  | f => (PLib (h_next h),
          mkheap (h_next h :: h_live h) (S (h_next h)) (option_map pred f) (EvAlloc (h_next h) sz :: h_trace h))
  end.

(** operator new, and blocks allocated by the caller: cannot fail, not counted *)
Definition h_new (h : heap) : ptr * heap :=
  (PLib (h_next h), mkheap (h_next h :: h_live h) (S (h_next h)) (h_fail h) (EvNew (h_next h) :: h_trace h)).
Definition h_caller_alloc (sz : nat) (h : heap) : ptr * heap :=
  (PLib (h_next h), mkheap (h_next h :: h_live h) (S (h_next h)) (h_fail h) (EvCallerAlloc (h_next h) sz :: h_trace h)).

(** free (free(NULL) is a no-op, as in C) *)
Definition h_release (ev : nat -> event) (p : ptr) (h : heap) : heap :=
  match p with
  | PNull => h
  | PLib id => if is_live id h
               then mkheap (remove_id id (h_live h)) (h_next h) (h_fail h) (ev id :: h_trace h)
               else log (EvBad p) h
  | PCaller _ => log (EvBad p) h
  end.
Definition h_free := h_release EvFree.
Definition h_delete := h_release EvDelete.

(** realloc: [None] = the call failed and the old block is still allocated.
    A successful realloc always yields a fresh identifier (the address may or
    may not change in C; identifiers are logical). *)
Definition h_realloc (p : ptr) (sz : nat) (h : heap) : option ptr * heap :=
  match p with
  | PLib id =>
    if is_live id h then
      match h_fail h with
      | Some O => (None, mkheap (h_live h) (h_next h) None (EvReallocFail id sz :: h_trace h))
      | f => (Some (PLib (h_next h)),
              mkheap (h_next h :: remove_id id (h_live h)) (S (h_next h)) (option_map pred f)
                     (EvRealloc id (h_next h) sz :: h_trace h))
      end
    else (None, log (EvBad p) h)
  | _ => (None, log (EvBad p) h)
  end.

(** * src/buffer.c *)

Record bufst := mkb { bp : ptr; bsz : nat; bcap : nat; bown : bool }.

Definition SB_OK : Z := SB_SUCCESS.

(** sb_buffer_init *)
Definition b_init (n : nat) (h : heap) : option bufst * heap :=
  let a := Nat.max n 1 in
  match h_alloc a h with
  | (PNull, h') => (None, h')
  | (p, h') => (Some (mkb p n a true), h')
  end.

(** sb_buffer_init_view / sb_buffer_init_from_bytes *)
Definition b_view (c n : nat) : bufst := mkb (PCaller c) n n false.
Definition b_adopt (p : ptr) (n : nat) : bufst := mkb p n n true.

(** sb_buffer_destroy *)
Definition b_destroy (b : bufst) (h : heap) : heap :=
  if bown b then h_free (bp b) h else h.

(** sb_i_buffer_realloc: (error code, buffer afterwards, heap) *)
Definition b_realloc (b : bufst) (newcap : nat) (h : heap) : Z * bufst * heap :=
  let newcap := Nat.max newcap 1 in
  if bcap b =? newcap then (SB_OK, b, h)
  else if negb (bown b) then (SB_FAILURE, b, h)
  else match h_realloc (bp b) newcap h with
       | (Some p, h') => (SB_OK, mkb p (Nat.min (bsz b) newcap) newcap true, h')
       | (None, h') => (SB_ENOMEM, b, h')
       end.

(** doubling loop of sb_i_buffer_ensure_free_space (sizes far below SIZE_MAX) *)
Fixpoint grow (fuel cap need : nat) : nat :=
  match fuel with
  | O => cap
  | S f => if cap <? need then grow f (2 * cap) need else cap
  end.

Definition b_ensure (b : bufst) (min_space : nat) (h : heap) : Z * bufst * heap :=
  if min_space =? 0 then (SB_OK, b, h)
  else b_realloc b (grow 64 (Nat.max (bcap b) 1) (bsz b + min_space)) h.

Definition set_size (b : bufst) (n : nat) : bufst := mkb (bp b) n (bcap b) (bown b).

(** sb_buffer_resize *)
Definition b_resize (b : bufst) (n : nat) (h : heap) : Z * bufst * heap :=
  if negb (bown b) then (SB_FAILURE, b, h)
  else if bsz b <? n then
    match b_realloc b n h with
    | (0%Z, b1, h') => (SB_OK, set_size b1 n, h')
    | r => r
    end
  else (SB_OK, set_size b n, h).

Definition b_clear (b : bufst) (h : heap) := b_resize b 0 h.
Definition b_prune (b : bufst) (h : heap) := b_realloc b (bsz b) h.

(** sb_buffer_append_bytes (n bytes) *)
Definition b_append (b : bufst) (n : nat) (h : heap) : Z * bufst * heap :=
  match b_ensure b n h with
  | (0%Z, b1, h') => (SB_OK, set_size b1 (bsz b1 + n), h')
  | r => r
  end.

(** sb_buffer_extend_with_zeros (reserves size + n more bytes, as the code does) *)
Definition b_extend (b : bufst) (n : nat) (h : heap) : Z * bufst * heap :=
  match b_ensure b (bsz b + n) h with
  | (0%Z, b1, h') => (SB_OK, set_size b1 (bsz b1 + n), h')
  | r => r
  end.

(** * Objects *)

Inductive obj :=
| ONone                                   (* not initialised / destroyed *)
| OBuf (b : bufst)                        (* sb_buffer_t *)
| OData (k : kind) (b : bufst)            (* trajectory / light program / yaw control: a buffer and header fields *)
| ORth (p : ptr) (owner : bool)           (* sb_rth_plan_t *)
| OBuilder (bd : builder) (b : bufst)     (* sb_trajectory_builder_t; bsz b = length (bb_bytes bd) *)
| OPlayer (pl st : ptr).                  (* sb_light_player_t: BytecodePlayer and ArrayBytecodeStore *)

Definition owns_ptr (p : ptr) : list nat := match p with PLib id => [id] | _ => [] end.
Definition owns_buf (b : bufst) : list nat := if bown b then owns_ptr (bp b) else [].
Definition owns (o : obj) : list nat :=
  match o with
  | ONone => []
  | OBuf b | OData _ b | OBuilder _ b => owns_buf b
  | ORth p owner => if owner then owns_ptr p else []
  | OPlayer pl st => owns_ptr pl ++ owns_ptr st
  end.

Definition slots := list obj.
Definition get (s : slots) (i : nat) : obj := nth i s ONone.
Fixpoint set (s : slots) (i : nat) (o : obj) : slots :=
  match s, i with
  | [], _ => []
  | _ :: t, O => o :: t
  | x :: t, S j => x :: set t j o
  end.
Definition in_range (s : slots) (i : nat) : bool := i <? length s.
Definition free_slot (s : slots) (i : nat) : bool :=
  in_range s i && match get s i with ONone => true | _ => false end.

(** * Operations of a scenario *)

Inductive op :=
| OpBufInit (o n : nat)
| OpBufView (o c n : nat)                  (* view of caller block c, n bytes *)
| OpBufFromBytes (o n : nat)               (* the caller allocates n bytes and hands them over *)
| OpBufResize (o n : nat)
| OpBufAppend (o n : nat)
| OpBufExtend (o n : nat)
| OpBufClear (o : nat)
| OpBufPrune (o : nat)
| OpEmpty (k : kind) (o : nat)             (* *_init_empty *)
| OpFromBuffer (k : kind) (o c : nat) (len : nat)   (* *_init_from_buffer: view of caller block c *)
| OpTrajFromBytes (o len : nat)            (* sb_trajectory_init_from_bytes: takes ownership on success *)
| OpFromFile (k : kind) (o : nat) (r : route) (c : nat) (bytes : list Z)
| OpClear (o : nat)                        (* sb_trajectory_clear / sb_light_program_clear *)
| OpDestroy (o : nat)                      (* the destroy function of whatever lives in the slot *)
| OpBuilderInit (o : nat) (scale : Z)
| OpBuilderStart (o : nat) (p : vec4)
| OpBuilderLine (o : nat) (p : vec4) (dur : Z)
| OpBuilderHold (o : nat) (dur : Z)
| OpBuilderFinish (o t : nat)              (* sb_trajectory_init_from_builder into slot t *)
| OpRthToTraj (t : nat) (e : rth_entry) (start : vec4)
| OpPlayerInit (p o : nat)                 (* sb_light_player_init on the light program in slot o *)
| OpPolySolve (nsig : nat)                 (* sb_poly_solve with a null root array, nsig significant coefficients *)
| OpDestroyAll.                            (* destroy every object (end of every scenario) *)

(** result of one call: an error code, or 'not applicable in this state'
    (the call is not made: wrong kind of object in the slot, slot taken, ...) *)
Inductive outcome := Rc (e : Z) | Skipped.

Definition ZENOMEM : Z := SB_ENOMEM.

(** ** loaders *)

Definition min_len_of (k : kind) : nat := min_len k.

(** *_init_from_buffer on n bytes of caller block c *)
Definition from_buffer (k : kind) (c n : nat) (h : heap) : Z * obj * heap :=
  match k with
  | KRth => if n <? 3 then (SB_EPARSE, ONone, h) else (SB_OK, ORth (PCaller c) false, h)
  | KLight =>
    if n =? 0 then
      match b_init 0 h with
      | (Some b, h') => (SB_OK, OData KLight b, h')
      | (None, h') => (ZENOMEM, ONone, h')
      end
    else (SB_OK, OData KLight (b_view c n), h)
  | _ => if n <? min_len k then (SB_EPARSE, ONone, h) else (SB_OK, OData k (b_view c n), h)
  end.

(** sb_i_<kind>_init_from_bytes with an owned block p of n bytes (descriptor
    route); on failure the caller frees p *)
Definition from_owned (k : kind) (p : ptr) (n : nat) (h : heap) : Z * obj * heap :=
  match k with
  | KLight =>
    if n =? 0 then
      match b_init 0 h with
      | (Some b, h') => (SB_OK, OData KLight b, h_free p h')      (* empty program: the copy is released *)
      | (None, h') => (ZENOMEM, ONone, h_free p h')               (* caller of init_from_bytes frees it *)
      end
    else (SB_OK, OData KLight (b_adopt p n), h)
  | _ =>
    if n <? min_len k then (SB_EPARSE, ONone, h_free p h) else (SB_OK, OData k (b_adopt p n), h)
  end.

Definition code_of {A} (r : res A) : Z :=
  match r with Ok _ => SB_OK | Err e => e | OOB _ _ => (-1)%Z | Fuel => (-2)%Z end.

(** *_init_from_binary_file (r = Fd) / *_init_from_binary_file_in_memory (r = Mem, the file is caller block c) *)
Definition from_file (k : kind) (r : route) (c : nat) (bytes : list Z) (h : heap) : Z * obj * heap :=
  match parser_init r bytes with
  | Ok p =>
    match find_first p (kind_type k) with
    | Ok q =>
      match k with
      | KRth =>
        (* sb_i_rth_plan_init_from_parser: always a copy *)
        match h_alloc (p_len q) h with
        | (PNull, h') => (ZENOMEM, ONone, h')
        | (pp, h') =>
          match read_current_block q with
          | Ok (body, _) =>
            if length body <? 3 then (SB_EPARSE, ONone, h_free pp h') else (SB_OK, ORth pp true, h')
          | rr => (code_of rr, ONone, h_free pp h')
          end
        end
      | _ =>
        match r with
        | Fd =>
          (* sb_binary_file_read_current_block_ex without a buffer: allocate, read, free on a short read *)
          match h_alloc (p_len q) h with
          | (PNull, h') => (ZENOMEM, ONone, h')
          | (pp, h') =>
            match read_current_block q with
            | Ok (body, _) => from_owned k pp (length body) h'
            | rr => (code_of rr, ONone, h_free pp h')
            end
          end
        | Mem =>
          match read_current_block_ex q with
          | Ok (body, _, _) => from_buffer k c (length body) h
          | rr => (code_of rr, ONone, h)
          end
        end
      end
    | rr => (code_of rr, ONone, h)
    end
  | rr => (code_of rr, ONone, h)
  end.

(** ** builder with its buffer *)

Definition sync (bd : builder) (b : bufst) : bufst := set_size b (length (bb_bytes bd)).

(** sb_trajectory_builder_append_line: returns the error code and the state
    afterwards (an allocation failure in the second half of a split leaves the
    first half appended) *)
Fixpoint ab_line (fuel : nat) (bd : builder) (b : bufst) (target : vec4) (dur : Z) (h : heap)
  : Z * builder * bufst * heap :=
  match validate_point (bb_scale bd) target with
  | Ok _ =>
    if (BUILDER_MAX_DURATION_MSEC <? dur)%Z then
      match fuel with
      | O => ((-2)%Z, bd, b, h)
      | S f =>
        let half := Z.shiftr dur 1 in
        let last := bb_last bd in
        let mid := mkvec4 (fmid (vx last) (vx target)) (fmid (vy last) (vy target))
                          (fmid (vz last) (vz target)) (fmid (vyaw last) (vyaw target)) in
        match ab_line f bd b mid half h with
        | (0%Z, bd1, b1, h1) => ab_line f bd1 b1 target (dur - half)%Z h1
        | r => r
        end
      end
    else
      match b_extend (sync bd b) 11 h with
      | (0%Z, b1, h1) =>
        match append_segment bd target dur with
        | Ok bd1 => (SB_OK, bd1, sync bd1 b1, h1)        (* trimmed by sb_buffer_resize: never reallocates *)
        | rr => (code_of rr, bd, b1, h1)
        end
      | (e, b1, h1) => (e, bd, b1, h1)
      end
  | rr => (code_of rr, bd, b, h)
  end.

(** sb_trajectory_builder_hold_position_for *)
Fixpoint ab_hold (fuel : nat) (bd : builder) (b : bufst) (dur : Z) (h : heap) : Z * builder * bufst * heap :=
  if (dur <=? 0)%Z then (SB_OK, bd, b, h) else
  match fuel with
  | O => ((-2)%Z, bd, b, h)
  | S f =>
    let cur := Z.min dur BUILDER_MAX_DURATION_MSEC in
    match ab_line 40 bd b (bb_last bd) cur h with
    | (0%Z, bd1, b1, h1) => ab_hold f bd1 b1 (dur - cur)%Z h1
    | r => r
    end
  end.
Definition hold_fuel (dur : Z) : nat := Z.to_nat (dur / BUILDER_MAX_DURATION_MSEC) + 2.

(** sb_trajectory_init_from_builder: (code, trajectory object, builder afterwards, heap) *)
Definition ab_finish (bd : builder) (b : bufst) (h : heap) : Z * obj * builder * bufst * heap :=
  match b_init (Z.to_nat BUILDER_HEADER_LENGTH) h with
  | (Some nb, h1) =>
    let '(_, bd1) := finish bd in
    (SB_OK, OData KTraj (b_adopt (bp b) (length (bb_bytes bd))), bd1, nb, h1)
  | (None, h1) => (ZENOMEM, ONone, bd, b, h1)
  end.

(** sb_trajectory_init_from_rth_plan_entry *)
Definition rth_to_traj (e : rth_entry) (start : vec4) (h : heap) : Z * obj * heap :=
  let a := re_action e in
  let pre :=
    s1 <- scale_update 1 (vx start) (vy start) (vz start) ;;
    s2 <- (if has_neck a then scale_update s1 0 0 (fadd (vz start) (re_neck e)) else Ok s1) ;;
    s3 <- (if has_target a then scale_update s2 (fst (re_target e)) (snd (re_target e)) 0 else Ok s2) ;;
    s4 <- (if has_altitude a then scale_update s3 0 0 (re_altitude e) else Ok s3) ;;
    let start_time := match re_time e with
                      | FVal q => if Qltb q 0 then FVal 0 else FVal q
                      | FInf true => FVal 0
                      | x => x
                      end in
    d0 <- msec_of_sec (fnum_add start_time (if fgt0 (re_pre_delay e) then re_pre_delay e else FVal 0)) ;;
    Ok (s4, d0) in
  match pre with
  | Ok (s4, d0) =>
    match builder_init s4 0 with
    | Ok bd0 =>
      match b_init (Z.to_nat BUILDER_HEADER_LENGTH) h with
      | (None, h1) => (ZENOMEM, ONone, h1)
      | (Some b0, h1) =>
        (* from here on every exit goes through the cleanup label: the builder is destroyed *)
        let cleanup (code : Z) (b : bufst) (hh : heap) : Z * obj * heap := (code, ONone, b_destroy b hh) in
        match set_start_position bd0 start with
        | Ok bd1 =>
          match ab_hold (hold_fuel d0) bd1 b0 d0 h1 with
          | (0%Z, bd2, b2, h2) =>
            let neck := negb (Qeq_bool (re_neck e) 0) || fnonzero (re_neck_duration e) in
            let tgt := mkvec4 (vx start) (vy start) (fadd (vz start) (re_neck e)) (vyaw start) in
            let after_neck : Z * builder * bufst * heap * vec4 :=
              if neck then
                match msec_of_sec (re_neck_duration e) with
                | Ok dn => let '(c, bd3, b3, h3) := ab_line 40 bd2 b2 tgt dn h2 in (c, bd3, b3, h3, tgt)
                | rr => (code_of rr, bd2, b2, h2, start)
                end
              else (SB_OK, bd2, b2, h2, start) in
            let '(c3, bd3, b3, h3, target) := after_neck in
            if negb (c3 =? 0)%Z then cleanup c3 b3 h3 else
            let after_action : Z * builder * bufst * heap :=
              if (a =? SB_RTH_ACTION_LAND)%Z then (SB_OK, bd3, b3, h3)
              else if (a =? SB_RTH_ACTION_GO_TO_KEEPING_ALTITUDE)%Z then
                match msec_of_sec (re_duration e) with
                | Ok d => ab_line 40 bd3 b3 (mkvec4 (fst (re_target e)) (snd (re_target e)) (vz target) (vyaw target)) d h3
                | rr => (code_of rr, bd3, b3, h3)
                end
              else if (a =? SB_RTH_ACTION_GO_TO_WITH_ALTITUDE)%Z then
                match msec_of_sec (re_duration e) with
                | Ok d => ab_line 40 bd3 b3 (mkvec4 (fst (re_target e)) (snd (re_target e)) (re_altitude e) (vyaw target)) d h3
                | rr => (code_of rr, bd3, b3, h3)
                end
              else (SB_EINVAL, bd3, b3, h3) in
            let '(c4, bd4, b4, h4) := after_action in
            if negb (c4 =? 0)%Z then cleanup c4 b4 h4 else
            let after_post : Z * builder * bufst * heap :=
              if fgt0 (re_post_delay e) then
                match msec_of_sec (re_post_delay e) with
                | Ok d => ab_hold (hold_fuel d) bd4 b4 d h4
                | rr => (code_of rr, bd4, b4, h4)
                end
              else (SB_OK, bd4, b4, h4) in
            let '(c5, bd5, b5, h5) := after_post in
            if negb (c5 =? 0)%Z then cleanup c5 b5 h5 else
            match ab_finish bd5 (sync bd5 b5) h5 with
            | (0%Z, tr, _, nb, h6) => (SB_OK, tr, b_destroy nb h6)
            | (c6, _, _, b6, h6) => cleanup c6 b6 h6
            end
          | (c2, _, b2, h2) => cleanup c2 b2 h2
          end
        | rr => cleanup (code_of rr) b0 h1
        end
      end
    | rr => (code_of rr, ONone, h)
    end
  | rr => (code_of rr, ONone, h)
  end.

(** ** destroy *)
Definition destroy_obj (o : obj) (h : heap) : heap :=
  match o with
  | ONone => h
  | OBuf b | OData _ b | OBuilder _ b => b_destroy b h
  | ORth p owner => if owner then h_free p h else h
  | OPlayer pl st => h_delete pl (h_delete st h)
  end.

Fixpoint destroy_all (s : slots) (h : heap) : slots * heap :=
  match s with
  | [] => ([], h)
  | o :: t => let '(t', h') := destroy_all t (destroy_obj o h) in (ONone :: t', h')
  end.

(** ** one call *)
Definition with_buf (s : slots) (o : nat) (h : heap) (f : bufst -> heap -> Z * bufst * heap) : outcome * slots * heap :=
  match get s o with
  | OBuf b => let '(c, b', h') := f b h in (Rc c, set s o (OBuf b'), h')
  | _ => (Skipped, s, h)
  end.

Definition step (s : slots) (h : heap) (c : op) : outcome * slots * heap :=
  match c with
  | OpBufInit o n =>
    if free_slot s o then
      match b_init n h with
      | (Some b, h') => (Rc SB_OK, set s o (OBuf b), h')
      | (None, h') => (Rc ZENOMEM, s, h')
      end
    else (Skipped, s, h)
  | OpBufView o c n => if free_slot s o then (Rc SB_OK, set s o (OBuf (b_view c n)), h) else (Skipped, s, h)
  | OpBufFromBytes o n =>
    if free_slot s o then
      let '(p, h1) := h_caller_alloc n h in
      if n =? 0 then (Rc SB_EINVAL, s, h_free p h1)      (* refused: the caller keeps and frees its block *)
      else (Rc SB_OK, set s o (OBuf (b_adopt p n)), h1)
    else (Skipped, s, h)
  | OpBufResize o n => with_buf s o h (fun b => b_resize b n)
  | OpBufAppend o n => with_buf s o h (fun b => b_append b n)
  | OpBufExtend o n => with_buf s o h (fun b => b_extend b n)
  | OpBufClear o => with_buf s o h b_clear
  | OpBufPrune o => with_buf s o h b_prune
  | OpEmpty k o =>
    if free_slot s o then
      match k with
      | KRth => (Rc SB_OK, set s o (ORth PNull false), h)
      | _ => match b_init 0 h with
             | (Some b, h') => (Rc SB_OK, set s o (OData k b), h')
             | (None, h') => (Rc ZENOMEM, s, h')
             end
      end
    else (Skipped, s, h)
  | OpFromBuffer k o c n =>
    if free_slot s o then
      let '(e, ob, h') := from_buffer k c n h in (Rc e, set s o ob, h')
    else (Skipped, s, h)
  | OpTrajFromBytes o n =>
    if free_slot s o then
      let '(p, h1) := h_caller_alloc n h in
      if n <? 9 then (Rc SB_EPARSE, s, h_free p h1)      (* refused: the caller keeps and frees its block *)
      else (Rc SB_OK, set s o (OData KTraj (b_adopt p n)), h1)
    else (Skipped, s, h)
  | OpFromFile k o r c bytes =>
    if free_slot s o then
      let '(e, ob, h') := from_file k r c bytes h in (Rc e, set s o ob, h')
    else (Skipped, s, h)
  | OpClear o =>
    match get s o with
    | OData KTraj b =>
      if bown b then let '(e, b', h') := b_clear b h in (Rc e, set s o (OData KTraj b'), h')
      else (Rc SB_OK, s, h)                              (* a view is filled with zeros in place *)
    | OData KLight b =>
      if bown b then let '(_, b', h') := b_clear b h in (Rc SB_OK, set s o (OData KLight b'), h')
      else (Rc SB_OK, set s o (OData KLight (mkb (bp b) 0 0 false)), h)
    | _ => (Skipped, s, h)
    end
  | OpDestroy o =>
    if in_range s o then
      match get s o with
      | ONone => (Skipped, s, h)
      | ob => (Rc SB_OK, set s o ONone, destroy_obj ob h)
      end
    else (Skipped, s, h)
  | OpBuilderInit o scale =>
    if free_slot s o then
      match builder_init scale 0 with
      | Ok bd =>
        match b_init (Z.to_nat BUILDER_HEADER_LENGTH) h with
        | (Some b, h') => (Rc SB_OK, set s o (OBuilder bd b), h')
        | (None, h') => (Rc ZENOMEM, s, h')
        end
      | rr => (Rc (code_of rr), s, h)
      end
    else (Skipped, s, h)
  | OpBuilderStart o p =>
    match get s o with
    | OBuilder bd b =>
      match set_start_position bd p with
      | Ok bd' => (Rc SB_OK, set s o (OBuilder bd' b), h)
      | rr => (Rc (code_of rr), s, h)
      end
    | _ => (Skipped, s, h)
    end
  | OpBuilderLine o p dur =>
    match get s o with
    | OBuilder bd b => let '(e, bd', b', h') := ab_line 40 bd b p dur h in (Rc e, set s o (OBuilder bd' b'), h')
    | _ => (Skipped, s, h)
    end
  | OpBuilderHold o dur =>
    match get s o with
    | OBuilder bd b => let '(e, bd', b', h') := ab_hold (hold_fuel dur) bd b dur h in (Rc e, set s o (OBuilder bd' b'), h')
    | _ => (Skipped, s, h)
    end
  | OpBuilderFinish o t =>
    match get s o with
    | OBuilder bd b =>
      if free_slot s t then
        let '(e, tr, bd', b', h') := ab_finish bd (sync bd b) h in
        (Rc e, set (set s o (OBuilder bd' b')) t tr, h')
      else (Skipped, s, h)
    | _ => (Skipped, s, h)
    end
  | OpRthToTraj t e start =>
    if free_slot s t then
      let '(c, tr, h') := rth_to_traj e start h in (Rc c, set s t tr, h')
    else (Skipped, s, h)
  | OpPlayerInit p o =>
    match get s o with
    | OData KLight _ =>
      if free_slot s p then
        let '(pl, h1) := h_new h in
        let '(st, h2) := h_new h1 in
        (Rc SB_OK, set s p (OPlayer pl st), h2)
      else (Skipped, s, h)
    | _ => (Skipped, s, h)
    end
  | OpPolySolve nsig =>
    if nsig =? 0 then (Rc SB_OK, s, h)
    else match h_alloc (4 * nsig) h with
         | (PNull, h') => (Rc ZENOMEM, s, h')
         | (p, h') => (Rc (if nsig <=? 4 then SB_OK else SB_EUNIMPLEMENTED), s, h_free p h')
         end
  | OpDestroyAll => let '(s', h') := destroy_all s h in (Rc SB_OK, s', h')
  end.

Fixpoint run (s : slots) (h : heap) (ops : list op) : list outcome * slots * heap :=
  match ops with
  | [] => ([], s, h)
  | c :: rest =>
    let '(r, s1, h1) := step s h c in
    let '(rs, s2, h2) := run s1 h1 rest in
    (r :: rs, s2, h2)
  end.

(** a scenario: n empty slots, the given failure index, the operations, and
    finally everything is destroyed *)
Definition scenario (n : nat) (fail : option nat) (ops : list op) : list outcome * slots * heap :=
  run (repeat ONone n) (heap0 fail) (ops ++ [OpDestroyAll]).

Definition trace_of (h : heap) : list event := rev (h_trace h).
