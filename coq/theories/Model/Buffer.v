(** Model of src/buffer.c: the growable byte buffer (contents, size, capacity,
    ownership) with the capacity arithmetic of the code, so that which calls
    reallocate is predicted exactly. *)
From Coq Require Import ZArith List.
From SB Require Import Base.Prelude Gen.Generated.
Import ListNotations.
Local Open Scope nat_scope.

Record buffer := mkbuf { bf_data : list Z; bf_cap : nat; bf_owned : bool }.

Definition bf_size (b : buffer) : nat := length (bf_data b).

(** sb_buffer_init *)
Definition buf_init (n : nat) : buffer := mkbuf (repeat 0%Z n) (Nat.max n 1) true.
(** sb_buffer_init_from_bytes (takes ownership of the block) *)
Definition buf_init_from_bytes (bytes : list Z) : res buffer :=
  match bytes with [] => Err SB_EINVAL | _ => Ok (mkbuf bytes (length bytes) true) end.
(** sb_buffer_init_view *)
Definition buf_init_view (bytes : list Z) : buffer := mkbuf bytes (length bytes) false.

(** sb_i_buffer_realloc *)
Definition buf_realloc (b : buffer) (new_cap : nat) : res buffer :=
  let new_cap := Nat.max new_cap 1 in
  if bf_cap b =? new_cap then Ok b
  else if negb (bf_owned b) then Err SB_FAILURE
  else Ok (mkbuf (firstn new_cap (bf_data b)) new_cap true).

(** sb_buffer_resize *)
Definition buf_resize (b : buffer) (n : nat) : res buffer :=
  if negb (bf_owned b) then Err SB_FAILURE
  else if bf_size b <? n then
    b1 <- buf_realloc b n ;;
    Ok (mkbuf (bf_data b1 ++ repeat 0%Z (n - bf_size b1)) (bf_cap b1) true)
  else Ok (mkbuf (firstn n (bf_data b)) (bf_cap b) true).

Definition buf_clear (b : buffer) : res buffer := buf_resize b 0.
Definition buf_prune (b : buffer) : res buffer := buf_realloc b (bf_size b).
Definition buf_fill (b : buffer) (v : Z) : buffer := mkbuf (repeat v (bf_size b)) (bf_cap b) (bf_owned b).

(** sb_i_buffer_ensure_free_space: doubling until it fits (sizes far below
    SIZE_MAX: the overflow branches are not modelled) *)
Fixpoint grow (fuel cap need : nat) : nat :=
  match fuel with
  | O => cap
  | S f => if cap <? need then grow f (2 * cap) need else cap
  end.
Definition buf_ensure (b : buffer) (min_space : nat) : res buffer :=
  if min_space =? 0 then Ok b
  else buf_realloc b (grow 64 (Nat.max (bf_cap b) 1) (bf_size b + min_space)).

(** sb_buffer_append_bytes *)
Definition buf_append (b : buffer) (bytes : list Z) : res buffer :=
  b1 <- buf_ensure b (length bytes) ;;
  Ok (mkbuf (bf_data b1 ++ bytes) (bf_cap b1) (bf_owned b1)).

(** sb_buffer_extend_with_zeros (it reserves size + n more bytes, as the code does) *)
Definition buf_extend_zeros (b : buffer) (n : nat) : res buffer :=
  b1 <- buf_ensure b (bf_size b + n) ;;
  Ok (mkbuf (bf_data b1 ++ repeat 0%Z n) (bf_cap b1) (bf_owned b1)).
