(** Model of src/trajectory/builder.c and of
    sb_trajectory_init_from_rth_plan_entry (src/rth_plan/rth_plan.c), bit-exact
    on binary32 where a discrete outcome depends on it (quantisation, range
    test, flags by float equality, midpoints).  Follows the repaired code: a
    failing call leaves the builder untouched. *)
From Coq Require Import ZArith QArith Qround List.
From SB Require Import Base.Prelude Base.Num Base.F32 Gen.Generated Model.Codec Model.Traj Model.Utils Model.Rth.
Import ListNotations.
Local Open Scope Z_scope.

Record builder := mkbuilder {
  bb_bytes : list Z;
  bb_last : vec4;           (* last_position: exact values of the binary32 fields *)
  bb_scale : Z
}.

Definition zero_vec : vec4 := mkvec4 0 0 0 0.

(** sb_trajectory_builder_init *)
Definition builder_init (scale flags : Z) : res builder :=
  if (scale =? 0) || (127 <? scale) then Err SB_EINVAL
  else Ok (mkbuilder ((scale + (if Z.land flags SB_TRAJECTORY_USE_YAW =? 0 then 0 else 128)) :: repeat 0 8)
                     zero_vec scale).

(** sb_i_trajectory_builder_scale_coordinate: floorf(coordinate / scale), range test *)
Definition scale_coordinate (scale : Z) (c : Q) : res Z :=
  let v := ffloor (fdiv c (inject_Z scale)) in
  if (v <? -32768) || (32767 <? v) then Err SB_EINVAL else Ok v.

(** sb_i_trajectory_builder_write_angle: (int16_t)(fmodf(angle, 360) * 10.0f), + 3600 if negative *)
Definition fmod360 (a : Q) : Q := Qred (a - inject_Z (360 * ftrunc (a / inject_Z 360))).
Definition scale_angle (a : Q) : Z :=
  let v := ftrunc (fmul (fmod360 a) (inject_Z 10)) in
  if v <? 0 then v + 3600 else v.

Definition put16 (b : list Z) (off : nat) (v : Z) : list Z := fst (write_u16 b off v).

Definition validate_point (scale : Z) (p : vec4) : res unit :=
  _ <- scale_coordinate scale (vx p) ;; _ <- scale_coordinate scale (vy p) ;;
  _ <- scale_coordinate scale (vz p) ;; Ok tt.

(** sb_trajectory_builder_set_start_position *)
Definition set_start_position (b : builder) (start : vec4) : res builder :=
  if negb (length (bb_bytes b) =? Z.to_nat BUILDER_HEADER_LENGTH)%nat then Err SB_FAILURE else
  _ <- validate_point (bb_scale b) start ;;
  x <- scale_coordinate (bb_scale b) (vx start) ;;
  y <- scale_coordinate (bb_scale b) (vy start) ;;
  z <- scale_coordinate (bb_scale b) (vz start) ;;
  let bytes := put16 (put16 (put16 (put16 (bb_bytes b) 1 x) 3 y) 5 z) 7 (scale_angle (vyaw start)) in
  Ok (mkbuilder bytes start (bb_scale b)).

(** one segment of at most 60 s (the non-splitting part of append_line) *)
Definition append_segment (b : builder) (target : vec4) (dur : Z) : res builder :=
  let last := bb_last b in
  let sc := bb_scale b in
  let chg (a c : Q) := negb (Qeq_bool a c) in
  x <- (if chg (vx last) (vx target) then scale_coordinate sc (vx target) else Ok 0) ;;
  y <- (if chg (vy last) (vy target) then scale_coordinate sc (vy target) else Ok 0) ;;
  z <- (if chg (vz last) (vz target) then scale_coordinate sc (vz target) else Ok 0) ;;
  let e16 (v : Z) := let u := v mod 65536 in [u mod 256; u / 256] in
  let flags := (if chg (vx last) (vx target) then 1 else 0) + (if chg (vy last) (vy target) then 4 else 0)
               + (if chg (vz last) (vz target) then 16 else 0) + (if chg (vyaw last) (vyaw target) then 64 else 0) in
  let seg := flags :: e16 dur
             ++ (if chg (vx last) (vx target) then e16 x else [])
             ++ (if chg (vy last) (vy target) then e16 y else [])
             ++ (if chg (vz last) (vz target) then e16 z else [])
             ++ (if chg (vyaw last) (vyaw target) then e16 (scale_angle (vyaw target)) else []) in
  Ok (mkbuilder (bb_bytes b ++ seg) target sc).

Definition fmid (a c : Q) : Q := fdiv (fadd a c) (inject_Z 2).

(** sb_trajectory_builder_append_line: validation first, halving above 60 s.
    [fuel] bounds the recursion depth (17 suffices for 32-bit durations). *)
Fixpoint append_line_rec (fuel : nat) (b : builder) (target : vec4) (dur : Z) : res builder :=
  _ <- validate_point (bb_scale b) target ;;
  if BUILDER_MAX_DURATION_MSEC <? dur then
    match fuel with
    | O => Fuel
    | S f =>
      let half := Z.shiftr dur 1 in
      let last := bb_last b in
      let mid := mkvec4 (fmid (vx last) (vx target)) (fmid (vy last) (vy target))
                        (fmid (vz last) (vz target)) (fmid (vyaw last) (vyaw target)) in
      b1 <- append_line_rec f b mid half ;;
      append_line_rec f b1 target (dur - half)
    end
  else append_segment b target dur.

Definition append_line (b : builder) (target : vec4) (dur : Z) : res builder :=
  append_line_rec 40 b target dur.

(** sb_trajectory_builder_hold_position_for *)
Fixpoint hold_rec (fuel : nat) (b : builder) (dur : Z) : res builder :=
  if dur <=? 0 then Ok b else
  match fuel with
  | O => Fuel
  | S f =>
    let cur := Z.min dur BUILDER_MAX_DURATION_MSEC in
    b1 <- append_line b (bb_last b) cur ;;
    hold_rec f b1 (dur - cur)
  end.
Definition hold_position_for (b : builder) (dur : Z) : res builder :=
  hold_rec (Z.to_nat (dur / BUILDER_MAX_DURATION_MSEC) + 2) b dur.

(** The same function in closed form (what the loop above produces: one
    60 s hold segment per full minute, then the remainder), used to *run*
    holds of days (tens of thousands of segments) in the correspondence;
    [hold_fast_eq] (Proofs/BuilderFast_Proofs.v) proves it equal to the
    transcription above for every builder and duration. *)
Definition hold_seg (dur : Z) : list Z := let u := dur mod 65536 in [0; u mod 256; u / 256].
Definition hold_fast (b : builder) (dur : Z) : res builder :=
  if dur <=? 0 then Ok b else
  _ <- validate_point (bb_scale b) (bb_last b) ;;
  let q := dur / BUILDER_MAX_DURATION_MSEC in
  let r := dur mod BUILDER_MAX_DURATION_MSEC in
  Ok (mkbuilder (bb_bytes b ++ concat (repeat (hold_seg BUILDER_MAX_DURATION_MSEC) (Z.to_nat q))
                           ++ (if 0 <? r then hold_seg r else []))
                (bb_last b) (bb_scale b)).

(** sb_trajectory_init_from_builder: the trajectory takes the bytes, the
    builder restarts with the same header byte (scale and last position kept) *)
Definition finish (b : builder) : list Z * builder :=
  (bb_bytes b, mkbuilder (hd 0 (bb_bytes b) :: repeat 0 8) (bb_last b) (bb_scale b)).

(** ---- sb_trajectory_init_from_rth_plan_entry ---- *)
Record rth_entry := mkrthe {
  re_time : fnum;             (* time_sec *)
  re_action : Z;
  re_duration : fnum;
  re_target : Q * Q;
  re_altitude : Q;
  re_pre_delay : fnum;
  re_post_delay : fnum;
  re_neck : Q;
  re_neck_duration : fnum
}.

Definition fgt0 (x : fnum) : bool :=
  match x with FVal q => Qltb 0 q | FInf n => negb n | FNan => false end.
Definition fnonzero (x : fnum) : bool :=
  match x with FVal q => negb (Qeq_bool q 0) | _ => true end.
Definition fnum_add := fn_add.

Definition rth_to_trajectory (e : rth_entry) (start : vec4) : res (list Z) :=
  let a := re_action e in
  s1 <- scale_update 1 (vx start) (vy start) (vz start) ;;
  s2 <- (if has_neck a then scale_update s1 0 0 (fadd (vz start) (re_neck e)) else Ok s1) ;;
  s3 <- (if has_target a then scale_update s2 (fst (re_target e)) (snd (re_target e)) 0 else Ok s2) ;;
  s4 <- (if has_altitude a then scale_update s3 0 0 (re_altitude e) else Ok s3) ;;
  let start_time := match re_time e with
                    | FVal q => if Qltb q 0 then FVal 0 else FVal q
                    | FInf true => FVal 0
                    | x => x
                    end in
  d0 <- msec_of_sec (fnum_add start_time (if fgt0 (re_pre_delay e) then re_pre_delay e else FVal 0)) ;;
  b <- builder_init s4 0 ;;
  b <- set_start_position b start ;;
  b <- hold_position_for b d0 ;;
  (* pre-neck *)
  r <- (if negb (Qeq_bool (re_neck e) 0) || fnonzero (re_neck_duration e) then
          dn <- msec_of_sec (re_neck_duration e) ;;
          let tgt := mkvec4 (vx start) (vy start) (fadd (vz start) (re_neck e)) (vyaw start) in
          b' <- append_line b tgt dn ;; Ok (b', tgt)
        else Ok (b, start)) ;;
  let '(b, target) := r in
  b <- (if a =? SB_RTH_ACTION_LAND then Ok b
        else if a =? SB_RTH_ACTION_GO_TO_KEEPING_ALTITUDE then
          d <- msec_of_sec (re_duration e) ;;
          append_line b (mkvec4 (fst (re_target e)) (snd (re_target e)) (vz target) (vyaw target)) d
        else if a =? SB_RTH_ACTION_GO_TO_WITH_ALTITUDE then
          d <- msec_of_sec (re_duration e) ;;
          append_line b (mkvec4 (fst (re_target e)) (snd (re_target e)) (re_altitude e) (vyaw target)) d
        else Err SB_EINVAL) ;;
  b <- (if fgt0 (re_post_delay e) then
          d <- msec_of_sec (re_post_delay e) ;; hold_position_for b d
        else Ok b) ;;
  Ok (fst (finish b)).

(** the same conversion with the closed-form hold (equal by [rth_fast_eq]) *)
Definition rth_to_trajectory_fast (e : rth_entry) (start : vec4) : res (list Z) :=
  let a := re_action e in
  s1 <- scale_update 1 (vx start) (vy start) (vz start) ;;
  s2 <- (if has_neck a then scale_update s1 0 0 (fadd (vz start) (re_neck e)) else Ok s1) ;;
  s3 <- (if has_target a then scale_update s2 (fst (re_target e)) (snd (re_target e)) 0 else Ok s2) ;;
  s4 <- (if has_altitude a then scale_update s3 0 0 (re_altitude e) else Ok s3) ;;
  let start_time := match re_time e with
                    | FVal q => if Qltb q 0 then FVal 0 else FVal q
                    | FInf true => FVal 0
                    | x => x
                    end in
  d0 <- msec_of_sec (fnum_add start_time (if fgt0 (re_pre_delay e) then re_pre_delay e else FVal 0)) ;;
  b <- builder_init s4 0 ;;
  b <- set_start_position b start ;;
  b <- hold_fast b d0 ;;
  (* pre-neck *)
  r <- (if negb (Qeq_bool (re_neck e) 0) || fnonzero (re_neck_duration e) then
          dn <- msec_of_sec (re_neck_duration e) ;;
          let tgt := mkvec4 (vx start) (vy start) (fadd (vz start) (re_neck e)) (vyaw start) in
          b' <- append_line b tgt dn ;; Ok (b', tgt)
        else Ok (b, start)) ;;
  let '(b, target) := r in
  b <- (if a =? SB_RTH_ACTION_LAND then Ok b
        else if a =? SB_RTH_ACTION_GO_TO_KEEPING_ALTITUDE then
          d <- msec_of_sec (re_duration e) ;;
          append_line b (mkvec4 (fst (re_target e)) (snd (re_target e)) (vz target) (vyaw target)) d
        else if a =? SB_RTH_ACTION_GO_TO_WITH_ALTITUDE then
          d <- msec_of_sec (re_duration e) ;;
          append_line b (mkvec4 (fst (re_target e)) (snd (re_target e)) (re_altitude e) (vyaw target)) d
        else Err SB_EINVAL) ;;
  b <- (if fgt0 (re_post_delay e) then
          d <- msec_of_sec (re_post_delay e) ;; hold_fast b d
        else Ok b) ;;
  Ok (fst (finish b)).
