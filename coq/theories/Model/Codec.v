(** Model of src/parsing.c: fixed-width little-endian codecs and the
    variable-length unsigned integer decoder (transcribed from the C loop). *)
From SB Require Import Base.Prelude Gen.Generated.
Local Open Scope Z_scope.

(** sb_parse_uint16 / int16 / uint32 / int32: value and new offset; [None] is
    a read outside the byte list (the C functions do not check). *)
Definition parse_u16 (b : list Z) (off : nat) : option (Z * nat) :=
  match rd b off, rd b (off + 1) with
  | Some b0, Some b1 => Some (le16 b0 b1, (off + 2)%nat)
  | _, _ => None
  end.

Definition parse_i16 (b : list Z) (off : nat) : option (Z * nat) :=
  match parse_u16 b off with
  | Some (u, o) => Some (sx16 u, o)
  | None => None
  end.

Definition parse_u32 (b : list Z) (off : nat) : option (Z * nat) :=
  match rd b off, rd b (off + 1), rd b (off + 2), rd b (off + 3) with
  | Some b0, Some b1, Some b2, Some b3 => Some (le32 b0 b1 b2 b3, (off + 4)%nat)
  | _, _, _, _ => None
  end.

Definition parse_i32 (b : list Z) (off : nat) : option (Z * nat) :=
  match parse_u32 b off with
  | Some (u, o) => Some (sx32 u, o)
  | None => None
  end.

(** sb_write_uint16 etc.: the value is first converted to the unsigned type
    of the same width (C conversion = reduction modulo 2^16 / 2^32). *)
Definition write_u16 (b : list Z) (off : nat) (v : Z) : list Z * nat :=
  let u := v mod 65536 in
  (upd (upd b off (u mod 256)) (off + 1) (u / 256), (off + 2)%nat).

Definition write_i16 := write_u16.

Definition write_u32 (b : list Z) (off : nat) (v : Z) : list Z * nat :=
  let u := v mod 4294967296 in
  (upd (upd (upd (upd b off (u mod 256)) (off + 1) ((u / 256) mod 256))
         (off + 2) ((u / 65536) mod 256)) (off + 3) ((u / 16777216) mod 256),
   (off + 4)%nat).

Definition write_i32 := write_u32.

(** sb_parse_varuint32 (buf, num_bytes, offset): the two C loops.
    Result: error code or value, final offset, and the largest index read
    plus one (0 if nothing was read) -- the "never reads at or beyond the
    stated buffer length" observable.  [n] is the *stated* length; reads go
    through [rd] on the real list, so a read at index >= n would be visible
    even when the list is longer. *)
Inductive vu_result :=
| VuOk (value : Z) (off : nat)
| VuErr (code : Z) (off : nat)
| VuOOB (off : nat).

(* second loop: skip the rest of the encoding; [byte] is the last byte read *)
Fixpoint vu_drain (fuel : nat) (b : list Z) (n : nat) (off : nat) (byte : Z) : vu_result :=
  if Z.land byte 128 =? 0 then VuErr SB_EOVERFLOW off
  else if (n <=? off)%nat then VuErr SB_EPARSE off
  else match fuel with
       | O => VuOOB off
       | S f =>
         match rd b off with
         | None => VuOOB off
         | Some byte' => vu_drain f b n (S off) byte'
         end
       end.

(* first loop; value/num_bits/bits_left are the C locals *)
Fixpoint vu_loop (fuel : nat) (b : list Z) (n : nat) (off : nat)
         (value num_bits bits_left : Z) : vu_result :=
  match fuel with
  | O => VuOOB off
  | S f =>
    if (n <=? off)%nat then VuErr SB_EPARSE off
    else match rd b off with
         | None => VuOOB off
         | Some byte =>
           let off' := S off in
           if (bits_left <? 7) && (0 <? Z.shiftr byte bits_left)
           then vu_drain n b n off' byte
           else
             (* uint32 arithmetic: shift and add wrap modulo 2^32 *)
             let value' := (value + (Z.shiftl (Z.land byte 127) num_bits) mod 4294967296) mod 4294967296 in
             if Z.land byte 128 =? 0 then VuOk value' off'
             else
               let num_bits' := num_bits + 7 in
               let bits_left' := bits_left - 7 in
               if 31 <? num_bits' then vu_drain n b n off' byte
               else vu_loop f b n off' value' num_bits' bits_left'
         end
  end.

Definition parse_varuint32 (b : list Z) (n : nat) (off : nat) : vu_result :=
  vu_loop 6 b n off 0 0 32.
