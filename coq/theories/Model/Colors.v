(** Model of the integer parts of src/lights/colors.c. *)
From SB Require Import Base.Prelude.
Local Open Scope Z_scope.

Record rgb := mkrgb { red : Z; green : Z; blue : Z }.
Record rgbw := mkrgbw { wr : Z; wg : Z; wb : Z; ww : Z }.

Definition rgb_eqb (a b : rgb) : bool :=
  (red a =? red b) && (green a =? green b) && (blue a =? blue b).

(** sb_rgb_color_decode_rgb565 *)
Definition decode_rgb565 (c : Z) : rgb :=
  mkrgb (Z.shiftr (Z.land c 63488) 8)
        (Z.shiftr (Z.land c 2016) 3)
        (Z.shiftl (Z.land c 31) 3).

(** sb_rgb_color_encode_rgb565 *)
Definition encode_rgb565 (c : rgb) : Z :=
  Z.lor (Z.lor (Z.shiftl (Z.land (Z.shiftr (red c) 3) 31) 11)
               (Z.shiftl (Z.land (Z.shiftr (green c) 2) 63) 5))
        (Z.land (Z.shiftr (blue c) 3) 31).

(** sb_rgb_color_to_rgbw, integer methods *)
Definition rgbw_min_sub (c : rgb) : rgbw :=
  let v := Z.min (red c) (Z.min (green c) (blue c)) in
  mkrgbw (red c - v) (green c - v) (blue c - v) v.

Definition rgbw_fixed (c : rgb) (w : Z) : rgbw :=
  mkrgbw (red c) (green c) (blue c) w.

(** ---- float parts of colors.c, bit-exact on binary32 (Base/F32.v) ---- *)
From Coq Require Import QArith Qround.
From SB Require Import Base.Num Base.F32.
Local Open Scope Z_scope.

(** sb_rgb_color_linear_interpolation, one channel:
    (uint8_t) clamp(first + (second - first) * ratio, 0, 255) *)
Definition interp_channel (a b : Z) (ratio : Q) : Z :=
  let v := fadd (inject_Z a) (fmul (inject_Z (b - a)) ratio) in
  if Qltb v 0 then 0 else if Qltb (inject_Z 255) v then 255 else ftrunc v.

Definition interp_rgb (c1 c2 : rgb) (ratio : Q) : rgb :=
  mkrgb (interp_channel (red c1) (red c2) ratio) (interp_channel (green c1) (green c2) ratio)
        (interp_channel (blue c1) (blue c2) ratio).

(** sb_rgbw_conversion_use_reference_color + sb_rgb_color_to_rgbw (reference method) *)
Definition ref_mul (ref : rgb) : Q * Q * Q :=
  let mx := Z.max 1 (Z.max (red ref) (Z.max (green ref) (blue ref))) in
  let m (c : Z) := if 1 <=? c then fdiv (inject_Z mx) (inject_Z c) else inject_Z 255 in
  (m (red ref), m (green ref), m (blue ref)).

Definition rgbw_reference (c ref : rgb) : rgbw :=
  let '(m0, m1, m2) := ref_mul ref in
  let d0 := fdiv 1 m0 in let d1 := fdiv 1 m1 in let d2 := fdiv 1 m2 in
  let s0 := fmul (inject_Z (red c)) m0 in
  let s1 := fmul (inject_Z (green c)) m1 in
  let s2 := fmul (inject_Z (blue c)) m2 in
  let mn := Qmin' (Qmin' s0 s1) s2 in
  let w := if Qle_bool mn 0 then 0 else if Qle_bool mn (inject_Z 255) then ftrunc mn else 255 in
  let chan (x : Z) (d : Q) :=
    let corr := fmul (inject_Z w) d in
    if Qltb corr (inject_Z x) then ftrunc (fsub (inject_Z x) corr) else 0 in
  mkrgbw (chan (red c) d0) (chan (green c) d1) (chan (blue c) d2) w.
