(** Model of the integer parts of src/lights/colors.c. *)
From SB Require Import Base.Prelude.
Local Open Scope Z_scope.

Record rgb := mkrgb { red : Z; green : Z; blue : Z }.
Record rgbw := mkrgbw { wr : Z; wg : Z; wb : Z; ww : Z }.

Definition rgb_eqb (a b : rgb) : bool :=
  (red a =? red b) && (green a =? green b) && (blue a =? blue b).

(** sb_rgb_color_decode_rgb565 *)
Definition decode_rgb565 (c : Z) : rgb :=
  mkrgb (Z.shiftr (Z.land c 63488) 8)
        (Z.shiftr (Z.land c 2016) 3)
        (Z.shiftl (Z.land c 31) 3).

(** sb_rgb_color_encode_rgb565 *)
Definition encode_rgb565 (c : rgb) : Z :=
  Z.lor (Z.lor (Z.shiftl (Z.land (Z.shiftr (red c) 3) 31) 11)
               (Z.shiftl (Z.land (Z.shiftr (green c) 2) 63) 5))
        (Z.land (Z.shiftr (blue c) 3) 31).

(** sb_rgb_color_to_rgbw, integer methods *)
Definition rgbw_min_sub (c : rgb) : rgbw :=
  let v := Z.min (red c) (Z.min (green c) (blue c)) in
  mkrgbw (red c - v) (green c - v) (blue c - v) v.

Definition rgbw_fixed (c : rgb) (w : Z) : rgbw :=
  mkrgbw (red c) (green c) (blue c) w.
