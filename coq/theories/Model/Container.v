(** Model of src/formats/binary.c: the .skyb container parser over the two
    file abstractions (memory buffer / file descriptor). *)
From SB Require Import Base.Prelude Gen.Generated Model.Crc.
Local Open Scope Z_scope.

Inductive route := Mem | Fd.

(** Parser state: the bytes, the read position, and the public fields of
    sb_binary_file_parser_t. *)
Record parser := mkparser {
  p_route : route;
  p_bytes : list Z;
  p_pos : nat;
  p_version : Z;
  p_features : Z;
  p_start : nat;          (* start_of_first_block *)
  p_type : Z;             (* current_block.type *)
  p_len : nat;            (* current_block.length *)
  p_body : nat            (* current_block.start_of_body *)
}.

Definition set_pos (p : parser) (pos : nat) : parser :=
  mkparser (p_route p) (p_bytes p) pos (p_version p) (p_features p) (p_start p) (p_type p) (p_len p) (p_body p).
Definition set_block (p : parser) (t : Z) (l b : nat) : parser :=
  mkparser (p_route p) (p_bytes p) (p_pos p) (p_version p) (p_features p) (p_start p) t l b.

(** sb_i_binary_file_read: returns the bytes read (count = their length) and
    the new state.  Memory: clamps to the end.  Descriptor: the read(2)
    contract for regular files: min(n, remaining), nothing when the position is
    at or beyond the end. *)
Definition f_read (p : parser) (n : nat) : list Z * parser :=
  let got := firstn n (skipn (p_pos p) (p_bytes p)) in
  match p_route p with
  | Mem => (got, set_pos p (Nat.min (p_pos p + n) (length (p_bytes p))))
  | Fd => (got, set_pos p (p_pos p + length got))
  end.

(** sb_i_binary_file_seek: memory refuses offsets beyond the end, lseek(2)
    accepts any non-negative offset. *)
Definition f_seek (p : parser) (off : nat) : res parser :=
  match p_route p with
  | Mem => if (length (p_bytes p) <? off)%nat then Err SB_EREAD else Ok (set_pos p off)
  | Fd => Ok (set_pos p off)
  end.

(** sb_i_binary_file_read_next_block_header *)
Definition read_next_block_header (p : parser) : res parser :=
  let '(t, p1) := f_read p 1 in
  match t with
  | [] => Ok (set_block p1 SB_BINARY_BLOCK_NONE 0 0)
  | ty :: _ =>
    let '(l, p2) := f_read p1 2 in
    match l with
    | [l0; l1] => Ok (set_block p2 ty (Z.to_nat (le16 l0 l1)) (p_pos p2))
    | _ => Err SB_EREAD
    end
  end.

(** sb_binary_file_rewind *)
Definition rewind (p : parser) : res parser :=
  p1 <- f_seek p (p_start p) ;; read_next_block_header p1.

Definition block_valid (p : parser) : bool := negb (p_type p =? SB_BINARY_BLOCK_NONE).

(** sb_binary_file_seek_to_next_block *)
Definition seek_to_next_block (p : parser) : res parser :=
  if block_valid p then
    p1 <- f_seek p (p_body p + p_len p) ;; read_next_block_header p1
  else Err SB_EREAD.

(** sb_binary_file_find_first_block_by_type; the loop visits at most one block
    per three bytes of input, so [length bytes + 1] iterations suffice. *)
Fixpoint find_loop (fuel : nat) (p : parser) (ty : Z) : res parser :=
  match fuel with
  | O => Fuel
  | S f =>
    if negb (block_valid p) then Err SB_ENOENT
    else if p_type p =? ty then Ok p
    else p1 <- seek_to_next_block p ;; find_loop f p1 ty
  end.

Definition find_first (p : parser) (ty : Z) : res parser :=
  p1 <- rewind p ;; find_loop (S (length (p_bytes p))) p1 ty.

(** sb_binary_file_read_current_block: the body bytes (copied out) *)
Definition read_current_block (p : parser) : res (list Z * parser) :=
  if block_valid p then
    p1 <- f_seek p (p_body p) ;;
    let '(got, p2) := f_read p1 (p_len p) in
    if (length got =? p_len p)%nat then Ok (got, p2) else Err SB_EREAD
  else Err SB_EREAD.

(** sb_binary_file_read_current_block_ex: copy for descriptors, view for memory.
    The memory branch checks that there is a current block and that its body
    lies inside the buffer (SB_EREAD otherwise, as the descriptor route). *)
Definition read_current_block_ex (p : parser) : res (list Z * bool * parser) :=
  match p_route p with
  | Fd => '(got, p1) <- read_current_block p ;; Ok (got, true, p1)
  | Mem =>
    if negb (block_valid p) || (length (p_bytes p) <? p_body p + p_len p)%nat
    then Err SB_EREAD
    else Ok (firstn (p_len p) (skipn (p_body p) (p_bytes p)), false, p)
  end.

(** sb_i_binary_file_get_crc32: seek 0, read 256-byte chunks until a short
    one, seek back. *)
Fixpoint read_chunks (fuel : nat) (p : parser) : list (list Z) * parser :=
  match fuel with
  | O => ([], p)
  | S f =>
    let '(c, p1) := f_read p 256 in
    if (length c <? 256)%nat then ([c], p1)
    else let '(cs, p2) := read_chunks f p1 in (c :: cs, p2)
  end.

Definition get_crc32 (p : parser) : res (Z * parser) :=
  let orig := p_pos p in
  p0 <- f_seek p 0 ;;
  let '(chunks, p1) := read_chunks (S (length (p_bytes p))) p0 in
  p2 <- f_seek p1 orig ;;
  Ok (crc_chunks true chunks 0, p2).

(** sb_i_binary_file_parser_init_common *)
Definition magic : list Z := [115; 107; 121; 98]. (* "skyb" *)

Definition list_eqb (a b : list Z) : bool :=
  (length a =? length b)%nat && forallb (fun xy => fst xy =? snd xy) (combine a b).

Definition parser_init (r : route) (bytes : list Z) : res parser :=
  let p := mkparser r bytes 0 0 0 0 0 0 0 in
  let '(m, p) := f_read p 4 in
  if negb (list_eqb m magic) then Err SB_EPARSE else
  let '(v, p) := f_read p 1 in
  match v with
  | [ver] =>
    if negb ((ver =? 1) || (ver =? 2)) then Err SB_EPARSE else
    let step3 (p : parser) (features : Z) : res parser :=
      let with_crc := negb (Z.land features SB_BINARY_FEATURE_CRC32 =? 0) in
      let '(cb, p) := if with_crc then f_read p 4 else ([], p) in
      match with_crc, cb with
      | true, [c0; c1; c2; c3] =>
        let expected := le32 c0 c1 c2 c3 in
        let p := mkparser (p_route p) (p_bytes p) (p_pos p) ver features (p_pos p) 0 0 0 in
        '(observed, p) <- get_crc32 p ;;
        if expected =? observed then rewind p else Err SB_ECORRUPTED
      | true, _ => Err SB_EPARSE
      | false, _ =>
        let p := mkparser (p_route p) (p_bytes p) (p_pos p) ver features (p_pos p) 0 0 0 in
        rewind p
      end in
    if ver =? 2 then
      let '(fb, p) := f_read p 1 in
      match fb with
      | [features] => step3 p features
      | _ => Err SB_EPARSE
      end
    else step3 p 0
  | _ => Err SB_EPARSE
  end.
