(** Model of src/crc32.c (table-driven reflected CRC) and of the chunked
    whole-file checksum of src/formats/binary.c. *)
From SB Require Import Base.Prelude Gen.Generated.
Local Open Scope Z_scope.

(** One iteration of the loop of sb_ap_crc32_update:
    crc = crc32_tab[(crc ^ buf[i]) & 0xff] ^ (crc >> 8) *)
Definition crc_step (crc byte : Z) : Z :=
  Z.lxor (nth (Z.to_nat (Z.land (Z.lxor crc byte) 255)) crc32_tab 0) (Z.shiftr crc 8).

Definition crc_update (crc : Z) (bytes : list Z) : Z := fold_left crc_step bytes crc.

(** sb_i_binary_file_get_crc32: the file is read in 256-byte chunks; in the
    first chunk, when it holds at least 10 bytes, bytes 6..9 are zeroed.
    [chunks] is the list of chunks as returned by successive reads. *)
Definition zero_6_9 (chunk : list Z) : list Z :=
  if (10 <=? length chunk)%nat
  then upd (upd (upd (upd chunk 6 0) 7 0) 8 0) 9 0
  else chunk.

Fixpoint split_chunks (fuel : nat) (bytes : list Z) : list (list Z) :=
  match fuel with
  | O => []
  | S f =>
    let c := firstn 256 bytes in
    if (length c <? 256)%nat then [c] else c :: split_chunks f (skipn 256 bytes)
  end.

Definition crc_chunks (first : bool) (chunks : list (list Z)) (crc : Z) : Z :=
  snd (fold_left (fun (st : bool * Z) c =>
                    let (is_first, crc) := st in
                    (false, crc_update crc (if is_first then zero_6_9 c else c)))
                 chunks (first, crc)).

Definition file_crc (bytes : list Z) : Z :=
  crc_chunks true (split_chunks (S (length bytes)) bytes) 0.
