(** Model of the light-program interpreter: CommandExecutor::step and the
    command handlers (src/lights/executor.cpp, loop_stack.cpp,
    bytecode_array.hpp, transition.h) and BytecodePlayer::seek
    (bytecode_player.h), as reached through the C API (no signal source, no
    triggers firing, linear easing).  Integers are exact (the property bounds
    timestamps below 2^24 ms, where the float clock conversions of the code
    are the identity); the colour inside a fade is the exact linear
    interpolation (the code truncates a binary32 evaluation of it: see
    Spec/LightSpec.v for the comparison bound). *)
From Coq Require Import ZArith QArith List.
From SB Require Import Base.Prelude Gen.Generated.
Import ListNotations.
Local Open Scope Z_scope.

Record rgbq := mkrgbq { qr : Q; qg : Q; qb : Q }.
Definition rgbq_of (r g b : Z) : rgbq := mkrgbq (inject_Z r) (inject_Z g) (inject_Z b).
Definition black : rgbq := rgbq_of 0 0 0.
Definition white : rgbq := rgbq_of 255 255 255.

(** Executor state (the members of CommandExecutor that matter). *)
Record exec := mkexec {
  pc : Z;                       (* ArrayBytecodeStore::m_nextIndex *)
  ended : bool;
  loops : list (Z * Z);         (* LoopStack, top first: (start, iterationsLeftPlusOne) *)
  cum : Z;                      (* m_cumulativeDurationSinceStart *)
  origin : Z;                   (* m_lastClockResetTime *)
  next_wakeup : Z;              (* m_nextWakeupTime *)
  cmd_start : Z;                (* m_currentCommandStartTime *)
  reset_flag : bool;            (* m_resetClockFlag *)
  color : rgbq;                 (* m_currentColor *)
  pyro : Z;                     (* m_currentPyroChannels *)
  tr_active : bool; tr_start : Z; tr_dur : Z;     (* Transition *)
  start_color : rgbq; end_color : rgbq            (* transition handler *)
}.

Definition upd_pc (s : exec) (v : Z) : exec :=
  mkexec v (ended s) (loops s) (cum s) (origin s) (next_wakeup s) (cmd_start s) (reset_flag s)
         (color s) (pyro s) (tr_active s) (tr_start s) (tr_dur s) (start_color s) (end_color s).
Definition upd_ended (s : exec) (v : bool) : exec :=
  mkexec (pc s) v (loops s) (cum s) (origin s) (next_wakeup s) (cmd_start s) (reset_flag s)
         (color s) (pyro s) (tr_active s) (tr_start s) (tr_dur s) (start_color s) (end_color s).
Definition upd_loops (s : exec) (v : list (Z * Z)) : exec :=
  mkexec (pc s) (ended s) v (cum s) (origin s) (next_wakeup s) (cmd_start s) (reset_flag s)
         (color s) (pyro s) (tr_active s) (tr_start s) (tr_dur s) (start_color s) (end_color s).
Definition upd_clock (s : exec) (c o n : Z) : exec :=
  mkexec (pc s) (ended s) (loops s) c o n (cmd_start s) (reset_flag s)
         (color s) (pyro s) (tr_active s) (tr_start s) (tr_dur s) (start_color s) (end_color s).
Definition upd_pyro (s : exec) (v : Z) : exec :=
  mkexec (pc s) (ended s) (loops s) (cum s) (origin s) (next_wakeup s) (cmd_start s) (reset_flag s)
         (color s) v (tr_active s) (tr_start s) (tr_dur s) (start_color s) (end_color s).
(* setCurrentColorAndResetTransition *)
Definition set_color_reset (s : exec) (c : rgbq) : exec :=
  mkexec (pc s) (ended s) (loops s) (cum s) (origin s) (next_wakeup s) (cmd_start s) (reset_flag s)
         c (pyro s) (tr_active s) (tr_start s) (tr_dur s) c (end_color s).

(** The program: bytes and ArrayBytecodeStore::nextByte (reads past the end
    return CMD_END and do not advance). *)
Definition next_byte (prog : list Z) (s : exec) : Z * exec :=
  if (0 <=? pc s) && (pc s <? Z.of_nat (length prog)) then
    match nth_error prog (Z.to_nat (pc s)) with
    | Some b => (b, upd_pc s (pc s + 1))
    | None => (CMD_END, s)
    end
  else (CMD_END, s).

(** CommandExecutor::nextVarint (after the repair: bits beyond 64 are dropped,
    the whole encoding is consumed).  At most [length prog + 1] bytes can
    carry a continuation bit. *)
Fixpoint next_varint_loop (fuel : nat) (prog : list Z) (s : exec) (acc shift : Z) : Z * exec :=
  match fuel with
  | O => (acc, s)
  | S f =>
    let '(b, s1) := next_byte prog s in
    let '(acc1, shift1) :=
      if shift <? 64 then (Z.lor acc (Z.shiftl (Z.land b 127) shift) mod 18446744073709551616, shift + 7)
      else (acc, shift) in
    if Z.land b 128 =? 0 then (acc1, s1) else next_varint_loop f prog s1 acc1 shift1
  end.
Definition next_varint (prog : list Z) (s : exec) : Z * exec :=
  next_varint_loop (S (length prog)) prog s 0 0.

(** nextDuration: in units of 20 ms (unsigned long arithmetic) *)
Definition next_duration (prog : list Z) (s : exec) : Z * exec :=
  let '(v, s1) := next_varint prog s in ((v * 20) mod 18446744073709551616, s1).

(** delayExecutionUntil(ms): next_wakeup = max(next_wakeup, origin + ms) *)
Definition delay_until (s : exec) (ms : Z) : exec :=
  upd_clock s (cum s) (origin s) (Z.max (next_wakeup s) (origin s + ms)).

(** handleDelayByte *)
Definition delay_byte (prog : list Z) (s : exec) : exec :=
  let '(d, s1) := next_duration prog s in
  let c := cum s1 + d in
  delay_until (upd_clock s1 c (origin s1) (next_wakeup s1)) c.

Definition read_rgb (prog : list Z) (s : exec) : rgbq * exec :=
  let '(r, s1) := next_byte prog s in
  let '(g, s2) := next_byte prog s1 in
  let '(b, s3) := next_byte prog s2 in
  (rgbq_of r g b, s3).

Definition skip3 (prog : list Z) (s : exec) : exec :=
  let '(_, s1) := next_byte prog s in
  let '(_, s2) := next_byte prog s1 in
  let '(_, s3) := next_byte prog s2 in s3.

(** fadeColorOfLEDStrip (after the repair of the zero-duration case) *)
Definition fade_to (prog : list Z) (s : exec) (target : rgbq) : exec :=
  let now := cmd_start s in
  let s1 := delay_byte prog s in
  let dur := next_wakeup s1 - now in
  (* transition.start(dur, now); transition.step(handler, now) *)
  if dur =? 0 then
    (* progress 1: colour = end colour, transition over, start colour := end colour *)
    mkexec (pc s1) (ended s1) (loops s1) (cum s1) (origin s1) (next_wakeup s1) (cmd_start s1) (reset_flag s1)
           target (pyro s1) false now dur target target
  else
    (* progress 0: colour = start colour, transition active *)
    mkexec (pc s1) (ended s1) (loops s1) (cum s1) (origin s1) (next_wakeup s1) (cmd_start s1) (reset_flag s1)
           (start_color s1) (pyro s1) true now dur (start_color s1) target.

Definition set_color_cmd (prog : list Z) (s : exec) (c : rgbq) : exec :=
  set_color_reset (delay_byte prog s) c.

(** isAddressValid *)
Definition address_valid (a : Z) : bool := a <? 2147483647.

(** LoopStack::begin / end (capacity CONFIG_MAX_LOOP_DEPTH) *)
Definition loop_begin (s : exec) (location iterations : Z) : exec :=
  if Z.of_nat (length (loops s)) <? CONFIG_MAX_LOOP_DEPTH
  then upd_loops s ((location, iterations) :: loops s)
  else s.

Definition loop_end (s : exec) : exec :=
  match loops s with
  | [] => s
  | (start, it) :: rest =>
    if it =? 0 then upd_pc s start
    else if it =? 1 then upd_loops s rest
    else upd_pc (upd_loops s ((start, it - 1) :: rest)) start
  end.

(** executeNextCommand (not ended) *)
Definition exec_command (prog : list Z) (s : exec) : exec :=
  let '(op, s) := next_byte prog s in
  if op =? CMD_END then upd_ended s true
  else if op =? CMD_NOP then s
  else if op =? CMD_SLEEP then delay_byte prog s
  else if op =? CMD_WAIT_UNTIL then
    let '(dl, s1) := next_varint prog s in
    let s2 := delay_until s1 ((dl * 20) mod 18446744073709551616) in
    upd_clock s2 (next_wakeup s2 - origin s2) (origin s2) (next_wakeup s2)
  else if op =? CMD_SET_COLOR then let '(c, s1) := read_rgb prog s in set_color_cmd prog s1 c
  else if op =? CMD_SET_GRAY then let '(g, s1) := next_byte prog s in set_color_cmd prog s1 (rgbq_of g g g)
  else if op =? CMD_SET_BLACK then set_color_cmd prog s black
  else if op =? CMD_SET_WHITE then set_color_cmd prog s white
  else if op =? CMD_FADE_TO_COLOR then let '(c, s1) := read_rgb prog s in fade_to prog s1 c
  else if op =? CMD_FADE_TO_GRAY then let '(g, s1) := next_byte prog s in fade_to prog s1 (rgbq_of g g g)
  else if op =? CMD_FADE_TO_BLACK then fade_to prog s black
  else if op =? CMD_FADE_TO_WHITE then fade_to prog s white
  else if op =? CMD_LOOP_BEGIN then
    let '(it, s1) := next_byte prog s in loop_begin s1 (pc s1) it
  else if op =? CMD_LOOP_END then loop_end s
  else if op =? CMD_RESET_CLOCK then
    (* setClockOriginToCurrentTimestamp(m_currentCommandStartTime) *)
    upd_clock s 0 (cmd_start s) (next_wakeup s)
  else if op =? CMD_SET_COLOR_FROM_CHANNELS then set_color_cmd prog (skip3 prog s) black
  else if op =? CMD_FADE_TO_COLOR_FROM_CHANNELS then fade_to prog (skip3 prog s) black
  else if op =? CMD_JUMP then
    let '(a, s1) := next_varint prog s in
    if address_valid a then upd_loops (upd_pc s1 a) [] else upd_ended s1 true
  else if op =? CMD_TRIGGERED_JUMP then
    let '(params, s1) := next_byte prog s in
    let need_addr := negb (Z.land params 48 =? 0) in
    if need_addr then
      let '(a, s2) := next_varint prog s1 in
      if address_valid a then s2 else upd_ended s2 true
    else s1
  else if op =? CMD_SET_PYRO then
    let '(m, s1) := next_byte prog s in
    if Z.land m 128 =? 0 then upd_pyro s1 (Z.land (pyro s1) (255 - Z.lor m 128))
    else upd_pyro s1 (Z.lor (pyro s1) (Z.land m 127))
  else if op =? CMD_SET_PYRO_ALL then
    let '(m, s1) := next_byte prog s in upd_pyro s1 (Z.land m 127)
  else (* unknown command code *) upd_ended s true.

(** linear interpolation, exact *)
Definition lerpq (a b p : Q) : Q := Qred (a + (b - a) * p).
Definition interp (a b : rgbq) (p : Q) : rgbq :=
  mkrgbq (lerpq (qr a) (qr b) p) (lerpq (qg a) (qg b) p) (lerpq (qb a) (qb b) p).

(** Transition::progressPreEasing *)
Definition progress (s : exec) (clock : Z) : Q :=
  if clock <? tr_start s then 0
  else if tr_dur s =? 0 then 1
  else let p := (clock - tr_start s) # (Z.to_pos (tr_dur s)) in
       if Qle_bool 1 p then 1 else p.

(** CommandExecutor::step *)
Definition step (prog : list Z) (s : exec) (now : Z) : exec :=
  (* clock reset requested by rewind *)
  let s := if reset_flag s
           then mkexec (pc s) (ended s) (loops s) 0 now now (cmd_start s) false
                       black (pyro s) (tr_active s) (tr_start s) (tr_dur s) black (end_color s)
           else s in
  if ended s then upd_clock s (cum s) (origin s) (now + 60000)
  else
    (* the active transition *)
    let s :=
      if tr_active s then
        let p := progress s now in
        let c := interp (start_color s) (end_color s) p in
        let still := negb (Qle_bool 1 p) in
        mkexec (pc s) (ended s) (loops s) (cum s) (origin s) (next_wakeup s) (cmd_start s) (reset_flag s)
               c (pyro s) still (tr_start s) (tr_dur s)
               (if still then start_color s else end_color s) (end_color s)
      else s in
    if next_wakeup s <=? now then
      let s := mkexec (pc s) (ended s) (loops s) (cum s) (origin s) (next_wakeup s) now (reset_flag s)
                      (color s) (pyro s) (tr_active s) (tr_start s) (tr_dur s) (start_color s) (end_color s) in
      exec_command prog s
    else s.

(** CommandExecutor::rewind (store present) *)
Definition exec_rewind (prog : list Z) (s : exec) : exec :=
  mkexec 0 (match prog with [] => true | _ => false end) [] (cum s) (origin s) (next_wakeup s) (cmd_start s) true
         black 0 false (tr_start s) (tr_dur s) (start_color s) (end_color s).

(** A freshly created player with a program attached: BytecodePlayer() runs
    step(0) on an executor without a store (ended), then setBytecodeStore
    rewinds. *)
Definition exec_fresh (prog : list Z) : exec :=
  exec_rewind prog (mkexec 0 true [] 0 0 60000 0 false black 0 false 0 0 black black).

(** BytecodePlayer *)
Record player := mkplayer { ex : exec; cur_ts : Z; next_ts : Z }.

Definition player_fresh (prog : list Z) : player := mkplayer (exec_fresh prog) 0 0.

(** the while loop of seek: step through every wake-up time before target *)
Fixpoint light_seek_loop (fuel : nat) (prog : list Z) (p : player) (target : Z) : res player :=
  if target <=? next_ts p then Ok p else
  match fuel with
  | O => Fuel
  | S f =>
    let e := step prog (ex p) (next_ts p) in
    let proposal := if next_wakeup e <? next_ts p then next_ts p + 1 else next_wakeup e in
    light_seek_loop f prog (mkplayer e (next_ts p) proposal) target
  end.

(** BytecodePlayer::seek(target).  [fuel] bounds the number of wake-ups
    stepped through; a program whose loop iterations / jump cycles consume no
    time never gets past them (the C loop does not terminate): [Fuel]. *)
Definition light_seek (fuel : nat) (prog : list Z) (p : player) (target : Z) : res player :=
  let p := if target <? cur_ts p then mkplayer (exec_rewind prog (ex p)) 0 0 else p in
  p1 <- light_seek_loop fuel prog p target ;;
  let e := step prog (ex p1) target in
  Ok (mkplayer e target (next_wakeup e)).

(** What the C API reports after a seek. *)
Definition obs_color (p : player) : rgbq := color (ex p).
Definition obs_pyro (p : player) : Z := pyro (ex p).
Definition obs_ended (p : player) : bool := ended (ex p).
Definition obs_next (p : player) : Z := next_ts p.
