(** Model of the four *_init_from_binary_file(_in_memory) loaders: container
    lookup, body extraction (copy or view) and the size checks of the
    per-kind init_from_bytes functions. *)
From SB Require Import Base.Prelude Gen.Generated Model.Crc Model.Container.
Local Open Scope Z_scope.

Inductive kind := KTraj | KLight | KYaw | KRth.

Definition kind_type (k : kind) : Z :=
  match k with
  | KTraj => SB_BINARY_BLOCK_TRAJECTORY
  | KLight => SB_BINARY_BLOCK_LIGHT_PROGRAM
  | KYaw => SB_BINARY_BLOCK_YAW_CONTROL
  | KRth => SB_BINARY_BLOCK_RTH_PLAN
  end.

(** Smallest block the per-kind initialiser accepts (header sizes). *)
Definition min_len (k : kind) : nat :=
  match k with KTraj => 9 | KLight => 0 | KYaw => 3 | KRth => 3 end.

(** Result of a successful load: the block bytes the object works on and
    whether the object owns a copy (true) or views the caller's memory. *)
Definition load (k : kind) (r : route) (bytes : list Z) : res (list Z * bool) :=
  p <- parser_init r bytes ;;
  q <- find_first p (kind_type k) ;;
  match k with
  | KRth =>
    (* sb_i_rth_plan_init_from_parser always copies *)
    '(body, _) <- read_current_block q ;;
    if (length body <? min_len k)%nat then Err SB_EPARSE else Ok (body, true)
  | _ =>
    '(body, owned, _) <- read_current_block_ex q ;;
    if (length body <? min_len k)%nat then Err SB_EPARSE
    else match k, body with
         | KLight, [] => Ok ([], true)       (* empty program: owns an empty buffer *)
         | _, _ => Ok (body, owned)
         end
  end.

(** The two routes agree when both fail or both succeed with the same bytes. *)
Definition agree (a b : res (list Z * bool)) : Prop :=
  match a, b with
  | Ok (x, _), Ok (y, _) => x = y
  | Err _, Err _ => True
  | _, _ => False
  end.
