(** Model of src/trajectory/poly.c: the numeric algorithms, polymorphic in the
    field of coefficients (see Base/Num.v).  A polynomial is the list of its
    coefficients, constant term first (num_coeffs = length). *)
From Coq Require Import ZArith List.
From Coq Require Import QArith.
From SB Require Import Base.Num Base.F32 Gen.Generated.
Import ListNotations.

Section Poly.
  Context {A : Type} (o : Ops A).

  (** sb_poly_eval: Horner's scheme from the highest coefficient down. *)
  Fixpoint horner (cs : list A) (t : A) : A :=
    match cs with
    | [] => zero o
    | c :: r => add o c (mul o t (horner r t))
    end.

  (** facs[] of poly.c, regenerated from the source. *)
  Definition fac (i : nat) : A := ofZ o (nth i facs 0%Z).

  Fixpoint sumto (f : nat -> A) (n : nat) : A :=
    match n with
    | O => f O
    | S m => add o (sumto f m) (f n)
    end.

  Definition sgn (k : nat) : A := if Nat.even k then one o else sub o (zero o) (one o).

  (** coefficient j of the degree-n Bezier polynomial (the double loop of
      sb_poly_make_bezier):
        coeff_j = (sum_{i<=j} (-1)^(i+j) xs[i] / facs[i] / facs[j-i]) * facs[n] / facs[n-j] *)
  Definition bez_coeff (xs : list A) (n j : nat) : A :=
    div o (mul o (sumto (fun i => div o (div o (mul o (sgn (i + j)) (nth i xs (zero o))) (fac i)) (fac (j - i))) j)
                 (fac n))
          (fac (n - j)).

  (** sb_poly_stretch: coefficient i is multiplied by (1/factor)^i *)
  Fixpoint stretch_from (cs : list A) (f scale : A) : list A :=
    match cs with
    | [] => []
    | c :: r => mul o c scale :: stretch_from r f (mul o scale f)
    end.
  Definition stretch (cs : list A) (factor : A) : list A :=
    match cs with
    | [] => []
    | c :: r => let f := div o (one o) factor in c :: stretch_from r f f
    end.

  (** sb_poly_make_linear (duration not tiny) *)
  Definition make_linear (duration x0 x1 : A) : list A := [x0; div o (sub o x1 x0) duration].

  (** sb_poly_make_bezier for 0, 1, 2 and 3..8 points (duration not tiny) *)
  Definition make_bezier (duration : A) (xs : list A) : list A :=
    match xs with
    | [] => [zero o]
    | [x] => [x]
    | [x0; x1] => make_linear duration x0 x1
    | _ => let n := (length xs - 1)%nat in
           stretch (map (bez_coeff xs n) (seq 0 (S n))) duration
    end.

  (** sb_poly_deriv *)
  Fixpoint deriv_from (k : Z) (cs : list A) : list A :=
    match cs with
    | [] => []
    | c :: r => mul o (ofZ o k) c :: deriv_from (k + 1) r
    end.
  Definition deriv (cs : list A) : list A :=
    match cs with
    | [] | [_] => [zero o]
    | _ :: r => deriv_from 1 r
    end.

  (** sb_poly_scale, sb_poly_add_constant *)
  Definition scale (cs : list A) (k : A) : list A := map (fun c => mul o c k) cs.
  Definition add_constant (cs : list A) (c : A) : list A :=
    match cs with
    | [] => [c]
    | c0 :: r => add o c0 c :: r
    end.
End Poly.

(** sb_poly_make_linear as the C code has it, with the branch for a duration
    below FLT_EPSILON in magnitude (the constant (x0+x1)/2, slope 0), and
    sb_poly_make_bezier with it.  The generic [make_bezier] above is this
    function on every duration that is not tiny ([make_bezier_c_agrees]). *)
Definition make_linear_c (duration x0 x1 : Q) : list Q :=
  if Qle_bool FLT_EPSILON (Qabs' duration) then make_linear QOps duration x0 x1
  else [Qred ((x0 + x1) / 2); 0%Q].

Definition make_bezier_c (duration : Q) (xs : list Q) : list Q :=
  match xs with
  | [x0; x1] => make_linear_c duration x0 x1
  | _ => make_bezier QOps duration xs
  end.
