(** Verified certificates about polynomials over the rationals: a range
    enclosure by interval Horner evaluation, exclusion of roots on an interval
    by bisection, isolation of the leftmost root, all roots inside a bound, and
    bounds on the extrema over an interval.  Everything is exact rational
    arithmetic and executable; soundness theorems are in
    Proofs/RootCert_Proofs.v.  These checkers are the oracle for the parts of
    the library that go through libm (cbrtf, cpowf): each answer of the code is
    checked against a certificate computed for that very instance. *)
From Coq Require Import ZArith QArith List.
From SB Require Import Base.Num Model.Poly.
Import ListNotations.
Local Open Scope Q_scope.

(** exact evaluation *)
Definition qeval (cs : list Q) (x : Q) : Q := Qred (horner QOps cs x).

(** ---- interval arithmetic ---- *)
Definition iv := (Q * Q)%type.
Definition iv_add (a b : iv) : iv := (Qred (fst a + fst b), Qred (snd a + snd b)).
Definition iv_mul (a b : iv) : iv :=
  let p1 := fst a * fst b in let p2 := fst a * snd b in
  let p3 := snd a * fst b in let p4 := snd a * snd b in
  (Qred (Qmin' (Qmin' p1 p2) (Qmin' p3 p4)), Qred (Qmax' (Qmax' p1 p2) (Qmax' p3 p4))).
Definition iv_pt (q : Q) : iv := (q, q).

(** enclosure of { p(x) | lo <= x <= hi } by Horner's scheme on intervals *)
Fixpoint irange (cs : list Q) (x : iv) : iv :=
  match cs with
  | [] => iv_pt 0
  | c :: r => iv_add (iv_pt c) (iv_mul x (irange r x))
  end.

(** p - y *)
Definition shift_poly (cs : list Q) (y : Q) : list Q :=
  match cs with
  | [] => [Qred (- y)]
  | c :: r => Qred (c - y) :: r
  end.

Definition excludes_zero (r : iv) : bool := Qltb 0 (fst r) || Qltb (snd r) 0.

(** ---- leftmost root of p = y on [lo, hi] ---- *)
Inductive root_result :=
| NoRoot                       (* certified: p x <> y on the whole interval *)
| Maybe (a b : Q).             (* certified: p x <> y on [lo, a); [a, b] could not be excluded *)

Fixpoint first_root (depth : nat) (cs : list Q) (lo hi : Q) : root_result :=
  if excludes_zero (irange cs (lo, hi)) then NoRoot
  else match depth with
       | O => Maybe lo hi
       | S d =>
         let mid := Qred ((lo + hi) / 2) in
         match first_root d cs lo mid with
         | NoRoot => first_root d cs mid hi
         | r => r
         end
       end.

(** sign change (or a zero at an end) of p over [a, b]: certifies a root inside *)
Definition sign_change (cs : list Q) (a b : Q) : bool :=
  let fa := qeval cs a in let fb := qeval cs b in
  Qle_bool (fa * fb) 0.

(** ---- every root within [-B, B] ---- *)
Definition cauchy_bound (cs : list Q) : Q :=
  (* 1 + max |c_i| / |c_n| for the leading coefficient c_n <> 0; 0-degree: 1 *)
  match rev cs with
  | [] => 1
  | lead :: rest =>
    if Qeq_bool lead 0 then 1
    else Qred (1 + fold_left (fun a c => Qmax' a (Qabs' c)) rest 0 / Qabs' lead)
  end.

(** boxes of width (hi-lo)/2^depth that cannot be excluded, left to right *)
Fixpoint root_boxes (depth : nat) (cs : list Q) (lo hi : Q) : list (Q * Q) :=
  if excludes_zero (irange cs (lo, hi)) then []
  else match depth with
       | O => [(lo, hi)]
       | S d =>
         let mid := Qred ((lo + hi) / 2) in
         root_boxes d cs lo mid ++ root_boxes d cs mid hi
       end.

(** merge boxes that touch *)
Fixpoint merge_boxes (bs : list (Q * Q)) : list (Q * Q) :=
  match bs with
  | (a, b) :: rest =>
    match merge_boxes rest with
    | (c, d) :: rest' => if Qle_bool c b then (a, d) :: rest' else (a, b) :: (c, d) :: rest'
    | [] => [(a, b)]
    end
  | [] => []
  end.

(** ---- extrema of p over [lo, hi] ----
    Returns (l, u) with l <= max p <= u: [l] is attained (a value of p at a
    sample point), [u] is an upper bound of p on the whole interval. *)
Fixpoint max_bounds (depth : nat) (cs : list Q) (lo hi : Q) (best : Q) : Q * Q :=
  let r := irange cs (lo, hi) in
  let mid := Qred ((lo + hi) / 2) in
  let best := Qmax' best (Qmax' (qeval cs lo) (Qmax' (qeval cs hi) (qeval cs mid))) in
  if Qle_bool (snd r) best then (best, best)
  else match depth with
       | O => (best, snd r)
       | S d =>
         let '(b1, u1) := max_bounds d cs lo mid best in
         let '(b2, u2) := max_bounds d cs mid hi b1 in
         (b2, Qmax' b2 (Qmax' (if Qle_bool u1 b2 then b2 else u1) u2))
       end.

Definition poly_max (depth : nat) (cs : list Q) (lo hi : Q) : Q * Q :=
  max_bounds depth cs lo hi (qeval cs lo).

Definition poly_min (depth : nat) (cs : list Q) (lo hi : Q) : Q * Q :=
  let '(l, u) := poly_max depth (map (fun c => Qred (- c)) cs) lo hi in (Qred (- u), Qred (- l)).
