(** Model of src/rth_plan/rth_plan.c: header, entry count, point table and
    sb_rth_plan_evaluate_at (byte-level scan).  Follows the repaired code: every
    read is bounds-checked and a short read is SB_EPARSE. *)
From SB Require Import Base.Prelude Gen.Generated Model.Codec.
From Coq Require Import QArith.
Local Open Scope Z_scope.

(** ---- integer -> binary32 conversion (round to nearest, ties to even) ----
    [(float)n] for 0 <= n < 2^32, as the exact integer value of the float. *)
Definition f32_of_u32 (n : Z) : Z :=
  if n <? 16777216 then n
  else
    let k := Z.log2 n - 23 in                 (* bits to drop, 1..8 *)
    let q := Z.shiftr n k in
    let r := n - Z.shiftl q k in
    let half := Z.shiftl 1 (k - 1) in
    let q' := if (half <? r) || ((half =? r) && Z.odd q) then q + 1 else q in
    Z.shiftl q' k.

(** ---- query time: a binary32 value ---- *)
Inductive ftime := TNaN | TNegInf | TPosInf | TFin (q : Q).

(** [time < 0] in C (false for NaN) *)
Definition time_neg (t : ftime) : bool :=
  match t with
  | TNegInf => true
  | TFin q => if Qlt_le_dec q 0 then true else false
  | _ => false
  end.

(** [(float)time_s >= time] in C (false for NaN) *)
Definition time_reached (time_s : Z) (t : ftime) : bool :=
  match t with
  | TNegInf => true
  | TFin q => Qle_bool q (inject_Z (f32_of_u32 time_s))
  | _ => false
  end.

(** ---- plan object ---- *)
Record plan := mkplan {
  pl_bytes : list Z;
  pl_scale : Z;
  pl_num_points : nat
}.

Definition rth_header_length : nat := 3.

(** sb_rth_plan_init_from_buffer *)
Definition plan_init (b : list Z) : res plan :=
  match b with
  | b0 :: p0 :: p1 :: _ => Ok (mkplan b (Z.land b0 127) (Z.to_nat (le16 p0 p1)))
  | _ => Err SB_EPARSE
  end.

(** sb_rth_plan_init_empty: no bytes, scale 1, no points *)
Definition plan_empty : plan := mkplan [] 1 0.

Definition offset_of_point (pl : plan) (i : nat) : nat := (rth_header_length + 4 * i)%nat.
Definition offset_of_entry_table (pl : plan) : nat := offset_of_point pl (pl_num_points pl).

(** sb_rth_plan_get_num_entries *)
Definition num_entries (pl : plan) : nat :=
  let off := offset_of_entry_table pl in
  if (off + 2 <=? length (pl_bytes pl))%nat then
    match parse_u16 (pl_bytes pl) off with
    | Some (v, _) => Z.to_nat v
    | None => 0%nat
    end
  else 0%nat.

(** sb_i_rth_plan_parse_coordinate (caller has checked the bounds) *)
Definition parse_coord (pl : plan) (off : nat) : res (Z * nat) :=
  if (length (pl_bytes pl) <? off + 2)%nat then Err SB_EPARSE
  else match parse_i16 (pl_bytes pl) off with
       | Some (v, o) => Ok (v * pl_scale pl, o)
       | None => Err SB_EPARSE
       end.

(** sb_rth_plan_get_point *)
Definition get_point (pl : plan) (idx : Z) : res (Z * Z) :=
  if Z.of_nat (pl_num_points pl) <=? idx then Err SB_EINVAL
  else
    let off := offset_of_point pl (Z.to_nat idx) in
    if (length (pl_bytes pl) <? off + 4)%nat then Err SB_EPARSE
    else
      '(x, o) <- parse_coord pl off ;;
      '(y, _) <- parse_coord pl o ;;
      Ok (x, y).

(** sb_parse_varuint32 on the plan buffer, as a [res] *)
Definition varuint (pl : plan) (off : nat) : res (Z * nat) :=
  match parse_varuint32 (pl_bytes pl) (length (pl_bytes pl)) off with
  | VuOk v o => Ok (v, o)
  | VuErr c _ => Err c
  | VuOOB o => OOB 2 (Z.of_nat o)
  end.

(** sb_i_rth_plan_parse_duration *)
Definition parse_duration (pl : plan) (off : nat) : res (Z * nat) :=
  '(v, o) <- varuint pl off ;;
  if RTH_MAX_DURATION <? v then Err SB_EOVERFLOW else Ok (v, o).

(** sb_rth_plan_entry_t, with the scan's own locals (offset, cumulative time,
    point index).  Numbers are exact: every field is an integer times the scale
    or an integer <= 2^24, exactly representable in binary32. *)
Record entry := mkentry {
  e_time : option Z;        (* None: time_sec is still the query time itself *)
  e_action : Z;
  e_duration : Z;
  e_altitude : Z;
  e_pre_delay : Z;
  e_post_delay : Z;
  e_neck : Z;
  e_neck_duration : Z
}.

Definition entry0 : entry := mkentry None SB_RTH_ACTION_LAND 0 0 0 0 0 0.

Definition has_target (a : Z) : bool :=
  (a =? SB_RTH_ACTION_GO_TO_KEEPING_ALTITUDE) || (a =? SB_RTH_ACTION_GO_TO_WITH_ALTITUDE).
Definition has_altitude (a : Z) : bool := a =? SB_RTH_ACTION_GO_TO_WITH_ALTITUDE.
Definition has_neck (a : Z) : bool := a =? SB_RTH_ACTION_GO_TO_WITH_ALTITUDE.
Definition has_duration (a : Z) : bool := has_target a.

Record scan := mkscan { s_off : nat; s_time : Z; s_entry : entry; s_point : Z }.

(** One iteration of the for loop of sb_rth_plan_evaluate_at. *)
Definition scan_entry (pl : plan) (st : scan) : res scan :=
  let b := pl_bytes pl in
  let off := s_off st in
  match rd b off with
  | None => Err SB_EPARSE
  | Some flags =>
    let off := S off in
    '(dt, off) <- varuint pl off ;;
    (* uint32 overflow test: time_diff_s + time_s < time_s *)
    if 4294967296 <=? dt + s_time st then Err SB_EOVERFLOW else
    let time_s := s_time st + dt in
    let e := s_entry st in
    let enc := Z.land (Z.shiftr flags 4) 3 in
    let action := if enc =? 0 then e_action e else enc in
    (* action parameters *)
    r1 <- (if enc =? 0 then Ok (off, s_point st, e_altitude e, e_neck e, e_neck_duration e)
           else
             '(pt, off) <- (if has_target action then varuint pl off else Ok (0, off)) ;;
             '(alt, off) <- (if has_altitude action then parse_coord pl off else Ok (0, off)) ;;
             '(neck, neckd, off) <- (if has_neck action
                                     then '(n, off) <- parse_coord pl off ;;
                                          '(d, off) <- parse_duration pl off ;; Ok (n, d, off)
                                     else Ok (0, 0, off)) ;;
             Ok (off, pt, alt, neck, neckd)) ;;
    let '(off, pt, alt, neck, neckd) := r1 in
    '(dur, off) <- (if has_duration action then parse_duration pl off else Ok (0, off)) ;;
    '(pre, off) <- (if Z.land flags 2 =? 0 then Ok (0, off) else parse_duration pl off) ;;
    '(post, off) <- (if Z.land flags 1 =? 0 then Ok (0, off) else parse_duration pl off) ;;
    Ok (mkscan off time_s (mkentry (Some time_s) action dur alt pre post neck neckd) pt)
  end.

Fixpoint scan_loop (n : nat) (pl : plan) (t : ftime) (st : scan) : res scan :=
  match n with
  | O => Ok st
  | S n' =>
    st' <- scan_entry pl st ;;
    if time_reached (s_time st') t then Ok st' else scan_loop n' pl t st'
  end.

(** What sb_rth_plan_evaluate_at writes into *result. *)
Record eval_result := mkeval {
  r_time : option Z;      (* None: the query time is returned unchanged *)
  r_action : Z;
  r_duration : Z;
  r_target : Z * Z;
  r_altitude : Z;
  r_pre_delay : Z;
  r_post_delay : Z;
  r_neck : Z;
  r_neck_duration : Z
}.

Definition evaluate_at (pl : plan) (t : ftime) : res eval_result :=
  let st0 := mkscan (offset_of_entry_table pl + 2) 0 entry0 0 in
  st <- (if time_neg t then Ok st0 else scan_loop (num_entries pl) pl t st0) ;;
  let e := s_entry st in
  tgt <- (if has_target (e_action e) then get_point pl (s_point st) else Ok (0, 0)) ;;
  Ok (mkeval (match e_time e with
              | Some ts => Some (f32_of_u32 ts)
              | None => None
              end)
             (e_action e) (e_duration e) tgt (e_altitude e)
             (e_pre_delay e) (e_post_delay e) (e_neck e) (e_neck_duration e)).
