(** sb_poly_solve for at most three significant coefficients, in binary32:
    sb_i_poly_count_significant_coeffs, sb_i_poly_solve_1d / _2d / _3d with
    every operation the exact one followed by rnd32 (sqrtf is correctly rounded).
    Coefficients lowest degree first, as in sb_poly_t. *)
From Coq Require Import QArith ZArith Bool List.
From SB Require Import Base.Prelude Base.Num Base.F32.
Import ListNotations.
Local Open Scope Q_scope.

Definition is_zero32 (x : Q) : bool := Qltb (Qabs' x) FLT_MIN.

(** trailing (highest-degree) coefficients below FLT_MIN in magnitude do not count; the first always does *)
Fixpoint significant (cs : list Q) : list Q :=
  match cs with
  | [] => []
  | c :: r => match significant r with
              | [] => if is_zero32 c then [] else [c]
              | r' => c :: r'
              end
  end.
Definition significant_coeffs (cs : list Q) : list Q :=
  match cs with
  | [] => []
  | c :: r => c :: significant r
  end.

Definition solve_const32 (c0 y : Q) : list Q := if is_zero32 (fsub c0 y) then [0] else [].

Definition solve_linear32 (c0 c1 y : Q) : list Q :=
  let b := fsub c0 y in
  if is_zero32 c1 then [] else [fdiv (- b) c1].

Definition solve_quadratic32 (c0 c1 c2 y : Q) : list Q :=
  let a := c2 in let b := c1 in let c := fsub c0 y in
  if is_zero32 a then solve_linear32 c0 c1 y else
  let d := fsub (fmul b b) (fmul (fmul 4 a) c) in
  if is_zero32 d then [fdiv (- b) (fmul 2 a)]
  else if Qltb 0 d then
    let s := fsqrt d in
    if Qltb b 0 then let q := fdiv (fadd (- b) s) 2 in [fdiv c q; fdiv q a]
    else let q := fdiv (- (fadd b s)) 2 in [fdiv q a; fdiv c q]
  else [].

(** [None]: more than three significant coefficients (the cubic closed form goes through cbrtf / cpowf: not modelled here) *)
Definition solve32 (cs : list Q) (y : Q) : option (list Q) :=
  match significant_coeffs cs with
  | [] => Some []
  | [c0] => Some (solve_const32 c0 y)
  | [c0; c1] => Some (solve_linear32 c0 c1 y)
  | [c0; c1; c2] => Some (solve_quadratic32 c0 c1 c2 y)
  | _ => None
  end.
