(** Model of src/trajectory/stats.c (takeoff / landing time proposals) on top
    of the trajectory model.  Discrete decisions (validation, the run of
    vertical descending segments, the walk that consumes segments) follow the
    binary32 arithmetic of the code exactly (Base/F32.v); the position of a
    crossing inside a segment is given as a certified rational interval
    (Model/RootCert.v) instead of the libm-based closed-form root. *)
From Coq Require Import ZArith QArith Qround List.
From SB Require Import Base.Prelude Base.Num Base.F32 Gen.Generated Model.Poly Model.Traj Model.Utils Model.RootCert.
Import ListNotations.
Local Open Scope Z_scope.

(** coefficients (exact) of the altitude polynomial of a segment on [0,1] *)
Definition zpoly (s : segment) : list Q := make_bezier QOps 1%Q (sg_z s).

Definition first_q (l : list Q) : Q := hd 0%Q l.
Definition last_q (l : list Q) : Q := last l 0%Q.

(** ---- takeoff ---- *)
Inductive crossing :=
| NoCrossing
| CrossIn (start_ms dur_ms : Z) (a b : Q) (deg : nat).   (* leftmost root box [a,b] in segment units *)

Definition root_depth : nat := 44.

(** the main loop: first segment whose altitude touches [target] *)
Fixpoint scan_takeoff (segs : list (cursor * segment)) (target : Q) : crossing :=
  match segs with
  | [] => NoCrossing
  | (c, s) :: rest =>
    match first_root root_depth (shift_poly (zpoly s) target) 0 1 with
    | NoRoot => scan_takeoff rest target
    | Maybe a b => CrossIn (c_start_ms c) (sg_dur s) a b (length (sg_z s) - 1)
    end
  end.

Definition fn_finite (x : fnum) : bool := match x with FVal _ => true | _ => false end.
Definition fn_le0 (x : fnum) : bool := match x with FVal q => Qle_bool q 0 | FInf n => n | FNan => false end.
Definition fn_lt0 (x : fnum) : bool := match x with FVal q => Qltb q 0 | FInf n => n | FNan => false end.

(** validation at the top of sb_trajectory_stats_calculator_run *)
Definition stats_valid (acc speed ascent descent : fnum) : bool :=
  negb (fn_le0 acc || negb (fn_finite speed) || fn_le0 speed || negb (fn_finite ascent) || fn_lt0 ascent
        || negb (fn_finite descent) || fn_lt0 descent).

Record takeoff_answer := mktk {
  tk_cross : crossing;           (* where the altitude is first reached *)
  tk_travel : fnum               (* sb_get_travel_time_for_distance(min_ascent, speed, acceleration) *)
}.

(** sb_trajectory_propose_takeoff_time_sec: [None] = infinity because the
    parameters are invalid *)
Definition propose_takeoff (tr : traj) (ascent speed acc : fnum) : res (option takeoff_answer) :=
  if negb (stats_valid acc speed ascent (FVal (5 # 2))) then Ok None else
  segs <- segments tr ;;
  match ascent with
  | FVal h =>
    let z0 := vz (t_start tr) in
    let target := fadd z0 h in
    Ok (Some (mktk (scan_takeoff segs target) (travel_time ascent speed acc)))
  | _ => Ok None
  end.

(** ---- landing ---- *)
(** sb_i_is_segment_descending_vertically (exact: coordinates are integers
    times the scale, their differences are exact in binary32) *)
Definition descending_vertically (s : segment) (thr : Q) : bool :=
  Qle_bool (Qabs' (first_q (sg_x s) - last_q (sg_x s))) thr &&
  Qle_bool (Qabs' (first_q (sg_y s) - last_q (sg_y s))) thr &&
  Qle_bool (last_q (sg_z s)) (first_q (sg_z s)).

(** the loop over all segments: the trailing run of vertical descending
    segments ([None]: the trajectory does not end with one), and the end time
    (ms) of the last non-vertical segment *)
Fixpoint landing_scan (segs : list (cursor * segment)) (thr : Q)
         (run : option (list (cursor * segment))) (last_nonvertical_end : Z)
  : option (list (cursor * segment)) * Z :=
  match segs with
  | [] => (run, last_nonvertical_end)
  | (c, s) :: rest =>
    if descending_vertically s thr then
      landing_scan rest thr (match run with Some r => Some (r ++ [(c, s)]) | None => Some [(c, s)] end)
                   last_nonvertical_end
    else landing_scan rest thr None (u32 (c_start_ms c + sg_dur s))
  end.

Inductive landing_answer :=
| LandAtMs (ms : Z)                                   (* a segment boundary: exact *)
| LandIn (start_ms dur_ms : Z) (a b : Q) (deg : nat)  (* inside a segment: root box in segment units *)
| LandAtMsFallback (ms : Z).                          (* 'touches' found nothing: start of that segment *)

(** the walk that consumes whole segments of the run; [sub]/[add] are the
    subtraction and addition used: binary32 ([fsub]/[fadd]) for the code, exact
    for the specification *)
Section Landing.
  Variable sub add : Q -> Q -> Q.
  (** altitude at the end of a segment as the code obtains it: sb_poly_eval(&poly.z, 1) *)
  Variable end_alt_of : segment -> Q.

  Fixpoint landing_walk (run : list (cursor * segment)) (altitude to_descend : Q) (fallback : Z) : landing_answer :=
    match run with
    | [] => LandAtMs fallback      (* every segment consumed: landing_time_sec keeps its earlier value *)
    | (c, s) :: rest =>
      let delta := sub altitude (last_q (sg_z s)) in
      if Qltb delta 0 then LandAtMs fallback
      else if Qle_bool delta to_descend then landing_walk rest (last_q (sg_z s)) (sub to_descend delta) fallback
      else
        match first_root root_depth (shift_poly (zpoly s) (sub altitude to_descend)) 0 1 with
        | Maybe a b => LandIn (c_start_ms c) (sg_dur s) a b (length (sg_z s) - 1)
        | NoRoot => LandAtMsFallback (c_start_ms c)
        end
    end.

  (** landing part of sb_trajectory_stats_calculator_run *)
  Definition landing_of (segs : list (cursor * segment)) (descent thr : Q) : landing_answer :=
    let '(run, fallback) := landing_scan segs thr None 0 in
    match run with
    | None => LandAtMs fallback
    | Some [] => LandAtMs fallback
    | Some (((c0, s0) :: _) as r) =>
      let start_alt := first_q (sg_z s0) in
      let end_alt := end_alt_of (snd (last r (c0, s0))) in
      let to_descend := sub start_alt (add end_alt descent) in
      if Qltb 0 to_descend
      then landing_walk r start_alt to_descend fallback
      else LandAtMs (c_start_ms c0)
    end.
End Landing.

(** binary32 evaluation of the altitude polynomial at 1 (coefficients and Horner steps rounded) *)
Definition end_alt_f32 (s : segment) : Q := horner F32Ops (make_bezier F32Ops 1%Q (sg_z s)) 1%Q.
Definition end_alt_exact (s : segment) : Q := last_q (sg_z s).

Definition qsub (a b : Q) : Q := Qred (a - b).
Definition qadd (a b : Q) : Q := Qred (a + b).

(** sb_trajectory_propose_landing_time_sec *)
Definition propose_landing (tr : traj) (descent thr : fnum) : res landing_answer :=
  segs <- segments tr ;;
  total <- total_duration_msec tr ;;
  match descent, thr with
  | FVal d, FVal th =>
    if Qle_bool d FLT_MIN then Ok (LandAtMs total)
    else Ok (landing_of fsub fadd end_alt_f32 segs d (if Qltb th 0 then 0%Q else th))
  | _, _ => Ok (LandAtMs total)
  end.

(** The same with exact arithmetic: what the property describes (the code's
    binary32 subtraction absorbs a preferred descent below the resolution of
    the run's altitude: see Properties_C14 [landing_tiny_descent_refuted]). *)
Definition propose_landing_spec (tr : traj) (descent thr : fnum) : res landing_answer :=
  segs <- segments tr ;;
  total <- total_duration_msec tr ;;
  match descent, thr with
  | FVal d, FVal th =>
    if Qle_bool d 0 then Ok (LandAtMs total)
    else Ok (landing_of qsub qadd end_alt_exact segs d (if Qltb th 0 then 0%Q else th))
  | _, _ => Ok (LandAtMs total)
  end.

(** ---- bounding box (sb_trajectory_get_axis_aligned_bounding_box) as certified
    enclosures: for each axis ((min_lo, min_hi), (max_lo, max_hi)) with
    min_lo <= true minimum <= min_hi and max_lo <= true maximum <= max_hi ---- *)
Definition ext_depth : nat := 14.

Definition seg_axis_bounds (pts : list Q) : (Q * Q) * (Q * Q) :=
  let cs := make_bezier QOps 1%Q pts in
  (poly_min ext_depth cs 0 1, poly_max ext_depth cs 0 1).

Definition join_bounds (a b : (Q * Q) * (Q * Q)) : (Q * Q) * (Q * Q) :=
  let '((al, au), (bl, bu)) := a in
  let '((cl, cu), (dl, du)) := b in
  ((Qmin' al cl, Qmin' au cu), (Qmax' bl dl, Qmax' bu du)).

Fixpoint axis_bounds (sel : segment -> list Q) (segs : list (cursor * segment)) : option ((Q * Q) * (Q * Q)) :=
  match segs with
  | [] => None
  | (_, s) :: rest =>
    match axis_bounds sel rest with
    | None => Some (seg_axis_bounds (sel s))
    | Some b => Some (join_bounds (seg_axis_bounds (sel s)) b)
    end
  end.

Definition max_degree (sel : segment -> list Q) (segs : list (cursor * segment)) : nat :=
  fold_left (fun a cs => Nat.max a (length (sel (snd cs)) - 1)) segs 0%nat.
