(** sb_i_poly_touches_1d / sb_i_poly_touches_2d and sb_poly_eval on a straight
    segment, in binary32 (every operation is the exact one followed by rnd32):
    does  b + a t = y  have a solution with t in [0,1], and which.  The
    dispatch in sb_poly_touches sends a polynomial here when its leading
    coefficient is significant (FLT_MIN <= |a|). *)
From Coq Require Import QArith ZArith Bool.
From SB Require Import Base.Prelude Base.Num Base.F32.
Local Open Scope Q_scope.

Definition touches_const (b y : Q) : option Q := if Qeq_bool y b then Some 0 else None.

Definition touches_linear (b a y : Q) : option Q :=
  if Qltb (Qabs' a) FLT_MIN then touches_const b y
  else if Qltb 0 a && Qle_bool b y && Qle_bool y (fadd a b) then Some (fdiv (fsub y b) a)
  else if Qltb a 0 && Qle_bool (fadd a b) y && Qle_bool y b then Some (fdiv (fsub y b) a)
  else None.

(** Horner's rule as sb_poly_eval runs it on two coefficients *)
Definition eval_linear_f32 (b a u : Q) : Q := fadd (fmul a u) b.
