(** Model of src/trajectory/trajectory.c: block header, segment decoding with
    chained start point and start time, the player's time -> segment search,
    position / velocity / acceleration, durations.  Arithmetic is exact
    (rationals); where the C code computes in binary32 the results differ by
    rounding only (bound: Spec/TrajSpec.v [tol_pos]), and the segment selected
    can differ only when [t] is within rounding of a segment boundary. *)
From Coq Require Import ZArith QArith List.
From SB Require Import Base.Prelude Base.Num Gen.Generated Model.Codec Model.Poly.
Import ListNotations.
Local Open Scope Z_scope.

Record vec4 := mkvec4 { vx : Q; vy : Q; vz : Q; vyaw : Q }.

(** sb_trajectory_t after sb_i_trajectory_init_from_bytes *)
Record traj := mktraj {
  t_bytes : list Z;
  t_scale : Z;
  t_use_yaw : bool;
  t_start : vec4
}.

Definition traj_header_length : nat := 9.

(** sb_i_trajectory_parse_angle: int16 % 3600 (C remainder), + 3600 if negative, / 10 *)
Definition angle_of (v : Z) : Q := (v mod 3600) # 10.

Definition coord_of (scale v : Z) : Q := inject_Z (v * scale).

(** sb_i_trajectory_init_from_bytes (+ parse_header) *)
Definition traj_init (b : list Z) : res traj :=
  match b with
  | b0 :: x0 :: x1 :: y0 :: y1 :: z0 :: z1 :: w0 :: w1 :: _ =>
    let scale := Z.land b0 127 in
    Ok (mktraj b scale (negb (Z.land b0 128 =? 0))
               (mkvec4 (coord_of scale (sx16 (le16 x0 x1))) (coord_of scale (sx16 (le16 y0 y1)))
                       (coord_of scale (sx16 (le16 z0 z1))) (angle_of (sx16 (le16 w0 w1)))))
  | _ => Err SB_EPARSE
  end.

(** sb_trajectory_init_empty: an empty buffer, scale 1, the origin as start *)
Definition traj_empty : traj := mktraj [] 1 false (mkvec4 0 0 0 0).

(** A decoded segment: duration and the control points per axis (the start
    point first), i.e. what sb_i_trajectory_player_build_current_segment feeds
    to sb_poly_make_bezier, and its end point. *)
Record segment := mkseg {
  sg_dur : Z;                 (* duration_msec *)
  sg_x : list Q; sg_y : list Q; sg_z : list Q; sg_yaw : list Q;
  sg_len : nat                (* bytes consumed *)
}.

Definition num_coords (bits : Z) : nat := Nat.pow 2 (Z.to_nat (Z.land bits 3)).

(** [n] 16-bit values from the head of [rest] *)
Fixpoint take_i16 (n : nat) (rest : list Z) : option (list Z * list Z) :=
  match n with
  | O => Some ([], rest)
  | S n' =>
    match rest with
    | b0 :: b1 :: r =>
      match take_i16 n' r with
      | Some (vs, r') => Some (sx16 (le16 b0 b1) :: vs, r')
      | None => None
      end
    | _ => None
    end
  end.

Definition last_or (l : list Q) (d : Q) : Q := last l d.

(** [length l < n] without walking the whole list (the buffer can be long,
    [n] is at most 58) *)
Fixpoint shorter (l : list Z) (n : nat) {struct n} : bool :=
  match n with
  | O => false
  | S n' => match l with [] => true | _ :: r => shorter r n' end
  end.

Lemma shorter_length : forall n l, shorter l n = (length l <? n)%nat.
Proof.
  induction n as [|n IH]; intros l.
  - unfold Nat.ltb. reflexivity.
  - destruct l as [|a r]; [reflexivity|]. cbn [shorter length]. rewrite IH. reflexivity.
Qed.

Definition seg_end (s : segment) (start : vec4) : vec4 :=
  mkvec4 (last_or (sg_x s) (vx start)) (last_or (sg_y s) (vy start))
         (last_or (sg_z s) (vz start)) (last_or (sg_yaw s) (vyaw start)).

(** Decode the segment at the head of [rest] ([rest] = the buffer from the
    segment's offset on).  [None] = no segment here (end of buffer or scale 0):
    the player parks on the constant terminal segment.  A segment cut short by
    the end of the buffer is SB_EPARSE. *)
Definition decode_segment (scale : Z) (start : vec4) (rest : list Z) : res (option (segment * list Z)) :=
  match rest with
  | [] => Ok None
  | header :: r0 =>
    if scale =? 0 then Ok None else
    let nx := num_coords header in
    let ny := num_coords (Z.shiftr header 2) in
    let nz := num_coords (Z.shiftr header 4) in
    let nw := num_coords (Z.shiftr header 6) in
    let need := (2 + 2 * ((nx - 1) + (ny - 1) + (nz - 1) + (nw - 1)))%nat in
    if shorter r0 need then Err SB_EPARSE else
    match r0 with
    | d0 :: d1 :: r1 =>
      match take_i16 (nx - 1) r1 with
      | Some (xs, r2) =>
        match take_i16 (ny - 1) r2 with
        | Some (ys, r3) =>
          match take_i16 (nz - 1) r3 with
          | Some (zs, r4) =>
            match take_i16 (nw - 1) r4 with
            | Some (ws, r5) =>
              Ok (Some (mkseg (le16 d0 d1)
                              (vx start :: map (coord_of scale) xs)
                              (vy start :: map (coord_of scale) ys)
                              (vz start :: map (coord_of scale) zs)
                              (vyaw start :: map angle_of ws)
                              (1 + need), r5))
            | None => Err SB_EPARSE
            end
          | None => Err SB_EPARSE
          end
        | None => Err SB_EPARSE
        end
      | None => Err SB_EPARSE
      end
    | _ => Err SB_EPARSE
    end
  end.

(** ---- player cursor ---- *)
Record cursor := mkcur {
  c_rest : list Z;      (* buffer from current_segment.start on *)
  c_off : nat;          (* current_segment.start *)
  c_start_ms : Z;       (* start_time_msec of the current segment *)
  c_start : vec4        (* start point of the current segment *)
}.

Definition cursor0 (t : traj) : cursor :=
  mkcur (skipn traj_header_length (t_bytes t)) traj_header_length 0 (t_start t).

Definition u32 (v : Z) : Z := v mod 4294967296.

(** the cursor after the current segment (sb_trajectory_player_build_next_segment) *)
Definition next_cursor (c : cursor) (s : segment) (rest' : list Z) : cursor :=
  mkcur rest' (sg_len s + c_off c) (u32 (c_start_ms c + sg_dur s)) (seg_end s (c_start c)).

(** ---- query time ---- *)
Inductive qtime := QNegInf | QPosInf | QFin (q : Q).

(** [t <= 0 -> t = 0] *)
Definition clamp0 (t : qtime) : qtime :=
  match t with
  | QNegInf => QFin 0
  | QPosInf => QPosInf
  | QFin q => if Qle_bool q 0 then QFin 0 else QFin q
  end.

Definition ms_sec (ms : Z) : Q := ms # 1000.

(** [end_time_sec < t] for a real segment *)
Definition before (end_ms : Z) (t : qtime) : bool :=
  match t with
  | QPosInf => true
  | QNegInf => false
  | QFin q => Qltb (ms_sec end_ms) q
  end.
(** [start_time_sec > t] *)
Definition after (start_ms : Z) (t : qtime) : bool :=
  match t with
  | QPosInf => false
  | QNegInf => true
  | QFin q => Qltb q (ms_sec start_ms)
  end.

(** What a query lands on. *)
Inductive landing :=
| OnSegment (c : cursor) (s : segment) (u : Q)     (* relative time in the segment *)
| OnEnd (c : cursor).                              (* terminal constant segment *)

Definition rel_time (c : cursor) (s : segment) (t : qtime) : Q :=
  match t with
  | QPosInf => 1
  | QNegInf => 0
  | QFin q =>
    (* fabsf(duration_sec) > 1e-6: true for every duration >= 1 ms *)
    if sg_dur s =? 0 then 1 # 2
    else (q - ms_sec (c_start_ms c)) / ms_sec (sg_dur s)
  end.

(** sb_i_trajectory_player_seek_to_time, forward part: advance while the
    current segment ends before [t].  One segment per unit of fuel; a block of
    n bytes has fewer than n segments. *)
Fixpoint seek_fwd (fuel : nat) (tr : traj) (c : cursor) (t : qtime) : res landing :=
  match fuel with
  | O => Fuel
  | S f =>
    d <- decode_segment (t_scale tr) (c_start c) (c_rest c) ;;
    match d with
    | None => Ok (OnEnd c)
    | Some (s, rest') =>
      if before (u32 (c_start_ms c + sg_dur s)) t
      then seek_fwd f tr (next_cursor c s rest') t
      else Ok (OnSegment c s (rel_time c s t))
    end
  end.

(** Full seek from an arbitrary cursor: rewind first when the current segment
    starts after [t]. *)
Definition seek (tr : traj) (c : cursor) (t : qtime) : res landing :=
  let t := clamp0 t in
  let c := if after (c_start_ms c) t then cursor0 tr else c in
  seek_fwd (S (length (t_bytes tr))) tr c t.

Definition landing_cursor (l : landing) : cursor :=
  match l with OnSegment c _ _ => c | OnEnd c => c end.

(** ---- evaluation ---- *)
Definition qone : Q := 1.

Definition poly4 (s : segment) : list Q * list Q * list Q * list Q :=
  (make_bezier QOps qone (sg_x s), make_bezier QOps qone (sg_y s),
   make_bezier QOps qone (sg_z s), make_bezier QOps qone (sg_yaw s)).

Definition eval4 (p : list Q * list Q * list Q * list Q) (u : Q) : vec4 :=
  let '(px, py, pz, pw) := p in
  mkvec4 (horner QOps px u) (horner QOps py u) (horner QOps pz u) (horner QOps pw u).

Definition map4 (f : list Q -> list Q) (p : list Q * list Q * list Q * list Q) :=
  let '(px, py, pz, pw) := p in (f px, f py, f pz, f pw).

(** sb_i_get_dpoly / sb_i_get_ddpoly: derivative, then scaling by
    1/duration_sec when the duration is not tiny *)
Definition dpoly4 (s : segment) (p : list Q * list Q * list Q * list Q) :=
  let d := map4 (deriv QOps) p in
  if sg_dur s =? 0 then d else map4 (fun cs => scale QOps cs (Qinv (ms_sec (sg_dur s)))) d.

Definition position_of (l : landing) : vec4 :=
  match l with
  | OnSegment _ s u => eval4 (poly4 s) u
  | OnEnd c => c_start c
  end.

Definition zero4 : vec4 := mkvec4 0 0 0 0.

Definition velocity_of (l : landing) : vec4 :=
  match l with
  | OnSegment _ s u => eval4 (dpoly4 s (poly4 s)) u
  | OnEnd _ => zero4
  end.

Definition acceleration_of (l : landing) : vec4 :=
  match l with
  | OnSegment _ s u => eval4 (dpoly4 s (dpoly4 s (poly4 s))) u
  | OnEnd _ => zero4
  end.

(** Fresh-player queries (sb_trajectory_player_get_*_at on a new player). *)
Definition position_at (tr : traj) (t : qtime) : res vec4 :=
  l <- seek tr (cursor0 tr) t ;; Ok (position_of l).
Definition velocity_at (tr : traj) (t : qtime) : res vec4 :=
  l <- seek tr (cursor0 tr) t ;; Ok (velocity_of l).
Definition acceleration_at (tr : traj) (t : qtime) : res vec4 :=
  l <- seek tr (cursor0 tr) t ;; Ok (acceleration_of l).

(** sb_trajectory_player_get_total_duration_msec: sum of the segment
    durations in uint32 arithmetic. *)
Fixpoint total_duration_from (fuel : nat) (tr : traj) (c : cursor) (acc : Z) : res Z :=
  match fuel with
  | O => Fuel
  | S f =>
    d <- decode_segment (t_scale tr) (c_start c) (c_rest c) ;;
    match d with
    | None => Ok acc
    | Some (s, rest') => total_duration_from f tr (next_cursor c s rest') (u32 (acc + sg_dur s))
    end
  end.

Definition total_duration_msec (tr : traj) : res Z :=
  total_duration_from (S (length (t_bytes tr))) tr (cursor0 tr) 0.

(** All segments in order (used by the statistics and the specification). *)
Fixpoint segments_from (fuel : nat) (tr : traj) (c : cursor) : res (list (cursor * segment)) :=
  match fuel with
  | O => Fuel
  | S f =>
    d <- decode_segment (t_scale tr) (c_start c) (c_rest c) ;;
    match d with
    | None => Ok []
    | Some (s, rest') =>
      r <- segments_from f tr (next_cursor c s rest') ;; Ok ((c, s) :: r)
    end
  end.

Definition segments (tr : traj) : res (list (cursor * segment)) :=
  segments_from (S (length (t_bytes tr))) tr (cursor0 tr).

(** The segments that decode, in order, stopping silently at the end or at the
    first segment that does not decode (used for tolerances and statistics on
    malformed blocks). *)
Fixpoint segments_upto (fuel : nat) (tr : traj) (c : cursor) : list (cursor * segment) :=
  match fuel with
  | O => []
  | S f =>
    match decode_segment (t_scale tr) (c_start c) (c_rest c) with
    | Ok (Some (s, rest')) => (c, s) :: segments_upto f tr (next_cursor c s rest')
    | _ => []
    end
  end.

Definition segments_prefix (tr : traj) : list (cursor * segment) :=
  segments_upto (S (length (t_bytes tr))) tr (cursor0 tr).
