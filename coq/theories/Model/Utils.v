(** Model of src/utils.c, bit-exact on binary32 (exact operation followed by
    rounding, Base/F32.v).  Float arguments are the exact rational values of
    finite binary32 numbers; infinities are separate constructors. *)
From Coq Require Import ZArith QArith Qround.
From SB Require Import Base.Prelude Base.Num Base.F32 Gen.Generated.
Local Open Scope Z_scope.

(** a binary32 argument / result *)
Inductive fnum := FNan | FInf (neg : bool) | FVal (q : Q).

(** sb_get_travel_time_for_distance(distance, speed, acceleration) *)
Definition travel_time (distance speed acceleration : fnum) : fnum :=
  let lt0 x := match x with FVal q => Qltb q 0 | FInf n => n | FNan => false end in
  let le0 x := match x with FVal q => Qle_bool q 0 | FInf n => n | FNan => false end in
  (* if (distance < 0 || speed <= 0 || acceleration <= 0) return INFINITY; *)
  if lt0 distance || le0 speed || le0 acceleration then FInf false else
  match distance, speed, acceleration with
  | FNan, _, _ | _, FNan, _ | _, _, FNan => FNan      (* NaN propagates through the arithmetic *)
  | FVal d, FVal v, FInf false =>
    if Qeq_bool d 0 then FVal 0 else FVal (fdiv d v)
  | FVal d, FVal v, FVal a =>
    if Qeq_bool d 0 then FVal 0 else
    let t1 := fdiv v a in
    let s1 := fmul (fmul (fdiv a 2) t1) t1 in
    if Qle_bool (fmul 2 s1) d
    then FVal (fadd (fmul 2 t1) (fdiv (fsub d (fmul 2 s1)) v))
    else FVal (fadd (fmul 2 (fsqrt (fdiv d a))) 0)
  | FInf false, FVal v, _ => FInf false               (* infinite distance: infinite time *)
  | FVal d, FInf false, FVal a =>
    (* infinite speed limit: t1 = inf, s1 = inf: triangular profile *)
    if Qeq_bool d 0 then FVal 0 else FVal (fadd (fmul 2 (fsqrt (fdiv d a))) 0)
  | _, _, _ => FNan
  end.

(** sb_i_scale_update(scale, x, y, z): new scale or SB_EOVERFLOW *)
Definition scale_update (scale : Z) (x y z : Q) : res Z :=
  let scale := if scale =? 0 then 1 else scale in
  let mx := f32_of_Z (scale * 32767) in
  let mc := Qmax' (Qmax' (Qabs' x) (Qabs' y)) (Qabs' z) in
  if Qltb mx mc then
    let ns := fceil (fdiv mc (inject_Z 32767)) in
    if ns <=? 127 then Ok ns else Err SB_EOVERFLOW
  else Ok scale.

(** sb_uint32_msec_duration_from_float_seconds (after the repair: the limit
    itself overflows) *)
Definition max_duration_sec : Q := fdiv (f32_of_Z 4294967295) (inject_Z 1000).
Definition msec_of_sec (d : fnum) : res Z :=
  match d with
  | FNan => Err SB_EINVAL
  | FInf true => Err SB_EINVAL
  | FInf false => Err SB_EOVERFLOW
  | FVal q =>
    if Qltb q 0 then Err SB_EINVAL
    else if Qle_bool max_duration_sec q then Err SB_EOVERFLOW
    else Ok (ftrunc (fmul q (inject_Z 1000)))
  end.

(** sb_interval_expand *)
Definition interval_expand (lo hi off : Q) : Q * Q :=
  let lo' := fsub lo off in
  let hi' := fadd hi off in
  if Qltb hi' lo' then
    let m := fadd lo' (fdiv (fsub hi' lo') 2) in (m, m)
  else (lo', hi').
