(** Model of src/utils.c, bit-exact on binary32 (exact operation followed by
    rounding, Base/F32.v).  Float arguments are the exact rational values of
    finite binary32 numbers; infinities are separate constructors. *)
From Coq Require Import ZArith QArith Qround.
From SB Require Import Base.Prelude Base.Num Base.F32 Gen.Generated.
Local Open Scope Z_scope.

(** a binary32 argument / result *)
Inductive fnum := FNan | FInf (neg : bool) | FVal (q : Q).

(** IEEE special cases around the rounded operations (signed zeros are not
    distinguished: no model below divides by a zero of unknown sign) *)
Definition is_zero (x : fnum) : bool := match x with FVal q => Qeq_bool q 0 | _ => false end.
Definition fn_neg (x : fnum) : bool := match x with FVal q => Qltb q 0 | FInf n => n | FNan => false end.
Definition fn_add (a b : fnum) : fnum :=
  match a, b with
  | FNan, _ | _, FNan => FNan
  | FVal x, FVal y => FVal (fadd x y)
  | FInf n, FInf m => if Bool.eqb n m then FInf n else FNan
  | FInf n, _ | _, FInf n => FInf n
  end.
Definition fn_opp (a : fnum) : fnum :=
  match a with FNan => FNan | FInf n => FInf (negb n) | FVal x => FVal (Qred (- x)) end.
Definition fn_sub (a b : fnum) : fnum := fn_add a (fn_opp b).
Definition fn_mul (a b : fnum) : fnum :=
  match a, b with
  | FNan, _ | _, FNan => FNan
  | FVal x, FVal y => FVal (fmul x y)
  | FInf n, o | o, FInf n => if is_zero o then FNan else FInf (xorb n (fn_neg o))
  end.
Definition fn_div (a b : fnum) : fnum :=
  match a, b with
  | FNan, _ | _, FNan => FNan
  | FInf _, FInf _ => FNan
  | FInf n, o => FInf (xorb n (fn_neg o))
  | FVal _, FInf _ => FVal 0
  | FVal x, FVal y => if Qeq_bool y 0 then (if Qeq_bool x 0 then FNan else FInf (Qltb x 0)) else FVal (fdiv x y)
  end.
Definition fn_sqrt (a : fnum) : fnum :=
  match a with
  | FNan => FNan
  | FInf n => if n then FNan else FInf false
  | FVal x => if Qltb x 0 then FNan else FVal (fsqrt x)
  end.
(** a >= b (false when either is NaN) *)
Definition fn_ge (a b : fnum) : bool :=
  match a, b with
  | FNan, _ | _, FNan => false
  | FInf n, FInf m => orb (negb n) m
  | FInf n, _ => negb n
  | _, FInf m => m
  | FVal x, FVal y => Qle_bool y x
  end.

(** sb_get_travel_time_for_distance(distance, speed, acceleration) *)
Definition travel_time (distance speed acceleration : fnum) : fnum :=
  let lt0 x := match x with FVal q => Qltb q 0 | FInf n => n | FNan => false end in
  let le0 x := match x with FVal q => Qle_bool q 0 | FInf n => n | FNan => false end in
  let two := FVal (inject_Z 2) in
  if lt0 distance || le0 speed || le0 acceleration then FInf false
  else if is_zero distance then FVal 0
  else match acceleration with
       | FInf false => fn_div distance speed
       | _ =>
         let t1 := fn_div speed acceleration in
         let s1 := fn_mul (fn_mul (fn_div acceleration two) t1) t1 in
         if fn_ge distance (fn_mul two s1)
         then fn_add (fn_mul two t1) (fn_div (fn_sub distance (fn_mul two s1)) speed)
         else fn_add (fn_mul two (fn_sqrt (fn_div distance acceleration))) (FVal 0)
       end.

(** sb_i_scale_update(scale, x, y, z): new scale or SB_EOVERFLOW *)
Definition scale_update (scale : Z) (x y z : Q) : res Z :=
  let scale := if scale =? 0 then 1 else scale in
  let mx := f32_of_Z (scale * 32767) in
  let mc := Qmax' (Qmax' (Qabs' x) (Qabs' y)) (Qabs' z) in
  if Qltb mx mc then
    let ns := fceil (fdiv mc (inject_Z 32767)) in
    if ns <=? 127 then Ok ns else Err SB_EOVERFLOW
  else Ok scale.

(** sb_uint32_msec_duration_from_float_seconds (after the repair: the limit
    itself overflows) *)
Definition max_duration_sec : Q := fdiv (f32_of_Z 4294967295) (inject_Z 1000).
Definition msec_of_sec (d : fnum) : res Z :=
  match d with
  | FNan => Err SB_EINVAL
  | FInf true => Err SB_EINVAL
  | FInf false => Err SB_EOVERFLOW
  | FVal q =>
    if Qltb q 0 then Err SB_EINVAL
    else if Qle_bool max_duration_sec q then Err SB_EOVERFLOW
    else Ok (ftrunc (fmul q (inject_Z 1000)))
  end.

(** sb_interval_expand *)
Definition interval_expand (lo hi off : Q) : Q * Q :=
  let lo' := fsub lo off in
  let hi' := fadd hi off in
  if Qltb hi' lo' then
    let m := fadd lo' (fdiv (fsub hi' lo') 2) in (m, m)
  else (lo', hi').
