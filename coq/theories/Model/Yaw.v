(** Model of src/yaw_control/yaw_control.c: header, setpoint chaining in
    integer tenths of a degree, the player's search, yaw and yaw rate.
    Exact rationals where the C code computes in binary32. *)
From Coq Require Import ZArith QArith List.
From SB Require Import Base.Prelude Base.Num Gen.Generated Model.Codec Model.Traj.
Import ListNotations.
Local Open Scope Z_scope.

Record yawctl := mkyaw {
  y_bytes : list Z;
  y_auto : bool;
  y_offset : Z;           (* yaw_offset_ddeg *)
  y_num_deltas : nat
}.

Definition yaw_header_length : nat := 3.

(** sb_i_yaw_control_init_from_bytes (+ parse_header) *)
Definition yaw_init (b : list Z) : res yawctl :=
  match b with
  | b0 :: o0 :: o1 :: _ =>
    Ok (mkyaw b (negb (Z.land b0 1 =? 0)) (sx16 (le16 o0 o1))
              ((length b - yaw_header_length) / Z.to_nat YAW_SIZE_OF_DELTA)%nat)
  | _ => Err SB_EPARSE
  end.

(** sb_yaw_control_init_empty *)
Definition yaw_empty : yawctl := mkyaw [] false 0 0.

Definition yaw_is_empty (y : yawctl) : bool := (y_num_deltas y =? 0)%nat.

(** cursor of the yaw player *)
Record ycursor := mkyc {
  yc_rest : list Z; yc_off : nat; yc_start_ms : Z; yc_start_ddeg : Z
}.

Definition ycursor0 (y : yawctl) : ycursor :=
  mkyc (skipn yaw_header_length (y_bytes y)) yaw_header_length 0 (y_offset y).

(** sb_i_yaw_player_build_current_setpoint: [None] = no (whole) delta left *)
Definition decode_delta (rest : list Z) : option (Z * Z * list Z) :=
  match rest with
  | d0 :: d1 :: c0 :: c1 :: r => Some (le16 d0 d1, sx16 (le16 c0 c1), r)
  | _ => None
  end.

Definition ynext (c : ycursor) (dur change : Z) (r : list Z) : ycursor :=
  mkyc r (4 + yc_off c) (u32 (yc_start_ms c + dur)) (yc_start_ddeg c + change).

Inductive ylanding :=
| YOn (c : ycursor) (dur change : Z) (u : Q)
| YEnd (c : ycursor).

Definition yrel (c : ycursor) (dur : Z) (t : qtime) : Q :=
  match t with
  | QPosInf => 1
  | QNegInf => 0
  | QFin q => if dur =? 0 then 1 # 2 else ((q - ms_sec (yc_start_ms c)) / ms_sec dur)%Q
  end.

Fixpoint yseek_fwd (fuel : nat) (c : ycursor) (t : qtime) : res ylanding :=
  match fuel with
  | O => Fuel
  | S f =>
    match decode_delta (yc_rest c) with
    | None => Ok (YEnd c)
    | Some (dur, change, r) =>
      if before (u32 (yc_start_ms c + dur)) t then yseek_fwd f (ynext c dur change r) t
      else Ok (YOn c dur change (yrel c dur t))
    end
  end.

Definition yseek (y : yawctl) (c : ycursor) (t : qtime) : res ylanding :=
  let t := clamp0 t in
  let c := if after (yc_start_ms c) t then ycursor0 y else c in
  yseek_fwd (S (length (y_bytes y))) c t.

Definition ylanding_cursor (l : ylanding) : ycursor :=
  match l with YOn c _ _ _ => c | YEnd c => c end.

Definition ddeg (v : Z) : Q := v # 10.

(** sb_yaw_player_get_yaw_at: start_yaw_deg + yaw_change_deg * rel_t *)
Definition yaw_of (l : ylanding) : Q :=
  match l with
  | YOn c _ change u => (ddeg (yc_start_ddeg c) + ddeg change * u)%Q
  | YEnd c => ddeg (yc_start_ddeg c)
  end.

(** sb_yaw_player_get_yaw_rate_at: yaw_change_deg / duration_sec; [None] is
    the infinite rate reported for a zero-length setpoint *)
Definition yaw_rate_of (l : ylanding) : option Q :=
  match l with
  | YOn _ dur change _ => if dur =? 0 then None else Some (ddeg change / ms_sec dur)%Q
  | YEnd _ => Some 0%Q
  end.

Definition yaw_at (y : yawctl) (t : qtime) : res Q :=
  l <- yseek y (ycursor0 y) t ;; Ok (yaw_of l).
Definition yaw_rate_at (y : yawctl) (t : qtime) : res (option Q) :=
  l <- yseek y (ycursor0 y) t ;; Ok (yaw_rate_of l).

Fixpoint ytotal_from (fuel : nat) (c : ycursor) (acc : Z) : Z :=
  match fuel with
  | O => acc
  | S f =>
    match decode_delta (yc_rest c) with
    | None => acc
    | Some (dur, change, r) => ytotal_from f (ynext c dur change r) (u32 (acc + dur))
    end
  end.

Definition yaw_total_duration_msec (y : yawctl) : Z :=
  ytotal_from (S (length (y_bytes y))) (ycursor0 y) 0.
