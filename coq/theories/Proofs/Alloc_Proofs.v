(** Proofs for property C17 (Model/Alloc.v): no illegal release, no leak,
    failed creation leaves nothing behind, the failing call reports ENOMEM. *)
From Coq Require Import ZArith List Bool Arith Lia Permutation.
From SB Require Import Base.Prelude Base.Num Base.F32 Gen.Generated Model.Crc Model.Container Model.Loaders
  Model.Traj Model.Utils Model.Rth Model.Builder Model.Alloc.
Import ListNotations.
Local Open Scope nat_scope.

(** * Heap well-formedness relative to a list of owned identifiers *)

Definition no_bad (h : heap) : Prop := forall p, ~ In (EvBad p) (h_trace h).

Definition hwf (L : list nat) (h : heap) : Prop :=
  Permutation L (h_live h) /\ NoDup L /\ (forall id, In id L -> id < h_next h) /\ no_bad h.

(** frame transformer: owned set A in heap h becomes owned set B in heap h',
    whatever else (R) is owned *)
Definition tr (A : list nat) (h : heap) (B : list nat) (h' : heap) : Prop :=
  forall R, hwf (A ++ R) h -> hwf (B ++ R) h'.

(** the injected failure fired between h and h' *)
Definition fires (h h' : heap) : Prop := exists k, h_fail h = Some k /\ h_fail h' = None.

Lemma hwf_perm L L' h : Permutation L L' -> hwf L h -> hwf L' h.
Proof.
  intros P (H1 & H2 & H3 & H4). split; [|split; [|split]].
  - eapply Permutation_trans; [apply Permutation_sym; exact P | exact H1].
  - eapply Permutation_NoDup; eauto.
  - intros id Hin. apply H3. eapply Permutation_in; [apply Permutation_sym; exact P | exact Hin].
  - exact H4.
Qed.

Lemma tr_refl A h : tr A h A h.
Proof. intros R H. exact H. Qed.

Lemma tr_trans A h B h1 C h2 : tr A h B h1 -> tr B h1 C h2 -> tr A h C h2.
Proof. intros T1 T2 R H. apply T2, T1, H. Qed.

Lemma tr_frame A h B h' F : tr A h B h' -> tr (A ++ F) h (B ++ F) h'.
Proof. intros T R H. rewrite <- app_assoc in *. apply T. exact H. Qed.

Lemma tr_perm A A' B B' h h' : Permutation A A' -> Permutation B B' -> tr A h B h' -> tr A' h B' h'.
Proof.
  intros PA PB T R H.
  eapply hwf_perm; [apply Permutation_app_tail; exact PB|].
  apply T. eapply hwf_perm; [apply Permutation_app_tail, Permutation_sym; exact PA|exact H].
Qed.

Lemma tr_frame_l A h B h' F : tr A h B h' -> tr (F ++ A) h (F ++ B) h'.
Proof.
  intros T. eapply tr_perm; [apply Permutation_app_comm|apply Permutation_app_comm|].
  apply tr_frame. exact T.
Qed.

Lemma tr_cons A h B h' x : tr A h B h' -> tr (x :: A) h (x :: B) h'.
Proof. intros T. apply (tr_frame_l A h B h' [x]). exact T. Qed.

Lemma fires_irrefl h : ~ fires h h.
Proof. intros (k & H1 & H2). congruence. Qed.

Lemma fires_split h h1 h2 : fires h h2 -> fires h h1 \/ fires h1 h2.
Proof.
  intros (k & H1 & H2). destruct (h_fail h1) as [k1|] eqn:E.
  - right. exists k1. auto.
  - left. exists k. auto.
Qed.

Lemma fires_eq_r h h1 h2 : h_fail h2 = h_fail h1 -> fires h h2 -> fires h h1.
Proof. intros E (k & H1 & H2). exists k. split; congruence. Qed.

Lemma fires_eq_l h h1 h2 : h_fail h1 = h_fail h -> fires h1 h2 -> fires h h2.
Proof. intros E (k & H1 & H2). exists k. split; congruence. Qed.

(** ** primitives *)

Lemma is_live_in id h : is_live id h = true <-> In id (h_live h).
Proof.
  unfold is_live. rewrite existsb_exists. split.
  - intros (x & Hin & He). apply Nat.eqb_eq in He. subst. exact Hin.
  - intros Hin. exists id. split; [exact Hin|apply Nat.eqb_refl].
Qed.

Lemma remove_id_in id l x : In x (remove_id id l) <-> In x l /\ id <> x.
Proof.
  unfold remove_id. rewrite filter_In. rewrite negb_true_iff, Nat.eqb_neq. tauto.
Qed.

Lemma hwf_fresh R h (ev : event) f :
  (forall p, ev <> EvBad p) ->
  hwf R h -> hwf (h_next h :: R) (mkheap (h_next h :: h_live h) (S (h_next h)) f (ev :: h_trace h)).
Proof.
  intros Hev (P & ND & B & NB). split; [|split; [|split]]; cbn.
  - apply perm_skip. exact P.
  - constructor; [|exact ND]. intros Hin. apply B in Hin. lia.
  - intros id [<-|Hin]; [lia|]. apply B in Hin. lia.
  - intros p [He|Hin]; [exact (Hev p He)|exact (NB p Hin)].
Qed.

Lemma hwf_log R h (ev : event) f :
  (forall p, ev <> EvBad p) ->
  hwf R h -> hwf R (mkheap (h_live h) (h_next h) f (ev :: h_trace h)).
Proof.
  intros Hev (P & ND & B & NB). split; [|split; [|split]]; cbn; auto.
  intros p [He|Hin]; [exact (Hev p He)|exact (NB p Hin)].
Qed.

Lemma hwf_remove id R h (ev : event) f n :
  (forall p, ev <> EvBad p) -> h_next h <= n ->
  hwf (id :: R) h -> hwf R (mkheap (remove_id id (h_live h)) n f (ev :: h_trace h)).
Proof.
  intros Hev Hn (P & ND & B & NB). inversion ND as [|x l Hnotin ND']; subst.
  split; [|split; [|split]]; cbn.
  - apply NoDup_Permutation.
    + exact ND'.
    + unfold remove_id. apply NoDup_filter. eapply Permutation_NoDup; [exact P|exact ND].
    + intros x. rewrite remove_id_in. split.
      * intros Hin. split.
        -- eapply Permutation_in; [exact P|right; exact Hin].
        -- intros ->. contradiction.
      * intros (Hin & Hne). eapply Permutation_in in Hin; [|apply Permutation_sym; exact P].
        destruct Hin as [->|Hin]; [congruence|exact Hin].
  - exact ND'.
  - intros x Hin. specialize (B x (or_intror Hin)). lia.
  - intros p [He|Hin]; [exact (Hev p He)|exact (NB p Hin)].
Qed.

Lemma hwf_live id R h : hwf (id :: R) h -> is_live id h = true.
Proof.
  intros (P & _). apply is_live_in. eapply Permutation_in; [exact P|left; reflexivity].
Qed.

Lemma tr_alloc sz h p h' : h_alloc sz h = (p, h') ->
  (p = PNull /\ tr [] h [] h') \/ (exists id, p = PLib id /\ tr [] h [id] h').
Proof.
  unfold h_alloc. intros E.
  destruct (h_fail h) as [[|k]|] eqn:Ef; inversion E; subst; clear E.
  - left. split; [reflexivity|]. intros R H. cbn in *. apply hwf_log; [discriminate|exact H].
  - right. eexists. split; [reflexivity|]. intros R H. cbn in *. apply hwf_fresh; [discriminate|exact H].
  - right. eexists. split; [reflexivity|]. intros R H. cbn in *. apply hwf_fresh; [discriminate|exact H].
Qed.

Lemma fires_alloc sz h p h' : h_alloc sz h = (p, h') -> fires h h' -> p = PNull.
Proof.
  unfold h_alloc. intros E (k & H1 & H2).
  destruct (h_fail h) as [[|k']|] eqn:Ef; inversion E; subst; clear E; cbn in *; congruence.
Qed.

Lemma tr_new h p h' : h_new h = (p, h') -> exists id, p = PLib id /\ tr [] h [id] h' /\ h_fail h' = h_fail h.
Proof.
  unfold h_new. intros E. inversion E; subst; clear E. eexists. split; [reflexivity|]. split; [|reflexivity].
  intros R H. cbn in *. apply hwf_fresh; [discriminate|exact H].
Qed.

Lemma tr_caller_alloc sz h p h' : h_caller_alloc sz h = (p, h') ->
  exists id, p = PLib id /\ tr [] h [id] h' /\ h_fail h' = h_fail h.
Proof.
  unfold h_caller_alloc. intros E. inversion E; subst; clear E. eexists. split; [reflexivity|]. split; [|reflexivity].
  intros R H. cbn in *. apply hwf_fresh; [discriminate|exact H].
Qed.

Lemma tr_release ev id h : (forall i p, ev i <> EvBad p) -> tr [id] h [] (h_release ev (PLib id) h).
Proof.
  intros Hev R H. cbn in *. unfold h_release. rewrite (hwf_live _ _ _ H).
  apply (hwf_remove id R h (ev id) (h_fail h) (h_next h)); [apply Hev|lia|exact H].
Qed.

Lemma tr_free id h : tr [id] h [] (h_free (PLib id) h).
Proof. apply tr_release. discriminate. Qed.

Lemma tr_delete id h : tr [id] h [] (h_delete (PLib id) h).
Proof. apply tr_release. discriminate. Qed.

Lemma fail_release ev p h : h_fail (h_release ev p h) = h_fail h.
Proof. unfold h_release. destruct p; [reflexivity| |reflexivity]. destruct (is_live id h); reflexivity. Qed.

Lemma fail_free p h : h_fail (h_free p h) = h_fail h.
Proof. apply fail_release. Qed.

Lemma fail_delete p h : h_fail (h_delete p h) = h_fail h.
Proof. apply fail_release. Qed.

Lemma tr_realloc id sz h r h' : h_realloc (PLib id) sz h = (r, h') ->
  (r = None /\ tr [id] h [id] h') \/ (exists id', r = Some (PLib id') /\ tr [id] h [id'] h').
Proof.
  unfold h_realloc. intros E. destruct (is_live id h) eqn:El.
  - destruct (h_fail h) as [[|k]|] eqn:Ef; inversion E; subst; clear E.
    + left. split; [reflexivity|]. intros R H. apply hwf_log; [discriminate|exact H].
    + right. eexists. split; [reflexivity|]. intros R H. cbn in *.
      apply (hwf_fresh R (mkheap (remove_id id (h_live h)) (h_next h) (h_fail h) (h_trace h))
                       (EvRealloc id (h_next h) sz) (Some k)) ; [discriminate|].
      destruct H as (P & ND & B & NB). inversion ND as [|x l Hnotin ND']; subst.
      pose proof (hwf_remove id R h (EvFree id) (h_fail h) (h_next h)) as HR.
      destruct HR as (P' & ND2 & B' & NB'); [discriminate|lia|split; [|split; [|split]]; assumption|].
      cbn in *. split; [|split; [|split]]; cbn; auto.
    + right. eexists. split; [reflexivity|]. intros R H. cbn in *.
      apply (hwf_fresh R (mkheap (remove_id id (h_live h)) (h_next h) (h_fail h) (h_trace h))
                       (EvRealloc id (h_next h) sz) None) ; [discriminate|].
      destruct H as (P & ND & B & NB). inversion ND as [|x l Hnotin ND']; subst.
      pose proof (hwf_remove id R h (EvFree id) (h_fail h) (h_next h)) as HR.
      destruct HR as (P' & ND2 & B' & NB'); [discriminate|lia|split; [|split; [|split]]; assumption|].
      cbn in *. split; [|split; [|split]]; cbn; auto.
  - inversion E; subst; clear E. left. split; [reflexivity|]. intros R H. cbn in H.
    apply hwf_live in H. congruence.
Qed.

Lemma fires_realloc p sz h r h' : h_realloc p sz h = (r, h') -> fires h h' -> r = None.
Proof.
  unfold h_realloc. intros E (k & H1 & H2). destruct p as [|id|c]; try (inversion E; reflexivity).
  destruct (is_live id h); [|inversion E; reflexivity].
  destruct (h_fail h) as [[|k']|] eqn:Ef; inversion E; subst; clear E; cbn in *; congruence.
Qed.

(** * Buffer layer *)

Definition gb (b : bufst) : Prop := bown b = true -> exists id, bp b = PLib id.

Definition bres (b : bufst) (h : heap) (e : Z) (b' : bufst) (h' : heap) : Prop :=
  (gb b -> gb b' /\ bown b' = bown b /\ tr (owns_buf b) h (owns_buf b') h')
  /\ (fires h h' -> e = SB_ENOMEM).

Lemma bres_refl b h e : bres b h e b h.
Proof.
  split.
  - intros G. split; [exact G|]. split; [reflexivity|apply tr_refl].
  - intros F. destruct (fires_irrefl _ F).
Qed.

Lemma enomem_nz : SB_ENOMEM <> 0%Z.
Proof. discriminate. Qed.

Lemma bres_seq b h b1 h1 e b2 h2 : bres b h 0%Z b1 h1 -> bres b1 h1 e b2 h2 -> bres b h e b2 h2.
Proof.
  intros (A1 & F1) (A2 & F2). split.
  - intros G. destruct (A1 G) as (G1 & O1 & T1). destruct (A2 G1) as (G2 & O2 & T2).
    split; [exact G2|]. split; [congruence|]. eapply tr_trans; eauto.
  - intros F. destruct (fires_split _ h1 _ F) as [F'|F'].
    + apply F1 in F'. symmetry in F'. destruct (enomem_nz F').
    + apply F2. exact F'.
Qed.

Lemma bres_set_size_r b h e b1 h1 n : bres b h e b1 h1 -> bres b h e (set_size b1 n) h1.
Proof. intros H. exact H. Qed.

Lemma bres_set_size_l b h e b1 h1 n : bres b h e b1 h1 -> bres (set_size b n) h e b1 h1.
Proof. intros H. exact H. Qed.

Lemma b_init_res n h r h' : b_init n h = (r, h') ->
  match r with
  | None => tr [] h [] h'
  | Some b => gb b /\ bown b = true /\ tr [] h (owns_buf b) h' /\ ~ fires h h'
  end.
Proof.
  unfold b_init. intros E. destruct (h_alloc (Nat.max n 1) h) as [p h1] eqn:Ea.
  destruct (tr_alloc _ _ _ _ Ea) as [(Hp & T)|(id & Hp & T)]; subst p; inversion E; subst; clear E.
  - exact T.
  - split; [intros _; eexists; reflexivity|]. split; [reflexivity|]. split; [exact T|].
    intros F. apply (fires_alloc _ _ _ _ Ea) in F. discriminate.
Qed.

Lemma b_destroy_tr b h : gb b -> tr (owns_buf b) h [] (b_destroy b h).
Proof.
  intros G. unfold b_destroy, owns_buf. destruct (bown b) eqn:Eo; [|apply tr_refl].
  destruct (G Eo) as (id & Hp). rewrite Hp. apply tr_free.
Qed.

Lemma b_destroy_fail b h : h_fail (b_destroy b h) = h_fail h.
Proof. unfold b_destroy. destruct (bown b); [apply fail_free|reflexivity]. Qed.

Lemma b_realloc_res b n h e b' h' : b_realloc b n h = (e, b', h') -> bres b h e b' h'.
Proof.
  unfold b_realloc. intros E.
  destruct (bcap b =? Nat.max n 1). { inversion E; subst. apply bres_refl. }
  destruct (negb (bown b)) eqn:Eo. { inversion E; subst. apply bres_refl. }
  apply negb_false_iff in Eo.
  destruct (h_realloc (bp b) (Nat.max n 1) h) as [[p|] h1] eqn:Er; inversion E; subst; clear E.
  - split.
    + intros G. destruct (G Eo) as (id & Hp). rewrite Hp in Er.
      destruct (tr_realloc _ _ _ _ _ Er) as [(Hr & _)|(id' & Hr & T)]; [discriminate|]. inversion Hr; subst.
      split; [intros _; eexists; reflexivity|]. split; [cbn; auto|].
      unfold owns_buf. rewrite Eo, Hp. cbn. exact T.
    + intros F. apply (fires_realloc _ _ _ _ _ Er) in F. discriminate.
  - split.
    + intros G. destruct (G Eo) as (id & Hp). rewrite Hp in Er.
      destruct (tr_realloc _ _ _ _ _ Er) as [(Hr & T)|(id' & Hr & T)]; [|discriminate].
      split; [exact G|]. split; [reflexivity|].
      unfold owns_buf. rewrite Eo, Hp. cbn. exact T.
    + reflexivity.
Qed.

Lemma b_ensure_res b n h e b' h' : b_ensure b n h = (e, b', h') -> bres b h e b' h'.
Proof.
  unfold b_ensure. intros E. destruct (n =? 0).
  - inversion E; subst. apply bres_refl.
  - eapply b_realloc_res. exact E.
Qed.

Lemma b_resize_res b n h e b' h' : b_resize b n h = (e, b', h') -> bres b h e b' h'.
Proof.
  unfold b_resize. intros E.
  destruct (negb (bown b)). { inversion E; subst. apply bres_refl. }
  destruct (bsz b <? n).
  - destruct (b_realloc b n h) as [[e1 b1] h1] eqn:Er. apply b_realloc_res in Er.
    destruct e1; inversion E; subst; clear E; exact Er.
  - inversion E; subst. apply (bres_set_size_r b h' SB_OK b h' n). apply bres_refl.
Qed.

Lemma b_append_res b n h e b' h' : b_append b n h = (e, b', h') -> bres b h e b' h'.
Proof.
  unfold b_append. intros E.
  destruct (b_ensure b n h) as [[e1 b1] h1] eqn:Er. apply b_ensure_res in Er.
  destruct e1; inversion E; subst; clear E; exact Er.
Qed.

Lemma b_extend_res b n h e b' h' : b_extend b n h = (e, b', h') -> bres b h e b' h'.
Proof.
  unfold b_extend. intros E.
  destruct (b_ensure b (bsz b + n) h) as [[e1 b1] h1] eqn:Er. apply b_ensure_res in Er.
  destruct e1; inversion E; subst; clear E; exact Er.
Qed.

Lemma b_clear_res b h e b' h' : b_clear b h = (e, b', h') -> bres b h e b' h'.
Proof. apply b_resize_res. Qed.

Lemma b_clear_heap b h e b' h' : b_clear b h = (e, b', h') -> h' = h.
Proof.
  unfold b_clear, b_resize. intros E. destruct (negb (bown b)); [inversion E; reflexivity|].
  change (bsz b <? 0) with false in E. inversion E; reflexivity.
Qed.

Lemma b_prune_res b h e b' h' : b_prune b h = (e, b', h') -> bres b h e b' h'.
Proof. apply b_realloc_res. Qed.

Theorem view_never_grows : forall b n h e b' h',
  bown b = false -> bsz b < n -> b_resize b n h = (e, b', h') -> e = SB_FAILURE /\ b' = b /\ h' = h.
Proof.
  intros b n h e b' h' Ho _ E. unfold b_resize in E. rewrite Ho in E. cbn in E. inversion E; subst. auto.
Qed.

(** * Objects and loaders *)

Definition okp (p : ptr) : Prop := exists id, p = PLib id.

Definition wf_obj (o : obj) : Prop :=
  match o with
  | ONone => True
  | OBuf b | OData _ b => gb b
  | OBuilder _ b => gb b /\ bown b = true
  | ORth p owner => owner = true -> okp p
  | OPlayer pl st => okp pl /\ okp st
  end.

(** result of a creating call *)
Definition cres (A : list nat) (h : heap) (e : Z) (o : obj) (h' : heap) : Prop :=
  tr A h (owns o) h' /\ wf_obj o /\ (e <> 0%Z -> o = ONone) /\ (fires h h' -> e = SB_ENOMEM).

Lemma gb_view c n : gb (b_view c n).
Proof. intros H. discriminate. Qed.

Lemma gb_adopt id n : gb (b_adopt (PLib id) n).
Proof. intros _. eexists; reflexivity. Qed.

Lemma cres_same_ok A h o : tr A h (owns o) h -> wf_obj o -> cres A h SB_OK o h.
Proof.
  intros T W. split; [exact T|]. split; [exact W|]. split.
  - intros H. exfalso. apply H. reflexivity.
  - intros F. destruct (fires_irrefl _ F).
Qed.

Lemma cres_same_none h e : cres [] h e ONone h.
Proof.
  split; [apply tr_refl|]. split; [exact I|]. split; [reflexivity|].
  intros F. destruct (fires_irrefl _ F).
Qed.

Lemma cres_free_none id h e : cres [id] h e ONone (h_free (PLib id) h).
Proof.
  split; [apply tr_free|]. split; [exact I|]. split; [reflexivity|].
  intros F. apply fires_eq_r with (h1 := h) in F; [|apply fail_free]. destruct (fires_irrefl _ F).
Qed.

Lemma from_buffer_res k c n h e o h' : from_buffer k c n h = (e, o, h') -> cres [] h e o h'.
Proof.
  unfold from_buffer. intros E. destruct k.
  - destruct (n <? min_len KTraj); inversion E; subst; clear E.
    + apply cres_same_none.
    + apply cres_same_ok; [apply tr_refl|apply gb_view].
  - destruct (n =? 0).
    + destruct (b_init 0 h) as [[b|] h1] eqn:Eb; apply b_init_res in Eb; inversion E; subst; clear E.
      * destruct Eb as (G & O & T & NF). split; [exact T|]. split; [exact G|]. split.
        -- intros H. exfalso. apply H. reflexivity.
        -- intros F. contradiction.
      * split; [exact Eb|]. split; [exact I|]. split; reflexivity.
    + inversion E; subst; clear E. apply cres_same_ok; [apply tr_refl|apply gb_view].
  - destruct (n <? min_len KYaw); inversion E; subst; clear E.
    + apply cres_same_none.
    + apply cres_same_ok; [apply tr_refl|apply gb_view].
  - destruct (n <? 3); inversion E; subst; clear E.
    + apply cres_same_none.
    + apply cres_same_ok; [apply tr_refl|]. cbn. discriminate.
Qed.

Lemma tr_adopt id n h : tr [id] h (owns_buf (b_adopt (PLib id) n)) h.
Proof. apply tr_refl. Qed.

Lemma from_owned_res k id n h e o h' : from_owned k (PLib id) n h = (e, o, h') -> cres [id] h e o h'.
Proof.
  unfold from_owned. intros E. destruct k.
  - destruct (n <? min_len KTraj); inversion E; subst; clear E.
    + apply cres_free_none.
    + apply cres_same_ok; [apply tr_refl|apply gb_adopt].
  - destruct (n =? 0).
    + destruct (b_init 0 h) as [[b|] h1] eqn:Eb; apply b_init_res in Eb; inversion E; subst; clear E.
      * destruct Eb as (G & O & T & NF). split; [|split; [exact G|split]].
        -- eapply tr_trans; [apply (tr_frame [] h (owns_buf b) h1 [id]); exact T|].
           pose proof (tr_frame_l [id] h1 [] (h_free (PLib id) h1) (owns_buf b) (tr_free id h1)) as T2.
           rewrite app_nil_r in T2. exact T2.
        -- intros H. exfalso. apply H. reflexivity.
        -- intros F. apply fires_eq_r with (h1 := h1) in F; [contradiction|apply (fail_free (PLib id) h1)].
      * split; [|split; [exact I|split; reflexivity]].
        eapply tr_trans; [apply (tr_frame [] h [] h1 [id]); exact Eb|]. apply tr_free.
    + inversion E; subst; clear E. apply cres_same_ok; [apply tr_refl|apply gb_adopt].
  - destruct (n <? min_len KYaw); inversion E; subst; clear E.
    + apply cres_free_none.
    + apply cres_same_ok; [apply tr_refl|apply gb_adopt].
  - destruct (n <? min_len KRth); inversion E; subst; clear E.
    + apply cres_free_none.
    + apply cres_same_ok; [apply tr_refl|apply gb_adopt].
Qed.

(** prefix an allocation step to a creation result *)
Lemma cres_after_alloc sz h id h1 e o h' :
  h_alloc sz h = (PLib id, h1) -> cres [id] h1 e o h' -> cres [] h e o h'.
Proof.
  intros Ea (T & W & Z & F).
  destruct (tr_alloc _ _ _ _ Ea) as [(Hp & _)|(id' & Hp & T1)]; [discriminate|]. inversion Hp; subst id'.
  split; [eapply tr_trans; eauto|]. split; [exact W|]. split; [exact Z|].
  intros Ff. destruct (fires_split _ h1 _ Ff) as [F1|F1].
  - apply (fires_alloc _ _ _ _ Ea) in F1. discriminate.
  - apply F. exact F1.
Qed.

Lemma cres_alloc_fail sz h h1 : h_alloc sz h = (PNull, h1) -> cres [] h ZENOMEM ONone h1.
Proof.
  intros Ea. destruct (tr_alloc _ _ _ _ Ea) as [(_ & T)|(id' & Hp & _)]; [|discriminate].
  split; [exact T|]. split; [exact I|]. split; reflexivity.
Qed.

Lemma alloc_not_caller sz h c h1 : h_alloc sz h = (PCaller c, h1) -> False.
Proof.
  intros Ea. destruct (tr_alloc _ _ _ _ Ea) as [(Hp & _)|(id' & Hp & _)]; discriminate.
Qed.

Lemma from_file_res k r c bytes h e o h' : from_file k r c bytes h = (e, o, h') -> cres [] h e o h'.
Proof.
  unfold from_file. intros E.
  destruct (parser_init r bytes) as [p| | |] eqn:Ep; try (inversion E; subst; apply cres_same_none).
  destruct (find_first p (kind_type k)) as [q| | |] eqn:Eq; try (inversion E; subst; apply cres_same_none).
  assert (HR : forall (ee : Z) (oo : obj) (hh : heap),
    match h_alloc (p_len q) h with
    | (PNull, h') => (ZENOMEM, ONone, h')
    | (pp, h') =>
      match read_current_block q with
      | Ok (body, _) =>
        if length body <? 3 then (SB_EPARSE, ONone, h_free pp h') else (SB_OK, ORth pp true, h')
      | rr => (code_of rr, ONone, h_free pp h')
      end
    end = (ee, oo, hh) -> cres [] h ee oo hh).
  { intros ee oo hh E1. destruct (h_alloc (p_len q) h) as [[|id|cc] h1] eqn:Ea.
    - inversion E1; subst. apply cres_alloc_fail in Ea. exact Ea.
    - apply (cres_after_alloc _ _ _ _ _ _ _ Ea).
      destruct (read_current_block q) as [[body x]| | |]; try (inversion E1; subst; apply cres_free_none).
      destruct (length body <? 3); inversion E1; subst; [apply cres_free_none|].
      apply cres_same_ok; [apply tr_refl|]. cbn. intros _. eexists; reflexivity.
    - destruct (alloc_not_caller _ _ _ _ Ea). }
  assert (HF : forall (ee : Z) (oo : obj) (hh : heap),
    match h_alloc (p_len q) h with
    | (PNull, h') => (ZENOMEM, ONone, h')
    | (pp, h') =>
      match read_current_block q with
      | Ok (body, _) => from_owned k pp (length body) h'
      | rr => (code_of rr, ONone, h_free pp h')
      end
    end = (ee, oo, hh) -> cres [] h ee oo hh).
  { intros ee oo hh E1. destruct (h_alloc (p_len q) h) as [[|id|cc] h1] eqn:Ea.
    - inversion E1; subst. apply cres_alloc_fail in Ea. exact Ea.
    - apply (cres_after_alloc _ _ _ _ _ _ _ Ea).
      destruct (read_current_block q) as [[body x]| | |]; try (inversion E1; subst; apply cres_free_none).
      apply from_owned_res in E1. exact E1.
    - destruct (alloc_not_caller _ _ _ _ Ea). }
  assert (HM : forall (ee : Z) (oo : obj) (hh : heap),
    match read_current_block_ex q with
    | Ok (body, _, _) => from_buffer k c (length body) h
    | rr => (code_of rr, ONone, h)
    end = (ee, oo, hh) -> cres [] h ee oo hh).
  { intros ee oo hh E1.
    destruct (read_current_block_ex q) as [[[body x] y]| | |]; try (inversion E1; subst; apply cres_same_none).
    apply from_buffer_res in E1. exact E1. }
  destruct k; try (destruct r; [apply HM|apply HF]; exact E).
  apply HR. exact E.
Qed.

(** * Builder with its buffer *)

Lemma bres_code0 b h b1 h1 e : bres b h 0%Z b1 h1 -> bres b h e b1 h1.
Proof.
  intros (A & F). split; [exact A|]. intros Ff. apply F in Ff. symmetry in Ff. destruct (enomem_nz Ff).
Qed.

Lemma ab_line_res fuel : forall bd b target dur h e bd' b' h',
  ab_line fuel bd b target dur h = (e, bd', b', h') -> bres b h e b' h'.
Proof.
  induction fuel as [|f IH]; intros bd b target dur h e bd' b' h' E; cbn [ab_line] in E.
  - destruct (validate_point (bb_scale bd) target) eqn:Ev;
      try (injection E; clear E; intros; subst; apply bres_refl).
    destruct (BUILDER_MAX_DURATION_MSEC <? dur)%Z.
    + injection E; clear E; intros; subst; apply bres_refl.
    + destruct (b_extend (sync bd b) 11 h) as [[e1 b1] h1] eqn:Ex. apply b_extend_res in Ex.
      destruct e1.
      * destruct (append_segment bd target dur); injection E; clear E; intros; subst;
          first [exact Ex | apply bres_code0; exact Ex].
      * injection E; clear E; intros; subst. exact Ex.
      * injection E; clear E; intros; subst. exact Ex.
  - destruct (validate_point (bb_scale bd) target) eqn:Ev;
      try (injection E; clear E; intros; subst; apply bres_refl).
    destruct (BUILDER_MAX_DURATION_MSEC <? dur)%Z.
    + match type of E with context [ab_line f bd b ?mid ?half h] =>
        destruct (ab_line f bd b mid half h) as [[[e1 bd1] b1] h1] eqn:E1 end.
      apply IH in E1. destruct e1.
      * apply IH in E. eapply bres_seq; eauto.
      * injection E; clear E; intros; subst. exact E1.
      * injection E; clear E; intros; subst. exact E1.
    + destruct (b_extend (sync bd b) 11 h) as [[e1 b1] h1] eqn:Ex. apply b_extend_res in Ex.
      destruct e1.
      * destruct (append_segment bd target dur); injection E; clear E; intros; subst;
          first [exact Ex | apply bres_code0; exact Ex].
      * injection E; clear E; intros; subst. exact Ex.
      * injection E; clear E; intros; subst. exact Ex.
Qed.

Lemma ab_hold_res fuel : forall bd b dur h e bd' b' h',
  ab_hold fuel bd b dur h = (e, bd', b', h') -> bres b h e b' h'.
Proof.
  induction fuel as [|f IH]; intros bd b dur h e bd' b' h' E; cbn [ab_hold] in E.
  - destruct (dur <=? 0)%Z; injection E; clear E; intros; subst; apply bres_refl.
  - destruct (dur <=? 0)%Z; [injection E; clear E; intros; subst; apply bres_refl|].
    destruct (ab_line 40 bd b (bb_last bd) (Z.min dur BUILDER_MAX_DURATION_MSEC) h) as [[[e1 bd1] b1] h1] eqn:E1.
    apply ab_line_res in E1. destruct e1.
    + apply IH in E. eapply bres_seq; eauto.
    + injection E; clear E; intros; subst. exact E1.
    + injection E; clear E; intros; subst. exact E1.
Qed.

Lemma tr_nil_frame A h h' : tr [] h [] h' -> tr A h A h'.
Proof. intros T. apply (tr_frame [] h [] h' A). exact T. Qed.

Lemma ab_finish_res bd b h e o bd' b' h' : ab_finish bd b h = (e, o, bd', b', h') ->
  (gb b -> bown b = true -> tr (owns_buf b) h (owns o ++ owns_buf b') h' /\ wf_obj o /\ gb b' /\ bown b' = true) /\
  (e <> 0%Z -> o = ONone) /\ (fires h h' -> e = SB_ENOMEM).
Proof.
  unfold ab_finish. intros E.
  destruct (b_init (Z.to_nat BUILDER_HEADER_LENGTH) h) as [[nb|] h1] eqn:Eb; apply b_init_res in Eb.
  - destruct (finish bd) as [x bd1]. injection E; clear E; intros; subst.
    destruct Eb as (G & O & T & NF). split; [|split].
    + intros Gb Ob. destruct (Gb Ob) as (id & Hp). unfold owns_buf at 1. rewrite Ob, Hp. cbn.
      split; [|split; [apply gb_adopt|split; [exact G|exact O]]].
      apply (tr_cons [] h (owns_buf b') h' id). exact T.
    + intros H. exfalso. apply H. reflexivity.
    + intros F. contradiction.
  - injection E; clear E; intros; subst. split; [|split].
    + intros Gb Ob. split; [|split; [exact I|split; [exact Gb|exact Ob]]].
      cbn. apply tr_nil_frame. exact Eb.
    + reflexivity.
    + reflexivity.
Qed.

Lemma cres_prefix A h h1 e o h' :
  tr [] h A h1 -> ~ fires h h1 -> cres A h1 e o h' -> cres [] h e o h'.
Proof.
  intros T NF (T1 & W & Z & F). split; [eapply tr_trans; eauto|]. split; [exact W|]. split; [exact Z|].
  intros Ff. destruct (fires_split _ h1 _ Ff) as [F1|F1]; [contradiction|auto].
Qed.

Lemma cleanup_res b0 h1 code b hh :
  gb b0 -> bres b0 h1 code b hh -> cres (owns_buf b0) h1 code ONone (b_destroy b hh).
Proof.
  intros G0 (A & F). destruct (A G0) as (G & O & T).
  split; [|split; [exact I|split; [reflexivity|]]].
  - eapply tr_trans; [exact T|]. apply b_destroy_tr. exact G.
  - intros Ff. apply F. eapply fires_eq_r; [|exact Ff]. apply b_destroy_fail.
Qed.

Lemma finish_stage b0 h1 b5 h5 bd5 c6 tr0 bd6 b6 h6 :
  gb b0 -> bown b0 = true -> bres b0 h1 0%Z b5 h5 ->
  ab_finish bd5 (sync bd5 b5) h5 = (c6, tr0, bd6, b6, h6) ->
  cres (owns_buf b0) h1 c6 tr0 (b_destroy b6 h6).
Proof.
  intros G0 O0 (A & F) Ef. apply ab_finish_res in Ef. destruct Ef as (Af & Zf & Ff).
  destruct (A G0) as (G5 & O5 & T5). rewrite O0 in O5.
  destruct (Af G5 O5) as (T6 & W & G6 & O6).
  split; [|split; [exact W|split; [exact Zf|]]].
  - eapply tr_trans; [exact T5|]. eapply tr_trans; [exact T6|].
    pose proof (tr_frame_l (owns_buf b6) h6 [] (b_destroy b6 h6) (owns tr0) (b_destroy_tr b6 h6 G6)) as T7.
    rewrite app_nil_r in T7. exact T7.
  - intros Fx. apply fires_eq_r with (h1 := h6) in Fx; [|apply b_destroy_fail].
    destruct (fires_split _ h5 _ Fx) as [F1|F1].
    + apply F in F1. symmetry in F1. destruct (enomem_nz F1).
    + apply Ff. exact F1.
Qed.

Lemma negb_eqb0 c : negb (c =? 0)%Z = false -> c = 0%Z.
Proof. intros H. apply negb_false_iff in H. apply Z.eqb_eq in H. exact H. Qed.

Lemma rth_to_traj_res e start h c o h' : rth_to_traj e start h = (c, o, h') -> cres [] h c o h'.
Proof.
  unfold rth_to_traj. intros E. cbv zeta in E.
  match type of E with (match ?pre with _ => _ end) = _ => destruct pre as [[s4 d0]| | |] eqn:Epre end;
    try (injection E; clear E; intros; subst; apply cres_same_none).
  clear Epre.
  destruct (builder_init s4 0) as [bd0| | |] eqn:Ebi;
    try (injection E; clear E; intros; subst; apply cres_same_none).
  destruct (b_init (Z.to_nat BUILDER_HEADER_LENGTH) h) as [[b0|] h1] eqn:Eb0; apply b_init_res in Eb0.
  2: { injection E; clear E; intros; subst. split; [exact Eb0|]. split; [exact I|]. split; reflexivity. }
  destruct Eb0 as (G0 & O0 & T0 & NF0).
  apply (cres_prefix (owns_buf b0) h h1); [exact T0|exact NF0|].
  destruct (set_start_position bd0 start) as [bd1| | |] eqn:Es;
    try (injection E; clear E; intros; subst; apply cleanup_res; [exact G0|apply bres_refl]).
  destruct (ab_hold (hold_fuel d0) bd1 b0 d0 h1) as [[[c2 bd2] b2] h2] eqn:Eh. apply ab_hold_res in Eh.
  destruct c2; try (injection E; clear E; intros; subst; apply cleanup_res; [exact G0|exact Eh]).
  (* neck *)
  match type of E with (match ?AN with _ => _ end) = _ =>
    destruct AN as [[[[c3 bd3] b3] h3] target] eqn:EAN end.
  assert (S3 : bres b2 h2 c3 b3 h3).
  { destruct (negb (QArith_base.Qeq_bool (re_neck e) {| QArith_base.Qnum := 0; QArith_base.Qden := 1 |})
              || fnonzero (re_neck_duration e)).
    - destruct (msec_of_sec (re_neck_duration e)) as [dn| | |];
        try (injection EAN; intros; subst; apply bres_refl).
      match type of EAN with context [ab_line 40 bd2 b2 ?t dn h2] =>
        destruct (ab_line 40 bd2 b2 t dn h2) as [[[cc bdd] bb] hh] eqn:El end.
      apply ab_line_res in El. injection EAN; intros; subst. exact El.
    - injection EAN; intros; subst; apply bres_refl. }
  clear EAN. pose proof (bres_seq _ _ _ _ _ _ _ Eh S3) as S03. clear Eh S3.
  destruct (negb (c3 =? 0)%Z) eqn:Ec3.
  { injection E; clear E; intros; subst. apply cleanup_res; [exact G0|exact S03]. }
  apply negb_eqb0 in Ec3. subst c3.
  (* action *)
  match type of E with (match ?AA with _ => _ end) = _ =>
    destruct AA as [[[c4 bd4] b4] h4] eqn:EAA end.
  assert (S4 : bres b3 h3 c4 b4 h4).
  { destruct (re_action e =? SB_RTH_ACTION_LAND)%Z; [injection EAA; intros; subst; apply bres_refl|].
    destruct (re_action e =? SB_RTH_ACTION_GO_TO_KEEPING_ALTITUDE)%Z.
    { destruct (msec_of_sec (re_duration e)) as [d| | |];
        try (injection EAA; intros; subst; apply bres_refl).
      apply ab_line_res in EAA. exact EAA. }
    destruct (re_action e =? SB_RTH_ACTION_GO_TO_WITH_ALTITUDE)%Z.
    { destruct (msec_of_sec (re_duration e)) as [d| | |];
        try (injection EAA; intros; subst; apply bres_refl).
      apply ab_line_res in EAA. exact EAA. }
    injection EAA; intros; subst; apply bres_refl. }
  clear EAA. pose proof (bres_seq _ _ _ _ _ _ _ S03 S4) as S04. clear S03 S4.
  destruct (negb (c4 =? 0)%Z) eqn:Ec4.
  { injection E; clear E; intros; subst. apply cleanup_res; [exact G0|exact S04]. }
  apply negb_eqb0 in Ec4. subst c4.
  (* post delay *)
  match type of E with (match ?AP with _ => _ end) = _ =>
    destruct AP as [[[c5 bd5] b5] h5] eqn:EAP end.
  assert (S5 : bres b4 h4 c5 b5 h5).
  { destruct (fgt0 (re_post_delay e)); [|injection EAP; intros; subst; apply bres_refl].
    destruct (msec_of_sec (re_post_delay e)) as [d| | |];
      try (injection EAP; intros; subst; apply bres_refl).
    apply ab_hold_res in EAP. exact EAP. }
  clear EAP. pose proof (bres_seq _ _ _ _ _ _ _ S04 S5) as S05. clear S04 S5.
  destruct (negb (c5 =? 0)%Z) eqn:Ec5.
  { injection E; clear E; intros; subst. apply cleanup_res; [exact G0|exact S05]. }
  apply negb_eqb0 in Ec5. subst c5.
  (* finish *)
  destruct (ab_finish bd5 (sync bd5 b5) h5) as [[[[c6 tr0] bd6] b6] h6] eqn:Ef.
  pose proof (finish_stage _ _ _ _ _ _ _ _ _ _ G0 O0 S05 Ef) as C.
  destruct c6.
  - injection E; clear E; intros; subst. exact C.
  - injection E; clear E; intros; subst.
    destruct C as (C1 & C2 & C3 & C4). rewrite (C3 ltac:(discriminate)) in *.
    split; [exact C1|split; [exact I|split; [reflexivity|exact C4]]].
  - injection E; clear E; intros; subst.
    destruct C as (C1 & C2 & C3 & C4). rewrite (C3 ltac:(discriminate)) in *.
    split; [exact C1|split; [exact I|split; [reflexivity|exact C4]]].
Qed.

(** * Destroy *)

Lemma destroy_obj_tr o h : wf_obj o -> tr (owns o) h [] (destroy_obj o h).
Proof.
  destruct o as [|b|k b|p owner|bd b|pl st]; cbn [wf_obj owns destroy_obj]; intros W.
  - apply tr_refl.
  - apply b_destroy_tr. exact W.
  - apply b_destroy_tr. exact W.
  - destruct owner; [|apply tr_refl]. destruct (W eq_refl) as (id & ->). apply tr_free.
  - apply b_destroy_tr. apply W.
  - destruct W as ((a & ->) & (b & ->)). cbn.
    eapply tr_trans; [apply (tr_cons [b] h [] (h_delete (PLib b) h) a); apply tr_delete|].
    apply tr_delete.
Qed.

Lemma destroy_obj_fail o h : h_fail (destroy_obj o h) = h_fail h.
Proof.
  destruct o as [|b|k b|p owner|bd b|pl st]; cbn [destroy_obj]; try apply b_destroy_fail; try reflexivity.
  - destruct owner; [apply fail_free|reflexivity].
  - rewrite fail_delete. apply fail_delete.
Qed.

Lemma destroy_all_res s : forall h s' h', destroy_all s h = (s', h') -> Forall wf_obj s ->
  tr (flat_map owns s) h [] h' /\ s' = repeat ONone (length s) /\ h_fail h' = h_fail h.
Proof.
  induction s as [|o t IH]; intros h s' h' E W; cbn [destroy_all] in E.
  - injection E; intros; subst. split; [apply tr_refl|]. split; reflexivity.
  - destruct (destroy_all t (destroy_obj o h)) as [t' h1] eqn:Ed. injection E; clear E; intros; subst.
    inversion W as [|x l Wo Wt]; subst.
    destruct (IH _ _ _ Ed Wt) as (T & Hs & Hf). split; [|split].
    + cbn [flat_map]. eapply tr_trans; [|exact T].
      apply (tr_frame (owns o) h [] (destroy_obj o h) (flat_map owns t)). apply destroy_obj_tr. exact Wo.
    + cbn. f_equal. exact Hs.
    + rewrite Hf. apply destroy_obj_fail.
Qed.

(** * Slots *)

Lemma set_length s : forall i o, length (set s i o) = length s.
Proof. induction s as [|x t IH]; intros [|i] o; cbn; auto. Qed.

Lemma set_get_id s : forall i, set s i (get s i) = s.
Proof.
  induction s as [|x t IH]; intros [|i]; cbn; auto. f_equal. apply IH.
Qed.

Lemma get_set_same s : forall i o, i < length s -> get (set s i o) i = o.
Proof.
  induction s as [|x t IH]; intros [|i] o H; cbn in *; try lia; auto. apply IH. lia.
Qed.

Lemma get_set_other s : forall i j o, i <> j -> get (set s i o) j = get s j.
Proof.
  induction s as [|x t IH]; intros [|i] [|j] o H; cbn in *; auto; try congruence.
  apply IH. congruence.
Qed.

Lemma get_range s i : get s i <> ONone -> i < length s.
Proof.
  intros H. destruct (Nat.lt_ge_cases i (length s)) as [Hl|Hl]; [exact Hl|].
  exfalso. apply H. unfold get. apply nth_overflow. exact Hl.
Qed.

Lemma owns_set s : forall i o, i < length s ->
  Permutation (flat_map owns (set s i o)) (owns o ++ flat_map owns (set s i ONone)).
Proof.
  induction s as [|x t IH]; intros [|i] o H; cbn in *; try lia.
  - apply Permutation_refl.
  - specialize (IH i o ltac:(lia)).
    eapply Permutation_trans; [apply Permutation_app_head; exact IH|].
    rewrite !app_assoc. apply Permutation_app_tail. apply Permutation_app_comm.
Qed.

Lemma owns_get s i : i < length s ->
  Permutation (flat_map owns s) (owns (get s i) ++ flat_map owns (set s i ONone)).
Proof. intros H. pose proof (owns_set s i (get s i) H) as P. rewrite set_get_id in P. exact P. Qed.

Lemma Forall_set s : forall i o, Forall wf_obj s -> wf_obj o -> Forall wf_obj (set s i o).
Proof.
  induction s as [|x t IH]; intros [|i] o H W; cbn; auto; inversion H; subst; constructor; auto.
Qed.

Lemma Forall_get s i : Forall wf_obj s -> wf_obj (get s i).
Proof.
  intros H. unfold get. destruct (Nat.lt_ge_cases i (length s)) as [Hl|Hl].
  - rewrite Forall_forall in H. apply H. apply nth_In. exact Hl.
  - rewrite nth_overflow; [exact I|exact Hl].
Qed.

Definition Inv (s : slots) (h : heap) : Prop := Forall wf_obj s /\ hwf (flat_map owns s) h.

Lemma inv_update s h i o' h' :
  Inv s h -> i < length s -> wf_obj o' -> tr (owns (get s i)) h (owns o') h' -> Inv (set s i o') h'.
Proof.
  intros (W & H) Hi Wo T. split; [apply Forall_set; assumption|].
  eapply hwf_perm; [apply Permutation_sym, owns_set; exact Hi|].
  apply T. eapply hwf_perm; [apply owns_set; exact Hi|]. rewrite set_get_id. exact H.
Qed.

Lemma inv_heap s h h' : Inv s h -> tr [] h [] h' -> Inv s h'.
Proof.
  intros (W & H) T. split; [exact W|]. apply (T (flat_map owns s)). exact H.
Qed.

Lemma free_slot_spec s i : free_slot s i = true -> i < length s /\ get s i = ONone.
Proof.
  unfold free_slot, in_range. intros H. apply andb_true_iff in H. destruct H as (H1 & H2).
  apply Nat.ltb_lt in H1. split; [exact H1|]. destruct (get s i); try discriminate. reflexivity.
Qed.

Lemma inv_fill s h i o' h' :
  Inv s h -> free_slot s i = true -> wf_obj o' -> tr [] h (owns o') h' -> Inv (set s i o') h'.
Proof.
  intros HI Hf W T. destruct (free_slot_spec _ _ Hf) as (Hi & Hg).
  apply (inv_update s h i o' h' HI Hi W). rewrite Hg. exact T.
Qed.

Lemma set_free_none s i : free_slot s i = true -> set s i ONone = s.
Proof.
  intros Hf. destruct (free_slot_spec _ _ Hf) as (Hi & Hg). rewrite <- Hg. apply set_get_id.
Qed.

Lemma fires_same h h' : h_fail h' = h_fail h -> ~ fires h h'.
Proof. intros E (k & H1 & H2). congruence. Qed.

Lemma flat_owns_none n : flat_map owns (repeat ONone n) = [].
Proof. induction n; cbn; auto. Qed.

Lemma Forall_wf_none n : Forall wf_obj (repeat ONone n).
Proof. induction n; cbn; constructor; auto. exact I. Qed.

Lemma inv_init n fail : Inv (repeat ONone n) (heap0 fail).
Proof.
  split; [apply Forall_wf_none|]. rewrite flat_owns_none.
  split; [apply Permutation_refl|]. split; [constructor|]. split; [intros id []|intros p []].
Qed.

(** * One call *)

Definition is_create (c : op) : bool :=
  match c with
  | OpBufInit _ _ | OpBufFromBytes _ _ | OpEmpty _ _ | OpFromBuffer _ _ _ _ | OpTrajFromBytes _ _
  | OpFromFile _ _ _ _ _ | OpBuilderInit _ _ | OpRthToTraj _ _ _ | OpPlayerInit _ _ | OpPolySolve _ => true
  | _ => false
  end.

Definition sspec (s : slots) (h : heap) (r : outcome) (s' : slots) (h' : heap) : Prop :=
  Inv s' h' /\ (fires h h' -> r = Rc SB_ENOMEM) /\ (forall e, r = Rc e -> e <> 0%Z -> s' = s).

(** the weaker form for calls that are not creations *)
Definition uspec (s : slots) (h : heap) (r : outcome) (s' : slots) (h' : heap) : Prop :=
  Inv s' h' /\ (fires h h' -> r = Rc SB_ENOMEM).

Lemma sspec_uspec s h r s' h' : sspec s h r s' h' -> uspec s h r s' h'.
Proof. intros (A & B & C). split; assumption. Qed.

Lemma sspec_skip s h : Inv s h -> sspec s h Skipped s h.
Proof.
  intros HI. split; [exact HI|]. split.
  - intros F. destruct (fires_irrefl _ F).
  - intros e H. discriminate.
Qed.

Lemma sspec_same s h r : Inv s h -> sspec s h r s h.
Proof.
  intros HI. split; [exact HI|]. split.
  - intros F. destruct (fires_irrefl _ F).
  - reflexivity.
Qed.

Lemma create_spec s h i e ob h' : Inv s h -> free_slot s i = true -> cres [] h e ob h' ->
  sspec s h (Rc e) (set s i ob) h'.
Proof.
  intros HI Hf (T & W & Z & F). split; [apply (inv_fill s h i ob h' HI Hf W T)|]. split.
  - intros Ff. rewrite (F Ff). reflexivity.
  - intros e0 He Hne. injection He; intros; subst e0. rewrite (Z Hne). apply set_free_none. exact Hf.
Qed.

Lemma init_spec s h i n (mk : bufst -> obj) r s' h' :
  (forall b, owns (mk b) = owns_buf b) -> (forall b, gb b -> bown b = true -> wf_obj (mk b)) ->
  Inv s h -> free_slot s i = true ->
  match b_init n h with
  | (Some b, h') => (Rc SB_OK, set s i (mk b), h')
  | (None, h') => (Rc ZENOMEM, s, h')
  end = (r, s', h') ->
  sspec s h r s' h'.
Proof.
  intros Ho Hw HI Hf E. destruct (b_init n h) as [[b|] h1] eqn:Eb; apply b_init_res in Eb;
    injection E; clear E; intros; subst.
  - destruct Eb as (G & O & T & NF).
    apply create_spec; [exact HI|exact Hf|]. split; [rewrite Ho; exact T|]. split; [apply Hw; assumption|].
    split; [intros H; exfalso; apply H; reflexivity|intros F; contradiction].
  - split; [apply (inv_heap _ _ _ HI Eb)|]. split; reflexivity.
Qed.

Lemma with_buf_spec s o h f r s' h' :
  (forall b h e b' h', f b h = (e, b', h') -> bres b h e b' h') ->
  Inv s h -> with_buf s o h f = (r, s', h') -> uspec s h r s' h'.
Proof.
  intros Hf HI E. unfold with_buf in E.
  destruct (get s o) as [|b|k b|p owner|bd b|pl st] eqn:Eg;
    try (injection E; clear E; intros; subst; apply sspec_uspec, sspec_skip; exact HI).
  destruct (f b h) as [[c b'] h1] eqn:Ef. injection E; clear E; intros; subst.
  apply Hf in Ef. destruct Ef as (A & F).
  assert (Hi : o < length s) by (apply get_range; rewrite Eg; discriminate).
  pose proof (Forall_get s o (proj1 HI)) as W. rewrite Eg in W. cbn in W.
  destruct (A W) as (G' & O' & T). split.
  - apply (inv_update s h o (OBuf b') h' HI Hi G'). rewrite Eg. exact T.
  - intros Ff. rewrite (F Ff). reflexivity.
Qed.

Lemma data_update_spec s h o (mk : bufst -> obj) b e b' h' :
  (forall b, owns (mk b) = owns_buf b) -> (forall b, wf_obj (mk b) = gb b) ->
  Inv s h -> get s o = mk b -> mk b <> ONone -> bres b h e b' h' ->
  Inv (set s o (mk b')) h' /\ (fires h h' -> e = SB_ENOMEM).
Proof.
  intros Ho Hw HI Eg Hn (A & F).
  assert (Hi : o < length s) by (apply get_range; rewrite Eg; exact Hn).
  pose proof (Forall_get s o (proj1 HI)) as W. rewrite Eg, Hw in W.
  destruct (A W) as (G' & O' & T). split; [|exact F].
  apply (inv_update s h o (mk b') h' HI Hi); [rewrite Hw; exact G'|]. rewrite Eg, !Ho. exact T.
Qed.

Lemma builder_update_spec s h o bd b e bd' b' h' :
  Inv s h -> get s o = OBuilder bd b -> bres b h e b' h' ->
  uspec s h (Rc e) (set s o (OBuilder bd' b')) h'.
Proof.
  intros HI Eg (A & F).
  assert (Hi : o < length s) by (apply get_range; rewrite Eg; discriminate).
  pose proof (Forall_get s o (proj1 HI)) as W. rewrite Eg in W. cbn in W. destruct W as (G & O).
  destruct (A G) as (G' & O' & T). split.
  - apply (inv_update s h o (OBuilder bd' b') h' HI Hi); [split; [exact G'|congruence]|]. rewrite Eg. exact T.
  - intros Ff. rewrite (F Ff). reflexivity.
Qed.

Lemma destroy_spec s h o : Inv s h -> o < length s -> Inv (set s o ONone) (destroy_obj (get s o) h).
Proof.
  intros HI Hi. apply (inv_update s h o ONone _ HI Hi I). apply destroy_obj_tr. apply Forall_get. apply HI.
Qed.

Definition fspec (c : op) (s : slots) (h : heap) (r : outcome) (s' : slots) (h' : heap) : Prop :=
  uspec s h r s' h' /\ (is_create c = true -> forall e, r = Rc e -> e <> 0%Z -> s' = s).

Lemma fspec_s c s h r s' h' : sspec s h r s' h' -> fspec c s h r s' h'.
Proof. intros (A & B & C). split; [split; assumption|]. intros _. exact C. Qed.

Lemma fspec_u c s h r s' h' : is_create c = false -> uspec s h r s' h' -> fspec c s h r s' h'.
Proof. intros Hc U. split; [exact U|]. intros H. congruence. Qed.

Lemma step_spec s h c r s' h' : Inv s h -> step s h c = (r, s', h') -> fspec c s h r s' h'.
Proof.
  intros HI E. destruct c; cbn [step] in E.
  - (* OpBufInit *)
    apply fspec_s. destruct (free_slot s o) eqn:Hf.
    + apply (init_spec s h o n OBuf); auto.
    + injection E; clear E; intros; subst. apply sspec_skip; exact HI.
  - (* OpBufView *)
    apply fspec_u; [reflexivity|]. destruct (free_slot s o) eqn:Hf; injection E; clear E; intros; subst.
    + split; [|intros F; destruct (fires_irrefl _ F)].
      apply (inv_fill s h' o _ h' HI Hf); [apply gb_view|apply tr_refl].
    + apply sspec_uspec, sspec_skip; exact HI.
  - (* OpBufFromBytes *)
    apply fspec_s. destruct (free_slot s o) eqn:Hf.
    2: { injection E; clear E; intros; subst. apply sspec_skip; exact HI. }
    destruct (h_caller_alloc n h) as [p h1] eqn:Ec.
    destruct (tr_caller_alloc _ _ _ _ Ec) as (id & -> & T & Hfl).
    destruct (n =? 0); injection E; clear E; intros; subst.
    + split; [|split; [|reflexivity]].
      * apply (inv_heap _ _ _ HI). eapply tr_trans; [exact T|apply tr_free].
      * intros F. exfalso. revert F. apply fires_same. exact (eq_trans (fail_free (PLib id) h1) Hfl).
    + split; [|split].
      * apply (inv_fill _ _ _ _ _ HI Hf); [apply gb_adopt|exact T].
      * intros F. exfalso. revert F. apply fires_same. exact Hfl.
      * intros e He Hne. injection He; intros; subst. exfalso. apply Hne. reflexivity.
  - (* OpBufResize *)
    apply fspec_u; [reflexivity|]. eapply with_buf_spec; [|exact HI|exact E].
    intros b h0 e b' h0'. apply b_resize_res.
  - (* OpBufAppend *)
    apply fspec_u; [reflexivity|]. eapply with_buf_spec; [|exact HI|exact E].
    intros b h0 e b' h0'. apply b_append_res.
  - (* OpBufExtend *)
    apply fspec_u; [reflexivity|]. eapply with_buf_spec; [|exact HI|exact E].
    intros b h0 e b' h0'. apply b_extend_res.
  - (* OpBufClear *)
    apply fspec_u; [reflexivity|]. eapply with_buf_spec; [|exact HI|exact E].
    intros b h0 e b' h0'. apply b_clear_res.
  - (* OpBufPrune *)
    apply fspec_u; [reflexivity|]. eapply with_buf_spec; [|exact HI|exact E].
    intros b h0 e b' h0'. apply b_prune_res.
  - (* OpEmpty *)
    apply fspec_s. destruct (free_slot s o) eqn:Hf.
    2: { injection E; clear E; intros; subst. apply sspec_skip; exact HI. }
    destruct k; try (apply (init_spec s h o 0 (OData _)) in E; auto; fail).
    injection E; clear E; intros; subst. split; [|split].
    + apply (inv_fill _ _ _ _ _ HI Hf); [cbn; discriminate|apply tr_refl].
    + intros F; destruct (fires_irrefl _ F).
    + intros e He Hne. injection He; intros; subst. exfalso. apply Hne. reflexivity.
  - (* OpFromBuffer *)
    apply fspec_s. destruct (free_slot s o) eqn:Hf.
    2: { injection E; clear E; intros; subst. apply sspec_skip; exact HI. }
    destruct (from_buffer k c len h) as [[e ob] h1] eqn:Eb. injection E; clear E; intros; subst.
    apply create_spec; [exact HI|exact Hf|]. eapply from_buffer_res; eauto.
  - (* OpTrajFromBytes *)
    apply fspec_s. destruct (free_slot s o) eqn:Hf.
    2: { injection E; clear E; intros; subst. apply sspec_skip; exact HI. }
    destruct (h_caller_alloc len h) as [p h1] eqn:Ec.
    destruct (tr_caller_alloc _ _ _ _ Ec) as (id & -> & T & Hfl).
    destruct (len <? 9); injection E; clear E; intros; subst.
    + split; [|split; [|reflexivity]].
      * apply (inv_heap _ _ _ HI). eapply tr_trans; [exact T|apply tr_free].
      * intros F. exfalso. revert F. apply fires_same. exact (eq_trans (fail_free (PLib id) h1) Hfl).
    + split; [|split].
      * apply (inv_fill _ _ _ _ _ HI Hf); [apply gb_adopt|exact T].
      * intros F. exfalso. revert F. apply fires_same. exact Hfl.
      * intros e He Hne. injection He; intros; subst. exfalso. apply Hne. reflexivity.
  - (* OpFromFile *)
    apply fspec_s. destruct (free_slot s o) eqn:Hf.
    2: { injection E; clear E; intros; subst. apply sspec_skip; exact HI. }
    destruct (from_file k r0 c bytes h) as [[e ob] h1] eqn:Eb. injection E; clear E; intros; subst.
    apply create_spec; [exact HI|exact Hf|]. eapply from_file_res; eauto.
  - (* OpClear *)
    apply fspec_u; [reflexivity|].
    destruct (get s o) as [|b|k b|p owner|bd b|pl st] eqn:Eg;
      try (injection E; clear E; intros; subst; apply sspec_uspec, sspec_skip; exact HI).
    destruct k; try (injection E; clear E; intros; subst; apply sspec_uspec, sspec_skip; exact HI).
    + destruct (bown b) eqn:Eo.
      * destruct (b_clear b h) as [[e b'] h1] eqn:Ec. injection E; clear E; intros; subst.
        pose proof (b_clear_heap _ _ _ _ _ Ec) as ->. apply b_clear_res in Ec.
        destruct (data_update_spec s h o (OData KTraj) b e b' h (fun _ => eq_refl) (fun _ => eq_refl) HI Eg
                    ltac:(discriminate) Ec) as (A & F).
        split; [exact A|]. intros Ff. destruct (fires_irrefl _ Ff).
      * injection E; clear E; intros; subst. apply sspec_uspec, sspec_same. exact HI.
    + destruct (bown b) eqn:Eo.
      * destruct (b_clear b h) as [[e b'] h1] eqn:Ec. injection E; clear E; intros; subst.
        pose proof (b_clear_heap _ _ _ _ _ Ec) as ->. apply b_clear_res in Ec.
        destruct (data_update_spec s h o (OData KLight) b e b' h (fun _ => eq_refl) (fun _ => eq_refl) HI Eg
                    ltac:(discriminate) Ec) as (A & F).
        split; [exact A|]. intros Ff. destruct (fires_irrefl _ Ff).
      * injection E; clear E; intros; subst. split; [|intros Ff; destruct (fires_irrefl _ Ff)].
        assert (Hi : o < length s) by (apply get_range; rewrite Eg; discriminate).
        apply (inv_update _ _ _ _ _ HI Hi); [cbn; discriminate|].
        rewrite Eg. cbn. unfold owns_buf. rewrite Eo. cbn. apply tr_refl.
  - (* OpDestroy *)
    apply fspec_u; [reflexivity|]. destruct (in_range s o) eqn:Hr.
    2: { injection E; clear E; intros; subst. apply sspec_uspec, sspec_skip; exact HI. }
    apply Nat.ltb_lt in Hr. pose proof (destroy_spec s h o HI Hr) as HD.
    pose proof (destroy_obj_fail (get s o) h) as HF.
    destruct (get s o) as [|b|k b|p owner|bd b|pl st] eqn:Eg;
      injection E; clear E; intros; subst;
      try (split; [exact HD|intros F; exfalso; revert F; apply fires_same; exact HF]).
    apply sspec_uspec, sspec_skip; exact HI.
  - (* OpBuilderInit *)
    apply fspec_s. destruct (free_slot s o) eqn:Hf.
    2: { injection E; clear E; intros; subst. apply sspec_skip; exact HI. }
    destruct (builder_init scale 0) as [bd| | |] eqn:Eb;
      try (injection E; clear E; intros; subst; apply sspec_same; exact HI).
    apply (init_spec s h o _ (OBuilder bd)) in E; auto. intros b G O. split; assumption.
  - (* OpBuilderStart *)
    apply fspec_u; [reflexivity|].
    destruct (get s o) as [|b|k b|p0 owner|bd b|pl st] eqn:Eg;
      try (injection E; clear E; intros; subst; apply sspec_uspec, sspec_skip; exact HI).
    destruct (set_start_position bd p) as [bd'| | |];
      try (injection E; clear E; intros; subst; apply sspec_uspec, sspec_same; exact HI).
    injection E; clear E; intros; subst.
    apply (builder_update_spec _ _ _ _ _ _ _ _ _ HI Eg). apply bres_refl.
  - (* OpBuilderLine *)
    apply fspec_u; [reflexivity|].
    destruct (get s o) as [|b|k b|p0 owner|bd b|pl st] eqn:Eg;
      try (injection E; clear E; intros; subst; apply sspec_uspec, sspec_skip; exact HI).
    destruct (ab_line 40 bd b p dur h) as [[[e bd'] b'] h1] eqn:El. injection E; clear E; intros; subst.
    apply (builder_update_spec _ _ _ _ _ _ _ _ _ HI Eg). eapply ab_line_res; eauto.
  - (* OpBuilderHold *)
    apply fspec_u; [reflexivity|].
    destruct (get s o) as [|b|k b|p0 owner|bd b|pl st] eqn:Eg;
      try (injection E; clear E; intros; subst; apply sspec_uspec, sspec_skip; exact HI).
    destruct (ab_hold (hold_fuel dur) bd b dur h) as [[[e bd'] b'] h1] eqn:El. injection E; clear E; intros; subst.
    apply (builder_update_spec _ _ _ _ _ _ _ _ _ HI Eg). eapply ab_hold_res; eauto.
  - (* OpBuilderFinish *)
    apply fspec_u; [reflexivity|].
    destruct (get s o) as [|b|k b|p0 owner|bd b|pl st] eqn:Eg;
      try (injection E; clear E; intros; subst; apply sspec_uspec, sspec_skip; exact HI).
    destruct (free_slot s t) eqn:Hf.
    2: { injection E; clear E; intros; subst. apply sspec_uspec, sspec_skip; exact HI. }
    destruct (ab_finish bd (sync bd b) h) as [[[[e tr0] bd'] b'] h1] eqn:Ef. injection E; clear E; intros; subst.
    apply ab_finish_res in Ef. destruct Ef as (A & Z & F).
    assert (Hi : o < length s) by (apply get_range; rewrite Eg; discriminate).
    pose proof (Forall_get s o (proj1 HI)) as W. rewrite Eg in W. cbn in W. destruct W as (G & O).
    destruct (A G O) as (T & Wt & G' & O').
    destruct (free_slot_spec _ _ Hf) as (Ht & Hgt).
    assert (Hne : o <> t) by (intros ->; rewrite Eg in Hgt; discriminate).
    split; [|intros Ff; rewrite (F Ff); reflexivity].
    destruct HI as (WS & HH). split; [apply Forall_set; [apply Forall_set; [exact WS|split; assumption]|exact Wt]|].
    eapply hwf_perm.
    { apply Permutation_sym. apply owns_set. rewrite set_length. exact Ht. }
    assert (Es : set (set s o (OBuilder bd' b')) t ONone = set s o (OBuilder bd' b')).
    { rewrite <- (set_get_id (set s o (OBuilder bd' b')) t) at 2.
      rewrite get_set_other; [|exact Hne]. rewrite Hgt. reflexivity. }
    rewrite Es.
    eapply hwf_perm.
    { apply Permutation_app_head. apply Permutation_sym. apply owns_set. exact Hi. }
    rewrite app_assoc. apply T.
    eapply hwf_perm; [|exact HH].
    pose proof (owns_get s o Hi) as P. rewrite Eg in P. exact P.
  - (* OpRthToTraj *)
    apply fspec_s. destruct (free_slot s t) eqn:Hf.
    2: { injection E; clear E; intros; subst. apply sspec_skip; exact HI. }
    destruct (rth_to_traj e start h) as [[c ob] h1] eqn:Eb. injection E; clear E; intros; subst.
    apply create_spec; [exact HI|exact Hf|]. eapply rth_to_traj_res; eauto.
  - (* OpPlayerInit *)
    apply fspec_s.
    destruct (get s o) as [|b|k b|p0 owner|bd b|pl st] eqn:Eg;
      try (injection E; clear E; intros; subst; apply sspec_skip; exact HI).
    destruct k; try (injection E; clear E; intros; subst; apply sspec_skip; exact HI).
    destruct (free_slot s p) eqn:Hf.
    2: { injection E; clear E; intros; subst. apply sspec_skip; exact HI. }
    destruct (h_new h) as [pl h1] eqn:E1. destruct (h_new h1) as [st h2] eqn:E2.
    injection E; clear E; intros; subst.
    destruct (tr_new _ _ _ E1) as (a & -> & T1 & F1). destruct (tr_new _ _ _ E2) as (a2 & -> & T2 & F2).
    split; [|split].
    + apply (inv_fill _ _ _ _ _ HI Hf); [split; eexists; reflexivity|].
      cbn. eapply tr_trans; [exact T1|]. apply (tr_cons [] h1 [a2] h' a). exact T2.
    + intros F. exfalso. revert F. apply fires_same. congruence.
    + intros e He Hne. injection He; intros; subst. exfalso. apply Hne. reflexivity.
  - (* OpPolySolve *)
    apply fspec_s. destruct (nsig =? 0).
    { injection E; clear E; intros; subst. apply sspec_same; exact HI. }
    destruct (h_alloc (4 * nsig) h) as [[|id|cc] h1] eqn:Ea.
    + injection E; clear E; intros; subst.
      destruct (cres_alloc_fail _ _ _ Ea) as (T & _). split; [|split; reflexivity].
      apply (inv_heap _ _ _ HI T).
    + injection E; clear E; intros; subst.
      destruct (tr_alloc _ _ _ _ Ea) as [(Hp & _)|(id' & Hp & T)]; [discriminate|]. injection Hp; intros; subst id'.
      split; [|split; [|reflexivity]].
      * apply (inv_heap _ _ _ HI). eapply tr_trans; [exact T|apply tr_free].
      * intros F. apply fires_eq_r with (h1 := h1) in F; [|apply (fail_free (PLib id) h1)].
        apply (fires_alloc _ _ _ _ Ea) in F. discriminate.
    + destruct (alloc_not_caller _ _ _ _ Ea).
  - (* OpDestroyAll *)
    apply fspec_u; [reflexivity|].
    destruct (destroy_all s h) as [s1 h1] eqn:Ed. injection E; clear E; intros; subst.
    destruct (destroy_all_res _ _ _ _ Ed (proj1 HI)) as (T & -> & Hfl).
    split; [|intros F; exfalso; revert F; apply fires_same; exact Hfl].
    split; [apply Forall_wf_none|]. rewrite flat_owns_none.
    pose proof (T [] ) as T'. rewrite app_nil_r in T'. apply T'. apply HI.
Qed.

(** * Runs and scenarios *)

Lemma run_inv ops : forall s h rs s' h', Inv s h -> run s h ops = (rs, s', h') -> Inv s' h'.
Proof.
  induction ops as [|c rest IH]; intros s h rs s' h' HI E; cbn [run] in E.
  - injection E; intros; subst. exact HI.
  - destruct (step s h c) as [[r s1] h1] eqn:Es. destruct (run s1 h1 rest) as [[rs2 s2] h2] eqn:Er.
    injection E; clear E; intros; subst.
    apply (IH _ _ _ _ _ (proj1 (proj1 (step_spec _ _ _ _ _ _ HI Es))) Er).
Qed.

Lemma run_app ops1 : forall ops2 s h,
  run s h (ops1 ++ ops2) =
  let '(r1, s1, h1) := run s h ops1 in
  let '(r2, s2, h2) := run s1 h1 ops2 in (r1 ++ r2, s2, h2).
Proof.
  induction ops1 as [|c rest IH]; intros ops2 s h; cbn [run app].
  - destruct (run s h ops2) as [[r2 s2] h2]. reflexivity.
  - destruct (step s h c) as [[r s1] h1]. rewrite IH.
    destruct (run s1 h1 rest) as [[r1 s1'] h1']. destruct (run s1' h1' ops2) as [[r2 s2] h2]. reflexivity.
Qed.

Definition reachable (s : slots) (h : heap) : Prop :=
  exists n fail ops, snd (fst (run (repeat ONone n) (heap0 fail) ops)) = s /\ snd (run (repeat ONone n) (heap0 fail) ops) = h.

Lemma reachable_inv s h : reachable s h -> Inv s h.
Proof.
  intros (n & fail & ops & Hs & Hh).
  destruct (run (repeat ONone n) (heap0 fail) ops) as [[rs s1] h1] eqn:Er. cbn in Hs, Hh. subst.
  eapply run_inv; [apply inv_init|exact Er].
Qed.

Lemma scenario_inv n fail ops : Inv (snd (fst (scenario n fail ops))) (snd (scenario n fail ops)).
Proof.
  unfold scenario. destruct (run (repeat ONone n) (heap0 fail) (ops ++ [OpDestroyAll])) as [[rs s1] h1] eqn:Er.
  cbn. eapply run_inv; [apply inv_init|exact Er].
Qed.

Theorem scenario_no_bad : forall n fail ops, forall p, ~ In (EvBad p) (h_trace (snd (scenario n fail ops))).
Proof.
  intros n fail ops. destruct (scenario_inv n fail ops) as (_ & _ & _ & _ & NB). exact NB.
Qed.

Theorem scenario_no_leak : forall n fail ops, h_live (snd (scenario n fail ops)) = [].
Proof.
  intros n fail ops. unfold scenario. rewrite run_app.
  destruct (run (repeat ONone n) (heap0 fail) ops) as [[r1 s1] h1] eqn:Er.
  pose proof (run_inv _ _ _ _ _ _ (inv_init n fail) Er) as HI.
  cbn [run step]. destruct (destroy_all s1 h1) as [s2 h2] eqn:Ed. cbn [snd].
  destruct (destroy_all_res _ _ _ _ Ed (proj1 HI)) as (T & _ & _).
  pose proof (T []) as T'. rewrite app_nil_r in T'. destruct (T' (proj2 HI)) as (P & _).
  cbn in P. apply Permutation_nil in P. exact P.
Qed.

Theorem failed_create_leaves_nothing : forall s h c e s' h',
  reachable s h -> is_create c = true -> step s h c = (Rc e, s', h') -> e <> 0%Z ->
  s' = s /\ Permutation (h_live h') (h_live h).
Proof.
  intros s h c e s' h' HR Hc Es Hne. apply reachable_inv in HR.
  destruct (step_spec _ _ _ _ _ _ HR Es) as ((HI' & _) & Hs).
  specialize (Hs Hc e eq_refl Hne). subst s'. split; [reflexivity|].
  destruct HR as (_ & P & _). destruct HI' as (_ & P' & _).
  eapply Permutation_trans; [apply Permutation_sym; exact P'|exact P].
Qed.

Theorem allocation_failure_reports_enomem : forall s h c r s' h' k,
  reachable s h -> h_fail h = Some k -> step s h c = (r, s', h') -> h_fail h' = None ->
  r = Rc SB_ENOMEM.
Proof.
  intros s h c r s' h' k HR Hk Es Hn. apply reachable_inv in HR.
  destruct (step_spec _ _ _ _ _ _ HR Es) as ((_ & F) & _).
  apply F. exists k. split; assumption.
Qed.

Example scenario_example :
  let ops := [OpBuilderInit 0 1; OpBuilderHold 0 130000; OpBuilderFinish 0 1; OpEmpty KLight 2; OpPlayerInit 3 2] in
  let '(rcs, _, h) := scenario 4 (Some 2) ops in
  rcs = [Rc 0%Z; Rc SB_ENOMEM; Rc 0%Z; Rc 0%Z; Rc 0%Z; Rc 0%Z] /\ h_live h = [] /\
  trace_of h = [EvAlloc 0 9; EvRealloc 0 1 36; EvReallocFail 1 72; EvAlloc 2 9; EvAlloc 3 1; EvNew 4; EvNew 5;
                EvFree 2; EvFree 1; EvFree 3; EvDelete 5; EvDelete 4].
Proof. vm_compute. repeat split; reflexivity. Qed.

Print Assumptions scenario_no_bad.
Print Assumptions scenario_no_leak.
Print Assumptions failed_create_leaves_nothing.
Print Assumptions allocation_failure_reports_enomem.
Print Assumptions view_never_grows.
Print Assumptions scenario_example.
