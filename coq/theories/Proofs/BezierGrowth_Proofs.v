(** Growth of the power-basis coefficients of a unit-duration Bezier
    polynomial: sum_j |c_j| <= 3^n max|P|, and the resulting binary32
    evaluation error bound (with [horner_f32_error_deg7]).

    The bound on the coefficients is proved generically (no case split on the
    number of points): the absolute value of [bez_coeff QOps xs n j] is bounded
    by [bcoef n j * M], where [bcoef] is computed by the same double loop on
    the absolute values of the factorial table; only the closed identity
    sum_j bcoef n j = 3^n (n <= 7) is checked by computation. *)
From Coq Require Import ZArith QArith Qabs List Lia Lqa.
From SB Require Import Base.Num Base.F32 Gen.Generated Model.Poly Proofs.F32Poly_Proofs.
Import ListNotations.
Local Open Scope Q_scope.

Definition pow3q (n : nat) : Q := inject_Z (Z.pow 3 (Z.of_nat n)).

(** * absolute values through the [Qred]-normalising operations *)

Lemma Qabs_Qred x : Qabs (Qred x) == Qabs x.
Proof. apply Qabs_wd, Qred_correct. Qed.

Lemma Qabs_mulQ a b : Qabs (mul QOps a b) == Qabs a * Qabs b.
Proof. change (mul QOps a b) with (Qred (a * b)). rewrite Qabs_Qred. apply Qabs_Qmult. Qed.

Lemma Qabs_divQ a b : Qabs (div QOps a b) == Qabs a / Qabs b.
Proof.
  change (div QOps a b) with (Qred (a / b)). rewrite Qabs_Qred.
  unfold Qdiv. rewrite Qabs_Qmult, Qabs_Qinv. reflexivity.
Qed.

Lemma Qabs_addQ a b : Qabs (add QOps a b) <= Qabs a + Qabs b.
Proof. change (add QOps a b) with (Qred (a + b)). rewrite Qabs_Qred. apply Qabs_triangle. Qed.

Lemma Qabs_subQ a b : Qabs (sub QOps a b) <= Qabs a + Qabs b.
Proof.
  change (sub QOps a b) with (Qred (a - b)). rewrite Qabs_Qred.
  unfold Qminus. eapply Qle_trans; [apply Qabs_triangle|]. rewrite Qabs_opp. apply Qle_refl.
Qed.

Lemma Qabs_sgnQ k : Qabs (sgn QOps k) == 1.
Proof. unfold sgn. destruct (Nat.even k); reflexivity. Qed.

(** dividing a bound [|x| <= a * M] by a constant *)
Lemma bound_div x a f M : Qabs x <= a * M -> Qabs (div QOps x f) <= (a / Qabs f) * M.
Proof.
  intro H. rewrite Qabs_divQ. unfold Qdiv.
  assert (Hi : 0 <= / Qabs f) by (apply Qinv_le_0_compat, Qabs_nonneg).
  assert (E : a * / Qabs f * M == (a * M) * / Qabs f) by ring.
  rewrite E. apply Qmult_le_compat_r; assumption.
Qed.

Lemma bound_mul_r x a f M : Qabs x <= a * M -> Qabs (mul QOps x f) <= (a * Qabs f) * M.
Proof.
  intro H. rewrite Qabs_mulQ.
  assert (E : a * Qabs f * M == (a * M) * Qabs f) by ring.
  rewrite E. apply Qmult_le_compat_r; [assumption | apply Qabs_nonneg].
Qed.

(** * the coefficient bound, computed by the same double loop *)

Fixpoint qsumto (f : nat -> Q) (n : nat) : Q :=
  match n with
  | O => f O
  | S m => qsumto f m + f n
  end.

Definition bterm (j i : nat) : Q := 1 / Qabs (fac QOps i) / Qabs (fac QOps (j - i)).

Definition bcoef (n j : nat) : Q :=
  qsumto (bterm j) j * Qabs (fac QOps n) / Qabs (fac QOps (n - j)).

Lemma sumto_bound (f : nat -> Q) (g : nat -> Q) M n :
  (forall i, Qabs (f i) <= g i * M) -> Qabs (sumto QOps f n) <= qsumto g n * M.
Proof.
  intro H. induction n as [|n IH].
  - apply H.
  - change (sumto QOps f (S n)) with (add QOps (sumto QOps f n) (f (S n))).
    eapply Qle_trans; [apply Qabs_addQ|].
    simpl qsumto. pose proof (H (S n)) as HS. lra.
Qed.

Lemma bez_coeff_bound xs n j M :
  (forall i, Qabs (nth i xs 0) <= M) ->
  Qabs (bez_coeff QOps xs n j) <= bcoef n j * M.
Proof.
  intro Hx. unfold bez_coeff, bcoef.
  apply bound_div. apply bound_mul_r.
  apply sumto_bound. intro i. unfold bterm.
  apply bound_div. apply bound_div.
  rewrite Qabs_mulQ, Qabs_sgnQ.
  change (Num.zero QOps) with 0.
  pose proof (Hx i) as Hi. lra.
Qed.

(** * stretching by 1 does nothing (up to [==]) *)

Lemma stretch_from_one cs : forall f s, f == 1 -> s == 1 ->
  Forall2 Qeq (stretch_from QOps cs f s) cs.
Proof.
  induction cs as [|c r IH]; intros f s Hf Hs.
  - constructor.
  - change (stretch_from QOps (c :: r) f s)
      with (Qred (c * s) :: stretch_from QOps r f (Qred (s * f))).
    constructor.
    + rewrite Qred_correct, Hs. ring.
    + apply IH; [exact Hf|]. rewrite Qred_correct, Hs, Hf. reflexivity.
Qed.

Lemma stretch_one cs : Forall2 Qeq (stretch QOps cs 1) cs.
Proof.
  destruct cs as [|c r].
  - constructor.
  - change (stretch QOps (c :: r) 1)
      with (c :: stretch_from QOps r (Qred (1 / 1)) (Qred (1 / 1))).
    constructor; [reflexivity|].
    apply stretch_from_one; reflexivity.
Qed.

Lemma Forall2_len {A B} (P : A -> B -> Prop) l l' : Forall2 P l l' -> length l = length l'.
Proof. induction 1; simpl; congruence. Qed.

(** * [abs_eval] and coefficient-wise bounds *)

Lemma abs_eval_Forall2 cs cs' u : Forall2 Qeq cs cs' -> abs_eval cs u == abs_eval cs' u.
Proof.
  induction 1 as [|c c' r r' Hc Hr IH].
  - reflexivity.
  - rewrite !abs_eval_cons, IH, (Qabs_wd _ _ Hc). reflexivity.
Qed.

Fixpoint qsum (ks : list Q) : Q :=
  match ks with
  | [] => 0
  | k :: r => k + qsum r
  end.

Lemma abs_eval_le_sum cs ks u M : 0 <= u -> u <= 1 ->
  Forall2 (fun c k => Qabs c <= k * M) cs ks ->
  abs_eval cs u <= qsum ks * M.
Proof.
  intros Hu0 Hu1. induction 1 as [|c k r ks' Hc Hr IH].
  - unfold abs_eval. simpl. lra.
  - rewrite abs_eval_cons. simpl qsum.
    rewrite (Qabs_pos u Hu0).
    pose proof (abs_eval_nonneg r u) as HA.
    assert (HuA : u * abs_eval r u <= abs_eval r u).
    { assert (H1 : 0 <= (1 - u) * abs_eval r u)
        by (apply Qmult_le_0_compat; [lra | exact HA]).
      lra. }
    lra.
Qed.

Lemma Forall2_map_same {A B C} (P : B -> C -> Prop) (f : A -> B) (g : A -> C) l :
  (forall x, P (f x) (g x)) -> Forall2 P (map f l) (map g l).
Proof. intro H. induction l; simpl; constructor; auto. Qed.

(** * the closed identity  sum_j bcoef n j = 3^n  for n <= 7 *)

Definition bsum (n : nat) : Q := qsum (map (bcoef n) (seq 0 (S n))).

Definition bsum_chk (n : nat) : bool := Qeq_bool (bsum n) (pow3q n).

Lemma bsum_chk_all : forallb bsum_chk (seq 0 8) = true.
Proof. vm_compute. reflexivity. Qed.

Lemma bsum_pow3 n : (n <= 7)%nat -> bsum n == pow3q n.
Proof.
  intro Hn. apply Qeq_bool_eq.
  apply (proj1 (forallb_forall bsum_chk (seq 0 8)) bsum_chk_all n).
  apply in_seq. lia.
Qed.

(** * the general case of [make_bezier] (3 or more points), unit duration *)

Lemma make_bezier_general p0 p1 p2 r d :
  make_bezier QOps d (p0 :: p1 :: p2 :: r)
  = stretch QOps (map (bez_coeff QOps (p0 :: p1 :: p2 :: r) (length (p0 :: p1 :: p2 :: r) - 1))
                      (seq 0 (S (length (p0 :: p1 :: p2 :: r) - 1)))) d.
Proof. reflexivity. Qed.

Lemma nth_bound (pts : list Q) M : 0 <= M -> (forall p, In p pts -> Qabs p <= M) ->
  forall i, Qabs (nth i pts 0) <= M.
Proof.
  intros HM H i. destruct (nth_in_or_default i pts 0) as [Hin|E].
  - apply H, Hin.
  - rewrite E. exact HM.
Qed.

Lemma make_bezier_length pts : (1 <= length pts)%nat ->
  length (make_bezier QOps 1 pts) = length pts.
Proof.
  intro H. destruct pts as [|p0 [|p1 [|p2 r]]].
  - simpl in H. lia.
  - reflexivity.
  - reflexivity.
  - rewrite make_bezier_general.
    rewrite (Forall2_len _ _ _ (stretch_one _)).
    rewrite map_length, seq_length. simpl. lia.
Qed.

Theorem bezier_abs_eval_bound : forall pts u M,
  (1 <= length pts <= 8)%nat -> (forall p, In p pts -> Qabs p <= M) -> 0 <= u -> u <= 1 ->
  abs_eval (make_bezier QOps 1 pts) u <= pow3q (length pts - 1) * M.
Proof.
  intros pts u M [Hlo Hhi] HM Hu0 Hu1.
  assert (HM0 : 0 <= M).
  { destruct pts as [|p r]; [simpl in Hlo; lia|].
    eapply Qle_trans; [apply (Qabs_nonneg p) | apply HM; left; reflexivity]. }
  destruct pts as [|p0 [|p1 [|p2 r]]].
  - simpl in Hlo. lia.
  - (* one point *)
    change (make_bezier QOps 1 [p0]) with [p0].
    assert (E : pow3q (length [p0] - 1) * M == qsum [1] * M) by reflexivity.
    rewrite E. apply abs_eval_le_sum; [assumption | assumption |].
    constructor; [|constructor].
    assert (H0 : Qabs p0 <= M) by (apply HM; left; reflexivity). lra.
  - (* two points *)
    change (make_bezier QOps 1 [p0; p1]) with [p0; div QOps (sub QOps p1 p0) 1].
    assert (E : pow3q (length [p0; p1] - 1) * M == qsum [1; 2] * M) by reflexivity.
    rewrite E. apply abs_eval_le_sum; [assumption | assumption |].
    assert (H0 : Qabs p0 <= M) by (apply HM; left; reflexivity).
    assert (H1 : Qabs p1 <= M) by (apply HM; right; left; reflexivity).
    constructor; [lra|]. constructor; [|constructor].
    rewrite Qabs_divQ.
    pose proof (Qabs_subQ p1 p0) as Hs.
    assert (E1 : Qabs (sub QOps p1 p0) / Qabs 1 == Qabs (sub QOps p1 p0)).
    { change (Qabs 1) with 1. field. }
    rewrite E1. lra.
  - (* three or more points *)
    set (xs := p0 :: p1 :: p2 :: r) in *.
    unfold xs at 1. rewrite make_bezier_general. fold xs.
    set (n := (length xs - 1)%nat).
    assert (Hn : (n <= 7)%nat) by (unfold n; lia).
    rewrite (abs_eval_Forall2 _ _ u (stretch_one _)).
    rewrite <- (bsum_pow3 n Hn). unfold bsum.
    apply abs_eval_le_sum; [assumption | assumption |].
    apply Forall2_map_same. intro j.
    apply bez_coeff_bound. apply nth_bound; assumption.
Qed.

Theorem bezier_f32_eval_error : forall pts u M,
  (1 <= length pts <= 8)%nat -> (forall p, In p pts -> Qabs p <= M) -> 0 <= u -> u <= 1 ->
  Qabs (horner F32Ops (make_bezier QOps 1 pts) u - horner QOps (make_bezier QOps 1 pts) u)
    <= (17 # 16777216) * (pow3q (length pts - 1) * M).
Proof.
  intros pts u M Hlen HM Hu0 Hu1.
  eapply Qle_trans.
  - apply horner_f32_error_deg7. rewrite make_bezier_length; lia.
  - pose proof (bezier_abs_eval_bound pts u M Hlen HM Hu0 Hu1) as H.
    lra.
Qed.

Print Assumptions bezier_abs_eval_bound.
Print Assumptions bezier_f32_eval_error.
