(** The closed form of sb_trajectory_builder_hold_position_for used to run
    very long holds ([hold_fast], Model/Builder.v) equals the transcription of
    the C loop ([hold_position_for]) for every builder and duration. *)
From Coq Require Import ZArith QArith List Lia.
From SB Require Import Base.Prelude Base.Num Base.F32 Gen.Generated Model.Codec Model.Traj Model.Utils Model.Rth Model.Builder Proofs.Builder_Proofs.
Import ListNotations.
Local Open Scope Z_scope.

Lemma Qeq_bool_refl' q : Qeq_bool q q = true.
Proof. apply Qeq_bool_iff. reflexivity. Qed.

Lemma MAX_val : BUILDER_MAX_DURATION_MSEC = 60000.
Proof. reflexivity. Qed.

(** one hold step: the target is the last position, so no axis changes *)
Lemma append_hold b cur : 0 < cur <= BUILDER_MAX_DURATION_MSEC ->
  append_line b (bb_last b) cur =
  (_ <- validate_point (bb_scale b) (bb_last b) ;;
   Ok (mkbuilder (bb_bytes b ++ hold_seg cur) (bb_last b) (bb_scale b))).
Proof.
  intros Hc. rewrite append_line_eq. change 40%nat with (S 39). rewrite append_line_rec_S.
  destruct (validate_point (bb_scale b) (bb_last b)) as [[]| | |]; cbn [bind]; try reflexivity.
  replace (BUILDER_MAX_DURATION_MSEC <? cur) with false by (symmetry; apply Z.ltb_ge; lia).
  unfold append_segment. rewrite !Qeq_bool_refl'. cbn [negb bind]. unfold hold_seg.
  cbn [Z.add app]. reflexivity.
Qed.

Lemma hold_rec_fast : forall fuel b dur,
  (Z.to_nat (dur / BUILDER_MAX_DURATION_MSEC) + 2 <= fuel)%nat ->
  hold_rec fuel b dur = hold_fast b dur.
Proof.
  induction fuel as [|f IH]; intros b dur Hf; [lia|].
  cbn [hold_rec]. unfold hold_fast at 1.
  destruct (dur <=? 0) eqn:Ed; [reflexivity|]. apply Z.leb_gt in Ed.
  pose proof MAX_val as HM.
  set (cur := Z.min dur BUILDER_MAX_DURATION_MSEC).
  assert (Hc : 0 < cur <= BUILDER_MAX_DURATION_MSEC) by (unfold cur; lia).
  rewrite (append_hold b cur Hc).
  destruct (validate_point (bb_scale b) (bb_last b)) as [[]| | |] eqn:V; cbn [bind]; try reflexivity.
  destruct (Z_le_gt_dec dur BUILDER_MAX_DURATION_MSEC) as [Hle|Hgt].
  - (* last step *)
    assert (cur = dur) by (unfold cur; lia). subst cur. rewrite H. rewrite Z.sub_diag.
    destruct f as [|f']; [lia|]. cbn [hold_rec]. replace (0 <=? 0) with true by reflexivity.
    f_equal. f_equal.
    destruct (Z.eq_dec dur BUILDER_MAX_DURATION_MSEC) as [->|Hne].
    + rewrite Z_div_same_full by lia. rewrite Z_mod_same_full.
      cbn [Z.to_nat Pos.to_nat Pos.iter_op repeat concat app Z.ltb Z.compare]. rewrite !app_nil_r. reflexivity.
    + rewrite Z.div_small by lia. rewrite Z.mod_small by lia.
      cbn [Z.to_nat repeat concat app]. replace (0 <? dur) with true by (symmetry; apply Z.ltb_lt; lia). reflexivity.
  - assert (cur = BUILDER_MAX_DURATION_MSEC) by (unfold cur; lia). subst cur. rewrite H.
    set (b1 := mkbuilder (bb_bytes b ++ hold_seg BUILDER_MAX_DURATION_MSEC) (bb_last b) (bb_scale b)).
    assert (Hq : dur / BUILDER_MAX_DURATION_MSEC = (dur - BUILDER_MAX_DURATION_MSEC) / BUILDER_MAX_DURATION_MSEC + 1).
    { replace dur with ((dur - BUILDER_MAX_DURATION_MSEC) + 1 * BUILDER_MAX_DURATION_MSEC) at 1 by lia.
      rewrite Z.div_add by lia. reflexivity. }
    assert (Hr : dur mod BUILDER_MAX_DURATION_MSEC = (dur - BUILDER_MAX_DURATION_MSEC) mod BUILDER_MAX_DURATION_MSEC).
    { replace dur with ((dur - BUILDER_MAX_DURATION_MSEC) + 1 * BUILDER_MAX_DURATION_MSEC) at 1 by lia.
      rewrite Z.mod_add by lia. reflexivity. }
    assert (Hq0 : 0 <= (dur - BUILDER_MAX_DURATION_MSEC) / BUILDER_MAX_DURATION_MSEC) by (apply Z.div_pos; lia).
    rewrite IH.
    2:{ rewrite Hq in Hf. rewrite Z2Nat.inj_add in Hf by lia. simpl (Z.to_nat 1) in Hf. lia. }
    unfold hold_fast. replace (dur - BUILDER_MAX_DURATION_MSEC <=? 0) with false by (symmetry; apply Z.leb_gt; lia).
    unfold b1 at 1 2. cbn [bb_scale bb_last]. rewrite V. cbn [bind].
    f_equal. unfold b1. cbn [bb_bytes bb_last bb_scale]. f_equal.
    rewrite Hq, Hr. rewrite Z2Nat.inj_add by lia. simpl (Z.to_nat 1). rewrite Nat.add_1_r.
    cbn [repeat concat]. rewrite <- !app_assoc. reflexivity.
Qed.

Theorem hold_fast_eq : forall b dur, hold_position_for b dur = hold_fast b dur.
Proof. intros b dur. unfold hold_position_for. apply hold_rec_fast. lia. Qed.

Lemma bind_ext {A B} (r : res A) (k k' : A -> res B) : (forall a, k a = k' a) -> bind r k = bind r k'.
Proof. intros H. destruct r; cbn [bind]; auto. Qed.

Ltac rth_step :=
  match goal with
  | |- bind (hold_fast ?b ?d) _ = _ => rewrite <- (hold_fast_eq b d)
  | |- bind ?r ?k = bind ?r ?k' => apply bind_ext; intros
  | |- bind ?r ?k = bind ?r' ?k => f_equal
  | |- (if ?c then _ else _) = (if ?c then _ else _) => destruct c
  | |- (let '(a, b) := ?r in _) = _ => destruct r
  | |- hold_fast _ _ = hold_position_for _ _ => symmetry; apply hold_fast_eq
  | |- _ => reflexivity
  end.

Theorem rth_fast_eq : forall e start, rth_to_trajectory_fast e start = rth_to_trajectory e start.
Proof.
  intros e start. unfold rth_to_trajectory_fast, rth_to_trajectory. cbv zeta.
  repeat rth_step.
Qed.
