(** The abstract trajectory the builder builds passes, at the cumulative time
    of every successful line / hold call, within one quantum of the point
    given to that call (x, y, z): geometry of straight-line segment chains
    ([pos_from]) and the call-by-call invariant. *)
From Coq Require Import ZArith QArith Qround Qabs List Lia Lqa.
Ltac Zify.zify_post_hook ::= Z.div_mod_to_equations.
From SB Require Import Base.Prelude Base.Num Base.F32 Gen.Generated Model.Codec Model.Poly Model.Traj Model.Utils Model.Rth Model.Builder
  Spec.BezierSpec Spec.TrajSpec Spec.BuilderSpec Proofs.Utils_Proofs Proofs.BuilderSpec_Proofs.
From SB Require Proofs.Builder_Proofs.
Import ListNotations.
Local Open Scope Z_scope.

Module BP := SB.Proofs.Builder_Proofs.

Definition posd (s : sseg) : Prop := 0 < ss_dur s.
Definition sumd (segs : list sseg) : Z := fold_left (fun a s => a + ss_dur s) segs 0.

Lemma fold_dur_shift : forall segs a, fold_left (fun a s => a + ss_dur s) segs a = a + sumd segs.
Proof.
  unfold sumd. induction segs as [|s r IH]; intros a; cbn [fold_left]; [lia|].
  rewrite IH. rewrite (IH (0 + ss_dur s)). lia.
Qed.

Lemma sumd_cons s r : sumd (s :: r) = ss_dur s + sumd r.
Proof. unfold sumd at 1. cbn [fold_left]. rewrite fold_dur_shift. lia. Qed.

Lemma sumd_app a b : sumd (a ++ b) = sumd a + sumd b.
Proof. unfold sumd at 1. rewrite fold_left_app. rewrite fold_dur_shift. reflexivity. Qed.

Lemma sumd_pos segs : Forall posd segs -> segs <> [] -> 0 < sumd segs.
Proof.
  induction 1 as [|s r Hs Hr IH]; intros Hne; [contradiction|]. rewrite sumd_cons. unfold posd in Hs.
  destruct r as [|s' r']; [unfold sumd; cbn [fold_left]; lia|].
  assert (0 < sumd (s' :: r')) by (apply IH; discriminate). lia.
Qed.

Lemma sumd_nonneg segs : Forall posd segs -> 0 <= sumd segs.
Proof. intros H. destruct segs as [|s r]; [unfold sumd; cbn; lia|]. pose proof (sumd_pos _ H ltac:(discriminate)). lia. Qed.

(* ------------------------------------------------------------------ *)
(** * milliseconds as rationals *)
Local Open Scope Q_scope.
Lemma ms_sec_lt a b : ms_sec a < ms_sec b <-> (a < b)%Z.
Proof. unfold ms_sec, Qlt. cbn [Qnum Qden]. lia. Qed.
Lemma ms_sec_le a b : ms_sec a <= ms_sec b <-> (a <= b)%Z.
Proof. unfold ms_sec, Qle. cbn [Qnum Qden]. lia. Qed.
Lemma ms_sec_sub a b : ms_sec a - ms_sec b == ms_sec (a - b).
Proof. unfold ms_sec, Qeq, Qminus, Qplus, Qopp. cbn [Qnum Qden]. lia. Qed.
Lemma ms_sec_pos d : (0 < d)%Z -> 0 < ms_sec d.
Proof. intros H. unfold ms_sec, Qlt. cbn [Qnum Qden]. lia. Qed.

Lemma Qltb_true_iff a b : Qltb a b = true <-> a < b.
Proof.
  unfold Qltb. rewrite negb_true_iff. split; intros H.
  - apply Qnot_le_lt. intros C. apply Qle_bool_iff in C. congruence.
  - destruct (Qle_bool b a) eqn:E; [|reflexivity]. apply Qle_bool_iff in E. lra.
Qed.
Lemma Qltb_false_iff a b : Qltb a b = false <-> b <= a.
Proof.
  split; intros H.
  - destruct (Qlt_le_dec a b) as [L|L]; [|exact L]. apply Qltb_true_iff in L. congruence.
  - destruct (Qltb a b) eqn:E; [|reflexivity]. apply Qltb_true_iff in E. lra.
Qed.

(* ------------------------------------------------------------------ *)
(** * straight-line segments at their ends *)
Lemma bez_one a u : bezier QOps [a] u = a.
Proof. reflexivity. Qed.

Lemma bez_axis_0 (a : Q) (l : list Q) u : (length l <= 1)%nat -> u == 0 -> bezier QOps (a :: l) u == a.
Proof.
  intros Hl Hu. destruct l as [|c [|c' r]]; [reflexivity| |cbn [length] in Hl; lia].
  rewrite bezier_two, Hu. ring.
Qed.

Lemma bez_axis_1 (a : Q) (l : list Q) u : (length l <= 1)%nat -> u == 1 -> bezier QOps (a :: l) u == last (a :: l) a.
Proof.
  intros Hl Hu. destruct l as [|c [|c' r]]; [reflexivity| |cbn [length] in Hl; lia].
  rewrite bezier_two, Hu. cbn [last]. ring.
Qed.

Lemma bez4_lin_0 sc st s u : linear_seg s -> u == 0 -> vec4_eq (bez4 (ctrl sc st s) u) st.
Proof.
  intros (Lx & Ly & Lz & Lw) Hu. unfold ctrl, bez4, vec4_eq. cbn [vx vy vz vyaw].
  repeat split; apply bez_axis_0; try assumption; rewrite map_length; assumption.
Qed.

Lemma bez4_lin_1 sc st s u : linear_seg s -> u == 1 ->
  vec4_eq (bez4 (ctrl sc st s) u) (ctrl_end (ctrl sc st s) st).
Proof.
  intros (Lx & Ly & Lz & Lw) Hu. unfold ctrl, bez4, ctrl_end, vec4_eq. cbn [vx vy vz vyaw].
  repeat split; (rewrite bez_axis_1; [reflexivity|rewrite map_length; assumption|assumption]).
Qed.

Lemma vec4_eq_sym a b : vec4_eq a b -> vec4_eq b a.
Proof. intros (A & B & C & D). repeat split; symmetry; assumption. Qed.
Lemma vec4_eq_trans a b c : vec4_eq a b -> vec4_eq b c -> vec4_eq a c.
Proof. intros (A & B & C & D) (A' & B' & C' & D'). repeat split; etransitivity; eassumption. Qed.
Lemma vec4_eq_refl' a : vec4_eq a a.
Proof. repeat split; reflexivity. Qed.

(* ------------------------------------------------------------------ *)
(** * chains of straight-line segments *)
(** at the end of the chain the position is the end point *)
Lemma pos_end sc : forall segs st S, Forall linear_seg segs -> Forall posd segs ->
  vec4_eq (pos_from sc st S segs (ms_sec (S + sumd segs))) (end_from sc st segs).
Proof.
  induction segs as [|s r IH]; intros st S Hl Hp; cbn [pos_from end_from]; [apply vec4_eq_refl'|].
  inversion Hl as [|s0 r0 Ls Lr]; subst s0 r0. inversion Hp as [|s0 r0 Ps Pr]; subst s0 r0.
  unfold posd in Ps. rewrite sumd_cons.
  destruct r as [|s' r'].
  - (* last segment: t is its end *)
    replace (sumd []) with 0%Z by reflexivity. rewrite Z.add_0_r.
    replace (Qltb (ms_sec (S + ss_dur s)) (ms_sec (S + ss_dur s))) with false
      by (symmetry; apply Qltb_false_iff; lra).
    replace (ss_dur s =? 0)%Z with false by (symmetry; apply Z.eqb_neq; lia).
    cbn [end_from]. apply bez4_lin_1; [exact Ls|].
    rewrite ms_sec_sub. replace (S + ss_dur s - S)%Z with (ss_dur s) by lia.
    pose proof (ms_sec_pos _ Ps) as Hp0. field. lra.
  - assert (Hs : (0 < sumd (s' :: r'))%Z) by (apply sumd_pos; [exact Pr|discriminate]).
    replace (Qltb (ms_sec (S + ss_dur s)) (ms_sec (S + (ss_dur s + sumd (s' :: r'))))) with true
      by (symmetry; apply Qltb_true_iff; apply ms_sec_lt; lia).
    replace (S + (ss_dur s + sumd (s' :: r')))%Z with (S + ss_dur s + sumd (s' :: r'))%Z by lia.
    apply IH; assumption.
Qed.

(** appending segments does not change the position at instants within the chain so far *)
Lemma pos_prefix sc : forall segs1 segs2 st S t,
  Forall linear_seg segs2 -> Forall posd segs2 ->
  ms_sec S <= t -> t <= ms_sec (S + sumd segs1) ->
  vec4_eq (pos_from sc st S (segs1 ++ segs2) t) (pos_from sc st S segs1 t).
Proof.
  induction segs1 as [|s r IH]; intros segs2 st S t Hl Hp H1 H2.
  - cbn [app]. replace (sumd []) with 0%Z in H2 by reflexivity. rewrite Z.add_0_r in H2.
    assert (Ht : t == ms_sec S) by lra.
    cbn [pos_from]. destruct segs2 as [|s2 r2]; [apply vec4_eq_refl'|].
    inversion Hl as [|s0 r0 Ls Lr]; subst s0 r0. inversion Hp as [|s0 r0 Ps Pr]; subst s0 r0.
    unfold posd in Ps. cbn [pos_from].
    assert (Hle : t <= ms_sec (S + ss_dur s2)) by (rewrite Ht; apply ms_sec_le; lia).
    replace (Qltb (ms_sec (S + ss_dur s2)) t) with false by (symmetry; apply Qltb_false_iff; exact Hle).
    replace (ss_dur s2 =? 0)%Z with false by (symmetry; apply Z.eqb_neq; lia).
    apply bez4_lin_0; [exact Ls|].
    pose proof (ms_sec_pos _ Ps) as Hp0. rewrite Ht. field. lra.
  - cbn [app pos_from].
    destruct (Qltb (ms_sec (S + ss_dur s)) t) eqn:E; [|apply vec4_eq_refl'].
    apply Qltb_true_iff in E.
    apply IH; try assumption; [lra|].
    rewrite sumd_cons in H2. replace (S + ss_dur s + sumd r)%Z with (S + (ss_dur s + sumd r))%Z by lia. exact H2.
Qed.

(* ------------------------------------------------------------------ *)
(** * extending the abstract trajectory *)
Local Open Scope Z_scope.
Definition app_segs (T : straj) (segs : list sseg) : straj :=
  mkstraj (st_scale T) (st_use_yaw T) (st_start T) (st_segs T ++ segs).

Lemma app_segs_nil T : app_segs T [] = T.
Proof. destruct T. unfold app_segs. cbn. rewrite app_nil_r. reflexivity. Qed.
Lemma app_segs_app T a b : app_segs (app_segs T a) b = app_segs T (a ++ b).
Proof. unfold app_segs. cbn. rewrite app_assoc. reflexivity. Qed.
Lemma snoc_is_app T s : snoc_seg T s = app_segs T [s].
Proof. reflexivity. Qed.
Lemma total_ms_sumd T : total_ms T = sumd (st_segs T).
Proof. reflexivity. Qed.
Lemma total_ms_app T segs : total_ms (app_segs T segs) = total_ms T + sumd segs.
Proof. rewrite !total_ms_sumd. unfold app_segs. cbn [st_segs]. apply sumd_app. Qed.

Lemma line_rec_marks : forall fuel b T target dur b',
  0 < bb_scale b < 128 -> 0 <= dur -> builds b T ->
  append_line_rec fuel b target dur = Ok b' ->
  exists segs, builds b' (app_segs T segs) /\ bb_last b' = target /\ bb_scale b' = bb_scale b /\
               sumd segs = dur /\ (0 < dur -> Forall posd segs).
Proof.
  induction fuel as [|f IH]; intros b T target dur b' Hsc Hd Hb H; cbn [append_line_rec] in H;
    apply BP.bind_ok in H; destruct H as (u & _ & H);
    destruct (BUILDER_MAX_DURATION_MSEC <? dur) eqn:E; try discriminate H.
  - apply Z.ltb_ge in E. change BUILDER_MAX_DURATION_MSEC with 60000 in E.
    assert (Hd' : 0 <= dur < 65536) by lia.
    destruct (append_segment_builds b T target dur b' Hsc Hd' Hb H) as (s & B & L & S & D).
    exists [s]. rewrite <- snoc_is_app. split; [exact B|]. split; [exact L|]. split; [exact S|].
    split; [rewrite sumd_cons; change (sumd []) with 0; lia|].
    intros Hp. constructor; [unfold posd; lia|constructor].
  - apply BP.bind_ok in H. destruct H as (b1 & H1 & H2).
    apply Z.ltb_lt in E. change BUILDER_MAX_DURATION_MSEC with 60000 in E.
    assert (Hh : 0 <= Z.shiftr dur 1 <= dur) by (rewrite Z.shiftr_div_pow2 by lia; change (2 ^ 1) with 2; lia).
    assert (Hh' : 30000 <= Z.shiftr dur 1 /\ 30000 <= dur - Z.shiftr dur 1)
      by (rewrite Z.shiftr_div_pow2 by lia; change (2 ^ 1) with 2; lia).
    assert (Hh2 : 0 <= dur - Z.shiftr dur 1) by lia.
    destruct (IH _ _ _ _ _ Hsc (proj1 Hh) Hb H1) as (s1 & B1 & L1 & S1 & D1 & P1).
    rewrite <- S1 in Hsc.
    destruct (IH _ _ _ _ _ Hsc Hh2 B1 H2) as (s2 & B2 & L2 & S2 & D2 & P2).
    exists (s1 ++ s2). rewrite <- app_segs_app. split; [exact B2|]. split; [exact L2|]. split; [congruence|].
    split; [rewrite sumd_app; lia|].
    intros _. apply Forall_app. split; [apply P1; lia|apply P2; lia].
  - apply Z.ltb_ge in E. change BUILDER_MAX_DURATION_MSEC with 60000 in E.
    assert (Hd' : 0 <= dur < 65536) by lia.
    destruct (append_segment_builds b T target dur b' Hsc Hd' Hb H) as (s & B & L & S & D).
    exists [s]. rewrite <- snoc_is_app. split; [exact B|]. split; [exact L|]. split; [exact S|].
    split; [rewrite sumd_cons; change (sumd []) with 0; lia|].
    intros Hp. constructor; [unfold posd; lia|constructor].
Qed.

Lemma line_marks b T target dur b' :
  0 < bb_scale b < 128 -> 0 <= dur -> builds b T -> append_line b target dur = Ok b' ->
  exists segs, builds b' (app_segs T segs) /\ bb_last b' = target /\ bb_scale b' = bb_scale b /\
               sumd segs = dur /\ (0 < dur -> Forall posd segs).
Proof. unfold append_line. apply line_rec_marks. Qed.

Lemma hold_rec_marks : forall fuel b T dur b',
  0 < bb_scale b < 128 -> builds b T -> hold_rec fuel b dur = Ok b' ->
  exists segs, builds b' (app_segs T segs) /\ bb_last b' = bb_last b /\ bb_scale b' = bb_scale b /\
               sumd segs = Z.max dur 0 /\ Forall posd segs.
Proof.
  induction fuel as [|f IH]; intros b T dur b' Hsc Hb H; cbn [hold_rec] in H;
    destruct (dur <=? 0) eqn:E.
  - injection H as <-. apply Z.leb_le in E. exists []. rewrite app_segs_nil.
    split; [exact Hb|]. split; [reflexivity|]. split; [reflexivity|]. split; [change (sumd []) with 0; lia|constructor].
  - discriminate H.
  - injection H as <-. apply Z.leb_le in E. exists []. rewrite app_segs_nil.
    split; [exact Hb|]. split; [reflexivity|]. split; [reflexivity|]. split; [change (sumd []) with 0; lia|constructor].
  - apply Z.leb_gt in E. apply BP.bind_ok in H. destruct H as (b1 & H1 & H2).
    change BUILDER_MAX_DURATION_MSEC with 60000 in *.
    assert (Hm : 0 <= Z.min dur 60000) by lia.
    destruct (line_marks b T (bb_last b) (Z.min dur 60000) b1 Hsc Hm Hb H1) as (s1 & B1 & L1 & S1 & D1 & P1).
    rewrite <- S1 in Hsc.
    destruct (IH _ _ _ _ Hsc B1 H2) as (s2 & B2 & L2 & S2 & D2 & P2).
    exists (s1 ++ s2). rewrite <- app_segs_app. split; [exact B2|]. split; [congruence|]. split; [congruence|].
    split; [rewrite sumd_app; lia|].
    apply Forall_app. split; [apply P1; lia|exact P2].
Qed.

Lemma hold_marks b T dur b' :
  0 < bb_scale b < 128 -> builds b T -> hold_position_for b dur = Ok b' ->
  exists segs, builds b' (app_segs T segs) /\ bb_last b' = bb_last b /\ bb_scale b' = bb_scale b /\
               sumd segs = Z.max dur 0 /\ Forall posd segs.
Proof. unfold hold_position_for. apply hold_rec_marks. Qed.

(* ------------------------------------------------------------------ *)
(** * the marks *)
Local Open Scope Q_scope.
Lemma quantum_of_eq sc e e' c : e == e' -> quantum_of sc e' c -> quantum_of sc e c.
Proof. intros He [H1 H2]. unfold quantum_of. rewrite He. split; assumption. Qed.
Local Close Scope Q_scope.

Lemma close_to_eq sc e e' l : vec4_eq e e' -> close_to sc e' l -> close_to sc e l.
Proof.
  intros (Ex & Ey & Ez & _) (Cx & Cy & Cz). unfold close_to.
  split; [|split]; eapply quantum_of_eq; eassumption.
Qed.

Definition Marks (sc : Z) (T : straj) (marks : list (Z * vec4)) : Prop :=
  Forall (fun mp => 0 <= fst mp <= total_ms T /\ close_to sc (pos_ms T (fst mp)) (snd mp)) marks.

Lemma pos_ms_app T segs m : Forall linear_seg segs -> Forall posd segs -> 0 <= m <= total_ms T ->
  vec4_eq (pos_ms (app_segs T segs) m) (pos_ms T m).
Proof.
  intros Hl Hp Hm. unfold pos_ms, app_segs. cbn [st_scale st_segs]. unfold sstart. cbn [st_start st_scale].
  apply pos_prefix; try assumption.
  - apply ms_sec_le. lia.
  - apply ms_sec_le. rewrite total_ms_sumd in Hm. lia.
Qed.

Lemma marks_app sc T segs marks : Forall linear_seg segs -> Forall posd segs -> 0 <= sumd segs ->
  Marks sc T marks -> Marks sc (app_segs T segs) marks.
Proof.
  intros Hl Hp Hs HM. unfold Marks in *. eapply Forall_impl; [|exact HM].
  intros [m p] [Hm Hc]. cbn [fst snd] in *. split.
  - rewrite total_ms_app. lia.
  - eapply close_to_eq; [apply pos_ms_app; assumption|exact Hc].
Qed.

Lemma pos_ms_end T : Forall linear_seg (st_segs T) -> Forall posd (st_segs T) ->
  vec4_eq (pos_ms T (total_ms T)) (end_of T).
Proof.
  intros Hl Hp. unfold pos_ms, end_of. rewrite total_ms_sumd.
  replace (sumd (st_segs T)) with (0 + sumd (st_segs T)) by lia. apply pos_end; assumption.
Qed.

(** the invariant: the refinement relation of BuilderSpec_Proofs, the duration so
    far, no zero-duration segment, and every mark met *)
Definition J (b : builder) (T : straj) (acc : Z) (marks : list (Z * vec4)) : Prop :=
  builds b T /\ total_ms T = acc /\ Forall posd (st_segs T) /\ Marks (bb_scale b) T marks /\
  (st_segs T = [] -> marks = []).

Lemma builds_linear b T : builds b T -> Forall linear_seg (st_segs T).
Proof. intros (_ & _ & _ & L & _). exact L. Qed.
Lemma builds_close b T : builds b T -> close_to (bb_scale b) (end_of T) (bb_last b).
Proof. intros (_ & _ & _ & _ & C). exact C. Qed.

Lemma new_linear b T segs : builds b (app_segs T segs) -> Forall linear_seg segs.
Proof. intros B. apply builds_linear in B. unfold app_segs in B. cbn [st_segs] in B. apply Forall_app in B. apply B. Qed.

Lemma marks_run : forall calls b T acc marks,
  0 < bb_scale b < 128 -> J b T acc marks -> Forall call_pos calls ->
  exists T', J (fst (brun b acc calls)) T' (snd (brun b acc calls)) (marks ++ bmarks b acc calls) /\
             bb_scale (fst (brun b acc calls)) = bb_scale b.
Proof.
  induction calls as [|c r IH]; intros b T acc marks Hsc HJ Hok.
  - cbn [brun bmarks fst snd]. rewrite app_nil_r. exists T. split; [exact HJ|reflexivity].
  - inversion Hok as [|c' r' Hc Hr]; subst c' r'.
    destruct HJ as (Hb & Hacc & Hpos & HM & Hnil).
    destruct c as [p|p d|d].
    + change (brun b acc (CStart p :: r))
        with (match set_start_position b p with Ok b' => brun b' (acc + 0) r | _ => brun b acc r end).
      change (bmarks b acc (CStart p :: r))
        with (match set_start_position b p with Ok b' => bmarks b' (acc + 0) r | _ => bmarks b acc r end).
      destruct (set_start_position b p) as [b'| | |] eqn:Es;
        try (exact (IH b T acc marks Hsc (conj Hb (conj Hacc (conj Hpos (conj HM Hnil)))) Hr)).
      destruct (set_start_builds b T p b' Hsc Hb Es) as (T' & B & L & S & N & S2 & U2 & M).
      (* a start position is accepted only before the first segment: no marks yet *)
      assert (HT : st_segs T = []).
      { destruct Hb as (Hbytes & _). unfold set_start_position in Es.
        change (Z.to_nat BUILDER_HEADER_LENGTH) with 9%nat in Es.
        destruct (length (bb_bytes b) =? 9)%nat eqn:E9; cbn [negb] in Es; [|discriminate Es].
        apply Nat.eqb_eq in E9. apply header_only. rewrite <- Hbytes. exact E9. }
      rewrite (Hnil HT) in *. cbn [app].
      assert (Hsc' : 0 < bb_scale b' < 128) by (rewrite S; exact Hsc).
      destruct (IH b' T' (acc + 0) [] Hsc') as (T2 & J2 & S3).
      { split; [exact B|]. split; [lia|]. split; [rewrite N; constructor|]. split; [constructor|reflexivity]. }
      { exact Hr. }
      exists T2. split; [exact J2|congruence].
    + change (brun b acc (CLine p d :: r))
        with (match append_line b p d with Ok b' => brun b' (acc + d) r | _ => brun b acc r end).
      change (bmarks b acc (CLine p d :: r))
        with (match append_line b p d with Ok b' => (acc + d, p) :: bmarks b' (acc + d) r | _ => bmarks b acc r end).
      destruct (append_line b p d) as [b'| | |] eqn:Es;
        try (exact (IH b T acc marks Hsc (conj Hb (conj Hacc (conj Hpos (conj HM Hnil)))) Hr)).
      cbn [call_pos] in Hc. assert (Hd0 : 0 <= d) by lia.
      destruct (line_marks b T p d b' Hsc Hd0 Hb Es) as (segs & B & L & S & D & P).
      assert (Hp : Forall posd segs) by (apply P; lia).
      assert (Hl : Forall linear_seg segs) by (eapply new_linear; exact B).
      assert (Hsc' : 0 < bb_scale b' < 128) by (rewrite S; exact Hsc).
      assert (Hpos' : Forall posd (st_segs (app_segs T segs)))
        by (unfold app_segs; cbn [st_segs]; apply Forall_app; split; assumption).
      destruct (IH b' (app_segs T segs) (acc + d) (marks ++ [(acc + d, p)]) Hsc') as (T2 & J2 & S3).
      { split; [exact B|]. split; [rewrite total_ms_app; lia|]. split; [exact Hpos'|]. split.
        - unfold Marks. apply Forall_app. split.
          + rewrite S. apply marks_app; try assumption. lia.
          + constructor; [|constructor]. cbn [fst snd]. split; [pose proof (sumd_nonneg _ Hpos) as Hn; rewrite <- total_ms_sumd in Hn; rewrite total_ms_app; lia|].
            replace (acc + d) with (total_ms (app_segs T segs)) by (rewrite total_ms_app; lia).
            eapply close_to_eq; [apply pos_ms_end; [eapply builds_linear; exact B|exact Hpos']|].
            rewrite <- L. apply builds_close. exact B.
        - intros Hnil'. unfold app_segs in Hnil'. cbn [st_segs] in Hnil'. apply app_eq_nil in Hnil'.
          destruct Hnil' as [_ Hs0]. rewrite Hs0 in D. change (sumd []) with 0 in D. lia. }
      { exact Hr. }
      exists T2. rewrite <- app_assoc in J2. cbn [app] in J2. split; [exact J2|congruence].
    + change (brun b acc (CHold d :: r))
        with (match hold_position_for b d with Ok b' => brun b' (acc + Z.max d 0) r | _ => brun b acc r end).
      change (bmarks b acc (CHold d :: r))
        with (match hold_position_for b d with Ok b' => bmarks b' (acc + Z.max d 0) r | _ => bmarks b acc r end).
      destruct (hold_position_for b d) as [b'| | |] eqn:Es;
        try (exact (IH b T acc marks Hsc (conj Hb (conj Hacc (conj Hpos (conj HM Hnil)))) Hr)).
      destruct (hold_marks b T d b' Hsc Hb Es) as (segs & B & L & S & D & Hp).
      assert (Hl : Forall linear_seg segs) by (eapply new_linear; exact B).
      assert (Hsc' : 0 < bb_scale b' < 128) by (rewrite S; exact Hsc).
      destruct (IH b' (app_segs T segs) (acc + Z.max d 0) marks Hsc') as (T2 & J2 & S3).
      { split; [exact B|]. split; [rewrite total_ms_app; lia|].
        split; [unfold app_segs; cbn [st_segs]; apply Forall_app; split; assumption|]. split.
        - rewrite S. apply marks_app; try assumption. lia.
        - intros Hnil'. unfold app_segs in Hnil'. cbn [st_segs] in Hnil'. apply app_eq_nil in Hnil'.
          apply Hnil. apply Hnil'. }
      { exact Hr. }
      exists T2. split; [exact J2|congruence].
Qed.

Theorem builder_passes_requested_points : forall scale flags b0 calls,
  0 <= scale -> builder_init scale flags = Ok b0 -> Forall call_pos calls ->
  exists T, builds (fst (brun b0 0 calls)) T /\ total_ms T = snd (brun b0 0 calls) /\
            Forall (fun mp => 0 <= fst mp <= total_ms T /\ close_to scale (pos_ms T (fst mp)) (snd mp))
                   (bmarks b0 0 calls).
Proof.
  intros scale flags b0 calls H0 Hi Hok.
  destruct (builder_init_builds scale flags b0 Hi H0) as (Hsc & Hs & Hb).
  assert (HJ : J b0 (mkstraj scale (negb (Z.land flags SB_TRAJECTORY_USE_YAW =? 0)) (0, 0, 0, 0) []) 0 []).
  { split; [exact Hb|]. split; [reflexivity|]. split; [constructor|]. split; [constructor|reflexivity]. }
  destruct (marks_run calls b0 _ 0 [] Hsc HJ Hok) as (T & (B & M & _ & HM & _) & S).
  exists T. split; [exact B|]. split; [exact M|]. cbn [app] in HM. unfold Marks in HM. rewrite S, Hs in HM. exact HM.
Qed.
