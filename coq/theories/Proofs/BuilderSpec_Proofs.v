(** The builder refines the declarative trajectory: after any sequence of
    calls the builder's bytes are the encoding of an abstract trajectory made
    of straight-line segments whose end point is the quantisation of the last
    requested point (Spec/BuilderSpec.v). *)
From Coq Require Import ZArith QArith Qround Qabs List Lia Lqa.
Ltac Zify.zify_post_hook ::= Z.div_mod_to_equations.
From SB Require Import Base.Prelude Base.Num Base.F32 Gen.Generated Model.Codec Model.Traj Model.Utils Model.Rth Model.Builder
  Spec.TrajSpec Spec.BuilderSpec Proofs.Utils_Proofs Model.Poly Spec.BezierSpec.
From SB Require Proofs.Builder_Proofs.
Import ListNotations.
Local Open Scope Z_scope.

Module BP := SB.Proofs.Builder_Proofs.

(* ------------------------------------------------------------------ *)
(** * encoding of one builder segment *)
Lemma n16_i16b v : i16b (n16 v) = true.
Proof. unfold n16, sx16, i16b. destruct (v mod 65536 <? 32768) eqn:E; lia. Qed.

Lemma n16_id v : -32768 <= v <= 32767 -> n16 v = v.
Proof.
  intros H. unfold n16, sx16.
  destruct (v mod 65536 <? 32768) eqn:E; lia.
Qed.

Lemma e16_n16 v : e16 (n16 v) = e16 v.
Proof.
  unfold e16. cbv zeta.
  assert (H : n16 v mod 65536 = v mod 65536).
  { unfold n16, sx16. destruct (v mod 65536 <? 32768) eqn:E; lia. }
  rewrite H. reflexivity.
Qed.

Lemma opt16_enc c v : flat_map e16 (opt16 c v) = if c then e16 v else [].
Proof. destruct c; cbn [opt16 flat_map app]; [rewrite e16_n16; reflexivity|reflexivity]. Qed.

Lemma opt16_len_ok c v : len_ok (opt16 c v) = true.
Proof. destruct c; cbn [opt16 len_ok length forallb]; [rewrite n16_i16b|]; reflexivity. Qed.

Lemma opt16_bits c v : bits_of_len (opt16 c v) = if c then 1 else 0.
Proof. destruct c; reflexivity. Qed.

Lemma enc_line cx cy cz cw dur x y z w :
  enc_sseg (line_sseg cx cy cz cw dur x y z w) =
  ((if cx then 1 else 0) + (if cy then 4 else 0) + (if cz then 16 else 0) + (if cw then 64 else 0))
  :: e16 dur ++ (if cx then e16 x else []) ++ (if cy then e16 y else [])
  ++ (if cz then e16 z else []) ++ (if cw then e16 w else []).
Proof.
  unfold enc_sseg, line_sseg. cbn [ss_dur ss_x ss_y ss_z ss_yaw].
  rewrite !opt16_bits, !opt16_enc. f_equal. destruct cx, cy, cz, cw; reflexivity.
Qed.

Lemma wf_line cx cy cz cw dur x y z w : 0 <= dur < 65536 ->
  wf_sseg (line_sseg cx cy cz cw dur x y z w) = true.
Proof.
  intros H. unfold wf_sseg, line_sseg. cbn [ss_dur ss_x ss_y ss_z ss_yaw].
  rewrite !opt16_len_ok.
  replace (0 <=? dur) with true by (symmetry; apply Z.leb_le; lia).
  replace (dur <? 65536) with true by (symmetry; apply Z.ltb_lt; lia). reflexivity.
Qed.

Lemma linear_line cx cy cz cw dur x y z w : linear_seg (line_sseg cx cy cz cw dur x y z w).
Proof. unfold linear_seg, line_sseg. cbn [ss_x ss_y ss_z ss_yaw]. destruct cx, cy, cz, cw; cbn [opt16 length]; lia. Qed.

Lemma encode_snoc T s : encode_traj (snoc_seg T s) = encode_traj T ++ enc_sseg s.
Proof.
  unfold encode_traj, snoc_seg. cbn [st_start st_scale st_use_yaw st_segs].
  destruct (st_start T) as [[[x y] z] w].
  rewrite flat_map_app. cbn [flat_map]. rewrite app_nil_r.
  rewrite <- app_comm_cons. f_equal; rewrite <- ?app_assoc; reflexivity.
Qed.

Lemma wf_snoc T s : wf_straj T = true -> wf_sseg s = true -> wf_straj (snoc_seg T s) = true.
Proof.
  unfold wf_straj, snoc_seg. cbn [st_start st_scale st_segs].
  destruct (st_start T) as [[[x y] z] w]. intros H Hs.
  rewrite forallb_app. cbn [forallb]. rewrite Hs.
  apply andb_true_iff in H. destruct H as [H1 H2]. rewrite H1, H2. reflexivity.
Qed.

(* ------------------------------------------------------------------ *)
(** * end point of the abstract trajectory *)
Lemma end_from_app sc : forall segs st s,
  end_from sc st (segs ++ [s]) = ctrl_end (ctrl sc (end_from sc st segs) s) (end_from sc st segs).
Proof.
  induction segs as [|a r IH]; intros st s; cbn [app end_from]; [reflexivity|apply IH].
Qed.

Lemma end_snoc T s : end_of (snoc_seg T s) = ctrl_end (ctrl (st_scale T) (end_of T) s) (end_of T).
Proof.
  unfold end_of, snoc_seg. cbn [st_scale st_segs]. unfold sstart. cbn [st_start st_scale].
  apply end_from_app.
Qed.

Lemma end_line_x T cx cy cz cw dur x y z w :
  vx (end_of (snoc_seg T (line_sseg cx cy cz cw dur x y z w))) =
  if cx then coord_of (st_scale T) (n16 x) else vx (end_of T).
Proof. rewrite end_snoc. unfold ctrl, ctrl_end, line_sseg. cbn [ss_x vx]. destruct cx; reflexivity. Qed.
Lemma end_line_y T cx cy cz cw dur x y z w :
  vy (end_of (snoc_seg T (line_sseg cx cy cz cw dur x y z w))) =
  if cy then coord_of (st_scale T) (n16 y) else vy (end_of T).
Proof. rewrite end_snoc. unfold ctrl, ctrl_end, line_sseg. cbn [ss_y vy]. destruct cy; reflexivity. Qed.
Lemma end_line_z T cx cy cz cw dur x y z w :
  vz (end_of (snoc_seg T (line_sseg cx cy cz cw dur x y z w))) =
  if cz then coord_of (st_scale T) (n16 z) else vz (end_of T).
Proof. rewrite end_snoc. unfold ctrl, ctrl_end, line_sseg. cbn [ss_z vz]. destruct cz; reflexivity. Qed.

(* ------------------------------------------------------------------ *)
(** * quantum_of *)
Local Open Scope Q_scope.

Lemma quantum_of_Qeq sc e c c' : c == c' -> quantum_of sc e c -> quantum_of sc e c'.
Proof.
  intros Hc [H1 H2]. unfold quantum_of.
  assert (Ha : Qabs' c == Qabs' c').
  { rewrite !BP.Qabs'_Qabs. rewrite Hc. reflexivity. }
  rewrite <- Ha, <- Hc. split; assumption.
Qed.

Lemma quantum_of_stored sc c v : (0 < sc < 128)%Z -> scale_coordinate sc c = Ok v ->
  quantum_of sc (coord_of sc (n16 v)) c.
Proof.
  intros Hsc H.
  destruct (BP.quantisation_within_quantum' rnd32_error sc c v Hsc H) as (Hr & H1 & H2).
  rewrite n16_id by exact Hr. unfold quantum_of, coord_of. split; [exact H1|].
  eapply Qlt_le_trans; [exact H2|].
  rewrite <- inject_Z_plus. rewrite <- Zle_Qle. lia.
Qed.

Lemma quantum_of_zero sc : (0 < sc)%Z -> quantum_of sc 0 0.
Proof.
  intros H. unfold quantum_of. split; [vm_compute; discriminate|].
  assert (0 < inject_Z sc) by (change 0 with (inject_Z 0); rewrite <- Zlt_Qlt; lia).
  change (Qabs' 0) with 0. lra.
Qed.
Local Close Scope Q_scope.

(* ------------------------------------------------------------------ *)
(** * one segment *)
Definition chg (a c : Q) : bool := negb (Qeq_bool a c).

Lemma append_segment_inv' b target dur b' : append_segment b target dur = Ok b' ->
  exists x y z,
    (if chg (vx (bb_last b)) (vx target) then scale_coordinate (bb_scale b) (vx target) else Ok 0) = Ok x /\
    (if chg (vy (bb_last b)) (vy target) then scale_coordinate (bb_scale b) (vy target) else Ok 0) = Ok y /\
    (if chg (vz (bb_last b)) (vz target) then scale_coordinate (bb_scale b) (vz target) else Ok 0) = Ok z /\
    b' = mkbuilder (bb_bytes b ++ enc_sseg (line_sseg (chg (vx (bb_last b)) (vx target)) (chg (vy (bb_last b)) (vy target))
                                                      (chg (vz (bb_last b)) (vz target)) (chg (vyaw (bb_last b)) (vyaw target))
                                                      dur x y z (scale_angle (vyaw target))))
                   target (bb_scale b).
Proof.
  unfold append_segment. cbv beta zeta.
  fold (chg (vx (bb_last b)) (vx target)) (chg (vy (bb_last b)) (vy target))
       (chg (vz (bb_last b)) (vz target)) (chg (vyaw (bb_last b)) (vyaw target)).
  intros H.
  apply BP.bind_ok in H. destruct H as (x & Hx & H).
  apply BP.bind_ok in H. destruct H as (y & Hy & H).
  apply BP.bind_ok in H. destruct H as (z & Hz & H).
  injection H as <-. exists x, y, z. rewrite enc_line. repeat split; assumption.
Qed.

Lemma chg_false a c : chg a c = false -> (a == c)%Q.
Proof. unfold chg. intros H. apply negb_false_iff in H. apply Qeq_bool_iff. exact H. Qed.

Lemma append_segment_builds b T target dur b' :
  (0 < bb_scale b < 128)%Z -> (0 <= dur < 65536)%Z -> builds b T ->
  append_segment b target dur = Ok b' ->
  exists s, builds b' (snoc_seg T s) /\ bb_last b' = target /\ bb_scale b' = bb_scale b /\ ss_dur s = dur.
Proof.
  intros Hsc Hd (Hb & Hwf & Hs & Hlin & Hcl) H.
  destruct (append_segment_inv' _ _ _ _ H) as (x & y & z & Hx & Hy & Hz & ->).
  exists (line_sseg (chg (vx (bb_last b)) (vx target)) (chg (vy (bb_last b)) (vy target))
                    (chg (vz (bb_last b)) (vz target)) (chg (vyaw (bb_last b)) (vyaw target))
                    dur x y z (scale_angle (vyaw target))).
  split; [|split; [reflexivity|split; [reflexivity|reflexivity]]].
  unfold builds. cbn [bb_bytes bb_scale bb_last].
  split; [rewrite encode_snoc, Hb; reflexivity|].
  split; [apply wf_snoc; [exact Hwf|apply wf_line; exact Hd]|].
  split; [exact Hs|].
  split; [cbn [snoc_seg st_segs]; apply Forall_app; split; [exact Hlin|constructor; [apply linear_line|constructor]]|].
  destruct Hcl as (Cx & Cy & Cz).
  unfold close_to. rewrite end_line_x, end_line_y, end_line_z. rewrite Hs.
  split; [|split].
  - destruct (chg (vx (bb_last b)) (vx target)) eqn:E.
    + apply quantum_of_stored; assumption.
    + apply quantum_of_Qeq with (vx (bb_last b)); [apply chg_false; exact E|exact Cx].
  - destruct (chg (vy (bb_last b)) (vy target)) eqn:E.
    + apply quantum_of_stored; assumption.
    + apply quantum_of_Qeq with (vy (bb_last b)); [apply chg_false; exact E|exact Cy].
  - destruct (chg (vz (bb_last b)) (vz target)) eqn:E.
    + apply quantum_of_stored; assumption.
    + apply quantum_of_Qeq with (vz (bb_last b)); [apply chg_false; exact E|exact Cz].
Qed.

(* ------------------------------------------------------------------ *)
(** * a line of any duration (halving above 60 s), holds, the start position *)
(** [T'] extends [T]: same header, more segments, [d] more milliseconds *)
Definition extends (T T' : straj) (d : Z) : Prop :=
  st_scale T' = st_scale T /\ st_use_yaw T' = st_use_yaw T /\ st_start T' = st_start T /\
  (exists segs, st_segs T' = st_segs T ++ segs) /\ total_ms T' = total_ms T + d.

Lemma extends_refl T : extends T T 0.
Proof. repeat split; try reflexivity; [exists []; rewrite app_nil_r; reflexivity|lia]. Qed.

Lemma extends_trans T1 T2 T3 d1 d2 : extends T1 T2 d1 -> extends T2 T3 d2 -> extends T1 T3 (d1 + d2).
Proof.
  intros (A1 & A2 & A3 & (s1 & A4) & A5) (B1 & B2 & B3 & (s2 & B4) & B5).
  repeat split; try congruence.
  - exists (s1 ++ s2). rewrite B4, A4, app_assoc. reflexivity.
  - lia.
Qed.

Lemma total_ms_snoc T s : total_ms (snoc_seg T s) = total_ms T + ss_dur s.
Proof. unfold total_ms, snoc_seg. cbn [st_segs]. rewrite fold_left_app. reflexivity. Qed.

Lemma extends_snoc T s : extends T (snoc_seg T s) (ss_dur s).
Proof.
  repeat split; try reflexivity; [exists [s]; reflexivity|apply total_ms_snoc].
Qed.

Lemma append_line_rec_builds : forall fuel b T target dur b',
  0 < bb_scale b < 128 -> 0 <= dur -> builds b T ->
  append_line_rec fuel b target dur = Ok b' ->
  exists T', builds b' T' /\ bb_last b' = target /\ bb_scale b' = bb_scale b /\ extends T T' dur.
Proof.
  induction fuel as [|f IH]; intros b T target dur b' Hsc Hd Hb H; cbn [append_line_rec] in H;
    apply BP.bind_ok in H; destruct H as (u & _ & H);
    destruct (BUILDER_MAX_DURATION_MSEC <? dur) eqn:E; try discriminate H.
  - apply Z.ltb_ge in E. change BUILDER_MAX_DURATION_MSEC with 60000 in E.
    assert (Hd' : 0 <= dur < 65536) by lia.
    destruct (append_segment_builds b T target dur b' Hsc Hd' Hb H) as (s & B & L & S & D).
    exists (snoc_seg T s). split; [exact B|]. split; [exact L|]. split; [exact S|]. rewrite <- D. apply extends_snoc.
  - apply BP.bind_ok in H. destruct H as (b1 & H1 & H2).
    apply Z.ltb_lt in E. change BUILDER_MAX_DURATION_MSEC with 60000 in E.
    assert (Hh : 0 <= Z.shiftr dur 1 <= dur) by (rewrite Z.shiftr_div_pow2 by lia; change (2 ^ 1) with 2; lia).
    assert (Hh2 : 0 <= dur - Z.shiftr dur 1) by lia.
    destruct (IH _ _ _ _ _ Hsc (proj1 Hh) Hb H1) as (T1 & B1 & L1 & S1 & X1).
    rewrite <- S1 in Hsc.
    destruct (IH _ _ _ _ _ Hsc Hh2 B1 H2) as (T2 & B2 & L2 & S2 & X2).
    exists T2. split; [exact B2|]. split; [exact L2|]. split; [congruence|].
    replace dur with (Z.shiftr dur 1 + (dur - Z.shiftr dur 1)) by lia.
    eapply extends_trans; eassumption.
  - apply Z.ltb_ge in E. change BUILDER_MAX_DURATION_MSEC with 60000 in E.
    assert (Hd' : 0 <= dur < 65536) by lia.
    destruct (append_segment_builds b T target dur b' Hsc Hd' Hb H) as (s & B & L & S & D).
    exists (snoc_seg T s). split; [exact B|]. split; [exact L|]. split; [exact S|]. rewrite <- D. apply extends_snoc.
Qed.

Lemma append_line_builds b T target dur b' :
  0 < bb_scale b < 128 -> 0 <= dur -> builds b T -> append_line b target dur = Ok b' ->
  exists T', builds b' T' /\ bb_last b' = target /\ bb_scale b' = bb_scale b /\ extends T T' dur.
Proof. unfold append_line. apply append_line_rec_builds. Qed.

Lemma hold_rec_builds : forall fuel b T dur b',
  0 < bb_scale b < 128 -> builds b T -> hold_rec fuel b dur = Ok b' ->
  exists T', builds b' T' /\ bb_last b' = bb_last b /\ bb_scale b' = bb_scale b /\ extends T T' (Z.max dur 0).
Proof.
  induction fuel as [|f IH]; intros b T dur b' Hsc Hb H; cbn [hold_rec] in H;
    destruct (dur <=? 0) eqn:E.
  - injection H as <-. apply Z.leb_le in E. exists T. split; [exact Hb|]. split; [reflexivity|]. split; [reflexivity|].
    replace (Z.max dur 0) with 0 by lia. apply extends_refl.
  - discriminate H.
  - injection H as <-. apply Z.leb_le in E. exists T. split; [exact Hb|]. split; [reflexivity|]. split; [reflexivity|].
    replace (Z.max dur 0) with 0 by lia. apply extends_refl.
  - apply Z.leb_gt in E. apply BP.bind_ok in H. destruct H as (b1 & H1 & H2).
    change BUILDER_MAX_DURATION_MSEC with 60000 in *.
    assert (Hm : 0 <= Z.min dur 60000) by lia.
    destruct (append_line_builds b T (bb_last b) (Z.min dur 60000) b1 Hsc Hm Hb H1) as (T1 & B1 & L1 & S1 & X1).
    rewrite <- S1 in Hsc.
    destruct (IH _ _ _ _ Hsc B1 H2) as (T2 & B2 & L2 & S2 & X2).
    exists T2. split; [exact B2|]. split; [congruence|]. split; [congruence|].
    replace (Z.max dur 0) with (Z.min dur 60000 + Z.max (dur - Z.min dur 60000) 0) by lia.
    eapply extends_trans; eassumption.
Qed.

Lemma hold_builds b T dur b' :
  0 < bb_scale b < 128 -> builds b T -> hold_position_for b dur = Ok b' ->
  exists T', builds b' T' /\ bb_last b' = bb_last b /\ bb_scale b' = bb_scale b /\ extends T T' (Z.max dur 0).
Proof. unfold hold_position_for. apply hold_rec_builds. Qed.

(* ------------------------------------------------------------------ *)
(** * init and the start position *)
Lemma builder_init_builds scale flags b : builder_init scale flags = Ok b -> 0 <= scale ->
  0 < bb_scale b < 128 /\ bb_scale b = scale /\
  builds b (mkstraj scale (negb (Z.land flags SB_TRAJECTORY_USE_YAW =? 0)) (0, 0, 0, 0) []).
Proof.
  intros H H0. unfold builder_init in H.
  destruct ((scale =? 0) || (127 <? scale)) eqn:E; [discriminate H|].
  injection H as <-. cbn [bb_scale]. assert (Hsc : 0 < scale < 128) by lia.
  split; [exact Hsc|]. split; [reflexivity|].
  unfold builds. cbn [bb_bytes bb_scale bb_last st_scale st_segs].
  split.
  { unfold encode_traj. cbn [st_start st_scale st_use_yaw st_segs flat_map repeat].
    destruct (Z.land flags SB_TRAJECTORY_USE_YAW =? 0); reflexivity. }
  split.
  { unfold wf_straj. cbn [st_start st_scale st_segs forallb].
    replace (0 <? scale) with true by (symmetry; apply Z.ltb_lt; lia).
    replace (scale <? 128) with true by (symmetry; apply Z.ltb_lt; lia). reflexivity. }
  split; [reflexivity|]. split; [constructor|].
  unfold close_to, end_of, sstart, zero_vec. cbn [st_start st_scale st_segs end_from vx vy vz coord_of].
  unfold coord_of. cbn [Z.mul].
  repeat split; apply (quantum_of_zero scale); lia.
Qed.

Lemma enc_sseg_nonempty s : enc_sseg s <> [].
Proof. unfold enc_sseg. discriminate. Qed.

Lemma header_only T : length (encode_traj T) = 9%nat -> st_segs T = [].
Proof.
  unfold encode_traj. destruct (st_start T) as [[[x y] z] w].
  destruct (st_segs T) as [|s r]; [reflexivity|].
  cbn [flat_map length]. unfold e16. cbn [app length]. rewrite !app_length.
  intros H. exfalso. destruct (enc_sseg s) eqn:Es; [exact (enc_sseg_nonempty s Es)|].
  cbn [length] in H. lia.
Qed.

Lemma set_start_builds b T start b' :
  0 < bb_scale b < 128 -> builds b T -> set_start_position b start = Ok b' ->
  exists T', builds b' T' /\ bb_last b' = start /\ bb_scale b' = bb_scale b /\
             st_segs T' = [] /\ st_scale T' = st_scale T /\ st_use_yaw T' = st_use_yaw T /\ total_ms T' = total_ms T.
Proof.
  intros Hsc (Hb & Hwf & Hs & Hlin & Hcl) H. unfold set_start_position in H.
  change (Z.to_nat BUILDER_HEADER_LENGTH) with 9%nat in H.
  destruct (length (bb_bytes b) =? 9)%nat eqn:E; cbn [negb] in H; [|discriminate H].
  apply Nat.eqb_eq in E.
  apply BP.bind_ok in H. destruct H as (u & _ & H).
  apply BP.bind_ok in H. destruct H as (x & Hx & H).
  apply BP.bind_ok in H. destruct H as (y & Hy & H).
  apply BP.bind_ok in H. destruct H as (z & Hz & H).
  injection H as <-.
  assert (Hnil : st_segs T = []) by (apply header_only; rewrite <- Hb; exact E).
  exists (mkstraj (st_scale T) (st_use_yaw T) (n16 x, n16 y, n16 z, n16 (scale_angle (vyaw start))) []).
  cbn [bb_last bb_scale st_segs st_scale st_use_yaw].
  split; [|repeat split; try reflexivity; unfold total_ms; rewrite Hnil; reflexivity].
  unfold builds. cbn [bb_bytes bb_scale bb_last st_scale st_segs].
  split.
  { rewrite Hb. unfold encode_traj. rewrite Hnil. cbn [st_start st_scale st_use_yaw st_segs flat_map].
    destruct (st_start T) as [[[x0 y0] z0] w0].
    rewrite !e16_n16. unfold e16. cbn [app]. cbn [put16 write_u16 fst upd Nat.add]. reflexivity. }
  split.
  { unfold wf_straj in *. cbn [st_start st_scale st_segs forallb]. rewrite !n16_i16b.
    destruct (st_start T) as [[[x0 y0] z0] w0].
    apply andb_true_iff in Hwf. destruct Hwf as [Hwf _].
    repeat (apply andb_true_iff in Hwf; destruct Hwf as [Hwf ?]).
    rewrite Hwf. match goal with Hq : (st_scale T <? 128) = true |- _ => rewrite Hq end. reflexivity. }
  split; [exact Hs|]. split; [constructor|].
  unfold close_to, end_of, sstart. cbn [st_start st_scale st_segs end_from vx vy vz]. rewrite Hs.
  repeat split; apply quantum_of_stored; assumption.
Qed.

(* ------------------------------------------------------------------ *)
(** * any sequence of calls *)
Lemma brun_builds : forall calls b T acc,
  0 < bb_scale b < 128 -> builds b T -> total_ms T = acc -> Forall call_ok calls ->
  exists T', builds (fst (brun b acc calls)) T' /\ total_ms T' = snd (brun b acc calls) /\
             st_scale T' = st_scale T /\ st_use_yaw T' = st_use_yaw T /\
             bb_scale (fst (brun b acc calls)) = bb_scale b.
Proof.
  induction calls as [|c r IH]; intros b T acc Hsc Hb Hacc Hok.
  - cbn [brun]. exists T. cbn [fst snd]. split; [exact Hb|]. split; [exact Hacc|]. split; [reflexivity|]. split; reflexivity.
  - inversion Hok as [|c' r' Hc Hr]; subst c' r'.
    destruct c as [p|p d|d].
    + change (brun b acc (CStart p :: r))
        with (match set_start_position b p with Ok b' => brun b' (acc + 0) r | _ => brun b acc r end).
      destruct (set_start_position b p) as [b'| | |] eqn:Es; try (apply IH; assumption).
      destruct (set_start_builds b T p b' Hsc Hb Es) as (T' & B & L & S & N & S2 & U2 & M).
      rewrite <- S in Hsc.
      assert (Hacc' : total_ms T' = acc + 0) by lia.
      destruct (IH b' T' (acc + 0) Hsc B Hacc' Hr) as (T2 & B2 & M2 & S3 & U3 & S4).
      exists T2. split; [exact B2|]. split; [exact M2|]. split; [congruence|]. split; [congruence|congruence].
    + change (brun b acc (CLine p d :: r))
        with (match append_line b p d with Ok b' => brun b' (acc + d) r | _ => brun b acc r end).
      destruct (append_line b p d) as [b'| | |] eqn:Es; try (apply IH; assumption).
      assert (Hd0 : 0 <= d) by (exact (proj1 Hc)).
      destruct (append_line_builds b T p d b' Hsc Hd0 Hb Es) as (T' & B & L & S & (X1 & X2 & X3 & X4 & X5)).
      rewrite <- S in Hsc.
      assert (Hacc' : total_ms T' = acc + d) by lia.
      destruct (IH b' T' (acc + d) Hsc B Hacc' Hr) as (T2 & B2 & M2 & S3 & U3 & S4).
      exists T2. split; [exact B2|]. split; [exact M2|]. split; [congruence|]. split; [congruence|congruence].
    + change (brun b acc (CHold d :: r))
        with (match hold_position_for b d with Ok b' => brun b' (acc + Z.max d 0) r | _ => brun b acc r end).
      destruct (hold_position_for b d) as [b'| | |] eqn:Es; try (apply IH; assumption).
      destruct (hold_builds b T d b' Hsc Hb Es) as (T' & B & L & S & (X1 & X2 & X3 & X4 & X5)).
      rewrite <- S in Hsc.
      assert (Hacc' : total_ms T' = acc + Z.max d 0) by lia.
      destruct (IH b' T' (acc + Z.max d 0) Hsc B Hacc' Hr) as (T2 & B2 & M2 & S3 & U3 & S4).
      exists T2. split; [exact B2|]. split; [exact M2|]. split; [congruence|]. split; [congruence|congruence].
Qed.

Theorem builder_refines_spec : forall scale flags b0 calls,
  0 <= scale -> builder_init scale flags = Ok b0 -> Forall call_ok calls ->
  exists T, builds (fst (brun b0 0 calls)) T /\ total_ms T = snd (brun b0 0 calls) /\ st_scale T = scale.
Proof.
  intros scale flags b0 calls H0 Hi Hok.
  destruct (builder_init_builds scale flags b0 Hi H0) as (Hsc & Hs & Hb).
  destruct (brun_builds calls b0 _ 0 Hsc Hb eq_refl Hok) as (T & B & M & S & _).
  exists T. split; [exact B|]. split; [exact M|]. exact S.
Qed.

(** a straight-line segment: the Bezier curve of two control points *)
Lemma bezier_two (a c u : Q) : (bezier QOps [a; c] u == a + (c - a) * u)%Q.
Proof.
  unfold bezier. cbn [length dc dc_step]. unfold lerp. cbn [QOps add mul sub one].
  rewrite !Qred_correct. ring.
Qed.

Example builder_refines_example :
  let calls := [CStart (mkvec4 (100 # 1) (-(55 # 1)) (7 # 2) (725 # 2));
                CLine (mkvec4 (2000 # 1) (0 # 1) (505 # 1) (90 # 1)) 150001;
                CLine (mkvec4 (400000 # 1) (0 # 1) (0 # 1) (0 # 1)) 1000;
                CHold 61000] in
  Forall call_ok calls /\
  match builder_init 10 0 with
  | Ok b0 => snd (brun b0 0 calls) = 211001 /\
             length (bb_bytes (fst (brun b0 0 calls))) = (9 + 4 * 11 + 2 * 3)%nat
  | _ => False
  end.
Proof.
  intros calls. split.
  - unfold calls. repeat constructor; cbn [call_ok]; lia.
  - vm_compute. split; reflexivity.
Qed.

(* ------------------------------------------------------------------ *)
(** * the RTH conversion *)
Theorem conversion_refines_spec : forall e start bytes,
  rth_to_trajectory e start = Ok bytes ->
  exists T, bytes = encode_traj T /\ wf_straj T = true /\ Forall linear_seg (st_segs T) /\
            close_to (st_scale T) (end_of T) (rth_final_target e start).
Proof.
  intros e start bytes H. unfold rth_to_trajectory in H. cbv zeta in H. unfold fnum_add in H.
  apply BP.bind_ok in H. destruct H as (s1 & Hs1 & H).
  apply BP.bind_ok in H. destruct H as (s2 & Hs2 & H).
  apply BP.bind_ok in H. destruct H as (s3 & Hs3 & H).
  apply BP.bind_ok in H. destruct H as (s4 & Hs4 & H).
  apply BP.bind_ok in H. destruct H as (d0 & Hd0 & H).
  apply BP.bind_ok in H. destruct H as (b0 & Hb0 & H).
  apply BP.bind_ok in H. destruct H as (b1 & Hb1 & H).
  apply BP.bind_ok in H. destruct H as (b2 & Hb2 & H).
  apply BP.bind_ok in H. destruct H as ([b3 tgt] & Hb3 & H).
  apply BP.bind_ok in H. destruct H as (b4 & Hb4 & H).
  apply BP.bind_ok in H. destruct H as (b5 & Hb5 & H).
  injection H as <-. unfold finish. cbn [fst].
  assert (P1 : 0 <= s1) by (eapply BP.scale_update_nonneg; [|exact Hs1]; lia).
  assert (P2 : 0 <= s2) by (eapply BP.opt_scale_nonneg; [|exact Hs2]; exact P1).
  assert (P3 : 0 <= s3) by (eapply BP.opt_scale_nonneg; [|exact Hs3]; exact P2).
  assert (P4 : 0 <= s4) by (eapply BP.opt_scale_nonneg; [|exact Hs4]; exact P3).
  destruct (builder_init_builds _ _ _ Hb0 P4) as (Hsc0 & Hs0 & B0).
  destruct (set_start_builds _ _ _ _ Hsc0 B0 Hb1) as (T1 & B1 & L1 & S1 & _).
  assert (Hsc1 : 0 < bb_scale b1 < 128) by (rewrite S1; exact Hsc0).
  destruct (hold_builds _ _ _ _ Hsc1 B1 Hb2) as (T2 & B2 & L2 & S2 & _).
  assert (Hsc2 : 0 < bb_scale b2 < 128) by (rewrite S2; exact Hsc1).
  (* neck *)
  assert (Hn : exists T3, builds b3 T3 /\ bb_last b3 = rth_neck_target e start /\ bb_scale b3 = bb_scale b2 /\
                          tgt = rth_neck_target e start).
  { unfold rth_neck_target.
    destruct (negb (Qeq_bool (re_neck e) 0) || fnonzero (re_neck_duration e)).
    - apply BP.bind_ok in Hb3. destruct Hb3 as (dn & Hdn & Hb3).
      apply BP.bind_ok in Hb3. destruct Hb3 as (b' & Hb' & Hb3). injection Hb3 as -> <-.
      pose proof (BP.msec_of_sec_nonneg _ _ Hdn) as Nn.
      destruct (append_line_builds _ _ _ _ _ Hsc2 Nn B2 Hb') as (T3 & B3 & L3 & S3 & _).
      exists T3. split; [exact B3|]. split; [exact L3|]. split; [exact S3|reflexivity].
    - injection Hb3 as <- <-. exists T2. split; [exact B2|]. split; [congruence|]. split; reflexivity. }
  destruct Hn as (T3 & B3 & L3 & S3 & ->).
  assert (Hsc3 : 0 < bb_scale b3 < 128) by (rewrite S3; exact Hsc2).
  (* action *)
  assert (Ha : exists T4, builds b4 T4 /\ bb_last b4 = rth_final_target e start /\ bb_scale b4 = bb_scale b3).
  { unfold rth_final_target. cbv zeta.
    destruct (re_action e =? SB_RTH_ACTION_LAND).
    - injection Hb4 as <-. exists T3. split; [exact B3|]. split; [exact L3|reflexivity].
    - destruct (re_action e =? SB_RTH_ACTION_GO_TO_KEEPING_ALTITUDE).
      + apply BP.bind_ok in Hb4. destruct Hb4 as (d & Hd & Hb4).
        pose proof (BP.msec_of_sec_nonneg _ _ Hd) as Nd.
        destruct (append_line_builds _ _ _ _ _ Hsc3 Nd B3 Hb4) as (T4 & B4 & L4 & S4 & _).
        exists T4. split; [exact B4|]. split; [exact L4|exact S4].
      + destruct (re_action e =? SB_RTH_ACTION_GO_TO_WITH_ALTITUDE); [|discriminate Hb4].
        apply BP.bind_ok in Hb4. destruct Hb4 as (d & Hd & Hb4).
        pose proof (BP.msec_of_sec_nonneg _ _ Hd) as Nd.
        destruct (append_line_builds _ _ _ _ _ Hsc3 Nd B3 Hb4) as (T4 & B4 & L4 & S4 & _).
        exists T4. split; [exact B4|]. split; [exact L4|exact S4]. }
  destruct Ha as (T4 & B4 & L4 & S4).
  assert (Hsc4 : 0 < bb_scale b4 < 128) by (rewrite S4; exact Hsc3).
  (* post-delay *)
  assert (Hp : exists T5, builds b5 T5 /\ bb_last b5 = rth_final_target e start).
  { destruct (fgt0 (re_post_delay e)).
    - apply BP.bind_ok in Hb5. destruct Hb5 as (d & Hd & Hb5).
      destruct (hold_builds _ _ _ _ Hsc4 B4 Hb5) as (T5 & B5 & L5 & S5 & _).
      exists T5. split; [exact B5|congruence].
    - injection Hb5 as <-. exists T4. split; assumption. }
  destruct Hp as (T5 & (E5 & W5 & Sc5 & Lin5 & C5) & L5).
  exists T5. split; [exact E5|]. split; [exact W5|]. split; [exact Lin5|].
  rewrite Sc5, <- L5. exact C5.
Qed.
