(** Proofs for C16 (trajectory builder) and C12 (RTH entry -> trajectory).
    Statements are used verbatim by Props/Properties_C16.v and
    Props/Properties_C12.v. *)
From Coq Require Import ZArith QArith Qround Qabs List Lia ZifyBool Lqa.
From SB Require Import Base.Prelude Base.Num Base.F32 Gen.Generated Model.Codec Model.Traj Model.Utils
  Model.Rth Model.Builder Spec.TrajSpec Proofs.Traj_Proofs.
Import ListNotations.
Local Open Scope Z_scope.

Ltac Zify.zify_post_hook ::= Z.div_mod_to_equations.

(* ------------------------------------------------------------------ *)
(** * Definitions shared with the Props files (identical copies) *)
Definition builder_wf (b : builder) : Prop :=
  0 < bb_scale b < 128 /\
  exists tr segs, traj_init (bb_bytes b) = Ok tr /\ t_scale tr = bb_scale b /\ segments tr = Ok segs.

Definition builder_duration_of (b : builder) : res Z :=
  tr <- traj_init (bb_bytes b) ;; total_duration_msec tr.

Definition phase_ms (e : rth_entry) : res (Z * Z * Z * Z) :=
  let start_time := match re_time e with
                    | FVal q => if Qltb q 0 then FVal 0%Q else FVal q
                    | FInf true => FVal 0%Q
                    | x => x
                    end in
  d0 <- msec_of_sec (fn_add start_time (if fgt0 (re_pre_delay e) then re_pre_delay e else FVal 0%Q)) ;;
  dn <- (if negb (Qeq_bool (re_neck e) 0) || fnonzero (re_neck_duration e) then msec_of_sec (re_neck_duration e) else Ok 0) ;;
  da <- (if has_target (re_action e) then msec_of_sec (re_duration e) else Ok 0) ;;
  dp <- (if fgt0 (re_post_delay e) then msec_of_sec (re_post_delay e) else Ok 0) ;;
  Ok (d0, dn, da, dp).

(* ------------------------------------------------------------------ *)
(** * Non-vacuity examples *)
Example builder_example :
  match builder_init 10 0 with
  | Ok b0 =>
    match set_start_position b0 (mkvec4 (100 # 1) (-(55 # 1)) (7 # 2) (725 # 2)) with
    | Ok b1 =>
      match append_line b1 (mkvec4 (2000 # 1) (0 # 1) (505 # 1) (90 # 1)) 150001 with
      | Ok b2 => builder_duration_of b2 = Ok 150001 /\ length (bb_bytes b2) = (9 + 11 + 11 + 11 + 11)%nat
      | _ => False
      end
    | _ => False
    end
  | _ => False
  end.
Proof. vm_compute. repeat split; reflexivity. Qed.

Example conversion_example :
  let e := mkrthe (FVal (5 # 1)) SB_RTH_ACTION_GO_TO_WITH_ALTITUDE (FVal (70 # 1)) ((40000 # 1)%Q, (- (1000 # 1))%Q) (3000 # 1)
                  (FVal (2 # 1)) (FVal (3 # 1)) (500 # 1) (FVal (4 # 1)) in
  match rth_to_trajectory e (mkvec4 (10 # 1) (20 # 1) (1000 # 1) (0 # 1)) with
  | Ok bytes => match traj_init bytes with
                | Ok tr => total_duration_msec tr = Ok (7000 + 4000 + 70000 + 3000) /\ t_scale tr = 2
                | _ => False
                end
  | _ => False
  end.
Proof. vm_compute. repeat split; reflexivity. Qed.

(* ------------------------------------------------------------------ *)
(** * The res monad *)
Lemma bind_ok {A B} (r : res A) (k : A -> res B) v :
  bind r k = Ok v -> exists a, r = Ok a /\ k a = Ok v.
Proof. destruct r; cbn [bind]; intros H; try discriminate H. eauto. Qed.

Lemma bind_not_fuel {A B} (r : res A) (k : A -> res B) :
  r <> Fuel -> (forall a, k a <> Fuel) -> bind r k <> Fuel.
Proof. destruct r; cbn [bind]; intros H1 H2; auto; discriminate. Qed.

(* ------------------------------------------------------------------ *)
(** * Decoding is stable under appending bytes *)
Lemma take_i16_app X : forall n r vs r',
  take_i16 n r = Some (vs, r') ->
  take_i16 n (r ++ X) = Some (vs, r' ++ X) /\ length r = (2 * n + length r')%nat.
Proof.
  induction n as [|n IH]; intros r vs r' H.
  - cbn [take_i16] in *. injection H as <- <-. split; [reflexivity|lia].
  - cbn [take_i16] in H. destruct r as [|b0 [|b1 r]]; try discriminate H.
    destruct (take_i16 n r) as [[vs0 r0]|] eqn:E; try discriminate H.
    injection H as <- <-.
    destruct (IH _ _ _ E) as [H1 H2].
    cbn [app take_i16]. rewrite H1. split; [reflexivity|]. cbn [length]. lia.
Qed.

Lemma decode_app scale st rest X s rest' :
  decode_segment scale st rest = Ok (Some (s, rest')) ->
  decode_segment scale st (rest ++ X) = Ok (Some (s, rest' ++ X)) /\ (length rest' < length rest)%nat.
Proof.
  unfold decode_segment. rewrite ?shorter_length. destruct rest as [|h r0]; [discriminate|]. rewrite ?shorter_length.
  cbn [app]. destruct (scale =? 0); [discriminate|]. cbv zeta. rewrite ?shorter_length.
  set (nx := (num_coords h - 1)%nat). set (ny := (num_coords (Z.shiftr h 2) - 1)%nat).
  set (nz := (num_coords (Z.shiftr h 4) - 1)%nat). set (nw := (num_coords (Z.shiftr h 6) - 1)%nat).
  destruct (length r0 <? 2 + 2 * (nx + ny + nz + nw))%nat eqn:El; [discriminate|].
  destruct (length (r0 ++ X) <? 2 + 2 * (nx + ny + nz + nw))%nat eqn:El'.
  { rewrite app_length in El'. lia. }
  destruct r0 as [|d0 [|d1 r1]]; try discriminate. cbn [app].
  destruct (take_i16 nx r1) as [[xs r2]|] eqn:E1; try discriminate.
  destruct (take_i16 ny r2) as [[ys r3]|] eqn:E2; try discriminate.
  destruct (take_i16 nz r3) as [[zs r4]|] eqn:E3; try discriminate.
  destruct (take_i16 nw r4) as [[ws r5]|] eqn:E4; try discriminate.
  intros H. injection H as <- <-.
  destruct (take_i16_app X _ _ _ _ E1) as [A1 L1]. destruct (take_i16_app X _ _ _ _ E2) as [A2 L2].
  destruct (take_i16_app X _ _ _ _ E3) as [A3 L3]. destruct (take_i16_app X _ _ _ _ E4) as [A4 L4].
  rewrite A1, A2, A3, A4. split; [reflexivity|]. cbn [length]. lia.
Qed.

(** a chain of segments that decodes exactly to the end of the bytes *)
Inductive dec (scale : Z) : vec4 -> list Z -> list segment -> Prop :=
| dec_nil st : dec scale st [] []
| dec_cons st rest s rest' segs :
    decode_segment scale st rest = Ok (Some (s, rest')) ->
    dec scale (seg_end s st) rest' segs -> dec scale st rest (s :: segs).

Definition dsum (segs : list segment) (acc : Z) : Z := fold_left (fun a s => u32 (a + sg_dur s)) segs acc.

Lemma dsum_app l1 l2 acc : dsum (l1 ++ l2) acc = dsum l2 (dsum l1 acc).
Proof. unfold dsum. apply fold_left_app. Qed.

Lemma dsum_range : forall segs acc, 0 <= acc < 4294967296 -> 0 <= dsum segs acc < 4294967296.
Proof.
  induction segs as [|s segs IH]; intros acc H; [exact H|].
  unfold dsum in *. cbn [fold_left]. apply IH. unfold u32. lia.
Qed.

Lemma tdf_dec tr : forall st rest segs, dec (t_scale tr) st rest segs ->
  forall fuel c acc, c_start c = st -> c_rest c = rest -> (length rest < fuel)%nat ->
  total_duration_from fuel tr c acc = Ok (dsum segs acc).
Proof.
  intros st rest segs H. induction H as [st|st rest s rest' segs Hd Hr IH]; intros fuel c acc Hs Hc Hf.
  - destruct fuel as [|f]; [lia|]. cbn [total_duration_from]. rewrite Hc. reflexivity.
  - destruct fuel as [|f]; [lia|]. cbn [total_duration_from]. rewrite Hs, Hc, Hd. cbn [bind].
    destruct (decode_app _ _ _ [] _ _ Hd) as [_ Hl].
    rewrite (IH f _ (u32 (acc + sg_dur s))).
    + reflexivity.
    + cbn [next_cursor c_start]. rewrite Hs. reflexivity.
    + reflexivity.
    + lia.
Qed.

Lemma sf_dec tr : forall st rest segs, dec (t_scale tr) st rest segs ->
  forall fuel c, c_start c = st -> c_rest c = rest -> (length rest < fuel)%nat ->
  exists l, segments_from fuel tr c = Ok l.
Proof.
  intros st rest segs H. induction H as [st|st rest s rest' segs Hd Hr IH]; intros fuel c Hs Hc Hf.
  - destruct fuel as [|f]; [lia|]. cbn [segments_from]. rewrite Hc. cbn [decode_segment bind]. eauto.
  - destruct fuel as [|f]; [lia|]. cbn [segments_from]. rewrite Hs, Hc, Hd. cbn [bind].
    destruct (decode_app _ _ _ [] _ _ Hd) as [_ Hl].
    destruct (IH f (next_cursor c s rest')) as [l Hl'].
    + cbn [next_cursor c_start]. rewrite Hs. reflexivity.
    + reflexivity.
    + lia.
    + rewrite Hl'. cbn [bind]. eauto.
Qed.

Lemma dec_of_sf tr : t_scale tr <> 0 -> forall fuel c l,
  segments_from fuel tr c = Ok l -> exists segs, dec (t_scale tr) (c_start c) (c_rest c) segs.
Proof.
  intros Hsc. induction fuel as [|f IH]; intros c l H; [discriminate H|].
  cbn [segments_from] in H.
  destruct (decode_segment (t_scale tr) (c_start c) (c_rest c)) as [[[s rest']|]| | |] eqn:Ed;
    cbn [bind] in H; try discriminate H.
  - destruct (segments_from f tr (next_cursor c s rest')) as [r| | |] eqn:Er; cbn [bind] in H; try discriminate H.
    destruct (IH _ _ Er) as [segs Hsegs]. cbn [next_cursor c_start c_rest] in Hsegs.
    exists (s :: segs). eapply dec_cons; eassumption.
  - exists []. unfold decode_segment in Ed.
    destruct (c_rest c) as [|h r0]; [constructor|].
    destruct (t_scale tr =? 0) eqn:E0; [lia|]. exfalso. cbv zeta in Ed. rewrite ?shorter_length in Ed.
    destruct (length r0 <? _)%nat; [discriminate Ed|].
    destruct r0 as [|d0 [|d1 r1]]; try discriminate Ed.
    destruct (take_i16 _ r1) as [[xs r2]|]; try discriminate Ed.
    destruct (take_i16 _ r2) as [[ys r3]|]; try discriminate Ed.
    destruct (take_i16 _ r3) as [[zs r4]|]; try discriminate Ed.
    destruct (take_i16 _ r4) as [[ws r5]|]; discriminate Ed.
Qed.

(* ------------------------------------------------------------------ *)
(** * Well-formed builders *)
Lemma traj_init_inv B tr : traj_init B = Ok tr ->
  t_bytes tr = B /\ (9 <= length B)%nat /\
  forall X, traj_init (B ++ X) = Ok (mktraj (B ++ X) (t_scale tr) (t_use_yaw tr) (t_start tr)) /\
            skipn 9 (B ++ X) = skipn 9 B ++ X.
Proof.
  destruct B as [|b0 [|x0 [|x1 [|y0 [|y1 [|z0 [|z1 [|w0 [|w1 tl]]]]]]]]]; try discriminate.
  cbn [traj_init]. intros H. injection H as <-. cbn [t_bytes t_scale t_use_yaw t_start].
  split; [reflexivity|]. split; [cbn [length]; lia|].
  intros X. cbn [app traj_init skipn]. split; reflexivity.
Qed.

(** what well-formedness and the duration mean in terms of [dec] *)
Lemma wf_dec b : builder_wf b ->
  exists tr segs, traj_init (bb_bytes b) = Ok tr /\ t_scale tr = bb_scale b /\
    dec (t_scale tr) (t_start tr) (skipn 9 (bb_bytes b)) segs /\
    builder_duration_of b = Ok (dsum segs 0).
Proof.
  intros (Hsc & tr & l & Hi & Hs & Hl).
  destruct (traj_init_inv _ _ Hi) as (Hb & Hlen & _).
  unfold segments in Hl.
  assert (Hnz : t_scale tr <> 0) by lia.
  destruct (dec_of_sf tr Hnz _ _ _ Hl) as [segs Hd].
  unfold cursor0 in Hd. cbn [c_start c_rest] in Hd. rewrite Hb in Hd.
  change traj_header_length with 9%nat in Hd.
  exists tr, segs. split; [exact Hi|]. split; [exact Hs|]. split; [exact Hd|].
  unfold builder_duration_of. rewrite Hi. cbn [bind]. unfold total_duration_msec.
  apply (tdf_dec tr _ _ _ Hd).
  - reflexivity.
  - unfold cursor0. cbn [c_rest]. rewrite Hb. reflexivity.
  - rewrite Hb. pose proof (skipn_length_le 9 (bb_bytes b)). lia.
Qed.

Lemma dec_wf b tr segs : 0 < bb_scale b < 128 ->
  traj_init (bb_bytes b) = Ok tr -> t_scale tr = bb_scale b ->
  dec (t_scale tr) (t_start tr) (skipn 9 (bb_bytes b)) segs ->
  builder_wf b /\ builder_duration_of b = Ok (dsum segs 0).
Proof.
  intros Hsc Hi Hs Hd.
  destruct (traj_init_inv _ _ Hi) as (Hb & Hlen & _).
  assert (Hf : (length (skipn 9 (bb_bytes b)) < S (length (t_bytes tr)))%nat).
  { rewrite Hb. pose proof (skipn_length_le 9 (bb_bytes b)). lia. }
  split.
  - split; [exact Hsc|].
    destruct (sf_dec tr _ _ _ Hd (S (length (t_bytes tr))) (cursor0 tr)) as [l Hl].
    + reflexivity.
    + unfold cursor0. cbn [c_rest]. rewrite Hb. reflexivity.
    + exact Hf.
    + exists tr, l. split; [exact Hi|]. split; [exact Hs|]. exact Hl.
  - unfold builder_duration_of. rewrite Hi. cbn [bind]. unfold total_duration_msec.
    apply (tdf_dec tr _ _ _ Hd).
    + reflexivity.
    + unfold cursor0. cbn [c_rest]. rewrite Hb. reflexivity.
    + exact Hf.
Qed.

Lemma duration_range b D : builder_wf b -> builder_duration_of b = Ok D -> 0 <= D < 4294967296.
Proof.
  intros Hwf HD. destruct (wf_dec b Hwf) as (tr & segs & _ & _ & _ & HD').
  rewrite HD' in HD. injection HD as <-. apply dsum_range. lia.
Qed.

(** appending one whole segment *)
Lemma wf_append b X d last D :
  builder_wf b -> builder_duration_of b = Ok D ->
  (forall st, exists sg, decode_segment (bb_scale b) st X = Ok (Some (sg, [])) /\ sg_dur sg = d) ->
  let b' := mkbuilder (bb_bytes b ++ X) last (bb_scale b) in
  builder_wf b' /\ builder_duration_of b' = Ok ((D + d) mod 4294967296).
Proof.
  intros Hwf HD HX b'.
  destruct (wf_dec b Hwf) as (tr & segs & Hi & Hs & Hd & HD').
  rewrite HD' in HD. injection HD as <-.
  destruct (traj_init_inv _ _ Hi) as (Hb & Hlen & Happ).
  destruct (Happ X) as [Hi' Hsk].
  destruct (HX (t_start tr)) as (sg0 & _ & _).
  (* the new segment, decoded from wherever the chain ends *)
  assert (Hdec' : exists sg, sg_dur sg = d /\
            dec (t_scale tr) (t_start tr) (skipn 9 (bb_bytes b) ++ X) (segs ++ [sg])).
  { clear HD' Hsk Hi' Happ sg0. rewrite <- Hs in HX. revert Hd.
    generalize (t_start tr) (skipn 9 (bb_bytes b)). intros st rest Hd.
    induction Hd as [st|st rest s rest' segs Hdd Hr IH].
    - destruct (HX st) as (sg & Hsg & Hdur). exists sg. split; [exact Hdur|].
      cbn [app]. eapply dec_cons; [exact Hsg|constructor].
    - destruct IH as (sg & Hdur & IH). exists sg. split; [exact Hdur|].
      cbn [app]. eapply dec_cons; [apply decode_app; exact Hdd|exact IH]. }
  destruct Hdec' as (sg & Hdur & Hdec').
  destruct Hwf as [Hsc _].
  destruct (dec_wf b' (mktraj (bb_bytes b ++ X) (t_scale tr) (t_use_yaw tr) (t_start tr)) (segs ++ [sg]))
    as [W Du].
  - exact Hsc.
  - exact Hi'.
  - exact Hs.
  - cbn [t_scale t_start bb_bytes b']. rewrite Hsk. exact Hdec'.
  - split; [exact W|]. rewrite Du. rewrite dsum_app. unfold dsum at 1. cbn [fold_left].
    rewrite Hdur. reflexivity.
Qed.

(* ------------------------------------------------------------------ *)
(** * The segments the builder writes *)
Definition bseg (cx cy cz cw : bool) (dur x y z w : Z) : list Z :=
  ((if cx then 1 else 0) + (if cy then 4 else 0) + (if cz then 16 else 0) + (if cw then 64 else 0))
  :: e16 dur
  ++ (if cx then e16 x else []) ++ (if cy then e16 y else [])
  ++ (if cz then e16 z else []) ++ (if cw then e16 w else []).

(** the int16 with the same two bytes *)
Definition n16 (v : Z) : Z := sx16 (v mod 65536).

Lemma n16_i16b v : i16b (n16 v) = true.
Proof. unfold n16, sx16, i16b. destruct (v mod 65536 <? 32768) eqn:E; lia. Qed.

Lemma e16_n16 v : e16 (n16 v) = e16 v.
Proof.
  unfold e16. cbv zeta.
  assert (H : n16 v mod 65536 = v mod 65536).
  { unfold n16, sx16. destruct (v mod 65536 <? 32768) eqn:E; lia. }
  rewrite H. reflexivity.
Qed.

Definition opt16 (c : bool) (v : Z) : list Z := if c then [n16 v] else [].

Lemma opt16_enc c v : flat_map e16 (opt16 c v) = if c then e16 v else [].
Proof. destruct c; cbn [opt16 flat_map app]; [rewrite e16_n16; reflexivity|reflexivity]. Qed.

Lemma opt16_i16b c v : forallb i16b (opt16 c v) = true.
Proof. destruct c; cbn [opt16 forallb]; [rewrite n16_i16b|]; reflexivity. Qed.

Lemma hdr_coords (cx cy cz cw : bool) vx' vy' vz' vw' :
  let h := (if cx then 1 else 0) + (if cy then 4 else 0) + (if cz then 16 else 0) + (if cw then 64 else 0) in
  (num_coords h - 1 = length (opt16 cx vx'))%nat /\
  (num_coords (Z.shiftr h 2) - 1 = length (opt16 cy vy'))%nat /\
  (num_coords (Z.shiftr h 4) - 1 = length (opt16 cz vz'))%nat /\
  (num_coords (Z.shiftr h 6) - 1 = length (opt16 cw vw'))%nat.
Proof. destruct cx, cy, cz, cw; vm_compute; repeat split; reflexivity. Qed.

Lemma decode_bseg scale st cx cy cz cw dur x y z w :
  scale <> 0 -> 0 <= dur < 65536 ->
  exists sg, decode_segment scale st (bseg cx cy cz cw dur x y z w) = Ok (Some (sg, [])) /\ sg_dur sg = dur.
Proof.
  intros Hs Hd.
  destruct (hdr_coords cx cy cz cw x y z w) as (H0 & H1 & H2 & H3).
  unfold bseg. rewrite <- (opt16_enc cx x), <- (opt16_enc cy y), <- (opt16_enc cz z), <- (opt16_enc cw w).
  unfold e16 at 1. cbn [app].
  rewrite <- (app_nil_r (flat_map e16 (opt16 cw w))).
  rewrite decode_segment_gen; try assumption; try apply opt16_i16b.
  eexists. split; [reflexivity|]. cbn [sg_dur].
  rewrite le16_split by (apply Z.mod_pos_bound; lia).
  apply Z.mod_small. lia.
Qed.

(* ------------------------------------------------------------------ *)
(** * scale_coordinate, validate_point *)
Lemma scale_coordinate_cases s c :
  (exists v, scale_coordinate s c = Ok v /\ -32768 <= v <= 32767) \/ scale_coordinate s c = Err SB_EINVAL.
Proof.
  unfold scale_coordinate. cbv zeta.
  destruct ((ffloor (fdiv c (inject_Z s)) <? -32768) || (32767 <? ffloor (fdiv c (inject_Z s)))) eqn:E.
  - right. reflexivity.
  - left. eexists. split; [reflexivity|]. lia.
Qed.

Lemma validate_cases s p :
  (validate_point s p = Ok tt /\ exists x y z,
     scale_coordinate s (vx p) = Ok x /\ scale_coordinate s (vy p) = Ok y /\ scale_coordinate s (vz p) = Ok z) \/
  validate_point s p = Err SB_EINVAL.
Proof.
  unfold validate_point.
  destruct (scale_coordinate_cases s (vx p)) as [(x & Hx & _)|Hx]; rewrite Hx; cbn [bind]; [|right; reflexivity].
  destruct (scale_coordinate_cases s (vy p)) as [(y & Hy & _)|Hy]; rewrite Hy; cbn [bind]; [|right; reflexivity].
  destruct (scale_coordinate_cases s (vz p)) as [(z & Hz & _)|Hz]; rewrite Hz; cbn [bind]; [|right; reflexivity].
  left. split; [reflexivity|]. exists x, y, z. auto.
Qed.

(* ------------------------------------------------------------------ *)
(** * append_segment *)
Definition chg (a c : Q) : bool := negb (Qeq_bool a c).

Lemma append_segment_inv b target dur b' : append_segment b target dur = Ok b' ->
  exists x y z,
    b' = mkbuilder (bb_bytes b ++ bseg (chg (vx (bb_last b)) (vx target)) (chg (vy (bb_last b)) (vy target))
                                      (chg (vz (bb_last b)) (vz target)) (chg (vyaw (bb_last b)) (vyaw target))
                                      dur x y z (scale_angle (vyaw target)))
                   target (bb_scale b).
Proof.
  unfold append_segment. cbv beta zeta.
  fold (chg (vx (bb_last b)) (vx target)) (chg (vy (bb_last b)) (vy target))
       (chg (vz (bb_last b)) (vz target)) (chg (vyaw (bb_last b)) (vyaw target)).
  intros H.
  apply bind_ok in H. destruct H as (x & _ & H).
  apply bind_ok in H. destruct H as (y & _ & H).
  apply bind_ok in H. destruct H as (z & _ & H).
  injection H as <-. exists x, y, z. reflexivity.
Qed.

Lemma append_segment_succeeds b target dur :
  validate_point (bb_scale b) target = Ok tt -> exists b', append_segment b target dur = Ok b'.
Proof.
  intros Hv. destruct (validate_cases (bb_scale b) target) as [(_ & x & y & z & Hx & Hy & Hz)|He];
    [|rewrite He in Hv; discriminate Hv].
  unfold append_segment. cbv beta zeta. rewrite Hx, Hy, Hz.
  destruct (negb (Qeq_bool (vx (bb_last b)) (vx target)));
  destruct (negb (Qeq_bool (vy (bb_last b)) (vy target)));
  destruct (negb (Qeq_bool (vz (bb_last b)) (vz target))); cbn [bind]; eauto.
Qed.

Lemma append_segment_not_fuel b target dur : append_segment b target dur <> Fuel.
Proof.
  unfold append_segment. cbv beta zeta.
  destruct (scale_coordinate_cases (bb_scale b) (vx target)) as [(x & Hx & _)|Hx]; rewrite Hx;
  destruct (scale_coordinate_cases (bb_scale b) (vy target)) as [(y & Hy & _)|Hy]; rewrite Hy;
  destruct (scale_coordinate_cases (bb_scale b) (vz target)) as [(z & Hz & _)|Hz]; rewrite Hz;
  destruct (negb (Qeq_bool (vx (bb_last b)) (vx target)));
  destruct (negb (Qeq_bool (vy (bb_last b)) (vy target)));
  destruct (negb (Qeq_bool (vz (bb_last b)) (vz target))); cbn [bind]; discriminate.
Qed.

Lemma append_segment_ok b target dur b' D :
  builder_wf b -> 0 <= dur < 65536 -> builder_duration_of b = Ok D ->
  append_segment b target dur = Ok b' ->
  builder_wf b' /\ builder_duration_of b' = Ok ((D + dur) mod 4294967296) /\
  bb_last b' = target /\ bb_scale b' = bb_scale b.
Proof.
  intros Hwf Hd HD H. apply append_segment_inv in H. destruct H as (x & y & z & ->).
  cbn [bb_last bb_scale].
  match goal with |- builder_wf (mkbuilder (_ ++ ?X) _ _) /\ _ =>
    destruct (wf_append b X dur target D Hwf HD) as [W Du] end.
  - intros st. apply decode_bseg; [destruct Hwf; lia|exact Hd].
  - split; [exact W|]. split; [exact Du|]. split; reflexivity.
Qed.

(* ------------------------------------------------------------------ *)
(** * append_line *)
Lemma append_line_rec_ok : forall fuel b target dur b' D,
  builder_wf b -> 0 <= dur -> builder_duration_of b = Ok D ->
  append_line_rec fuel b target dur = Ok b' ->
  builder_wf b' /\ builder_duration_of b' = Ok ((D + dur) mod 4294967296) /\
  bb_last b' = target /\ bb_scale b' = bb_scale b.
Proof.
  induction fuel as [|f IH]; intros b target dur b' D Hwf Hd HD H; cbn [append_line_rec] in H;
    apply bind_ok in H; destruct H as (u & _ & H); unfold BUILDER_MAX_DURATION_MSEC in H;
    destruct (60000 <? dur) eqn:E.
  - discriminate H.
  - eapply append_segment_ok; try eassumption. lia.
  - apply bind_ok in H. destruct H as (b1 & H1 & H2).
    rewrite Z.shiftr_div_pow2 in H1, H2 by lia. change (2 ^ 1) with 2 in H1, H2.
    assert (Hh1 : 0 <= dur / 2) by lia. assert (Hh2 : 0 <= dur - dur / 2) by lia.
    destruct (IH _ _ _ _ _ Hwf Hh1 HD H1) as (W1 & D1 & L1 & S1).
    destruct (IH _ _ _ _ _ W1 Hh2 D1 H2) as (W2 & D2 & L2 & S2).
    split; [exact W2|]. split; [|split; [exact L2|congruence]].
    rewrite D2. f_equal. rewrite Zplus_mod_idemp_l. f_equal. lia.
  - eapply append_segment_ok; try eassumption. lia.
Qed.

Lemma append_line_eq b target dur : append_line b target dur = append_line_rec 40 b target dur.
Proof. unfold append_line. reflexivity. Qed.

Lemma append_line_rec_S f b target dur : append_line_rec (S f) b target dur =
  bind (validate_point (bb_scale b) target) (fun _ =>
    if BUILDER_MAX_DURATION_MSEC <? dur then
      (let half := Z.shiftr dur 1 in
       let last := bb_last b in
       let mid := mkvec4 (fmid (vx last) (vx target)) (fmid (vy last) (vy target))
                         (fmid (vz last) (vz target)) (fmid (vyaw last) (vyaw target)) in
       b1 <- append_line_rec f b mid half ;; append_line_rec f b1 target (dur - half))
    else append_segment b target dur).
Proof. reflexivity. Qed.

Theorem append_line_duration : forall b target dur b' D,
  builder_wf b -> 0 <= dur < 4294967296 -> builder_duration_of b = Ok D ->
  append_line b target dur = Ok b' ->
  builder_wf b' /\ builder_duration_of b' = Ok ((D + dur) mod 4294967296) /\
  bb_last b' = target /\ bb_scale b' = bb_scale b.
Proof.
  intros b target dur b' D Hwf Hd HD H.
  assert (Hd' : 0 <= dur) by lia. rewrite append_line_eq in H.
  exact (append_line_rec_ok _ b target dur b' D Hwf Hd' HD H).
Qed.

Lemma validate_not_fuel s p : validate_point s p <> Fuel.
Proof. destruct (validate_cases s p) as [[H _]|H]; rewrite H; discriminate. Qed.

Lemma append_line_rec_total : forall fuel b target dur,
  dur <= 60000 * 2 ^ Z.of_nat fuel -> append_line_rec fuel b target dur <> Fuel.
Proof.
  induction fuel as [|f IH]; intros b target dur Hd; cbn [append_line_rec];
    apply bind_not_fuel; try apply validate_not_fuel; intros _; unfold BUILDER_MAX_DURATION_MSEC;
    destruct (60000 <? dur) eqn:E; try apply append_segment_not_fuel.
  - change (2 ^ Z.of_nat 0) with 1 in Hd. lia.
  - assert (Hp : 2 ^ Z.of_nat (S f) = 2 * 2 ^ Z.of_nat f).
    { rewrite Nat2Z.inj_succ, Z.pow_succ_r by lia. reflexivity. }
    rewrite Hp in Hd.
    rewrite Z.shiftr_div_pow2 by lia. change (2 ^ 1) with 2.
    apply bind_not_fuel; [apply IH; lia|]. intros b1. apply IH. lia.
Qed.

Lemma hold_rec_total : forall fuel b dur,
  dur <= 60000 * Z.of_nat fuel -> hold_rec fuel b dur <> Fuel.
Proof.
  induction fuel as [|f IH]; intros b dur Hd; cbn [hold_rec]; destruct (dur <=? 0) eqn:E; try discriminate.
  - lia.
  - unfold BUILDER_MAX_DURATION_MSEC. apply bind_not_fuel.
    + rewrite append_line_eq. apply append_line_rec_total.
      assert (60000 * 2 ^ Z.of_nat 40 = 65970697666560000) as -> by (vm_compute; reflexivity). lia.
    + intros b1. apply IH. lia.
Qed.

Theorem append_line_total : forall b target dur,
  0 <= dur < 4294967296 -> append_line b target dur <> Fuel /\ hold_position_for b dur <> Fuel.
Proof.
  intros b target dur Hd. split.
  - rewrite append_line_eq. apply append_line_rec_total.
    assert (60000 * 2 ^ Z.of_nat 40 = 65970697666560000) as -> by (vm_compute; reflexivity). lia.
  - unfold hold_position_for. apply hold_rec_total. unfold BUILDER_MAX_DURATION_MSEC.
    rewrite Nat2Z.inj_add, Z2Nat.id by (apply Z.div_pos; lia). change (Z.of_nat 2) with 2. lia.
Qed.

Theorem append_line_fails_iff : forall b target dur,
  0 < bb_scale b < 128 -> 0 <= dur <= 60000 ->
  (exists e, append_line b target dur = Err e) <->
  (exists e, validate_point (bb_scale b) target = Err e).
Proof.
  intros b target dur _ Hd. rewrite append_line_eq, append_line_rec_S.
  unfold BUILDER_MAX_DURATION_MSEC.
  destruct (60000 <? dur) eqn:E; [lia|].
  destruct (validate_cases (bb_scale b) target) as [[Hv _]|Hv]; rewrite Hv; cbn [bind].
  - destruct (append_segment_succeeds b target dur Hv) as [b' Hb']. rewrite Hb'.
    split; intros [e He]; discriminate He.
  - split; intros _; eexists; reflexivity.
Qed.

(* ------------------------------------------------------------------ *)
(** * hold_position_for *)
Lemma hold_rec_ok : forall fuel b dur b' D,
  builder_wf b -> builder_duration_of b = Ok D ->
  hold_rec fuel b dur = Ok b' ->
  builder_wf b' /\ builder_duration_of b' = Ok ((D + Z.max 0 dur) mod 4294967296) /\
  bb_last b' = bb_last b /\ bb_scale b' = bb_scale b.
Proof.
  induction fuel as [|f IH]; intros b dur b' D Hwf HD H; cbn [hold_rec] in H;
    destruct (dur <=? 0) eqn:E; try discriminate H.
  - injection H as <-. pose proof (duration_range b D Hwf HD).
    replace (Z.max 0 dur) with 0 by lia. rewrite Z.add_0_r, Z.mod_small by lia. auto.
  - injection H as <-. pose proof (duration_range b D Hwf HD).
    replace (Z.max 0 dur) with 0 by lia. rewrite Z.add_0_r, Z.mod_small by lia. auto.
  - unfold BUILDER_MAX_DURATION_MSEC in H. apply bind_ok in H. destruct H as (b1 & H1 & H2).
    rewrite append_line_eq in H1.
    assert (Hc : 0 <= Z.min dur 60000) by lia.
    destruct (append_line_rec_ok _ _ _ _ _ _ Hwf Hc HD H1) as (W1 & D1 & L1 & S1).
    destruct (IH _ _ _ _ W1 D1 H2) as (W2 & D2 & L2 & S2).
    split; [exact W2|]. split; [|split; congruence].
    rewrite D2. f_equal. rewrite Zplus_mod_idemp_l. f_equal. lia.
Qed.

Theorem hold_duration : forall b dur b' D,
  builder_wf b -> 0 <= dur < 4294967296 -> builder_duration_of b = Ok D ->
  hold_position_for b dur = Ok b' ->
  builder_wf b' /\ builder_duration_of b' = Ok ((D + dur) mod 4294967296) /\ bb_last b' = bb_last b.
Proof.
  intros b dur b' D Hwf Hd HD H. unfold hold_position_for in H.
  destruct (hold_rec_ok _ _ _ _ _ Hwf HD H) as (W & Du & L & _).
  replace (Z.max 0 dur) with dur in Du by lia. auto.
Qed.

(* ------------------------------------------------------------------ *)
(** * init, start position *)
Theorem builder_init_invalid : forall scale flags,
  (scale = 0 \/ 127 < scale) -> builder_init scale flags = Err SB_EINVAL.
Proof.
  intros scale flags H. unfold builder_init.
  destruct ((scale =? 0) || (127 <? scale)) eqn:E; [reflexivity|lia].
Qed.

Theorem set_start_after_segment_fails : forall b start,
  length (bb_bytes b) <> 9%nat -> set_start_position b start = Err SB_FAILURE.
Proof.
  intros b start H. unfold set_start_position.
  change (Z.to_nat BUILDER_HEADER_LENGTH) with 9%nat.
  destruct (length (bb_bytes b) =? 9)%nat eqn:E; [|reflexivity].
  apply Nat.eqb_eq in E. contradiction.
Qed.

Lemma wf_header9 h a1 a2 a3 a4 a5 a6 a7 a8 last sc :
  0 < sc < 128 -> Z.land h 127 = sc ->
  let b := mkbuilder [h; a1; a2; a3; a4; a5; a6; a7; a8] last sc in
  builder_wf b /\ builder_duration_of b = Ok 0.
Proof.
  intros Hsc Hh b.
  apply (dec_wf b (mktraj (bb_bytes b) sc (negb (Z.land h 128 =? 0))
                    (mkvec4 (coord_of sc (sx16 (le16 a1 a2))) (coord_of sc (sx16 (le16 a3 a4)))
                            (coord_of sc (sx16 (le16 a5 a6))) (angle_of (sx16 (le16 a7 a8))))) []).
  - exact Hsc.
  - cbn [b bb_bytes traj_init]. rewrite Hh. reflexivity.
  - reflexivity.
  - cbn [b bb_bytes skipn]. constructor.
Qed.

(** corrected statement: the C parameter is a uint8_t; the model accepts any
    integer and a negative one passes the range test *)
Theorem builder_init_wf' : forall scale flags b, 0 <= scale ->
  builder_init scale flags = Ok b -> builder_wf b /\ builder_duration_of b = Ok 0 /\ bb_scale b = scale.
Proof.
  intros scale flags b H0 H. unfold builder_init in H.
  destruct ((scale =? 0) || (127 <? scale)) eqn:E; [discriminate H|].
  injection H as <-. cbn [repeat].
  assert (Hsc : 0 < scale < 128) by lia.
  destruct (scale_bits _ Hsc) as (S1 & S2 & _ & _).
  destruct (wf_header9 (scale + (if Z.land flags SB_TRAJECTORY_USE_YAW =? 0 then 0 else 128))
              0 0 0 0 0 0 0 0 zero_vec scale Hsc) as [W Du].
  - destruct (Z.land flags SB_TRAJECTORY_USE_YAW =? 0); [rewrite Z.add_0_r|]; assumption.
  - split; [exact W|]. split; [exact Du|]. reflexivity.
Qed.

Lemma set_start_ok b start b' :
  0 < bb_scale b < 128 -> Z.land (hd 0 (bb_bytes b)) 127 = bb_scale b ->
  set_start_position b start = Ok b' ->
  builder_wf b' /\ builder_duration_of b' = Ok 0 /\ bb_scale b' = bb_scale b /\ bb_last b' = start.
Proof.
  intros Hsc Hh H. unfold set_start_position in H.
  change (Z.to_nat BUILDER_HEADER_LENGTH) with 9%nat in H.
  destruct (length (bb_bytes b) =? 9)%nat eqn:E; cbn [negb] in H; [|discriminate H].
  apply Nat.eqb_eq in E.
  apply bind_ok in H. destruct H as (u & _ & H).
  apply bind_ok in H. destruct H as (x & _ & H).
  apply bind_ok in H. destruct H as (y & _ & H).
  apply bind_ok in H. destruct H as (z & _ & H).
  injection H as <-.
  destruct (bb_bytes b) as [|h [|a1 [|a2 [|a3 [|a4 [|a5 [|a6 [|a7 [|a8 [|a9 tl]]]]]]]]]]; try discriminate E.
  cbn [hd] in Hh.
  cbn [put16 write_u16 fst upd Nat.add bb_scale bb_last].
  match goal with |- builder_wf ?B /\ _ => destruct (wf_header9 h
     ((x mod 65536) mod 256) ((x mod 65536) / 256) ((y mod 65536) mod 256) ((y mod 65536) / 256)
     ((z mod 65536) mod 256) ((z mod 65536) / 256)
     ((scale_angle (vyaw start) mod 65536) mod 256) ((scale_angle (vyaw start) mod 65536) / 256)
     start (bb_scale b) Hsc Hh) as [W Du] end.
  split; [exact W|]. split; [exact Du|]. split; reflexivity.
Qed.

Lemma builder_init_hd scale flags b : 0 <= scale -> builder_init scale flags = Ok b ->
  0 < bb_scale b < 128 /\ Z.land (hd 0 (bb_bytes b)) 127 = bb_scale b /\ bb_scale b = scale.
Proof.
  intros H0 H. unfold builder_init in H.
  destruct ((scale =? 0) || (127 <? scale)) eqn:E; [discriminate H|].
  injection H as <-. cbn [bb_scale bb_bytes hd].
  assert (Hsc : 0 < scale < 128) by lia.
  destruct (scale_bits _ Hsc) as (S1 & S2 & _ & _).
  split; [exact Hsc|]. split; [|reflexivity].
  destruct (Z.land flags SB_TRAJECTORY_USE_YAW =? 0); [rewrite Z.add_0_r|]; assumption.
Qed.

(* ------------------------------------------------------------------ *)
(** * Signs of binary32 results *)
Local Open Scope Q_scope.

Lemma pow2_pos e : 0 < pow2 e.
Proof.
  unfold pow2. destruct (0 <=? e)%Z eqn:E.
  - change 0 with (inject_Z 0). rewrite <- Zlt_Qlt. apply Z.pow_pos_nonneg; lia.
  - reflexivity.
Qed.

Lemma Qfloor_nonneg x : 0 <= x -> (0 <= Qfloor x)%Z.
Proof. intros H. change 0%Z with (Qfloor 0). apply Qfloor_resp_le. exact H. Qed.

Lemma Qceiling_nonneg x : 0 <= x -> (0 <= Qceiling x)%Z.
Proof.
  intros H. pose proof (Qle_ceiling x) as Hc.
  rewrite Zle_Qle. change (inject_Z 0) with 0. eapply Qle_trans; eassumption.
Qed.

Lemma round_half_even_nonneg x : 0 <= x -> (0 <= round_half_even x)%Z.
Proof.
  intros H. pose proof (Qfloor_nonneg x H) as Hf. unfold round_half_even. cbv zeta.
  destruct (Qred (x - inject_Z (Qfloor x)) ?= 1 # 2); [destruct (Z.even (Qfloor x))| |]; lia.
Qed.

Lemma Qabs'_pos q : 0 <= q -> Qabs' q = q.
Proof. intros H. unfold Qabs'. apply Qle_bool_iff in H. rewrite H. reflexivity. Qed.

Lemma rnd32_nonneg q : 0 <= q -> 0 <= rnd32 q.
Proof.
  intros H. unfold rnd32. destruct (q ?= 0) eqn:C.
  - apply Qle_refl.
  - exfalso. apply Qlt_alt in C. apply (Qlt_not_le _ _ C H).
  - cbv zeta. rewrite Qred_correct. rewrite Qabs'_pos by exact H.
    apply Qmult_le_0_compat.
    + change 0 with (inject_Z 0). rewrite <- Zle_Qle. apply round_half_even_nonneg.
      rewrite Qred_correct. apply Qmult_le_0_compat; [exact H|]. apply Qlt_le_weak, pow2_pos.
    + apply Qlt_le_weak, pow2_pos.
Qed.

Lemma Qltb_false a b : Qltb a b = false -> b <= a.
Proof.
  unfold Qltb. intros H. apply Qle_bool_iff. destruct (Qle_bool b a); [reflexivity|discriminate H].
Qed.

Lemma Qltb_true a b : Qltb a b = true -> a < b.
Proof.
  unfold Qltb. intros H. apply Qnot_le_lt. intros Hle. apply Qle_bool_iff in Hle.
  rewrite Hle in H. discriminate H.
Qed.

Lemma msec_of_sec_nonneg x m : msec_of_sec x = Ok m -> (0 <= m)%Z.
Proof.
  unfold msec_of_sec. destruct x as [|[|]|q]; try discriminate.
  destruct (Qltb q 0) eqn:E1; [discriminate|]. destruct (Qle_bool max_duration_sec q); [discriminate|].
  intros H. injection H as <-. apply Qltb_false in E1.
  assert (Hr : 0 <= fmul q (inject_Z 1000)).
  { unfold fmul. apply rnd32_nonneg. apply Qmult_le_0_compat; [exact E1|discriminate]. }
  unfold ftrunc. destruct (Qle_bool 0 (fmul q (inject_Z 1000))).
  - apply Qfloor_nonneg, Hr.
  - apply Qceiling_nonneg, Hr.
Qed.

Lemma Qabs'_nonneg q : 0 <= Qabs' q.
Proof.
  unfold Qabs'. destruct (Qle_bool 0 q) eqn:E.
  - apply Qle_bool_iff. exact E.
  - assert (H : q < 0).
    { apply Qnot_le_lt. intros Hle. apply Qle_bool_iff in Hle. rewrite Hle in E. discriminate E. }
    lra.
Qed.

Lemma Qmax'_l a b : a <= Qmax' a b.
Proof.
  unfold Qmax'. destruct (Qle_bool a b) eqn:E; [apply Qle_bool_iff; exact E|apply Qle_refl].
Qed.

Lemma Qmax'_r a b : b <= Qmax' a b.
Proof.
  unfold Qmax'. destruct (Qle_bool a b) eqn:E; [apply Qle_refl|].
  apply Qlt_le_weak, Qnot_le_lt. intros Hle. apply Qle_bool_iff in Hle. rewrite Hle in E. discriminate E.
Qed.

Local Open Scope Z_scope.

Definition mc3 (x y z : Q) : Q := Qmax' (Qmax' (Qabs' x) (Qabs' y)) (Qabs' z).

Lemma mc3_bounds x y z : (0 <= mc3 x y z /\ Qabs' x <= mc3 x y z /\ Qabs' y <= mc3 x y z /\ Qabs' z <= mc3 x y z)%Q.
Proof.
  unfold mc3.
  pose proof (Qabs'_nonneg z). pose proof (Qmax'_r (Qmax' (Qabs' x) (Qabs' y)) (Qabs' z)).
  pose proof (Qmax'_l (Qmax' (Qabs' x) (Qabs' y)) (Qabs' z)).
  pose proof (Qmax'_l (Qabs' x) (Qabs' y)). pose proof (Qmax'_r (Qabs' x) (Qabs' y)).
  repeat split; lra.
Qed.

Lemma scale_update_nonneg sc x y z s : 0 <= sc -> scale_update sc x y z = Ok s -> 0 <= s.
Proof.
  intros H0. unfold scale_update. cbv zeta. fold (mc3 x y z).
  destruct (Qltb _ (mc3 x y z)).
  - destruct (fceil (fdiv (mc3 x y z) (inject_Z 32767)) <=? 127); [|discriminate].
    intros H. injection H as <-. unfold fceil, fdiv. apply Qceiling_nonneg, rnd32_nonneg.
    destruct (mc3_bounds x y z) as [Hm _].
    apply Qle_shift_div_l; [reflexivity|]. lra.
  - intros H. injection H as <-. destruct (sc =? 0) eqn:E; lia.
Qed.

Lemma opt_scale_nonneg (c : bool) sc x y z s : 0 <= sc ->
  (if c then scale_update sc x y z else Ok sc) = Ok s -> 0 <= s.
Proof.
  intros H0. destruct c; [apply scale_update_nonneg; exact H0|].
  intros H. injection H as <-. exact H0.
Qed.

(* ------------------------------------------------------------------ *)
(** * RTH entry -> trajectory *)
Definition M32 : Z := 4294967296.

Lemma rth_inv e start bytes : rth_to_trajectory e start = Ok bytes ->
  exists s1 s2 s3 s4 d0 dn da dp b,
    scale_update 1 (vx start) (vy start) (vz start) = Ok s1 /\
    (if has_neck (re_action e) then scale_update s1 0 0 (fadd (vz start) (re_neck e)) else Ok s1) = Ok s2 /\
    (if has_target (re_action e) then scale_update s2 (fst (re_target e)) (snd (re_target e)) 0 else Ok s2) = Ok s3 /\
    (if has_altitude (re_action e) then scale_update s3 0 0 (re_altitude e) else Ok s3) = Ok s4 /\
    validate_point s4 start = Ok tt /\
    phase_ms e = Ok (d0, dn, da, dp) /\
    builder_wf b /\ bb_bytes b = bytes /\ bb_scale b = s4 /\
    builder_duration_of b = Ok ((d0 + dn + da + dp) mod 4294967296) /\
    (re_action e = SB_RTH_ACTION_LAND -> da = 0).
Proof.
  intros H. unfold rth_to_trajectory in H. cbv zeta in H. unfold fnum_add in H.
  apply bind_ok in H. destruct H as (s1 & Hs1 & H).
  apply bind_ok in H. destruct H as (s2 & Hs2 & H).
  apply bind_ok in H. destruct H as (s3 & Hs3 & H).
  apply bind_ok in H. destruct H as (s4 & Hs4 & H).
  apply bind_ok in H. destruct H as (d0 & Hd0 & H).
  apply bind_ok in H. destruct H as (b0 & Hb0 & H).
  apply bind_ok in H. destruct H as (b1 & Hb1 & H).
  apply bind_ok in H. destruct H as (b2 & Hb2 & H).
  apply bind_ok in H. destruct H as ([b3 tgt] & Hb3 & H).
  apply bind_ok in H. destruct H as (b4 & Hb4 & H).
  apply bind_ok in H. destruct H as (b5 & Hb5 & H).
  injection H as <-. unfold finish. cbn [fst].
  (* scales *)
  assert (P1 : 0 <= s1) by (eapply scale_update_nonneg; [|exact Hs1]; lia).
  assert (P2 : 0 <= s2) by (eapply opt_scale_nonneg; [|exact Hs2]; exact P1).
  assert (P3 : 0 <= s3) by (eapply opt_scale_nonneg; [|exact Hs3]; exact P2).
  assert (P4 : 0 <= s4) by (eapply opt_scale_nonneg; [|exact Hs4]; exact P3).
  destruct (builder_init_hd _ _ _ P4 Hb0) as (Hsc0 & Hh0 & Hs0).
  destruct (set_start_ok _ _ _ Hsc0 Hh0 Hb1) as (W1 & D1 & S1 & _).
  assert (Hval : validate_point s4 start = Ok tt).
  { unfold set_start_position in Hb1. destruct (negb _); [discriminate Hb1|].
    apply bind_ok in Hb1. destruct Hb1 as ([] & Hv & _). rewrite <- Hs0. exact Hv. }
  (* initial hold *)
  pose proof (msec_of_sec_nonneg _ _ Hd0) as N0.
  unfold hold_position_for in Hb2.
  destruct (hold_rec_ok _ _ _ _ _ W1 D1 Hb2) as (W2 & D2 & _ & S2).
  replace (0 + Z.max 0 d0) with d0 in D2 by lia.
  (* neck *)
  assert (Hneck : exists dn,
            (if negb (Qeq_bool (re_neck e) 0) || fnonzero (re_neck_duration e)
             then msec_of_sec (re_neck_duration e) else Ok 0) = Ok dn /\
            builder_wf b3 /\ builder_duration_of b3 = Ok ((d0 + dn) mod 4294967296) /\ bb_scale b3 = bb_scale b2).
  { destruct (negb (Qeq_bool (re_neck e) 0) || fnonzero (re_neck_duration e)).
    - apply bind_ok in Hb3. destruct Hb3 as (dn & Hdn & Hb3).
      apply bind_ok in Hb3. destruct Hb3 as (b' & Hb' & Hb3). injection Hb3 as -> _.
      pose proof (msec_of_sec_nonneg _ _ Hdn) as Nn. rewrite append_line_eq in Hb'.
      destruct (append_line_rec_ok _ _ _ _ _ _ W2 Nn D2 Hb') as (W3 & D3 & _ & S3).
      exists dn. split; [exact Hdn|]. split; [exact W3|]. split; [|exact S3].
      rewrite D3, Zplus_mod_idemp_l. reflexivity.
    - injection Hb3 as <- _. exists 0. split; [reflexivity|]. split; [exact W2|]. split; [|reflexivity].
      rewrite Z.add_0_r. exact D2. }
  destruct Hneck as (dn & Hdn & W3 & D3 & S3).
  (* the leg *)
  assert (Hleg : exists da,
            (if has_target (re_action e) then msec_of_sec (re_duration e) else Ok 0) = Ok da /\
            builder_wf b4 /\ builder_duration_of b4 = Ok ((d0 + dn + da) mod 4294967296) /\
            bb_scale b4 = bb_scale b3 /\ (re_action e = SB_RTH_ACTION_LAND -> da = 0)).
  { unfold has_target.
    unfold SB_RTH_ACTION_LAND, SB_RTH_ACTION_GO_TO_KEEPING_ALTITUDE, SB_RTH_ACTION_GO_TO_WITH_ALTITUDE in *.
    destruct (re_action e =? 1) eqn:E1.
    - injection Hb4 as <-. exists 0.
      destruct (re_action e =? 2) eqn:E2; [lia|]. destruct (re_action e =? 3) eqn:E3; [lia|].
      cbn [orb]. split; [reflexivity|]. split; [exact W3|]. split; [|split; [reflexivity|reflexivity]].
      rewrite Z.add_0_r. exact D3.
    - destruct (re_action e =? 2) eqn:E2.
      + cbn [orb]. apply bind_ok in Hb4. destruct Hb4 as (da & Hda & Hb4).
        pose proof (msec_of_sec_nonneg _ _ Hda) as Na. rewrite append_line_eq in Hb4.
        destruct (append_line_rec_ok _ _ _ _ _ _ W3 Na D3 Hb4) as (W4 & D4 & _ & S4).
        exists da. split; [exact Hda|]. split; [exact W4|]. split; [|split; [exact S4|lia]].
        rewrite D4, Zplus_mod_idemp_l. reflexivity.
      + destruct (re_action e =? 3) eqn:E3; [|discriminate Hb4].
        cbn [orb]. apply bind_ok in Hb4. destruct Hb4 as (da & Hda & Hb4).
        pose proof (msec_of_sec_nonneg _ _ Hda) as Na. rewrite append_line_eq in Hb4.
        destruct (append_line_rec_ok _ _ _ _ _ _ W3 Na D3 Hb4) as (W4 & D4 & _ & S4).
        exists da. split; [exact Hda|]. split; [exact W4|]. split; [|split; [exact S4|lia]].
        rewrite D4, Zplus_mod_idemp_l. reflexivity. }
  destruct Hleg as (da & Hda & W4 & D4 & S4 & Hland).
  (* post delay *)
  assert (Hpost : exists dp,
            (if fgt0 (re_post_delay e) then msec_of_sec (re_post_delay e) else Ok 0) = Ok dp /\
            builder_wf b5 /\ builder_duration_of b5 = Ok ((d0 + dn + da + dp) mod 4294967296) /\
            bb_scale b5 = bb_scale b4).
  { destruct (fgt0 (re_post_delay e)).
    - apply bind_ok in Hb5. destruct Hb5 as (dp & Hdp & Hb5).
      pose proof (msec_of_sec_nonneg _ _ Hdp) as Np. unfold hold_position_for in Hb5.
      destruct (hold_rec_ok _ _ _ _ _ W4 D4 Hb5) as (W5 & D5 & _ & S5).
      exists dp. split; [exact Hdp|]. split; [exact W5|]. split; [|exact S5].
      rewrite D5, Zplus_mod_idemp_l. replace (Z.max 0 dp) with dp by lia. reflexivity.
    - injection Hb5 as <-. exists 0. split; [reflexivity|]. split; [exact W4|]. split; [|reflexivity].
      rewrite Z.add_0_r. exact D4. }
  destruct Hpost as (dp & Hdp & W5 & D5 & S5).
  exists s1, s2, s3, s4, d0, dn, da, dp, b5.
  split; [exact Hs1|]. split; [exact Hs2|]. split; [exact Hs3|]. split; [exact Hs4|].
  split; [exact Hval|].
  split.
  { unfold phase_ms. cbv zeta. rewrite Hd0. cbn [bind]. rewrite Hdn. cbn [bind].
    rewrite Hda. cbn [bind]. rewrite Hdp. reflexivity. }
  split; [exact W5|]. split; [reflexivity|]. split; [congruence|]. split; [exact D5|exact Hland].
Qed.

Theorem phases_durations : forall e start bytes,
  rth_to_trajectory e start = Ok bytes ->
  exists d0 dn da dp tr, phase_ms e = Ok (d0, dn, da, dp) /\
    traj_init bytes = Ok tr /\
    total_duration_msec tr = Ok ((d0 + dn + da + dp) mod 4294967296) /\
    (re_action e = SB_RTH_ACTION_LAND -> da = 0).
Proof.
  intros e start bytes H.
  destruct (rth_inv e start bytes H) as (s1 & s2 & s3 & s4 & d0 & dn & da & dp & b & _ & _ & _ & _ & _ &
                                         Hp & W & Hb & Hs & D & Hl).
  unfold builder_duration_of in D. rewrite Hb in D.
  apply bind_ok in D. destruct D as (tr & Hi & D).
  exists d0, dn, da, dp, tr. auto.
Qed.

Theorem conversion_unknown_action : forall e start,
  re_action e <> SB_RTH_ACTION_LAND -> re_action e <> SB_RTH_ACTION_GO_TO_KEEPING_ALTITUDE ->
  re_action e <> SB_RTH_ACTION_GO_TO_WITH_ALTITUDE ->
  forall bytes, rth_to_trajectory e start <> Ok bytes.
Proof.
  intros e start H1 H2 H3 bytes H.
  unfold rth_to_trajectory in H. cbv zeta in H.
  apply bind_ok in H. destruct H as (s1 & _ & H).
  apply bind_ok in H. destruct H as (s2 & _ & H).
  apply bind_ok in H. destruct H as (s3 & _ & H).
  apply bind_ok in H. destruct H as (s4 & _ & H).
  apply bind_ok in H. destruct H as (d0 & _ & H).
  apply bind_ok in H. destruct H as (b0 & _ & H).
  apply bind_ok in H. destruct H as (b1 & _ & H).
  apply bind_ok in H. destruct H as (b2 & _ & H).
  apply bind_ok in H. destruct H as ([b3 tgt] & _ & H).
  apply bind_ok in H. destruct H as (b4 & Hb4 & _).
  destruct (re_action e =? SB_RTH_ACTION_LAND) eqn:E1; [lia|].
  destruct (re_action e =? SB_RTH_ACTION_GO_TO_KEEPING_ALTITUDE) eqn:E2; [lia|].
  destruct (re_action e =? SB_RTH_ACTION_GO_TO_WITH_ALTITUDE) eqn:E3; [lia|].
  discriminate Hb4.
Qed.

(** the scale of the converted trajectory is the last of the chain of updates *)
Lemma rth_scale e start bytes tr :
  rth_to_trajectory e start = Ok bytes -> traj_init bytes = Ok tr ->
  exists s1 s2 s3,
    scale_update 1 (vx start) (vy start) (vz start) = Ok s1 /\
    (if has_neck (re_action e) then scale_update s1 0 0 (fadd (vz start) (re_neck e)) else Ok s1) = Ok s2 /\
    (if has_target (re_action e) then scale_update s2 (fst (re_target e)) (snd (re_target e)) 0 else Ok s2) = Ok s3 /\
    (if has_altitude (re_action e) then scale_update s3 0 0 (re_altitude e) else Ok s3) = Ok (t_scale tr) /\
    1 <= t_scale tr <= 127.
Proof.
  intros H Hi.
  destruct (rth_inv e start bytes H) as (s1 & s2 & s3 & s4 & d0 & dn & da & dp & b & H1 & H2 & H3 & H4 & _ &
                                         _ & W & Hb & Hs & _ & _).
  destruct W as (Hsc & tr' & segs & Hi' & Hs' & _).
  rewrite Hb, Hi in Hi'. injection Hi' as <-.
  assert (E : t_scale tr = s4) by congruence.
  exists s1, s2, s3. rewrite E. split; [exact H1|]. split; [exact H2|]. split; [exact H3|].
  split; [exact H4|]. lia.
Qed.

(** the part of [conversion_scale] that holds for every input *)
Theorem conversion_scale_range : forall e start bytes tr,
  rth_to_trajectory e start = Ok bytes -> traj_init bytes = Ok tr -> 1 <= t_scale tr <= 127.
Proof.
  intros e start bytes tr H Hi.
  destruct (rth_scale e start bytes tr H Hi) as (s1 & s2 & s3 & _ & _ & _ & _ & R). exact R.
Qed.

(* ------------------------------------------------------------------ *)
(** * Results that depend on the binary32 rounding error bound *)
Lemma Qabs'_Qabs q : (Qabs' q == Qabs q)%Q.
Proof.
  unfold Qabs'. destruct (Qle_bool 0 q) eqn:E.
  - apply Qle_bool_iff in E. rewrite Qabs_pos by exact E. reflexivity.
  - assert (H : (q < 0)%Q).
    { apply Qnot_le_lt. intros Hle. apply Qle_bool_iff in Hle. rewrite Hle in E. discriminate E. }
    rewrite Qabs_neg by (apply Qlt_le_weak; exact H). reflexivity.
Qed.

Lemma f32_scale_exact k : 1 <= k <= 127 -> (f32_of_Z (k * 32767) == inject_Z (k * 32767))%Q.
Proof.
  intros Hk. apply Qeq_bool_iff.
  apply (byte_sweep (fun k => Qeq_bool (f32_of_Z (k * 32767)) (inject_Z (k * 32767))) 128).
  - vm_compute. reflexivity.
  - lia.
Qed.

Section Rounding.
Local Open Scope Q_scope.
Hypothesis rnd32_error : forall q : Q, ~ q == 0 -> Qabs (rnd32 q - q) <= Qabs q * (1 # 16777216).

Lemma rnd_bounds q :
  q - Qabs q * (1 # 16777216) <= rnd32 q /\ rnd32 q <= q + Qabs q * (1 # 16777216).
Proof.
  destruct (Qeq_dec q 0) as [Hz|Hnz].
  - assert (Hr : rnd32 q = 0).
    { unfold rnd32. apply Qeq_alt in Hz. rewrite Hz. reflexivity. }
    rewrite Hr. rewrite Hz. split; vm_compute; discriminate.
  - pose proof (rnd32_error q Hnz) as H. apply Qabs_Qle_condition in H. destruct H as [H1 H2].
    split; lra.
Qed.

(** corrected statement of [quantisation_within_quantum] (the original is
    false for negative coordinates): the slack is relative to |c| *)
Theorem quantisation_within_quantum' : forall s c v, (0 < s < 128)%Z ->
  scale_coordinate s c = Ok v ->
  (-32768 <= v <= 32767)%Z /\
  (inject_Z (v * s) <= c + Qabs' c * (1 # 8388608) + (1 # 8388608) /\
   c - Qabs' c * (1 # 8388608) - (1 # 8388608) < inject_Z ((v + 1) * s)).
Proof.
  intros s c v Hs H. unfold scale_coordinate in H. cbv zeta in H.
  destruct ((ffloor (fdiv c (inject_Z s)) <? -32768)%Z || (32767 <? ffloor (fdiv c (inject_Z s)))%Z) eqn:E;
    [discriminate H|].
  injection H as <-. split; [lia|]. clear E.
  unfold ffloor, fdiv.
  assert (HS : 0 < inject_Z s). { change 0 with (inject_Z 0). rewrite <- Zlt_Qlt. lia. }
  set (S := inject_Z s) in *. set (x := c / S). set (r := rnd32 x).
  assert (HxS : S * x == c). { unfold x. apply Qmult_div_r. lra. }
  assert (Ha : Qabs c == S * Qabs x).
  { rewrite <- HxS. rewrite Qabs_Qmult. rewrite (Qabs_pos S) by lra. reflexivity. }
  pose proof (Qabs_nonneg x) as Hax.
  destruct (rnd_bounds x) as [B1 B2]. fold r in B1, B2.
  pose proof (Qfloor_le r) as F1. pose proof (Qlt_floor r) as F2.
  rewrite !inject_Z_mult, inject_Z_plus. fold S. change (inject_Z 1) with 1.
  rewrite inject_Z_plus in F2. change (inject_Z 1) with 1 in F2.
  rewrite Qabs'_Qabs, Ha.
  set (V := inject_Z (Qfloor r)) in *. set (a := Qabs x) in *.
  assert (M1 : V * S <= r * S) by (apply Qmult_le_compat_r; lra).
  assert (M2 : r * S < (V + 1) * S) by (apply Qmult_lt_compat_r; lra).
  assert (M3 : r * S <= (x + a * (1 # 16777216)) * S) by (apply Qmult_le_compat_r; lra).
  assert (M4 : (x - a * (1 # 16777216)) * S <= r * S) by (apply Qmult_le_compat_r; lra).
  assert (M5 : 0 <= a * S) by (apply Qmult_le_0_compat; lra).
  split.
  - apply Qle_trans with (r * S); [exact M1|].
    apply Qle_trans with ((x + a * (1 # 16777216)) * S); [exact M3|].
    rewrite <- HxS. lra.
  - apply Qle_lt_trans with (r * S); [|exact M2].
    apply Qle_trans with ((x - a * (1 # 16777216)) * S); [|exact M4].
    rewrite <- HxS. lra.
Qed.

Lemma scale_update_spec sc x y z s : (0 <= sc <= 127)%Z -> scale_update sc x y z = Ok s ->
  (Z.max sc 1 <= s <= 127)%Z /\ mc3 x y z * (1 - (1 # 16777216)) <= inject_Z (s * 32767).
Proof.
  intros Hsc. unfold scale_update. cbv zeta. fold (mc3 x y z).
  set (sc' := if (sc =? 0)%Z then 1%Z else sc).
  assert (Hsc' : (1 <= sc' <= 127)%Z /\ sc' = Z.max sc 1).
  { unfold sc'. destruct (sc =? 0)%Z eqn:E0; lia. }
  destruct Hsc' as [Hsc' Hmax]. rewrite <- Hmax.
  pose proof (f32_scale_exact sc' Hsc') as Hmx.
  destruct (mc3_bounds x y z) as [Hm0 _].
  assert (Q1 : inject_Z 1 <= inject_Z sc') by (rewrite <- Zle_Qle; lia).
  assert (Q2 : inject_Z sc' <= inject_Z 127) by (rewrite <- Zle_Qle; lia).
  change (inject_Z 1) with 1 in Q1. change (inject_Z 127) with 127 in Q2.
  destruct (Qltb (f32_of_Z (sc' * 32767)) (mc3 x y z)) eqn:E.
  - apply Qltb_true in E. rewrite Hmx in E. rewrite inject_Z_mult in E. change (inject_Z 32767) with 32767 in E.
    destruct (fceil (fdiv (mc3 x y z) (inject_Z 32767)) <=? 127)%Z eqn:E127; [|discriminate].
    intros H. injection H as <-. unfold fceil, fdiv in *.
    change (inject_Z 32767) with 32767 in *.
    set (x0 := mc3 x y z / 32767) in *.
    assert (Hx0 : 32767 * x0 == mc3 x y z). { unfold x0. apply Qmult_div_r. discriminate. }
    assert (Hx0p : 0 <= x0) by lra.
    destruct (rnd_bounds x0) as [B1 _]. rewrite (Qabs_pos x0) in B1 by exact Hx0p.
    pose proof (Qle_ceiling (rnd32 x0)) as C1.
    set (ns := Qceiling (rnd32 x0)) in *.
    assert (G : inject_Z (sc' - 1) < inject_Z ns).
    { replace (sc' - 1)%Z with (sc' + (-1))%Z by lia. rewrite inject_Z_plus.
      change (inject_Z (-1)) with (-(1)). lra. }
    rewrite <- Zlt_Qlt in G.
    split; [lia|].
    rewrite inject_Z_mult. change (inject_Z 32767) with 32767. lra.
  - apply Qltb_false in E. rewrite Hmx in E.
    intros H. injection H as <-. split; [lia|]. lra.
Qed.

Lemma opt_scale_spec (c : bool) sc x y z s : (1 <= sc <= 127)%Z ->
  (if c then scale_update sc x y z else Ok sc) = Ok s -> (sc <= s <= 127)%Z.
Proof.
  intros Hsc. destruct c.
  - intros H. apply scale_update_spec in H; [|lia]. lia.
  - intros H. injection H as <-. lia.
Qed.

(** corrected statement of [conversion_scale] (the original is false for
    start coordinates that are not binary32 numbers): the coordinate bound
    holds up to the rounding of the division by 32767 *)
Theorem conversion_scale' : forall e start bytes tr,
  rth_to_trajectory e start = Ok bytes -> traj_init bytes = Ok tr ->
  (1 <= t_scale tr <= 127)%Z /\
  Qabs' (vx start) * (1 - (1 # 16777216)) <= inject_Z (t_scale tr * 32767) /\
  Qabs' (vy start) * (1 - (1 # 16777216)) <= inject_Z (t_scale tr * 32767) /\
  Qabs' (vz start) * (1 - (1 # 16777216)) <= inject_Z (t_scale tr * 32767).
Proof.
  intros e start bytes tr H Hi.
  destruct (rth_scale e start bytes tr H Hi) as (s1 & s2 & s3 & H1 & H2 & H3 & H4 & R).
  split; [exact R|].
  apply scale_update_spec in H1; [|lia]. destruct H1 as [R1 B1].
  apply opt_scale_spec in H2; [|lia]. apply opt_scale_spec in H3; [|lia]. apply opt_scale_spec in H4; [|lia].
  assert (Hle : inject_Z (s1 * 32767) <= inject_Z (t_scale tr * 32767)) by (rewrite <- Zle_Qle; lia).
  destruct (mc3_bounds (vx start) (vy start) (vz start)) as (_ & Bx & By & Bz).
  repeat split; lra.
Qed.

(** the original conclusion of [conversion_scale] holds when the start
    coordinates are binary32 numbers (as they are in the C code), given the
    exact sufficiency of [scale_update] on binary32 arguments *)
Hypothesis scale_update_b32 : forall sc x y z s, (0 <= sc <= 127)%Z ->
  rnd32 x == x -> rnd32 y == y -> rnd32 z == z ->
  scale_update sc x y z = Ok s ->
  let m := Qmax' (Qmax' (Qabs' x) (Qabs' y)) (Qabs' z) in
  (Z.max sc 1 <= s <= 127)%Z /\ m <= inject_Z (s * 32767) /\
  (s = Z.max sc 1 \/ inject_Z ((s - 1) * 32767) < m).

Theorem conversion_scale_b32 : forall e start bytes tr,
  rnd32 (vx start) == vx start -> rnd32 (vy start) == vy start -> rnd32 (vz start) == vz start ->
  rth_to_trajectory e start = Ok bytes -> traj_init bytes = Ok tr ->
  (1 <= t_scale tr <= 127)%Z /\
  Qabs' (vx start) <= inject_Z (t_scale tr * 32767) /\
  Qabs' (vy start) <= inject_Z (t_scale tr * 32767) /\
  Qabs' (vz start) <= inject_Z (t_scale tr * 32767).
Proof.
  intros e start bytes tr Fx Fy Fz H Hi.
  destruct (rth_scale e start bytes tr H Hi) as (s1 & s2 & s3 & H1 & H2 & H3 & H4 & R).
  split; [exact R|].
  assert (H01 : (0 <= 1 <= 127)%Z) by lia.
  pose proof (scale_update_b32 _ _ _ _ _ H01 Fx Fy Fz H1) as B. cbv zeta in B.
  fold (mc3 (vx start) (vy start) (vz start)) in B. destruct B as (R1 & B1 & _).
  apply opt_scale_spec in H2; [|lia]. apply opt_scale_spec in H3; [|lia]. apply opt_scale_spec in H4; [|lia].
  assert (Hle : inject_Z (s1 * 32767) <= inject_Z (t_scale tr * 32767)) by (rewrite <- Zle_Qle; lia).
  destruct (mc3_bounds (vx start) (vy start) (vz start)) as (_ & Bx & By & Bz).
  repeat split; lra.
Qed.

End Rounding.

(* ------------------------------------------------------------------ *)
(** * Counterexamples to the statements as first written *)
(** builder_init_wf without [0 <= scale]: a negative scale passes the range test *)
Lemma builder_init_wf_counterexample :
  exists b, builder_init (-1) 0 = Ok b /\ ~ builder_wf b.
Proof.
  eexists. split; [vm_compute; reflexivity|]. intros [H _]. cbn [bb_scale] in H. lia.
Qed.

(** quantisation_within_quantum with the slack [c * (1 + 2^-23)]: false for negative c *)
Lemma quantisation_counterexample :
  scale_coordinate 1 (-(1000 # 1)) = Ok (-1000) /\
  ~ (inject_Z (-1000 * 1) <= (-(1000 # 1)) * (1 + (1 # 8388608)) + (1 # 8388608))%Q.
Proof. split; [vm_compute; reflexivity|]. vm_compute. intros H. apply H. reflexivity. Qed.

(** conversion_scale for a start coordinate that is not a binary32 number:
    65534.000001 / 32767 rounds down to 2 *)
Lemma conversion_scale_counterexample :
  let e := mkrthe (FVal 0) SB_RTH_ACTION_LAND (FVal 0) (0%Q, 0%Q) 0 (FVal 0) (FVal 0) 0 (FVal 0) in
  let start := mkvec4 (65534000001 # 1000000) 0 0 0 in
  exists bytes tr, rth_to_trajectory e start = Ok bytes /\ traj_init bytes = Ok tr /\
    ~ (Qabs' (vx start) <= inject_Z (t_scale tr * 32767))%Q.
Proof.
  cbv zeta. eexists. eexists. split; [vm_compute; reflexivity|]. split; [vm_compute; reflexivity|].
  vm_compute. intros H. apply H. reflexivity.
Qed.
