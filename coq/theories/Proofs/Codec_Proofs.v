(** Proofs for C19 (binary codecs).  Statements are used verbatim by
    Props/Properties_C19.v. *)
From SB Require Import Base.Prelude Gen.Generated Model.Codec Model.Colors Spec.CodecSpec.
From Coq Require Import ZifyBool.
Local Open Scope Z_scope.

Ltac Zify.zify_post_hook ::= Z.div_mod_to_equations.

(* ------------------------------------------------------------------ *)
(** * Finite sweeps and bit facts *)

Lemma sweep (N : Z) (p : Z -> bool) :
  forallb p (map Z.of_nat (seq 0 (Z.to_nat N))) = true ->
  forall x, 0 <= x < N -> p x = true.
Proof.
  intros H x Hx. rewrite forallb_forall in H. apply H.
  rewrite <- (Z2Nat.id x) by lia. apply in_map. apply in_seq. lia.
Qed.

Lemma land128_byte x : 0 <= x < 256 -> (Z.land x 128 =? 0) = (x <? 128).
Proof.
  intros Hx. apply Bool.eqb_prop.
  apply (sweep 256 (fun x => Bool.eqb (Z.land x 128 =? 0) (x <? 128))); [|exact Hx].
  vm_compute; reflexivity.
Qed.

Lemma land127 x : Z.land x 127 = x mod 128.
Proof. change 127 with (Z.ones 7). rewrite Z.land_ones by lia. reflexivity. Qed.

(* ------------------------------------------------------------------ *)
(** * Fixed-width codecs *)

Lemma rd_upd_eq b i v : (i < length b)%nat -> rd (upd b i v) i = Some v.
Proof. apply nth_error_upd_eq. Qed.

Lemma rd_upd_neq b i j v : i <> j -> rd (upd b i v) j = rd b j.
Proof. apply nth_error_upd_neq. Qed.

Ltac rd_solve :=
  repeat first
    [ rewrite rd_upd_eq by (rewrite ?upd_length; lia)
    | rewrite rd_upd_neq by lia ].

Lemma parse_write_u16 : forall b off v,
  (off + 2 <= length b)%nat -> 0 <= v < 65536 ->
  let (b', o') := write_u16 b off v in
  parse_u16 b' off = Some (v, (off + 2)%nat) /\ o' = (off + 2)%nat /\
  rd b' off = Some (v mod 256) /\ rd b' (off + 1) = Some (v / 256) /\
  length b' = length b /\
  forall j, j <> off -> j <> (off + 1)%nat -> rd b' j = rd b j.
Proof.
  intros b off v Hlen Hv. unfold write_u16. cbv zeta.
  rewrite (Z.mod_small v 65536) by lia.
  assert (R0 : rd (upd (upd b off (v mod 256)) (off + 1) (v / 256)) off = Some (v mod 256))
    by (rd_solve; reflexivity).
  assert (R1 : rd (upd (upd b off (v mod 256)) (off + 1) (v / 256)) (off + 1) = Some (v / 256))
    by (rd_solve; reflexivity).
  repeat split; auto.
  - unfold parse_u16. rewrite R0, R1. unfold le16. do 2 f_equal. lia.
  - rewrite !upd_length. reflexivity.
  - intros j H0 H1. rd_solve. reflexivity.
Qed.

Lemma parse_write_i16 : forall b off v,
  (off + 2 <= length b)%nat -> -32768 <= v < 32768 ->
  let (b', o') := write_i16 b off v in
  parse_i16 b' off = Some (v, (off + 2)%nat) /\ o' = (off + 2)%nat /\
  length b' = length b /\
  forall j, j <> off -> j <> (off + 1)%nat -> rd b' j = rd b j.
Proof.
  intros b off v Hlen Hv. unfold write_i16.
  pose proof (parse_write_u16 b off (v mod 65536) Hlen ltac:(lia)) as H.
  unfold write_u16 in *. cbv zeta in *.
  rewrite (Z.mod_small (v mod 65536) 65536) in H by lia.
  destruct H as (Hp & _ & _ & _ & Hl & Hj).
  repeat split; auto.
  unfold parse_i16. rewrite Hp. unfold sx16. do 2 f_equal.
  destruct (Z.ltb_spec (v mod 65536) 32768); lia.
Qed.

Lemma parse_write_u32 : forall b off v,
  (off + 4 <= length b)%nat -> 0 <= v < 4294967296 ->
  let (b', o') := write_u32 b off v in
  parse_u32 b' off = Some (v, (off + 4)%nat) /\ o' = (off + 4)%nat /\
  rd b' off = Some (v mod 256) /\ rd b' (off + 1) = Some ((v / 256) mod 256) /\
  rd b' (off + 2) = Some ((v / 65536) mod 256) /\ rd b' (off + 3) = Some (v / 16777216) /\
  length b' = length b /\
  forall j, (j < off \/ off + 4 <= j)%nat -> rd b' j = rd b j.
Proof.
  intros b off v Hlen Hv. unfold write_u32. cbv zeta.
  rewrite (Z.mod_small v 4294967296) by lia.
  set (b' := upd _ (off + 3) _).
  assert (R0 : rd b' off = Some (v mod 256)) by (subst b'; rd_solve; reflexivity).
  assert (R1 : rd b' (off + 1) = Some ((v / 256) mod 256)) by (subst b'; rd_solve; reflexivity).
  assert (R2 : rd b' (off + 2) = Some ((v / 65536) mod 256)) by (subst b'; rd_solve; reflexivity).
  assert (R3 : rd b' (off + 3) = Some ((v / 16777216) mod 256)) by (subst b'; rd_solve; reflexivity).
  repeat split; auto.
  - unfold parse_u32. rewrite R0, R1, R2, R3. unfold le32. do 2 f_equal. lia.
  - rewrite R3. f_equal. lia.
  - subst b'. rewrite !upd_length. reflexivity.
  - intros j Hj. subst b'. rd_solve. reflexivity.
Qed.

Lemma parse_write_i32 : forall b off v,
  (off + 4 <= length b)%nat -> -2147483648 <= v < 2147483648 ->
  let (b', o') := write_i32 b off v in
  parse_i32 b' off = Some (v, (off + 4)%nat) /\ o' = (off + 4)%nat /\
  length b' = length b /\
  forall j, (j < off \/ off + 4 <= j)%nat -> rd b' j = rd b j.
Proof.
  intros b off v Hlen Hv. unfold write_i32.
  pose proof (parse_write_u32 b off (v mod 4294967296) Hlen ltac:(lia)) as H.
  unfold write_u32 in *. cbv zeta in *.
  rewrite (Z.mod_small (v mod 4294967296) 4294967296) in H by lia.
  destruct H as (Hp & _ & _ & _ & _ & _ & Hl & Hj).
  repeat split; auto.
  unfold parse_i32. rewrite Hp. unfold sx32. do 2 f_equal.
  destruct (Z.ltb_spec (v mod 4294967296) 2147483648); lia.
Qed.

(* ------------------------------------------------------------------ *)
(** * RGB565 *)

Lemma rgb565_roundtrip : forall c, 0 <= c < 65536 -> encode_rgb565 (decode_rgb565 c) = c.
Proof.
  intros c Hc. apply Z.eqb_eq.
  apply (sweep 65536 (fun c => encode_rgb565 (decode_rgb565 c) =? c)); [|exact Hc].
  vm_compute; reflexivity.
Qed.

(* the encoder applied to already-reduced fields R (5 bits), G (6), B (5),
   recovered from the code c = 2048 R + 32 G + B *)
Definition pack565 (R G B : Z) : Z :=
  Z.lor (Z.lor (Z.shiftl R 11) (Z.shiftl G 5)) B.

Lemma decode_pack565_code : forall c, 0 <= c < 65536 ->
  let R := c / 2048 in let G := (c / 32) mod 64 in let B := c mod 32 in
  decode_rgb565 (pack565 R G B) = mkrgb (8 * R) (4 * G) (8 * B).
Proof.
  intros c Hc.
  assert (H : (let R := c / 2048 in let G := (c / 32) mod 64 in let B := c mod 32 in
               rgb_eqb (decode_rgb565 (pack565 R G B)) (mkrgb (8 * R) (4 * G) (8 * B))) = true).
  { apply (sweep 65536 (fun c => let R := c / 2048 in let G := (c / 32) mod 64 in let B := c mod 32 in
               rgb_eqb (decode_rgb565 (pack565 R G B)) (mkrgb (8 * R) (4 * G) (8 * B)))); [|exact Hc].
    vm_compute; reflexivity. }
  cbv zeta in *. unfold rgb_eqb in H.
  apply andb_prop in H. destruct H as [H Hb]. apply andb_prop in H. destruct H as [Hr Hg].
  apply Z.eqb_eq in Hr, Hg, Hb.
  destruct (decode_rgb565 _) as [r g b]. cbn [red green blue] in *. congruence.
Qed.

Lemma rgb565_keeps_top_bits : forall r g b,
  0 <= r < 256 -> 0 <= g < 256 -> 0 <= b < 256 ->
  decode_rgb565 (encode_rgb565 (mkrgb r g b)) = mkrgb (8 * (r / 8)) (4 * (g / 4)) (8 * (b / 8)).
Proof.
  intros r g b Hr Hg Hb.
  unfold encode_rgb565. cbn [red green blue].
  rewrite !Z.shiftr_div_pow2 by lia.
  change 31 with (Z.ones 5). change 63 with (Z.ones 6).
  rewrite !Z.land_ones by lia.
  change (2 ^ 3) with 8. change (2 ^ 2) with 4. change (2 ^ 5) with 32. change (2 ^ 6) with 64.
  rewrite (Z.mod_small (r / 8) 32) by lia.
  rewrite (Z.mod_small (g / 4) 64) by lia.
  rewrite (Z.mod_small (b / 8) 32) by lia.
  pose proof (decode_pack565_code (2048 * (r / 8) + 32 * (g / 4) + b / 8) ltac:(lia)) as H.
  cbv zeta in H. unfold pack565 in H.
  replace ((2048 * (r / 8) + 32 * (g / 4) + b / 8) / 2048) with (r / 8) in H by lia.
  replace (((2048 * (r / 8) + 32 * (g / 4) + b / 8) / 32) mod 64) with (g / 4) in H by lia.
  replace ((2048 * (r / 8) + 32 * (g / 4) + b / 8) mod 32) with (b / 8) in H by lia.
  exact H.
Qed.
