(** Proofs for C19 (binary codecs).  Statements are used verbatim by
    Props/Properties_C19.v. *)
From SB Require Import Base.Prelude Gen.Generated Model.Codec Model.Colors Spec.CodecSpec.
From Coq Require Import ZifyBool.
Local Open Scope Z_scope.

Ltac Zify.zify_post_hook ::= Z.div_mod_to_equations.

(* ------------------------------------------------------------------ *)
(** * Finite sweeps and bit facts *)

Fixpoint all_from (n : nat) (x : Z) (p : Z -> bool) : bool :=
  match n with
  | O => true
  | S n' => p x && all_from n' (x + 1) p
  end.

Lemma all_from_spec n : forall x p, all_from n x p = true ->
  forall y, x <= y < x + Z.of_nat n -> p y = true.
Proof.
  induction n as [|n IH]; intros x p H y Hy; [lia|].
  cbn [all_from] in H. apply andb_prop in H. destruct H as [Hx Hr].
  destruct (Z.eq_dec y x) as [->|Hne]; [exact Hx|].
  apply (IH (x + 1) p Hr). lia.
Qed.

Lemma sweep (N : Z) (p : Z -> bool) :
  all_from (Z.to_nat N) 0 p = true ->
  forall x, 0 <= x < N -> p x = true.
Proof. intros H x Hx. apply (all_from_spec _ _ _ H). lia. Qed.

Lemma land128_byte x : 0 <= x < 256 -> (Z.land x 128 =? 0) = (x <? 128).
Proof.
  intros Hx. apply Bool.eqb_prop.
  apply (sweep 256 (fun x => Bool.eqb (Z.land x 128 =? 0) (x <? 128))); [|exact Hx].
  vm_cast_no_check (eq_refl true).
Qed.

Lemma land127 x : Z.land x 127 = x mod 128.
Proof. change 127 with (Z.ones 7). rewrite Z.land_ones by lia. reflexivity. Qed.

(* ------------------------------------------------------------------ *)
(** * Fixed-width codecs *)

Lemma rd_upd_eq b i v : (i < length b)%nat -> rd (upd b i v) i = Some v.
Proof. apply nth_error_upd_eq. Qed.

Lemma rd_upd_neq b i j v : i <> j -> rd (upd b i v) j = rd b j.
Proof. apply nth_error_upd_neq. Qed.

Ltac rd_solve :=
  repeat first
    [ rewrite rd_upd_eq by (rewrite ?upd_length; lia)
    | rewrite rd_upd_neq by lia ].

Lemma parse_write_u16 : forall b off v,
  (off + 2 <= length b)%nat -> 0 <= v < 65536 ->
  let (b', o') := write_u16 b off v in
  parse_u16 b' off = Some (v, (off + 2)%nat) /\ o' = (off + 2)%nat /\
  rd b' off = Some (v mod 256) /\ rd b' (off + 1) = Some (v / 256) /\
  length b' = length b /\
  forall j, j <> off -> j <> (off + 1)%nat -> rd b' j = rd b j.
Proof.
  intros b off v Hlen Hv. unfold write_u16. cbv zeta.
  rewrite (Z.mod_small v 65536) by lia.
  assert (R0 : rd (upd (upd b off (v mod 256)) (off + 1) (v / 256)) off = Some (v mod 256))
    by (rd_solve; reflexivity).
  assert (R1 : rd (upd (upd b off (v mod 256)) (off + 1) (v / 256)) (off + 1) = Some (v / 256))
    by (rd_solve; reflexivity).
  repeat split; auto.
  - unfold parse_u16. rewrite R0, R1. unfold le16. do 2 f_equal. lia.
  - rewrite !upd_length. reflexivity.
  - intros j H0 H1. rd_solve. reflexivity.
Qed.

Lemma parse_write_i16 : forall b off v,
  (off + 2 <= length b)%nat -> -32768 <= v < 32768 ->
  let (b', o') := write_i16 b off v in
  parse_i16 b' off = Some (v, (off + 2)%nat) /\ o' = (off + 2)%nat /\
  length b' = length b /\
  forall j, j <> off -> j <> (off + 1)%nat -> rd b' j = rd b j.
Proof.
  intros b off v Hlen Hv. unfold write_i16.
  pose proof (parse_write_u16 b off (v mod 65536) Hlen ltac:(lia)) as H.
  unfold write_u16 in *. cbv zeta in *.
  rewrite (Z.mod_small (v mod 65536) 65536) in H by lia.
  destruct H as (Hp & _ & _ & _ & Hl & Hj).
  repeat split; auto.
  unfold parse_i16. rewrite Hp. unfold sx16. do 2 f_equal.
  destruct (Z.ltb_spec (v mod 65536) 32768); lia.
Qed.

Lemma parse_write_u32 : forall b off v,
  (off + 4 <= length b)%nat -> 0 <= v < 4294967296 ->
  let (b', o') := write_u32 b off v in
  parse_u32 b' off = Some (v, (off + 4)%nat) /\ o' = (off + 4)%nat /\
  rd b' off = Some (v mod 256) /\ rd b' (off + 1) = Some ((v / 256) mod 256) /\
  rd b' (off + 2) = Some ((v / 65536) mod 256) /\ rd b' (off + 3) = Some (v / 16777216) /\
  length b' = length b /\
  forall j, (j < off \/ off + 4 <= j)%nat -> rd b' j = rd b j.
Proof.
  intros b off v Hlen Hv. unfold write_u32. cbv zeta.
  rewrite (Z.mod_small v 4294967296) by lia.
  set (b' := upd _ (off + 3) _).
  assert (R0 : rd b' off = Some (v mod 256)) by (subst b'; rd_solve; reflexivity).
  assert (R1 : rd b' (off + 1) = Some ((v / 256) mod 256)) by (subst b'; rd_solve; reflexivity).
  assert (R2 : rd b' (off + 2) = Some ((v / 65536) mod 256)) by (subst b'; rd_solve; reflexivity).
  assert (R3 : rd b' (off + 3) = Some ((v / 16777216) mod 256)) by (subst b'; rd_solve; reflexivity).
  repeat split; auto.
  - unfold parse_u32. rewrite R0, R1, R2, R3. unfold le32. do 2 f_equal. lia.
  - rewrite R3. f_equal. lia.
  - subst b'. rewrite !upd_length. reflexivity.
  - intros j Hj. subst b'. rd_solve. reflexivity.
Qed.

Lemma parse_write_i32 : forall b off v,
  (off + 4 <= length b)%nat -> -2147483648 <= v < 2147483648 ->
  let (b', o') := write_i32 b off v in
  parse_i32 b' off = Some (v, (off + 4)%nat) /\ o' = (off + 4)%nat /\
  length b' = length b /\
  forall j, (j < off \/ off + 4 <= j)%nat -> rd b' j = rd b j.
Proof.
  intros b off v Hlen Hv. unfold write_i32.
  pose proof (parse_write_u32 b off (v mod 4294967296) Hlen ltac:(lia)) as H.
  unfold write_u32 in *. cbv zeta in *.
  rewrite (Z.mod_small (v mod 4294967296) 4294967296) in H by lia.
  destruct H as (Hp & _ & _ & _ & _ & _ & Hl & Hj).
  repeat split; auto.
  unfold parse_i32. rewrite Hp. unfold sx32. do 2 f_equal.
  destruct (Z.ltb_spec (v mod 4294967296) 2147483648); lia.
Qed.

(* ------------------------------------------------------------------ *)
(** * RGB565 *)

Lemma rgb565_roundtrip : forall c, 0 <= c < 65536 -> encode_rgb565 (decode_rgb565 c) = c.
Proof.
  intros c Hc. apply Z.eqb_eq.
  apply (sweep 65536 (fun c => encode_rgb565 (decode_rgb565 c) =? c)); [|exact Hc].
  vm_cast_no_check (eq_refl true).
Qed.

(* the encoder applied to already-reduced fields R (5 bits), G (6), B (5),
   recovered from the code c = 2048 R + 32 G + B *)
Definition pack565 (R G B : Z) : Z :=
  Z.lor (Z.lor (Z.shiftl R 11) (Z.shiftl G 5)) B.

Lemma decode_pack565_code : forall c, 0 <= c < 65536 ->
  let R := c / 2048 in let G := (c / 32) mod 64 in let B := c mod 32 in
  decode_rgb565 (pack565 R G B) = mkrgb (8 * R) (4 * G) (8 * B).
Proof.
  intros c Hc.
  assert (H : (let R := c / 2048 in let G := (c / 32) mod 64 in let B := c mod 32 in
               rgb_eqb (decode_rgb565 (pack565 R G B)) (mkrgb (8 * R) (4 * G) (8 * B))) = true).
  { apply (sweep 65536 (fun c => let R := c / 2048 in let G := (c / 32) mod 64 in let B := c mod 32 in
               rgb_eqb (decode_rgb565 (pack565 R G B)) (mkrgb (8 * R) (4 * G) (8 * B)))); [|exact Hc].
    vm_cast_no_check (eq_refl true). }
  cbv zeta in *. unfold rgb_eqb in H.
  apply andb_prop in H. destruct H as [H Hb]. apply andb_prop in H. destruct H as [Hr Hg].
  apply Z.eqb_eq in Hr, Hg, Hb.
  destruct (decode_rgb565 _) as [r g b]. cbn [red green blue] in *. congruence.
Qed.

Lemma rgb565_keeps_top_bits : forall r g b,
  0 <= r < 256 -> 0 <= g < 256 -> 0 <= b < 256 ->
  decode_rgb565 (encode_rgb565 (mkrgb r g b)) = mkrgb (8 * (r / 8)) (4 * (g / 4)) (8 * (b / 8)).
Proof.
  intros r g b Hr Hg Hb.
  unfold encode_rgb565. cbn [red green blue].
  rewrite !Z.shiftr_div_pow2 by lia.
  change 31 with (Z.ones 5). change 63 with (Z.ones 6).
  rewrite !Z.land_ones by lia.
  change (2 ^ 3) with 8. change (2 ^ 2) with 4. change (2 ^ 5) with 32. change (2 ^ 6) with 64.
  rewrite (Z.mod_small (r / 8) 32) by lia.
  rewrite (Z.mod_small (g / 4) 64) by lia.
  rewrite (Z.mod_small (b / 8) 32) by lia.
  pose proof (decode_pack565_code (2048 * (r / 8) + 32 * (g / 4) + b / 8) ltac:(lia)) as H.
  cbv zeta in H. unfold pack565 in H.
  replace ((2048 * (r / 8) + 32 * (g / 4) + b / 8) / 2048) with (r / 8) in H by lia.
  replace (((2048 * (r / 8) + 32 * (g / 4) + b / 8) / 32) mod 64) with (g / 4) in H by lia.
  replace ((2048 * (r / 8) + 32 * (g / 4) + b / 8) mod 32) with (b / 8) in H by lia.
  exact H.
Qed.

(* ------------------------------------------------------------------ *)
(** * Variable-length unsigned integers: reads stay below [n] *)

Lemma nth_error_firstn_lt : forall n (l : list Z) i,
  (i < n)%nat -> nth_error (firstn n l) i = nth_error l i.
Proof.
  induction n as [|n IH]; intros [|h t] [|i] H; cbn; auto; try lia.
  apply IH. lia.
Qed.

Lemma rd_firstn_eq b b' n off :
  firstn n b = firstn n b' -> (off < n)%nat -> rd b off = rd b' off.
Proof.
  intros H Hlt. unfold rd.
  rewrite <- (nth_error_firstn_lt n b off Hlt), <- (nth_error_firstn_lt n b' off Hlt), H.
  reflexivity.
Qed.

Lemma vu_drain_firstn b b' n : firstn n b = firstn n b' ->
  forall fuel off byte, vu_drain fuel b n off byte = vu_drain fuel b' n off byte.
Proof.
  intros H. induction fuel as [|f IH]; intros off byte; cbn [vu_drain];
    destruct (Z.land byte 128 =? 0); auto;
    destruct (Nat.leb_spec n off); auto.
  rewrite (rd_firstn_eq b b' n off H) by lia.
  destruct (rd b' off); auto.
Qed.

Lemma vu_loop_firstn b b' n : firstn n b = firstn n b' ->
  forall fuel off value nb bl,
  vu_loop fuel b n off value nb bl = vu_loop fuel b' n off value nb bl.
Proof.
  intros H. induction fuel as [|f IH]; intros off value nb bl; cbn [vu_loop]; auto.
  destruct (Nat.leb_spec n off); auto.
  rewrite (rd_firstn_eq b b' n off H) by lia.
  destruct (rd b' off) as [byte|]; auto.
  rewrite !(vu_drain_firstn b b' n H). rewrite IH. reflexivity.
Qed.

Lemma varuint_reads_below_n : forall b b' n off,
  firstn n b = firstn n b' ->
  parse_varuint32 b n off = parse_varuint32 b' n off.
Proof. intros. unfold parse_varuint32. apply vu_loop_firstn. assumption. Qed.

(* ------------------------------------------------------------------ *)
(** * Never out of bounds (no well-formedness needed) *)

Lemma rd_some b off : (off < length b)%nat -> exists x, rd b off = Some x.
Proof.
  intros H. unfold rd. destruct (nth_error b off) eqn:E; eauto.
  apply nth_error_None in E. lia.
Qed.

Lemma vu_drain_no_oob b n : (n <= length b)%nat ->
  forall fuel off byte o, (n < fuel + off)%nat ->
  vu_drain fuel b n off byte <> VuOOB o.
Proof.
  intros Hn. induction fuel as [|f IH]; intros off byte o Hf; cbn [vu_drain];
    destruct (Z.land byte 128 =? 0); try discriminate;
    destruct (Nat.leb_spec n off); try discriminate; try lia.
  destruct (rd_some b off ltac:(lia)) as [x ->]. apply IH. lia.
Qed.

Lemma vu_loop_no_oob b n : (n <= length b)%nat ->
  forall fuel off value k o, 0 <= k <= 4 -> 5 <= Z.of_nat fuel + k ->
  vu_loop fuel b n off value (7 * k) (32 - 7 * k) <> VuOOB o.
Proof.
  intros Hn. induction fuel as [|f IH]; intros off value k o Hk Hf; [lia|].
  cbn [vu_loop].
  destruct (Nat.leb_spec n off); try discriminate.
  destruct (rd_some b off ltac:(lia)) as [x ->].
  destruct (_ && _).
  { apply vu_drain_no_oob; auto. lia. }
  destruct (Z.land x 128 =? 0); try discriminate.
  destruct (Z.ltb_spec 31 (7 * k + 7)).
  { apply vu_drain_no_oob; auto. lia. }
  replace (7 * k + 7) with (7 * (k + 1)) by ring.
  replace (32 - 7 * k - 7) with (32 - 7 * (k + 1)) by ring.
  apply IH; lia.
Qed.

Lemma varuint_never_oob : forall b n off,
  (n <= length b)%nat ->
  forall o, parse_varuint32 b n off <> VuOOB o.
Proof.
  intros b n off Hn o. unfold parse_varuint32.
  apply (vu_loop_no_oob b n Hn 6 off 0 0 o); lia.
Qed.

(* ------------------------------------------------------------------ *)
(** * The decoder computes the declarative reading *)

Lemma skipn_nth_cons : forall off (b : list Z) x,
  nth_error b off = Some x -> skipn off b = x :: skipn (S off) b.
Proof.
  induction off as [|off IH]; intros [|h t] x H; cbn in H; try discriminate.
  - injection H as ->. reflexivity.
  - cbn [skipn]. rewrite (IH t x H). reflexivity.
Qed.

Lemma window_cons (b : list Z) n off x : (off < n)%nat -> rd b off = Some x ->
  firstn (n - off) (skipn off b) = x :: firstn (n - S off) (skipn (S off) b).
Proof.
  intros Hlt Hx. rewrite (skipn_nth_cons off b x Hx).
  replace (n - off)%nat with (S (n - S off)) by lia. reflexivity.
Qed.

Lemma window_nil (b : list Z) n off : (n <= off)%nat -> firstn (n - off) (skipn off b) = [].
Proof. intros H. replace (n - off)%nat with 0%nat by lia. reflexivity. Qed.

Lemma rd_wf b off x : wf_bytes b = true -> rd b off = Some x -> 0 <= x < 256.
Proof.
  intros Hwf Hx. apply wf_bytes_forall in Hwf. rewrite Forall_forall in Hwf.
  apply Hwf. eapply nth_error_In. exact Hx.
Qed.

Lemma vu_drain_spec b n : wf_bytes b = true -> (n <= length b)%nat ->
  forall fuel off byte, 0 <= byte < 256 -> (off <= n)%nat -> (n < fuel + off)%nat ->
  vu_drain fuel b n off byte =
  if byte <? 128 then VuErr SB_EOVERFLOW off
  else match take_enc (firstn (n - off) (skipn off b)) with
       | None => VuErr SB_EPARSE n
       | Some e => VuErr SB_EOVERFLOW (off + length e)
       end.
Proof.
  intros Hwf Hn. induction fuel as [|f IH]; intros off byte Hb Ho Hf; [lia|].
  cbn [vu_drain]. rewrite (land128_byte byte Hb).
  destruct (byte <? 128); auto.
  destruct (Nat.leb_spec n off).
  - rewrite window_nil by lia. cbn [take_enc]. f_equal. lia.
  - destruct (rd_some b off ltac:(lia)) as [x Hx]. rewrite Hx.
    rewrite (window_cons b n off x) by (auto; lia). cbn [take_enc].
    rewrite IH by (eauto using rd_wf; lia).
    destruct (x <? 128).
    + cbn [length]. f_equal. lia.
    + destruct (take_enc _); auto. cbn [length]. f_equal. lia.
Qed.

Ltac normk k :=
  let a := eval vm_compute in (32 - 7 * k) in
  let p := eval vm_compute in (2 ^ (7 * k)) in
  let q := eval vm_compute in (2 ^ (32 - 7 * k)) in
  let c := eval vm_compute in (7 * k) in
  let d := eval vm_compute in (7 * k + 7) in
  let e := eval vm_compute in (32 - 7 * k - 7) in
  change (2 ^ (32 - 7 * k)) with q in *;
  change (2 ^ (7 * k)) with p in *;
  change (32 - 7 * k - 7) with e in *;
  change (7 * k + 7) with d in *;
  change (32 - 7 * k) with a in *;
  change (7 * k) with c in *.


Ltac fin_if :=
  repeat match goal with
  | |- context [Z.leb ?a ?b] => destruct (Z.leb_spec a b)
  | |- context [Z.ltb ?a ?b] => destruct (Z.ltb_spec a b)
  end; cbn [andb]; try (exfalso; lia); f_equal; lia.

Ltac step_low k kk x off IH :=
  normk k;
  let value' := fresh "value'" in
  match goal with |- context [vu_loop _ _ _ _ ?v _ _] => set (value' := v) end;
  match goal with |- context [?a <? 7] => destruct (Z.ltb_spec a 7); [exfalso; lia|] end;
  cbn [andb];
  match goal with |- context [31 <? ?d] => destruct (Z.ltb_spec 31 d); [exfalso; lia|] end;
  destruct (Z.ltb_spec x 128);
  [ cbn [length value_of]; subst value'; fin_if
  | let Hb := fresh "Hb" in
    assert (Hb : 0 <= value' < 2 ^ (7 * kk))
      by (let p := eval vm_compute in (2 ^ (7 * kk)) in change (2 ^ (7 * kk)) with p;
          subst value'; lia);
    match goal with |- context [vu_loop ?f ?b ?n ?o value' ?a ?c] =>
      change (vu_loop f b n o value' a c) with (vu_loop f b n o value' (7 * kk) (32 - 7 * kk)) end;
    rewrite (IH (S off) kk value' ltac:(lia) ltac:(lia) Hb);
    normk kk;
    destruct (take_enc _) as [e|]; [| f_equal; lia];
    cbn [length value_of];
    generalize dependent (value_of e); intros V;
    subst value'; fin_if ].

Lemma take_enc_nonempty : forall s e, take_enc s = Some e -> (1 <= length e)%nat.
Proof.
  intros [|x t] e H; cbn [take_enc] in H; [discriminate|].
  destruct (x <? 128); [injection H as <-; cbn; lia|].
  destruct (take_enc t); [injection H as <-; cbn; lia|discriminate].
Qed.

Lemma vu_loop_spec b n : wf_bytes b = true -> (n <= length b)%nat ->
  forall fuel off k value, 0 <= k <= 4 -> 5 <= Z.of_nat fuel + k ->
  0 <= value < 2 ^ (7 * k) ->
  vu_loop fuel b n off value (7 * k) (32 - 7 * k) =
  match take_enc (firstn (n - off) (skipn off b)) with
  | None => VuErr SB_EPARSE (Nat.max off n)
  | Some e =>
    if (Z.of_nat (length e) + k <=? 5) && (value + 2 ^ (7 * k) * value_of e <? 4294967296)
    then VuOk (value + 2 ^ (7 * k) * value_of e) (off + length e)
    else VuErr SB_EOVERFLOW (off + length e)
  end.
Proof.
  intros Hwf Hn. induction fuel as [|f IH]; intros off k value Hk Hf Hv; [lia|].
  cbn [vu_loop].
  destruct (Nat.leb_spec n off).
  { rewrite window_nil by lia. cbn [take_enc]. f_equal. lia. }
  destruct (rd_some b off ltac:(lia)) as [x Hx]. rewrite Hx.
  pose proof (rd_wf b off x Hwf Hx) as Hxb.
  rewrite (window_cons b n off x) by (auto; lia). cbn [take_enc].
  rewrite (land128_byte x Hxb), land127.
  rewrite Z.shiftr_div_pow2, Z.shiftl_mul_pow2 by lia.
  rewrite (vu_drain_spec b n Hwf Hn n (S off) x Hxb) by lia.
  assert (Hk' : k = 0 \/ k = 1 \/ k = 2 \/ k = 3 \/ k = 4) by lia.
  destruct Hk' as [-> | [-> | [-> | [-> | ->]]]].
  - step_low 0 1 x off IH.
  - step_low 1 2 x off IH.
  - step_low 2 3 x off IH.
  - step_low 3 4 x off IH.
  - normk 4. change (4 <? 7) with true. change (31 <? 35) with true. cbn [andb].
    destruct (Z.ltb_spec x 128).
    + cbn [length value_of]. fin_if.
    + destruct (take_enc _) as [e|] eqn:E; cbn [length value_of]; [|fin_if].
      pose proof (take_enc_nonempty _ _ E). fin_if.
Qed.

Lemma varuint_spec_holds : forall b n off,
  wf_bytes b = true -> (n <= length b)%nat ->
  parse_varuint32 b n off = varuint_spec b n off.
Proof.
  intros b n off Hwf Hn. unfold parse_varuint32, varuint_spec. cbv zeta.
  change (vu_loop 6 b n off 0 0 32) with (vu_loop 6 b n off 0 (7 * 0) (32 - 7 * 0)).
  rewrite (vu_loop_spec b n Hwf Hn 6 off 0 0) by (change (2 ^ (7 * 0)) with 1; lia).
  change (2 ^ (7 * 0)) with 1.
  destruct (take_enc _) as [e|]; [|reflexivity].
  replace (0 + 1 * value_of e) with (value_of e) by lia.
  replace (Z.of_nat (length e) + 0 <=? 5) with (length e <=? 5)%nat; [reflexivity|].
  destruct (Nat.leb_spec (length e) 5); destruct (Z.leb_spec (Z.of_nat (length e) + 0) 5); auto; lia.
Qed.

Lemma varuint_examples :
  parse_varuint32 [255; 255; 255; 255; 15; 7] 6 0 = VuOk 4294967295 5 /\
  parse_varuint32 [128; 128; 128; 128; 128; 0; 9] 7 0 = VuErr SB_EOVERFLOW 6 /\
  parse_varuint32 [128; 128; 128] 3 0 = VuErr SB_EPARSE 3.
Proof. repeat split; vm_compute; reflexivity. Qed.
