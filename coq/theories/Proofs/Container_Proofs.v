(** Proofs for C04 (show-file container).  Statements are used verbatim by
    Props/Properties_C04.v. *)
From SB Require Import Base.Prelude Gen.Generated Model.Crc Model.Container Spec.CrcSpec Spec.ContainerSpec.
From Coq Require Import ZifyBool.
Local Open Scope Z_scope.

Opaque crc32_tab.

Definition same_file (p q : parser) : Prop :=
  p_bytes q = p_bytes p /\ p_route q = p_route p /\ p_start q = p_start p.

(* ------------------------------------------------------------------ *)
(** * List facts *)

Lemma skipn_add {A} (n k : nat) (l : list A) : skipn (n + k) l = skipn k (skipn n l).
Proof.
  revert l; induction n as [|n IH]; intros l; simpl; [reflexivity|].
  destruct l as [|x l]; [rewrite skipn_nil; reflexivity|apply IH].
Qed.

Lemma skipn_len_eq {A} (n : nat) (l r : list A) :
  skipn n l = r -> (length r = length l - n)%nat.
Proof. intros <-. apply skipn_length. Qed.

Lemma skipn_app_exact {A} (n : nat) (l1 l2 : list A) :
  n = length l1 -> skipn n (l1 ++ l2) = l2.
Proof.
  intros ->. rewrite skipn_app, skipn_all, Nat.sub_diag. reflexivity.
Qed.

Lemma firstn_app_exact {A} (n : nat) (l1 l2 : list A) :
  n = length l1 -> firstn n (l1 ++ l2) = l1.
Proof.
  intros ->. rewrite firstn_app, firstn_all, Nat.sub_diag. simpl. apply app_nil_r.
Qed.

(* ------------------------------------------------------------------ *)
(** * File abstraction *)

(** Position invariant of the memory route. *)
Definition pos_ok (p : parser) : Prop :=
  p_route p = Mem -> (p_pos p <= length (p_bytes p))%nat.

Lemma f_read_eq p n : pos_ok p ->
  f_read p n =
  (firstn n (skipn (p_pos p) (p_bytes p)),
   set_pos p (p_pos p + length (firstn n (skipn (p_pos p) (p_bytes p))))).
Proof.
  intros Hp. unfold f_read. destruct (p_route p) eqn:Er; [|reflexivity].
  specialize (Hp Er). f_equal. f_equal.
  rewrite firstn_length, skipn_length. lia.
Qed.

(** What a block header read at a given position yields. *)
Definition header_result (p : parser) : res parser :=
  match skipn (p_pos p) (p_bytes p) with
  | [] => Ok (mkparser (p_route p) (p_bytes p) (p_pos p) (p_version p) (p_features p)
                       (p_start p) 0 0 0)
  | ty :: l0 :: l1 :: _ =>
    Ok (mkparser (p_route p) (p_bytes p) (p_pos p + 3) (p_version p) (p_features p)
                 (p_start p) ty (Z.to_nat (le16 l0 l1)) (p_pos p + 3))
  | _ => Err SB_EREAD
  end.

Lemma header_at p : pos_ok p -> read_next_block_header p = header_result p.
Proof.
  intros Hp. unfold read_next_block_header, header_result.
  rewrite (f_read_eq p 1 Hp).
  destruct (skipn (p_pos p) (p_bytes p)) as [|ty rest] eqn:E.
  - simpl. unfold set_block, set_pos. simpl. rewrite Nat.add_0_r. reflexivity.
  - pose proof (skipn_len_eq _ _ _ E) as HL. simpl in HL.
    cbn [firstn length].
    assert (Hp1 : pos_ok (set_pos p (p_pos p + 1))).
    { intros _. simpl. lia. }
    rewrite (f_read_eq _ 2 Hp1). cbn [set_pos p_pos p_bytes].
    rewrite skipn_add, E. cbn [skipn].
    destruct rest as [|l0 [|l1 rest]]; cbn [firstn length]; try reflexivity.
    unfold set_block, set_pos. simpl. do 2 f_equal; lia.
Qed.

(* ------------------------------------------------------------------ *)
(** * Reading the current block *)

(** The statement of [read_block_spec] in Props/Properties_C04.v is false on
    the descriptor route for an empty block whose body offset lies beyond the
    end of the data (see [read_block_counterexample]); it holds when the body
    offset is within the data. *)
Example read_block_counterexample :
  let q := mkparser Fd [] 0 0 0 0 1 0 1 in
  block_valid q = true /\
  read_current_block q = Ok ([], mkparser Fd [] 1 0 0 0 1 0 1) /\
  read_current_block_ex q = Ok ([], true, mkparser Fd [] 1 0 0 0 1 0 1) /\
  body_of (p_bytes q) (mkblock (p_type q) (p_len q) (p_body q)) = None.
Proof. vm_compute. repeat split. Qed.

Lemma read_current_block_char q : block_valid q = true ->
  (p_route q = Fd -> p_len q = 0%nat -> p_body q <= length (p_bytes q))%nat ->
  match read_current_block q, body_of (p_bytes q) (mkblock (p_type q) (p_len q) (p_body q)) with
  | Ok (got, _), Some body => got = body
  | Err e, None => e = SB_EREAD
  | _, _ => False
  end.
Proof.
  intros Hv Hfd. unfold read_current_block, body_of. rewrite Hv.
  cbn [b_body b_len].
  unfold f_seek. destruct (p_route q) eqn:Er.
  - destruct (length (p_bytes q) <? p_body q)%nat eqn:E1.
    + cbn [bind]. destruct (length (p_bytes q) <? p_body q + p_len q)%nat eqn:E2; [reflexivity|lia].
    + cbn [bind].
      assert (Hp : pos_ok (set_pos q (p_body q))) by (intros _; simpl; lia).
      rewrite (f_read_eq _ _ Hp). cbn [set_pos p_pos p_bytes p_len].
      rewrite firstn_length, skipn_length.
      destruct (length (p_bytes q) <? p_body q + p_len q)%nat eqn:E2.
      * destruct (Nat.min (p_len q) (length (p_bytes q) - p_body q) =? p_len q)%nat eqn:E3; [lia|reflexivity].
      * destruct (Nat.min (p_len q) (length (p_bytes q) - p_body q) =? p_len q)%nat eqn:E3; [reflexivity|lia].
  - cbn [bind].
    assert (Hp : pos_ok (set_pos q (p_body q))) by (intros Hm; simpl in Hm; congruence).
    rewrite (f_read_eq _ _ Hp). cbn [set_pos p_pos p_bytes p_len].
    rewrite firstn_length, skipn_length.
    specialize (Hfd eq_refl).
    destruct (length (p_bytes q) <? p_body q + p_len q)%nat eqn:E2.
    + destruct (Nat.min (p_len q) (length (p_bytes q) - p_body q) =? p_len q)%nat eqn:E3; [lia|reflexivity].
    + destruct (Nat.min (p_len q) (length (p_bytes q) - p_body q) =? p_len q)%nat eqn:E3; [reflexivity|lia].
Qed.

Lemma read_block_spec' : forall q, block_valid q = true ->
  (p_body q <= length (p_bytes q))%nat ->
  let b := mkblock (p_type q) (p_len q) (p_body q) in
  match read_current_block q, body_of (p_bytes q) b with
  | Ok (got, _), Some body => got = body
  | Err e, None => e = SB_EREAD
  | _, _ => False
  end.
Proof.
  intros q Hv Hb b. apply read_current_block_char; [exact Hv|intros _ _; exact Hb].
Qed.

Lemma read_block_ex_char q : block_valid q = true ->
  (p_route q = Fd -> p_len q = 0%nat -> p_body q <= length (p_bytes q))%nat ->
  match read_current_block_ex q, body_of (p_bytes q) (mkblock (p_type q) (p_len q) (p_body q)) with
  | Ok (got, owned, _), Some body => got = body /\ owned = (match p_route q with Fd => true | Mem => false end)
  | Err e, None => e = SB_EREAD
  | _, _ => False
  end.
Proof.
  intros Hv Hfd. pose proof (read_current_block_char q Hv Hfd) as H.
  unfold read_current_block_ex. destruct (p_route q) eqn:Er.
  - rewrite Hv. cbn [negb orb]. unfold body_of. cbn [b_body b_len].
    destruct (length (p_bytes q) <? p_body q + p_len q)%nat eqn:E2; [reflexivity|split; reflexivity].
  - destruct (read_current_block q) as [[got p1]|e| |]; cbn [bind];
      destruct (body_of (p_bytes q) (mkblock (p_type q) (p_len q) (p_body q))); try exact H.
    split; [exact H|reflexivity].
Qed.

Lemma read_block_ex_spec' : forall q, block_valid q = true ->
  (p_body q <= length (p_bytes q))%nat ->
  let b := mkblock (p_type q) (p_len q) (p_body q) in
  match read_current_block_ex q, body_of (p_bytes q) b with
  | Ok (got, owned, _), Some body => got = body /\ owned = (match p_route q with Fd => true | Mem => false end)
  | Err e, None => e = SB_EREAD
  | _, _ => False
  end.
Proof.
  intros q Hv Hb b. apply read_block_ex_char; [exact Hv|intros _ _; exact Hb].
Qed.

(* ------------------------------------------------------------------ *)
(** * Non-vacuity *)

Example container_example :
  let bytes := enc_header_v1 ++ flat_map enc_block [(3, [1; 2]); (200, []); (1, [9; 9; 9])] in
  match parser_init Mem bytes with
  | Ok p => fst (walk 50 p) = [mkblock 3 2 8; mkblock 200 0 13; mkblock 1 3 16]
  | _ => False
  end.
Proof. vm_compute. reflexivity. Qed.

(* ------------------------------------------------------------------ *)
(** * Whole-file checksum: chunked reading equals one pass *)

Lemma crc_chunks_nil b crc : crc_chunks b [] crc = crc.
Proof. reflexivity. Qed.

Lemma crc_chunks_cons b c cs crc :
  crc_chunks b (c :: cs) crc = crc_chunks false cs (crc_update crc (if b then zero_6_9 c else c)).
Proof. reflexivity. Qed.

Lemma crc_update_app crc l1 l2 :
  crc_update crc (l1 ++ l2) = crc_update (crc_update crc l1) l2.
Proof. unfold crc_update. apply fold_left_app. Qed.

Lemma crc_chunks_rest fuel : forall l crc, (length l < fuel)%nat ->
  crc_chunks false (split_chunks fuel l) crc = crc_update crc l.
Proof.
  induction fuel as [|f IH]; intros l crc Hl; [lia|].
  cbn [split_chunks]. rewrite firstn_length.
  destruct (Nat.min 256 (length l) <? 256)%nat eqn:E.
  - rewrite crc_chunks_cons, crc_chunks_nil. rewrite firstn_all2 by lia. reflexivity.
  - rewrite crc_chunks_cons. rewrite IH by (rewrite skipn_length; lia).
    rewrite <- crc_update_app, firstn_skipn. reflexivity.
Qed.

Lemma upd_app_l (l1 l2 : list Z) i v : (i < length l1)%nat -> upd (l1 ++ l2) i v = upd l1 i v ++ l2.
Proof.
  revert i; induction l1 as [|h t IH]; intros [|i] H; simpl in *; try lia; [reflexivity|].
  rewrite IH by lia. reflexivity.
Qed.

Lemma file_crc_is_crc_of_zeroed : forall bytes, file_crc bytes = crc_update 0 (zero_field bytes).
Proof.
  intros bytes. unfold file_crc. cbn [split_chunks]. rewrite firstn_length.
  destruct (Nat.min 256 (length bytes) <? 256)%nat eqn:E.
  - rewrite crc_chunks_cons, crc_chunks_nil. rewrite firstn_all2 by lia. reflexivity.
  - rewrite crc_chunks_cons. rewrite crc_chunks_rest by (rewrite skipn_length; lia).
    rewrite <- crc_update_app. f_equal.
    unfold zero_6_9, zero_field. rewrite firstn_length.
    destruct (10 <=? Nat.min 256 (length bytes))%nat eqn:E1; [|lia].
    destruct (10 <=? length bytes)%nat eqn:E2; [|lia].
    assert (HL : length (firstn 256 bytes) = 256%nat) by (rewrite firstn_length; lia).
    pose proof (firstn_skipn 256 bytes) as Hfs.
    remember (firstn 256 bytes) as c eqn:Hc. remember (skipn 256 bytes) as s eqn:Hs.
    rewrite <- Hfs.
    rewrite !upd_app_l; rewrite ?upd_length; try lia. reflexivity.
Qed.

Lemma read_chunks_eq fuel : forall p, pos_ok p ->
  exists pos', read_chunks fuel p = (split_chunks fuel (skipn (p_pos p) (p_bytes p)), set_pos p pos').
Proof.
  induction fuel as [|f IH]; intros p Hp.
  - exists (p_pos p). destruct p; reflexivity.
  - cbn [read_chunks split_chunks]. rewrite (f_read_eq p 256 Hp).
    set (c := firstn 256 (skipn (p_pos p) (p_bytes p))).
    destruct (length c <? 256)%nat eqn:E.
    + eexists. reflexivity.
    + assert (Hc : length c = 256%nat).
      { pose proof (firstn_le_length 256 (skipn (p_pos p) (p_bytes p))). fold c in H. lia. }
      assert (Hp' : pos_ok (set_pos p (p_pos p + length c))).
      { intros Hm. cbn [set_pos p_pos p_bytes]. specialize (Hp Hm).
        unfold c in *. rewrite firstn_length, skipn_length in *. lia. }
      destruct (IH _ Hp') as [pos' Hr]. rewrite Hr.
      exists pos'. cbn [set_pos p_pos p_bytes p_route p_version p_features p_start p_type p_len p_body].
      rewrite Hc, skipn_add. reflexivity.
Qed.

Lemma get_crc32_eq p : pos_ok p ->
  get_crc32 p = Ok (file_crc (p_bytes p), set_pos p (p_pos p)).
Proof.
  intros Hp. unfold get_crc32.
  assert (H0 : f_seek p 0 = Ok (set_pos p 0)).
  { unfold f_seek. destruct (p_route p); reflexivity. }
  rewrite H0. cbn [bind].
  assert (Hp0 : pos_ok (set_pos p 0)) by (intros _; simpl; lia).
  destruct (read_chunks_eq (S (length (p_bytes p))) _ Hp0) as [pos' Hr].
  rewrite Hr. cbn [set_pos p_pos p_bytes p_route p_version p_features p_start p_type p_len p_body].
  rewrite skipn_O.
  unfold f_seek. cbn [set_pos p_route p_bytes]. destruct (p_route p) eqn:Er.
  - specialize (Hp Er). destruct (length (p_bytes p) <? p_pos p)%nat eqn:E; [lia|]. reflexivity.
  - reflexivity.
Qed.

(* ------------------------------------------------------------------ *)
(** * Header *)

Ltac zcase a :=
  destruct a as [|a|a]; try reflexivity;
  do 7 (destruct a as [a|a|]; try reflexivity).

Lemma header_spec_magic ver rest :
  header_spec (115 :: 107 :: 121 :: 98 :: ver :: rest) =
    if ver =? 1 then Ok (mkheader 1 0 5)
    else if ver =? 2 then
      match rest with
      | [] => Err SB_EPARSE
      | features :: rest' =>
        if Z.land features SB_BINARY_FEATURE_CRC32 =? 0 then Ok (mkheader 2 features 6)
        else match rest' with
             | c0 :: c1 :: c2 :: c3 :: _ =>
               if le32 c0 c1 c2 c3 =? crc_update 0 (zero_field (115 :: 107 :: 121 :: 98 :: ver :: rest))
               then Ok (mkheader 2 features 10) else Err SB_ECORRUPTED
             | _ => Err SB_EPARSE
             end
      end
    else Err SB_EPARSE.
Proof. reflexivity. Qed.

Lemma header_spec_bad bytes :
  list_eqb (firstn 4 bytes) magic = false -> header_spec bytes = Err SB_EPARSE.
Proof.
  intros H.
  destruct bytes as [|a bytes]; [reflexivity|].
  zcase a.
  destruct bytes as [|b bytes]; [reflexivity|].
  zcase b.
  destruct bytes as [|c bytes]; [reflexivity|].
  zcase c.
  destruct bytes as [|d bytes]; [reflexivity|].
  zcase d.
  vm_compute in H. discriminate H.
Qed.

(** The tail of [parser_init] (after the version byte and, for version 2, the
    feature byte). *)
Definition step3 (ver : Z) (p : parser) (features : Z) : res parser :=
  let with_crc := negb (Z.land features SB_BINARY_FEATURE_CRC32 =? 0) in
  let '(cb, p) := if with_crc then f_read p 4 else ([], p) in
  match with_crc, cb with
  | true, [c0; c1; c2; c3] =>
    let expected := le32 c0 c1 c2 c3 in
    let p := mkparser (p_route p) (p_bytes p) (p_pos p) ver features (p_pos p) 0 0 0 in
    '(observed, p) <- get_crc32 p ;;
    if expected =? observed then rewind p else Err SB_ECORRUPTED
  | true, _ => Err SB_EPARSE
  | false, _ =>
    let p := mkparser (p_route p) (p_bytes p) (p_pos p) ver features (p_pos p) 0 0 0 in
    rewind p
  end.

Lemma parser_init_unfold r bytes :
  parser_init r bytes =
  let p := mkparser r bytes 0 0 0 0 0 0 0 in
  let '(m, p) := f_read p 4 in
  if negb (list_eqb m magic) then Err SB_EPARSE else
  let '(v, p) := f_read p 1 in
  match v with
  | [ver] =>
    if negb ((ver =? 1) || (ver =? 2)) then Err SB_EPARSE else
    if ver =? 2 then
      let '(fb, p) := f_read p 1 in
      match fb with
      | [features] => step3 ver p features
      | _ => Err SB_EPARSE
      end
    else step3 ver p 0
  | _ => Err SB_EPARSE
  end.
Proof. reflexivity. Qed.

Lemma step3_char ver p features : pos_ok p ->
  step3 ver p features =
  if Z.land features SB_BINARY_FEATURE_CRC32 =? 0
  then rewind (mkparser (p_route p) (p_bytes p) (p_pos p) ver features (p_pos p) 0 0 0)
  else match skipn (p_pos p) (p_bytes p) with
       | c0 :: c1 :: c2 :: c3 :: _ =>
         if le32 c0 c1 c2 c3 =? crc_update 0 (zero_field (p_bytes p))
         then rewind (mkparser (p_route p) (p_bytes p) (p_pos p + 4) ver features (p_pos p + 4) 0 0 0)
         else Err SB_ECORRUPTED
       | _ => Err SB_EPARSE
       end.
Proof.
  intros Hp. unfold step3.
  destruct (Z.land features SB_BINARY_FEATURE_CRC32 =? 0) eqn:Ef; cbn [negb]; [reflexivity|].
  rewrite (f_read_eq p 4 Hp).
  destruct (skipn (p_pos p) (p_bytes p)) as [|c0 [|c1 [|c2 [|c3 rest]]]] eqn:E;
    cbn [firstn length]; try reflexivity.
  cbn [set_pos p_pos p_bytes p_route].
  pose proof (skipn_len_eq _ _ _ E) as HL. cbn [length] in HL.
  rewrite get_crc32_eq by (intros Hm; specialize (Hp Hm); cbn [p_pos p_bytes]; lia).
  cbn [bind p_bytes p_pos set_pos p_route p_version p_features p_start p_type p_len p_body].
  rewrite file_crc_is_crc_of_zeroed. reflexivity.
Qed.

Lemma list_eqb_magic bytes : list_eqb (firstn 4 bytes) magic = true ->
  exists rest, bytes = 115 :: 107 :: 121 :: 98 :: rest.
Proof.
  intros H. destruct bytes as [|a [|b [|c [|d rest]]]];
    unfold list_eqb in H; simpl in H; try discriminate H.
  exists rest. repeat f_equal; lia.
Qed.

Lemma parser_init_char r bytes :
  parser_init r bytes =
  h <- header_spec bytes ;;
  rewind (mkparser r bytes (h_start h) (h_version h) (h_features h) (h_start h) 0 0 0).
Proof.
  rewrite parser_init_unfold. cbv zeta.
  rewrite f_read_eq by (intros _; cbn [p_pos]; lia).
  cbn [p_pos p_bytes set_pos p_route p_version p_features p_start p_type p_len p_body].
  rewrite skipn_O.
  destruct (list_eqb (firstn 4 bytes) magic) eqn:Em; cbn [negb];
    [|rewrite header_spec_bad by exact Em; reflexivity].
  destruct (list_eqb_magic _ Em) as [rest ->]. clear Em.
  cbn [firstn length Nat.add].
  rewrite f_read_eq by (intros _; simpl; lia).
  cbn [p_pos p_bytes set_pos p_route p_version p_features p_start p_type p_len p_body skipn].
  destruct rest as [|ver rest]; [reflexivity|].
  cbn [firstn length Nat.add].
  rewrite header_spec_magic.
  cbn [p_pos p_bytes set_pos p_route p_version p_features p_start p_type p_len p_body].
  set (bytes := 115 :: 107 :: 121 :: 98 :: ver :: rest).
  assert (Hlen : length bytes = S (S (S (S (S (length rest)))))) by reflexivity.
  assert (Hsk : skipn 5 bytes = rest) by reflexivity.
  destruct (ver =? 1) eqn:E1.
  - assert (ver = 1) by lia. subst ver.
    change ((1 =? 1) || (1 =? 2)) with true. change (1 =? 2) with false. cbn [negb].
    rewrite step3_char by (intros _; simpl; lia).
    change (Z.land 0 SB_BINARY_FEATURE_CRC32 =? 0) with true. reflexivity.
  - destruct (ver =? 2) eqn:E2; cbn [orb negb]; [|reflexivity].
    assert (ver = 2) by lia. subst ver.
    rewrite f_read_eq by (intros _; simpl; lia).
    cbn [p_pos p_bytes set_pos p_route p_version p_features p_start p_type p_len p_body].
    rewrite Hsk.
    destruct rest as [|features rest]; [reflexivity|].
    cbn [firstn length Nat.add].
    rewrite step3_char by (intros _; simpl; lia).
    cbn [p_pos p_bytes set_pos p_route p_version p_features p_start p_type p_len p_body].
    destruct (Z.land features SB_BINARY_FEATURE_CRC32 =? 0) eqn:Ef; [reflexivity|].
    assert (Hsk6 : skipn 6 bytes = rest) by reflexivity. rewrite Hsk6.
    destruct rest as [|c0 [|c1 [|c2 [|c3 rest]]]]; try reflexivity.
    destruct (le32 c0 c1 c2 c3 =? crc_update 0 (zero_field bytes)); reflexivity.
Qed.

Lemma header_spec_res bytes :
  match header_spec bytes with
  | Ok h => (h_start h <= length bytes)%nat
  | Err _ => True
  | _ => False
  end.
Proof.
  destruct (list_eqb (firstn 4 bytes) magic) eqn:Em;
    [|rewrite header_spec_bad by exact Em; exact I].
  destruct (list_eqb_magic _ Em) as [rest ->]. clear Em.
  destruct rest as [|ver rest]; [exact I|].
  rewrite header_spec_magic.
  destruct (ver =? 1) eqn:E1; [simpl; lia|].
  destruct (ver =? 2) eqn:E2; [|exact I].
  destruct rest as [|features rest]; [exact I|].
  destruct (Z.land features SB_BINARY_FEATURE_CRC32 =? 0) eqn:Ef; [simpl; lia|].
  destruct rest as [|c0 [|c1 [|c2 [|c3 rest]]]]; try exact I.
  destruct (le32 c0 c1 c2 c3 =? _); [simpl; lia|exact I].
Qed.

Lemma rewind_char p : (p_route p = Mem -> p_start p <= length (p_bytes p))%nat ->
  rewind p = header_result (set_pos p (p_start p)).
Proof.
  intros Hs. unfold rewind, f_seek. destruct (p_route p) eqn:Er.
  - specialize (Hs eq_refl).
    destruct (length (p_bytes p) <? p_start p)%nat eqn:E; [lia|].
    cbn [bind]. apply header_at. intros _. simpl. lia.
  - cbn [bind]. apply header_at. intros Hm. simpl in Hm. congruence.
Qed.

Lemma header_result_ok p0 p : header_result p0 = Ok p ->
  p_bytes p = p_bytes p0 /\ p_route p = p_route p0 /\ p_start p = p_start p0 /\
  p_version p = p_version p0 /\ p_features p = p_features p0.
Proof.
  unfold header_result.
  destruct (skipn (p_pos p0) (p_bytes p0)) as [|ty [|l0 [|l1 rest]]];
    intros H; inversion H; subst; simpl; auto.
Qed.

Lemma init_classifies : forall r bytes, wf_bytes bytes = true ->
  match parser_init r bytes, init_spec bytes with
  | Ok p, Ok h => p_version p = h_version h /\ p_features p = h_features h /\ p_start p = h_start h
                  /\ p_bytes p = bytes /\ p_route p = r
  | Err e, Err e' => e = e'
  | _, _ => False
  end.
Proof.
  intros r bytes _. rewrite parser_init_char. unfold init_spec.
  pose proof (header_spec_res bytes) as Hh.
  destruct (header_spec bytes) as [h|e|s o|]; cbn [bind]; try contradiction; [|reflexivity].
  rewrite rewind_char by (intros _; exact Hh).
  unfold header_result.
  cbn [p_pos p_bytes set_pos p_route p_version p_features p_start p_type p_len p_body].
  destruct (skipn (h_start h) bytes) as [|ty [|l0 [|l1 rest]]]; simpl; auto.
Qed.

(* ------------------------------------------------------------------ *)
(** * Iteration *)

Definition walk' (fuel : nat) (rp : res parser) : list block * option Z :=
  match rp with
  | Ok p => walk fuel p
  | Err e => ([], Some e)
  | _ => ([], Some (-1))
  end.

Lemma walk_S f p :
  walk (S f) p =
  if block_valid p then
    let '(bs, e) := walk' f (seek_to_next_block p) in
    (mkblock (p_type p) (p_len p) (p_body p) :: bs, e)
  else ([], None).
Proof.
  cbn [walk]. destruct (block_valid p); [|reflexivity].
  destruct (seek_to_next_block p); reflexivity.
Qed.

Lemma walk_invalid f p : block_valid p = false -> walk f p = ([], None).
Proof. intros H. destruct f; [reflexivity|]. cbn [walk]. rewrite H. reflexivity. Qed.

Lemma seek_next_char p : block_valid p = true ->
  seek_to_next_block p =
  match p_route p with
  | Mem => if (length (p_bytes p) <? p_body p + p_len p)%nat then Err SB_EREAD
           else header_result (set_pos p (p_body p + p_len p))
  | Fd => header_result (set_pos p (p_body p + p_len p))
  end.
Proof.
  intros Hv. unfold seek_to_next_block, f_seek. rewrite Hv.
  destruct (p_route p) eqn:Er.
  - destruct (length (p_bytes p) <? p_body p + p_len p)%nat eqn:E; [reflexivity|].
    cbn [bind]. apply header_at. intros _. simpl. lia.
  - cbn [bind]. apply header_at. intros Hm. simpl in Hm. congruence.
Qed.

Lemma header_result_beyond p0 : (length (p_bytes p0) <= p_pos p0)%nat ->
  header_result p0 =
  Ok (mkparser (p_route p0) (p_bytes p0) (p_pos p0) (p_version p0) (p_features p0) (p_start p0) 0 0 0).
Proof.
  intros H. unfold header_result. rewrite skipn_all2 by exact H. reflexivity.
Qed.

Lemma walk_records r bytes : forall fuel p0,
  p_bytes p0 = bytes -> p_route p0 = r -> pos_ok p0 ->
  (1 <= fuel)%nat -> (length bytes < fuel + p_pos p0)%nat ->
  walk' fuel (header_result p0) =
  (fst (records fuel bytes (p_pos p0)), tail_error r (snd (records fuel bytes (p_pos p0)))).
Proof.
  induction fuel as [|f IH]; intros p0 Hb Hr Hp Hf Hl; [lia|].
  unfold header_result. cbn [records]. rewrite Hb, Hr.
  destruct (skipn (p_pos p0) bytes) as [|ty [|l0 [|l1 rest]]] eqn:E; try reflexivity.
  pose proof (skipn_len_eq _ _ _ E) as HL. cbn [length] in HL.
  generalize (Z.to_nat (le16 l0 l1)). intros len.
  cbn [walk']. rewrite walk_S.
  unfold block_valid at 1. cbn [p_type]. unfold SB_BINARY_BLOCK_NONE.
  destruct (ty =? 0) eqn:Ety; cbn [negb]; [reflexivity|].
  rewrite seek_next_char by (unfold block_valid, SB_BINARY_BLOCK_NONE; cbn [p_type]; rewrite Ety; reflexivity).
  cbn [p_pos p_bytes set_pos p_route p_version p_features p_start p_type p_len p_body].
  set (p0' := mkparser r bytes (p_pos p0 + 3 + len) (p_version p0) (p_features p0) (p_start p0)
                       ty len (p_pos p0 + 3)).
  assert (Hstep : (length bytes <? p_pos p0 + 3 + len)%nat = false ->
     walk' f (header_result p0') =
     (fst (records f bytes (p_pos p0 + 3 + len)),
      tail_error r (snd (records f bytes (p_pos p0 + 3 + len))))).
  { intros El. apply (IH p0'); try reflexivity.
    - intros _. simpl. lia.
    - lia.
    - simpl. lia. }
  destruct (length bytes <? p_pos p0 + 3 + len)%nat eqn:El.
  - destruct r.
    + reflexivity.
    + rewrite header_result_beyond by (simpl; lia).
      cbn [walk']. rewrite walk_invalid by reflexivity. reflexivity.
  - specialize (Hstep eq_refl).
    assert (Hgoal : (let '(bs, e) := walk' f (header_result p0') in
                     ({| b_type := ty; b_len := len; b_body := p_pos p0 + 3 |} :: bs, e)) =
      (fst (let '(rs, t) := records f bytes (p_pos p0 + 3 + len) in
             ({| b_type := ty; b_len := len; b_body := p_pos p0 + 3 |} :: rs, t)),
       tail_error r (snd (let '(rs, t) := records f bytes (p_pos p0 + 3 + len) in
             ({| b_type := ty; b_len := len; b_body := p_pos p0 + 3 |} :: rs, t))))).
    { rewrite Hstep. destruct (records f bytes (p_pos p0 + 3 + len)) as [rs t]. reflexivity. }
    destruct r; exact Hgoal.
Qed.

Lemma init_ok_inv r bytes p : parser_init r bytes = Ok p ->
  exists p0, header_result p0 = Ok p /\ p_bytes p0 = bytes /\ p_route p0 = r /\
             p_pos p0 = p_start p /\ p_start p0 = p_start p /\ pos_ok p0.
Proof.
  intros H. rewrite parser_init_char in H.
  pose proof (header_spec_res bytes) as Hh.
  destruct (header_spec bytes) as [h|e|s o|]; cbn [bind] in H; try discriminate H.
  rewrite rewind_char in H by (intros _; exact Hh).
  eexists. split; [exact H|].
  destruct (header_result_ok _ _ H) as (_ & _ & Hs & _).
  cbn [p_pos p_bytes set_pos p_route p_version p_features p_start p_type p_len p_body] in *.
  repeat split; auto. intros _. simpl. exact Hh.
Qed.

Lemma iteration_is_records : forall r bytes p, wf_bytes bytes = true ->
  parser_init r bytes = Ok p ->
  walk (S (length bytes)) p =
    (fst (all_records bytes (p_start p)), tail_error r (snd (all_records bytes (p_start p)))).
Proof.
  intros r bytes p _ Hinit.
  destruct (init_ok_inv _ _ _ Hinit) as (p0 & Hh & Hb & Hr & Hpos & Hst & Hp).
  unfold all_records. rewrite <- Hpos.
  rewrite <- (walk_records r bytes (S (length bytes)) p0 Hb Hr Hp) by lia.
  rewrite Hh. reflexivity.
Qed.

(* ------------------------------------------------------------------ *)
(** * Lookup *)

Definition find_outcome (r : route) (bs : list block) (t : tail) (ty : Z) : res block :=
  match first_of_type bs ty with
  | Some b => Ok b
  | None => match tail_error r t with Some e => Err e | None => Err SB_ENOENT end
  end.

Definition find_agrees (r : route) (bytes : list Z) (start : nat)
           (got : res parser) (want : res block) : Prop :=
  match got, want with
  | Ok q', Ok b => p_type q' = b_type b /\ p_len q' = b_len b /\ p_body q' = b_body b /\
                   p_bytes q' = bytes /\ p_route q' = r /\ p_start q' = start
  | Err e, Err e' => e = e'
  | _, _ => False
  end.

Lemma find_loop_S f p ty :
  find_loop (S f) p ty =
  if negb (block_valid p) then Err SB_ENOENT
  else if p_type p =? ty then Ok p
  else p1 <- seek_to_next_block p ;; find_loop f p1 ty.
Proof. reflexivity. Qed.

Lemma find_records r bytes start ty : forall fuel p0,
  p_bytes p0 = bytes -> p_route p0 = r -> p_start p0 = start -> pos_ok p0 ->
  (1 <= fuel)%nat -> (length bytes < fuel + p_pos p0)%nat ->
  find_agrees r bytes start
    (p1 <- header_result p0 ;; find_loop fuel p1 ty)
    (find_outcome r (fst (records fuel bytes (p_pos p0))) (snd (records fuel bytes (p_pos p0))) ty).
Proof.
  induction fuel as [|f IH]; intros p0 Hb Hr Hs Hp Hf Hl; [lia|].
  unfold header_result. cbn [records]. rewrite Hb, Hr, Hs.
  destruct (skipn (p_pos p0) bytes) as [|ty0 [|l0 [|l1 rest]]] eqn:E; try reflexivity.
  pose proof (skipn_len_eq _ _ _ E) as HL. cbn [length] in HL.
  generalize (Z.to_nat (le16 l0 l1)). intros len.
  cbn [bind]. rewrite find_loop_S.
  unfold block_valid at 1. cbn [p_type]. unfold SB_BINARY_BLOCK_NONE.
  destruct (ty0 =? 0) eqn:Ety; cbn [negb]; [reflexivity|].
  set (b := {| b_type := ty0; b_len := len; b_body := p_pos p0 + 3 |}).
  destruct (ty0 =? ty) eqn:Eq.
  - assert (Hfirst : forall rs t, find_outcome r (fst (b :: rs, t)) (snd (b :: rs, t)) ty = Ok b).
    { intros rs t. unfold find_outcome. cbn [fst snd first_of_type b_type b]. rewrite Eq. reflexivity. }
    destruct (length bytes <? p_pos p0 + 3 + len)%nat.
    + rewrite Hfirst. simpl. auto 10.
    + destruct (records f bytes (p_pos p0 + 3 + len)) as [rs t]. rewrite Hfirst. simpl. auto 10.
  - rewrite seek_next_char by (unfold block_valid, SB_BINARY_BLOCK_NONE; cbn [p_type]; rewrite Ety; reflexivity).
    cbn [p_pos p_bytes set_pos p_route p_version p_features p_start p_type p_len p_body].
    set (p0' := mkparser r bytes (p_pos p0 + 3 + len) (p_version p0) (p_features p0) start
                         ty0 len (p_pos p0 + 3)).
    assert (Hskip : forall rs t, find_outcome r (fst (b :: rs, t)) (snd (b :: rs, t)) ty =
                                 find_outcome r rs t ty).
    { intros rs t. unfold find_outcome. cbn [fst snd first_of_type b_type b]. rewrite Eq. reflexivity. }
    assert (Hstep : (length bytes <? p_pos p0 + 3 + len)%nat = false ->
       find_agrees r bytes start
         (p1 <- header_result p0' ;; find_loop f p1 ty)
         (find_outcome r (fst (records f bytes (p_pos p0 + 3 + len)))
                       (snd (records f bytes (p_pos p0 + 3 + len))) ty)).
    { intros El. apply (IH p0'); try reflexivity.
      - intros _. simpl. lia.
      - lia.
      - simpl. lia. }
    destruct (length bytes <? p_pos p0 + 3 + len)%nat eqn:El.
    + rewrite Hskip. destruct r.
      * reflexivity.
      * rewrite header_result_beyond by (simpl; lia).
        cbn [bind]. destruct f as [|f]; [lia|]. reflexivity.
    + specialize (Hstep eq_refl).
      destruct (records f bytes (p_pos p0 + 3 + len)) as [rs t].
      rewrite Hskip. cbn [fst snd] in Hstep.
      destruct r; exact Hstep.
Qed.

Lemma find_first_spec : forall r bytes p q ty, wf_bytes bytes = true ->
  parser_init r bytes = Ok p -> same_file p q ->
  match find_first q ty, find_spec r bytes (p_start p) ty with
  | Ok q', Ok b => p_type q' = b_type b /\ p_len q' = b_len b /\ p_body q' = b_body b /\ same_file p q'
  | Err e, Err e' => e = e'
  | _, _ => False
  end.
Proof.
  intros r bytes p q ty _ Hinit (Hqb & Hqr & Hqs).
  destruct (init_ok_inv _ _ _ Hinit) as (p0 & Hh & Hb & Hr & Hpos & Hst & Hp).
  destruct (header_result_ok _ _ Hh) as (Hpb & Hpr & _).
  rewrite Hb in Hpb. rewrite Hr in Hpr. rewrite Hpb in Hqb. rewrite Hpr in Hqr.
  assert (Hstart : (p_start p <= length bytes)%nat).
  { destruct r.
    - specialize (Hp Hr). rewrite Hpos, Hb in Hp. exact Hp.
    - (* descriptors: derive the bound from the header *)
      clear - Hinit. rewrite parser_init_char in Hinit.
      pose proof (header_spec_res bytes) as Hh.
      destruct (header_spec bytes) as [h|e|s o|]; cbn [bind] in Hinit; try discriminate Hinit.
      rewrite rewind_char in Hinit by (intros _; exact Hh).
      destruct (header_result_ok _ _ Hinit) as (_ & _ & Hs & _). simpl in Hs. lia. }
  unfold find_first.
  rewrite rewind_char by (intros _; rewrite Hqs, Hqb; exact Hstart).
  pose proof (find_records r bytes (p_start p) ty (S (length bytes)) (set_pos q (p_start q))) as HF.
  cbn [p_pos p_bytes set_pos p_route p_version p_features p_start p_type p_len p_body] in HF.
  specialize (HF Hqb Hqr Hqs).
  assert (Hpq : pos_ok (set_pos q (p_start q))).
  { intros _. simpl. rewrite Hqs, Hqb. exact Hstart. }
  specialize (HF Hpq). rewrite Hqs in HF.
  specialize (HF ltac:(lia) ltac:(lia)).
  rewrite Hqb. rewrite Hqs.
  unfold find_spec, all_records.
  unfold find_agrees, find_outcome in HF.
  destruct (records (S (length bytes)) bytes (p_start p)) as [bs t].
  cbn [fst snd] in HF.
  destruct (p1 <- header_result (set_pos q (p_start p));; find_loop (S (length bytes)) p1 ty) as [q'| | |];
    destruct (first_of_type bs ty); try exact HF.
  - destruct HF as (H1 & H2 & H3 & H4 & H5 & H6). unfold same_file. rewrite Hpb, Hpr. auto 10.
  - destruct (tail_error r t); exact HF.
Qed.

(* ------------------------------------------------------------------ *)
(** * Round trip with the encoder *)

Lemma enc_block_length ty body : length (enc_block (ty, body)) = (3 + length body)%nat.
Proof. reflexivity. Qed.

Lemma flat_enc_length bs : (length bs <= length (flat_map enc_block bs))%nat.
Proof.
  induction bs as [|[ty body] t IH]; [apply Nat.le_refl|].
  cbn [flat_map]. rewrite app_length, enc_block_length. cbn [length]. lia.
Qed.

Lemma le16_split n : 0 <= n -> le16 (n mod 256) (n / 256) = n.
Proof. intros _. unfold le16. pose proof (Z_div_mod_eq_full n 256). lia. Qed.

Section Enc.
  Variables (hdr : list Z) (ty : Z) (body : list Z) (t : list (Z * list Z)).
  Let bytes := hdr ++ flat_map enc_block ((ty, body) :: t).

  Lemma enc_skipn :
    skipn (length hdr) bytes =
    ty :: (Z.of_nat (length body) mod 256) :: (Z.of_nat (length body) / 256) ::
       body ++ flat_map enc_block t.
  Proof. unfold bytes. rewrite skipn_app_exact by reflexivity. reflexivity. Qed.

  Lemma enc_total_length :
    length bytes = (length hdr + 3 + length body + length (flat_map enc_block t))%nat.
  Proof.
    unfold bytes. cbn [flat_map]. rewrite !app_length, enc_block_length. lia.
  Qed.

  Lemma enc_reassoc : bytes = (hdr ++ enc_block (ty, body)) ++ flat_map enc_block t.
  Proof. unfold bytes. cbn [flat_map]. rewrite app_assoc. reflexivity. Qed.

  Lemma enc_prefix_length :
    length (hdr ++ enc_block (ty, body)) = (length hdr + 3 + length body)%nat.
  Proof. rewrite app_length, enc_block_length. lia. Qed.
End Enc.

Lemma records_enc : forall bs fuel hdr, wf_blocks bs = true -> (length bs <= fuel)%nat ->
  records fuel (hdr ++ flat_map enc_block bs) (length hdr) = (layout (length hdr) bs, TEnd).
Proof.
  induction bs as [|[ty body] t IH]; intros fuel hdr Hwf Hf.
  - destruct fuel as [|f]; [reflexivity|].
    cbn [records flat_map layout]. rewrite skipn_app_exact by reflexivity. reflexivity.
  - destruct fuel as [|f]; [simpl in Hf; lia|].
    unfold wf_blocks in Hwf. cbn [forallb fst snd] in Hwf.
    apply andb_prop in Hwf. destruct Hwf as [Hb Ht].
    assert (HIH : records f (hdr ++ flat_map enc_block ((ty, body) :: t))
                          (length hdr + 3 + length body) =
                  (layout (length hdr + 3 + length body) t, TEnd)).
    { rewrite (enc_reassoc hdr ty body t), <- (enc_prefix_length hdr ty body). apply IH; [exact Ht|simpl in Hf; lia]. }
    pose proof (enc_total_length hdr ty body t) as HL.
    cbn [records layout]. rewrite enc_skipn.
    destruct (ty =? 0) eqn:Ety; [lia|].
    rewrite le16_split by lia. rewrite Nat2Z.id.
    destruct (length (hdr ++ flat_map enc_block ((ty, body) :: t)) <? length hdr + 3 + length body)%nat eqn:El; [lia|].
    rewrite HIH. reflexivity.
Qed.

Lemma records_of_encoding : forall hdr bs, wf_blocks bs = true ->
  all_records (hdr ++ flat_map enc_block bs) (length hdr) = (layout (length hdr) bs, TEnd).
Proof.
  intros hdr bs Hwf. unfold all_records. apply records_enc; [exact Hwf|].
  rewrite app_length. pose proof (flat_enc_length bs). lia.
Qed.

Lemma layout_bodies_gen : forall bs hdr,
  map (body_of (hdr ++ flat_map enc_block bs)) (layout (length hdr) bs) = map (fun tb => Some (snd tb)) bs
  /\ map b_type (layout (length hdr) bs) = map fst bs.
Proof.
  induction bs as [|[ty body] t IH]; intros hdr; [split; reflexivity|].
  destruct (IH (hdr ++ enc_block (ty, body))) as [IH1 IH2].
  rewrite <- (enc_reassoc hdr ty body t), (enc_prefix_length hdr ty body) in IH1.
  rewrite (enc_prefix_length hdr ty body) in IH2.
  pose proof (enc_total_length hdr ty body t) as HL.
  cbn [layout map fst snd b_type]. split; f_equal; try assumption.
  unfold body_of. cbn [b_body b_len].
  destruct (length (hdr ++ flat_map enc_block ((ty, body) :: t)) <? length hdr + 3 + length body)%nat eqn:El; [lia|].
  f_equal. rewrite skipn_add, enc_skipn. cbn [skipn].
  apply firstn_app_exact. reflexivity.
Qed.

Lemma layout_bodies : forall hdr bs, wf_blocks bs = true ->
  map (body_of (hdr ++ flat_map enc_block bs)) (layout (length hdr) bs) = map (fun tb => Some (snd tb)) bs
  /\ map b_type (layout (length hdr) bs) = map fst bs.
Proof. intros hdr bs _. apply layout_bodies_gen. Qed.

(* ------------------------------------------------------------------ *)
(** * The body offset of every block the parser can reach lies within the data

    This is the extra hypothesis of [read_block_spec'] / [read_block_ex_spec'];
    it holds for the current block after initialisation, after every
    successful [seek_to_next_block], [rewind] and [find_first]. *)

Definition body_ok (q : parser) : Prop :=
  block_valid q = true -> (p_body q <= length (p_bytes q))%nat.

Lemma header_result_body_ok p0 q : header_result p0 = Ok q -> body_ok q.
Proof.
  unfold header_result, body_ok.
  destruct (skipn (p_pos p0) (p_bytes p0)) as [|ty [|l0 [|l1 rest]]] eqn:E;
    intros H; inversion H; subst; clear H; cbn [p_body p_bytes]; intros Hv.
  - discriminate Hv.
  - pose proof (skipn_len_eq _ _ _ E) as HL. cbn [length] in HL. lia.
Qed.

Lemma seek_body_ok p q : seek_to_next_block p = Ok q -> body_ok q.
Proof.
  intros H. destruct (block_valid p) eqn:Hv;
    [|unfold seek_to_next_block in H; rewrite Hv in H; discriminate H].
  rewrite seek_next_char in H by exact Hv.
  destruct (p_route p).
  - destruct (length (p_bytes p) <? p_body p + p_len p)%nat; [discriminate H|].
    exact (header_result_body_ok _ _ H).
  - exact (header_result_body_ok _ _ H).
Qed.

Lemma rewind_body_ok p q : rewind p = Ok q -> body_ok q.
Proof.
  unfold rewind, f_seek. destruct (p_route p) eqn:Er.
  - destruct (length (p_bytes p) <? p_start p)%nat eqn:E; [discriminate|].
    cbn [bind]. rewrite header_at by (intros _; simpl; lia).
    apply header_result_body_ok.
  - cbn [bind]. rewrite header_at by (intros Hm; simpl in Hm; congruence).
    apply header_result_body_ok.
Qed.

Lemma find_loop_body_ok ty : forall f p q, body_ok p -> find_loop f p ty = Ok q -> body_ok q.
Proof.
  induction f as [|f IH]; intros p q Hp H; [discriminate H|].
  rewrite find_loop_S in H.
  destruct (negb (block_valid p)); [discriminate H|].
  destruct (p_type p =? ty); [inversion H; subst; exact Hp|].
  destruct (seek_to_next_block p) as [p1| | |] eqn:Es; cbn [bind] in H; try discriminate H.
  exact (IH p1 q (seek_body_ok _ _ Es) H).
Qed.

Lemma find_first_body_ok p q ty : find_first p ty = Ok q -> body_ok q.
Proof.
  unfold find_first. destruct (rewind p) as [p1| | |] eqn:Er; cbn [bind]; try discriminate.
  apply find_loop_body_ok. exact (rewind_body_ok _ _ Er).
Qed.

Lemma init_body_ok r bytes p : parser_init r bytes = Ok p -> body_ok p.
Proof.
  intros H. destruct (init_ok_inv _ _ _ H) as (p0 & Hh & _).
  exact (header_result_body_ok _ _ Hh).
Qed.

Lemma reachable_blocks_start_inside : forall r bytes p q ty,
  parser_init r bytes = Ok p ->
  (block_valid p = true -> (p_body p <= length (p_bytes p))%nat) /\
  (forall p', (block_valid p' = true -> (p_body p' <= length (p_bytes p'))%nat) ->
     (seek_to_next_block p' = Ok q -> block_valid q = true -> (p_body q <= length (p_bytes q))%nat) /\
     (rewind p' = Ok q -> block_valid q = true -> (p_body q <= length (p_bytes q))%nat) /\
     (find_first p' ty = Ok q -> block_valid q = true -> (p_body q <= length (p_bytes q))%nat)).
Proof.
  intros r bytes p q ty Hi. split.
  - exact (init_body_ok _ _ _ Hi).
  - intros p' _. repeat split.
    + intros H. exact (seek_body_ok _ _ H).
    + intros H. exact (rewind_body_ok _ _ H).
    + intros H. exact (find_first_body_ok _ _ _ H).
Qed.
