(** The CRC-32 register step has multiplicative order exactly 2^32 - 1
    (the polynomial is primitive): unbounded two-bit error detection. *)
From SB Require Import Base.Prelude Gen.Generated Model.Crc Model.Container Spec.CrcSpec Spec.ContainerSpec.
From SB Require Import Proofs.Crc_Proofs.
From Coq Require Import ZArith Lia List Znumtheory NArith Nnat PeanoNat.
Import ListNotations.
Local Open Scope Z_scope.

(* ------------------------------------------------------------------ *)
(** * "The d-fold step is the identity" *)

Definition fixes (d : nat) : Prop := forall s, in32 s -> bs d s = s.

Lemma bs_comm a b s : bs a (bs b s) = bs b (bs a s).
Proof. rewrite <- !bs_add. f_equal. apply Nat.add_comm. Qed.

Definition E31 : Z := 2147483648.

Lemma in32_E31 : in32 E31. Proof. unfold in32, E31; lia. Qed.

Lemma bs_e31 k : (k <= 31)%nat -> bs k E31 = 2 ^ (31 - Z.of_nat k).
Proof.
  intros H.
  replace E31 with (Z.shiftl (2 ^ (31 - Z.of_nat k)) (Z.of_nat k)); [apply bs_shiftl|].
  rewrite Z.shiftl_mul_pow2, <- Z.pow_add_r by lia.
  replace (31 - Z.of_nat k + Z.of_nat k) with 31 by lia. reflexivity.
Qed.

Lemma pow2_in32 k : 0 <= k < 32 -> in32 (2 ^ k).
Proof.
  intros H. unfold in32. change 4294967296 with (2 ^ 32).
  split; [apply Z.pow_nonneg; lia| apply Z.pow_lt_mono_r; lia].
Qed.

Lemma fixes_of_1 d : bs d 1 = 1 -> fixes d.
Proof.
  intros H.
  assert (E1 : bs 31 E31 = 1) by (rewrite bs_e31 by lia; reflexivity).
  assert (He : bs d E31 = E31).
  { apply (bs_inj 31); [apply bs_in32, in32_E31| apply in32_E31|].
    rewrite bs_comm, E1. exact H. }
  assert (Hk : forall k, (k <= 31)%nat -> bs d (2 ^ Z.of_nat k) = 2 ^ Z.of_nat k).
  { intros k Hk. replace (2 ^ Z.of_nat k) with (bs (31 - k) E31).
    - rewrite bs_comm, He. reflexivity.
    - rewrite bs_e31 by lia. f_equal. lia. }
  assert (Hn : forall n, (n <= 32)%nat -> forall s, 0 <= s < 2 ^ Z.of_nat n -> bs d s = s).
  { induction n as [|n IH]; intros Hle s Hs.
    - change (2 ^ Z.of_nat 0) with 1 in Hs. replace s with 0 by lia. apply bs_0.
    - rewrite Nat2Z.inj_succ, Z.pow_succ_r in Hs by lia.
      destruct (Z_lt_ge_dec s (2 ^ Z.of_nat n)) as [L|G].
      + apply IH; lia.
      + pose proof (lxor_shiftl_add (Z.of_nat n) (s - 2 ^ Z.of_nat n) 1 ltac:(lia) ltac:(lia)) as X.
        replace (s - 2 ^ Z.of_nat n + 2 ^ Z.of_nat n * 1) with s in X by lia.
        rewrite Z.shiftl_1_l in X.
        rewrite <- X at 1. rewrite bs_lxor, IH, Hk by lia. exact X. }
  intros s Hs. apply (Hn 32%nat); [lia| exact Hs].
Qed.

Lemma fixes_add a b : fixes a -> fixes b -> fixes (a + b).
Proof. intros Ha Hb s Hs. rewrite bs_add, Hb, Ha by assumption. reflexivity. Qed.

Lemma fixes_mul k a : fixes a -> fixes (k * a).
Proof.
  intros Ha. induction k as [|k IH]; [intros s _; reflexivity|].
  change (S k * a)%nat with (a + k * a)%nat. apply fixes_add; assumption.
Qed.

Lemma fixes_mod a b : b <> 0%nat -> fixes a -> fixes b -> fixes (a mod b).
Proof.
  intros Hb Ha Hfb s Hs.
  pose proof (Nat.div_mod a b Hb) as E.
  pose proof (Ha s Hs) as X. rewrite E, bs_add in X.
  rewrite (Nat.mul_comm b (a / b)) in X.
  rewrite (fixes_mul (a / b) b Hfb) in X by (apply bs_in32; exact Hs).
  exact X.
Qed.

Lemma fixes_gcd : forall a b, fixes a -> fixes b -> fixes (Nat.gcd a b).
Proof.
  induction a as [a IH] using lt_wf_ind. intros b Ha Hb.
  destruct (Nat.eq_dec a 0) as [->|Hz]; [exact Hb|].
  rewrite <- Nat.gcd_mod by exact Hz.
  apply IH; [apply Nat.mod_upper_bound; exact Hz| apply fixes_mod; assumption| exact Ha].
Qed.

(* ------------------------------------------------------------------ *)
(** * Linear maps on 32-bit states as tables of 32 images *)

Fixpoint mapply (M : list Z) (s : Z) : Z :=
  match M with
  | [] => 0
  | r :: M' => Z.lxor (if Z.odd s then r else 0) (mapply M' (Z.div2 s))
  end.

Lemma split_low s : s = Z.lxor (Z.b2z (Z.odd s)) (Z.shiftl (Z.div2 s) 1).
Proof.
  rewrite lxor_shiftl_add; [| lia | destruct (Z.odd s); simpl; lia].
  change (2 ^ 1) with 2. rewrite (Z.div2_odd s) at 1. lia.
Qed.

Lemma mapply_sound (f : Z -> Z) :
  (forall a b, f (Z.lxor a b) = Z.lxor (f a) (f b)) -> f 0 = 0 ->
  forall n k s, 0 <= s < 2 ^ Z.of_nat n ->
    mapply (map (fun i => f (2 ^ Z.of_nat i)) (seq k n)) s = f (Z.shiftl s (Z.of_nat k)).
Proof.
  intros Hl H0. induction n as [|n IH]; intros k s Hs.
  - change (2 ^ Z.of_nat 0) with 1 in Hs. replace s with 0 by lia.
    simpl. rewrite Z.shiftl_0_l. symmetry. exact H0.
  - cbn [seq map mapply].
    rewrite Nat2Z.inj_succ, Z.pow_succ_r in Hs by lia.
    rewrite IH by (rewrite Z.div2_div; lia).
    rewrite (split_low s) at 3. rewrite Z.shiftl_lxor, Hl, Z.shiftl_shiftl by lia.
    f_equal.
    + destruct (Z.odd s); cbn [Z.b2z].
      * rewrite Z.shiftl_1_l. reflexivity.
      * rewrite Z.shiftl_0_l. symmetry. exact H0.
    + f_equal. f_equal. lia.
Qed.

Definition is_mat (n : nat) (M : list Z) : Prop :=
  M = map (fun i => bs n (2 ^ Z.of_nat i)) (seq 0 32).

Lemma is_mat_apply n M s : is_mat n M -> in32 s -> mapply M s = bs n s.
Proof.
  intros -> Hs.
  rewrite (mapply_sound (bs n) (bs_lxor n) (bs_0 n) 32 0 s) by exact Hs.
  change (Z.of_nat 0) with 0. rewrite Z.shiftl_0_r. reflexivity.
Qed.

Definition mmul (A B : list Z) : list Z := map (mapply A) B.

Lemma is_mat_mul a b A B : is_mat a A -> is_mat b B -> is_mat (a + b) (mmul A B).
Proof.
  intros HA ->. unfold mmul, is_mat. rewrite map_map. apply map_ext_in.
  intros i Hi. apply in_seq in Hi.
  rewrite (is_mat_apply a A _ HA) by (apply bs_in32, pow2_in32; lia).
  symmetry. apply bs_add.
Qed.

Definition M1 : list Z := map (fun i => bstep (2 ^ Z.of_nat i)) (seq 0 32).

Lemma is_mat_M1 : is_mat 1 M1.
Proof. reflexivity. Qed.

Fixpoint mpow (p : positive) : list Z :=
  match p with
  | xH => M1
  | xO p => let M := mpow p in mmul M M
  | xI p => let M := mpow p in mmul M1 (mmul M M)
  end.

Lemma is_mat_mpow p : is_mat (Pos.to_nat p) (mpow p).
Proof.
  induction p as [p IH|p IH|]; cbn [mpow].
  - rewrite Pos2Nat.inj_xI.
    replace (S (2 * Pos.to_nat p)) with (1 + (Pos.to_nat p + Pos.to_nat p))%nat by lia.
    apply is_mat_mul; [exact is_mat_M1| apply is_mat_mul; exact IH].
  - rewrite Pos2Nat.inj_xO.
    replace (2 * Pos.to_nat p)%nat with (Pos.to_nat p + Pos.to_nat p)%nat by lia.
    apply is_mat_mul; exact IH.
  - exact is_mat_M1.
Qed.

(** [bs p 1], computed by repeated squaring. *)
Definition bs1_fast (p : positive) : Z := mapply (mpow p) 1.

Lemma bs1_fast_ok p : bs1_fast p = bs (Pos.to_nat p) 1.
Proof. apply is_mat_apply; [apply is_mat_mpow| exact in32_1]. Qed.

Lemma order_divides : bs1_fast 4294967295 = 1.
Proof. vm_compute. reflexivity. Qed.

Lemma order_cofactors :
  (bs1_fast 1431655765 =? 1) = false /\
  (bs1_fast 858993459 =? 1) = false /\
  (bs1_fast 252645135 =? 1) = false /\
  (bs1_fast 16711935 =? 1) = false /\
  (bs1_fast 65535 =? 1) = false.
Proof. vm_compute. repeat split. Qed.

(* ------------------------------------------------------------------ *)
(** * Arithmetic of 2^32 - 1 = 3 * 5 * 17 * 257 * 65537 *)

Fixpoint nodiv_from (fuel : nat) (n p : Z) : bool :=
  match fuel with
  | O => true
  | S f => negb (p mod n =? 0) && nodiv_from f (n + 1) p
  end.

Lemma nodiv_from_ok fuel : forall n p, nodiv_from fuel n p = true ->
  forall m, n <= m < n + Z.of_nat fuel -> p mod m <> 0.
Proof.
  induction fuel as [|f IH]; intros n p H m Hm; [lia|].
  cbn [nodiv_from] in H. apply andb_true_iff in H. destruct H as [H1 H2].
  destruct (Z.eq_dec m n) as [->|Hne].
  - apply negb_true_iff, Z.eqb_neq in H1. exact H1.
  - apply (IH (n + 1) p H2). lia.
Qed.

Definition no_divisor (p : Z) : bool := nodiv_from (Z.to_nat (p - 2)) 2 p.

Lemma no_divisor_prime p : 1 < p -> no_divisor p = true -> prime p.
Proof.
  intros Hp H. apply prime_alt. split; [exact Hp|].
  intros n Hn D. unfold no_divisor in H.
  apply (nodiv_from_ok _ _ _ H n); [lia|].
  apply Z.mod_divide; [lia| exact D].
Qed.

Lemma prime_5 : prime 5. Proof. apply no_divisor_prime; [lia| vm_compute; reflexivity]. Qed.
Lemma prime_17 : prime 17. Proof. apply no_divisor_prime; [lia| vm_compute; reflexivity]. Qed.
Lemma prime_257 : prime 257. Proof. apply no_divisor_prime; [lia| vm_compute; reflexivity]. Qed.
Lemma prime_65537 : prime 65537. Proof. apply no_divisor_prime; [lia| vm_compute; reflexivity]. Qed.

Lemma prime_cases p q : prime p -> (p | q) \/ rel_prime q p.
Proof.
  intros Hp. destruct (Zdivide_dec p q) as [D|D]; [left; exact D|].
  right. apply rel_prime_sym, prime_rel_prime; assumption.
Qed.

Lemma proper_divisor G : 0 < G < 4294967295 -> (G | 4294967295) ->
  (G | 1431655765) \/ (G | 858993459) \/ (G | 252645135) \/ (G | 16711935) \/ (G | 65535).
Proof.
  intros HG [q Hq].
  assert (Hq1 : 1 < q) by nia.
  destruct (prime_cases 3 q prime_3) as [[r Hr]|R3].
  { left. exists r. lia. }
  destruct (prime_cases 5 q prime_5) as [[r Hr]|R5].
  { right; left. exists r. lia. }
  destruct (prime_cases 17 q prime_17) as [[r Hr]|R17].
  { right; right; left. exists r. lia. }
  destruct (prime_cases 257 q prime_257) as [[r Hr]|R257].
  { right; right; right; left. exists r. lia. }
  destruct (prime_cases 65537 q prime_65537) as [[r Hr]|R65537].
  { right; right; right; right. exists r. lia. }
  exfalso.
  assert (R : rel_prime q (3 * (5 * (17 * (257 * 65537))))) by (repeat apply rel_prime_mult; assumption).
  change (3 * (5 * (17 * (257 * 65537)))) with 4294967295 in R.
  assert (D : (q | 4294967295 * 1)) by (exists G; lia).
  apply Gauss in D; [| exact R].
  apply Z.divide_1_r_nonneg in D; lia.
Qed.

(* ------------------------------------------------------------------ *)
(** * The order of the register step is exactly 2^32 - 1 *)

Lemma order_full : bs (Z.to_nat 4294967295) 1 = 1.
Proof. change (Z.to_nat 4294967295) with (Pos.to_nat 4294967295). rewrite <- bs1_fast_ok. exact order_divides. Qed.

Lemma cofactor_not_fixed m : 0 <= m ->
  m = 1431655765 \/ m = 858993459 \/ m = 252645135 \/ m = 16711935 \/ m = 65535 ->
  bs (Z.to_nat m) 1 <> 1.
Proof.
  intros _ H. destruct order_cofactors as (C1 & C2 & C3 & C4 & C5).
  destruct H as [->|[->|[->|[->| ->]]]];
    match goal with |- bs (Z.to_nat (Zpos ?p)) 1 <> 1 =>
      change (Z.to_nat (Zpos p)) with (Pos.to_nat p); rewrite <- bs1_fast_ok; apply Z.eqb_neq; assumption end.
Qed.

Lemma orbit_ok_full : forall d, (1 <= d)%nat -> Z.of_nat d < 4294967295 -> bs d 1 <> 1.
Proof.
  intros d Hd1 HdN E.
  pose proof (fixes_of_1 d E) as Fd.
  pose proof (fixes_of_1 _ order_full) as FN.
  assert (Hn : Z.of_nat (Z.to_nat 4294967295) = 4294967295) by (apply Z2Nat.id; lia).
  revert FN Hn. generalize (Z.to_nat 4294967295). intros n FN Hn.
  pose proof (fixes_gcd d n Fd FN) as Fg.
  destruct (Nat.gcd_divide_l d n) as [kd Ekd].
  destruct (Nat.gcd_divide_r d n) as [kn Ekn].
  revert Fg Ekd Ekn. generalize (Nat.gcd d n). intros g Fg Ekd Ekn.
  assert (Hg0 : (0 < g)%nat).
  { destruct g; [rewrite Nat.mul_0_r in Ekd; lia| lia]. }
  assert (Hgd : (g <= d)%nat).
  { destruct kd; [simpl in Ekd; lia| rewrite Ekd; simpl; lia]. }
  assert (DG : (Z.of_nat g | 4294967295)).
  { exists (Z.of_nat kn). rewrite <- Hn, Ekn. apply Nat2Z.inj_mul. }
  destruct (proper_divisor (Z.of_nat g) ltac:(lia) DG) as [D|[D|[D|[D|D]]]];
    destruct D as [c Hc];
    match type of Hc with ?m = _ =>
      assert (Hc0 : 0 <= c) by nia;
      apply (cofactor_not_fixed m ltac:(lia)); [tauto|];
      rewrite Hc, Z2Nat.inj_mul, Nat2Z.id by lia;
      apply (fixes_mul (Z.to_nat c) g Fg 1 in32_1)
    end.
Qed.

Theorem two_bits_detected : forall crc bytes i j,
  0 <= crc < 4294967296 -> wf_bytes bytes = true ->
  (i < j)%nat -> (j < 8 * length bytes)%nat -> Z.of_nat j - Z.of_nat i < 4294967295 ->
  crc_update crc (flip_bit (flip_bit bytes i) j) <> crc_update crc bytes.
Proof.
  intros crc bytes i j Hc Hw Hij Hj Hd E.
  destruct (flip_bit_spec bytes i Hw ltac:(lia)) as (W1 & L1 & V1).
  destruct (flip_bit_spec (flip_bit bytes i) j W1 ltac:(lia)) as (W2 & L2 & V2).
  rewrite L1 in L2. rewrite V1, Z.lxor_assoc in V2.
  pose proof (flip_diff crc bytes _ _ Hc Hw W2 L2 V2 E) as Z0.
  rewrite bs_lxor in Z0.
  replace (8 * length bytes)%nat with ((8 * length bytes - j) + ((j - i) + i))%nat in Z0 at 1 by lia.
  replace (8 * length bytes)%nat with ((8 * length bytes - j) + j)%nat in Z0 at 2 by lia.
  rewrite !bs_add, !bs_shiftl, <- bs_lxor in Z0.
  assert (R : in32 (Z.lxor (bs (j - i) 1) 1)) by (apply lxor_in32; [apply bs_in32|]; exact in32_1).
  destruct (Z.eq_dec (Z.lxor (bs (j - i) 1) 1) 0) as [e|e].
  - apply Z.lxor_eq in e. revert e. apply orbit_ok_full; lia.
  - exact (bs_nonzero _ _ R e Z0).
Qed.

Print Assumptions orbit_ok_full.
Print Assumptions two_bits_detected.
