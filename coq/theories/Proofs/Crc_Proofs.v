(** Proofs for C05 (AP-CRC32 and checksummed containers).  Statements are used
    verbatim by Props/Properties_C05.v. *)
From SB Require Import Base.Prelude Gen.Generated Model.Crc Model.Container Spec.CrcSpec Spec.ContainerSpec.
From Coq Require Import ZifyBool ZifyNat NArith Nnat.
Local Open Scope Z_scope.

Ltac Zify.zify_post_hook ::= Z.div_mod_to_equations.

(* ------------------------------------------------------------------ *)
(** * Bit-level facts *)

Definition in32 (s : Z) : Prop := 0 <= s < 4294967296.

Ltac xor_solve :=
  apply Z.bits_inj'; let n := fresh "n" in let H := fresh "Hn" in
  intros n H; rewrite ?Z.lxor_spec, ?Z.bits_0;
  repeat match goal with |- context [Z.testbit ?x n] => generalize (Z.testbit x n); intro end;
  repeat match goal with b : bool |- _ => destruct b end; reflexivity.

Lemma lxor_cancel_r a b x : Z.lxor a x = Z.lxor b x -> a = b.
Proof.
  intros E. apply (f_equal (fun t => Z.lxor t x)) in E.
  rewrite !Z.lxor_assoc, Z.lxor_nilpotent, !Z.lxor_0_r in E. exact E.
Qed.

Lemma lxor_cancel_l a b x : Z.lxor x a = Z.lxor x b -> a = b.
Proof. rewrite !(Z.lxor_comm x). apply lxor_cancel_r. Qed.

Lemma testbit_small x n m : 0 <= x < 2 ^ n -> 0 <= n <= m -> Z.testbit x m = false.
Proof.
  intros Hx Hm. assert (2 ^ n <= 2 ^ m) by (apply Z.pow_le_mono_r; lia).
  rewrite Z.testbit_odd, Z.shiftr_div_pow2 by lia. rewrite Z.div_small by lia. reflexivity.
Qed.

Lemma lxor_range n a b : 0 <= n -> 0 <= a < 2 ^ n -> 0 <= b < 2 ^ n -> 0 <= Z.lxor a b < 2 ^ n.
Proof.
  intros Hn Ha Hb.
  assert (Hnn : 0 <= Z.lxor a b) by (apply Z.lxor_nonneg; lia).
  split; [exact Hnn|].
  destruct (Z.eq_dec (Z.lxor a b) 0) as [->|Hz]; [lia|].
  destruct (Z.eq_dec n 0) as [->|Hn0].
  { exfalso. apply Hz. replace a with 0 by (simpl in *; lia). replace b with 0 by (simpl in *; lia). reflexivity. }
  apply Z.log2_lt_pow2; [lia|].
  eapply Z.le_lt_trans; [apply Z.log2_lxor; lia|].
  apply Z.max_lub_lt.
  - destruct (Z.eq_dec a 0) as [->|]; [simpl; lia| apply Z.log2_lt_pow2; lia].
  - destruct (Z.eq_dec b 0) as [->|]; [simpl; lia| apply Z.log2_lt_pow2; lia].
Qed.

Lemma lxor_in32 a b : in32 a -> in32 b -> in32 (Z.lxor a b).
Proof. unfold in32. change 4294967296 with (2 ^ 32). apply lxor_range. lia. Qed.

(** [x] below [2^n] and a multiple of [2^n]: xor is addition. *)
Lemma lxor_shiftl_add n x v : 0 <= n -> 0 <= x < 2 ^ n -> Z.lxor x (Z.shiftl v n) = x + 2 ^ n * v.
Proof.
  intros Hn Hx. rewrite (Z.mul_comm (2 ^ n) v), <- Z.shiftl_mul_pow2 by lia.
  symmetry. apply Z.add_nocarry_lxor. apply Z.bits_inj'. intros m Hm.
  rewrite Z.land_spec, Z.bits_0.
  destruct (Z.lt_ge_cases m n).
  - rewrite (Z.shiftl_spec_low v n m) by lia. apply andb_false_r.
  - rewrite (testbit_small x n m) by lia. reflexivity.
Qed.

(* ------------------------------------------------------------------ *)
(** * The register step *)

Lemma odd_lxor a b : Z.odd (Z.lxor a b) = xorb (Z.odd a) (Z.odd b).
Proof. rewrite <- !Z.bit0_odd. apply Z.lxor_spec. Qed.

Lemma bstep_lxor a b : bstep (Z.lxor a b) = Z.lxor (bstep a) (bstep b).
Proof.
  unfold bstep. rewrite odd_lxor, Z.shiftr_lxor.
  generalize (Z.shiftr a 1) (Z.shiftr b 1) POLY. intros sa sb P.
  destruct (Z.odd a), (Z.odd b); cbv [xorb]; xor_solve.
Qed.

Lemma bstep_0 : bstep 0 = 0.
Proof. reflexivity. Qed.

Lemma shiftr1_range s : in32 s -> 0 <= Z.shiftr s 1 < 2147483648.
Proof. unfold in32. intros H. rewrite Z.shiftr_div_pow2 by lia. change (2 ^ 1) with 2. lia. Qed.

Lemma bstep_in32 s : in32 s -> in32 (bstep s).
Proof.
  intros H. pose proof (shiftr1_range s H) as Hs. unfold bstep.
  destruct (Z.odd s).
  - apply lxor_in32; unfold in32, POLY; lia.
  - unfold in32; lia.
Qed.

Lemma bit31_small x : 0 <= x < 2147483648 -> Z.testbit x 31 = false.
Proof. intros H. apply (testbit_small x 31 31); [change (2 ^ 31) with 2147483648|]; lia. Qed.

Lemma bstep_bit31 s : in32 s -> Z.testbit (bstep s) 31 = Z.odd s.
Proof.
  intros H. pose proof (shiftr1_range s H) as Hs. unfold bstep.
  destruct (Z.odd s).
  - rewrite Z.lxor_spec, bit31_small by assumption. reflexivity.
  - apply bit31_small; assumption.
Qed.

Lemma bstep_inj s t : in32 s -> in32 t -> bstep s = bstep t -> s = t.
Proof.
  intros Hs Ht E.
  assert (B0 : Z.odd s = Z.odd t).
  { rewrite <- (bstep_bit31 s Hs), <- (bstep_bit31 t Ht), E. reflexivity. }
  assert (Sh : Z.shiftr s 1 = Z.shiftr t 1).
  { unfold bstep in E. rewrite <- B0 in E. destruct (Z.odd s).
    - apply lxor_cancel_r in E. exact E.
    - exact E. }
  rewrite (Z.div2_odd s), (Z.div2_odd t), !Z.div2_spec, Sh, B0. reflexivity.
Qed.

Lemma bstep_shiftl h k : 0 <= k -> bstep (Z.shiftl h (k + 1)) = Z.shiftl h k.
Proof.
  intros Hk. unfold bstep.
  rewrite <- Z.bit0_odd, (Z.shiftl_spec_low h (k + 1) 0) by lia.
  rewrite Z.shiftr_shiftl_l by lia. f_equal. lia.
Qed.

(** Iterated step. *)
Definition bs (n : nat) (s : Z) : Z := Nat.iter n bstep s.

Lemma bs_S_r n s : bs (S n) s = bs n (bstep s).
Proof. unfold bs. induction n; simpl in *; [reflexivity| rewrite IHn; reflexivity]. Qed.

Lemma bs_add n m s : bs (n + m) s = bs n (bs m s).
Proof. unfold bs. induction n; simpl; [reflexivity| rewrite IHn; reflexivity]. Qed.

Lemma bs_lxor n a b : bs n (Z.lxor a b) = Z.lxor (bs n a) (bs n b).
Proof. unfold bs. induction n; simpl; [reflexivity| rewrite IHn; apply bstep_lxor]. Qed.

Lemma bs_0 n : bs n 0 = 0.
Proof. unfold bs. induction n; simpl; [reflexivity| rewrite IHn; reflexivity]. Qed.

Lemma bs_in32 n s : in32 s -> in32 (bs n s).
Proof. intros H. unfold bs. induction n; simpl; [exact H| apply bstep_in32; exact IHn]. Qed.

Lemma bs_inj n s t : in32 s -> in32 t -> bs n s = bs n t -> s = t.
Proof.
  intros Hs Ht. induction n; simpl; intros E; [exact E|].
  apply IHn. apply bstep_inj; [apply bs_in32; exact Hs| apply bs_in32; exact Ht| exact E].
Qed.

Lemma bs_shiftl n h : bs n (Z.shiftl h (Z.of_nat n)) = h.
Proof.
  induction n.
  - simpl. apply Z.shiftl_0_r.
  - rewrite bs_S_r, Nat2Z.inj_succ, <- Z.add_1_r, bstep_shiftl by lia. exact IHn.
Qed.

Lemma bs_nonzero n s : in32 s -> s <> 0 -> bs n s <> 0.
Proof.
  intros Hs Hz E. apply Hz. apply (bs_inj n); [exact Hs| unfold in32; lia|].
  rewrite bs_0. exact E.
Qed.

(* ------------------------------------------------------------------ *)
(** * The table *)

Lemma crc_table_is_bitwise :
  length crc32_tab = 256%nat /\
  forall i, (i < 256)%nat -> nth i crc32_tab 0 = Nat.iter 8 bstep (Z.of_nat i).
Proof.
  split; [vm_compute; reflexivity|].
  assert (H : forallb (fun i => nth i crc32_tab 0 =? Nat.iter 8 bstep (Z.of_nat i)) (seq 0 256) = true)
    by (vm_compute; reflexivity).
  rewrite forallb_forall in H. intros i Hi. apply Z.eqb_eq, H, in_seq. lia.
Qed.

Lemma crc_step_bs c x : in32 c -> 0 <= x < 256 -> crc_step c x = bs 8 (Z.lxor c x).
Proof.
  intros Hc Hx. unfold crc_step.
  assert (Hy : in32 (Z.lxor c x)) by (apply lxor_in32; [exact Hc| unfold in32; lia]).
  assert (Hsh : Z.shiftr c 8 = Z.shiftr (Z.lxor c x) 8).
  { rewrite Z.shiftr_lxor, (Z.shiftr_div_pow2 x) by lia. change (2 ^ 8) with 256.
    rewrite Z.div_small, Z.lxor_0_r by lia. reflexivity. }
  rewrite Hsh. set (y := Z.lxor c x) in *. unfold in32 in Hy.
  change 255 with (Z.ones 8). rewrite Z.land_ones by lia. change (2 ^ 8) with 256.
  rewrite (proj2 crc_table_is_bitwise) by lia. fold (bs 8 (Z.of_nat (Z.to_nat (y mod 256)))).
  rewrite Z2Nat.id by lia. rewrite Z.shiftr_div_pow2 by lia. change (2 ^ 8) with 256.
  rewrite <- (bs_shiftl 8 (y / 256)) at 1. rewrite <- bs_lxor.
  change (Z.of_nat 8) with 8. rewrite lxor_shiftl_add by (change (2 ^ 8) with 256; lia).
  change (2 ^ 8) with 256. f_equal. lia.
Qed.

Lemma crc_step_in32 c x : in32 c -> 0 <= x < 256 -> in32 (crc_step c x).
Proof.
  intros Hc Hx. rewrite crc_step_bs by assumption.
  apply bs_in32, lxor_in32; [exact Hc| unfold in32; lia].
Qed.

Opaque crc32_tab.

(** Eight register steps on [s xor byte] = feeding the bits of the byte. *)
Lemma bs_bits k : forall b s, 0 <= b < 2 ^ Z.of_nat k ->
  bs k (Z.lxor s b) = fold_left bit_step (map (fun i => Z.testbit b (Z.of_nat i)) (seq 0 k)) s.
Proof.
  induction k; intros b s Hb.
  - simpl in *. replace b with 0 by lia. apply Z.lxor_0_r.
  - rewrite bs_S_r. cbn [seq map fold_left]. rewrite <- seq_shift, map_map.
    rewrite Nat2Z.inj_succ, Z.pow_succ_r in Hb by lia.
    assert (Hb' : 0 <= Z.shiftr b 1 < 2 ^ Z.of_nat k).
    { rewrite Z.shiftr_div_pow2 by lia. change (2 ^ 1) with 2. lia. }
    assert (Eb : b = Z.lxor (Z.b2z (Z.testbit b 0)) (Z.shiftl (Z.shiftr b 1) 1)).
    { rewrite lxor_shiftl_add; [| lia | rewrite Z.bit0_odd; destruct (Z.odd b); simpl; lia].
      rewrite Z.bit0_odd. change (2 ^ 1) with 2. rewrite <- Z.div2_spec.
      rewrite (Z.div2_odd b) at 1. lia. }
    replace (Z.lxor s b) with (Z.lxor (Z.lxor s (Z.b2z (Z.testbit b 0))) (Z.shiftl (Z.shiftr b 1) 1))
      by (rewrite Z.lxor_assoc, <- Eb; reflexivity).
    pose proof (bstep_shiftl (Z.shiftr b 1) 0 ltac:(lia)) as E1.
    change (0 + 1) with 1 in E1. rewrite Z.shiftl_0_r in E1.
    rewrite bstep_lxor, E1. fold (bit_step s (Z.testbit b 0)).
    rewrite IHk by exact Hb'. f_equal. apply map_ext. intros a.
    rewrite Z.shiftr_spec by lia. f_equal. lia.
Qed.

(* ------------------------------------------------------------------ *)
(** * Table-driven update = bit-serial CRC *)

Lemma crc_step_bits c x : in32 c -> 0 <= x < 256 ->
  crc_step c x = fold_left bit_step (bits_of_byte x) c.
Proof.
  intros Hc Hx. rewrite crc_step_bs by assumption. apply (bs_bits 8).
  change (2 ^ Z.of_nat 8) with 256. lia.
Qed.

Lemma wf_cons x xs : wf_bytes (x :: xs) = true <-> 0 <= x < 256 /\ wf_bytes xs = true.
Proof.
  unfold wf_bytes. cbn [forallb]. rewrite andb_true_iff. unfold wf_byte.
  split; intros [H1 H2]; (split; [lia| exact H2]).
Qed.

Lemma wf_app a b : wf_bytes (a ++ b) = true <-> wf_bytes a = true /\ wf_bytes b = true.
Proof. unfold wf_bytes. rewrite forallb_app, andb_true_iff. reflexivity. Qed.

Lemma crc_update_cons c x xs : crc_update c (x :: xs) = crc_update (crc_step c x) xs.
Proof. reflexivity. Qed.

Lemma crc_update_app c a b : crc_update c (a ++ b) = crc_update (crc_update c a) b.
Proof. apply fold_left_app. Qed.

Lemma crc_update_in32 xs : forall c, in32 c -> wf_bytes xs = true -> in32 (crc_update c xs).
Proof.
  induction xs as [|x xs IH]; intros c Hc Hw; [exact Hc|].
  apply wf_cons in Hw. destruct Hw as [Hx Hw].
  rewrite crc_update_cons. apply IH; [apply crc_step_in32|]; assumption.
Qed.

Lemma update_is_bitwise : forall crc bytes,
  0 <= crc < 4294967296 -> wf_bytes bytes = true ->
  crc_update crc bytes = crc_bits crc (bits_of bytes).
Proof.
  intros crc bytes; revert crc; induction bytes as [|x xs IH]; intros crc Hc Hw; [reflexivity|].
  apply wf_cons in Hw. destruct Hw as [Hx Hw].
  rewrite crc_update_cons. unfold crc_bits, bits_of in *. cbn [flat_map].
  rewrite fold_left_app, <- crc_step_bits by assumption.
  apply IH; [apply crc_step_in32|]; assumption.
Qed.

Lemma chunking_irrelevant : forall crc a b,
  crc_update (crc_update crc a) b = crc_update crc (a ++ b).
Proof. intros. symmetry. apply crc_update_app. Qed.

(* ------------------------------------------------------------------ *)
(** * Chunked whole-file checksum *)

Lemma crc_chunks_cons first c cs crc :
  crc_chunks first (c :: cs) crc = crc_chunks false cs (crc_update crc (if first then zero_6_9 c else c)).
Proof. reflexivity. Qed.

Lemma crc_chunks_nil first crc : crc_chunks first [] crc = crc.
Proof. reflexivity. Qed.

Lemma crc_chunks_split fuel : forall bytes crc, (length bytes < fuel)%nat ->
  crc_chunks false (split_chunks fuel bytes) crc = crc_update crc bytes.
Proof.
  induction fuel; intros bytes crc H; [lia|].
  cbn [split_chunks]. destruct (Nat.ltb_spec (length (firstn 256 bytes)) 256) as [L|L];
    rewrite firstn_length in L.
  - rewrite crc_chunks_cons, crc_chunks_nil, firstn_all2 by lia. reflexivity.
  - rewrite crc_chunks_cons, IHfuel by (rewrite skipn_length; lia).
    rewrite <- crc_update_app, firstn_skipn. reflexivity.
Qed.

Lemma upd_app (l1 l2 : list Z) i v : (i < length l1)%nat -> upd (l1 ++ l2) i v = upd l1 i v ++ l2.
Proof.
  revert i; induction l1 as [|h t IH]; intros [|i] H; simpl in *; try lia; [reflexivity|].
  rewrite IH by lia. reflexivity.
Qed.

Lemma zero_app c t : (10 <= length c)%nat -> zero_6_9 c ++ t = zero_field (c ++ t).
Proof.
  intros H. unfold zero_6_9, zero_field. rewrite app_length.
  destruct (Nat.leb_spec 10 (length c)); [|lia].
  destruct (Nat.leb_spec 10 (length c + length t)); [|lia].
  rewrite !upd_app by (rewrite ?upd_length; lia). reflexivity.
Qed.

Lemma file_crc_is_crc_of_zeroed : forall bytes,
  file_crc bytes = crc_update 0 (zero_field bytes).
Proof.
  intros bytes. unfold file_crc. cbn [split_chunks].
  destruct (Nat.ltb_spec (length (firstn 256 bytes)) 256) as [L|L];
    rewrite firstn_length in L.
  - rewrite crc_chunks_cons, crc_chunks_nil, firstn_all2 by lia. reflexivity.
  - rewrite crc_chunks_cons, crc_chunks_split by (rewrite skipn_length; lia).
    rewrite <- crc_update_app, zero_app by (rewrite firstn_length; lia).
    rewrite firstn_skipn. reflexivity.
Qed.

(* ------------------------------------------------------------------ *)
(** * Closed form: the update is [8n] register steps on [crc xor LE(bytes)] *)

Fixpoint LE (l : list Z) : Z :=
  match l with [] => 0 | x :: xs => Z.lxor x (Z.shiftl (LE xs) 8) end.

Lemma crc_update_LE : forall xs c, in32 c -> wf_bytes xs = true ->
  crc_update c xs = bs (8 * length xs) (Z.lxor c (LE xs)).
Proof.
  induction xs as [|x xs IH]; intros c Hc Hw.
  - cbn [LE length]. rewrite Z.lxor_0_r. reflexivity.
  - apply wf_cons in Hw. destruct Hw as [Hx Hw].
    rewrite crc_update_cons, IH by (try apply crc_step_in32; assumption).
    rewrite crc_step_bs by assumption. cbn [LE length].
    replace (8 * S (length xs))%nat with (8 * length xs + 8)%nat by lia.
    rewrite bs_add. f_equal.
    rewrite <- (bs_shiftl 8 (LE xs)) at 1. rewrite <- bs_lxor. change (Z.of_nat 8) with 8.
    f_equal. apply Z.lxor_assoc.
Qed.

Lemma crc_update_lin xs c : in32 c -> wf_bytes xs = true ->
  crc_update c xs = Z.lxor (bs (8 * length xs) c) (bs (8 * length xs) (LE xs)).
Proof. intros. rewrite crc_update_LE, bs_lxor by assumption. reflexivity. Qed.

Lemma crc_update_inj_state xs c1 c2 : in32 c1 -> in32 c2 -> wf_bytes xs = true ->
  crc_update c1 xs = crc_update c2 xs -> c1 = c2.
Proof.
  intros H1 H2 Hw E. rewrite !crc_update_lin in E by assumption.
  apply lxor_cancel_r in E. apply bs_inj in E; assumption.
Qed.

Lemma LE_cons_add x xs : 0 <= x < 256 -> LE (x :: xs) = x + 256 * LE xs.
Proof. intros Hx. cbn [LE]. rewrite lxor_shiftl_add by (change (2 ^ 8) with 256; lia). reflexivity. Qed.

Lemma LE_range xs : wf_bytes xs = true -> 0 <= LE xs < 2 ^ (8 * Z.of_nat (length xs)).
Proof.
  induction xs as [|x xs IH]; intros Hw; [simpl; lia|].
  apply wf_cons in Hw. destruct Hw as [Hx Hw]. specialize (IH Hw).
  rewrite LE_cons_add by assumption. cbn [length]. rewrite Nat2Z.inj_succ.
  replace (8 * Z.succ (Z.of_nat (length xs))) with (8 * Z.of_nat (length xs) + 8) by lia.
  rewrite Z.pow_add_r by lia. change (2 ^ 8) with 256. lia.
Qed.

Lemma LE_inj : forall a b, length a = length b -> wf_bytes a = true -> wf_bytes b = true ->
  LE a = LE b -> a = b.
Proof.
  induction a as [|x a IH]; intros [|y b] HL Ha Hb E; simpl in HL; try discriminate; [reflexivity|].
  apply wf_cons in Ha. apply wf_cons in Hb. destruct Ha as [Hx Ha], Hb as [Hy Hb].
  rewrite !LE_cons_add in E by assumption.
  pose proof (LE_range a Ha). pose proof (LE_range b Hb).
  assert (x = y /\ LE a = LE b) as [-> E'] by lia.
  f_equal. apply IH; auto.
Qed.

(* ------------------------------------------------------------------ *)
(** * Bursts of at most 32 bits *)

Definition differ_only_in (a b : list Z) (lo w : nat) : Prop :=
  length a = length b /\ a <> b /\
  forall i, (i < lo \/ lo + w <= i)%nat -> nth_error a i = nth_error b i.

Lemma firstn_ext (a b : list Z) n :
  (forall i, (i < n)%nat -> nth_error a i = nth_error b i) -> firstn n a = firstn n b.
Proof.
  revert a b; induction n; intros a b H; [reflexivity|].
  destruct a as [|x a], b as [|y b]; simpl.
  - reflexivity.
  - specialize (H 0%nat ltac:(lia)). discriminate.
  - specialize (H 0%nat ltac:(lia)). discriminate.
  - pose proof (H 0%nat ltac:(lia)) as H0. simpl in H0. injection H0 as ->.
    f_equal. apply IHn. intros i Hi. apply (H (S i)). lia.
Qed.

Lemma nth_error_ext_eq (a b : list Z) :
  (forall i, nth_error a i = nth_error b i) -> a = b.
Proof.
  revert b; induction a as [|x a IH]; intros [|y b] H.
  - reflexivity.
  - specialize (H 0%nat). discriminate.
  - specialize (H 0%nat). discriminate.
  - pose proof (H 0%nat) as H0. simpl in H0. injection H0 as ->.
    f_equal. apply IH. intros i. apply (H (S i)).
Qed.

Lemma skipn_ext (a b : list Z) n : length a = length b ->
  (forall i, (n <= i)%nat -> nth_error a i = nth_error b i) -> skipn n a = skipn n b.
Proof.
  revert a b; induction n; intros a b HL H.
  - simpl. apply nth_error_ext_eq. intros i. apply H. lia.
  - destruct a as [|x a], b as [|y b]; simpl in *; try discriminate; [reflexivity|].
    apply IHn; [lia|]. intros i Hi. apply (H (S i)). lia.
Qed.

Lemma skipn_skipn (l : list Z) n m : skipn n (skipn m l) = skipn (m + n) l.
Proof.
  revert l; induction m; intros l; simpl; [reflexivity|].
  destruct l; [apply skipn_nil| apply IHm].
Qed.

Lemma split3 (a : list Z) lo w :
  a = firstn lo a ++ firstn w (skipn lo a) ++ skipn (lo + w) a.
Proof. rewrite <- skipn_skipn, !firstn_skipn. reflexivity. Qed.

Lemma window_detected c wa wb : in32 c -> wf_bytes wa = true -> wf_bytes wb = true ->
  length wa = length wb -> (length wa <= 4)%nat ->
  crc_update c wa = crc_update c wb -> wa = wb.
Proof.
  intros Hc Ha Hb HL H4 E.
  rewrite !crc_update_LE, <- HL in E by assumption.
  assert (R : forall w, wf_bytes w = true -> (length w <= 4)%nat -> in32 (Z.lxor c (LE w))).
  { intros w Hw Hl. apply lxor_in32; [exact Hc|]. pose proof (LE_range w Hw) as HR.
    assert (2 ^ (8 * Z.of_nat (length w)) <= 2 ^ 32) by (apply Z.pow_le_mono_r; lia).
    unfold in32. change 4294967296 with (2 ^ 32). lia. }
  apply bs_inj in E; [| apply R; [assumption| lia] | apply R; [assumption| lia]].
  apply lxor_cancel_l in E. apply LE_inj; assumption.
Qed.

Lemma burst_detected : forall crc a b lo w,
  0 <= crc < 4294967296 -> wf_bytes a = true -> wf_bytes b = true ->
  (w <= 4)%nat -> differ_only_in a b lo w ->
  crc_update crc a <> crc_update crc b.
Proof.
  intros crc a b lo w Hc Ha Hb Hw (HL & Hne & Hext) E.
  pose proof (split3 a lo w) as Ea. pose proof (split3 b lo w) as Eb.
  assert (Epre : firstn lo a = firstn lo b) by (apply firstn_ext; intros; apply Hext; lia).
  assert (Epost : skipn (lo + w) a = skipn (lo + w) b) by (apply skipn_ext; [exact HL| intros; apply Hext; lia]).
  rewrite Epre, Epost in Ea.
  set (pre := firstn lo b) in *. set (post := skipn (lo + w) b) in *.
  set (wa := firstn w (skipn lo a)) in *. set (wb := firstn w (skipn lo b)) in *.
  assert (HLw : length wa = length wb).
  { unfold wa, wb. rewrite !firstn_length, !skipn_length, HL. reflexivity. }
  assert (H4 : (length wa <= 4)%nat) by (unfold wa; rewrite firstn_length; lia).
  rewrite Ea in Ha. rewrite Eb in Hb.
  apply wf_app in Ha. destruct Ha as [Hpre Ha]. apply wf_app in Ha. destruct Ha as [Hwa Hpost].
  apply wf_app in Hb. destruct Hb as [_ Hb]. apply wf_app in Hb. destruct Hb as [Hwb _].
  apply Hne. rewrite Ea, Eb. f_equal. f_equal.
  rewrite Ea, Eb, !crc_update_app in E.
  assert (Hc0 : in32 (crc_update crc pre)) by (apply crc_update_in32; assumption).
  apply crc_update_inj_state in E; [| apply crc_update_in32; assumption ..| assumption].
  apply (window_detected (crc_update crc pre)); assumption.
Qed.

(* ------------------------------------------------------------------ *)
(** * The container parser and its checksum *)

Definition meta (p p' : parser) : Prop :=
  p_route p' = p_route p /\ p_bytes p' = p_bytes p /\ p_features p' = p_features p.

Lemma meta_refl p : meta p p. Proof. repeat split. Qed.
Lemma meta_trans p q r : meta p q -> meta q r -> meta p r.
Proof. unfold meta. intros (A & B & C) (D & E & F). repeat split; congruence. Qed.

Lemma f_read_eq p n : exists p',
  f_read p n = (firstn n (skipn (p_pos p) (p_bytes p)), p') /\ meta p p' /\
  ((0 < n)%nat -> length (firstn n (skipn (p_pos p) (p_bytes p))) = n -> p_pos p' = (p_pos p + n)%nat).
Proof.
  unfold f_read. destruct (p_route p) eqn:R; eexists; (split; [reflexivity|]); (split; [repeat split; simpl; auto|]);
    simpl; rewrite firstn_length, skipn_length; lia.
Qed.

Lemma f_seek_ok p off : (off <= length (p_bytes p))%nat -> f_seek p off = Ok (set_pos p off).
Proof.
  intros H. unfold f_seek. destruct (p_route p); [|reflexivity].
  destruct (Nat.ltb_spec (length (p_bytes p)) off); [lia| reflexivity].
Qed.

Lemma read_chunks_spec fuel : forall p, exists p',
  read_chunks fuel p = (split_chunks fuel (skipn (p_pos p) (p_bytes p)), p') /\ meta p p'.
Proof.
  induction fuel; intros p.
  - exists p. split; [reflexivity| apply meta_refl].
  - cbn [read_chunks split_chunks].
    destruct (f_read_eq p 256) as (p1 & E1 & M1 & P1). rewrite E1.
    destruct (Nat.ltb_spec (length (firstn 256 (skipn (p_pos p) (p_bytes p)))) 256) as [L|L].
    + exists p1. split; [reflexivity| exact M1].
    + destruct (IHfuel p1) as (p2 & E2 & M2). rewrite E2.
      exists p2. split; [| eapply meta_trans; eassumption].
      rewrite P1 by (rewrite ?firstn_length in *; lia).
      destruct M1 as (_ & -> & _). rewrite skipn_skipn. reflexivity.
Qed.

Lemma get_crc32_spec p : (p_pos p <= length (p_bytes p))%nat -> exists p2,
  get_crc32 p = Ok (file_crc (p_bytes p), p2) /\ p_features p2 = p_features p.
Proof.
  intros H. unfold get_crc32. rewrite f_seek_ok by lia. cbn [bind].
  destruct (read_chunks_spec (S (length (p_bytes p))) (set_pos p 0)) as (p1 & E & (M1 & M2 & M3)).
  rewrite E. simpl in M1, M2, M3. rewrite f_seek_ok by (rewrite M2; exact H). cbn [bind].
  eexists. split; [reflexivity|]. exact M3.
Qed.

Lemma rnbh_features p p' : read_next_block_header p = Ok p' -> p_features p' = p_features p.
Proof.
  unfold read_next_block_header.
  destruct (f_read_eq p 1) as (p1 & E1 & (_ & _ & M1) & _). rewrite E1.
  destruct (firstn 1 _); [intros [= <-]; exact M1|].
  destruct (f_read_eq p1 2) as (p2 & E2 & (_ & _ & M2) & _). rewrite E2.
  destruct (firstn 2 _) as [|l0 [|l1 [|]]]; try discriminate.
  intros [= <-]. simpl. congruence.
Qed.

Lemma rewind_features p p' : rewind p = Ok p' -> p_features p' = p_features p.
Proof.
  unfold rewind, f_seek. destruct (p_route p); [destruct (_ <? _)%nat|]; cbn [bind]; try discriminate;
    intros H; apply rnbh_features in H; exact H.
Qed.

Opaque get_crc32 rewind.
Lemma parser_init_crc r f c0 c1 c2 c3 rest : Z.land f 1 <> 0 ->
  exists p2, p_features p2 = f /\
    parser_init r (115 :: 107 :: 121 :: 98 :: 2 :: f :: c0 :: c1 :: c2 :: c3 :: rest) =
    if le32 c0 c1 c2 c3 =? file_crc (115 :: 107 :: 121 :: 98 :: 2 :: f :: c0 :: c1 :: c2 :: c3 :: rest)
    then rewind p2 else Err SB_ECORRUPTED.
Proof.
  intros Hf. apply Z.eqb_neq in Hf.
  unfold parser_init.
  destruct r; cbn; change SB_BINARY_FEATURE_CRC32 with 1; rewrite Hf; cbn;
  (match goal with |- context [get_crc32 ?q] =>
    destruct (get_crc32_spec q) as (p2 & E & F); [simpl; lia|]; rewrite E end);
  cbn [bind]; exists p2; (split; [exact F| reflexivity]).
Qed.

Ltac crunch H :=
  repeat (cbn in H; try discriminate H;
    match type of H with
    | context [Z.eqb ?x ?y] =>
      let e := fresh "e" in
      destruct (Z.eq_dec x y) as [e|e];
      [ rewrite (proj2 (Z.eqb_eq x y) e) in H; try subst x
      | rewrite (proj2 (Z.eqb_neq x y) e) in H ]
    end).

Lemma parser_init_inv r bytes p :
  parser_init r bytes = Ok p -> Z.land (p_features p) 1 <> 0 ->
  exists f c0 c1 c2 c3 rest,
    bytes = 115 :: 107 :: 121 :: 98 :: 2 :: f :: c0 :: c1 :: c2 :: c3 :: rest /\
    Z.land f 1 <> 0 /\ le32 c0 c1 c2 c3 = file_crc bytes.
Proof.
  intros H Hf. unfold parser_init in H. change SB_BINARY_FEATURE_CRC32 with 1 in H.
  destruct bytes as [|a [|b [|c [|d [|ver [|f [|c0 [|c1 [|c2 [|c3 rest]]]]]]]]]];
  destruct r; crunch H.
  all: try (apply rewind_features in H; simpl in H; rewrite H in Hf; try (simpl in Hf; congruence); try congruence).
  all: cbn in H.
  all: match type of H with context [get_crc32 ?q] =>
    destruct (get_crc32_spec q) as (p2 & E & F); [simpl; lia|]; rewrite E in H end.
  all: cbn [bind] in H; simpl in E, F.
  all: match type of H with context [Z.eqb ?x ?y] =>
         destruct (Z.eq_dec x y) as [e1|e1];
         [| rewrite (proj2 (Z.eqb_neq x y) e1) in H; discriminate H] end.
  all: exists f, c0, c1, c2, c3, rest; repeat split; assumption.
Qed.

Lemma wf_upd xs : forall k v, wf_bytes xs = true -> 0 <= v < 256 -> wf_bytes (upd xs k v) = true.
Proof.
  induction xs as [|x xs IH]; intros [|k] v Hw Hv; simpl; auto.
  - apply wf_cons in Hw. apply wf_cons. split; [exact Hv| apply Hw].
  - apply wf_cons in Hw. apply wf_cons. split; [apply Hw| apply IH; [apply Hw| exact Hv]].
Qed.

Lemma wf_zero_field bytes : wf_bytes bytes = true -> wf_bytes (zero_field bytes) = true.
Proof.
  intros H. unfold zero_field. destruct (10 <=? length bytes)%nat; [|exact H].
  repeat apply wf_upd; (exact H || lia).
Qed.

Lemma accept_only_if_stored_equals_crc : forall r bytes p,
  wf_bytes bytes = true -> parser_init r bytes = Ok p ->
  Z.land (p_features p) SB_BINARY_FEATURE_CRC32 <> 0 ->
  stored_crc bytes = Some (crc_spec (zero_field bytes)).
Proof.
  intros r bytes p Hw H Hf.
  destruct (parser_init_inv r bytes p H Hf) as (f & c0 & c1 & c2 & c3 & rest & Eb & Hf1 & E).
  rewrite file_crc_is_crc_of_zeroed in E.
  rewrite update_is_bitwise in E by (try apply wf_zero_field; (exact Hw || lia)).
  unfold crc_spec. rewrite <- E. rewrite Eb. reflexivity.
Qed.

Lemma burst_after_field_rejected : forall r r' bytes bytes' p lo w,
  wf_bytes bytes = true -> wf_bytes bytes' = true ->
  parser_init r bytes = Ok p -> Z.land (p_features p) SB_BINARY_FEATURE_CRC32 <> 0 ->
  (w <= 4)%nat -> (10 <= lo)%nat -> differ_only_in bytes bytes' lo w ->
  parser_init r' bytes' = Err SB_ECORRUPTED.
Proof.
  intros r r' bytes bytes' p lo w Hw Hw' H Hf H4 Hlo (HL & Hne & Hext).
  destruct (parser_init_inv r bytes p H Hf) as (f & c0 & c1 & c2 & c3 & rest & Eb & Hf1 & E).
  assert (X : firstn 10 bytes = firstn 10 bytes') by (apply firstn_ext; intros; apply Hext; lia).
  subst bytes.
  destruct bytes' as [|a0 [|a1 [|a2 [|a3 [|a4 [|a5 [|a6 [|a7 [|a8 [|a9 rest']]]]]]]]]];
    simpl in HL; try discriminate HL.
  simpl in X. injection X; intros; subst a0 a1 a2 a3 a4 a5 a6 a7 a8 a9.
  destruct (parser_init_crc r' f c0 c1 c2 c3 rest' Hf1) as (p2 & _ & ->).
  destruct (Z.eqb_spec (le32 c0 c1 c2 c3)
    (file_crc (115 :: 107 :: 121 :: 98 :: 2 :: f :: c0 :: c1 :: c2 :: c3 :: rest'))) as [e|e]; [exfalso|reflexivity].
  rewrite E, !file_crc_is_crc_of_zeroed in e. revert e.
  apply (burst_detected 0 _ _ lo w); try (apply wf_zero_field; assumption); try lia.
  unfold zero_field. cbn [length Nat.leb upd].
  split; [simpl; lia|]. split.
  - intros Heq. apply Hne. injection Heq as ->. reflexivity.
  - intros i Hi. do 10 (destruct i as [|i]; [reflexivity|]). cbn [nth_error].
    apply (Hext (S (S (S (S (S (S (S (S (S (S i))))))))))). lia.
Qed.

Lemma change_inside_field_rejected : forall r r' bytes bytes' p,
  wf_bytes bytes = true -> wf_bytes bytes' = true ->
  parser_init r bytes = Ok p -> Z.land (p_features p) SB_BINARY_FEATURE_CRC32 <> 0 ->
  differ_only_in bytes bytes' 6 4 ->
  parser_init r' bytes' = Err SB_ECORRUPTED.
Proof.
  intros r r' bytes bytes' p Hw Hw' H Hf (HL & Hne & Hext).
  destruct (parser_init_inv r bytes p H Hf) as (f & c0 & c1 & c2 & c3 & rest & Eb & Hf1 & E).
  assert (X : firstn 6 bytes = firstn 6 bytes') by (apply firstn_ext; intros; apply Hext; lia).
  assert (Y : skipn 10 bytes = skipn 10 bytes') by (apply skipn_ext; [exact HL| intros; apply Hext; lia]).
  subst bytes.
  destruct bytes' as [|a0 [|a1 [|a2 [|a3 [|a4 [|a5 [|d0 [|d1 [|d2 [|d3 rest']]]]]]]]]];
    simpl in HL; try discriminate HL.
  simpl in X, Y. injection X; intros; subst a0 a1 a2 a3 a4 a5 rest'.
  destruct (parser_init_crc r' f d0 d1 d2 d3 rest Hf1) as (p2 & _ & ->).
  destruct (Z.eqb_spec (le32 d0 d1 d2 d3)
    (file_crc (115 :: 107 :: 121 :: 98 :: 2 :: f :: d0 :: d1 :: d2 :: d3 :: rest))) as [e|e]; [exfalso|reflexivity].
  rewrite file_crc_is_crc_of_zeroed in e, E.
  change (zero_field (115 :: 107 :: 121 :: 98 :: 2 :: f :: d0 :: d1 :: d2 :: d3 :: rest))
    with (zero_field (115 :: 107 :: 121 :: 98 :: 2 :: f :: c0 :: c1 :: c2 :: c3 :: rest)) in e.
  rewrite <- E in e.
  repeat (apply wf_cons in Hw; destruct Hw as [? Hw]).
  repeat (apply wf_cons in Hw'; destruct Hw' as [? Hw']).
  unfold le32 in e.
  assert (d0 = c0 /\ d1 = c1 /\ d2 = c2 /\ d3 = c3) as (-> & -> & -> & ->) by lia.
  apply Hne. reflexivity.
Qed.

(* ------------------------------------------------------------------ *)
(** * One and two flipped bits *)

Definition flip_bit (bytes : list Z) (i : nat) : list Z :=
  match nth_error bytes (i / 8) with
  | Some x => upd bytes (i / 8) (Z.lxor x (Z.shiftl 1 (Z.of_nat (i mod 8))))
  | None => bytes
  end.

Lemma LE_upd : forall xs k x m, nth_error xs k = Some x ->
  LE (upd xs k (Z.lxor x m)) = Z.lxor (LE xs) (Z.shiftl m (8 * Z.of_nat k)).
Proof.
  induction xs as [|y xs IH]; intros [|k] x m H; simpl in H; try discriminate.
  - injection H as ->. cbn [upd LE]. change (8 * Z.of_nat 0) with 0. rewrite Z.shiftl_0_r.
    generalize (Z.shiftl (LE xs) 8). intros S. xor_solve.
  - cbn [upd LE]. rewrite (IH k x m H), Z.shiftl_lxor, Z.shiftl_shiftl by lia.
    rewrite Z.lxor_assoc. do 3 f_equal. lia.
Qed.

Lemma flip_bit_spec bytes i : wf_bytes bytes = true -> (i < 8 * length bytes)%nat ->
  wf_bytes (flip_bit bytes i) = true /\ length (flip_bit bytes i) = length bytes /\
  LE (flip_bit bytes i) = Z.lxor (LE bytes) (Z.shiftl 1 (Z.of_nat i)).
Proof.
  intros Hw Hi. unfold flip_bit. destruct (nth_error bytes (i / 8)) as [x|] eqn:E.
  2:{ apply nth_error_None in E. exfalso. lia. }
  split; [|split].
  - apply wf_upd; [exact Hw|].
    assert (Hx : 0 <= x < 2 ^ 8).
    { apply nth_error_In in E. apply wf_bytes_forall in Hw. rewrite Forall_forall in Hw.
      change (2 ^ 8) with 256. apply Hw, E. }
    change 256 with (2 ^ 8). apply lxor_range; [lia| exact Hx|].
    rewrite Z.shiftl_1_l. split; [apply Z.pow_nonneg; lia| apply Z.pow_lt_mono_r; lia].
  - apply upd_length.
  - rewrite (LE_upd _ _ _ _ E), Z.shiftl_shiftl by lia. do 2 f_equal. lia.
Qed.

Lemma flip_diff c xs ys D : in32 c -> wf_bytes xs = true -> wf_bytes ys = true ->
  length ys = length xs -> LE ys = Z.lxor (LE xs) D ->
  crc_update c ys = crc_update c xs -> bs (8 * length xs) D = 0.
Proof.
  intros Hc Hx Hy HL HV E. rewrite !crc_update_lin, HL, HV, bs_lxor in E by assumption.
  apply lxor_cancel_l in E. rewrite <- (Z.lxor_0_r (bs _ (LE xs))) in E at 2.
  apply lxor_cancel_l in E. exact E.
Qed.

Lemma in32_1 : in32 1. Proof. unfold in32; lia. Qed.

Lemma one_bit_detected : forall crc bytes i,
  0 <= crc < 4294967296 -> wf_bytes bytes = true -> (i < 8 * length bytes)%nat ->
  crc_update crc (flip_bit bytes i) <> crc_update crc bytes.
Proof.
  intros crc bytes i Hc Hw Hi E.
  destruct (flip_bit_spec bytes i Hw Hi) as (W & L & V).
  pose proof (flip_diff crc bytes _ _ Hc Hw W L V E) as Z0.
  replace (8 * length bytes)%nat with ((8 * length bytes - i) + i)%nat in Z0 by lia.
  rewrite bs_add, bs_shiftl in Z0. apply bs_nonzero in Z0; [exact Z0| exact in32_1| lia].
Qed.

Definition orbit_bound : Z := 4194304.

Definition orbit_step (st : bool * Z) : bool * Z :=
  let s' := bstep (snd st) in (fst st && negb (s' =? 1), s').

Lemma orbit_inv m :
  snd (Nat.iter m orbit_step (true, 1)) = bs m 1 /\
  (fst (Nat.iter m orbit_step (true, 1)) = true -> forall d, (1 <= d <= m)%nat -> bs d 1 <> 1).
Proof.
  induction m as [|m [IH1 IH2]].
  - split; [reflexivity| intros; lia].
  - set (st := Nat.iter m orbit_step (true, 1)) in *.
    change (Nat.iter (S m) orbit_step (true, 1)) with (orbit_step st).
    unfold orbit_step. cbn [fst snd]. rewrite IH1. change (bstep (bs m 1)) with (bs (S m) 1).
    split; [reflexivity|]. intros H d Hd. apply andb_true_iff in H. destruct H as [H1 H2].
    destruct (Nat.eq_dec d (S m)) as [->|].
    + apply negb_true_iff, Z.eqb_neq in H2. exact H2.
    + apply IH2; [exact H1| lia].
Qed.

Lemma orbit_check : fst (N.iter 4194304 orbit_step (true, 1)) = true.
Proof. vm_cast_no_check (eq_refl true). Qed.

Lemma orbit_ok d : (1 <= d)%nat -> Z.of_nat d <= orbit_bound -> bs d 1 <> 1.
Proof.
  intros H1 H2. pose proof orbit_check as C. rewrite N2Nat.inj_iter in C.
  assert (Hm : Z.of_nat (N.to_nat 4194304) = 4194304) by (rewrite N_nat_Z; reflexivity).
  revert C Hm. generalize (N.to_nat 4194304). intros m C Hm.
  apply (proj2 (orbit_inv m) C). unfold orbit_bound in H2. lia.
Qed.

Lemma two_bits_detected_upto : forall crc bytes i j,
  0 <= crc < 4294967296 -> wf_bytes bytes = true ->
  (i < j)%nat -> (j < 8 * length bytes)%nat -> Z.of_nat j - Z.of_nat i <= orbit_bound ->
  crc_update crc (flip_bit (flip_bit bytes i) j) <> crc_update crc bytes.
Proof.
  intros crc bytes i j Hc Hw Hij Hj Hd E.
  destruct (flip_bit_spec bytes i Hw ltac:(lia)) as (W1 & L1 & V1).
  destruct (flip_bit_spec (flip_bit bytes i) j W1 ltac:(lia)) as (W2 & L2 & V2).
  rewrite L1 in L2. rewrite V1, Z.lxor_assoc in V2.
  pose proof (flip_diff crc bytes _ _ Hc Hw W2 L2 V2 E) as Z0.
  rewrite bs_lxor in Z0.
  replace (8 * length bytes)%nat with ((8 * length bytes - j) + ((j - i) + i))%nat in Z0 at 1 by lia.
  replace (8 * length bytes)%nat with ((8 * length bytes - j) + j)%nat in Z0 at 2 by lia.
  rewrite !bs_add, !bs_shiftl, <- bs_lxor in Z0.
  assert (R : in32 (Z.lxor (bs (j - i) 1) 1)) by (apply lxor_in32; [apply bs_in32|]; exact in32_1).
  destruct (Z.eq_dec (Z.lxor (bs (j - i) 1) 1) 0) as [e|e].
  - apply Z.lxor_eq in e. revert e. apply orbit_ok; lia.
  - exact (bs_nonzero _ _ R e Z0).
Qed.

(* ------------------------------------------------------------------ *)
(** * Non-vacuity *)

Lemma crc_check_value :
  crc_update 0 [49; 50; 51; 52; 53; 54; 55; 56; 57] = crc_spec [49; 50; 51; 52; 53; 54; 55; 56; 57]
  /\ crc_update 0 [49; 50; 51; 52; 53; 54; 55; 56; 57] = 771566984.
Proof. split; vm_compute; reflexivity. Qed.

Transparent get_crc32 rewind crc32_tab.
