(** Rounding-error bound (Higham) for Horner evaluation in the binary32 model
    of Base/F32.v, for every coefficient list and every argument, plus the
    two-rounding bound for the interpolation a + b*u. *)
From Coq Require Import ZArith QArith Qabs List Lia Lqa.
From SB Require Import Base.Num Base.F32 Model.Poly Proofs.Utils_Proofs.
Import ListNotations.
Local Open Scope Q_scope.

Definition eps32 : Q := 1 # 16777216.
Fixpoint qpow (x : Q) (n : nat) : Q := match n with O => 1 | S k => x * qpow x k end.
Definition gamma32 (k : nat) : Q := qpow (1 + eps32) k - 1.
Definition abs_eval (cs : list Q) (u : Q) : Q := horner QOps (map Qabs cs) (Qabs u).

(** * one rounding *)

Lemma rnd32_err_all x : Qabs (rnd32 x - x) <= eps32 * Qabs x.
Proof.
  destruct (Qeq_dec x 0) as [H|H].
  - rewrite (rnd32_zero x H). rewrite H. apply Qle_bool_imp_le. reflexivity.
  - rewrite Qmult_comm. apply rnd32_error. exact H.
Qed.

Lemma Qabs_split a b : Qabs a <= Qabs (a - b) + Qabs b.
Proof.
  assert (E : a == (a - b) + b) by ring.
  rewrite E at 1. apply Qabs_triangle.
Qed.

(** * powers of 1 + eps *)

Lemma qpow_SS x k : qpow x (S (S k)) == qpow x k * x * x.
Proof. simpl. ring. Qed.

Lemma qpow_ge1 k : 1 <= qpow (1 + eps32) k.
Proof.
  induction k as [|k IH]; simpl.
  - apply Qle_refl.
  - assert (H : 0 <= eps32 * qpow (1 + eps32) k).
    { apply Qmult_le_0_compat; [unfold eps32; lra | lra]. }
    lra.
Qed.

Lemma qpow_S_le k : qpow (1 + eps32) k <= qpow (1 + eps32) (S k).
Proof.
  simpl. pose proof (qpow_ge1 k) as H1.
  assert (H : 0 <= eps32 * qpow (1 + eps32) k).
  { apply Qmult_le_0_compat; [unfold eps32; lra | lra]. }
  lra.
Qed.

Lemma qpow_mono j k : (j <= k)%nat -> qpow (1 + eps32) j <= qpow (1 + eps32) k.
Proof.
  induction 1 as [|k _ IH].
  - apply Qle_refl.
  - eapply Qle_trans; [exact IH | apply qpow_S_le].
Qed.

Lemma gamma32_mono j k : (j <= k)%nat -> gamma32 j <= gamma32 k.
Proof. intro H. unfold gamma32. pose proof (qpow_mono j k H). lra. Qed.

Lemma gamma32_nonneg k : 0 <= gamma32 k.
Proof. unfold gamma32. pose proof (qpow_ge1 k). lra. Qed.

Lemma gamma32_S j : (1 + gamma32 j) * (1 + eps32) == 1 + gamma32 (S j).
Proof. unfold gamma32. simpl. ring. Qed.

(** * the exact and absolute evaluations, without [Qred] *)

Lemma hornerQ_nil u : horner QOps [] u = 0.
Proof. reflexivity. Qed.

Lemma hornerQ_cons c r u : horner QOps (c :: r) u == c + u * horner QOps r u.
Proof.
  change (horner QOps (c :: r) u) with (Qred (c + Qred (u * horner QOps r u))).
  rewrite !Qred_correct. reflexivity.
Qed.

Lemma abs_eval_cons c r u : abs_eval (c :: r) u == Qabs c + Qabs u * abs_eval r u.
Proof. unfold abs_eval. simpl map. apply hornerQ_cons. Qed.

Lemma hornerF_cons c r u : horner F32Ops (c :: r) u = fadd c (fmul u (horner F32Ops r u)).
Proof. reflexivity. Qed.

Lemma abs_eval_nonneg cs u : 0 <= abs_eval cs u.
Proof.
  induction cs as [|c r IH].
  - apply Qle_refl.
  - rewrite abs_eval_cons.
    pose proof (Qabs_nonneg c) as Hc.
    assert (H : 0 <= Qabs u * abs_eval r u).
    { apply Qmult_le_0_compat; [apply Qabs_nonneg | exact IH]. }
    lra.
Qed.

Lemma exact_le_abs cs u : Qabs (horner QOps cs u) <= abs_eval cs u.
Proof.
  induction cs as [|c r IH].
  - apply Qle_refl.
  - rewrite hornerQ_cons, abs_eval_cons.
    eapply Qle_trans; [apply Qabs_triangle|].
    rewrite Qabs_Qmult.
    assert (H : Qabs u * Qabs (horner QOps r u) <= Qabs u * abs_eval r u).
    { rewrite !(Qmult_comm (Qabs u)). apply Qmult_le_compat_r; [exact IH | apply Qabs_nonneg]. }
    lra.
Qed.

(** * one Horner step: two roundings *)

Lemma horner_step c u Fr Er Ar G :
  1 <= G -> 0 <= Ar -> Qabs (Fr - Er) <= (G - 1) * Ar -> Qabs Er <= Ar ->
  Qabs (fadd c (fmul u Fr) - (c + u * Er))
  <= (G * (1 + eps32) * (1 + eps32) - 1) * (Qabs c + Qabs u * Ar).
Proof.
  intros HG HA HD HE. unfold fadd, fmul.
  pose proof (rnd32_err_all (u * Fr)) as H1.
  set (P := rnd32 (u * Fr)) in *.
  pose proof (rnd32_err_all (c + P)) as H2.
  set (S := rnd32 (c + P)) in *.
  rewrite Qabs_Qmult in H1.
  pose proof (Qabs_nonneg u) as Hu. pose proof (Qabs_nonneg c) as Hc.
  assert (HFr : Qabs Fr <= G * Ar).
  { eapply Qle_trans; [apply (Qabs_split Fr Er)|]. lra. }
  assert (HY : Qabs u * Qabs Fr <= Qabs u * (G * Ar)).
  { rewrite !(Qmult_comm (Qabs u)). apply Qmult_le_compat_r; assumption. }
  assert (HDu : Qabs (u * (Fr - Er)) <= Qabs u * ((G - 1) * Ar)).
  { rewrite Qabs_Qmult. rewrite !(Qmult_comm (Qabs u)). apply Qmult_le_compat_r; assumption. }
  assert (HX : 0 <= Qabs u * Ar) by (apply Qmult_le_0_compat; assumption).
  assert (HGX : 0 <= (G - 1) * (Qabs u * Ar)) by (apply Qmult_le_0_compat; [lra | assumption]).
  assert (HGc : 0 <= (G - 1) * Qabs c) by (apply Qmult_le_0_compat; [lra | assumption]).
  assert (HP : Qabs P <= Qabs (P - u * Fr) + Qabs u * Qabs Fr).
  { eapply Qle_trans; [apply (Qabs_split P (u * Fr))|]. rewrite Qabs_Qmult. apply Qle_refl. }
  assert (HcP : Qabs (c + P) <= Qabs c + Qabs P) by apply Qabs_triangle.
  assert (Hsplit : Qabs (S - (c + u * Er))
                   <= Qabs (u * (Fr - Er)) + Qabs (P - u * Fr) + Qabs (S - (c + P))).
  { assert (E : S - (c + u * Er) == (u * (Fr - Er) + (P - u * Fr)) + (S - (c + P))) by ring.
    rewrite E. eapply Qle_trans; [apply Qabs_triangle|].
    apply Qplus_le_compat; [apply Qabs_triangle | apply Qle_refl]. }
  eapply Qle_trans; [exact Hsplit|].
  clear Hsplit.
  revert H1 H2 HFr HY HDu HX HGX HGc HP HcP HD HE Hu Hc.
  generalize (Qabs (u * (Fr - Er))) (Qabs (P - u * Fr)) (Qabs (S - (c + P)))
             (Qabs (c + P)) (Qabs P) (Qabs Fr) (Qabs (Fr - Er)) (Qabs Er) (Qabs u) (Qabs c).
  clear S P. intros d0 d1 d2 acP aP aFr aD aE au ac. intros.
  unfold eps32 in *. nra.
Qed.

(** * Horner evaluation: 2 roundings per coefficient *)

Theorem horner_f32_error : forall (cs : list Q) (u : Q),
  Qabs (horner F32Ops cs u - horner QOps cs u) <= gamma32 (2 * length cs) * abs_eval cs u.
Proof.
  intros cs u. induction cs as [|c r IH].
  - apply Qle_bool_imp_le. reflexivity.
  - rewrite hornerF_cons, hornerQ_cons, abs_eval_cons.
    replace (2 * length (c :: r))%nat with (S (S (2 * length r))) by (simpl; lia).
    assert (E : gamma32 (S (S (2 * length r)))
                == qpow (1 + eps32) (2 * length r) * (1 + eps32) * (1 + eps32) - 1).
    { unfold gamma32. rewrite qpow_SS. reflexivity. }
    rewrite E.
    apply horner_step.
    + apply qpow_ge1.
    + apply abs_eval_nonneg.
    + exact IH.
    + apply exact_le_abs.
Qed.

(** * gamma_k <= 1.01 k eps for k <= 64 *)

Definition gamma_chk (k : nat) : bool :=
  Qle_bool (gamma32 k) ((inject_Z (Z.of_nat k) * (1 # 16777216)) * (101 # 100)).

Lemma gamma_chk_all : forallb gamma_chk (seq 0 65) = true.
Proof. vm_compute. reflexivity. Qed.

Theorem gamma32_linear : forall k, (k <= 64)%nat ->
  gamma32 k <= (inject_Z (Z.of_nat k) * (1 # 16777216)) * (101 # 100).
Proof.
  intros k Hk. apply Qle_bool_imp_le.
  apply (proj1 (forallb_forall gamma_chk (seq 0 65)) gamma_chk_all k).
  apply in_seq. lia.
Qed.

Theorem horner_f32_error_deg7 : forall cs u, (length cs <= 8)%nat ->
  Qabs (horner F32Ops cs u - horner QOps cs u) <= (17 # 16777216) * abs_eval cs u.
Proof.
  intros cs u Hlen.
  eapply Qle_trans; [apply horner_f32_error|].
  apply Qmult_le_compat_r; [|apply abs_eval_nonneg].
  eapply Qle_trans; [apply (gamma32_mono _ 16); lia|].
  eapply Qle_trans; [apply gamma32_linear; lia|].
  apply Qle_bool_imp_le. reflexivity.
Qed.

(** * a + b*u in binary32: two roundings *)

Theorem lerp_f32_error : forall a b u,
  Qabs (fadd a (fmul b u) - (a + b * u)) <= gamma32 2 * (Qabs a + Qabs b * Qabs u).
Proof.
  intros a b u.
  assert (E0 : Qabs (u - u) == 0).
  { assert (Z0 : u - u == 0) by ring. rewrite Z0. reflexivity. }
  (* use the step lemma with Fr = Er = u, Ar = |u|, G = 1 *)
  pose proof (horner_step a b u u (Qabs u) 1) as H'.
  assert (E : gamma32 2 == 1 * (1 + eps32) * (1 + eps32) - 1).
  { unfold gamma32. simpl. ring. }
  rewrite E. apply H'.
  - apply Qle_refl.
  - apply Qabs_nonneg.
  - rewrite E0. lra.
  - apply Qle_refl.
Qed.

Print Assumptions horner_f32_error.
Print Assumptions gamma32_linear.
Print Assumptions horner_f32_error_deg7.
Print Assumptions lerp_f32_error.
