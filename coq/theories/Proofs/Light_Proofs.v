(** Proofs for C02 (the polling light interpreter refines the event-driven
    semantics) and C09 (history independence of seeks).

    [rgbq_eq], [obs_match], [extra] and [run_seeks] are defined HERE (an
    identical Inductive in Props/Properties_C02.v would not be convertible);
    Properties_C02.v uses these definitions.

    Structure:
    - properties of the declarative run ([next_event_sound], [stops_at_end]);
    - decoding: the model's readers ([next_byte], [next_varint], ...) against
      the address-based readers of the spec, [exec_command_decode];
    - the abstraction relation [Rel] and the one-step refinement
      ([step_before], [step_refines_exec1], [step_ended]);
    - the seek loop ([core_refines], [seek_fresh_refines_timeline],
      [seek_fresh_terminates]);
    - histories of seeks ([seek_inv], [seek_history_independent']).

    NOTE: [seek_history_independent] as first stated is FALSE
    ([seek_history_independent_counterexample]: program [END], seek to 0 twice:
    the second seek re-arms the next event to 60000 whereas [spec_next] of the
    state that ended at 0 is 0).  [seek_history_independent'] weakens the
    next-event clause accordingly ([obs_match_rep]);
    [seek_history_independent_strict] is the original conclusion under the
    extra hypothesis [obs_ended p = false \/ cur_ts p <> t]. *)
From Coq Require Import ZArith QArith List Lia Bool ZifyBool.
From SB Require Import Base.Prelude Gen.Generated Model.Light Spec.LightSpec.
Import ListNotations.
Local Open Scope Z_scope.

Definition rgbq_eq (a b : rgbq) : Prop := (qr a == qr b)%Q /\ (qg a == qg b)%Q /\ (qb a == qb b)%Q.

(** what a seek reports vs the declarative state at [t] *)
Definition obs_match (p : player) (s : mstate) (t : Z) : Prop :=
  rgbq_eq (obs_color p) (spec_color s t) /\ obs_pyro p = spec_pyro s /\
  obs_ended p = spec_ended s /\ obs_next p = spec_next s t.

Inductive extra (prog : list Z) (t : Z) : nat -> mstate -> mstate -> Prop :=
| extra0 : forall s, extra prog t 0 s s
| extraS : forall k s s', m_ended s = false -> m_wake s = t ->
    extra prog t k (exec1 prog s) s' -> extra prog t (S k) s s'.

Fixpoint run_seeks (fuel : nat) (prog : list Z) (p : player) (ts : list Z) : res player :=
  match ts with
  | [] => Ok p
  | t :: rest => p' <- light_seek fuel prog p t ;; run_seeks fuel prog p' rest
  end.

(** * Non-vacuity example *)
Lemma light_example :
  let prog := [12; 2; 12; 3; 8; 255; 0; 0; 5; 4; 0; 0; 255; 5; 13; 13; 18; 21; 9; 9; 0; 20; 129; 11; 50; 0] in
  match light_seek 1000 prog (player_fresh prog) 1230, state_at 1000 prog 1230 with
  | Ok p, Some s => obs_pyro p = 1 /\ spec_pyro s = 1 /\ rgbq_eq (obs_color p) (spec_color s 1230) /\ obs_ended p = false
  | _, _ => False
  end.
Proof. vm_compute. repeat split; reflexivity. Qed.

(** * Decoding of unknown opcodes *)
Lemma decode_unknown_stops : forall prog a op,
  wf_bytes prog = true -> byte_at prog a = op -> (op = 15 \/ 22 <= op) -> fst (decode prog a) = IEnd.
Proof.
  intros prog a op _ Hop Hr. unfold decode. rewrite Hop.
  assert (Hne : forall k, k <> op -> (op =? k) = false) by (intros; lia).
  rewrite !Hne by lia. reflexivity.
Qed.

(** * Properties of the declarative run *)
Lemma run_until_eq fuel prog s t :
  run_until fuel prog s t =
  if m_ended s then Some s
  else if t <? m_wake s then Some s
  else match fuel with
       | O => None
       | S f => if m_wake s =? t then Some (exec1 prog s) else run_until f prog (exec1 prog s) t
       end.
Proof. destruct fuel; reflexivity. Qed.

Lemma after_ms_wake s d : m_wake s <= snd (after_ms s d).
Proof. unfold after_ms; cbn [snd]. lia. Qed.

Lemma exec1_wake_mono prog s : m_wake s <= m_wake (exec1 prog s).
Proof.
  unfold exec1. destruct (decode prog (m_pc s)) as [i n].
  destruct i; cbn [m_wake m_loops m_origin m_clock m_color m_pyro m_fade m_ended m_pc];
    unfold after_ms; cbn [m_wake m_loops m_origin m_clock m_color m_pyro m_fade m_ended m_pc]; try lia.
  - destruct (_ =? 0); cbn [m_wake]; lia.
  - destruct (_ <? 4); cbn [m_wake]; lia.
  - destruct (m_loops s) as [|[st it] rest]; cbn [m_wake]; try lia.
    destruct (it =? 0); [cbn [m_wake]; lia|]. destruct (it =? 1); cbn [m_wake]; lia.
Qed.

Lemma exec1_end_wake prog s : m_ended (exec1 prog s) = true -> m_wake (exec1 prog s) = m_wake s.
Proof.
  unfold exec1. destruct (decode prog (m_pc s)) as [i n].
  destruct i; cbn [m_wake m_loops m_origin m_clock m_color m_pyro m_fade m_ended m_pc];
    unfold after_ms; cbn [m_wake m_loops m_origin m_clock m_color m_pyro m_fade m_ended m_pc]; try congruence.
  - destruct (_ =? 0); cbn [m_ended]; congruence.
  - destruct (_ <? 4); cbn [m_ended]; congruence.
  - destruct (m_loops s) as [|[st it] rest]; cbn [m_ended]; try congruence.
    destruct (it =? 0); [cbn [m_ended]; congruence|]. destruct (it =? 1); cbn [m_ended]; congruence.
Qed.

Lemma run_until_wake prog t : forall fuel s0 s,
  run_until fuel prog s0 t = Some s -> m_ended s = false -> t <= m_wake s.
Proof.
  induction fuel as [|f IH]; intros s0 s H He; rewrite run_until_eq in H.
  - destruct (m_ended s0) eqn:E0; [inversion H; subst; congruence|].
    destruct (t <? m_wake s0) eqn:E1; [inversion H; subst; lia|discriminate].
  - destruct (m_ended s0) eqn:E0; [inversion H; subst; congruence|].
    destruct (t <? m_wake s0) eqn:E1; [inversion H; subst; lia|].
    destruct (m_wake s0 =? t) eqn:E2.
    + inversion H; subst. pose proof (exec1_wake_mono prog s0). lia.
    + eapply IH; eauto.
Qed.

Lemma next_event_sound : forall prog t fuel s,
  0 <= t -> state_at fuel prog t = Some s ->
  t <= spec_next s t /\ (m_ended s = false -> t <= m_wake s /\ spec_next s t = m_wake s).
Proof.
  intros prog t fuel s _ H. unfold state_at in H. unfold spec_next.
  destruct (m_ended s) eqn:E.
  - split; [|discriminate]. destruct (m_wake s =? t); lia.
  - pose proof (run_until_wake _ _ _ _ _ H E). split; [lia|]. intros _. split; [lia|reflexivity].
Qed.

Lemma run_until_ended_later prog t t' : t <= t' -> forall fuel s0 s,
  run_until fuel prog s0 t = Some s -> m_ended s = true -> run_until fuel prog s0 t' = Some s.
Proof.
  intros Ht. induction fuel as [|f IH]; intros s0 s H He; rewrite run_until_eq in H; rewrite run_until_eq.
  - destruct (m_ended s0) eqn:E0; [assumption|].
    destruct (t <? m_wake s0) eqn:E1; [inversion H; subst; congruence|discriminate].
  - destruct (m_ended s0) eqn:E0; [assumption|].
    destruct (t <? m_wake s0) eqn:E1; [inversion H; subst; congruence|].
    destruct (t' <? m_wake s0) eqn:E1'; [lia|].
    destruct (m_wake s0 =? t) eqn:E2.
    + inversion H; subst. destruct (m_wake s0 =? t') eqn:E3; [reflexivity|].
      rewrite run_until_eq, He. reflexivity.
    + destruct (m_wake s0 =? t') eqn:E3; [lia|]. apply IH; assumption.
Qed.

Lemma stops_at_end : forall prog t t' fuel s,
  0 <= t <= t' -> state_at fuel prog t = Some s -> m_ended s = true ->
  state_at fuel prog t' = Some s.
Proof.
  intros prog t t' fuel s Ht H He. unfold state_at in *.
  eapply run_until_ended_later; eauto. lia.
Qed.

(** * Decoding: the model's readers vs the address-based readers *)
Ltac pj := cbn [pc ended loops cum origin next_wakeup cmd_start reset_flag color pyro tr_active
                tr_start tr_dur start_color end_color upd_pc upd_ended upd_loops upd_clock upd_pyro
                set_color_reset fst snd].
Ltac pj_in H := cbn [pc ended loops cum origin next_wakeup cmd_start reset_flag color pyro tr_active
                tr_start tr_dur start_color end_color upd_pc upd_ended upd_loops upd_clock upd_pyro
                set_color_reset fst snd] in H.

Lemma upd_pc_id s : upd_pc s (pc s) = s.
Proof. destruct s; reflexivity. Qed.
Lemma upd_pc_upd_pc s a b : upd_pc (upd_pc s a) b = upd_pc s b.
Proof. destruct s; reflexivity. Qed.
Lemma pc_upd_pc s a : pc (upd_pc s a) = a.
Proof. reflexivity. Qed.

Lemma next_byte_eq prog s :
  next_byte prog s = (byte_at prog (pc s), upd_pc s (adv prog (pc s))).
Proof.
  unfold next_byte, byte_at, adv.
  destruct ((0 <=? pc s) && (pc s <? Z.of_nat (length prog))) eqn:E.
  - destruct (nth_error prog (Z.to_nat (pc s))) eqn:En.
    + rewrite (nth_error_nth _ _ CMD_END En). reflexivity.
    + apply nth_error_None in En. lia.
  - rewrite upd_pc_id. reflexivity.
Qed.

Definition M64 : Z := 18446744073709551616.

Lemma lor_mod a b : Z.lor a b mod M64 = Z.lor (a mod M64) (b mod M64).
Proof.
  change M64 with (2 ^ 64). rewrite <- !Z.land_ones by lia. apply Z.land_lor_distr_l.
Qed.

Lemma mod_mod64 a : (a mod M64) mod M64 = a mod M64.
Proof. apply Z.mod_mod. unfold M64; lia. Qed.

Lemma varint_loop_eq prog : forall fuel s acc shift,
  acc mod M64 = acc ->
  next_varint_loop fuel prog s acc shift =
  (Z.lor acc (fst (varint_at fuel prog (pc s) shift)) mod M64,
   upd_pc s (snd (varint_at fuel prog (pc s) shift))).
Proof.
  induction fuel as [|f IH]; intros s acc shift Hacc.
  - cbn [next_varint_loop varint_at fst snd]. rewrite Z.lor_0_r, Hacc, upd_pc_id. reflexivity.
  - cbn [next_varint_loop varint_at]. rewrite next_byte_eq.
    fold M64.
    set (b := byte_at prog (pc s)). set (a' := adv prog (pc s)).
    destruct (shift <? 64) eqn:Es.
    + destruct (Z.land b 128 =? 0) eqn:Eb.
      * cbn [fst snd]. f_equal.
        rewrite (lor_mod acc (_ mod M64)), mod_mod64, <- lor_mod. reflexivity.
      * rewrite IH by apply mod_mod64. rewrite pc_upd_pc, upd_pc_upd_pc.
        destruct (varint_at f prog a' (shift + 7)) as [hi a''] eqn:Ev. cbn [fst snd]. f_equal.
        rewrite (lor_mod _ hi), mod_mod64, (lor_mod acc (_ mod M64)), mod_mod64.
        rewrite (lor_mod acc), (lor_mod _ hi), Z.lor_assoc. reflexivity.
    + destruct (Z.land b 128 =? 0) eqn:Eb.
      * cbn [fst snd]. f_equal. rewrite Z.mod_0_l by (unfold M64; lia).
        rewrite Z.lor_0_r. symmetry; assumption.
      * rewrite IH by assumption. rewrite pc_upd_pc, upd_pc_upd_pc.
        destruct (varint_at f prog a' shift) as [hi a''] eqn:Ev. cbn [fst snd]. f_equal.
        rewrite Z.lor_0_l. rewrite (lor_mod acc (_ mod M64)), mod_mod64, <- lor_mod. reflexivity.
Qed.

Lemma varint_mod prog a : fst (varint prog a) mod M64 = fst (varint prog a).
Proof.
  unfold varint. cbn [varint_at]. fold M64.
  destruct (Z.land (byte_at prog a) 128 =? 0).
  - cbn [fst]. apply mod_mod64.
  - destruct (varint_at _ _ _ _) as [hi a'']. cbn [fst]. apply mod_mod64.
Qed.

Lemma next_varint_eq prog s :
  next_varint prog s = (fst (varint prog (pc s)), upd_pc s (snd (varint prog (pc s)))).
Proof.
  unfold next_varint. rewrite varint_loop_eq by reflexivity.
  fold (varint prog (pc s)). rewrite Z.lor_0_l, varint_mod. reflexivity.
Qed.

Lemma next_duration_eq prog s :
  next_duration prog s = (fst (dur_at prog (pc s)), upd_pc s (snd (dur_at prog (pc s)))).
Proof.
  unfold next_duration, dur_at. rewrite next_varint_eq.
  destruct (varint prog (pc s)) as [v a']. reflexivity.
Qed.

Lemma read_rgb_eq prog s :
  read_rgb prog s = (fst (rgb_at prog (pc s)), upd_pc s (snd (rgb_at prog (pc s)))).
Proof.
  unfold read_rgb, rgb_at. rewrite !next_byte_eq. rewrite !pc_upd_pc, !upd_pc_upd_pc. reflexivity.
Qed.

Lemma skip3_eq prog s : skip3 prog s = upd_pc s (snd (rgb_at prog (pc s))).
Proof.
  unfold skip3, rgb_at. rewrite !next_byte_eq. rewrite !pc_upd_pc, !upd_pc_upd_pc. reflexivity.
Qed.

(** the executor on abstract instructions *)
Definition delay_ms (s : exec) (d : Z) : exec :=
  let c := cum s + d in delay_until (upd_clock s c (origin s) (next_wakeup s)) c.

Definition fade_ms (s : exec) (d : Z) (target : rgbq) : exec :=
  let now := cmd_start s in
  let s1 := delay_ms s d in
  let dur := next_wakeup s1 - now in
  if dur =? 0 then
    mkexec (pc s1) (ended s1) (loops s1) (cum s1) (origin s1) (next_wakeup s1) (cmd_start s1) (reset_flag s1)
           target (pyro s1) false now dur target target
  else
    mkexec (pc s1) (ended s1) (loops s1) (cum s1) (origin s1) (next_wakeup s1) (cmd_start s1) (reset_flag s1)
           (start_color s1) (pyro s1) true now dur (start_color s1) target.

Lemma delay_byte_eq prog s :
  delay_byte prog s = delay_ms (upd_pc s (snd (dur_at prog (pc s)))) (fst (dur_at prog (pc s))).
Proof. unfold delay_byte. rewrite next_duration_eq. reflexivity. Qed.

Lemma fade_to_eq prog s c :
  fade_to prog s c = fade_ms (upd_pc s (snd (dur_at prog (pc s)))) (fst (dur_at prog (pc s))) c.
Proof. unfold fade_to, fade_ms. rewrite delay_byte_eq. reflexivity. Qed.

Definition exec_instr (i : instr) (n : Z) (e : exec) : exec :=
  match i with
  | IEnd => upd_ended (upd_pc e n) true
  | INop => upd_pc e n
  | ISleep d => delay_ms (upd_pc e n) d
  | IWaitUntil d =>
    let s2 := delay_until (upd_pc e n) d in
    upd_clock s2 (next_wakeup s2 - origin s2) (origin s2) (next_wakeup s2)
  | ISet c d => set_color_reset (delay_ms (upd_pc e n) d) c
  | IFade c d => fade_ms (upd_pc e n) d c
  | ILoopBegin it => loop_begin (upd_pc e n) n it
  | ILoopEnd => loop_end (upd_pc e n)
  | IResetClock => upd_clock (upd_pc e n) 0 (cmd_start e) (next_wakeup e)
  | IJump a => upd_loops (upd_pc e a) []
  | IPyroSet m => upd_pyro (upd_pc e n) (Z.lor (pyro e) m)
  | IPyroClear m => upd_pyro (upd_pc e n) (Z.land (pyro e) (127 - m))
  | IPyroAll m => upd_pyro (upd_pc e n) m
  end.

Lemma forall_byte (P : Z -> bool) :
  forallb P (map Z.of_nat (seq 0 256)) = true -> forall m, 0 <= m < 256 -> P m = true.
Proof.
  intros H m Hm. rewrite forallb_forall in H. apply H.
  apply in_map_iff. exists (Z.to_nat m). split; [lia|]. apply in_seq. lia.
Qed.

Lemma pyro_clear_mask m : 0 <= m < 256 -> Z.land m 128 = 0 ->
  255 - Z.lor m 128 = 127 - Z.land m 127.
Proof.
  intros Hm H.
  pose proof (forall_byte (fun m => negb (Z.land m 128 =? 0) || (255 - Z.lor m 128 =? 127 - Z.land m 127))
                eq_refl m Hm) as HP.
  cbv beta in HP. lia.
Qed.

Lemma byte_at_range prog a : wf_bytes prog = true -> 0 <= byte_at prog a < 256.
Proof.
  intros Hwf. unfold byte_at.
  destruct ((0 <=? a) && (a <? Z.of_nat (length prog))) eqn:E; [|unfold CMD_END; lia].
  apply wf_bytes_forall in Hwf. rewrite Forall_forall in Hwf. apply Hwf. apply nth_In. lia.
Qed.

Lemma exec_command_decode prog e : wf_bytes prog = true ->
  exec_command prog e = exec_instr (fst (decode prog (pc e))) (snd (decode prog (pc e))) e.
Proof.
  intros Hwf. unfold exec_command. rewrite next_byte_eq. unfold decode.
  unfold CMD_END, CMD_NOP, CMD_SLEEP, CMD_WAIT_UNTIL, CMD_SET_COLOR, CMD_SET_GRAY, CMD_SET_BLACK,
    CMD_SET_WHITE, CMD_FADE_TO_COLOR, CMD_FADE_TO_GRAY, CMD_FADE_TO_BLACK, CMD_FADE_TO_WHITE,
    CMD_LOOP_BEGIN, CMD_LOOP_END, CMD_RESET_CLOCK, CMD_SET_COLOR_FROM_CHANNELS,
    CMD_FADE_TO_COLOR_FROM_CHANNELS, CMD_JUMP, CMD_TRIGGERED_JUMP, CMD_SET_PYRO, CMD_SET_PYRO_ALL.
  set (op := byte_at prog (pc e)). set (a1 := adv prog (pc e)).
  unfold set_color_cmd.
  destruct (op =? 0); [reflexivity|].
  destruct (op =? 1); [reflexivity|].
  destruct (op =? 2). { rewrite delay_byte_eq, pc_upd_pc, upd_pc_upd_pc. destruct (dur_at prog a1); reflexivity. }
  destruct (op =? 3).
  { rewrite next_varint_eq, pc_upd_pc, upd_pc_upd_pc. unfold dur_at. destruct (varint prog a1); reflexivity. }
  destruct (op =? 4).
  { rewrite read_rgb_eq, delay_byte_eq, !pc_upd_pc, !upd_pc_upd_pc. unfold rgb_at. cbn [fst snd].
    destruct (dur_at prog _); reflexivity. }
  destruct (op =? 5).
  { rewrite next_byte_eq, delay_byte_eq, !pc_upd_pc, !upd_pc_upd_pc.
    destruct (dur_at prog _); reflexivity. }
  destruct (op =? 6). { rewrite delay_byte_eq, pc_upd_pc, upd_pc_upd_pc. destruct (dur_at prog a1); reflexivity. }
  destruct (op =? 7). { rewrite delay_byte_eq, pc_upd_pc, upd_pc_upd_pc. destruct (dur_at prog a1); reflexivity. }
  destruct (op =? 8).
  { rewrite read_rgb_eq, fade_to_eq, !pc_upd_pc, !upd_pc_upd_pc. unfold rgb_at. cbn [fst snd].
    destruct (dur_at prog _); reflexivity. }
  destruct (op =? 9).
  { rewrite next_byte_eq, fade_to_eq, !pc_upd_pc, !upd_pc_upd_pc.
    destruct (dur_at prog _); reflexivity. }
  destruct (op =? 10). { rewrite fade_to_eq, pc_upd_pc, upd_pc_upd_pc. destruct (dur_at prog a1); reflexivity. }
  destruct (op =? 11). { rewrite fade_to_eq, pc_upd_pc, upd_pc_upd_pc. destruct (dur_at prog a1); reflexivity. }
  destruct (op =? 12). { rewrite next_byte_eq, !pc_upd_pc, !upd_pc_upd_pc. reflexivity. }
  destruct (op =? 13); [reflexivity|].
  destruct (op =? 14). { destruct e; reflexivity. }
  destruct (op =? 16).
  { rewrite skip3_eq, delay_byte_eq, !pc_upd_pc, !upd_pc_upd_pc. unfold rgb_at. cbn [fst snd].
    destruct (dur_at prog _); reflexivity. }
  destruct (op =? 17).
  { rewrite skip3_eq, fade_to_eq, !pc_upd_pc, !upd_pc_upd_pc. unfold rgb_at. cbn [fst snd].
    destruct (dur_at prog _); reflexivity. }
  destruct (op =? 18).
  { rewrite next_varint_eq, !pc_upd_pc, !upd_pc_upd_pc. destruct (varint prog a1) as [v n]. cbn [fst snd].
    unfold address_valid. destruct (v <? 2147483647); reflexivity. }
  destruct (op =? 19).
  { rewrite next_byte_eq, !pc_upd_pc, !upd_pc_upd_pc.
    destruct (Z.land (byte_at prog a1) 48 =? 0); cbn [negb]; [reflexivity|].
    rewrite next_varint_eq, !pc_upd_pc, !upd_pc_upd_pc. destruct (varint prog _) as [v n]. cbn [fst snd].
    unfold address_valid. destruct (v <? 2147483647); reflexivity. }
  destruct (op =? 20).
  { rewrite next_byte_eq, !pc_upd_pc, !upd_pc_upd_pc.
    destruct (Z.land (byte_at prog a1) 128 =? 0) eqn:Em; cbn [fst snd exec_instr].
    - rewrite (pyro_clear_mask _ (byte_at_range prog a1 Hwf)) by lia. destruct e; reflexivity.
    - destruct e; reflexivity. }
  destruct (op =? 21). { rewrite next_byte_eq, !pc_upd_pc, !upd_pc_upd_pc. reflexivity. }
  reflexivity.
Qed.

(** * The abstraction relation *)
Ltac mj := cbn [m_pc m_loops m_origin m_clock m_wake m_color m_pyro m_ended m_fade
                f_t0 f_dur f_from f_to].

Definition CR (e : exec) (s : mstate) : Prop :=
  (tr_active e = true /\ m_ended s = false /\
   m_fade s = Some (mkfade (tr_start e) (tr_dur e) (start_color e) (end_color e)) /\
   0 < tr_dur e /\ tr_start e + tr_dur e = m_wake s)
  \/ (tr_active e = false /\ m_fade s = None /\ m_color s = start_color e /\
      rgbq_eq (color e) (start_color e)).

Definition Rel (e : exec) (s : mstate) : Prop :=
  reset_flag e = false /\ ended e = m_ended s /\ pyro e = m_pyro s /\ CR e s /\
  (m_ended s = false ->
   pc e = m_pc s /\ loops e = m_loops s /\ cum e = m_clock s /\ origin e = m_origin s /\
   next_wakeup e = m_wake s).

Lemma rgbq_eq_refl c : rgbq_eq c c.
Proof. unfold rgbq_eq; repeat split; reflexivity. Qed.

Lemma rgbq_eq_sym a b : rgbq_eq a b -> rgbq_eq b a.
Proof. unfold rgbq_eq; intros (?&?&?); repeat split; symmetry; assumption. Qed.

Lemma rgbq_eq_trans a b c : rgbq_eq a b -> rgbq_eq b c -> rgbq_eq a c.
Proof. unfold rgbq_eq; intros (?&?&?) (?&?&?); repeat split; etransitivity; eassumption. Qed.

Lemma lerpq_1 a b : (lerpq a b 1 == b)%Q.
Proof. unfold lerpq. rewrite Qred_correct. ring. Qed.

Lemma lerpq_0 a b d : (lerpq a b (0 # d) == a)%Q.
Proof.
  unfold lerpq. rewrite Qred_correct.
  assert (H : (0 # d == 0)%Q) by reflexivity. rewrite H. ring.
Qed.

Lemma interp_1 a b : rgbq_eq (interp a b 1) b.
Proof. unfold rgbq_eq, interp; cbn [qr qg qb]. repeat split; apply lerpq_1. Qed.

Lemma interp_0 a b d : rgbq_eq (interp a b (0 # d)) a.
Proof. unfold rgbq_eq, interp; cbn [qr qg qb]. repeat split; apply lerpq_0. Qed.

Lemma Qle_bool_1 n d : 0 < d -> Qle_bool 1 (n # Z.to_pos d) = (d <=? n).
Proof.
  intros Hd. unfold Qle_bool. cbn [Qnum Qden]. rewrite Z2Pos.id by assumption.
  rewrite Z.mul_1_l, Z.mul_1_r. reflexivity.
Qed.

(** normalisation of a finished fade *)
Definition norm (s : mstate) : mstate :=
  mkm (m_pc s) (m_loops s) (m_origin s) (m_clock s) (m_wake s)
      (match m_fade s with Some f => if m_wake s <? f_t0 f + f_dur f then m_color s else f_to f | None => m_color s end)
      (m_pyro s) (m_ended s)
      (match m_fade s with Some f => if m_wake s <? f_t0 f + f_dur f then Some f else None | None => None end).

Lemma exec1_norm prog s : exec1 prog (norm s) = exec1 prog s.
Proof.
  destruct s as [a l o c w col py en fd]. unfold exec1, norm; mj.
  destruct (decode prog a) as [i n].
  destruct fd as [f|]; [|reflexivity].
  destruct (w <? f_t0 f + f_dur f) eqn:E; mj; [rewrite E|]; reflexivity.
Qed.

Local Hint Resolve rgbq_eq_refl : core.
Ltac split5 := split; [|split; [|split; [|split]]].
Ltac fin := split; [split5|split]; auto; try discriminate;
  try (right; split; [|split; [|split]]; auto); try (intros _; split5; auto).
Opaque rgbq_eq.

(** one instruction executed at its wake-up instant, no fade running *)
Lemma instr_refines prog e s :
  Rel e s -> m_ended s = false -> tr_active e = false -> cmd_start e = m_wake s ->
  let e' := exec_instr (fst (decode prog (m_pc s))) (snd (decode prog (m_pc s))) e in
  let s' := exec1 prog s in
  Rel e' s' /\ rgbq_eq (color e') (color_at s' (m_wake s)) /\
  (m_ended s' = true -> next_wakeup e' = m_wake s).
Proof.
  destruct e as [epc een elp ecum eor enw ecs erf ecol epy eta ets etd esc eec].
  destruct s as [a l o c w col py en fd].
  unfold Rel, CR; pj; mj.
  intros (Hrf & Hen & Hpy & HCR & Hrest) Hne Hta Hcs.
  destruct (Hrest Hne) as (Hpc & Hlp & Hcum & Hor & Hnw). clear Hrest.
  destruct HCR as [(Hx & _)|(_ & Hfd & Hcol & Hceq)]; [congruence|].
  subst. unfold exec1; mj.
  destruct (decode prog a) as [i n]. cbn [fst snd].
  destruct i; cbn [exec_instr]; unfold fade_ms, delay_ms, delay_until, loop_begin, loop_end, after_ms,
     color_at, CONFIG_MAX_LOOP_DEPTH; pj; mj.
  - (* IEnd *) fin.
  - (* INop *) fin.
  - (* ISleep *) fin.
  - (* IWaitUntil *) fin.
  - (* ISet *) fin.
  - (* IFade *)
    destruct (Z.max w (o + (c + d)) - w =? 0) eqn:Ed; pj; mj.
    + fin.
    + split.
      * split5; auto. left. split5; auto; lia.
      * split; [|discriminate].
        assert (Hlt : (w <? w + (Z.max w (o + (c + d)) - w)) = true) by lia. rewrite Hlt.
        rewrite Z.ltb_irrefl, Z.sub_diag. apply rgbq_eq_sym, interp_0.
  - (* ILoopBegin *)
    destruct (Z.of_nat (length l) <? 4); pj; mj; fin.
  - (* ILoopEnd *)
    destruct l as [|[st it] rest]; pj; mj; [fin|].
    destruct (it =? 0); pj; mj; [fin|].
    destruct (it =? 1); pj; mj; fin.
  - (* IResetClock *) fin.
  - (* IJump *) fin.
  - (* IPyroSet *) fin.
  - (* IPyroClear *) fin.
  - (* IPyroAll *) fin.
Qed.
Transparent rgbq_eq.

(** * One polling step *)
Ltac mj_in H := cbn [m_pc m_loops m_origin m_clock m_wake m_color m_pyro m_ended m_fade
                f_t0 f_dur f_from f_to] in H.

Lemma progress_running e now : 0 < tr_dur e -> now < tr_start e + tr_dur e ->
  Qle_bool 1 (progress e now) = false /\
  progress e now = (if now <? tr_start e then 0 else (now - tr_start e) # Z.to_pos (tr_dur e))%Q.
Proof.
  intros Hd Hlt. unfold progress.
  destruct (now <? tr_start e) eqn:E1; [split; reflexivity|].
  destruct (tr_dur e =? 0) eqn:E2; [lia|].
  cbv zeta. rewrite Qle_bool_1 by assumption.
  destruct (tr_dur e <=? now - tr_start e) eqn:E3; [lia|].
  split; [|reflexivity]. rewrite Qle_bool_1 by assumption. assumption.
Qed.

Lemma progress_done e now : 0 < tr_dur e -> tr_start e + tr_dur e <= now -> progress e now = 1%Q.
Proof.
  intros Hd Hle. unfold progress.
  destruct (now <? tr_start e) eqn:E1; [lia|].
  destruct (tr_dur e =? 0) eqn:E2; [lia|].
  cbv zeta. rewrite Qle_bool_1 by assumption.
  destruct (tr_dur e <=? now - tr_start e) eqn:E3; [reflexivity|lia].
Qed.

(** (C) an ended executor only re-arms its wake-up *)
Lemma step_ended prog e s now :
  Rel e s -> m_ended s = true ->
  Rel (step prog e now) s /\ next_wakeup (step prog e now) = now + 60000 /\
  color (step prog e now) = color e.
Proof.
  intros HR He.
  destruct e as [epc een elp ecum eor enw ecs erf ecol epy eta ets etd esc eec].
  destruct s as [a l o c w col py en fd].
  unfold Rel, CR in HR; pj_in HR; mj_in HR. mj_in He. subst en.
  destruct HR as (Hrf & Hen & Hpy & HCR & _). subst.
  unfold step; pj. split; [|split; reflexivity].
  unfold Rel, CR; pj; mj. split5; auto. discriminate.
Qed.

(** (A) strictly before the wake-up instant only the running fade is updated *)
Lemma step_before prog e s now :
  Rel e s -> m_ended s = false -> now < m_wake s ->
  Rel (step prog e now) s /\ rgbq_eq (color (step prog e now)) (color_at s now).
Proof.
  intros HR He Hlt.
  destruct e as [epc een elp ecum eor enw ecs erf ecol epy eta ets etd esc eec].
  destruct s as [a l o c w col py en fd].
  unfold Rel, CR in HR; pj_in HR; mj_in HR. mj_in He. mj_in Hlt. subst en.
  destruct HR as (Hrf & Hen & Hpy & HCR & Hrest).
  destruct (Hrest eq_refl) as (Hpc & Hlp & Hcum & Hor & Hnw). clear Hrest. subst.
  unfold step; pj.
  destruct HCR as [(Hta & _ & Hfd & Hd & Hsum)|(Hta & Hfd & Hcol & Hceq)]; subst eta fd.
  - match goal with |- context [progress ?e now] =>
      destruct (progress_running e now) as [Hq Hp]; [pj; lia|pj; lia|] end.
    rewrite Hq, Hp. pj_in Hp. pj. cbn [negb]. pj.
    destruct (w <=? now) eqn:E; [lia|].
    split.
    + unfold Rel, CR; pj; mj. split5; auto. left. split5; auto.
    + unfold color_at; mj. destruct (now <? ets + etd) eqn:E2; [|lia]. apply rgbq_eq_refl.
  - pj. destruct (w <=? now) eqn:E; [lia|].
    split.
    + unfold Rel, CR; pj; mj. split5; auto.
    + unfold color_at; mj. subst col. assumption.
Qed.

(** (B) at the wake-up instant one step is one [exec1] *)
Lemma step_refines_exec1 prog e s :
  wf_bytes prog = true -> Rel e s -> m_ended s = false ->
  let e' := step prog e (m_wake s) in
  let s' := exec1 prog s in
  Rel e' s' /\ rgbq_eq (color e') (color_at s' (m_wake s)) /\
  (m_ended s' = true -> next_wakeup e' = m_wake s).
Proof.
  intros Hwf HR He.
  destruct e as [epc een elp ecum eor enw ecs erf ecol epy eta ets etd esc eec].
  destruct s as [a l o c w col py en fd].
  unfold Rel, CR in HR; pj_in HR; mj_in HR. mj_in He. subst en.
  destruct HR as (Hrf & Hen & Hpy & HCR & Hrest).
  destruct (Hrest eq_refl) as (Hpc & Hlp & Hcum & Hor & Hnw). clear Hrest. subst.
  cbv zeta. mj. unfold step; pj.
  destruct HCR as [(Hta & _ & Hfd & Hd & Hsum)|(Hta & Hfd & Hcol & Hceq)]; subst eta fd.
  - match goal with |- context [progress ?e w] =>
      rewrite (progress_done e w) by (pj; lia) end.
    change (Qle_bool 1 1) with true. cbn [negb]. pj.
    rewrite Z.leb_refl. rewrite exec_command_decode by assumption. pj.
    match goal with |- context [exec1 prog ?S] => rewrite <- (exec1_norm prog S); unfold norm; mj end.
    destruct (w <? ets + etd) eqn:E; [lia|].
    match goal with |- Rel (exec_instr _ _ ?E2) (exec1 prog ?S2) /\ _ =>
      pose proof (instr_refines prog E2 S2) as H end.
    cbv zeta in H. mj_in H. pj_in H. apply H; auto.
    unfold Rel, CR; pj; mj. split5; auto.
    right. split; [|split; [|split]]; auto. apply interp_1.
  - pj. rewrite Z.leb_refl. rewrite exec_command_decode by assumption. pj.
    match goal with |- Rel (exec_instr _ _ ?E2) (exec1 prog ?S2) /\ _ =>
      pose proof (instr_refines prog E2 S2) as H end.
    cbv zeta in H. mj_in H. pj_in H. apply H; auto.
    unfold Rel, CR; pj; mj. split5; auto.
Qed.

(** * The seek loop *)
Definition seek_core (fuel : nat) (prog : list Z) (p : player) (t : Z) : res player :=
  p1 <- light_seek_loop fuel prog p t ;;
  let e := step prog (ex p1) t in Ok (mkplayer e t (next_wakeup e)).

Lemma light_seek_eq fuel prog p t :
  light_seek fuel prog p t =
  seek_core fuel prog (if t <? cur_ts p then mkplayer (exec_rewind prog (ex p)) 0 0 else p) t.
Proof. reflexivity. Qed.

Lemma loop_eq fuel prog p t :
  light_seek_loop fuel prog p t =
  if t <=? next_ts p then Ok p else
  match fuel with
  | O => Fuel
  | S f =>
    let e := step prog (ex p) (next_ts p) in
    let proposal := if next_wakeup e <? next_ts p then next_ts p + 1 else next_wakeup e in
    light_seek_loop f prog (mkplayer e (next_ts p) proposal) t
  end.
Proof. destruct fuel; reflexivity. Qed.

Definition reset_at (e : exec) (now : Z) : exec :=
  mkexec (pc e) (ended e) (loops e) 0 now now (cmd_start e) false black (pyro e)
         (tr_active e) (tr_start e) (tr_dur e) black (end_color e).

Lemma step_reset prog e now : reset_flag e = true -> step prog e now = step prog (reset_at e now) now.
Proof. destruct e; pj; intros ->; reflexivity. Qed.

Lemma seek_core_reset fuel prog e c t : reset_flag e = true -> 0 <= t ->
  seek_core fuel prog (mkplayer e c 0) t = seek_core fuel prog (mkplayer (reset_at e 0) c 0) t.
Proof.
  intros Hr Ht. unfold seek_core. rewrite !loop_eq. cbn [next_ts ex].
  destruct (t <=? 0) eqn:E.
  - assert (t = 0) by lia. subst t. cbn [bind ex]. rewrite (step_reset prog e 0 Hr). reflexivity.
  - destruct fuel; [reflexivity|]. cbv zeta. rewrite (step_reset prog e 0 Hr). reflexivity.
Qed.

Lemma Rel_rewound prog e0 : Rel (reset_at (exec_rewind prog e0) 0) (minit prog).
Proof.
  unfold Rel, CR, reset_at, exec_rewind, minit. destruct prog; pj; mj.
  - split5; auto. discriminate.
  - split5; auto.
Qed.

Lemma Rel_ended_color e s t : Rel e s -> m_ended s = true -> rgbq_eq (color e) (color_at s t).
Proof.
  intros (_ & _ & _ & HCR & _) He.
  destruct HCR as [(_ & Hx & _)|(_ & Hfd & Hcol & Hceq)]; [congruence|].
  unfold color_at. rewrite Hfd, Hcol. assumption.
Qed.

Lemma Rel_wake e s : Rel e s -> m_ended s = false -> next_wakeup e = m_wake s.
Proof. intros (_ & _ & _ & _ & H) He. apply H; assumption. Qed.

(** the last step of a seek *)
Lemma final_step prog t e s : wf_bytes prog = true ->
  Rel e s -> (m_ended s = false -> t <= m_wake s) ->
  exists f s2, run_until f prog s t = Some s2 /\ Rel (step prog e t) s2 /\
    rgbq_eq (color (step prog e t)) (color_at s2 t) /\
    next_wakeup (step prog e t) = (if m_ended s then t + 60000 else spec_next s2 t).
Proof.
  intros Hwf HR Hw. destruct (m_ended s) eqn:He.
  - exists O, s. rewrite run_until_eq, He.
    destruct (step_ended prog e s t HR He) as (HR' & Hnw & Hc).
    split; [reflexivity|]. split; [assumption|]. split; [|assumption].
    rewrite Hc. apply Rel_ended_color; assumption.
  - specialize (Hw eq_refl). destruct (t <? m_wake s) eqn:E.
    + exists O, s. rewrite run_until_eq, He, E.
      destruct (step_before prog e s t HR He) as (HR' & Hc); [lia|].
      split; [reflexivity|]. split; [assumption|]. split; [assumption|].
      unfold spec_next. rewrite He. apply Rel_wake; assumption.
    + assert (t = m_wake s) by lia. subst t.
      exists 1%nat, (exec1 prog s). rewrite run_until_eq, He, E, Z.eqb_refl.
      destruct (step_refines_exec1 prog e s Hwf HR He) as (HR' & Hc & Hn).
      split; [reflexivity|]. split; [assumption|]. split; [assumption|].
      unfold spec_next. destruct (m_ended (exec1 prog s)) eqn:He'.
      * rewrite (exec1_end_wake _ _ He'), Z.eqb_refl. auto.
      * apply Rel_wake; assumption.
Qed.

Lemma run_until_ended f prog s t : m_ended s = true -> run_until f prog s t = Some s.
Proof. intros H. rewrite run_until_eq, H. reflexivity. Qed.

(** the whole seek (after the rewind decision) computes the declarative run *)
Lemma core_refines prog t : wf_bytes prog = true -> forall fuel e c n s p',
  Rel e s -> (m_ended s = false -> n = m_wake s) ->
  seek_core fuel prog (mkplayer e c n) t = Ok p' ->
  exists f s2, run_until f prog s t = Some s2 /\ Rel (ex p') s2 /\ cur_ts p' = t /\
    next_ts p' = next_wakeup (ex p') /\
    rgbq_eq (color (ex p')) (color_at s2 t) /\
    next_ts p' = (if m_ended s then t + 60000 else spec_next s2 t).
Proof.
  intros Hwf.
  assert (Hexit : forall e n s p', Rel e s -> (m_ended s = false -> n = m_wake s) ->
    (t <=? n) = true ->
    (let e1 := step prog e t in Ok (mkplayer e1 t (next_wakeup e1))) = Ok p' ->
    exists f s2, run_until f prog s t = Some s2 /\ Rel (ex p') s2 /\ cur_ts p' = t /\
    next_ts p' = next_wakeup (ex p') /\
    rgbq_eq (color (ex p')) (color_at s2 t) /\
    next_ts p' = (if m_ended s then t + 60000 else spec_next s2 t)).
  { intros e n s p' HR Hn E H. cbv zeta in H. inversion H; subst p'; clear H. cbn [ex cur_ts next_ts].
    destruct (final_step prog t e s Hwf HR) as (f & s2 & Hrun & HR' & Hc & Hnw).
    { intros He. rewrite <- (Hn He). lia. }
    exists f, s2. auto 10. }
  induction fuel as [|f IH]; intros e c n s p' HR Hn H;
    unfold seek_core in H; rewrite loop_eq in H; cbn [next_ts ex] in H;
    destruct (t <=? n) eqn:E.
  - cbn [bind ex] in H. eapply Hexit; eauto.
  - discriminate.
  - cbn [bind ex] in H. eapply Hexit; eauto.
  - cbv zeta in H.
    set (e1 := step prog e n) in *.
    change (seek_core f prog (mkplayer e1 n (if next_wakeup e1 <? n then n + 1 else next_wakeup e1)) t = Ok p') in H.
    destruct (m_ended s) eqn:He.
    + destruct (step_ended prog e s n HR He) as (HR' & Hnw & Hc). fold e1 in HR', Hnw, Hc.
      destruct (IH _ _ _ s _ HR' (fun Hx => ltac:(congruence)) H)
        as (f' & s2 & Hrun & HR2 & Hct & Hnt & Hcol & Hnext).
      rewrite He in Hnext. exists f', s2. auto 10.
    + specialize (Hn eq_refl). subst n.
      destruct (step_refines_exec1 prog e s Hwf HR He) as (HR' & Hc & Hn'). fold e1 in HR', Hc, Hn'.
      assert (Hprop : m_ended (exec1 prog s) = false ->
                      (if next_wakeup e1 <? m_wake s then m_wake s + 1 else next_wakeup e1) = m_wake (exec1 prog s)).
      { intros Hx. rewrite (Rel_wake _ _ HR' Hx). pose proof (exec1_wake_mono prog s).
        destruct (m_wake (exec1 prog s) <? m_wake s) eqn:E2; [lia|reflexivity]. }
      destruct (IH _ _ _ (exec1 prog s) _ HR' Hprop H)
        as (f' & s2 & Hrun & HR2 & Hct & Hnt & Hcol & Hnext).
      exists (S f'), s2. split.
      { rewrite run_until_eq, He. destruct (t <? m_wake s) eqn:E3; [lia|].
        destruct (m_wake s =? t) eqn:E4; [lia|]. assumption. }
      split; [assumption|]. split; [assumption|]. split; [assumption|]. split; [assumption|].
      destruct (m_ended (exec1 prog s)) eqn:He'; [|assumption].
      rewrite (run_until_ended _ _ _ _ He') in Hrun. inversion Hrun; subst s2.
      rewrite Hnext. unfold spec_next. rewrite He', (exec1_end_wake _ _ He').
      destruct (m_wake s =? t) eqn:E4; [lia|reflexivity].
Qed.

Lemma minit_wake prog : m_ended (minit prog) = false -> 0 = m_wake (minit prog).
Proof. destruct prog; [discriminate|reflexivity]. Qed.

Lemma seek_rewound prog t fuel e0 c p : wf_bytes prog = true -> 0 <= t ->
  seek_core fuel prog (mkplayer (exec_rewind prog e0) c 0) t = Ok p ->
  exists f s2, run_until f prog (minit prog) t = Some s2 /\ Rel (ex p) s2 /\ cur_ts p = t /\
    next_ts p = next_wakeup (ex p) /\ obs_match p s2 t.
Proof.
  intros Hwf Ht H. rewrite seek_core_reset in H by (auto; reflexivity).
  destruct (core_refines prog t Hwf _ _ _ _ (minit prog) _ (Rel_rewound prog e0) (minit_wake prog) H)
    as (f & s2 & Hrun & HR & Hct & Hnt & Hcol & Hnext).
  exists f, s2. split; [assumption|]. split; [assumption|]. split; [assumption|]. split; [assumption|].
  unfold obs_match, obs_color, obs_pyro, obs_ended, obs_next, spec_color, spec_pyro, spec_ended.
  split; [assumption|].
  destruct HR as (_ & Hen & Hpy & _). split; [assumption|]. split; [assumption|].
  rewrite Hnext. destruct (m_ended (minit prog)) eqn:He; [|reflexivity].
  rewrite (run_until_ended _ _ _ _ He) in Hrun. inversion Hrun; subst s2.
  unfold spec_next. rewrite He. destruct prog; [|discriminate]. cbn [minit m_wake].
  destruct (-1 =? t) eqn:E; [lia|reflexivity].
Qed.

Lemma seek_fresh_refines_timeline : forall prog t fuel p,
  wf_bytes prog = true -> 0 <= t ->
  light_seek fuel prog (player_fresh prog) t = Ok p ->
  exists fuel' s, state_at fuel' prog t = Some s /\ obs_match p s t.
Proof.
  intros prog t fuel p Hwf Ht H. rewrite light_seek_eq in H.
  unfold player_fresh in H. cbn [cur_ts ex] in H.
  destruct (t <? 0) eqn:E; [lia|]. unfold exec_fresh in H.
  destruct (seek_rewound _ _ _ _ _ _ Hwf Ht H) as (f & s2 & Hrun & _ & _ & _ & Hobs).
  exists f, s2. split; assumption.
Qed.

(** * Termination of the seek when the declarative run is defined *)
Lemma step_ended_raw prog e now : ended e = true -> reset_flag e = false ->
  step prog e now = upd_clock e (cum e) (origin e) (now + 60000).
Proof. destruct e; pj; intros -> ->; reflexivity. Qed.

Lemma loop_ended_terminates prog t : forall fuel e c n,
  ended e = true -> reset_flag e = false -> (Z.to_nat (t - n) <= fuel)%nat ->
  exists p1, light_seek_loop fuel prog (mkplayer e c n) t = Ok p1.
Proof.
  induction fuel as [|f IH]; intros e c n He Hr Hf; rewrite loop_eq; cbn [next_ts ex];
    destruct (t <=? n) eqn:E; try (eexists; reflexivity).
  - lia.
  - cbv zeta. rewrite (step_ended_raw prog e n He Hr). pj.
    destruct (n + 60000 <? n) eqn:E2; [lia|].
    apply IH; [destruct e; assumption|destruct e; assumption|lia].
Qed.

Lemma loop_terminates prog t : wf_bytes prog = true -> forall f e c n s s2,
  Rel e s -> (m_ended s = false -> n = m_wake s) ->
  run_until f prog s t = Some s2 ->
  exists fuel p1, light_seek_loop fuel prog (mkplayer e c n) t = Ok p1.
Proof.
  intros Hwf.
  assert (Hend : forall e c n s, Rel e s -> m_ended s = true ->
            exists fuel p1, light_seek_loop fuel prog (mkplayer e c n) t = Ok p1).
  { intros e c n s HR He. exists (Z.to_nat (t - n)).
    destruct HR as (Hr & Hen & _). apply loop_ended_terminates; auto; congruence. }
  induction f as [|f IH]; intros e c n s s2 HR Hn H; rewrite run_until_eq in H;
    destruct (m_ended s) eqn:He; try (eapply Hend; eassumption);
    specialize (Hn eq_refl); subst n;
    (destruct (t <? m_wake s) eqn:E1;
     [exists O; rewrite loop_eq; cbn [next_ts]; destruct (t <=? m_wake s) eqn:E2; [eexists; reflexivity|lia]|]).
  - discriminate.
  - destruct (m_wake s =? t) eqn:E3.
    + exists O; rewrite loop_eq; cbn [next_ts]. destruct (t <=? m_wake s) eqn:E2; [eexists; reflexivity|lia].
    + destruct (step_refines_exec1 prog e s Hwf HR He) as (HR' & Hc & Hn').
      set (e1 := step prog e (m_wake s)) in *.
      assert (Hprop : m_ended (exec1 prog s) = false ->
                      (if next_wakeup e1 <? m_wake s then m_wake s + 1 else next_wakeup e1) = m_wake (exec1 prog s)).
      { intros Hx. rewrite (Rel_wake _ _ HR' Hx). pose proof (exec1_wake_mono prog s).
        destruct (m_wake (exec1 prog s) <? m_wake s) eqn:E2; [lia|reflexivity]. }
      destruct (IH e1 (m_wake s) _ _ _ HR' Hprop H) as (fuel & p1 & Hl).
      exists (S fuel), p1. rewrite loop_eq. cbn [next_ts ex].
      destruct (t <=? m_wake s) eqn:E2; [lia|]. exact Hl.
Qed.

Lemma seek_fresh_terminates : forall prog t fuel s,
  wf_bytes prog = true -> 0 <= t ->
  state_at fuel prog t = Some s ->
  exists fuel' p, light_seek fuel' prog (player_fresh prog) t = Ok p.
Proof.
  intros prog t fuel s Hwf Ht H. unfold state_at in H.
  destruct (loop_terminates prog t Hwf _ _ 0 0 _ _ (Rel_rewound prog (mkexec 0 true [] 0 0 60000 0 false black 0 false 0 0 black black))
              (minit_wake prog) H) as (fuel' & p1 & Hl).
  exists fuel'. rewrite light_seek_eq. unfold player_fresh. cbn [cur_ts ex].
  destruct (t <? 0) eqn:E; [lia|]. unfold exec_fresh.
  rewrite seek_core_reset by (auto; reflexivity).
  unfold seek_core. rewrite Hl. cbn [bind]. eexists; reflexivity.
Qed.

(** * History independence (C09) *)
Inductive path (prog : list Z) (c : Z) : mstate -> mstate -> Prop :=
| path_refl : forall s, path prog c s s
| path_step : forall s0 s, m_ended s0 = false -> m_wake s0 <= c ->
    path prog c (exec1 prog s0) s -> path prog c s0 s.

Lemma path_trans prog c s0 s1 s2 : path prog c s0 s1 -> path prog c s1 s2 -> path prog c s0 s2.
Proof. induction 1; intros; [assumption|]. eapply path_step; eauto. Qed.

Lemma path_mono prog c c' s0 s : c <= c' -> path prog c s0 s -> path prog c' s0 s.
Proof. intros Hc. induction 1; [apply path_refl|]. eapply path_step; eauto. lia. Qed.

Lemma run_until_path prog t : forall f s0 s, run_until f prog s0 t = Some s -> path prog t s0 s.
Proof.
  induction f as [|f IH]; intros s0 s H; rewrite run_until_eq in H;
    destruct (m_ended s0) eqn:He; try (inversion H; subst; apply path_refl);
    (destruct (t <? m_wake s0) eqn:E1; [inversion H; subst; apply path_refl|]).
  - discriminate.
  - destruct (m_wake s0 =? t) eqn:E2.
    + inversion H; subst. eapply path_step; [assumption|lia|apply path_refl].
    + eapply path_step; [assumption|lia|]. apply IH; assumption.
Qed.

Lemma path_end_wake prog c s0 s : path prog c s0 s -> m_ended s = true ->
  (m_ended s0 = true -> m_wake s0 <= c) -> m_wake s <= c.
Proof.
  induction 1 as [s|s0 s He0 Hw0 Hp IH]; intros He Hinit; [auto|].
  apply IH; [assumption|]. intros Hx. rewrite (exec1_end_wake _ _ Hx). assumption.
Qed.

Lemma path_extra prog t s1 s : path prog t s1 s -> forall f s2,
  (m_ended s1 = true \/ t <= m_wake s1) -> run_until f prog s t = Some s2 ->
  exists k, extra prog t k s1 s2.
Proof.
  induction 1 as [s|s0 s He0 Hw0 Hp IH]; intros f s2 Hc H.
  - rewrite run_until_eq in H. destruct (m_ended s) eqn:He.
    { inversion H; subst. exists O. constructor. }
    destruct (t <? m_wake s) eqn:E1.
    { inversion H; subst. exists O. constructor. }
    destruct f; [discriminate|].
    destruct (m_wake s =? t) eqn:E2.
    + inversion H; subst. exists 1%nat. apply extraS; [assumption|lia|constructor].
    + destruct Hc; [congruence|lia].
  - assert (m_wake s0 = t) by (destruct Hc; [congruence|lia]).
    destruct (IH f s2) as (k & Hk); [right; pose proof (exec1_wake_mono prog s0); lia|assumption|].
    exists (S k). apply extraS; assumption.
Qed.

Lemma path_run prog c t : c <= t -> forall s0 s, path prog c s0 s -> forall f s2,
  run_until f prog s t = Some s2 ->
  exists f' s1 k, run_until f' prog s0 t = Some s1 /\ extra prog t k s1 s2 /\ (k <> O -> c = t).
Proof.
  intros Hct. induction 1 as [s|s0 s He0 Hw0 Hp IH]; intros f s2 H.
  - exists f, s2, O. split; [assumption|]. split; [constructor|congruence].
  - destruct (m_wake s0 =? t) eqn:E.
    + assert (c = t) by lia. subst c.
      destruct (path_extra prog t _ _ Hp f s2) as (k & Hk);
        [right; pose proof (exec1_wake_mono prog s0); lia|assumption|].
      exists 1%nat, (exec1 prog s0), k. split; [|split; [assumption|reflexivity]].
      rewrite run_until_eq, He0, E. destruct (t <? m_wake s0) eqn:E1; [lia|reflexivity].
    + destruct (IH f s2 H) as (f' & s1 & k & Hrun & Hk & Hkc).
      exists (S f'), s1, k. split; [|split; assumption].
      rewrite run_until_eq, He0, E. destruct (t <? m_wake s0) eqn:E1; [lia|assumption].
Qed.

(** what a seek reports after a history of seeks: as [obs_match], except that
    a query repeated at the very instant at which the player had already
    reported the end re-arms the next event one minute later *)
Definition obs_match_rep (p0 p : player) (s : mstate) (t : Z) : Prop :=
  rgbq_eq (obs_color p) (spec_color s t) /\ obs_pyro p = spec_pyro s /\
  obs_ended p = spec_ended s /\
  (obs_next p = spec_next s t \/
   (cur_ts p0 = t /\ obs_ended p0 = true /\ obs_next p = t + 60000)).

Lemma obs_match_rep_of p0 p s t : obs_match p s t -> obs_match_rep p0 p s t.
Proof. intros (H1 & H2 & H3 & H4). split; [assumption|]. split; [assumption|]. split; [assumption|]. left; assumption. Qed.

(** invariant of a player reached through seeks *)
Definition Hinv (prog : list Z) (p : player) : Prop :=
  p = player_fresh prog \/
  exists s, 0 <= cur_ts p /\ path prog (cur_ts p) (minit prog) s /\
            Rel (ex p) s /\ (m_ended s = false -> next_ts p = m_wake s).

Lemma seek_inv prog t fuel p p' : wf_bytes prog = true -> 0 <= t ->
  Hinv prog p -> light_seek fuel prog p t = Ok p' ->
  Hinv prog p' /\
  exists fuel' s k s', state_at fuel' prog t = Some s /\ extra prog t k s s' /\
    (k <> 0%nat -> cur_ts p = t) /\ obs_match_rep p p' s' t.
Proof.
  intros Hwf Ht HI H. rewrite light_seek_eq in H.
  assert (Hrew : forall e0 c, seek_core fuel prog (mkplayer (exec_rewind prog e0) c 0) t = Ok p' ->
    Hinv prog p' /\
    exists fuel' s k s', state_at fuel' prog t = Some s /\ extra prog t k s s' /\
      (k <> 0%nat -> cur_ts p = t) /\ obs_match_rep p p' s' t).
  { intros e0 c H0.
    destruct (seek_rewound _ _ _ _ _ _ Hwf Ht H0) as (f & s2 & Hrun & HR & Hc & Hn & Hobs).
    split.
    - right. exists s2. rewrite Hc. split; [assumption|]. split; [eapply run_until_path; eassumption|].
      split; [assumption|]. intros He. rewrite Hn. apply Rel_wake; assumption.
    - exists f, s2, O, s2. split; [assumption|]. split; [constructor|]. split; [congruence|].
      apply obs_match_rep_of; assumption. }
  destruct HI as [->|(s & Hc0 & Hpath & HR & Hn)].
  - unfold player_fresh in H. cbn [cur_ts ex] in H. destruct (t <? 0) eqn:E; [lia|].
    unfold exec_fresh in H. eapply Hrew; eassumption.
  - destruct (t <? cur_ts p) eqn:E; [eapply Hrew; eassumption|].
    destruct p as [e c n]. cbn [cur_ts ex next_ts] in *.
    destruct (core_refines prog t Hwf _ _ _ _ s _ HR Hn H)
      as (f & s2 & Hrun & HR2 & Hct & Hnt & Hcol & Hnext).
    assert (Hcle : c <= t) by lia.
    split.
    + right. exists s2. rewrite Hct. split; [assumption|]. split.
      { eapply path_trans; [eapply path_mono; eassumption|eapply run_until_path; eassumption]. }
      split; [assumption|]. intros He. rewrite Hnt. apply Rel_wake; assumption.
    + destruct (path_run prog c t Hcle _ _ Hpath f s2 Hrun) as (f' & s1 & k & Hrun' & Hk & Hkc).
      exists f', s1, k, s2. split; [assumption|]. split; [assumption|]. split; [assumption|].
      unfold obs_match_rep, obs_color, obs_pyro, obs_ended, obs_next, spec_color, spec_pyro, spec_ended.
      cbn [cur_ts ex].
      split; [assumption|].
      destruct HR2 as (_ & Hen2 & Hpy2 & _). split; [assumption|]. split; [assumption|].
      rewrite Hnext. destruct (m_ended s) eqn:He; [|left; reflexivity].
      rewrite (run_until_ended _ _ _ _ He) in Hrun. inversion Hrun; subst s2.
      unfold spec_next. rewrite He. destruct (m_wake s =? t) eqn:E2; [|left; reflexivity].
      right. split; [|split; [|reflexivity]].
      * assert (m_wake s <= c); [|lia].
        eapply path_end_wake; [eassumption|assumption|].
        intros _. destruct prog; cbn [minit m_wake]; lia.
      * destruct HR as (_ & Hen & _). congruence.
Qed.

Lemma run_seeks_inv prog fuel : wf_bytes prog = true -> forall ts p pf,
  Forall (fun x => 0 <= x) ts -> Hinv prog p -> run_seeks fuel prog p ts = Ok pf -> Hinv prog pf.
Proof.
  intros Hwf. induction ts as [|t ts IH]; intros p pf Hts HI H; cbn [run_seeks] in H.
  - inversion H; subst; assumption.
  - inversion Hts; subst.
    destruct (light_seek fuel prog p t) as [p1| | |] eqn:E; cbn [bind] in H; try discriminate.
    destruct (seek_inv prog t fuel p p1 Hwf) as (HI1 & _); auto.
    eapply IH; eassumption.
Qed.

(** C09 with the corrected next-event clause *)
Lemma seek_history_independent' : forall prog ts t fuel p p',
  wf_bytes prog = true -> Forall (fun x => 0 <= x) ts -> 0 <= t ->
  run_seeks fuel prog (player_fresh prog) ts = Ok p ->
  light_seek fuel prog p t = Ok p' ->
  exists fuel' s k s', state_at fuel' prog t = Some s /\ extra prog t k s s' /\
    (k <> 0%nat -> cur_ts p = t) /\ obs_match_rep p p' s' t.
Proof.
  intros prog ts t fuel p p' Hwf Hts Ht Hrun H.
  assert (HI : Hinv prog p) by (eapply run_seeks_inv; eauto; left; reflexivity).
  destruct (seek_inv prog t fuel p p' Hwf Ht HI H) as (_ & Hres). exact Hres.
Qed.

(** the statement as originally written holds unless the query repeats the
    instant at which the player had already reported the end *)
Lemma seek_history_independent_strict : forall prog ts t fuel p p',
  wf_bytes prog = true -> Forall (fun x => 0 <= x) ts -> 0 <= t ->
  run_seeks fuel prog (player_fresh prog) ts = Ok p ->
  (obs_ended p = false \/ cur_ts p <> t) ->
  light_seek fuel prog p t = Ok p' ->
  exists fuel' s k s', state_at fuel' prog t = Some s /\ extra prog t k s s' /\
    (k <> 0%nat -> cur_ts p = t) /\ obs_match p' s' t.
Proof.
  intros prog ts t fuel p p' Hwf Hts Ht Hrun Hex H.
  destruct (seek_history_independent' prog ts t fuel p p' Hwf Hts Ht Hrun H)
    as (f & s & k & s' & H1 & H2 & H3 & (Ha & Hb & Hc & Hd)).
  exists f, s, k, s'. split; [assumption|]. split; [assumption|]. split; [assumption|].
  unfold obs_match. split; [assumption|]. split; [assumption|]. split; [assumption|].
  destruct Hd as [Hd|(Hd1 & Hd2 & _)]; [assumption|]. destruct Hex; congruence.
Qed.

(** the original statement is false: END at instant 0 queried twice *)
Lemma seek_history_independent_counterexample :
  ~ (forall prog ts t fuel p p',
  wf_bytes prog = true -> Forall (fun x => 0 <= x) ts -> 0 <= t ->
  run_seeks fuel prog (player_fresh prog) ts = Ok p ->
  light_seek fuel prog p t = Ok p' ->
  exists fuel' s k s', state_at fuel' prog t = Some s /\ extra prog t k s s' /\
    (k <> 0%nat -> cur_ts p = t) /\ obs_match p' s' t).
Proof.
  intros H.
  destruct (run_seeks 1 [0] (player_fresh [0]) [0]) as [p| | |] eqn:Ep; try (vm_compute in Ep; discriminate).
  destruct (light_seek 1 [0] p 0) as [p'| | |] eqn:Ep';
    try (vm_compute in Ep; inversion Ep; subst p; vm_compute in Ep'; discriminate).
  destruct (H [0] [0] 0 1%nat p p' eq_refl (Forall_cons _ (Z.le_refl 0) (Forall_nil _)) (Z.le_refl 0) Ep Ep')
    as (f & s & k & s' & Hs & Hk & _ & (_ & _ & _ & Hn)).
  vm_compute in Ep; inversion Ep; subst p. vm_compute in Ep'; inversion Ep'; subst p'.
  unfold state_at in Hs. rewrite run_until_eq in Hs. cbn in Hs.
  destruct f; [discriminate|]. inversion Hs; subst s. clear Hs.
  inversion Hk; subst.
  - vm_compute in Hn. discriminate.
  - vm_compute in H0. discriminate.
Qed.

Print Assumptions light_example.
Print Assumptions decode_unknown_stops.
Print Assumptions next_event_sound.
Print Assumptions stops_at_end.
Print Assumptions step_refines_exec1.
Print Assumptions seek_fresh_refines_timeline.
Print Assumptions seek_fresh_terminates.
Print Assumptions seek_history_independent'.
Print Assumptions seek_history_independent_strict.
Print Assumptions seek_history_independent_counterexample.
