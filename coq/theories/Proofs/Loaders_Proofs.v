(** Proofs for C06 (the two loading routes).  Statements are used verbatim by
    Props/Properties_C06.v. *)
From SB Require Import Base.Prelude Gen.Generated Model.Crc Model.Container Model.Loaders
  Spec.CrcSpec Spec.ContainerSpec Proofs.Container_Proofs.
From Coq Require Import ZifyBool.
Local Open Scope Z_scope.

Opaque crc32_tab.

(* ------------------------------------------------------------------ *)
(** * The loaders read declaratively *)

Definition owned_spec (k : kind) (r : route) (body : list Z) : bool :=
  match k with
  | KRth => true
  | KLight => match body with [] => true | _ => match r with Fd => true | Mem => false end end
  | _ => match r with Fd => true | Mem => false end
  end.

Definition load_spec (k : kind) (r : route) (bytes : list Z) : res (list Z * bool) :=
  h <- init_spec bytes ;;
  b <- find_spec r bytes (h_start h) (kind_type k) ;;
  match body_of bytes b with
  | None => Err SB_EREAD
  | Some body =>
    if (length body <? min_len k)%nat then Err SB_EPARSE else Ok (body, owned_spec k r body)
  end.

(** [init_classifies] and [find_first_spec] do not use their well-formedness
    hypothesis; versions without it (needed for [load_total]). *)
Lemma init_classifies_any r bytes :
  match parser_init r bytes, init_spec bytes with
  | Ok p, Ok h => p_version p = h_version h /\ p_features p = h_features h /\ p_start p = h_start h
                  /\ p_bytes p = bytes /\ p_route p = r
  | Err e, Err e' => e = e'
  | _, _ => False
  end.
Proof.
  rewrite parser_init_char. unfold init_spec.
  pose proof (header_spec_res bytes) as Hh.
  destruct (header_spec bytes) as [h|e|s o|]; cbn [bind]; try contradiction; [|reflexivity].
  rewrite rewind_char by (intros _; exact Hh).
  unfold header_result.
  cbn [p_pos p_bytes set_pos p_route p_version p_features p_start p_type p_len p_body].
  destruct (skipn (h_start h) bytes) as [|ty [|l0 [|l1 rest]]]; simpl; auto.
Qed.

Lemma find_first_spec_any r bytes p ty :
  parser_init r bytes = Ok p ->
  match find_first p ty, find_spec r bytes (p_start p) ty with
  | Ok q', Ok b => p_type q' = b_type b /\ p_len q' = b_len b /\ p_body q' = b_body b /\
                   p_bytes q' = bytes /\ p_route q' = r
  | Err e, Err e' => e = e'
  | _, _ => False
  end.
Proof.
  intros Hinit.
  pose proof (init_classifies_any r bytes) as Hc. rewrite Hinit in Hc.
  destruct (init_spec bytes) as [h| | |] eqn:Ei; try contradiction.
  destruct Hc as (_ & _ & Hst & Hpb & Hpr).
  assert (Hstart : (p_start p <= length bytes)%nat).
  { unfold init_spec in Ei. pose proof (header_spec_res bytes) as Hh.
    destruct (header_spec bytes) as [h'| | |]; cbn [bind] in Ei; try discriminate Ei.
    destruct (skipn (h_start h') bytes) as [|? [|? [|? ?]]]; inversion Ei; subst; lia. }
  unfold find_first.
  rewrite rewind_char by (intros _; rewrite Hpb; exact Hstart).
  pose proof (find_records r bytes (p_start p) ty (S (length bytes)) (set_pos p (p_start p))) as HF.
  cbn [p_pos p_bytes set_pos p_route p_version p_features p_start p_type p_len p_body] in HF.
  specialize (HF Hpb Hpr eq_refl).
  assert (Hpq : pos_ok (set_pos p (p_start p))).
  { intros _. simpl. rewrite Hpb. exact Hstart. }
  specialize (HF Hpq ltac:(lia) ltac:(lia)).
  rewrite Hpb.
  unfold find_spec, all_records.
  unfold find_agrees, find_outcome in HF.
  destruct (records (S (length bytes)) bytes (p_start p)) as [bs t].
  cbn [fst snd] in HF.
  destruct (p1 <- header_result (set_pos p (p_start p));; find_loop (S (length bytes)) p1 ty) as [q'| | |];
    destruct (first_of_type bs ty); try exact HF.
  - destruct HF as (H1 & H2 & H3 & H4 & H5 & H6). auto 10.
  - destruct (tail_error r t); exact HF.
Qed.

Lemma first_of_type_type bs ty b : first_of_type bs ty = Some b -> b_type b = ty.
Proof.
  induction bs as [|b0 t IH]; cbn [first_of_type]; [discriminate|].
  destruct (b_type b0 =? ty) eqn:E; [|exact IH].
  intros H. inversion H; subst. lia.
Qed.

Lemma find_spec_type r bytes start ty b : find_spec r bytes start ty = Ok b -> b_type b = ty.
Proof.
  unfold find_spec. destruct (all_records bytes start) as [bs t].
  destruct (first_of_type bs ty) as [b'|] eqn:E.
  - intros H. inversion H; subst. exact (first_of_type_type _ _ _ E).
  - destruct (tail_error r t); discriminate.
Qed.

Lemma kind_type_valid k : negb (kind_type k =? SB_BINARY_BLOCK_NONE) = true.
Proof. destruct k; reflexivity. Qed.

Lemma load_char k r bytes : load k r bytes = load_spec k r bytes.
Proof.
  unfold load, load_spec.
  pose proof (init_classifies_any r bytes) as Hc.
  destruct (parser_init r bytes) as [p|e| |] eqn:Hinit;
    destruct (init_spec bytes) as [h|e'| |]; try contradiction; cbn [bind];
    [|congruence].
  destruct Hc as (_ & _ & Hst & Hpb & Hpr).
  pose proof (find_first_spec_any r bytes p (kind_type k) Hinit) as Hf.
  rewrite Hst in Hf.
  destruct (find_first p (kind_type k)) as [q|e| |] eqn:Eq;
    destruct (find_spec r bytes (h_start h) (kind_type k)) as [b|e'| |] eqn:Eb;
    try contradiction; cbn [bind]; [|congruence].
  destruct Hf as (Ht & Hl & Hbd & Hqb & Hqr).
  pose proof (find_spec_type _ _ _ _ _ Eb) as Hty.
  assert (Hv : block_valid q = true).
  { unfold block_valid. rewrite Ht, Hty. apply kind_type_valid. }
  pose proof (find_first_body_ok _ _ _ Eq Hv) as Hbo.
  assert (Hblk : mkblock (p_type q) (p_len q) (p_body q) = b).
  { destruct b as [bt bl bb]; cbn [b_type b_len b_body] in *; congruence. }
  assert (Hex : match k with KRth => True | _ =>
     ('(body, owned, _) <- read_current_block_ex q ;;
      if (length body <? min_len k)%nat then Err SB_EPARSE
      else match k, body with
           | KLight, [] => Ok ([], true)
           | _, _ => Ok (body, owned)
           end) =
     match body_of bytes b with
     | None => Err SB_EREAD
     | Some body =>
       if (length body <? min_len k)%nat then Err SB_EPARSE else Ok (body, owned_spec k r body)
     end end).
  { pose proof (read_block_ex_spec' q Hv Hbo) as Hr. cbv zeta in Hr.
    rewrite Hblk, Hqb, Hqr in Hr.
    destruct (read_current_block_ex q) as [[[got owned] q2]|e| |];
      destruct (body_of bytes b) as [body|]; try contradiction;
      cbn [bind]; [|destruct k; try exact I; congruence].
    destruct Hr as [-> ->].
    destruct k; try exact I;
      destruct (length body <? _)%nat; try reflexivity.
    destruct body; reflexivity. }
  destruct k; try exact Hex.
  pose proof (read_block_spec' q Hv Hbo) as Hr. cbv zeta in Hr.
  rewrite Hblk, Hqb in Hr.
  destruct (read_current_block q) as [[got q2]|e| |];
    destruct (body_of bytes b) as [body|]; try contradiction;
    cbn [bind]; [|congruence].
  subst got. reflexivity.
Qed.

(* ------------------------------------------------------------------ *)
(** * C06 *)

Lemma find_spec_routes bytes start ty :
  match find_spec Fd bytes start ty, find_spec Mem bytes start ty with
  | Ok b1, Ok b2 => b1 = b2 /\ first_of_type (fst (all_records bytes start)) ty = Some b1
  | Err e1, Err e2 => e1 = e2 \/ snd (all_records bytes start) = TShortBody
  | _, _ => False
  end.
Proof.
  unfold find_spec. destruct (all_records bytes start) as [bs t]. cbn [fst snd].
  destruct (first_of_type bs ty) as [b|]; [split; reflexivity|].
  destruct t; cbn [tail_error]; auto.
Qed.

Lemma init_spec_header bytes h : init_spec bytes = Ok h -> header_spec bytes = Ok h.
Proof.
  unfold init_spec. destruct (header_spec bytes) as [h'| | |]; cbn [bind]; try discriminate.
  destruct (skipn (h_start h') bytes) as [|? [|? [|? ?]]]; intros H; inversion H; reflexivity.
Qed.

Lemma routes_agree : forall k bytes, wf_bytes bytes = true ->
  agree (load k Fd bytes) (load k Mem bytes).
Proof.
  intros k bytes _. rewrite !load_char. unfold load_spec, agree.
  destruct (init_spec bytes) as [h|e| |] eqn:Ei; cbn [bind]; try exact I.
  - pose proof (find_spec_routes bytes (h_start h) (kind_type k)) as Hf.
    destruct (find_spec Fd bytes (h_start h) (kind_type k)) as [b1|e1| |];
      destruct (find_spec Mem bytes (h_start h) (kind_type k)) as [b2|e2| |];
      try contradiction; cbn [bind]; [|exact I].
    destruct Hf as [<- _].
    destruct (body_of bytes b1) as [body|]; [|exact I].
    destruct (length body <? min_len k)%nat; [exact I|reflexivity].
  - unfold init_spec in Ei. pose proof (header_spec_res bytes) as Hh.
    destruct (header_spec bytes) as [h'| | |]; cbn [bind] in Ei; try discriminate Ei; try contradiction.
    destruct (skipn (h_start h') bytes) as [|? [|? [|? ?]]]; discriminate Ei.
  - unfold init_spec in Ei. pose proof (header_spec_res bytes) as Hh.
    destruct (header_spec bytes) as [h'| | |]; cbn [bind] in Ei; try discriminate Ei; try contradiction.
    destruct (skipn (h_start h') bytes) as [|? [|? [|? ?]]]; discriminate Ei.
Qed.

Lemma route_errors_differ_only_on_short_body : forall k bytes e1 e2, wf_bytes bytes = true ->
  load k Fd bytes = Err e1 -> load k Mem bytes = Err e2 -> e1 <> e2 ->
  exists h, header_spec bytes = Ok h /\ snd (all_records bytes (h_start h)) = TShortBody.
Proof.
  intros k bytes e1 e2 _. rewrite !load_char. unfold load_spec.
  destruct (init_spec bytes) as [h|e| |] eqn:Ei; cbn [bind]; try congruence.
  pose proof (find_spec_routes bytes (h_start h) (kind_type k)) as Hf.
  destruct (find_spec Fd bytes (h_start h) (kind_type k)) as [b1|x1| |];
    destruct (find_spec Mem bytes (h_start h) (kind_type k)) as [b2|x2| |];
    try contradiction; cbn [bind].
  - destruct Hf as [<- _].
    destruct (body_of bytes b1) as [body|]; [|congruence].
    destruct (length body <? min_len k)%nat; congruence.
  - intros H1 H2 Hne. destruct Hf as [Hf|Hf]; [congruence|].
    exists h. split; [exact (init_spec_header _ _ Ei)|exact Hf].
Qed.

Lemma load_is_first_block : forall k r bytes body owned, wf_bytes bytes = true ->
  load k r bytes = Ok (body, owned) ->
  exists h b, header_spec bytes = Ok h /\
    first_of_type (fst (all_records bytes (h_start h))) (kind_type k) = Some b /\
    body_of bytes b = Some body /\ (min_len k <= length body)%nat.
Proof.
  intros k r bytes body owned _. rewrite load_char. unfold load_spec.
  destruct (init_spec bytes) as [h|e| |] eqn:Ei; cbn [bind]; try discriminate.
  destruct (find_spec r bytes (h_start h) (kind_type k)) as [b|x| |] eqn:Eb; cbn [bind]; try discriminate.
  destruct (body_of bytes b) as [body'|] eqn:Ebody; [|discriminate].
  destruct (length body' <? min_len k)%nat eqn:El; [discriminate|].
  intros H. inversion H; subst.
  exists h, b. split; [exact (init_spec_header _ _ Ei)|].
  split; [|split; [exact Ebody|lia]].
  unfold find_spec in Eb. destruct (all_records bytes (h_start h)) as [bs t]. cbn [fst].
  destruct (first_of_type bs (kind_type k)) as [b'|]; [congruence|].
  destruct (tail_error r t); discriminate Eb.
Qed.

Lemma load_total : forall k r bytes,
  load k r bytes <> Fuel /\ forall s o, load k r bytes <> OOB s o.
Proof.
  intros k r bytes. rewrite load_char. unfold load_spec.
  assert (Hi : match init_spec bytes with Ok _ | Err _ => True | _ => False end).
  { unfold init_spec. pose proof (header_spec_res bytes) as Hh.
    destruct (header_spec bytes) as [h'| | |]; cbn [bind]; try contradiction; [|exact I].
    destruct (skipn (h_start h') bytes) as [|? [|? [|? ?]]]; exact I. }
  destruct (init_spec bytes) as [h|e| |]; cbn [bind]; try contradiction;
    [|split; [|intros s o]; discriminate].
  assert (Hf : match find_spec r bytes (h_start h) (kind_type k) with Ok _ | Err _ => True | _ => False end).
  { unfold find_spec. destruct (all_records bytes (h_start h)) as [bs t].
    destruct (first_of_type bs (kind_type k)); [exact I|].
    destruct (tail_error r t); exact I. }
  destruct (find_spec r bytes (h_start h) (kind_type k)) as [b|e| |]; cbn [bind]; try contradiction;
    [|split; [|intros s o]; discriminate].
  destruct (body_of bytes b) as [body|]; [|split; [|intros s o]; discriminate].
  destruct (length body <? min_len k)%nat; split; try intros s o; discriminate.
Qed.

Example load_example :
  let bytes := enc_header_v1 ++ flat_map enc_block [(3, [1; 2]); (5, [1; 0; 0; 10; 0; 5; 0]); (1, [1; 0;0; 0;0; 0;0; 0;0])] in
  load KYaw Fd bytes = Ok ([1; 0; 0; 10; 0; 5; 0], true) /\
  load KYaw Mem bytes = Ok ([1; 0; 0; 10; 0; 5; 0], false) /\
  load KRth Mem bytes = Err SB_ENOENT /\
  load KLight Fd (enc_header_v1 ++ flat_map enc_block [(2, [])]) = Ok ([], true) /\
  load KLight Mem (enc_header_v1 ++ flat_map enc_block [(2, [])]) = Ok ([], true).
Proof. vm_compute. repeat split. Qed.
