(** Proofs for C08 (trajectory player: answers do not depend on earlier
    queries).  The definitions [reachable], [positive_durations],
    [same_or_adjacent], [run_history] live here and are used by
    Props/Properties_C08.v. *)
From Coq Require Import QArith List ZArith Lia ZifyBool.
From SB Require Import Base.Prelude Base.Num Gen.Generated Model.Poly Model.Traj.
Import ListNotations.
Local Open Scope Z_scope.

(* ------------------------------------------------------------------ *)
(** * Definitions shared with Props/Properties_C08.v *)

(** Cursors a player can be parked on: the first segment, or the successor of
    a reachable cursor whose segment decodes. *)
Inductive reachable (tr : traj) : cursor -> Prop :=
| reach0 : reachable tr (cursor0 tr)
| reachS : forall c s rest', reachable tr c ->
    decode_segment (t_scale tr) (c_start c) (c_rest c) = Ok (Some (s, rest')) ->
    reachable tr (next_cursor c s rest').

(** Every segment lasts at least 1 ms and start times do not wrap. *)
Definition positive_durations (tr : traj) : Prop :=
  forall c s rest', reachable tr c ->
    decode_segment (t_scale tr) (c_start c) (c_rest c) = Ok (Some (s, rest')) ->
    0 < sg_dur s /\ c_start_ms c + sg_dur s < 4294967296.

(** [l] is the fresh answer [l0], or [t] is exactly the boundary between the
    segment of [l0] and the next one and [l] is parked on that next one. *)
Definition same_or_adjacent (tr : traj) (l l0 : landing) (t : qtime) : Prop :=
  l = l0 \/
  match l0 with
  | OnSegment c0 s0 _ =>
    clamp0 t = QFin (ms_sec (c_start_ms c0 + sg_dur s0)) /\
    exists rest', decode_segment (t_scale tr) (c_start c0) (c_rest c0) = Ok (Some (s0, rest')) /\
                  landing_cursor l = next_cursor c0 s0 rest'
  | OnEnd _ => False
  end.

(** Any sequence of earlier queries leaves a reachable cursor. *)
Fixpoint run_history (tr : traj) (c : cursor) (ts : list qtime) : cursor :=
  match ts with
  | [] => c
  | t :: rest => match seek tr c t with
                 | Ok l => run_history tr (landing_cursor l) rest
                 | _ => run_history tr c rest
                 end
  end.

(** Equality of query times up to the representation of the rational
    ([1000 # 1000] and [1 # 1] are the same instant). *)
Definition qtime_eq (a b : qtime) : Prop :=
  match a, b with
  | QNegInf, QNegInf => True
  | QPosInf, QPosInf => True
  | QFin x, QFin y => (x == y)%Q
  | _, _ => False
  end.

(** [same_or_adjacent] with the boundary test up to [qtime_eq]. *)
Definition same_or_adjacent' (tr : traj) (l l0 : landing) (t : qtime) : Prop :=
  l = l0 \/
  match l0 with
  | OnSegment c0 s0 _ =>
    qtime_eq (clamp0 t) (QFin (ms_sec (c_start_ms c0 + sg_dur s0))) /\
    exists rest', decode_segment (t_scale tr) (c_start c0) (c_rest c0) = Ok (Some (s0, rest')) /\
                  landing_cursor l = next_cursor c0 s0 rest'
  | OnEnd _ => False
  end.

(** A cursor a player is actually left on by [run_history]: the initial one,
    or one whose segment header was read successfully (segment or end). *)
Definition parked (tr : traj) (c : cursor) : Prop :=
  c = cursor0 tr \/ exists d, decode_segment (t_scale tr) (c_start c) (c_rest c) = Ok d.

(* ------------------------------------------------------------------ *)
(** * Trivial: values are functions of the landing *)
Lemma value_fn_of_landing : forall l l', l = l' ->
  position_of l = position_of l' /\ velocity_of l = velocity_of l' /\ acceleration_of l = acceleration_of l'.
Proof. intros l l' ->. auto. Qed.

(* ------------------------------------------------------------------ *)
(** * Decoding consumes bytes *)
Lemma take_i16_length : forall n r vs r',
  take_i16 n r = Some (vs, r') -> (length r' <= length r)%nat.
Proof.
  induction n as [|n IH]; intros r vs r' H; cbn [take_i16] in H.
  - injection H as _ <-. lia.
  - destruct r as [|b0 [|b1 r]]; try discriminate.
    destruct (take_i16 n r) as [[vs0 r0]|] eqn:E; try discriminate.
    injection H as _ <-. apply IH in E. cbn [length]. lia.
Qed.

Lemma decode_segment_length : forall scale start rest s rest',
  decode_segment scale start rest = Ok (Some (s, rest')) ->
  (length rest' < length rest)%nat.
Proof.
  intros scale start rest s rest' H. unfold decode_segment in H. rewrite ?shorter_length in H.
  destruct rest as [|header r0]; try discriminate.
  destruct (scale =? 0) eqn:Es; try discriminate.
  match type of H with (if ?b then _ else _) = _ => destruct b eqn:En end; try discriminate.
  destruct r0 as [|d0 [|d1 r1]]; try discriminate.
  destruct (take_i16 _ r1) as [[xs r2]|] eqn:E1; try discriminate.
  destruct (take_i16 _ r2) as [[ys r3]|] eqn:E2; try discriminate.
  destruct (take_i16 _ r3) as [[zs r4]|] eqn:E3; try discriminate.
  destruct (take_i16 _ r4) as [[ws r5]|] eqn:E4; try discriminate.
  injection H as _ <-.
  apply take_i16_length in E1, E2, E3, E4. cbn [length]. lia.
Qed.

Lemma decode_segment_not_oob : forall scale start rest site off,
  decode_segment scale start rest <> OOB site off.
Proof.
  intros scale start rest site off H. unfold decode_segment in H. rewrite ?shorter_length in H.
  destruct rest as [|header r0]; try discriminate.
  destruct (scale =? 0) eqn:Es; try discriminate.
  match type of H with (if ?b then _ else _) = _ => destruct b eqn:En end; try discriminate.
  destruct r0 as [|d0 [|d1 r1]]; try discriminate.
  destruct (take_i16 _ r1) as [[xs r2]|] eqn:E1; try discriminate.
  destruct (take_i16 _ r2) as [[ys r3]|] eqn:E2; try discriminate.
  destruct (take_i16 _ r3) as [[zs r4]|] eqn:E3; try discriminate.
  destruct (take_i16 _ r4) as [[ws r5]|] eqn:E4; try discriminate.
Qed.

Lemma decode_segment_not_fuel : forall scale start rest,
  decode_segment scale start rest <> Fuel.
Proof.
  intros scale start rest H. unfold decode_segment in H. rewrite ?shorter_length in H.
  destruct rest as [|header r0]; try discriminate.
  destruct (scale =? 0) eqn:Es; try discriminate.
  match type of H with (if ?b then _ else _) = _ => destruct b eqn:En end; try discriminate.
  destruct r0 as [|d0 [|d1 r1]]; try discriminate.
  destruct (take_i16 _ r1) as [[xs r2]|] eqn:E1; try discriminate.
  destruct (take_i16 _ r2) as [[ys r3]|] eqn:E2; try discriminate.
  destruct (take_i16 _ r3) as [[zs r4]|] eqn:E3; try discriminate.
  destruct (take_i16 _ r4) as [[ws r5]|] eqn:E4; try discriminate.
Qed.

(* ------------------------------------------------------------------ *)
(** * Fuel *)
Lemma seek_fwd_unfold : forall f tr c t,
  seek_fwd (S f) tr c t =
  match decode_segment (t_scale tr) (c_start c) (c_rest c) with
  | Ok None => Ok (OnEnd c)
  | Ok (Some (s, rest')) =>
      if before (u32 (c_start_ms c + sg_dur s)) t
      then seek_fwd f tr (next_cursor c s rest') t
      else Ok (OnSegment c s (rel_time c s t))
  | Err e => Err e
  | OOB a b => OOB a b
  | Fuel => Fuel
  end.
Proof.
  intros f tr c t. cbn [seek_fwd]. unfold bind.
  destruct (decode_segment (t_scale tr) (c_start c) (c_rest c)) as [[[s r]|]| | |]; reflexivity.
Qed.

Lemma seek_fwd_fuel_irrel : forall tr t f1 f2 c,
  (length (c_rest c) < f1)%nat -> (length (c_rest c) < f2)%nat ->
  seek_fwd f1 tr c t = seek_fwd f2 tr c t.
Proof.
  intros tr t f1. induction f1 as [|f1 IH]; intros f2 c H1 H2; [lia|].
  destruct f2 as [|f2]; [lia|].
  rewrite !seek_fwd_unfold.
  destruct (decode_segment (t_scale tr) (c_start c) (c_rest c)) as [[[s r]|]| | |] eqn:E; try reflexivity.
  destruct (before (u32 (c_start_ms c + sg_dur s)) t) eqn:B; try reflexivity.
  apply decode_segment_length in E.
  apply IH; cbn [next_cursor c_rest]; lia.
Qed.

Lemma seek_fwd_not_fuel : forall tr t f c,
  (length (c_rest c) < f)%nat -> seek_fwd f tr c t <> Fuel.
Proof.
  intros tr t f. induction f as [|f IH]; intros c H; [lia|].
  rewrite seek_fwd_unfold.
  destruct (decode_segment (t_scale tr) (c_start c) (c_rest c)) as [[[s r]|]| | |] eqn:E; try discriminate.
  - destruct (before (u32 (c_start_ms c + sg_dur s)) t) eqn:B; try discriminate.
    apply decode_segment_length in E.
    apply IH; cbn [next_cursor c_rest]; lia.
  - exfalso. eapply decode_segment_not_fuel; eassumption.
Qed.

Lemma cursor0_rest_length : forall tr,
  (length (c_rest (cursor0 tr)) <= length (t_bytes tr))%nat.
Proof. intros tr. unfold cursor0. cbn [c_rest]. rewrite skipn_length. lia. Qed.

Lemma reachable_rest_length : forall tr c, reachable tr c ->
  (length (c_rest c) <= length (t_bytes tr))%nat.
Proof.
  intros tr c H. induction H as [|c s rest' Hr IH Hd].
  - apply cursor0_rest_length.
  - apply decode_segment_length in Hd. cbn [next_cursor c_rest]. lia.
Qed.

Lemma seek_start_reachable : forall tr c t, reachable tr c ->
  reachable tr (if after (c_start_ms c) t then cursor0 tr else c).
Proof. intros tr c t H. destruct (after (c_start_ms c) t); [constructor|assumption]. Qed.

Lemma seek_never_out_of_fuel : forall tr c t, reachable tr c -> seek tr c t <> Fuel.
Proof.
  intros tr c t H. unfold seek.
  apply seek_fwd_not_fuel.
  pose proof (reachable_rest_length tr _ (seek_start_reachable tr c (clamp0 t) H)). lia.
Qed.

(* ------------------------------------------------------------------ *)
(** * The landing cursor is reachable *)
Lemma seek_fwd_landing_reachable : forall tr t f c l,
  reachable tr c -> seek_fwd f tr c t = Ok l -> reachable tr (landing_cursor l).
Proof.
  intros tr t f. induction f as [|f IH]; intros c l Hr H; [discriminate|].
  rewrite seek_fwd_unfold in H.
  destruct (decode_segment (t_scale tr) (c_start c) (c_rest c)) as [[[s r]|]| | |] eqn:E; try discriminate.
  - destruct (before (u32 (c_start_ms c + sg_dur s)) t) eqn:B.
    + eapply IH; [|eassumption]. econstructor; eassumption.
    + injection H as <-. exact Hr.
  - injection H as <-. exact Hr.
Qed.

Lemma seek_landing_reachable : forall tr c t l,
  reachable tr c -> seek tr c t = Ok l -> reachable tr (landing_cursor l).
Proof.
  intros tr c t l Hr H. unfold seek in H.
  eapply seek_fwd_landing_reachable; [|eassumption].
  apply seek_start_reachable; assumption.
Qed.

Lemma run_history_reachable : forall tr ts c,
  reachable tr c -> reachable tr (run_history tr c ts).
Proof.
  intros tr ts. induction ts as [|t ts IH]; intros c Hr; cbn [run_history]; [assumption|].
  destruct (seek tr c t) as [l| | |] eqn:E; try (apply IH; assumption).
  apply IH. eapply seek_landing_reachable; eassumption.
Qed.

Lemma history_reachable : forall tr ts,
  positive_durations tr -> reachable tr (run_history tr (cursor0 tr) ts).
Proof. intros tr ts _. apply run_history_reachable. constructor. Qed.

(* ------------------------------------------------------------------ *)
(** * Comparisons of query times with millisecond stamps *)
Lemma ms_sec_le : forall a b, (ms_sec a <= ms_sec b)%Q <-> a <= b.
Proof. intros a b. unfold ms_sec, Qle. cbn [Qnum Qden]. lia. Qed.

Lemma after_false_fin : forall a q, after a (QFin q) = false <-> (ms_sec a <= q)%Q.
Proof.
  intros a q. cbn [after]. unfold Qltb. rewrite Bool.negb_false_iff. apply Qle_bool_iff.
Qed.

Lemma before_false_fin : forall a q, before a (QFin q) = false <-> (q <= ms_sec a)%Q.
Proof.
  intros a q. cbn [before]. unfold Qltb. rewrite Bool.negb_false_iff. apply Qle_bool_iff.
Qed.

Lemma after_clamp0_0 : forall t, after 0 (clamp0 t) = false.
Proof.
  intros [| |q]; cbn [clamp0]; try reflexivity.
  destruct (Qle_bool q 0) eqn:E.
    + reflexivity.
    + apply after_false_fin.
      assert (H : ~ (q <= 0)%Q) by (rewrite <- Qle_bool_iff; congruence).
      apply Qnot_le_lt in H. apply Qlt_le_weak in H.
      unfold ms_sec, Qle in *. cbn [Qnum Qden] in *. lia.
Qed.

(* ------------------------------------------------------------------ *)
(** * Start times along the chain *)
Lemma reachable_start_nonneg : forall tr c,
  positive_durations tr -> reachable tr c -> 0 <= c_start_ms c.
Proof.
  intros tr c Hp H. induction H as [|c s rest' Hr IH Hd].
  - cbn. lia.
  - destruct (Hp _ _ _ Hr Hd) as [Hd0 Hlt].
    cbn [next_cursor c_start_ms]. unfold u32. rewrite Z.mod_small; lia.
Qed.

Lemma next_start : forall tr c s rest',
  positive_durations tr -> reachable tr c ->
  decode_segment (t_scale tr) (c_start c) (c_rest c) = Ok (Some (s, rest')) ->
  u32 (c_start_ms c + sg_dur s) = c_start_ms c + sg_dur s /\ 0 < sg_dur s.
Proof.
  intros tr c s rest' Hp Hr Hd.
  destruct (Hp _ _ _ Hr Hd) as [Hd0 Hlt].
  pose proof (reachable_start_nonneg tr c Hp Hr).
  unfold u32. rewrite Z.mod_small; lia.
Qed.

(* ------------------------------------------------------------------ *)
(** * Core: a forward search from the first segment passes through every
    reachable cursor that starts at or before [t], or stops on the segment
    just before it when [t] is exactly the boundary. *)
Definition boundary_case (tr : traj) (F : nat) (c : cursor) (t : qtime) : Prop :=
  exists c0 s0 rest',
    reachable tr c0 /\
    decode_segment (t_scale tr) (c_start c0) (c_rest c0) = Ok (Some (s0, rest')) /\
    c = next_cursor c0 s0 rest' /\
    qtime_eq t (QFin (ms_sec (c_start_ms c0 + sg_dur s0))) /\
    c_start_ms c = c_start_ms c0 + sg_dur s0 /\
    seek_fwd F tr (cursor0 tr) t = Ok (OnSegment c0 s0 (rel_time c0 s0 t)).

Lemma seek_fwd_through : forall tr t c,
  positive_durations tr -> reachable tr c ->
  after (c_start_ms c) t = false ->
  let F := S (length (t_bytes tr)) in
  seek_fwd F tr (cursor0 tr) t = seek_fwd F tr c t \/ boundary_case tr F c t.
Proof.
  intros tr t c Hp Hr. induction Hr as [|c s rest' Hr IH Hd]; intros Ha F.
  - left. reflexivity.
  - destruct (next_start tr c s rest' Hp Hr Hd) as [Hu Hpos].
    assert (Hs' : c_start_ms (next_cursor c s rest') = c_start_ms c + sg_dur s)
      by (cbn [next_cursor c_start_ms]; exact Hu).
    rewrite Hs' in Ha.
    (* [c] also starts at or before [t] *)
    assert (Hac : after (c_start_ms c) t = false).
    { destruct t as [| |q]; try discriminate; try reflexivity.
      apply after_false_fin. apply after_false_fin in Ha.
      eapply Qle_trans; [|exact Ha]. apply ms_sec_le. lia. }
    specialize (IH Hac). fold F in IH.
    destruct IH as [IH|IH].
    + (* the fresh search passes through [c] *)
      assert (Hstep : seek_fwd F tr c t =
                if before (c_start_ms c + sg_dur s) t
                then seek_fwd F tr (next_cursor c s rest') t
                else Ok (OnSegment c s (rel_time c s t))).
      { unfold F. rewrite seek_fwd_unfold. rewrite Hd. rewrite Hu.
        destruct (before (c_start_ms c + sg_dur s) t) eqn:B; [|reflexivity].
        pose proof (reachable_rest_length tr c Hr) as Hl.
        pose proof (decode_segment_length _ _ _ _ _ Hd) as Hl'.
        apply seek_fwd_fuel_irrel; cbn [next_cursor c_rest]; lia. }
      destruct (before (c_start_ms c + sg_dur s) t) eqn:B.
      * left. rewrite IH. exact Hstep.
      * right. exists c, s, rest'.
        split; [exact Hr|]. split; [exact Hd|]. split; [reflexivity|].
        split; [|split; [exact Hs'|rewrite IH; exact Hstep]].
        destruct t as [| |q]; try discriminate.
        cbn [qtime_eq]. apply after_false_fin in Ha. apply before_false_fin in B.
        apply Qle_antisym; assumption.
    + (* [t] is the start of [c]: impossible, the next cursor starts later *)
      exfalso.
      destruct IH as (c0 & s0 & r0 & _ & _ & _ & Hq & Hs0 & _).
      destruct t as [| |q]; cbn [qtime_eq] in Hq; try contradiction.
      apply after_false_fin in Ha. rewrite Hq in Ha.
      pose proof (proj1 (ms_sec_le _ _) Ha). lia.
Qed.

(** A search started on a cursor whose start time is exactly [t] stays there. *)
Lemma seek_fwd_at_start : forall tr f c t,
  positive_durations tr -> reachable tr c ->
  qtime_eq t (QFin (ms_sec (c_start_ms c))) ->
  seek_fwd (S f) tr c t =
  match decode_segment (t_scale tr) (c_start c) (c_rest c) with
  | Ok None => Ok (OnEnd c)
  | Ok (Some (s, _)) => Ok (OnSegment c s (rel_time c s t))
  | Err e => Err e
  | OOB a b => OOB a b
  | Fuel => Fuel
  end.
Proof.
  intros tr f c t Hp Hr Hq. rewrite seek_fwd_unfold.
  destruct (decode_segment (t_scale tr) (c_start c) (c_rest c)) as [[[s r]|]| | |] eqn:E; try reflexivity.
  destruct (next_start tr c s r Hp Hr E) as [Hu Hpos]. rewrite Hu.
  destruct t as [| |q]; cbn [qtime_eq] in Hq; try contradiction.
  assert (B : before (c_start_ms c + sg_dur s) (QFin q) = false).
  { apply before_false_fin. rewrite Hq. apply ms_sec_le. lia. }
  rewrite B. reflexivity.
Qed.

(** Fresh search vs. search from a reachable cursor. *)
Lemma seek_vs_fresh : forall tr c t,
  positive_durations tr -> reachable tr c ->
  seek tr (cursor0 tr) t = seek tr c t \/
  (after (c_start_ms c) (clamp0 t) = false /\
   boundary_case tr (S (length (t_bytes tr))) c (clamp0 t)).
Proof.
  intros tr c t Hp Hr. unfold seek.
  replace (c_start_ms (cursor0 tr)) with 0 by reflexivity.
  rewrite after_clamp0_0.
  destruct (after (c_start_ms c) (clamp0 t)) eqn:Ha.
  - left. reflexivity.
  - destruct (seek_fwd_through tr (clamp0 t) c Hp Hr Ha) as [H|H].
    + left. exact H.
    + right. split; [reflexivity|exact H].
Qed.

Lemma seek_fresh_unfold : forall tr t,
  seek tr (cursor0 tr) t = seek_fwd (S (length (t_bytes tr))) tr (cursor0 tr) (clamp0 t).
Proof.
  intros tr t. unfold seek.
  replace (c_start_ms (cursor0 tr)) with 0 by reflexivity.
  rewrite after_clamp0_0. reflexivity.
Qed.

(* ------------------------------------------------------------------ *)
(** * C08, corrected statement: the boundary instant is compared as a
    rational ([qtime_eq]), not syntactically. *)
Theorem seek_history_independent' : forall tr c t l,
  positive_durations tr -> reachable tr c ->
  seek tr c t = Ok l ->
  reachable tr (landing_cursor l) /\
  exists l0, seek tr (cursor0 tr) t = Ok l0 /\ same_or_adjacent' tr l l0 t.
Proof.
  intros tr c t l Hp Hr H.
  split; [eapply seek_landing_reachable; eassumption|].
  destruct (seek_vs_fresh tr c t Hp Hr) as [E|[Ha Hb]].
  - exists l. split; [rewrite E; exact H|]. left. reflexivity.
  - destruct Hb as (c0 & s0 & r0 & Hr0 & Hd0 & Hc & Hq & Hs & Hf).
    exists (OnSegment c0 s0 (rel_time c0 s0 (clamp0 t))).
    split; [rewrite seek_fresh_unfold; exact Hf|].
    right. split; [exact Hq|]. exists r0. split; [exact Hd0|].
    rewrite <- Hc.
    unfold seek in H. rewrite Ha in H.
    rewrite seek_fwd_at_start in H; [|exact Hp|exact Hr|rewrite Hs; exact Hq].
    destruct (decode_segment (t_scale tr) (c_start c) (c_rest c)) as [[[s r]|]| | |];
      try discriminate; injection H as <-; reflexivity.
Qed.

(** When the representation of [t] is the canonical one the original
    [same_or_adjacent] follows. *)
Lemma same_or_adjacent'_weaken : forall tr l l0 t,
  same_or_adjacent tr l l0 t -> same_or_adjacent' tr l l0 t.
Proof.
  intros tr l l0 t [H|H]; [left; exact H|right].
  destruct l0 as [c0 s0 u|c0]; [|exact H].
  destruct H as [Hq H]. split; [|exact H]. rewrite Hq. cbn [qtime_eq]. reflexivity.
Qed.

(* ------------------------------------------------------------------ *)
(** * Errors *)

(** General form: the only way a parked player errs while a fresh one does
    not is at a boundary whose next segment is cut short. *)
Theorem seek_error_independent_gen : forall tr c t e,
  positive_durations tr -> reachable tr c ->
  seek tr c t = Err e ->
  seek tr (cursor0 tr) t = Err e \/
  (decode_segment (t_scale tr) (c_start c) (c_rest c) = Err e /\
   exists c0 s0 rest' u,
     seek tr (cursor0 tr) t = Ok (OnSegment c0 s0 u) /\
     decode_segment (t_scale tr) (c_start c0) (c_rest c0) = Ok (Some (s0, rest')) /\
     c = next_cursor c0 s0 rest' /\
     qtime_eq (clamp0 t) (QFin (ms_sec (c_start_ms c0 + sg_dur s0)))).
Proof.
  intros tr c t e Hp Hr H.
  destruct (seek_vs_fresh tr c t Hp Hr) as [E|[Ha Hb]].
  - left. rewrite E. exact H.
  - right.
    destruct Hb as (c0 & s0 & r0 & Hr0 & Hd0 & Hc & Hq & Hs & Hf).
    unfold seek in H. rewrite Ha in H.
    rewrite seek_fwd_at_start in H; [|exact Hp|exact Hr|rewrite Hs; exact Hq].
    split.
    + destruct (decode_segment (t_scale tr) (c_start c) (c_rest c)) as [[[s r]|]| | |];
        try discriminate. injection H as ->. reflexivity.
    + exists c0, s0, r0, (rel_time c0 s0 (clamp0 t)).
      split; [rewrite seek_fresh_unfold; exact Hf|].
      split; [exact Hd0|]. split; [exact Hc|exact Hq].
Qed.

(** Corrected statement: for a cursor the player can actually be left on. *)
Theorem seek_error_independent' : forall tr c t e,
  positive_durations tr -> reachable tr c -> parked tr c ->
  seek tr c t = Err e -> seek tr (cursor0 tr) t = Err e.
Proof.
  intros tr c t e Hp Hr Hk H.
  destruct Hk as [->|[d Hd]]; [exact H|].
  destruct (seek_error_independent_gen tr c t e Hp Hr H) as [E|[E _]]; [exact E|].
  rewrite Hd in E. discriminate.
Qed.

(** [run_history] leaves the player on a parked cursor. *)
Lemma seek_fwd_landing_decodes : forall tr t f c l,
  seek_fwd f tr c t = Ok l ->
  exists d, decode_segment (t_scale tr) (c_start (landing_cursor l)) (c_rest (landing_cursor l)) = Ok d.
Proof.
  intros tr t f. induction f as [|f IH]; intros c l H; [discriminate|].
  rewrite seek_fwd_unfold in H.
  destruct (decode_segment (t_scale tr) (c_start c) (c_rest c)) as [[[s r]|]| | |] eqn:E; try discriminate.
  - destruct (before (u32 (c_start_ms c + sg_dur s)) t) eqn:B.
    + eapply IH; eassumption.
    + injection H as <-. cbn [landing_cursor]. eexists; exact E.
  - injection H as <-. cbn [landing_cursor]. eexists; exact E.
Qed.

Lemma run_history_parked : forall tr ts c,
  parked tr c -> parked tr (run_history tr c ts).
Proof.
  intros tr ts. induction ts as [|t ts IH]; intros c Hk; cbn [run_history]; [assumption|].
  destruct (seek tr c t) as [l| | |] eqn:E; try (apply IH; assumption).
  apply IH. right. unfold seek in E. eapply seek_fwd_landing_decodes; eassumption.
Qed.

Lemma history_parked : forall tr ts, parked tr (run_history tr (cursor0 tr) ts).
Proof. intros tr ts. apply run_history_parked. left. reflexivity. Qed.

(** Hence: after any history, errors are those of a fresh player. *)
Theorem seek_error_after_history : forall tr ts t e,
  positive_durations tr ->
  seek tr (run_history tr (cursor0 tr) ts) t = Err e -> seek tr (cursor0 tr) t = Err e.
Proof.
  intros tr ts t e Hp H.
  eapply seek_error_independent'; [exact Hp| | |exact H].
  - apply history_reachable; exact Hp.
  - apply history_parked.
Qed.

(* ------------------------------------------------------------------ *)
(** * The statements with syntactic equality of the boundary instant, and
    for arbitrary reachable cursors in the error case, are false *)
Module Counterexamples.

Definition v0 : vec4 := mkvec4 (coord_of 1 0) (coord_of 1 0) (coord_of 1 0) (angle_of 0).
(** two segments of 1000 ms *)
Definition trA : traj := mktraj [1;0;0;0;0;0;0;0;0; 0;232;3; 0;232;3] 1 false v0.
(** one segment of 1000 ms, then a segment cut short *)
Definition trB : traj := mktraj [1;0;0;0;0;0;0;0;0; 0;232;3; 0;232] 1 false v0.

Definition second (tr : traj) : cursor :=
  match decode_segment (t_scale tr) (c_start (cursor0 tr)) (c_rest (cursor0 tr)) with
  | Ok (Some (s, r)) => next_cursor (cursor0 tr) s r
  | _ => cursor0 tr
  end.
Definition third (tr : traj) : cursor :=
  match decode_segment (t_scale tr) (c_start (second tr)) (c_rest (second tr)) with
  | Ok (Some (s, r)) => next_cursor (second tr) s r
  | _ => second tr
  end.

Lemma trA_is_init : traj_init (t_bytes trA) = Ok trA.
Proof. reflexivity. Qed.
Lemma trB_is_init : traj_init (t_bytes trB) = Ok trB.
Proof. reflexivity. Qed.

Lemma reachable_second_A : reachable trA (second trA).
Proof. eapply (reachS trA (cursor0 trA)); [constructor|vm_compute; reflexivity]. Qed.
Lemma reachable_second_B : reachable trB (second trB).
Proof. eapply (reachS trB (cursor0 trB)); [constructor|vm_compute; reflexivity]. Qed.

Lemma reachable_A : forall c, reachable trA c ->
  c = cursor0 trA \/ c = second trA \/ c = third trA.
Proof.
  intros c H. induction H as [|c s r Hr IH Hd]; [left; reflexivity|].
  destruct IH as [->|[->| ->]]; vm_compute in Hd; try discriminate;
    injection Hd as <- <-; [right; left|right; right]; reflexivity.
Qed.

Lemma reachable_B : forall c, reachable trB c -> c = cursor0 trB \/ c = second trB.
Proof.
  intros c H. induction H as [|c s r Hr IH Hd]; [left; reflexivity|].
  destruct IH as [->| ->]; vm_compute in Hd; try discriminate.
  injection Hd as <- <-. right. reflexivity.
Qed.

Lemma positive_A : positive_durations trA.
Proof.
  intros c s r Hr Hd. apply reachable_A in Hr.
  destruct Hr as [->|[->| ->]]; vm_compute in Hd; try discriminate;
    injection Hd as <- _; vm_compute; split; reflexivity.
Qed.

Lemma positive_B : positive_durations trB.
Proof.
  intros c s r Hr Hd. apply reachable_B in Hr.
  destruct Hr as [->| ->]; vm_compute in Hd; try discriminate.
  injection Hd as <- _. vm_compute. split; reflexivity.
Qed.

(** [t = 1 # 1] is the boundary [1000 # 1000] written differently. *)
Lemma seek_history_independent_false :
  ~ (forall tr c t l,
       positive_durations tr -> reachable tr c ->
       seek tr c t = Ok l ->
       reachable tr (landing_cursor l) /\
       exists l0, seek tr (cursor0 tr) t = Ok l0 /\ same_or_adjacent tr l l0 t).
Proof.
  intros H.
  destruct (seek trA (second trA) (QFin 1)) as [l| | |] eqn:E; try (vm_compute in E; discriminate).
  destruct (H trA (second trA) (QFin 1) l positive_A reachable_second_A E) as [_ (l0 & H0 & Hs)].
  vm_compute in E. injection E as <-.
  vm_compute in H0. injection H0 as <-.
  destruct Hs as [Hs|[Hs _]]; vm_compute in Hs; discriminate.
Qed.

(** A cursor whose segment is cut short is reachable; at the boundary before
    it a fresh player answers from the previous segment. *)
Lemma seek_error_independent_false :
  ~ (forall tr c t e,
       positive_durations tr -> reachable tr c ->
       seek tr c t = Err e -> seek tr (cursor0 tr) t = Err e).
Proof.
  intros H.
  assert (E : seek trB (second trB) (QFin (1000 # 1000)) = Err SB_EPARSE) by (vm_compute; reflexivity).
  apply H in E; [|exact positive_B|exact reachable_second_B].
  vm_compute in E. discriminate.
Qed.

End Counterexamples.
