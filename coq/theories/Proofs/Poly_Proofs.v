(** Proofs for Props/Properties_C18.v: the polynomial toolkit of poly.c
    (construction from Bezier control points, Horner evaluation, derivative,
    scaling, stretching) over the reals, and the agreement of the executable
    rational instance with the real instance. *)
From Coq Require Import Reals List ZArith Lia Lra.
(** Exported, not just imported: Props/Properties_C18.v states
    [Q_instance_agrees] with [Q2R] and [==] but requires neither QArith nor
    Qreals itself; it gets them through this file. *)
From Coq Require Export QArith Qreals.
From Coquelicot Require Import Coquelicot.
From SB Require Import Base.Num Gen.Generated Model.Poly Spec.BezierSpec.
Import ListNotations.
Local Open Scope R_scope.

(** * The factorial table *)
Lemma facs_are_factorials : facs = map (fun n => Z.of_nat (fact n)) (seq 0 8).
Proof. reflexivity. Qed.

(** * Horner evaluation, real instance *)
Lemma horner_nil : forall u, horner ROps [] u = 0.
Proof. reflexivity. Qed.

Lemma horner_cons : forall c r u, horner ROps (c :: r) u = c + u * horner ROps r u.
Proof. reflexivity. Qed.

(** * scale, add_constant, stretch *)
Lemma scale_law : forall cs k u, horner ROps (scale ROps cs k) u = k * horner ROps cs u.
Proof.
  induction cs as [|c r IH]; intros k u.
  - simpl. ring.
  - change (scale ROps (c :: r) k) with ((c * k) :: scale ROps r k).
    rewrite !horner_cons, IH. ring.
Qed.

Lemma add_constant_law : forall cs c u,
  horner ROps (add_constant ROps cs c) u = horner ROps cs u + c.
Proof.
  intros [|c0 r] c u.
  - simpl. ring.
  - change (add_constant ROps (c0 :: r) c) with ((c0 + c) :: r).
    rewrite !horner_cons. ring.
Qed.

Lemma stretch_from_law : forall cs f s u,
  horner ROps (stretch_from ROps cs f s) u = s * horner ROps cs (u * f).
Proof.
  induction cs as [|c r IH]; intros f s u.
  - simpl. ring.
  - change (stretch_from ROps (c :: r) f s) with ((c * s) :: stretch_from ROps r f (s * f)).
    rewrite !horner_cons, IH. ring.
Qed.

Lemma stretch_law : forall cs k u, k <> 0 ->
  horner ROps (stretch ROps cs k) u = horner ROps cs (u / k).
Proof.
  intros [|c r] k u Hk.
  - reflexivity.
  - change (stretch ROps (c :: r) k) with (c :: stretch_from ROps r (1 / k) (1 / k)).
    rewrite !horner_cons, stretch_from_law.
    replace (u * (1 / k)) with (u / k) by (field; exact Hk).
    field; exact Hk.
Qed.

(** * Derivative *)
Fixpoint dhorner (cs : list R) (u : R) : R :=
  match cs with
  | [] => 0
  | _ :: r => horner ROps r u + u * dhorner r u
  end.

Lemma is_derive_horner : forall cs (u : R), is_derive (horner ROps cs) u (dhorner cs u).
Proof.
  induction cs as [|c r IH]; intros u.
  - simpl. apply (is_derive_const (V := R_NormedModule) 0 u).
  - apply (is_derive_ext (fun u => c + u * horner ROps r u)).
    + intros t. reflexivity.
    + simpl dhorner.
      evar_last.
      apply (is_derive_plus (V := R_NormedModule)).
      apply (is_derive_const (V := R_NormedModule)).
      apply (is_derive_mult (K:=R_AbsRing) (fun x : R => x) (horner ROps r) u 1 (dhorner r u)).
      apply (is_derive_id (K:=R_AbsRing)). apply IH.
      intros; apply Rmult_comm.
      rewrite plus_zero_l. unfold plus, mult; simpl. ring.
Qed.

Lemma deriv_from_law : forall r k u,
  horner ROps (deriv_from ROps k r) u = IZR k * horner ROps r u + u * dhorner r u.
Proof.
  induction r as [|c r IH]; intros k u.
  - simpl. ring.
  - change (deriv_from ROps k (c :: r)) with ((IZR k * c) :: deriv_from ROps (k + 1) r).
    rewrite !horner_cons, IH, plus_IZR. simpl dhorner. ring.
Qed.

Lemma deriv_law : forall cs (u : R),
  is_derive (horner ROps cs) u (horner ROps (deriv ROps cs) u).
Proof.
  intros cs u. evar_last. apply is_derive_horner.
  destruct cs as [|c [|c' r]].
  - simpl. ring.
  - reflexivity.
  - change (deriv ROps (c :: c' :: r)) with (deriv_from ROps 1 (c' :: r)).
    rewrite deriv_from_law. simpl dhorner. rewrite !horner_cons. ring.
Qed.

(** * Bezier: power basis vs. de Casteljau (per length, 1..8) *)
Ltac poly_cbv :=
  cbv [horner make_bezier make_linear stretch stretch_from bez_coeff sumto sgn fac facs
       deriv deriv_from
       ROps Num.zero Num.one add sub mul div ofZ length map seq nth
       Nat.sub Nat.add Nat.even Z.add Pos.add Pos.succ
       bezier dc dc_step lerp diffs INR].

Lemma bezier_alg_is_bezier : forall pts d u,
  (1 <= length pts <= 8)%nat -> d <> 0 ->
  horner ROps (make_bezier ROps d pts) u = bezier ROps pts (u / d).
Proof.
  intros pts d u [Hlo Hhi] Hd.
  destruct pts as [|p0 [|p1 [|p2 [|p3 [|p4 [|p5 [|p6 [|p7 [|p8 r]]]]]]]]];
    simpl in Hlo, Hhi; try lia.
  all: poly_cbv; field; exact Hd.
Qed.

Lemma hodograph : forall pts u, (2 <= length pts <= 8)%nat ->
  horner ROps (deriv ROps (make_bezier ROps 1 pts)) u
  = INR (length pts - 1) * bezier ROps (diffs ROps pts) u.
Proof.
  intros pts u [Hlo Hhi].
  destruct pts as [|p0 [|p1 [|p2 [|p3 [|p4 [|p5 [|p6 [|p7 [|p8 r]]]]]]]]];
    simpl in Hlo, Hhi; try lia.
  all: poly_cbv; field.
Qed.
Example bezier_example :
  horner ROps (make_bezier ROps 2 [0; 3; 3; 6]) 1 = 3.
Proof. poly_cbv. field. Qed.

(** * Bezier endpoints (any length) *)
Lemma lerp_0 : forall a b, lerp ROps a b 0 = a.
Proof. intros; unfold lerp; simpl; ring. Qed.
Lemma lerp_1 : forall a b, lerp ROps a b 1 = b.
Proof. intros; unfold lerp; simpl; ring. Qed.

Lemma dc_step_cons2 : forall a b tl (u : R),
  dc_step ROps (a :: b :: tl) u = lerp ROps a b u :: dc_step ROps (b :: tl) u.
Proof. reflexivity. Qed.

Lemma dc_step_length : forall xs (u : R), length (dc_step ROps xs u) = (length xs - 1)%nat.
Proof.
  induction xs as [|a tl IH]; intros u; [reflexivity|].
  destruct tl as [|b tl]; [reflexivity|].
  rewrite dc_step_cons2. cbn [length]. rewrite IH. cbn [length]. lia.
Qed.

Lemma dc_0 : forall n xs a, (length xs <= n)%nat -> xs <> [] ->
  dc ROps n xs 0 = hd a xs.
Proof.
  induction n as [|n IH]; intros xs a Hl Hne.
  - destruct xs; [congruence | simpl in Hl; lia].
  - destruct xs as [|x [|y tl]]; [congruence | reflexivity |].
    change (dc ROps (S n) (x :: y :: tl) 0) with (dc ROps n (dc_step ROps (x :: y :: tl) 0) 0).
    rewrite (IH _ a).
    + rewrite dc_step_cons2. simpl. apply lerp_0.
    + rewrite dc_step_length. simpl in *. lia.
    + rewrite dc_step_cons2. discriminate.
Qed.

Lemma last_dc_step_1 : forall tl a b d,
  last (dc_step ROps (a :: b :: tl) 1) d = last (b :: tl) d.
Proof.
  induction tl as [|c tl IH]; intros a b d.
  - simpl. apply lerp_1.
  - rewrite dc_step_cons2.
    change (last (b :: c :: tl) d) with (last (c :: tl) d).
    rewrite <- (IH b c d). rewrite (dc_step_cons2 b c tl). reflexivity.
Qed.

Lemma dc_1 : forall n xs a, (length xs <= n)%nat -> xs <> [] ->
  dc ROps n xs 1 = last xs a.
Proof.
  induction n as [|n IH]; intros xs a Hl Hne.
  - destruct xs; [congruence | simpl in Hl; lia].
  - destruct xs as [|x [|y tl]]; [congruence | reflexivity |].
    change (dc ROps (S n) (x :: y :: tl) 1) with (dc ROps n (dc_step ROps (x :: y :: tl) 1) 1).
    rewrite (IH _ a).
    + rewrite last_dc_step_1. reflexivity.
    + rewrite dc_step_length. simpl in *. lia.
    + rewrite dc_step_cons2. discriminate.
Qed.

Lemma bezier_endpoints : forall pts a, pts <> [] ->
  bezier ROps pts 0 = hd a pts /\ bezier ROps pts 1 = last pts a.
Proof.
  intros pts a Hne. unfold bezier. split.
  - apply dc_0; [lia | exact Hne].
  - apply dc_1; [lia | exact Hne].
Qed.

(** * The rational instance computes the same numbers *)
Lemma Q2R_0 : Q2R 0 = 0.
Proof. unfold Q2R; simpl; lra. Qed.
Lemma Q2R_1 : Q2R 1 = 1.
Proof. unfold Q2R; simpl; lra. Qed.
Lemma Q2R_inject_Z : forall z, Q2R (inject_Z z) = IZR z.
Proof. intros z; unfold Q2R; simpl; field. Qed.

Lemma Q2R_Qred : forall q, Q2R (Qred q) = Q2R q.
Proof. intros q. apply Qeq_eqR, Qred_correct. Qed.

Lemma Q2R_inv_total : forall x, Q2R (/ x) = / Q2R x.
Proof.
  intros x. destruct (Qeq_dec x 0) as [H|H].
  - rewrite (Qeq_eqR _ _ (Qinv_comp _ _ H)), (Qeq_eqR _ _ H).
    change (/ 0)%Q with 0%Q. rewrite Q2R_0, Rinv_0. reflexivity.
  - apply Q2R_inv, H.
Qed.

Lemma Q2R_div_total : forall x y, Q2R (x / y) = Q2R x / Q2R y.
Proof. intros; unfold Qdiv, Rdiv. rewrite Q2R_mult, Q2R_inv_total. reflexivity. Qed.

Lemma Q2R_add : forall a b, Q2R (add QOps a b) = add ROps (Q2R a) (Q2R b).
Proof. intros; change (Q2R (Qred (a + b)) = Q2R a + Q2R b); rewrite Q2R_Qred; apply Q2R_plus. Qed.
Lemma Q2R_sub : forall a b, Q2R (sub QOps a b) = sub ROps (Q2R a) (Q2R b).
Proof. intros; change (Q2R (Qred (a - b)) = Q2R a - Q2R b); rewrite Q2R_Qred; apply Q2R_minus. Qed.
Lemma Q2R_mul : forall a b, Q2R (mul QOps a b) = mul ROps (Q2R a) (Q2R b).
Proof. intros; change (Q2R (Qred (a * b)) = Q2R a * Q2R b); rewrite Q2R_Qred; apply Q2R_mult. Qed.
Lemma Q2R_dv : forall a b, Q2R (div QOps a b) = div ROps (Q2R a) (Q2R b).
Proof. intros; change (Q2R (Qred (a / b)) = Q2R a / Q2R b); rewrite Q2R_Qred; apply Q2R_div_total. Qed.
Lemma Q2R_zero : Q2R (Num.zero QOps) = Num.zero ROps.
Proof. exact Q2R_0. Qed.
Lemma Q2R_one : Q2R (Num.one QOps) = Num.one ROps.
Proof. exact Q2R_1. Qed.
Lemma Q2R_ofZ : forall z, Q2R (ofZ QOps z) = ofZ ROps z.
Proof. exact Q2R_inject_Z. Qed.

Lemma horner_Q2R : forall cs u, Q2R (horner QOps cs u) = horner ROps (map Q2R cs) (Q2R u).
Proof.
  induction cs as [|c r IH]; intros u.
  - exact Q2R_0.
  - change (Q2R (add QOps c (mul QOps u (horner QOps r u)))
            = add ROps (Q2R c) (mul ROps (Q2R u) (horner ROps (map Q2R r) (Q2R u)))).
    rewrite Q2R_add, Q2R_mul, IH. reflexivity.
Qed.

Lemma deriv_from_Q2R : forall cs k,
  map Q2R (deriv_from QOps k cs) = deriv_from ROps k (map Q2R cs).
Proof.
  induction cs as [|c r IH]; intros k; [reflexivity|].
  change (Q2R (mul QOps (ofZ QOps k) c) :: map Q2R (deriv_from QOps (k + 1) r)
          = mul ROps (ofZ ROps k) (Q2R c) :: deriv_from ROps (k + 1) (map Q2R r)).
  rewrite Q2R_mul, Q2R_ofZ, IH. reflexivity.
Qed.

Lemma deriv_Q2R : forall cs, map Q2R (deriv QOps cs) = deriv ROps (map Q2R cs).
Proof.
  intros [|c [|c' r]].
  - simpl. rewrite Q2R_0. reflexivity.
  - simpl. rewrite Q2R_0. reflexivity.
  - change (deriv QOps (c :: c' :: r)) with (deriv_from QOps 1 (c' :: r)).
    rewrite deriv_from_Q2R. reflexivity.
Qed.

Lemma scale_Q2R : forall cs k, map Q2R (scale QOps cs k) = scale ROps (map Q2R cs) (Q2R k).
Proof.
  intros cs k. unfold scale. rewrite !map_map. apply map_ext.
  intros a. apply Q2R_mul.
Qed.

Lemma fac_Q2R : forall i, Q2R (fac QOps i) = fac ROps i.
Proof. intros i. unfold fac. apply Q2R_ofZ. Qed.

Lemma sgn_Q2R : forall k, Q2R (sgn QOps k) = sgn ROps k.
Proof.
  intros k. unfold sgn. destruct (Nat.even k).
  - exact Q2R_1.
  - rewrite Q2R_sub, Q2R_zero, Q2R_one. reflexivity.
Qed.

Lemma sumto_Q2R : forall f g n, (forall i, Q2R (f i) = g i) ->
  Q2R (sumto QOps f n) = sumto ROps g n.
Proof.
  intros f g n H. induction n as [|n IH].
  - apply H.
  - change (Q2R (add QOps (sumto QOps f n) (f (S n))) = add ROps (sumto ROps g n) (g (S n))).
    rewrite Q2R_add, IH, H. reflexivity.
Qed.

Lemma nth_Q2R : forall i xs, Q2R (nth i xs (Num.zero QOps)) = nth i (map Q2R xs) (Num.zero ROps).
Proof.
  intros i xs. rewrite <- Q2R_zero. symmetry. apply map_nth.
Qed.

Lemma bez_coeff_Q2R : forall xs n j,
  Q2R (bez_coeff QOps xs n j) = bez_coeff ROps (map Q2R xs) n j.
Proof.
  intros xs n j. unfold bez_coeff.
  rewrite Q2R_dv, Q2R_mul, !fac_Q2R.
  f_equal. f_equal.
  apply sumto_Q2R. intros i.
  rewrite !Q2R_dv, Q2R_mul, sgn_Q2R, !fac_Q2R, nth_Q2R. reflexivity.
Qed.

Lemma stretch_from_Q2R : forall cs f s,
  map Q2R (stretch_from QOps cs f s) = stretch_from ROps (map Q2R cs) (Q2R f) (Q2R s).
Proof.
  induction cs as [|c r IH]; intros f s; [reflexivity|].
  change (Q2R (mul QOps c s) :: map Q2R (stretch_from QOps r f (mul QOps s f))
          = mul ROps (Q2R c) (Q2R s) :: stretch_from ROps (map Q2R r) (Q2R f) (mul ROps (Q2R s) (Q2R f))).
  rewrite IH, !Q2R_mul. reflexivity.
Qed.

Lemma stretch_Q2R : forall cs k,
  map Q2R (stretch QOps cs k) = stretch ROps (map Q2R cs) (Q2R k).
Proof.
  intros [|c r] k; [reflexivity|].
  change (Q2R c :: map Q2R (stretch_from QOps r (div QOps (Num.one QOps) k) (div QOps (Num.one QOps) k))
          = Q2R c :: stretch_from ROps (map Q2R r) (div ROps (Num.one ROps) (Q2R k)) (div ROps (Num.one ROps) (Q2R k))).
  rewrite stretch_from_Q2R, Q2R_dv, Q2R_one. reflexivity.
Qed.

(** The general case of make_bezier (3 or more points) as a function. *)
Lemma make_bezier_Q2R : forall d pts,
  map Q2R (make_bezier QOps d pts) = make_bezier ROps (Q2R d) (map Q2R pts).
Proof.
  intros d pts.
  destruct pts as [|p0 [|p1 [|p2 r]]].
  - simpl. rewrite Q2R_0. reflexivity.
  - reflexivity.
  - change ([Q2R p0; Q2R (div QOps (sub QOps p1 p0) d)]
            = [Q2R p0; div ROps (sub ROps (Q2R p1) (Q2R p0)) (Q2R d)]).
    rewrite Q2R_dv, Q2R_sub. reflexivity.
  - set (xs := p0 :: p1 :: p2 :: r).
    change (make_bezier QOps d xs)
      with (stretch QOps (map (bez_coeff QOps xs (length xs - 1)) (seq 0 (S (length xs - 1)))) d).
    change (make_bezier ROps (Q2R d) (map Q2R xs))
      with (stretch ROps (map (bez_coeff ROps (map Q2R xs) (length (map Q2R xs) - 1))
                              (seq 0 (S (length (map Q2R xs) - 1)))) (Q2R d)).
    rewrite stretch_Q2R, map_length, map_map. f_equal.
    apply map_ext. intros j. apply bez_coeff_Q2R.
Qed.

Lemma Q_instance_agrees : forall cs u pts d,
  Q2R (horner QOps cs u) = horner ROps (map Q2R cs) (Q2R u) /\
  map Q2R (deriv QOps cs) = deriv ROps (map Q2R cs) /\
  (forall k, map Q2R (scale QOps cs k) = scale ROps (map Q2R cs) (Q2R k)) /\
  (~ (d == 0)%Q -> (length pts <= 8)%nat ->
     map Q2R (make_bezier QOps d pts) = make_bezier ROps (Q2R d) (map Q2R pts)).
Proof.
  intros cs u pts d. repeat split.
  - apply horner_Q2R.
  - apply deriv_Q2R.
  - intros k. apply scale_Q2R.
  - intros _ _. apply make_bezier_Q2R.
Qed.

(** * sb_poly_make_linear / make_bezier with the tiny-duration branch *)
Lemma make_bezier_c_agrees : forall d pts,
  Qle_bool SB.Base.F32.FLT_EPSILON (Qabs' d) = true -> make_bezier_c d pts = make_bezier QOps d pts.
Proof.
  intros d pts H. unfold make_bezier_c, make_linear_c.
  destruct pts as [|p0 [|p1 [|p2 r]]]; try reflexivity.
  rewrite H. reflexivity.
Qed.

(** below FLT_EPSILON the code returns the constant polynomial (x0+x1)/2:
    its value does not depend on the argument *)
Lemma make_linear_tiny : forall d x0 x1 u,
  Qle_bool SB.Base.F32.FLT_EPSILON (Qabs' d) = false ->
  (horner QOps (make_linear_c d x0 x1) u == (x0 + x1) / 2)%Q.
Proof.
  intros d x0 x1 u H. unfold make_linear_c. rewrite H.
  cbn [horner QOps add mul zero]. rewrite !Qred_correct. field.
Qed.
