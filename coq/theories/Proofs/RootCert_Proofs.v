(** Proofs for the certificate checkers of Model/RootCert.v (used by
    Props/Properties_C13.v, Properties_C15.v and Properties_C18.v): soundness
    over the reals of the interval Horner enclosure, of the bisection searches
    built on it, of the Cauchy root bound, of the extremum bounds, and the
    closed forms for degree <= 2. *)
From Coq Require Import Reals QArith Qreals List ZArith Lra Lia Psatz.
From Coquelicot Require Import Coquelicot.
From SB Require Import Base.Num Model.Poly Model.RootCert Proofs.Poly_Proofs.
Import ListNotations.
Local Open Scope R_scope.

(** evaluation over the reals of a polynomial with rational coefficients *)
Definition reval (cs : list Q) (x : R) : R := horner ROps (map Q2R cs) x.

Lemma reval_nil : forall x, reval [] x = 0.
Proof. reflexivity. Qed.

Lemma reval_cons : forall c r x, reval (c :: r) x = Q2R c + x * reval r x.
Proof. reflexivity. Qed.

Lemma reval_Q : forall cs q, reval cs (Q2R q) = Q2R (horner QOps cs q).
Proof. intros cs q. unfold reval. symmetry. apply horner_Q2R. Qed.

Lemma qeval_eq : forall cs q, (qeval cs q == horner QOps cs q)%Q.
Proof. intros cs q. unfold qeval. apply Qred_correct. Qed.

Lemma Q2R_qeval : forall cs q, Q2R (qeval cs q) = reval cs (Q2R q).
Proof. intros cs q. unfold qeval. rewrite Q2R_Qred. symmetry. apply reval_Q. Qed.

(** * Comparisons and min / max on Q, seen in R *)
Lemma Qle_bool_true_R : forall a b, Qle_bool a b = true -> Q2R a <= Q2R b.
Proof. intros a b H. apply Qle_Rle. apply Qle_bool_iff. exact H. Qed.

Lemma Qle_bool_false_R : forall a b, Qle_bool a b = false -> Q2R b < Q2R a.
Proof.
  intros a b H. apply Qlt_Rlt. apply Qnot_le_lt. intros Hle.
  apply Qle_bool_iff in Hle. rewrite Hle in H. discriminate H.
Qed.

Lemma Qle_bool_false_Q : forall a b, Qle_bool a b = false -> (b < a)%Q.
Proof.
  intros a b H. apply Qnot_le_lt. intros Hle.
  apply Qle_bool_iff in Hle. rewrite Hle in H. discriminate H.
Qed.

Lemma Q2R_Qmax' : forall a b, Q2R (Qmax' a b) = Rmax (Q2R a) (Q2R b).
Proof.
  intros a b. unfold Qmax'. destruct (Qle_bool a b) eqn:E.
  - apply Qle_bool_true_R in E. rewrite Rmax_right; [reflexivity | exact E].
  - apply Qle_bool_false_R in E. rewrite Rmax_left; [reflexivity | lra].
Qed.

Lemma Q2R_Qmin' : forall a b, Q2R (Qmin' a b) = Rmin (Q2R a) (Q2R b).
Proof.
  intros a b. unfold Qmin'. destruct (Qle_bool a b) eqn:E.
  - apply Qle_bool_true_R in E. rewrite Rmin_left; [reflexivity | exact E].
  - apply Qle_bool_false_R in E. rewrite Rmin_right; [reflexivity | lra].
Qed.

Lemma Qmax'_l : forall a b, Q2R a <= Q2R (Qmax' a b).
Proof. intros a b. rewrite Q2R_Qmax'. apply Rmax_l. Qed.

Lemma Qmax'_r : forall a b, Q2R b <= Q2R (Qmax' a b).
Proof. intros a b. rewrite Q2R_Qmax'. apply Rmax_r. Qed.

Lemma Qmax'_cases : forall a b, Qmax' a b = a \/ Qmax' a b = b.
Proof. intros a b. unfold Qmax'. destruct (Qle_bool a b); [right | left]; reflexivity. Qed.

Lemma Q2R_Qabs' : forall q, Q2R (Qabs' q) = Rabs (Q2R q).
Proof.
  intros q. unfold Qabs'. destruct (Qle_bool 0 q) eqn:E.
  - apply Qle_bool_true_R in E. rewrite Q2R_0 in E.
    rewrite Rabs_pos_eq; [reflexivity | exact E].
  - apply Qle_bool_false_R in E. rewrite Q2R_0 in E.
    rewrite Q2R_opp. rewrite Rabs_left; [reflexivity | exact E].
Qed.

Lemma Q2R_2 : Q2R 2 = 2.
Proof. unfold Q2R; simpl; lra. Qed.

Lemma Q2R_mid : forall lo hi, Q2R (Qred ((lo + hi) / 2)) = (Q2R lo + Q2R hi) / 2.
Proof. intros lo hi. rewrite Q2R_Qred, Q2R_div_total, Q2R_plus, Q2R_2. reflexivity. Qed.

Lemma mid_between_Q : forall lo hi, (lo <= hi)%Q ->
  (lo <= Qred ((lo + hi) / 2))%Q /\ (Qred ((lo + hi) / 2) <= hi)%Q.
Proof.
  intros lo hi H. apply Qle_Rle in H.
  split; apply Rle_Qle; rewrite Q2R_mid; lra.
Qed.

(** * Interval arithmetic *)
Lemma mul_between : forall x yl y yh, yl <= y <= yh ->
  Rmin (x * yl) (x * yh) <= x * y <= Rmax (x * yl) (x * yh).
Proof.
  intros x yl y yh [H1 H2].
  pose proof (Rmin_l (x * yl) (x * yh)) as A1. pose proof (Rmin_r (x * yl) (x * yh)) as A2.
  pose proof (Rmax_l (x * yl) (x * yh)) as B1. pose proof (Rmax_r (x * yl) (x * yh)) as B2.
  destruct (Rle_dec 0 x) as [Hx | Hx].
  - assert (x * yl <= x * y) by (apply Rmult_le_compat_l; assumption).
    assert (x * y <= x * yh) by (apply Rmult_le_compat_l; assumption).
    lra.
  - assert (Hx' : 0 <= - x) by lra.
    assert (- x * yl <= - x * y) by (apply Rmult_le_compat_l; assumption).
    assert (- x * y <= - x * yh) by (apply Rmult_le_compat_l; assumption).
    lra.
Qed.

Lemma mul_enclosure : forall xl x xh yl y yh, xl <= x <= xh -> yl <= y <= yh ->
  Rmin (Rmin (xl * yl) (xl * yh)) (Rmin (xh * yl) (xh * yh)) <= x * y
  <= Rmax (Rmax (xl * yl) (xl * yh)) (Rmax (xh * yl) (xh * yh)).
Proof.
  intros xl x xh yl y yh Hx Hy.
  destruct (mul_between y xl x xh Hx) as [A1 A2].
  destruct (mul_between xl yl y yh Hy) as [B1 B2].
  destruct (mul_between xh yl y yh Hy) as [C1 C2].
  rewrite (Rmult_comm y xl), (Rmult_comm y xh), (Rmult_comm y x) in A1.
  rewrite (Rmult_comm y xl), (Rmult_comm y xh), (Rmult_comm y x) in A2.
  set (m1 := Rmin (xl * yl) (xl * yh)) in *. set (m2 := Rmin (xh * yl) (xh * yh)) in *.
  set (M1 := Rmax (xl * yl) (xl * yh)) in *. set (M2 := Rmax (xh * yl) (xh * yh)) in *.
  pose proof (Rmin_l m1 m2). pose proof (Rmin_r m1 m2).
  pose proof (Rmax_l M1 M2). pose proof (Rmax_r M1 M2).
  split.
  - apply Rle_trans with (Rmin (xl * y) (xh * y)); [| exact A1].
    apply Rmin_glb; lra.
  - apply Rle_trans with (Rmax (xl * y) (xh * y)); [exact A2 |].
    apply Rmax_lub; lra.
Qed.

Lemma iv_add_sound : forall a b x y,
  Q2R (fst a) <= x <= Q2R (snd a) -> Q2R (fst b) <= y <= Q2R (snd b) ->
  Q2R (fst (iv_add a b)) <= x + y <= Q2R (snd (iv_add a b)).
Proof.
  intros a b x y Ha Hb. unfold iv_add. cbn [fst snd].
  rewrite !Q2R_Qred, !Q2R_plus. lra.
Qed.

Lemma iv_mul_sound : forall a b x y,
  Q2R (fst a) <= x <= Q2R (snd a) -> Q2R (fst b) <= y <= Q2R (snd b) ->
  Q2R (fst (iv_mul a b)) <= x * y <= Q2R (snd (iv_mul a b)).
Proof.
  intros a b x y Ha Hb. unfold iv_mul. cbn [fst snd].
  rewrite !Q2R_Qred, !Q2R_Qmin', !Q2R_Qmax', !Q2R_mult.
  apply mul_enclosure; assumption.
Qed.

(** * The interval Horner scheme encloses the range *)
Lemma irange_sound : forall cs lo hi x, Q2R lo <= x <= Q2R hi ->
  Q2R (fst (irange cs (lo, hi))) <= reval cs x <= Q2R (snd (irange cs (lo, hi))).
Proof.
  induction cs as [|c r IH]; intros lo hi x Hx.
  - rewrite reval_nil. unfold irange, iv_pt. cbn [fst snd]. rewrite Q2R_0. lra.
  - rewrite reval_cons.
    change (irange (c :: r) (lo, hi)) with (iv_add (iv_pt c) (iv_mul (lo, hi) (irange r (lo, hi)))).
    apply iv_add_sound.
    + unfold iv_pt. cbn [fst snd]. lra.
    + apply iv_mul_sound.
      * cbn [fst snd]. exact Hx.
      * apply IH. exact Hx.
Qed.

Lemma excludes_zero_sound : forall r y, excludes_zero r = true ->
  Q2R (fst r) <= y <= Q2R (snd r) -> y <> 0.
Proof.
  intros r y H [H1 H2]. unfold excludes_zero, Qltb in H.
  apply Bool.orb_true_iff in H. destruct H as [H | H].
  - apply Bool.negb_true_iff in H. apply Qle_bool_false_R in H. rewrite Q2R_0 in H. lra.
  - apply Bool.negb_true_iff in H. apply Qle_bool_false_R in H. rewrite Q2R_0 in H. lra.
Qed.

Lemma excluded_no_root : forall cs lo hi, excludes_zero (irange cs (lo, hi)) = true ->
  forall x, Q2R lo <= x <= Q2R hi -> reval cs x <> 0.
Proof.
  intros cs lo hi H x Hx. apply (excludes_zero_sound _ _ H). apply irange_sound. exact Hx.
Qed.

(** * Leftmost root by bisection *)
Lemma first_root_O : forall cs lo hi,
  first_root O cs lo hi = if excludes_zero (irange cs (lo, hi)) then NoRoot else Maybe lo hi.
Proof. reflexivity. Qed.

Lemma first_root_S : forall d cs lo hi,
  first_root (S d) cs lo hi =
  if excludes_zero (irange cs (lo, hi)) then NoRoot
  else match first_root d cs lo (Qred ((lo + hi) / 2)) with
       | NoRoot => first_root d cs (Qred ((lo + hi) / 2)) hi
       | Maybe a b => Maybe a b
       end.
Proof. intros. cbn [first_root]. destruct (excludes_zero (irange cs (lo, hi))); [reflexivity|].
  destruct (first_root d cs lo (Qred ((lo + hi) / 2))); reflexivity. Qed.

(** The statement of Props/Properties_C13.v lacks [lo <= hi]; it is false
    without it (see [first_root_counterexample] below). *)
Lemma first_root_sound' : forall depth cs lo hi, (lo <= hi)%Q ->
  match first_root depth cs lo hi with
  | NoRoot => forall x, Q2R lo <= x <= Q2R hi -> reval cs x <> 0
  | Maybe a b => (lo <= a)%Q /\ (a <= b)%Q /\ (b <= hi)%Q /\
                 forall x, Q2R lo <= x < Q2R a -> reval cs x <> 0
  end.
Proof.
  induction depth as [|d IH]; intros cs lo hi Hle.
  - rewrite first_root_O. destruct (excludes_zero (irange cs (lo, hi))) eqn:E.
    + apply excluded_no_root. exact E.
    + split; [apply Qle_refl|]. split; [exact Hle|]. split; [apply Qle_refl|].
      intros x Hx. lra.
  - rewrite first_root_S. destruct (excludes_zero (irange cs (lo, hi))) eqn:E.
    + apply excluded_no_root. exact E.
    + destruct (mid_between_Q lo hi Hle) as [Hm1 Hm2].
      set (mid := Qred ((lo + hi) / 2)) in *.
      pose proof (IH cs lo mid Hm1) as IH1.
      pose proof (IH cs mid hi Hm2) as IH2.
      destruct (first_root d cs lo mid) as [|a b].
      * destruct (first_root d cs mid hi) as [|a b].
        -- intros x Hx. destruct (Rle_dec x (Q2R mid)) as [Hc | Hc].
           ++ apply IH1. lra.
           ++ apply IH2. lra.
        -- destruct IH2 as (A1 & A2 & A3 & A4).
           split; [apply Qle_trans with mid; assumption|].
           split; [exact A2|]. split; [exact A3|].
           intros x Hx. destruct (Rle_dec x (Q2R mid)) as [Hc | Hc].
           ++ apply IH1. lra.
           ++ apply A4. lra.
      * destruct IH1 as (A1 & A2 & A3 & A4).
        split; [exact A1|]. split; [exact A2|].
        split; [apply Qle_trans with mid; assumption|]. exact A4.
Qed.

Lemma first_root_counterexample :
  first_root 0 [] 1%Q 0%Q = Maybe 1%Q 0%Q /\ ~ (1 <= 0)%Q.
Proof. split; [reflexivity | intros H; unfold Qle in H; simpl in H; lia]. Qed.

(** * All boxes that cannot be excluded contain all the roots *)
Lemma root_boxes_O : forall cs lo hi,
  root_boxes O cs lo hi = if excludes_zero (irange cs (lo, hi)) then [] else [(lo, hi)].
Proof. reflexivity. Qed.

Lemma root_boxes_S : forall d cs lo hi,
  root_boxes (S d) cs lo hi =
  if excludes_zero (irange cs (lo, hi)) then []
  else root_boxes d cs lo (Qred ((lo + hi) / 2)) ++ root_boxes d cs (Qred ((lo + hi) / 2)) hi.
Proof. reflexivity. Qed.

Lemma root_boxes_complete : forall depth cs lo hi x,
  Q2R lo <= x <= Q2R hi -> reval cs x = 0 ->
  exists a b, In (a, b) (root_boxes depth cs lo hi) /\ Q2R a <= x <= Q2R b.
Proof.
  induction depth as [|d IH]; intros cs lo hi x Hx Hroot.
  - rewrite root_boxes_O. destruct (excludes_zero (irange cs (lo, hi))) eqn:E.
    + exfalso. apply (excluded_no_root cs lo hi E x Hx). exact Hroot.
    + exists lo, hi. split; [left; reflexivity | exact Hx].
  - rewrite root_boxes_S. destruct (excludes_zero (irange cs (lo, hi))) eqn:E.
    + exfalso. apply (excluded_no_root cs lo hi E x Hx). exact Hroot.
    + pose proof (Q2R_mid lo hi) as Hm.
      set (mid := Qred ((lo + hi) / 2)) in *.
      destruct (Rle_dec x (Q2R mid)) as [Hc | Hc].
      * destruct (IH cs lo mid x) as (a & b & Hin & Hab); [lra | exact Hroot |].
        exists a, b. split; [apply in_or_app; left; exact Hin | exact Hab].
      * destruct (IH cs mid hi x) as (a & b & Hin & Hab); [lra | exact Hroot |].
        exists a, b. split; [apply in_or_app; right; exact Hin | exact Hab].
Qed.

(** * A sign change certifies a root *)
Lemma reval_continuous : forall cs x, continuous (reval cs) x.
Proof.
  intros cs x. apply (ex_derive_continuous (reval cs) x).
  exists (horner ROps (deriv ROps (map Q2R cs)) x).
  unfold reval. apply deriv_law.
Qed.

Lemma sign_change_root : forall cs a b, (a <= b)%Q -> sign_change cs a b = true ->
  exists x, Q2R a <= x <= Q2R b /\ reval cs x = 0.
Proof.
  intros cs a b Hab H. unfold sign_change in H.
  apply Qle_bool_true_R in H. rewrite Q2R_mult, !Q2R_qeval, Q2R_0 in H.
  apply Qle_Rle in Hab.
  destruct (IVT_gen_consistent (reval cs) (Q2R a) (Q2R b) 0) as [x [Hx Hfx]].
  - intros x. apply reval_continuous.
  - set (fa := reval cs (Q2R a)) in *. set (fb := reval cs (Q2R b)) in *.
    unfold Rmin, Rmax. destruct (Rle_dec fa fb) as [Hc | Hc]; nra.
  - exists x. split; [| exact Hfx].
    rewrite Rmin_left in Hx; [| exact Hab]. rewrite Rmax_right in Hx; [| exact Hab]. exact Hx.
Qed.

(** * Bounds on the maximum over an interval *)
Definition mb_best (cs : list Q) (lo hi best : Q) : Q :=
  Qmax' best (Qmax' (qeval cs lo) (Qmax' (qeval cs hi) (qeval cs (Qred ((lo + hi) / 2))))).

Lemma max_bounds_O : forall cs lo hi best,
  max_bounds O cs lo hi best =
  if Qle_bool (snd (irange cs (lo, hi))) (mb_best cs lo hi best)
  then (mb_best cs lo hi best, mb_best cs lo hi best)
  else (mb_best cs lo hi best, snd (irange cs (lo, hi))).
Proof. reflexivity. Qed.

Lemma max_bounds_S : forall d cs lo hi best,
  max_bounds (S d) cs lo hi best =
  if Qle_bool (snd (irange cs (lo, hi))) (mb_best cs lo hi best)
  then (mb_best cs lo hi best, mb_best cs lo hi best)
  else let '(b1, u1) := max_bounds d cs lo (Qred ((lo + hi) / 2)) (mb_best cs lo hi best) in
       let '(b2, u2) := max_bounds d cs (Qred ((lo + hi) / 2)) hi b1 in
       (b2, Qmax' b2 (Qmax' (if Qle_bool u1 b2 then b2 else u1) u2)).
Proof. reflexivity. Qed.

(** [l] is [best] or the value of the polynomial at a rational point of [lo, hi] *)
Definition attained (cs : list Q) (lo hi best l : Q) : Prop :=
  (l == best)%Q \/ exists x, (lo <= x)%Q /\ (x <= hi)%Q /\ (horner QOps cs x == l)%Q.

Lemma att_refl : forall cs lo hi best, attained cs lo hi best best.
Proof. intros. left. apply Qeq_refl. Qed.

Lemma att_sample : forall cs lo hi best x, (lo <= x)%Q -> (x <= hi)%Q ->
  attained cs lo hi best (qeval cs x).
Proof.
  intros cs lo hi best x H1 H2. right. exists x. split; [exact H1|]. split; [exact H2|].
  apply Qeq_sym. apply qeval_eq.
Qed.

Lemma att_widen : forall cs lo hi lo' hi' best l, (lo' <= lo)%Q -> (hi <= hi')%Q ->
  attained cs lo hi best l -> attained cs lo' hi' best l.
Proof.
  intros cs lo hi lo' hi' best l H1 H2 [H | (x & A & B & C)].
  - left. exact H.
  - right. exists x. split; [apply Qle_trans with lo; assumption|].
    split; [apply Qle_trans with hi; assumption | exact C].
Qed.

Lemma att_trans : forall cs lo hi best b1 b2,
  attained cs lo hi best b1 -> attained cs lo hi b1 b2 -> attained cs lo hi best b2.
Proof.
  intros cs lo hi best b1 b2 H1 [H2 | H2].
  - destruct H1 as [H1 | (x & A & B & C)].
    + left. apply Qeq_trans with b1; assumption.
    + right. exists x. split; [exact A|]. split; [exact B|].
      apply Qeq_trans with b1; [exact C | apply Qeq_sym; exact H2].
  - right. exact H2.
Qed.

Lemma att_max : forall cs lo hi best a b,
  attained cs lo hi best a -> attained cs lo hi best b -> attained cs lo hi best (Qmax' a b).
Proof.
  intros cs lo hi best a b Ha Hb.
  destruct (Qmax'_cases a b) as [E | E]; rewrite E; assumption.
Qed.

Lemma att_mb_best : forall cs lo hi best, (lo <= hi)%Q ->
  attained cs lo hi best (mb_best cs lo hi best).
Proof.
  intros cs lo hi best Hle. destruct (mid_between_Q lo hi Hle) as [Hm1 Hm2].
  unfold mb_best. apply att_max; [apply att_refl|].
  apply att_max; [apply att_sample; [apply Qle_refl | exact Hle]|].
  apply att_max; [apply att_sample; [exact Hle | apply Qle_refl]|].
  apply att_sample; assumption.
Qed.

Lemma max_bounds_sound : forall depth cs lo hi best l u, (lo <= hi)%Q ->
  max_bounds depth cs lo hi best = (l, u) ->
  attained cs lo hi best l /\
  (forall x, Q2R lo <= x <= Q2R hi -> reval cs x <= Q2R u).
Proof.
  induction depth as [|d IH]; intros cs lo hi best l u Hle H.
  - rewrite max_bounds_O in H.
    destruct (Qle_bool (snd (irange cs (lo, hi))) (mb_best cs lo hi best)) eqn:E;
      injection H as Hl Hu; subst l u.
    + split; [apply att_mb_best; exact Hle|].
      intros x Hx. apply Qle_bool_true_R in E.
      pose proof (irange_sound cs lo hi x Hx) as [_ Hr]. lra.
    + split; [apply att_mb_best; exact Hle|].
      intros x Hx. apply (irange_sound cs lo hi x Hx).
  - rewrite max_bounds_S in H.
    destruct (Qle_bool (snd (irange cs (lo, hi))) (mb_best cs lo hi best)) eqn:E.
    + injection H as Hl Hu; subst l u.
      split; [apply att_mb_best; exact Hle|].
      intros x Hx. apply Qle_bool_true_R in E.
      pose proof (irange_sound cs lo hi x Hx) as [_ Hr]. lra.
    + destruct (mid_between_Q lo hi Hle) as [Hm1 Hm2].
      pose proof (Q2R_mid lo hi) as Hm.
      pose proof (att_mb_best cs lo hi best Hle) as Hb.
      set (mid := Qred ((lo + hi) / 2)) in *.
      set (best' := mb_best cs lo hi best) in *.
      destruct (max_bounds d cs lo mid best') as [b1 u1] eqn:E1.
      destruct (max_bounds d cs mid hi b1) as [b2 u2] eqn:E2.
      injection H as Hl Hu; subst l u.
      destruct (IH cs lo mid best' b1 u1 Hm1 E1) as [A1 B1].
      destruct (IH cs mid hi b1 b2 u2 Hm2 E2) as [A2 B2].
      split.
      * apply att_trans with best'; [exact Hb|].
        apply att_trans with b1.
        -- apply (att_widen cs lo mid lo hi); [apply Qle_refl | exact Hm2 | exact A1].
        -- apply (att_widen cs mid hi lo hi); [exact Hm1 | apply Qle_refl | exact A2].
      * intros x Hx.
        set (w := if Qle_bool u1 b2 then b2 else u1).
        assert (Hw : Q2R u1 <= Q2R w).
        { unfold w. destruct (Qle_bool u1 b2) eqn:E3.
          - apply Qle_bool_true_R. exact E3.
          - lra. }
        pose proof (Qmax'_r b2 (Qmax' w u2)) as K1.
        pose proof (Qmax'_l w u2) as K2.
        pose proof (Qmax'_r w u2) as K3.
        destruct (Rle_dec x (Q2R mid)) as [Hc | Hc].
        -- assert (reval cs x <= Q2R u1) by (apply B1; lra). lra.
        -- assert (reval cs x <= Q2R u2) by (apply B2; lra). lra.
Qed.

Lemma poly_max_sound : forall depth cs lo hi l u, (lo <= hi)%Q ->
  poly_max depth cs lo hi = (l, u) ->
  (exists x, (lo <= x)%Q /\ (x <= hi)%Q /\ (horner QOps cs x == l)%Q) /\
  (forall x, Q2R lo <= x <= Q2R hi -> reval cs x <= Q2R u).
Proof.
  intros depth cs lo hi l u Hle H. unfold poly_max in H.
  destruct (max_bounds_sound depth cs lo hi (qeval cs lo) l u Hle H) as [A B].
  split; [| exact B].
  destruct A as [A | A]; [| exact A].
  exists lo. split; [apply Qle_refl|]. split; [exact Hle|].
  apply Qeq_sym. apply Qeq_trans with (qeval cs lo); [exact A | apply qeval_eq].
Qed.

(** * Minimum: the maximum of the negated polynomial *)
Lemma reval_neg : forall cs x, reval (map (fun c => Qred (- c)) cs) x = - reval cs x.
Proof.
  induction cs as [|c r IH]; intros x.
  - rewrite !reval_nil. ring.
  - change (map (fun c => Qred (- c)) (c :: r)) with (Qred (- c) :: map (fun c => Qred (- c)) r).
    rewrite !reval_cons, IH, Q2R_Qred, Q2R_opp. ring.
Qed.

Lemma poly_min_sound : forall depth cs lo hi l u, (lo <= hi)%Q ->
  poly_min depth cs lo hi = (l, u) ->
  (exists x, (lo <= x)%Q /\ (x <= hi)%Q /\ (horner QOps cs x == u)%Q) /\
  (forall x, Q2R lo <= x <= Q2R hi -> Q2R l <= reval cs x).
Proof.
  intros depth cs lo hi l u Hle H. unfold poly_min in H.
  destruct (poly_max depth (map (fun c => Qred (- c)) cs) lo hi) as [l0 u0] eqn:E.
  change ((Qred (- u0), Qred (- l0)) = (l, u)) in H.
  apply pair_equal_spec in H. destruct H as [Hl Hu]. subst l u.
  destruct (poly_max_sound depth _ lo hi l0 u0 Hle E) as [(x & A & B & C) D].
  split.
  - exists x. split; [exact A|]. split; [exact B|].
    apply eqR_Qeq. rewrite Q2R_Qred, Q2R_opp.
    rewrite <- (Qeq_eqR _ _ C). rewrite <- !reval_Q, reval_neg. ring.
  - intros y Hy. rewrite Q2R_Qred, Q2R_opp.
    pose proof (D y Hy) as D'. rewrite reval_neg in D'. lra.
Qed.

(** * Closed forms for degree 1 and 2 *)
Lemma solve_linear_exact : forall a b y x, a <> 0 -> (a * x + b = y <-> x = (y - b) / a).
Proof.
  intros a b y x Ha. split; intros H.
  - subst y. field. exact Ha.
  - subst x. field. exact Ha.
Qed.

Lemma solve_quadratic_exact : forall a b c x, a <> 0 ->
  let d := b * b - 4 * a * c in
  (a * x * x + b * x + c = 0 <->
   (0 <= d /\ (x = (- b - sqrt d) / (2 * a) \/ x = (- b + sqrt d) / (2 * a)))).
Proof.
  intros a b c x Ha d. split.
  - intros H.
    assert (Hd : d = Rsqr (2 * a * x + b)).
    { unfold d, Rsqr.
      replace (b * b - 4 * a * c) with (b * b - 4 * a * c + 4 * a * (a * x * x + b * x + c))
        by (rewrite H; ring).
      ring. }
    split.
    + rewrite Hd. apply Rle_0_sqr.
    + rewrite Hd, sqrt_Rsqr_abs.
      unfold Rabs. destruct (Rcase_abs (2 * a * x + b)) as [Hneg | Hpos].
      * left. field. exact Ha.
      * right. field. exact Ha.
  - intros [Hd Hx].
    pose proof (sqrt_sqrt d Hd) as Hs.
    set (s := sqrt d) in *.
    assert (Hk : (2 * a * x + b) * (2 * a * x + b) = s * s).
    { destruct Hx as [Hx | Hx]; rewrite Hx; field; exact Ha. }
    assert (H4 : 4 * a * (a * x * x + b * x + c) = 0).
    { replace (4 * a * (a * x * x + b * x + c))
        with ((2 * a * x + b) * (2 * a * x + b) - (b * b - 4 * a * c)) by ring.
      rewrite Hk, Hs. unfold d. ring. }
    apply Rmult_integral in H4. destruct H4 as [H4 | H4]; [| exact H4].
    exfalso. apply Ha. lra.
Qed.

(** * Cauchy's bound *)
Lemma cauchy_real : forall (l : list R) cn M x, cn <> 0 -> 0 <= M ->
  (forall c, In c l -> Rabs c <= M) -> 1 + M / Rabs cn <= Rabs x ->
  Rabs cn <= Rabs (horner ROps (l ++ [cn]) x).
Proof.
  intros l cn M x Hcn HM. induction l as [|c l IH]; intros Hl Hx.
  - change (horner ROps ([] ++ [cn]) x) with (cn + x * 0).
    replace (cn + x * 0) with cn by ring. apply Rle_refl.
  - change (horner ROps ((c :: l) ++ [cn]) x) with (c + x * horner ROps (l ++ [cn]) x).
    set (h := horner ROps (l ++ [cn]) x) in *.
    assert (Hh : Rabs cn <= Rabs h).
    { apply IH; [| exact Hx]. intros c' Hc'. apply Hl. right. exact Hc'. }
    assert (Hc : Rabs c <= M) by (apply Hl; left; reflexivity).
    assert (Hpos : 0 < Rabs cn) by (apply Rabs_pos_lt; exact Hcn).
    pose proof (Rabs_triang (c + x * h) (- c)) as Ht.
    replace (c + x * h + - c) with (x * h) in Ht by ring.
    rewrite Rabs_Ropp, Rabs_mult in Ht.
    assert (Hprod : (1 + M / Rabs cn) * Rabs cn <= Rabs x * Rabs h).
    { apply Rmult_le_compat; try assumption.
      - apply Rplus_le_le_0_compat; [lra|]. apply Rmult_le_pos; [exact HM|].
        apply Rlt_le. apply Rinv_0_lt_compat. exact Hpos.
      - lra. }
    replace ((1 + M / Rabs cn) * Rabs cn) with (Rabs cn + M) in Hprod by (field; lra).
    lra.
Qed.

Lemma fold_max_abs : forall l a,
  Q2R a <= Q2R (fold_left (fun a c => Qmax' a (Qabs' c)) l a) /\
  (forall c, In c l -> Rabs (Q2R c) <= Q2R (fold_left (fun a c => Qmax' a (Qabs' c)) l a)).
Proof.
  induction l as [|c l IH]; intros a.
  - split; [apply Rle_refl | intros c []].
  - change (fold_left (fun a c => Qmax' a (Qabs' c)) (c :: l) a)
      with (fold_left (fun a c => Qmax' a (Qabs' c)) l (Qmax' a (Qabs' c))).
    destruct (IH (Qmax' a (Qabs' c))) as [A B].
    pose proof (Qmax'_l a (Qabs' c)) as K1.
    pose proof (Qmax'_r a (Qabs' c)) as K2. rewrite Q2R_Qabs' in K2.
    split; [lra|].
    intros c' [Hc' | Hc'].
    + subst c'. lra.
    + apply B. exact Hc'.
Qed.

Lemma cauchy_bound_sound : forall cs x, cs <> [] -> ~ (last cs 0 == 0)%Q ->
  reval cs x = 0 -> Rabs x <= Q2R (cauchy_bound cs).
Proof.
  intros cs x Hne Hlast Hroot. unfold cauchy_bound.
  destruct (rev cs) as [|lead rest] eqn:Erev.
  - exfalso. apply Hne. rewrite <- (rev_involutive cs), Erev. reflexivity.
  - assert (Hcs : cs = rev rest ++ [lead]).
    { rewrite <- (rev_involutive cs), Erev. reflexivity. }
    assert (Hl : last cs 0%Q = lead) by (rewrite Hcs; apply last_last).
    rewrite Hl in Hlast.
    destruct (Qeq_bool lead 0) eqn:Eb.
    + exfalso. apply Hlast. apply Qeq_bool_eq. exact Eb.
    + assert (Hlead : Q2R lead <> 0).
      { intros H0. apply Hlast. apply eqR_Qeq. rewrite H0, Q2R_0. reflexivity. }
      set (M := fold_left (fun a c => Qmax' a (Qabs' c)) rest 0%Q).
      rewrite Q2R_Qred, Q2R_plus, Q2R_div_total, Q2R_1, Q2R_Qabs'.
      destruct (fold_max_abs rest 0%Q) as [HM0 HMc]. fold M in HM0, HMc.
      rewrite Q2R_0 in HM0.
      destruct (Rle_dec (Rabs x) (1 + Q2R M / Rabs (Q2R lead))) as [Hc | Hc]; [exact Hc|].
      exfalso.
      assert (Hbig : Rabs (Q2R lead) <= Rabs (horner ROps (map Q2R (rev rest) ++ [Q2R lead]) x)).
      { apply (cauchy_real _ _ (Q2R M)); [exact Hlead | exact HM0 | | lra].
        intros c Hc'. apply in_map_iff in Hc'. destruct Hc' as (q & Hq & Hin). subst c.
        apply HMc. apply in_rev. exact Hin. }
      unfold reval in Hroot. rewrite Hcs, map_app in Hroot.
      change (map Q2R [lead]) with [Q2R lead] in Hroot.
      rewrite Hroot, Rabs_R0 in Hbig.
      pose proof (Rabs_pos_lt _ Hlead). lra.
Qed.

(** The statement of Props/Properties_C13.v as written (no [lo <= hi]) is refuted. *)
Lemma first_root_sound_unhyp_false :
  ~ (forall depth cs lo hi,
       match first_root depth cs lo hi with
       | NoRoot => forall x, Q2R lo <= x <= Q2R hi -> reval cs x <> 0
       | Maybe a b => (lo <= a)%Q /\ (a <= b)%Q /\ (b <= hi)%Q /\
                      forall x, Q2R lo <= x < Q2R a -> reval cs x <> 0
       end).
Proof.
  intros H. specialize (H O [] 1%Q 0%Q).
  destruct first_root_counterexample as [E N]. rewrite E in H.
  destruct H as (_ & H & _). exact (N H).
Qed.
