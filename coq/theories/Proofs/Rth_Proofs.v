(** Proofs for C11 (RTH plan evaluation).  Statements are used verbatim by
    Props/Properties_C11.v. *)
From SB Require Import Base.Prelude Gen.Generated Model.Codec Spec.CodecSpec Model.Rth Spec.RthSpec Proofs.Codec_Proofs.
From Coq Require Import QArith ZifyBool.
Local Open Scope Z_scope.

Ltac Zify.zify_post_hook ::= Z.div_mod_to_equations.

(* ------------------------------------------------------------------ *)
(** * Non-vacuity example *)
Example rth_example :
  let p := mksplan 10 [(100, -200); (5, 6)]
             [mksentry 0 3 1 30 (-5) 2 50 (Some 3) None;
              mksentry 15 0 0 0 0 0 20 None (Some 1);
              mksentry 300 0 0 0 0 0 30 None None;
              mksentry 10 1 0 0 0 0 0 None None] in
  wf_splan p = true /\
  match plan_init (encode_plan p) with
  | Ok pl => evaluate_at pl (TFin (20 # 1)) = eval_spec p (TFin (20 # 1)) /\
             evaluate_at pl (TFin (20 # 1)) = Ok (mkeval (Some 315) 3 30 (50, 60) 300 0 0 (-50) 2)
  | _ => False
  end.
Proof. vm_compute. repeat split; reflexivity. Qed.

(* ------------------------------------------------------------------ *)
(** * Integer -> binary32 conversion *)
Lemma f32_of_u32_exact_small : forall n, 0 <= n <= 16777216 -> f32_of_u32 n = n.
Proof.
  intros n Hn. unfold f32_of_u32.
  destruct (Z.ltb_spec n 16777216) as [Hlt|Hge]; [reflexivity|].
  assert (n = 16777216) as -> by lia. vm_compute. reflexivity.
Qed.

Definition rnd (h P q r : Z) : Z :=
  (if (h <? r) || ((h =? r) && Z.odd q) then q + 1 else q) * P.

Lemma f32_big n : 16777216 <= n ->
  exists q r, let k := Z.log2 n - 23 in let P := 2 ^ k in
    1 <= k /\ 0 < P /\ n = q * P + r /\ 0 <= r < P /\
    8388608 <= q < 16777216 /\ f32_of_u32 n = rnd (1 * 2 ^ (k - 1)) P q r.
Proof.
  intros Hn. unfold f32_of_u32.
  destruct (Z.ltb_spec n 16777216) as [Hlt|_]; [lia|]. cbv zeta.
  assert (HL : 24 <= Z.log2 n).
  { change 24 with (Z.log2 (2 ^ 24)). apply Z.log2_le_mono. change (2 ^ 24) with 16777216. lia. }
  pose proof (Z.log2_spec n ltac:(lia)) as Hs.
  set (k := Z.log2 n - 23) in *.
  assert (Hk : 1 <= k) by lia.
  replace (Z.log2 n) with (23 + k) in Hs by lia.
  replace (Z.succ (23 + k)) with (24 + k) in Hs by lia.
  rewrite !Z.pow_add_r in Hs by lia.
  change (2 ^ 23) with 8388608 in Hs. change (2 ^ 24) with 16777216 in Hs.
  rewrite Z.shiftr_div_pow2 by lia.
  rewrite !Z.shiftl_mul_pow2 by lia.
  assert (HP : 0 < 2 ^ k) by (apply Z.pow_pos_nonneg; lia).
  set (P := 2 ^ k) in *.
  exists (n / P), (n - n / P * P). cbv zeta. fold k. fold P.
  pose proof (Z.div_mod n P ltac:(lia)) as Hdm.
  pose proof (Z.mod_pos_bound n P HP) as Hmb.
  assert (Hr : n - n / P * P = n mod P) by lia.
  split; [exact Hk|]. split; [exact HP|]. split; [lia|]. split; [lia|].
  split; [|reflexivity].
  split.
  - apply Z.div_le_lower_bound; lia.
  - apply Z.div_lt_upper_bound; lia.
Qed.

Lemma rnd_bounds h P q r : 0 < P -> q * P <= rnd h P q r <= (q + 1) * P.
Proof.
  intros HP. unfold rnd. destruct (_ || _); nia.
Qed.

Lemma rnd_mono h P qa ra qb rb : 0 < P -> 0 <= ra < P -> 0 <= rb < P ->
  qa * P + ra <= qb * P + rb -> rnd h P qa ra <= rnd h P qb rb.
Proof.
  intros HP Hra Hrb Hle.
  assert (Hq : qa <= qb) by nia.
  destruct (Z.eq_dec qa qb) as [->|Hne].
  - assert (Hr : ra <= rb) by lia. unfold rnd.
    apply Z.mul_le_mono_nonneg_r; [lia|].
    destruct (Z.odd qb); destruct (Z.ltb_spec h ra); destruct (Z.ltb_spec h rb); destruct (Z.eqb_spec h ra); destruct (Z.eqb_spec h rb); cbn [orb andb]; lia.
  - pose proof (rnd_bounds h P qa ra HP) as Ba.
    pose proof (rnd_bounds h P qb rb HP) as Bb.
    assert ((qa + 1) * P <= qb * P) by (apply Z.mul_le_mono_nonneg_r; lia).
    lia.
Qed.

Lemma f32_of_u32_monotone : forall a b, 0 <= a <= b -> b < 4294967296 -> f32_of_u32 a <= f32_of_u32 b.
Proof.
  intros a b Hab _.
  destruct (Z.ltb_spec b 16777216) as [Hb|Hb].
  { rewrite !f32_of_u32_exact_small by lia. lia. }
  destruct (f32_big b Hb) as (qb & rb & Hkb & HPb & Eb & Hrb & Hqb & Fb).
  set (kb := Z.log2 b - 23) in *. set (Pb := 2 ^ kb) in *.
  pose proof (rnd_bounds (1 * 2 ^ (kb - 1)) Pb qb rb HPb) as Bb.
  destruct (Z.ltb_spec a 16777216) as [Ha|Ha].
  { rewrite (f32_of_u32_exact_small a) by lia. rewrite Fb.
    assert (H2 : 8388608 * Pb <= qb * Pb) by (apply Z.mul_le_mono_nonneg_r; lia).
    assert (2 <= Pb) by (subst Pb; change 2 with (2 ^ 1); apply Z.pow_le_mono_r; lia).
    lia. }
  destruct (f32_big a Ha) as (qa & ra & Hka & HPa & Ea & Hra & Hqa & Fa).
  set (ka := Z.log2 a - 23) in *. set (Pa := 2 ^ ka) in *.
  pose proof (rnd_bounds (1 * 2 ^ (ka - 1)) Pa qa ra HPa) as Ba.
  assert (Hk : ka <= kb).
  { subst ka kb. pose proof (Z.log2_le_mono a b ltac:(lia)). lia. }
  rewrite Fa, Fb.
  destruct (Z.eq_dec ka kb) as [Heq|Hne].
  - subst Pa Pb. rewrite Heq in *. apply rnd_mono; lia.
  - assert (HP : 2 * Pa <= Pb).
    { subst Pa Pb. rewrite <- Z.pow_succ_r by lia. apply Z.pow_le_mono_r; lia. }
    assert (H1 : (qa + 1) * Pa <= 16777216 * Pa) by (apply Z.mul_le_mono_nonneg_r; lia).
    assert (H2 : 8388608 * Pb <= qb * Pb) by (apply Z.mul_le_mono_nonneg_r; lia).
    lia.
Qed.

(* ------------------------------------------------------------------ *)
(** * Cursors *)
Definition cur (b : list Z) (off : nat) (rest : list Z) : Prop :=
  exists pre, b = pre ++ rest /\ length pre = off.

Lemma cur_rd b off x rest : cur b off (x :: rest) -> rd b off = Some x /\ cur b (S off) rest.
Proof.
  intros (pre & -> & <-). split.
  - unfold rd. rewrite nth_error_app2 by lia. rewrite Nat.sub_diag. reflexivity.
  - exists (pre ++ [x]). rewrite <- app_assoc. split; [reflexivity|].
    rewrite app_length. cbn [length]. lia.
Qed.

Lemma cur_skip b off X rest : cur b off (X ++ rest) -> cur b (off + length X) rest.
Proof.
  intros (pre & -> & <-). exists (pre ++ X). rewrite app_assoc, app_length. auto.
Qed.

Lemma cur_len b off rest : cur b off rest -> (off + length rest = length b)%nat.
Proof. intros (pre & -> & <-). rewrite app_length. reflexivity. Qed.

Lemma cur_window b off rest : cur b off rest ->
  firstn (length b - off) (skipn off b) = rest.
Proof.
  intros (pre & -> & <-). rewrite skipn_app, Nat.sub_diag, skipn_all. cbn [app skipn].
  rewrite app_length. replace (length pre + length rest - length pre)%nat with (length rest) by lia.
  apply firstn_all.
Qed.

Lemma cur_u16 b off v rest : 0 <= v < 65536 -> cur b off (enc_u16 v ++ rest) ->
  parse_u16 b off = Some (v, (off + 2)%nat) /\ cur b (off + 2) rest.
Proof.
  intros Hv C. pose proof (cur_skip _ _ _ _ C) as C2. cbn [enc_u16 length] in C2.
  unfold enc_u16 in C. cbn [app] in C.
  destruct (cur_rd _ _ _ _ C) as [R0 C1]. destruct (cur_rd _ _ _ _ C1) as [R1 _].
  unfold parse_u16. rewrite R0. replace (off + 1)%nat with (S off) by lia. rewrite R1.
  split; [|exact C2]. unfold le16. do 2 f_equal. lia.
Qed.

Lemma cur_i16 b off v rest : -32768 <= v < 32768 -> cur b off (enc_i16 v ++ rest) ->
  parse_i16 b off = Some (v, (off + 2)%nat) /\ cur b (off + 2) rest.
Proof.
  intros Hv C. unfold enc_i16 in C.
  destruct (cur_u16 b off (v mod 65536) rest ltac:(lia) C) as [E C2].
  unfold parse_i16. rewrite E. split; [|exact C2].
  unfold sx16. do 2 f_equal. destruct (Z.ltb_spec (v mod 65536) 32768); lia.
Qed.

(* ------------------------------------------------------------------ *)
(** * varuint encoder facts *)
Lemma enc_varuint_fuel_facts : forall fuel v post,
  0 <= v < 128 ^ (Z.of_nat fuel + 1) ->
  take_enc (enc_varuint_fuel fuel v ++ post) = Some (enc_varuint_fuel fuel v) /\
  value_of (enc_varuint_fuel fuel v) = v /\
  (length (enc_varuint_fuel fuel v) <= fuel + 1)%nat /\
  wf_bytes (enc_varuint_fuel fuel v) = true.
Proof.
  induction fuel as [|f IH]; intros v post Hv.
  - change (128 ^ (Z.of_nat 0 + 1)) with 128 in Hv.
    cbn [enc_varuint_fuel app take_enc value_of length wf_bytes forallb].
    destruct (Z.ltb_spec (v mod 128) 128); [|lia].
    repeat split; try lia. unfold wf_byte. lia.
  - rewrite Nat2Z.inj_succ in Hv.
    replace (Z.succ (Z.of_nat f) + 1) with (Z.succ (Z.of_nat f + 1)) in Hv by lia.
    rewrite Z.pow_succ_r in Hv by lia.
    cbn [enc_varuint_fuel].
    destruct (Z.ltb_spec v 128) as [Hlt|Hge].
    + cbn [app take_enc value_of length wf_bytes forallb].
      destruct (Z.ltb_spec v 128); [|lia].
      repeat split; try lia. unfold wf_byte. lia.
    + destruct (IH (v / 128) post ltac:(lia)) as (T & V & L & W).
      cbn [app take_enc value_of length wf_bytes forallb].
      destruct (Z.ltb_spec (128 + v mod 128) 128); [lia|].
      rewrite T, V. fold (wf_bytes (enc_varuint_fuel f (v / 128))). rewrite W.
      repeat split; try lia. unfold wf_byte. lia.
Qed.

Lemma enc_varuint_facts v post : 0 <= v < 4294967296 ->
  take_enc (enc_varuint v ++ post) = Some (enc_varuint v) /\
  value_of (enc_varuint v) = v /\ (length (enc_varuint v) <= 5)%nat /\
  wf_bytes (enc_varuint v) = true.
Proof.
  intros Hv. apply (enc_varuint_fuel_facts 4 v post).
  change (128 ^ (Z.of_nat 4 + 1)) with 34359738368. lia.
Qed.

Lemma cur_varuint b off v rest : wf_bytes b = true -> 0 <= v < 4294967296 ->
  cur b off (enc_varuint v ++ rest) ->
  parse_varuint32 b (length b) off = VuOk v (off + length (enc_varuint v)) /\
  cur b (off + length (enc_varuint v)) rest.
Proof.
  intros Hwf Hv C. split; [|apply cur_skip; exact C].
  rewrite varuint_spec_holds by (auto; lia).
  unfold varuint_spec. cbv zeta. rewrite (cur_window _ _ _ C).
  destruct (enc_varuint_facts v rest Hv) as (T & V & L & _).
  rewrite T, V.
  destruct (Nat.leb_spec (length (enc_varuint v)) 5); [|lia].
  destruct (Z.ltb_spec v 4294967296); [|lia]. reflexivity.
Qed.

(* ------------------------------------------------------------------ *)
(** * Plan-level parsers at a cursor *)
Section Parsers.
Variable pl : plan.
Hypothesis Hwf : wf_bytes (pl_bytes pl) = true.

Lemma varuint_cur off v rest : 0 <= v < 4294967296 ->
  cur (pl_bytes pl) off (enc_varuint v ++ rest) ->
  varuint pl off = Ok (v, (off + length (enc_varuint v))%nat) /\
  cur (pl_bytes pl) (off + length (enc_varuint v)) rest.
Proof.
  intros Hv C. destruct (cur_varuint _ _ _ _ Hwf Hv C) as [E C'].
  split; [|exact C']. unfold varuint. rewrite E. reflexivity.
Qed.

Lemma duration_cur off v rest : 0 <= v < 4294967296 ->
  cur (pl_bytes pl) off (enc_varuint v ++ rest) ->
  parse_duration pl off =
    (if too_long v then Err SB_EOVERFLOW else Ok (v, (off + length (enc_varuint v))%nat)) /\
  cur (pl_bytes pl) (off + length (enc_varuint v)) rest.
Proof.
  intros Hv C. destruct (varuint_cur off v rest Hv C) as (E & C').
  split; [|exact C']. unfold parse_duration. rewrite E. reflexivity.
Qed.

Lemma coord_cur off v rest : -32768 <= v < 32768 ->
  cur (pl_bytes pl) off (enc_i16 v ++ rest) ->
  parse_coord pl off = Ok (v * pl_scale pl, (off + 2)%nat) /\ cur (pl_bytes pl) (off + 2) rest.
Proof.
  intros Hv C. destruct (cur_i16 _ _ _ _ Hv C) as [E C']. split; [|exact C'].
  unfold parse_coord. pose proof (cur_len _ _ _ C) as L.
  rewrite app_length in L. cbn [enc_i16 enc_u16 length] in L.
  destruct (Nat.ltb_spec (length (pl_bytes pl)) (off + 2)); [lia|].
  rewrite E. reflexivity.
Qed.
End Parsers.

(* ------------------------------------------------------------------ *)
(** * Flags *)
Definition flags_of (code : Z) (o1 o2 : option Z) : Z :=
  16 * code + (match o1 with Some _ => 2 | None => 0 end)
            + (match o2 with Some _ => 1 | None => 0 end).

Lemma flags_decode code o1 o2 : 0 <= code <= 3 ->
  Z.land (Z.shiftr (flags_of code o1 o2) 4) 3 = code /\
  (Z.land (flags_of code o1 o2) 2 =? 0) = (match o1 with Some _ => false | None => true end) /\
  (Z.land (flags_of code o1 o2) 1 =? 0) = (match o2 with Some _ => false | None => true end) /\
  0 <= flags_of code o1 o2 < 256.
Proof.
  intros Hc. assert (H : code = 0 \/ code = 1 \/ code = 2 \/ code = 3) by lia.
  destruct H as [-> | [-> | [-> | ->]]]; destruct o1, o2; vm_compute; intuition congruence.
Qed.

Lemma wf_sentry_inv e : wf_sentry e = true ->
  0 <= se_dt e < 4294967296 /\ 0 <= se_code e <= 3 /\ 0 <= se_point e < 4294967296 /\
  -32768 <= se_alt e < 32768 /\ -32768 <= se_neck e < 32768 /\
  0 <= se_neck_dur e < 4294967296 /\ 0 <= se_dur e < 4294967296 /\
  (match se_pre e with Some v => 0 <= v < 4294967296 | None => True end) /\
  (match se_post e with Some v => 0 <= v < 4294967296 | None => True end).
Proof.
  unfold wf_sentry, u32, i16, opt_ok. intros H.
  repeat (apply andb_prop in H; let H' := fresh "H" in destruct H as [H H']).
  repeat split; try lia.
  - destruct (se_pre e); [unfold u32 in *; lia|exact I].
  - destruct (se_post e); [unfold u32 in *; lia|exact I].
Qed.

(* ------------------------------------------------------------------ *)
(** * One loop iteration *)
Definition st_matches (st : scan) (c : carried) : Prop :=
  e_action (s_entry st) = c_action c /\ s_point st = c_point c /\
  e_altitude (s_entry st) = c_alt c /\ e_neck (s_entry st) = c_neck c /\
  e_neck_duration (s_entry st) = c_neck_dur c.

Definition entry_of (cum' : Z) (c' : carried) (e : sentry) : entry :=
  mkentry (Some cum') (c_action c')
    (if has_duration (c_action c') then se_dur e else 0) (c_alt c')
    (match se_pre e with Some v => v | None => 0 end)
    (match se_post e with Some v => v | None => 0 end)
    (c_neck c') (c_neck_dur c').

Ltac step_var Hwf C :=
  match type of C with
  | cur _ ?off (enc_varuint ?v ++ ?rest) =>
    let E := fresh "E" in let C' := fresh "C" in
    destruct (varuint_cur _ Hwf off v rest ltac:(lia) C) as [E C'];
    rewrite E; clear E C; cbn [bind]; rename C' into C
  end.
Ltac step_dur Hwf C :=
  match type of C with
  | cur _ ?off (enc_varuint ?v ++ ?rest) =>
    let E := fresh "E" in let C' := fresh "C" in let T := fresh "T" in
    destruct (duration_cur _ Hwf off v rest ltac:(lia) C) as [E C'];
    rewrite E; clear E C; rename C' into C;
    destruct (too_long v) eqn:T; cbn [bind orb andb negb]; [reflexivity|]
  end.
Ltac step_coord Hwf C :=
  match type of C with
  | cur _ ?off (enc_i16 ?v ++ ?rest) =>
    let E := fresh "E" in let C' := fresh "C" in
    destruct (coord_cur _ off v rest ltac:(lia) C) as [E C'];
    rewrite E; clear E C; cbn [bind]; rename C' into C
  end.

Ltac prep C :=
  cbn [enc_opt app] in C; rewrite <- ?app_assoc in C; cbn [app] in C;
  cbn [c_action c_point c_alt c_neck c_neck_dur bind negb andb orb].
Ltac fin_off :=
  cbn [enc_opt app bind]; try reflexivity; f_equal; f_equal;
  rewrite ?app_length; cbn [length enc_i16 enc_u16]; rewrite ?app_length; cbn [length enc_i16 enc_u16]; lia.

Ltac hs n t a :=
  change (has_target n) with t in *; change (has_altitude n) with a in *;
  change (has_neck n) with a in *; cbn iota in *.

Lemma scan_entry_enc pl c e tail st :
  wf_bytes (pl_bytes pl) = true -> wf_sentry e = true ->
  st_matches st c ->
  cur (pl_bytes pl) (s_off st) (enc_entry (c_action c) e ++ tail) ->
  scan_entry pl st =
  if 4294967296 <=? s_time st + se_dt e then Err SB_EOVERFLOW else
  let c' := carry (pl_scale pl) c e in
  if entry_overflows c' e then Err SB_EOVERFLOW else
  Ok (mkscan (s_off st + length (enc_entry (c_action c) e)) (s_time st + se_dt e)
             (entry_of (s_time st + se_dt e) c' e) (c_point c')).
Proof.
  intros Hwf Hwe Hm Hcur.
  destruct (wf_sentry_inv e Hwe) as (Hdt & Hcode & Hpt & Halt & Hneck & Hnd & Hdur & Hpre & Hpost).
  destruct st as [off cum ent pt]. destruct ent as [etime eact edur ealt epre epost eneck eneckd].
  destruct c as [ca cp calt cneck cnd]. unfold st_matches in Hm.
  cbn [s_entry s_point e_action e_altitude e_neck e_neck_duration c_action c_point c_alt c_neck c_neck_dur] in Hm.
  destruct Hm as (-> & -> & -> & -> & ->).
  destruct e as [dt code ept alt neck nd dur opre opost].
  cbn [s_off s_time c_action se_dt se_code se_point se_alt se_neck se_neck_dur se_dur se_pre se_post] in *.
  unfold enc_entry in *. cbv zeta in *.
  cbn [se_dt se_code se_point se_alt se_neck se_neck_dur se_dur se_pre se_post] in *.
  fold (flags_of code opre opost) in *.
  destruct (flags_decode code opre opost Hcode) as (Fc & Fpre & Fpost & _).
  cbn [app] in Hcur. destruct (cur_rd _ _ _ _ Hcur) as [Rf C]. clear Hcur.
  unfold scan_entry. cbn [s_off s_time s_entry s_point e_action e_altitude e_neck e_neck_duration].
  rewrite Rf. clear Rf. rewrite Fc, Fpre, Fpost. clear Fc Fpre Fpost.
  rewrite <- app_assoc in C. step_var Hwf C.
  rewrite (Z.add_comm dt cum).
  destruct (4294967296 <=? cum + dt); [reflexivity|].
  cbv zeta. unfold entry_of, entry_overflows, carry, resolve in *. unfold has_duration in *.
  cbn [c_action c_point c_alt c_neck c_neck_dur se_dt se_code se_point se_alt se_neck se_neck_dur se_dur se_pre se_post] in *.
  assert (Hc : code = 0 \/ code = 1 \/ code = 2 \/ code = 3) by lia.
  destruct Hc as [-> | [-> | [-> | ->]]].
  - change (0 =? 0) with true in *. cbn iota in *. prep C.
    destruct (has_target ca) eqn:Ht; destruct opre as [vpre|]; destruct opost as [vpost|];
      prep C; repeat step_dur Hwf C; fin_off.
  - change (1 =? 0) with false in *. cbn iota in *.
    prep C. hs 1 false false. prep C.
    destruct opre as [vpre|]; destruct opost as [vpost|];
      prep C; repeat step_dur Hwf C; fin_off.
  - change (2 =? 0) with false in *. cbn iota in *.
    prep C. hs 2 true false. prep C.
    destruct opre as [vpre|]; destruct opost as [vpost|];
      prep C; step_var Hwf C; repeat step_dur Hwf C; fin_off.
  - change (3 =? 0) with false in *. cbn iota in *.
    prep C. hs 3 true true. prep C.
    destruct opre as [vpre|]; destruct opost as [vpost|];
      prep C; step_var Hwf C; step_coord Hwf C; step_coord Hwf C; repeat step_dur Hwf C; fin_off.
Qed.

(* ------------------------------------------------------------------ *)
(** * The loop *)
Definition finish (pl : plan) (st : scan) : res eval_result :=
  let e := s_entry st in
  tgt <- (if has_target (e_action e) then get_point pl (s_point st) else Ok (0, 0)) ;;
  Ok (mkeval (match e_time e with
              | Some ts => Some (f32_of_u32 ts)
              | None => None
              end)
             (e_action e) (e_duration e) tgt (e_altitude e)
             (e_pre_delay e) (e_post_delay e) (e_neck e) (e_neck_duration e)).

Definition st0_of (pl : plan) : scan := mkscan (offset_of_entry_table pl + 2) 0 entry0 0.

Lemma evaluate_at_finish pl t :
  evaluate_at pl t =
  bind (if time_neg t then Ok (st0_of pl) else scan_loop (num_entries pl) pl t (st0_of pl)) (finish pl).
Proof. reflexivity. Qed.

Lemma carry_action scale c e : c_action (carry scale c e) = resolve (c_action c) (se_code e).
Proof. unfold carry, resolve. destruct (se_code e =? 0); reflexivity. Qed.

Lemma carry_point scale c e : wf_sentry e = true -> 0 <= c_point c -> 0 <= c_point (carry scale c e).
Proof.
  intros Hwe Hc. destruct (wf_sentry_inv e Hwe) as (_ & _ & Hpt & _).
  unfold carry. destruct (se_code e =? 0); [exact Hc|]. cbn [c_point].
  destruct (has_target (se_code e)); lia.
Qed.

Section Loop.
Variables (pl : plan) (p : splan) (t : ftime).
Hypothesis Hwf : wf_bytes (pl_bytes pl) = true.
Hypothesis Hscale : pl_scale pl = sp_scale p.
Hypothesis Hgp : forall i, 0 <= i -> get_point pl i = point_of p i.

Lemma finish_result off cum' c' e : 0 <= c_point c' ->
  finish pl (mkscan off cum' (entry_of cum' c' e) (c_point c')) = result_of p cum' c' e.
Proof.
  intros Hc. unfold finish, result_of, entry_of. cbv zeta.
  cbn [s_entry s_point e_time e_action e_duration e_altitude e_pre_delay e_post_delay e_neck e_neck_duration].
  rewrite (Hgp _ Hc). reflexivity.
Qed.

Lemma scan_loop_enc : forall es c st,
  es <> [] -> forallb wf_sentry es = true ->
  st_matches st c -> 0 <= c_point c ->
  cur (pl_bytes pl) (s_off st) (enc_entries (c_action c) es) ->
  bind (scan_loop (length es) pl t st) (finish pl) = eval_entries p t (s_time st) c es.
Proof.
  induction es as [|e rest IH]; intros c st Hne Hall Hm Hcp Hcur; [congruence|].
  cbn [forallb] in Hall. apply andb_prop in Hall. destruct Hall as [Hwe Hrest].
  cbn [enc_entries] in Hcur.
  cbn [length scan_loop eval_entries].
  rewrite (scan_entry_enc pl c e _ st Hwf Hwe Hm Hcur). rewrite Hscale.
  destruct (4294967296 <=? s_time st + se_dt e); [reflexivity|].
  cbv zeta.
  destruct (entry_overflows (carry (sp_scale p) c e) e); [reflexivity|].
  cbn [bind s_time].
  pose proof (carry_point (sp_scale p) c e Hwe Hcp) as Hcp'.
  destruct (time_reached (s_time st + se_dt e) t).
  { cbn [bind]. apply finish_result. exact Hcp'. }
  destruct rest as [|e2 rest'].
  { cbn [length scan_loop bind]. apply finish_result. exact Hcp'. }
  apply IH.
  - discriminate.
  - exact Hrest.
  - unfold st_matches, entry_of. cbn [s_entry s_point e_action e_altitude e_neck e_neck_duration].
    repeat split; reflexivity.
  - exact Hcp'.
  - cbn [s_off]. rewrite carry_action. apply cur_skip. exact Hcur.
Qed.
End Loop.

(* ------------------------------------------------------------------ *)
(** * The encoded plan: bytes are well-formed *)
Lemma wf_bytes_app a b : wf_bytes (a ++ b) = wf_bytes a && wf_bytes b.
Proof. apply forallb_app. Qed.

Lemma wf_enc_u16 v : 0 <= v < 65536 -> wf_bytes (enc_u16 v) = true.
Proof. intros Hv. cbn [enc_u16 wf_bytes forallb]. unfold wf_byte. lia. Qed.

Lemma wf_enc_i16 v : wf_bytes (enc_i16 v) = true.
Proof. apply wf_enc_u16. lia. Qed.

Lemma wf_enc_varuint v : 0 <= v < 4294967296 -> wf_bytes (enc_varuint v) = true.
Proof. intros Hv. apply (enc_varuint_facts v [] Hv). Qed.

Lemma wf_enc_entry prev e : wf_sentry e = true -> wf_bytes (enc_entry prev e) = true.
Proof.
  intros Hwe.
  destruct (wf_sentry_inv e Hwe) as (Hdt & Hcode & Hpt & Halt & Hneck & Hnd & Hdur & Hpre & Hpost).
  unfold enc_entry. cbv zeta.
  fold (flags_of (se_code e) (se_pre e) (se_post e)).
  destruct (flags_decode (se_code e) (se_pre e) (se_post e) Hcode) as (_ & _ & _ & Hf).
  assert (Wpre : wf_bytes (enc_opt (se_pre e)) = true).
  { destruct (se_pre e); [apply wf_enc_varuint; exact Hpre|reflexivity]. }
  assert (Wpost : wf_bytes (enc_opt (se_post e)) = true).
  { destruct (se_post e); [apply wf_enc_varuint; exact Hpost|reflexivity]. }
  rewrite !wf_bytes_app, Wpre, Wpost, (wf_enc_varuint _ Hdt).
  assert (W0 : wf_bytes [flags_of (se_code e) (se_pre e) (se_post e)] = true).
  { cbn [wf_bytes forallb]. unfold wf_byte. lia. }
  rewrite W0. cbn [andb]. rewrite !andb_true_r.
  apply andb_true_intro. split.
  - destruct (se_code e =? 0); [reflexivity|]. rewrite !wf_bytes_app.
    destruct (has_target _); destruct (has_altitude _); destruct (has_neck _);
      rewrite ?wf_bytes_app, ?wf_enc_i16, ?(wf_enc_varuint _ Hpt), ?(wf_enc_varuint _ Hnd);
      reflexivity.
  - destruct (has_duration _); [apply wf_enc_varuint; exact Hdur|reflexivity].
Qed.

Lemma wf_enc_entries : forall es prev, forallb wf_sentry es = true ->
  wf_bytes (enc_entries prev es) = true.
Proof.
  induction es as [|e rest IH]; intros prev Hall; [reflexivity|].
  cbn [forallb] in Hall. apply andb_prop in Hall. destruct Hall as [Hwe Hrest].
  cbn [enc_entries]. rewrite wf_bytes_app, (wf_enc_entry _ _ Hwe), (IH _ Hrest). reflexivity.
Qed.

Definition enc_points (pts : list (Z * Z)) : list Z :=
  flat_map (fun xy => enc_i16 (fst xy) ++ enc_i16 (snd xy)) pts.

Lemma wf_enc_points pts : wf_bytes (enc_points pts) = true.
Proof.
  induction pts as [|xy rest IH]; [reflexivity|].
  unfold enc_points in *. cbn [flat_map]. rewrite !wf_bytes_app, !wf_enc_i16, IH. reflexivity.
Qed.

Lemma length_enc_points pts : length (enc_points pts) = (4 * length pts)%nat.
Proof.
  induction pts as [|xy rest IH]; [reflexivity|].
  unfold enc_points in *. cbn [flat_map]. rewrite !app_length, IH.
  cbn [enc_i16 enc_u16 length]. lia.
Qed.

Lemma wf_splan_inv p : wf_splan p = true ->
  0 <= sp_scale p < 128 /\ Z.of_nat (length (sp_points p)) < 65536 /\
  Z.of_nat (length (sp_entries p)) < 65536 /\
  forallb (fun xy => i16 (fst xy) && i16 (snd xy)) (sp_points p) = true /\
  forallb wf_sentry (sp_entries p) = true.
Proof.
  unfold wf_splan. intros H.
  repeat (apply andb_prop in H; let H' := fresh "H" in destruct H as [H H']).
  repeat split; try assumption; lia.
Qed.

Lemma encode_plan_eq p :
  encode_plan p =
  sp_scale p :: (Z.of_nat (length (sp_points p)) mod 256) :: (Z.of_nat (length (sp_points p)) / 256)
  :: enc_points (sp_points p) ++ enc_u16 (Z.of_nat (length (sp_entries p)))
     ++ enc_entries SB_RTH_ACTION_LAND (sp_entries p).
Proof. reflexivity. Qed.

Lemma wf_encode_plan p : wf_splan p = true -> wf_bytes (encode_plan p) = true.
Proof.
  intros Hp. destruct (wf_splan_inv p Hp) as (Hs & Hn & Hm & Hpts & Hes).
  unfold encode_plan. fold (enc_points (sp_points p)).
  rewrite !wf_bytes_app, wf_enc_points, (wf_enc_entries _ _ Hes), !wf_enc_u16 by lia.
  cbn [wf_bytes forallb]. unfold wf_byte. lia.
Qed.

Definition plan_of (p : splan) : plan :=
  mkplan (encode_plan p) (sp_scale p) (length (sp_points p)).

Lemma plan_init_enc p : wf_splan p = true -> plan_init (encode_plan p) = Ok (plan_of p).
Proof.
  intros Hp. destruct (wf_splan_inv p Hp) as (Hs & Hn & Hm & Hpts & Hes).
  unfold plan_of. rewrite encode_plan_eq at 1. unfold plan_init.
  rewrite <- encode_plan_eq. f_equal. f_equal.
  - change 127 with (Z.ones 7). rewrite Z.land_ones by lia. apply Z.mod_small. lia.
  - unfold le16. rewrite <- (Nat2Z.id (length (sp_points p))) at 3. f_equal. lia.
Qed.

Lemma cur_entry_table p :
  cur (encode_plan p) (3 + 4 * length (sp_points p))
      (enc_u16 (Z.of_nat (length (sp_entries p))) ++ enc_entries SB_RTH_ACTION_LAND (sp_entries p)).
Proof.
  exists ([sp_scale p] ++ enc_u16 (Z.of_nat (length (sp_points p))) ++ enc_points (sp_points p)).
  split.
  - unfold encode_plan. fold (enc_points (sp_points p)). rewrite <- !app_assoc. reflexivity.
  - rewrite !app_length, length_enc_points. cbn [enc_u16 length]. lia.
Qed.

Lemma num_entries_enc p : wf_splan p = true -> num_entries (plan_of p) = length (sp_entries p).
Proof.
  intros Hp. destruct (wf_splan_inv p Hp) as (Hs & Hn & Hm & Hpts & Hes).
  pose proof (cur_entry_table p) as C.
  destruct (cur_u16 _ _ (Z.of_nat (length (sp_entries p))) _ ltac:(lia) C) as [E _].
  pose proof (cur_len _ _ _ C) as L. rewrite app_length in L. cbn [enc_u16 length] in L.
  unfold num_entries, offset_of_entry_table, offset_of_point, rth_header_length.
  cbn [plan_of pl_bytes pl_num_points].
  destruct (Nat.leb_spec (3 + 4 * length (sp_points p) + 2) (length (encode_plan p))); [|lia].
  rewrite E. apply Nat2Z.id.
Qed.

Lemma cur_point p i x y : nth_error (sp_points p) i = Some (x, y) ->
  exists rest, cur (encode_plan p) (3 + 4 * i) (enc_i16 x ++ enc_i16 y ++ rest).
Proof.
  intros Hn. destruct (nth_error_split _ _ Hn) as (l1 & l2 & Hl & Hlen).
  exists (enc_points l2 ++ enc_u16 (Z.of_nat (length (sp_entries p)))
          ++ enc_entries SB_RTH_ACTION_LAND (sp_entries p)).
  exists ([sp_scale p] ++ enc_u16 (Z.of_nat (length (sp_points p))) ++ enc_points l1).
  split.
  - unfold encode_plan. fold (enc_points (sp_points p)). rewrite Hl at 2.
    unfold enc_points. rewrite flat_map_app. cbn [flat_map fst snd].
    rewrite <- !app_assoc. reflexivity.
  - rewrite !app_length, length_enc_points, Hlen. cbn [enc_u16 length]. lia.
Qed.

Lemma get_point_enc p : wf_splan p = true ->
  forall i, 0 <= i -> get_point (plan_of p) i = point_of p i.
Proof.
  intros Hp i Hi. destruct (wf_splan_inv p Hp) as (Hs & Hn & Hm & Hpts & Hes).
  unfold get_point, point_of. cbn [plan_of pl_num_points].
  destruct (Z.leb_spec (Z.of_nat (length (sp_points p))) i) as [Hge|Hlt]; [reflexivity|].
  destruct (nth_error (sp_points p) (Z.to_nat i)) as [[x y]|] eqn:En.
  2:{ apply nth_error_None in En. lia. }
  destruct (cur_point p _ x y En) as (rest & C).
  rewrite forallb_forall in Hpts. pose proof (Hpts _ (nth_error_In _ _ En)) as Hxy.
  cbn [fst snd] in Hxy. unfold i16 in Hxy.
  unfold offset_of_point, rth_header_length.
  pose proof (cur_len _ _ _ C) as L. rewrite !app_length in L. cbn [enc_i16 enc_u16 length] in L.
  fold (plan_of p).
  change (pl_bytes (plan_of p)) with (encode_plan p).
  destruct (Nat.ltb_spec (length (encode_plan p)) (3 + 4 * Z.to_nat i + 4)); [lia|].
  destruct (coord_cur (plan_of p) _ x _ ltac:(lia) C) as [E1 C1]. rewrite E1. cbn [bind].
  destruct (coord_cur (plan_of p) _ y _ ltac:(lia) C1) as [E2 _]. rewrite E2. cbn [bind].
  reflexivity.
Qed.

(* ------------------------------------------------------------------ *)
(** * C11 statements *)
Lemma evaluate_encode : forall p t pl, wf_splan p = true ->
  plan_init (encode_plan p) = Ok pl ->
  evaluate_at pl t = eval_spec p t.
Proof.
  intros p t pl Hp Hinit. rewrite (plan_init_enc p Hp) in Hinit. injection Hinit as <-.
  destruct (wf_splan_inv p Hp) as (Hs & Hn & Hm & Hpts & Hes).
  rewrite evaluate_at_finish. unfold eval_spec.
  destruct (time_neg t); [reflexivity|].
  rewrite (num_entries_enc p Hp).
  destruct (sp_entries p) as [|e es] eqn:Ees; [reflexivity|].
  rewrite <- Ees.
  apply (scan_loop_enc (plan_of p) p t (wf_encode_plan p Hp) eq_refl (get_point_enc p Hp)
           (sp_entries p) carried0 (st0_of (plan_of p))).
  - rewrite Ees. discriminate.
  - rewrite Ees. exact Hes.
  - repeat split; reflexivity.
  - cbn [carried0 c_point]. lia.
  - exact (cur_skip _ _ _ _ (cur_entry_table p)).
Qed.

Lemma init_encode : forall p, wf_splan p = true ->
  exists pl, plan_init (encode_plan p) = Ok pl /\
    pl_scale pl = sp_scale p /\ pl_num_points pl = length (sp_points p) /\
    num_entries pl = length (sp_entries p) /\
    forall i, get_point pl i = (if i <? 0 then get_point pl i else point_of p i).
Proof.
  intros p Hp. exists (plan_of p).
  split; [apply plan_init_enc; exact Hp|].
  split; [reflexivity|]. split; [reflexivity|].
  split; [apply num_entries_enc; exact Hp|].
  intros i. destruct (Z.ltb_spec i 0); [reflexivity|].
  apply get_point_enc; [exact Hp|lia].
Qed.

Definition good_c (c : carried) : Prop :=
  (c_action c = 1 \/ c_action c = 2 \/ c_action c = 3) /\ 0 <= c_neck_dur c <= RTH_MAX_DURATION.

Definition good_r (r : eval_result) : Prop :=
  (r_action r = 1 \/ r_action r = 2 \/ r_action r = 3) /\
  (match r_time r with
   | Some ts => exists cum, 0 <= cum < 4294967296 /\ ts = f32_of_u32 cum
   | None => True
   end) /\
  0 <= r_duration r <= RTH_MAX_DURATION /\ 0 <= r_pre_delay r <= RTH_MAX_DURATION /\
  0 <= r_post_delay r <= RTH_MAX_DURATION /\ 0 <= r_neck_duration r <= RTH_MAX_DURATION.

Lemma overflow_split c' e : entry_overflows c' e = false ->
  (negb (se_code e =? 0) && has_neck (c_action c') && too_long (se_neck_dur e) = false) /\
  (has_duration (c_action c') && too_long (se_dur e) = false) /\
  (match se_pre e with Some v => too_long v | None => false end = false) /\
  (match se_post e with Some v => too_long v | None => false end = false).
Proof.
  unfold entry_overflows. intros H.
  apply orb_false_elim in H. destruct H as [H H4].
  apply orb_false_elim in H. destruct H as [H H3].
  apply orb_false_elim in H. destruct H as [H1 H2]. auto.
Qed.

Lemma carry_good scale c e : wf_sentry e = true -> good_c c ->
  entry_overflows (carry scale c e) e = false -> good_c (carry scale c e).
Proof.
  intros Hwe [Ha Hn] EO.
  destruct (wf_sentry_inv e Hwe) as (Hdt & Hcode & Hpt & Halt & Hneck & Hnd & Hdur & Hpre & Hpost).
  apply overflow_split in EO. destruct EO as (E1 & _). revert E1.
  unfold carry. destruct (Z.eqb_spec (se_code e) 0) as [Hz|Hnz]; [intros _; split; assumption|].
  cbn [c_action c_neck_dur negb andb]. intros E1. unfold good_c. cbn [c_action c_neck_dur].
  split; [lia|].
  destruct (has_neck (se_code e)); [|unfold RTH_MAX_DURATION; lia].
  cbn [andb] in E1. unfold too_long in E1. lia.
Qed.

Lemma result_of_good p cum' c' e r : wf_sentry e = true -> good_c c' ->
  entry_overflows c' e = false -> 0 <= cum' < 4294967296 ->
  result_of p cum' c' e = Ok r -> good_r r.
Proof.
  intros Hwe [Ha Hn] EO Hcum Hr.
  destruct (wf_sentry_inv e Hwe) as (Hdt & Hcode & Hpt & Halt & Hneck & Hnd & Hdur & Hpre & Hpost).
  apply overflow_split in EO. destruct EO as (_ & E2 & E3 & E4).
  unfold result_of in Hr.
  destruct (if has_target (c_action c') then point_of p (c_point c') else Ok (0, 0)) as [tgt| | |];
    cbn [bind] in Hr; try discriminate.
  injection Hr as <-. unfold good_r.
  cbn [r_action r_time r_duration r_pre_delay r_post_delay r_neck_duration].
  unfold too_long in *.
  split; [exact Ha|]. split; [exists cum'; split; [exact Hcum|reflexivity]|].
  split.
  { destruct (has_duration (c_action c')); [cbn [andb] in E2|]; unfold RTH_MAX_DURATION in *; lia. }
  split.
  { destruct (se_pre e); unfold RTH_MAX_DURATION in *; lia. }
  split.
  { destruct (se_post e); unfold RTH_MAX_DURATION in *; lia. }
  exact Hn.
Qed.

Lemma eval_entries_good p t : forall es cum c r,
  forallb wf_sentry es = true -> 0 <= cum -> good_c c ->
  eval_entries p t cum c es = Ok r -> good_r r.
Proof.
  induction es as [|e rest IH]; intros cum c r Hall Hcum Hc Hr; [discriminate|].
  cbn [forallb] in Hall. apply andb_prop in Hall. destruct Hall as [Hwe Hrest].
  pose proof (wf_sentry_inv e Hwe) as (Hdt & _).
  cbn [eval_entries] in Hr.
  destruct (Z.leb_spec 4294967296 (cum + se_dt e)) as [|Hlt]; [discriminate|].
  cbv zeta in Hr.
  destruct (entry_overflows (carry (sp_scale p) c e) e) eqn:EO; [discriminate|].
  pose proof (carry_good _ _ _ Hwe Hc EO) as Hc'.
  assert (Hcum' : 0 <= cum + se_dt e < 4294967296) by lia.
  destruct (time_reached (cum + se_dt e) t).
  { apply (result_of_good p _ _ e r Hwe Hc' EO Hcum' Hr). }
  destruct rest as [|e2 rest'].
  { apply (result_of_good p _ _ e r Hwe Hc' EO Hcum' Hr). }
  apply (IH (cum + se_dt e) _ r Hrest ltac:(lia) Hc' Hr).
Qed.

Lemma eval_spec_good p t r : wf_splan p = true -> eval_spec p t = Ok r -> good_r r.
Proof.
  intros Hp Hr. destruct (wf_splan_inv p Hp) as (Hs & Hn & Hm & Hpts & Hes).
  assert (Himm : good_r immediate_landing).
  { unfold good_r, immediate_landing, RTH_MAX_DURATION.
    cbn [r_action r_time r_duration r_pre_delay r_post_delay r_neck_duration].
    unfold SB_RTH_ACTION_LAND. repeat split; auto; lia. }
  unfold eval_spec in Hr.
  destruct (time_neg t). { injection Hr as <-. exact Himm. }
  destruct (sp_entries p) as [|e es] eqn:Ees. { injection Hr as <-. exact Himm. }
  apply (eval_entries_good p t _ 0 carried0 r Hes ltac:(lia)); [|exact Hr].
  unfold good_c, carried0, RTH_MAX_DURATION, SB_RTH_ACTION_LAND. cbn [c_action c_neck_dur].
  split; [auto|lia].
Qed.

Lemma never_same_as_previous : forall p t r, wf_splan p = true ->
  eval_spec p t = Ok r -> r_action r = 1 \/ r_action r = 2 \/ r_action r = 3.
Proof. intros p t r Hp Hr. apply (eval_spec_good p t r Hp Hr). Qed.

Lemma overflow_never_wraps : forall p t r, wf_splan p = true ->
  eval_spec p t = Ok r ->
  (match r_time r with
   | Some ts => exists cum, 0 <= cum < 4294967296 /\ ts = f32_of_u32 cum
   | None => True
   end) /\
  0 <= r_duration r <= RTH_MAX_DURATION /\ 0 <= r_pre_delay r <= RTH_MAX_DURATION /\
  0 <= r_post_delay r <= RTH_MAX_DURATION /\ 0 <= r_neck_duration r <= RTH_MAX_DURATION.
Proof. intros p t r Hp Hr. apply (eval_spec_good p t r Hp Hr). Qed.
