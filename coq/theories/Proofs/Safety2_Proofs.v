(** C03, continued: the statistics queries (takeoff / landing proposals,
    bounding-box enclosures) of the model never read outside the block and
    never run out of fuel, for every byte string that loads. *)
From Coq Require Import ZArith QArith List Lia Bool.
From SB Require Import Base.Prelude Base.Num Base.F32 Gen.Generated Model.Poly Model.Traj Model.Utils Model.RootCert Model.Stats
  Proofs.Player_Proofs Proofs.Safety_Proofs.
Import ListNotations.
Local Open Scope Z_scope.

Lemma segments_fine tr : fine (segments tr).
Proof. pose proof (cursor0_rest_length tr). apply segments_from_fine; lia. Qed.

Lemma total_duration_fine tr : fine (total_duration_msec tr).
Proof. pose proof (cursor0_rest_length tr). apply total_duration_from_fine; lia. Qed.

Lemma propose_takeoff_fine tr a s c : fine (propose_takeoff tr a s c).
Proof.
  unfold propose_takeoff.
  destruct (negb (stats_valid c s a (FVal (5 # 2)))); [exact I|].
  apply fine_bind; [apply segments_fine|].
  intros segs. destruct a; exact I.
Qed.

Lemma propose_landing_fine tr d thr : fine (propose_landing tr d thr).
Proof.
  unfold propose_landing.
  apply fine_bind; [apply segments_fine|]. intros segs.
  apply fine_bind; [apply total_duration_fine|]. intros total.
  destruct d; destruct thr; try exact I.
  destruct (Qle_bool q FLT_MIN); exact I.
Qed.

Lemma stats_total : forall bytes tr ascent speed acc descent thr,
  traj_init bytes = Ok tr ->
  propose_takeoff tr ascent speed acc <> Fuel /\ (forall s o, propose_takeoff tr ascent speed acc <> OOB s o) /\
  propose_landing tr descent thr <> Fuel /\ (forall s o, propose_landing tr descent thr <> OOB s o) /\
  (forall s o, segments tr <> OOB s o).
Proof.
  intros bytes tr ascent speed acc descent thr _.
  repeat split.
  - apply fine_not_fuel, propose_takeoff_fine.
  - apply fine_not_oob, propose_takeoff_fine.
  - apply fine_not_fuel, propose_landing_fine.
  - apply fine_not_oob, propose_landing_fine.
  - apply fine_not_oob, segments_fine.
Qed.
