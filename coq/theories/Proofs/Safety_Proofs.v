(** Proofs for C03 (arbitrary bytes never make a model read outside its input
    or run out of fuel).  Statements are used verbatim by
    Props/Properties_C03.v. *)
From Coq Require Import ZArith QArith List Lia Bool ZifyBool.
From SB Require Import Base.Prelude Base.Num Gen.Generated Model.Codec Model.Crc Model.Container Model.Loaders
  Model.Traj Model.Yaw Model.Rth Model.Light Spec.CrcSpec Spec.ContainerSpec Spec.LightSpec
  Proofs.Codec_Proofs Proofs.Container_Proofs Proofs.Loaders_Proofs Proofs.Player_Proofs
  Proofs.Yaw_Proofs Proofs.Light_Proofs.
Import ListNotations.
Local Open Scope Z_scope.

Opaque crc32_tab.

(** A result that is a value or an error code. *)
Definition fine {A} (r : res A) : Prop :=
  match r with Ok _ | Err _ => True | _ => False end.

Lemma fine_not_fuel {A} (r : res A) : fine r -> r <> Fuel.
Proof. destruct r; simpl; intros H; try contradiction; discriminate. Qed.

Lemma fine_not_oob {A} (r : res A) : fine r -> forall s o, r <> OOB s o.
Proof. destruct r; simpl; intros H; try contradiction; discriminate. Qed.

Lemma fine_bind {A B} (r : res A) (k : A -> res B) :
  fine r -> (forall a, fine (k a)) -> fine (bind r k).
Proof. destruct r; simpl; intros H Hk; try contradiction; auto. Qed.

Lemma fine_of {A} (r : res A) :
  r <> Fuel -> (forall s o, r <> OOB s o) -> fine r.
Proof.
  destruct r as [a|e|s o|]; simpl; intros H1 H2; try exact I.
  - exact (H2 s o eq_refl).
  - exact (H1 eq_refl).
Qed.

(* ------------------------------------------------------------------ *)
(** * Container *)

Lemma container_total : forall r bytes ty p,
  parser_init r bytes <> Fuel /\ (forall s o, parser_init r bytes <> OOB s o) /\
  (parser_init r bytes = Ok p -> find_first p ty <> Fuel /\ forall s o, find_first p ty <> OOB s o).
Proof.
  intros r bytes ty p.
  assert (Hi : fine (parser_init r bytes)).
  { pose proof (init_classifies_any r bytes) as Hc.
    destruct (parser_init r bytes); destruct (init_spec bytes); try contradiction; exact I. }
  split; [exact (fine_not_fuel _ Hi)|]. split; [exact (fine_not_oob _ Hi)|].
  intros Hinit.
  assert (Hf : fine (find_first p ty)).
  { pose proof (find_first_spec_any r bytes p ty Hinit) as Hc.
    destruct (find_first p ty); destruct (find_spec r bytes (p_start p) ty);
      try contradiction; exact I. }
  split; [exact (fine_not_fuel _ Hf)|exact (fine_not_oob _ Hf)].
Qed.

(* ------------------------------------------------------------------ *)
(** * Trajectory *)

Lemma decode_segment_fine scale start rest : fine (decode_segment scale start rest).
Proof.
  apply fine_of; [apply decode_segment_not_fuel|intros s o; apply decode_segment_not_oob].
Qed.

Lemma seek_fwd_fine tr t : forall f c, (length (c_rest c) < f)%nat -> fine (seek_fwd f tr c t).
Proof.
  induction f as [|f IH]; intros c H; [lia|].
  rewrite seek_fwd_unfold.
  pose proof (decode_segment_fine (t_scale tr) (c_start c) (c_rest c)) as Hd.
  destruct (decode_segment (t_scale tr) (c_start c) (c_rest c)) as [[[s r]|]| | |] eqn:E;
    try contradiction; try exact I.
  destruct (before (u32 (c_start_ms c + sg_dur s)) t); [|exact I].
  apply decode_segment_length in E.
  apply IH; cbn [next_cursor c_rest]; lia.
Qed.

Lemma seek_fresh_fine tr t : fine (seek tr (cursor0 tr) t).
Proof.
  unfold seek. apply seek_fwd_fine.
  pose proof (cursor0_rest_length tr).
  destruct (after (c_start_ms (cursor0 tr)) (clamp0 t)); lia.
Qed.

Lemma total_duration_from_fine tr : forall f c acc, (length (c_rest c) < f)%nat ->
  fine (total_duration_from f tr c acc).
Proof.
  induction f as [|f IH]; intros c acc H; [lia|].
  cbn [total_duration_from].
  pose proof (decode_segment_fine (t_scale tr) (c_start c) (c_rest c)) as Hd.
  destruct (decode_segment (t_scale tr) (c_start c) (c_rest c)) as [[[s r]|]| | |] eqn:E;
    try contradiction; cbn [bind]; try exact I.
  apply decode_segment_length in E.
  apply IH; cbn [next_cursor c_rest]; lia.
Qed.

Lemma segments_from_fine tr : forall f c, (length (c_rest c) < f)%nat ->
  fine (segments_from f tr c).
Proof.
  induction f as [|f IH]; intros c H; [lia|].
  cbn [segments_from].
  pose proof (decode_segment_fine (t_scale tr) (c_start c) (c_rest c)) as Hd.
  destruct (decode_segment (t_scale tr) (c_start c) (c_rest c)) as [[[s r]|]| | |] eqn:E;
    try contradiction; cbn [bind]; try exact I.
  apply decode_segment_length in E.
  apply fine_bind; [|intros a; exact I].
  apply IH; cbn [next_cursor c_rest]; lia.
Qed.

Lemma trajectory_total : forall bytes tr t,
  traj_init bytes = Ok tr ->
  (position_at tr t <> Fuel /\ velocity_at tr t <> Fuel /\ acceleration_at tr t <> Fuel /\
   total_duration_msec tr <> Fuel /\ segments tr <> Fuel) /\
  (forall s o, position_at tr t <> OOB s o /\ total_duration_msec tr <> OOB s o).
Proof.
  intros bytes tr t _.
  pose proof (seek_fresh_fine tr t) as Hs.
  pose proof (cursor0_rest_length tr) as Hl.
  assert (Hp : fine (position_at tr t)) by (apply fine_bind; [exact Hs|intros a; exact I]).
  assert (Hv : fine (velocity_at tr t)) by (apply fine_bind; [exact Hs|intros a; exact I]).
  assert (Ha : fine (acceleration_at tr t)) by (apply fine_bind; [exact Hs|intros a; exact I]).
  assert (Hd : fine (total_duration_msec tr)) by (apply total_duration_from_fine; lia).
  assert (Hg : fine (segments tr)) by (apply segments_from_fine; lia).
  split.
  - repeat split; apply fine_not_fuel; assumption.
  - intros s o. split; apply fine_not_oob; assumption.
Qed.

Lemma trajectory_short_header : forall bytes, (length bytes < 9)%nat -> traj_init bytes = Err SB_EPARSE.
Proof.
  intros bytes H.
  destruct bytes as [|b0 [|b1 [|b2 [|b3 [|b4 [|b5 [|b6 [|b7 [|b8 rest]]]]]]]]]; try reflexivity.
  cbn [length] in H. lia.
Qed.

(* ------------------------------------------------------------------ *)
(** * Yaw control *)

Lemma yseek_fwd_fine t : forall f c, (length (yc_rest c) < f)%nat -> fine (yseek_fwd f c t).
Proof.
  induction f as [|f IH]; intros c H; [lia|].
  cbn [yseek_fwd].
  destruct (decode_delta (yc_rest c)) as [[[dur change] r]|] eqn:E; [|exact I].
  destruct (before (u32 (yc_start_ms c + dur)) t); [|exact I].
  apply decode_delta_length in E.
  apply IH; cbn [ynext yc_rest]; lia.
Qed.

Lemma yseek_fresh_fine y t : fine (yseek y (ycursor0 y) t).
Proof.
  unfold yseek. apply yseek_fwd_fine.
  pose proof (ycursor0_fuel y).
  destruct (after (yc_start_ms (ycursor0 y)) (clamp0 t)); lia.
Qed.

Lemma yaw_total : forall bytes y t,
  yaw_init bytes = Ok y -> yaw_at y t <> Fuel /\ yaw_rate_at y t <> Fuel /\
  (forall s o, yaw_at y t <> OOB s o).
Proof.
  intros bytes y t _.
  pose proof (yseek_fresh_fine y t) as Hs.
  assert (Hy : fine (yaw_at y t)) by (apply fine_bind; [exact Hs|intros a; exact I]).
  assert (Hr : fine (yaw_rate_at y t)) by (apply fine_bind; [exact Hs|intros a; exact I]).
  split; [exact (fine_not_fuel _ Hy)|]. split; [exact (fine_not_fuel _ Hr)|exact (fine_not_oob _ Hy)].
Qed.

Lemma yaw_short_header : forall bytes, (length bytes < 3)%nat -> yaw_init bytes = Err SB_EPARSE.
Proof.
  intros bytes H. destruct bytes as [|b0 [|b1 [|b2 rest]]]; try reflexivity.
  cbn [length] in H. lia.
Qed.

(* ------------------------------------------------------------------ *)
(** * RTH plan *)

Lemma varuint_fine pl off : fine (varuint pl off).
Proof.
  unfold varuint.
  pose proof (varuint_never_oob (pl_bytes pl) (length (pl_bytes pl)) off (le_n _)) as H.
  destruct (parse_varuint32 (pl_bytes pl) (length (pl_bytes pl)) off) as [v o|c o|o]; try exact I.
  exact (H o eq_refl).
Qed.

Lemma parse_coord_fine pl off : fine (parse_coord pl off).
Proof.
  unfold parse_coord. destruct (length (pl_bytes pl) <? off + 2)%nat; [exact I|].
  destruct (parse_i16 (pl_bytes pl) off) as [[v o]|]; exact I.
Qed.

Lemma parse_duration_fine pl off : fine (parse_duration pl off).
Proof.
  unfold parse_duration. apply fine_bind; [apply varuint_fine|].
  intros [v o]. destruct (RTH_MAX_DURATION <? v); exact I.
Qed.

Lemma get_point_fine pl i : fine (get_point pl i).
Proof.
  unfold get_point. destruct (Z.of_nat (pl_num_points pl) <=? i); [exact I|].
  destruct (length (pl_bytes pl) <? _)%nat; [exact I|].
  apply fine_bind; [apply parse_coord_fine|]. intros [x o].
  apply fine_bind; [apply parse_coord_fine|]. intros [y o']. exact I.
Qed.

Ltac fine_step :=
  match goal with
  | |- fine (Ok _) => exact I
  | |- fine (Err _) => exact I
  | |- fine (varuint _ _) => apply varuint_fine
  | |- fine (parse_coord _ _) => apply parse_coord_fine
  | |- fine (parse_duration _ _) => apply parse_duration_fine
  | |- fine (bind _ _) => apply fine_bind
  | |- fine (if ?b then _ else _) => destruct b
  | |- forall _, _ => intros ?
  | |- fine (let '(_, _) := ?x in _) => destruct x
  end.

Lemma scan_entry_fine pl st : fine (scan_entry pl st).
Proof.
  unfold scan_entry. destruct (rd (pl_bytes pl) (s_off st)) as [flags|]; [|exact I].
  repeat fine_step.
Qed.

Lemma scan_loop_fine pl t : forall n st, fine (scan_loop n pl t st).
Proof.
  induction n as [|n IH]; intros st; [exact I|].
  cbn [scan_loop]. apply fine_bind; [apply scan_entry_fine|].
  intros st'. destruct (time_reached (s_time st') t); [exact I|apply IH].
Qed.

Lemma evaluate_at_fine pl t : fine (evaluate_at pl t).
Proof.
  unfold evaluate_at. apply fine_bind.
  - destruct (time_neg t); [exact I|apply scan_loop_fine].
  - intros st. apply fine_bind; [|intros a; exact I].
    destruct (has_target _); [apply get_point_fine|exact I].
Qed.

Lemma rth_total : forall bytes pl t i,
  plan_init bytes = Ok pl ->
  evaluate_at pl t <> Fuel /\ (forall s o, evaluate_at pl t <> OOB s o) /\
  get_point pl i <> Fuel /\ (forall s o, get_point pl i <> OOB s o).
Proof.
  intros bytes pl t i _.
  pose proof (evaluate_at_fine pl t) as He. pose proof (get_point_fine pl i) as Hg.
  split; [exact (fine_not_fuel _ He)|]. split; [exact (fine_not_oob _ He)|].
  split; [exact (fine_not_fuel _ Hg)|exact (fine_not_oob _ Hg)].
Qed.

Lemma rth_short_header : forall bytes, (length bytes < 3)%nat -> plan_init bytes = Err SB_EPARSE.
Proof.
  intros bytes H. destruct bytes as [|b0 [|b1 [|b2 rest]]]; try reflexivity.
  cbn [length] in H. lia.
Qed.

(* ------------------------------------------------------------------ *)
(** * Light programs: a seek that makes no progress *)

(** one iteration of the seek loop *)
Definition advance (prog : list Z) (p : player) : player :=
  let e := step prog (ex p) (next_ts p) in
  mkplayer e (next_ts p) (if next_wakeup e <? next_ts p then next_ts p + 1 else next_wakeup e).

Lemma loop_adv fuel prog p t :
  light_seek_loop fuel prog p t =
  if t <=? next_ts p then Ok p else
  match fuel with
  | O => Fuel
  | S f => light_seek_loop f prog (advance prog p) t
  end.
Proof. destruct fuel; reflexivity. Qed.

Definition jump0 : list Z := [18; 0].
Definition jump0_player : player := advance jump0 (player_fresh jump0).

Lemma jump0_player_fixed : advance jump0 jump0_player = jump0_player.
Proof. vm_compute. reflexivity. Qed.

Lemma jump0_player_ts : next_ts jump0_player = 0.
Proof. vm_compute. reflexivity. Qed.

Lemma jump0_loop_stuck : forall fuel, light_seek_loop fuel jump0 jump0_player 1 = Fuel.
Proof.
  induction fuel as [|f IH]; rewrite loop_adv, jump0_player_ts; change (1 <=? 0) with false; cbv iota.
  - reflexivity.
  - rewrite jump0_player_fixed. exact IH.
Qed.

Lemma light_seek_no_progress_refuted :
  forall fuel, light_seek fuel [18; 0] (player_fresh [18; 0]) 1 = Fuel.
Proof.
  intros fuel. rewrite light_seek_eq. unfold seek_core.
  change (1 <? cur_ts (player_fresh [18; 0])) with false. cbv iota.
  assert (H : light_seek_loop fuel [18; 0] (player_fresh [18; 0]) 1 = Fuel).
  { rewrite loop_adv. change (1 <=? next_ts (player_fresh [18; 0])) with false. cbv iota.
    destruct fuel as [|f]; [reflexivity|]. apply jump0_loop_stuck. }
  rewrite H. reflexivity.
Qed.

(* ------------------------------------------------------------------ *)
(** * Light programs: loop stack depth and program counter *)

(** Values the program counter can take: positions up to the end of the
    program (the reader stops there) and validated jump targets. *)
Definition pcok (prog : list Z) (x : Z) : Prop :=
  0 <= x <= Z.max (Z.of_nat (length prog)) 2147483646.

Definition inv (prog : list Z) (e : exec) : Prop :=
  (length (loops e) <= 4)%nat /\ pcok prog (pc e) /\ Forall (fun l => pcok prog (fst l)) (loops e).

Lemma inv_ext prog e e' : pc e' = pc e -> loops e' = loops e -> inv prog e -> inv prog e'.
Proof. unfold inv. intros -> ->. auto. Qed.

Lemma inv_pc prog e : inv prog e -> pcok prog (pc e).
Proof. intros (_ & H & _). exact H. Qed.

Lemma inv_next_byte prog s : inv prog s -> inv prog (snd (next_byte prog s)).
Proof.
  intros H. unfold next_byte.
  destruct ((0 <=? pc s) && (pc s <? Z.of_nat (length prog))) eqn:E; [|exact H].
  destruct (nth_error prog (Z.to_nat (pc s))); [|exact H].
  cbn [snd]. destruct H as (H1 & H2 & H3). unfold inv. cbn [upd_pc pc loops].
  split; [exact H1|]. split; [|exact H3]. unfold pcok in *. lia.
Qed.

Lemma inv_varint_loop prog : forall fuel s acc shift, inv prog s -> 0 <= acc ->
  inv prog (snd (next_varint_loop fuel prog s acc shift)) /\
  0 <= fst (next_varint_loop fuel prog s acc shift).
Proof.
  induction fuel as [|f IH]; intros s acc shift H Ha; [split; assumption|].
  cbn [next_varint_loop].
  pose proof (inv_next_byte prog s H) as H1.
  destruct (next_byte prog s) as [b s1]. cbn [snd] in H1.
  set (acc' := Z.lor acc (Z.shiftl (Z.land b 127) shift) mod 18446744073709551616).
  assert (Ha' : 0 <= acc') by (apply Z.mod_pos_bound; lia).
  destruct (shift <? 64); (destruct (Z.land b 128 =? 0); [split; assumption|apply IH; assumption]).
Qed.

Lemma inv_next_varint prog s : inv prog s -> inv prog (snd (next_varint prog s)).
Proof. intros H. apply inv_varint_loop; [exact H|lia]. Qed.

Lemma next_varint_nonneg prog s : inv prog s -> 0 <= fst (next_varint prog s).
Proof. intros H. apply inv_varint_loop; [exact H|lia]. Qed.

Lemma inv_next_duration prog s : inv prog s -> inv prog (snd (next_duration prog s)).
Proof.
  intros H. unfold next_duration. pose proof (inv_next_varint prog s H) as H1.
  destruct (next_varint prog s) as [v s1]. exact H1.
Qed.

Lemma inv_delay_byte prog s : inv prog s -> inv prog (delay_byte prog s).
Proof.
  intros H. unfold delay_byte. pose proof (inv_next_duration prog s H) as H1.
  destruct (next_duration prog s) as [d s1]. cbn [snd] in H1.
  apply (inv_ext prog s1); [reflexivity|reflexivity|exact H1].
Qed.

Lemma inv_read_rgb prog s : inv prog s -> inv prog (snd (read_rgb prog s)).
Proof.
  intros H. unfold read_rgb.
  pose proof (inv_next_byte prog s H) as H1. destruct (next_byte prog s) as [r s1]. cbn [snd] in H1.
  pose proof (inv_next_byte prog s1 H1) as H2. destruct (next_byte prog s1) as [g s2]. cbn [snd] in H2.
  pose proof (inv_next_byte prog s2 H2) as H3. destruct (next_byte prog s2) as [b s3]. exact H3.
Qed.

Lemma inv_skip3 prog s : inv prog s -> inv prog (skip3 prog s).
Proof.
  intros H. unfold skip3.
  pose proof (inv_next_byte prog s H) as H1. destruct (next_byte prog s) as [r s1]. cbn [snd] in H1.
  pose proof (inv_next_byte prog s1 H1) as H2. destruct (next_byte prog s1) as [g s2]. cbn [snd] in H2.
  pose proof (inv_next_byte prog s2 H2) as H3. destruct (next_byte prog s2) as [b s3]. exact H3.
Qed.

Lemma inv_set_color_cmd prog s c : inv prog s -> inv prog (set_color_cmd prog s c).
Proof.
  intros H. unfold set_color_cmd.
  apply (inv_ext prog (delay_byte prog s)); [reflexivity|reflexivity|apply inv_delay_byte; exact H].
Qed.

Lemma inv_fade_to prog s c : inv prog s -> inv prog (fade_to prog s c).
Proof.
  intros H. unfold fade_to. pose proof (inv_delay_byte prog s H) as H1.
  destruct (next_wakeup (delay_byte prog s) - cmd_start s =? 0);
    apply (inv_ext prog (delay_byte prog s)); try reflexivity; exact H1.
Qed.

Lemma inv_loop_begin prog s loc it : inv prog s -> pcok prog loc -> inv prog (loop_begin s loc it).
Proof.
  intros H Hl. unfold loop_begin, CONFIG_MAX_LOOP_DEPTH.
  destruct (Z.of_nat (length (loops s)) <? 4) eqn:E; [|exact H].
  destruct H as (H1 & H2 & H3). unfold inv. cbn [upd_loops pc loops length].
  split; [lia|]. split; [exact H2|]. constructor; [exact Hl|exact H3].
Qed.

Lemma inv_loop_end prog s : inv prog s -> inv prog (loop_end s).
Proof.
  intros H. unfold loop_end. destruct (loops s) as [|[start it] rest] eqn:El; [exact H|].
  destruct H as (H1 & H2 & H3). rewrite El in H1, H3. cbn [length] in H1.
  inversion H3 as [|x l Hs Hr]; subst. cbn [fst] in Hs.
  destruct (it =? 0); [|destruct (it =? 1)]; unfold inv; cbn [upd_pc upd_loops pc loops length].
  - rewrite El. cbn [length]. auto.
  - split; [lia|]. auto.
  - split; [lia|]. split; [exact Hs|]. constructor; [exact Hs|exact Hr].
Qed.

Lemma inv_jump prog s a : inv prog s -> 0 <= a -> address_valid a = true ->
  inv prog (upd_loops (upd_pc s a) []).
Proof.
  intros H Ha Hv. unfold address_valid in Hv. unfold inv. cbn [upd_pc upd_loops pc loops length].
  split; [lia|]. split; [unfold pcok; lia|constructor].
Qed.

Ltac inv_same s H := apply (inv_ext _ s); [reflexivity|reflexivity|exact H].

Ltac inv_let lem s H H1 :=
  pose proof (lem _ s H) as H1;
  match goal with |- inv _ (let '(_, _) := ?x in _) => destruct x as [? ?] eqn:? end;
  cbn [snd] in H1.

Lemma inv_exec_command prog s : inv prog s -> inv prog (exec_command prog s).
Proof.
  intros H0. unfold exec_command.
  pose proof (inv_next_byte prog s H0) as H. destruct (next_byte prog s) as [op s0]. cbn [snd] in H.
  clear H0 s.
  destruct (op =? CMD_END); [inv_same s0 H|].
  destruct (op =? CMD_NOP); [exact H|].
  destruct (op =? CMD_SLEEP); [apply inv_delay_byte; exact H|].
  destruct (op =? CMD_WAIT_UNTIL).
  { pose proof (inv_next_varint prog s0 H) as H1.
    destruct (next_varint prog s0) as [dl s1]. cbn [snd] in H1. inv_same s1 H1. }
  destruct (op =? CMD_SET_COLOR).
  { pose proof (inv_read_rgb prog s0 H) as H1.
    destruct (read_rgb prog s0) as [c s1]. cbn [snd] in H1. apply inv_set_color_cmd; exact H1. }
  destruct (op =? CMD_SET_GRAY).
  { pose proof (inv_next_byte prog s0 H) as H1.
    destruct (next_byte prog s0) as [g s1]. cbn [snd] in H1. apply inv_set_color_cmd; exact H1. }
  destruct (op =? CMD_SET_BLACK); [apply inv_set_color_cmd; exact H|].
  destruct (op =? CMD_SET_WHITE); [apply inv_set_color_cmd; exact H|].
  destruct (op =? CMD_FADE_TO_COLOR).
  { pose proof (inv_read_rgb prog s0 H) as H1.
    destruct (read_rgb prog s0) as [c s1]. cbn [snd] in H1. apply inv_fade_to; exact H1. }
  destruct (op =? CMD_FADE_TO_GRAY).
  { pose proof (inv_next_byte prog s0 H) as H1.
    destruct (next_byte prog s0) as [g s1]. cbn [snd] in H1. apply inv_fade_to; exact H1. }
  destruct (op =? CMD_FADE_TO_BLACK); [apply inv_fade_to; exact H|].
  destruct (op =? CMD_FADE_TO_WHITE); [apply inv_fade_to; exact H|].
  destruct (op =? CMD_LOOP_BEGIN).
  { pose proof (inv_next_byte prog s0 H) as H1.
    destruct (next_byte prog s0) as [it s1]. cbn [snd] in H1.
    apply inv_loop_begin; [exact H1|exact (inv_pc _ _ H1)]. }
  destruct (op =? CMD_LOOP_END); [apply inv_loop_end; exact H|].
  destruct (op =? CMD_RESET_CLOCK); [inv_same s0 H|].
  destruct (op =? CMD_SET_COLOR_FROM_CHANNELS); [apply inv_set_color_cmd, inv_skip3; exact H|].
  destruct (op =? CMD_FADE_TO_COLOR_FROM_CHANNELS); [apply inv_fade_to, inv_skip3; exact H|].
  destruct (op =? CMD_JUMP).
  { pose proof (inv_next_varint prog s0 H) as H1. pose proof (next_varint_nonneg prog s0 H) as Hn.
    destruct (next_varint prog s0) as [a s1]. cbn [fst snd] in H1, Hn.
    destruct (address_valid a) eqn:Ea; [apply inv_jump; assumption|inv_same s1 H1]. }
  destruct (op =? CMD_TRIGGERED_JUMP).
  { pose proof (inv_next_byte prog s0 H) as H1.
    destruct (next_byte prog s0) as [params s1]. cbn [snd] in H1.
    destruct (negb (Z.land params 48 =? 0)); [|exact H1].
    pose proof (inv_next_varint prog s1 H1) as H2.
    destruct (next_varint prog s1) as [a s2]. cbn [snd] in H2.
    destruct (address_valid a); [exact H2|inv_same s2 H2]. }
  destruct (op =? CMD_SET_PYRO).
  { pose proof (inv_next_byte prog s0 H) as H1.
    destruct (next_byte prog s0) as [m s1]. cbn [snd] in H1.
    destruct (Z.land m 128 =? 0); inv_same s1 H1. }
  destruct (op =? CMD_SET_PYRO_ALL).
  { pose proof (inv_next_byte prog s0 H) as H1.
    destruct (next_byte prog s0) as [m s1]. cbn [snd] in H1. inv_same s1 H1. }
  inv_same s0 H.
Qed.

Lemma inv_step prog s now : inv prog s -> inv prog (step prog s now).
Proof.
  intros H. unfold step. cbv zeta.
  set (s1 := if reset_flag s then _ else s).
  assert (H1 : inv prog s1).
  { unfold s1. destruct (reset_flag s); [inv_same s H|exact H]. }
  clearbody s1. clear H s.
  destruct (ended s1); [inv_same s1 H1|].
  set (s2 := if tr_active s1 then _ else s1).
  assert (H2 : inv prog s2).
  { unfold s2. destruct (tr_active s1); [inv_same s1 H1|exact H1]. }
  clearbody s2. clear H1 s1.
  destruct (next_wakeup s2 <=? now); [|exact H2].
  apply inv_exec_command. inv_same s2 H2.
Qed.

Lemma inv_rewind prog e : inv prog (exec_rewind prog e).
Proof.
  unfold inv, exec_rewind. cbn [pc loops length]. split; [lia|]. split; [unfold pcok; lia|constructor].
Qed.

Lemma inv_seek_loop prog t : forall fuel p p', inv prog (ex p) ->
  light_seek_loop fuel prog p t = Ok p' -> inv prog (ex p').
Proof.
  induction fuel as [|f IH]; intros p p' H; rewrite loop_adv;
    (destruct (t <=? next_ts p); [intros E; inversion E; subst; exact H|]); [discriminate|].
  apply IH. unfold advance. cbn [ex]. apply inv_step. exact H.
Qed.

Lemma inv_seek prog fuel p t p' : inv prog (ex p) ->
  light_seek fuel prog p t = Ok p' -> inv prog (ex p').
Proof.
  intros H. rewrite light_seek_eq. unfold seek_core.
  set (p0 := if t <? cur_ts p then mkplayer (exec_rewind prog (ex p)) 0 0 else p).
  assert (H0 : inv prog (ex p0)).
  { unfold p0. destruct (t <? cur_ts p); [apply inv_rewind|exact H]. }
  clearbody p0.
  destruct (light_seek_loop fuel prog p0 t) as [p1| | |] eqn:E; cbn [bind]; try discriminate.
  intros E1. inversion E1; subst. cbn [ex]. apply inv_step.
  exact (inv_seek_loop prog t fuel p0 p1 H0 E).
Qed.

Lemma inv_run_seeks prog fuel : forall ts p p', inv prog (ex p) ->
  run_seeks fuel prog p ts = Ok p' -> inv prog (ex p').
Proof.
  induction ts as [|t ts IH]; intros p p' H; cbn [run_seeks].
  - intros E; inversion E; subst; exact H.
  - destruct (light_seek fuel prog p t) as [p1| | |] eqn:E; cbn [bind]; try discriminate.
    apply IH. exact (inv_seek prog fuel p t p1 H E).
Qed.

Lemma inv_fresh prog : inv prog (ex (player_fresh prog)).
Proof. apply inv_rewind. Qed.

Lemma light_loop_stack_bounded : forall prog fuel ts p,
  Light_Proofs.run_seeks fuel prog (player_fresh prog) ts = Ok p ->
  Z.of_nat (length (loops (ex p))) <= CONFIG_MAX_LOOP_DEPTH.
Proof.
  intros prog fuel ts p H.
  destruct (inv_run_seeks prog fuel ts _ p (inv_fresh prog) H) as (H1 & _).
  unfold CONFIG_MAX_LOOP_DEPTH. lia.
Qed.

Lemma light_pc_valid : forall prog fuel ts p,
  Light_Proofs.run_seeks fuel prog (player_fresh prog) ts = Ok p -> 0 <= pc (ex p) < 2147483647 + Z.of_nat (length prog) + 1.
Proof.
  intros prog fuel ts p H.
  destruct (inv_run_seeks prog fuel ts _ p (inv_fresh prog) H) as (_ & H1 & _).
  unfold pcok in H1. lia.
Qed.
