(** Facts about the binary32 model of the closed-form solvers (Model/Solve32.v). *)
From Coq Require Import QArith Qabs ZArith Bool List Lia Lqa.
From SB Require Import Base.Prelude Base.Num Base.F32 Model.Solve32 Proofs.Utils_Proofs.
Import ListNotations.
Local Open Scope Q_scope.

Lemma solve_linear32_len c0 c1 y : (length (solve_linear32 c0 c1 y) <= 1)%nat.
Proof. unfold solve_linear32. destruct (is_zero32 c1); cbn; lia. Qed.

Lemma solve_quadratic32_len c0 c1 c2 y : (length (solve_quadratic32 c0 c1 c2 y) <= 2)%nat.
Proof.
  unfold solve_quadratic32. destruct (is_zero32 c2).
  - pose proof (solve_linear32_len c0 c1 y). lia.
  - destruct (is_zero32 _); [cbn; lia|]. destruct (Qltb 0 _); [|cbn; lia]. destruct (Qltb c1 0); cbn; lia.
Qed.

Theorem solve32_at_most_two cs y rs : solve32 cs y = Some rs -> (length rs <= 2)%nat.
Proof.
  unfold solve32. destruct (significant_coeffs cs) as [|c0 [|c1 [|c2 [|c3 r]]]]; intro H; inversion H; subst.
  - cbn; lia.
  - unfold solve_const32. destruct (is_zero32 _); cbn; lia.
  - pose proof (solve_linear32_len c0 c1 y). lia.
  - apply solve_quadratic32_len.
Qed.

(** the computed discriminant decides the number of roots *)
Definition disc32 (c0 c1 c2 y : Q) : Q := fsub (fmul c1 c1) (fmul (fmul 4 c2) (fsub c0 y)).

Theorem quadratic32_trichotomy c0 c1 c2 y : is_zero32 c2 = false ->
  let d := disc32 c0 c1 c2 y in
  (is_zero32 d = true -> length (solve_quadratic32 c0 c1 c2 y) = 1%nat) /\
  (is_zero32 d = false -> 0 < d -> length (solve_quadratic32 c0 c1 c2 y) = 2%nat) /\
  (is_zero32 d = false -> d <= 0 -> solve_quadratic32 c0 c1 c2 y = []).
Proof.
  intros Ha d. unfold solve_quadratic32. rewrite Ha. fold (disc32 c0 c1 c2 y). fold d.
  repeat split.
  - intro H. rewrite H. reflexivity.
  - intros H Hp. rewrite H. assert (E : Qltb 0 d = true).
    { unfold Qltb. destruct (Qle_bool d 0) eqn:E; [|reflexivity]. apply Qle_bool_iff in E. exfalso. exact (Qlt_not_le _ _ Hp E). }
    rewrite E. destruct (Qltb c1 0); reflexivity.
  - intros H Hn. rewrite H. assert (E : Qltb 0 d = false).
    { unfold Qltb. apply negb_false_iff. apply Qle_bool_iff. exact Hn. }
    rewrite E. reflexivity.
Qed.

(** the straight-line solver returns the correctly rounded root of  c1 x + (c0 (-) y) *)
Theorem solve_linear32_rounded c0 c1 y : is_zero32 c1 = false ->
  solve_linear32 c0 c1 y = [rnd32 (- (fsub c0 y) / c1)].
Proof. intro H. unfold solve_linear32. rewrite H. reflexivity. Qed.

(** Vieta: with two roots, their product is (c0 (-) y) / c2 up to two roundings.
    (The two values are q / a and c / q for the one sum q that does not cancel.) *)
Definition eps := 1 # 16777216.

Lemma rnd32_rel x : Qabs (rnd32 x - x) <= eps * Qabs x.
Proof.
  destruct (Qeq_dec x 0) as [E|E].
  - rewrite (rnd32_zero x E). rewrite E. cbn. discriminate.
  - rewrite Qmult_comm. apply rnd32_error. exact E.
Qed.

Lemma prod_rel u v ru rv : Qabs (ru - u) <= eps * Qabs u -> Qabs (rv - v) <= eps * Qabs v ->
  Qabs (ru * rv - u * v) <= (2 * eps + eps * eps) * Qabs (u * v).
Proof.
  intros Hu Hv. rewrite Qabs_Qmult.
  assert (E : ru * rv - u * v == (ru - u) * v + u * (rv - v) + (ru - u) * (rv - v)) by ring.
  rewrite E.
  eapply Qle_trans; [apply Qabs_triangle|]. eapply Qle_trans; [apply Qplus_le_compat; [apply Qabs_triangle|apply Qle_refl]|].
  rewrite !Qabs_Qmult.
  pose proof (Qabs_nonneg u) as Pu. pose proof (Qabs_nonneg v) as Pv.
  pose proof (Qabs_nonneg (ru - u)) as Pa. pose proof (Qabs_nonneg (rv - v)) as Pb.
  set (A := Qabs (ru - u)) in *. set (B := Qabs (rv - v)) in *. set (U := Qabs u) in *. set (V := Qabs v) in *.
  assert (Pe : 0 <= eps) by discriminate.
  assert (H1 : A * V <= eps * U * V) by (apply Qmult_le_compat_r; assumption).
  assert (H2 : B * U <= eps * V * U) by (apply Qmult_le_compat_r; assumption).
  assert (H3 : A * B <= eps * U * B) by (apply Qmult_le_compat_r; assumption).
  assert (H4 : B * (eps * U) <= eps * V * (eps * U)).
  { apply Qmult_le_compat_r; [assumption|]. apply Qmult_le_0_compat; assumption. }
  assert (E1 : U * B == B * U) by ring. assert (E2 : eps * U * B == B * (eps * U)) by ring.
  assert (E3 : (2 * eps + eps * eps) * (U * V) == eps * U * V + eps * V * U + eps * V * (eps * U)) by ring.
  rewrite E3, E1. rewrite E2 in H3.
  lra.
Qed.

Lemma Qinv_zero q : q == 0 -> / q == 0.
Proof. intro E. rewrite E. reflexivity. Qed.

Lemma fdiv_zero_num x q : x == 0 -> fdiv x q = 0.
Proof. intro E. unfold fdiv. apply rnd32_zero. rewrite E. unfold Qdiv. ring. Qed.

Lemma fdiv_zero_den x q : q == 0 -> fdiv x q = 0.
Proof. intro E. unfold fdiv. apply rnd32_zero. unfold Qdiv. rewrite (Qinv_zero q E). ring. Qed.

Lemma significant_nonzero a : is_zero32 a = false -> ~ a == 0.
Proof.
  unfold is_zero32. intros H E. unfold Qltb in H. apply negb_false_iff in H. apply Qle_bool_iff in H.
  assert (Z : Qabs' a == 0).
  { unfold Qabs'. destruct (Qle_bool 0 a); rewrite E; reflexivity. }
  rewrite Z in H. assert (Hm : 0 < FLT_MIN) by (unfold FLT_MIN, pow2; cbn; reflexivity).
  exact (Qlt_not_le _ _ Hm H).
Qed.

Lemma vieta_pair c q a : ~ q == 0 -> ~ a == 0 ->
  Qabs (fdiv c q * fdiv q a - c / a) <= (2 * eps + eps * eps) * Qabs (c / a).
Proof.
  intros Hq Ha.
  assert (E : c / a == (c / q) * (q / a)) by (field; split; assumption).
  rewrite E. apply prod_rel; apply rnd32_rel.
Qed.

Theorem quadratic32_vieta c0 c1 c2 y r0 r1 : is_zero32 c2 = false ->
  solve_quadratic32 c0 c1 c2 y = [r0; r1] -> ~ (r0 == 0 /\ r1 == 0) ->
  Qabs (r0 * r1 - fsub c0 y / c2) <= (2 * eps + eps * eps) * Qabs (fsub c0 y / c2).
Proof.
  intros Ha H Hnz. pose proof (significant_nonzero c2 Ha) as Hane.
  unfold solve_quadratic32 in H. rewrite Ha in H. clear Ha.
  set (d := fsub (fmul c1 c1) (fmul (fmul 4 c2) (fsub c0 y))) in H.
  destruct (is_zero32 d); [discriminate|]. destruct (Qltb 0 d); [|discriminate].
  destruct (Qltb c1 0).
  - remember (fdiv (fadd (- c1) (fsqrt d)) 2) as q.
    injection H as H0 H1. subst r0 r1.
    assert (Hq : ~ q == 0).
    { intro E. apply Hnz. split; [rewrite (fdiv_zero_den _ q E) | rewrite (fdiv_zero_num q c2 E)]; reflexivity. }
    apply vieta_pair; assumption.
  - remember (fdiv (- fadd c1 (fsqrt d)) 2) as q.
    injection H as H0 H1. subst r0 r1.
    assert (Hq : ~ q == 0).
    { intro E. apply Hnz. split; [rewrite (fdiv_zero_num q c2 E) | rewrite (fdiv_zero_den _ q E)]; reflexivity. }
    rewrite (Qmult_comm (fdiv q c2)). apply vieta_pair; assumption.
Qed.
