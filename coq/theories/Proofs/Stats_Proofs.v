(** Proofs for C13 (takeoff), C14 (landing) and C15 (bounding box): the
    discrete part of Model/Stats.v.  The lemmas that rest on the soundness of
    the certified checkers of Model/RootCert.v take those soundness statements
    as section hypotheses (they are proved in Proofs/RootCert_Proofs.v). *)
From Coq Require Import Reals QArith Qreals List ZArith Lra Lia Lqa.
From SB Require Import Base.Prelude Base.Num Base.F32 Gen.Generated Model.Poly Model.Traj Model.Utils
  Model.RootCert Model.Stats.
Import ListNotations.
Local Open Scope Z_scope.

(** ---------------------------------------------------------------- *)
(** * Examples (closed computations)                                  *)
(** ---------------------------------------------------------------- *)

Example takeoff_example :
  match first_root 40 (shift_poly [0%Q; 1000 # 1] (250 # 1)) 0 1 with
  | Maybe a b => (a <= 1 # 4)%Q /\ (1 # 4 <= b)%Q /\ (b - a <= 1 # 1000000)%Q
  | NoRoot => False
  end.
Proof. vm_compute. repeat split; intro H; discriminate H. Qed.

Example landing_example :
  let bytes := [1; 0;0; 0;0; 232;3; 0;0;   1; 208;7; 100;0;   16; 16;39; 144;1;  16; 16;39; 0;0] in
  match traj_init bytes with
  | Ok tr => match propose_landing tr (FVal (100 # 1)) (FVal (1 # 20)) with
             | Ok (LandIn 12000 10000 a b 1) => (a <= 3 # 4)%Q /\ (3 # 4 <= b)%Q
             | _ => False
             end
  | _ => False
  end.
Proof. vm_compute. repeat split; intro H; discriminate H. Qed.

Example bbox_example :
  match poly_max 14 (make_bezier QOps 1%Q [0%Q; (300 # 1)%Q; (- (300 # 1))%Q; 0%Q]) 0 1 with
  | (l, u) => (86 # 1 <= l)%Q /\ (u <= 87 # 1)%Q
  end.
Proof. vm_compute. repeat split; intro H; discriminate H. Qed.

(** the code (binary32) and the exact computation disagree on a descent below
    the resolution of the altitude of the run *)
Definition tiny_tr : traj :=
  mktraj [1; 0; 0; 0; 0; 16; 39; 0; 0; 16; 16; 39; 0; 0] 1 false
         (mkvec4 (inject_Z 0) (inject_Z 0) (inject_Z 10000) (0 # 10)).

Lemma tiny_tr_is_init : traj_init [1; 0; 0; 0; 0; 16; 39; 0; 0; 16; 16; 39; 0; 0] = Ok tiny_tr.
Proof. reflexivity. Qed.

Lemma landing_tiny_descent_refuted : exists tr descent,
  (0 < descent)%Q /\
  propose_landing tr (FVal descent) (FVal 0%Q) <> propose_landing_spec tr (FVal descent) (FVal 0%Q).
Proof.
  exists tiny_tr, (1 # 100000)%Q. split; [reflexivity|].
  vm_compute. intro H; discriminate H.
Qed.

Local Opaque rnd32 first_root poly_max poly_min irange.

(** ---------------------------------------------------------------- *)
(** * Boolean comparisons on Q                                        *)
(** ---------------------------------------------------------------- *)

Lemma Qle_bool_true : forall a b, Qle_bool a b = true -> (a <= b)%Q.
Proof. intros a b H; apply Qle_bool_iff; exact H. Qed.

Lemma Qle_bool_false : forall a b, Qle_bool a b = false -> (b < a)%Q.
Proof.
  intros a b H. apply Qnot_le_lt. intro Hle.
  apply Qle_bool_iff in Hle. rewrite Hle in H; discriminate H.
Qed.

Lemma Qltb_true : forall a b, Qltb a b = true -> (a < b)%Q.
Proof.
  intros a b H. unfold Qltb in H. apply Qle_bool_false.
  destruct (Qle_bool b a); [discriminate H|reflexivity].
Qed.

Lemma Qltb_false : forall a b, Qltb a b = false -> (b <= a)%Q.
Proof.
  intros a b H. unfold Qltb in H. apply Qle_bool_true.
  destruct (Qle_bool b a); [reflexivity|discriminate H].
Qed.

Lemma Qle_bool_of_le : forall a b, (a <= b)%Q -> Qle_bool a b = true.
Proof. intros a b H; apply Qle_bool_iff; exact H. Qed.

Lemma Qle_bool_of_lt : forall a b, (b < a)%Q -> Qle_bool a b = false.
Proof.
  intros a b H. destruct (Qle_bool a b) eqn:E; [|reflexivity].
  apply Qle_bool_true in E. exfalso. apply (Qlt_not_le _ _ H E).
Qed.

Lemma Qltb_of_lt : forall a b, (a < b)%Q -> Qltb a b = true.
Proof. intros a b H. unfold Qltb. rewrite (Qle_bool_of_lt _ _ H). reflexivity. Qed.

Lemma Qltb_of_le : forall a b, (b <= a)%Q -> Qltb a b = false.
Proof. intros a b H. unfold Qltb. rewrite (Qle_bool_of_le _ _ H). reflexivity. Qed.

(** ---------------------------------------------------------------- *)
(** * C13: validation of the parameters                               *)
(** ---------------------------------------------------------------- *)

Lemma takeoff_invalid_parameters : forall tr ascent speed acc,
  stats_valid acc speed ascent (FVal (5 # 2)) = false -> propose_takeoff tr ascent speed acc = Ok None.
Proof.
  intros tr ascent speed acc H. unfold propose_takeoff. rewrite H. reflexivity.
Qed.

Lemma stats_valid_spec : forall acc speed ascent,
  stats_valid acc speed ascent (FVal (5 # 2)) = true <->
  (exists h, ascent = FVal h /\ (0 <= h)%Q) /\ (exists v, speed = FVal v /\ (0 < v)%Q) /\
  (match acc with FVal a => (0 < a)%Q | FInf n => n = false | FNan => True end).
Proof.
  intros acc speed ascent. unfold stats_valid.
  assert (Hd : fn_lt0 (FVal (5 # 2)) = false) by reflexivity.
  rewrite Hd. cbn [fn_finite negb]. rewrite !orb_false_r.
  split.
  - intro H. apply negb_true_iff in H.
    apply orb_false_iff in H. destruct H as [H Hasc_neg].
    apply orb_false_iff in H. destruct H as [H Hasc_fin].
    apply orb_false_iff in H. destruct H as [H Hsp_le].
    apply orb_false_iff in H. destruct H as [Hacc Hsp_fin].
    split; [|split].
    + destruct ascent as [|n|h]; cbn in Hasc_fin; try discriminate Hasc_fin.
      exists h. split; [reflexivity|]. cbn in Hasc_neg. apply Qltb_false. exact Hasc_neg.
    + destruct speed as [|n|v]; cbn in Hsp_fin; try discriminate Hsp_fin.
      exists v. split; [reflexivity|]. cbn in Hsp_le. apply Qle_bool_false. exact Hsp_le.
    + destruct acc as [|n|a]; cbn in Hacc.
      * exact I.
      * exact Hacc.
      * apply Qle_bool_false. exact Hacc.
  - intros [[h [Eh Hh]] [[v [Ev Hv]] Hacc]]. subst ascent speed.
    cbn [fn_finite fn_le0 fn_lt0 negb orb].
    rewrite (Qle_bool_of_lt _ _ Hv), (Qltb_of_le _ _ Hh).
    rewrite !orb_false_r.
    destruct acc as [|n|a]; cbn [fn_le0].
    + reflexivity.
    + subst n. reflexivity.
    + rewrite (Qle_bool_of_lt _ _ Hacc). reflexivity.
Qed.

(** ---------------------------------------------------------------- *)
(** * C14: the scan for the trailing vertical run                     *)
(** ---------------------------------------------------------------- *)

Lemma landing_scan_app : forall a b thr acc fb,
  landing_scan (a ++ b) thr acc fb =
  landing_scan b thr (fst (landing_scan a thr acc fb)) (snd (landing_scan a thr acc fb)).
Proof.
  induction a as [|[c s] a IH]; intros b thr acc fb.
  - reflexivity.
  - cbn [app landing_scan]. destruct (descending_vertically s thr); apply IH.
Qed.

Lemma landing_run_is_longest_suffix : forall segs thr run fallback,
  landing_scan segs thr None 0 = (run, fallback) ->
  exists pre r, segs = pre ++ r /\
    forallb (fun cs => descending_vertically (snd cs) thr) r = true /\
    (match rev pre with
     | [] => fallback = 0
     | (c, s) :: _ => descending_vertically s thr = false /\ fallback = u32 (c_start_ms c + sg_dur s)
     end) /\
    run = (match r with [] => None | _ => Some r end).
Proof.
  intros segs thr. induction segs as [|[c s] segs IH] using rev_ind; intros run fallback H.
  - cbn in H. inversion H; subst. exists [], []. repeat split; reflexivity.
  - rewrite landing_scan_app in H.
    destruct (landing_scan segs thr None 0) as [run0 fb0] eqn:E0.
    destruct (IH run0 fb0 eq_refl) as [pre [r [Hsegs [Hall [Hpre Hrun]]]]].
    cbn [fst snd landing_scan] in H.
    destruct (descending_vertically s thr) eqn:Ev.
    + inversion H; subst run fallback. clear H.
      exists pre, (r ++ [(c, s)]). split; [|split; [|split]].
      * rewrite Hsegs, app_assoc. reflexivity.
      * rewrite forallb_app, Hall. cbn. rewrite Ev. reflexivity.
      * exact Hpre.
      * rewrite Hrun. destruct r as [|x r']; reflexivity.
    + inversion H; subst run fallback. clear H.
      exists (segs ++ [(c, s)]), []. split; [|split; [|split]].
      * rewrite app_nil_r. reflexivity.
      * reflexivity.
      * rewrite rev_app_distr. cbn. split; [exact Ev|reflexivity].
      * reflexivity.
Qed.

(** ---------------------------------------------------------------- *)
(** * C14: the walk in exact arithmetic                               *)
(** ---------------------------------------------------------------- *)

Lemma qsub_eq : forall a b, (qsub a b == a - b)%Q.
Proof. intros; unfold qsub; apply Qred_correct. Qed.
Lemma qadd_eq : forall a b, (qadd a b == a + b)%Q.
Proof. intros; unfold qadd; apply Qred_correct. Qed.

Lemma landing_walk_cons : forall sub c s rest altitude to_descend fallback,
  landing_walk sub ((c, s) :: rest) altitude to_descend fallback =
  let delta := sub altitude (last_q (sg_z s)) in
  if Qltb delta 0 then LandAtMs fallback
  else if Qle_bool delta to_descend then landing_walk sub rest (last_q (sg_z s)) (sub to_descend delta) fallback
  else match first_root root_depth (shift_poly (zpoly s) (sub altitude to_descend)) 0 1 with
       | Maybe a b => LandIn (c_start_ms c) (sg_dur s) a b (length (sg_z s) - 1)
       | NoRoot => LandAtMsFallback (c_start_ms c)
       end.
Proof. reflexivity. Qed.

(** altitude - to_descend (the target altitude) is an invariant of the walk *)
Lemma landing_walk_exact : forall run altitude to_descend fallback K,
  (altitude - to_descend == K)%Q ->
  match landing_walk qsub run altitude to_descend fallback with
  | LandIn start_ms _ _ _ _ => exists c s, In (c, s) run /\ c_start_ms c = start_ms /\ (last_q (sg_z s) < K)%Q
  | LandAtMsFallback start_ms => exists c s, In (c, s) run /\ c_start_ms c = start_ms
  | LandAtMs ms => ms = fallback
  end.
Proof.
  induction run as [|[c s] rest IH]; intros altitude to_descend fallback K HK.
  - reflexivity.
  - rewrite landing_walk_cons. cbv zeta.
    destruct (Qltb (qsub altitude (last_q (sg_z s))) 0) eqn:Eneg; [reflexivity|].
    destruct (Qle_bool (qsub altitude (last_q (sg_z s))) to_descend) eqn:Ele.
    + assert (HK' : (last_q (sg_z s) - qsub to_descend (qsub altitude (last_q (sg_z s))) == K)%Q).
      { rewrite !qsub_eq. rewrite <- HK. ring. }
      specialize (IH (last_q (sg_z s)) (qsub to_descend (qsub altitude (last_q (sg_z s)))) fallback K HK').
      destruct (landing_walk qsub rest (last_q (sg_z s))
                  (qsub to_descend (qsub altitude (last_q (sg_z s)))) fallback) as [ms|st du a b dg|st].
      * exact IH.
      * destruct IH as [c' [s' [Hin [Hst Hlt]]]]. exists c', s'.
        split; [right; exact Hin|split; assumption].
      * destruct IH as [c' [s' [Hin Hst]]]. exists c', s'.
        split; [right; exact Hin|assumption].
    + apply Qle_bool_false in Ele. rewrite qsub_eq in Ele.
      destruct (first_root root_depth (shift_poly (zpoly s) (qsub altitude to_descend)) 0 1) as [|a b].
      * exists c, s. split; [left; reflexivity|reflexivity].
      * exists c, s. split; [left; reflexivity|split; [reflexivity|]].
        rewrite <- HK. lra.
Qed.

Lemma landing_cases : forall segs descent thr run fallback,
  (0 < descent)%Q -> landing_scan segs thr None 0 = (run, fallback) ->
  match run with
  | None => landing_of qsub qadd end_alt_exact segs descent thr = LandAtMs fallback
  | Some [] => True
  | Some (((c0, s0) :: _) as r) =>
    let top := first_q (sg_z s0) in
    let bottom := last_q (sg_z (snd (last r (c0, s0)))) in
    if Qle_bool (top - bottom) descent
    then landing_of qsub qadd end_alt_exact segs descent thr = LandAtMs (c_start_ms c0)
    else match landing_of qsub qadd end_alt_exact segs descent thr with
         | LandIn start_ms _ _ _ _ => exists c s, In (c, s) r /\ c_start_ms c = start_ms /\
                                       (last_q (sg_z s) < bottom + descent)%Q
         | LandAtMsFallback start_ms => exists c s, In (c, s) r /\ c_start_ms c = start_ms
         | LandAtMs ms => ms = fallback
         end
  end.
Proof.
  intros segs descent thr run fallback Hd Hscan.
  unfold landing_of. rewrite Hscan.
  destruct run as [[|[c0 s0] r']|]; [exact I| |reflexivity].
  cbv zeta. unfold end_alt_exact.
  set (r := (c0, s0) :: r').
  set (top := first_q (sg_z s0)).
  set (bottom := last_q (sg_z (snd (last r (c0, s0))))).
  destruct (Qle_bool (top - bottom) descent) eqn:Ele.
  - apply Qle_bool_true in Ele.
    rewrite Qltb_of_le; [reflexivity|].
    rewrite qsub_eq, qadd_eq. lra.
  - apply Qle_bool_false in Ele.
    rewrite Qltb_of_lt; [|rewrite qsub_eq, qadd_eq; lra].
    apply landing_walk_exact.
    rewrite qsub_eq, qadd_eq. ring.
Qed.

(** ---------------------------------------------------------------- *)
(** * C14: degenerate preferred descent                               *)
(** ---------------------------------------------------------------- *)

Lemma landing_degenerate_descent : forall tr d thr total,
  total_duration_msec tr = Ok total -> (exists segs, segments tr = Ok segs) ->
  (match d with FVal q => (q <= FLT_MIN)%Q | _ => True end) ->
  propose_landing tr d thr = Ok (LandAtMs total).
Proof.
  intros tr d thr total Htot [segs Hsegs] Hd.
  unfold propose_landing. rewrite Hsegs, Htot. cbn [bind].
  destruct d as [|n|q]; try reflexivity.
  destruct thr as [|n|th]; try reflexivity.
  rewrite (Qle_bool_of_le _ _ Hd). reflexivity.
Qed.

(** ---------------------------------------------------------------- *)
(** * Evaluation over the reals                                       *)
(** ---------------------------------------------------------------- *)
Local Open Scope R_scope.

Definition reval (cs : list Q) (x : R) : R := horner ROps (map Q2R cs) x.

Lemma Q2R_Qred' : forall q, Q2R (Qred q) = Q2R q.
Proof. intro q. apply Qeq_eqR. apply Qred_correct. Qed.

Lemma Q2R_0' : Q2R 0 = 0.
Proof. exact RMicromega.Q2R_0. Qed.
Lemma Q2R_1' : Q2R 1 = 1.
Proof. exact RMicromega.Q2R_1. Qed.

(** [shift_poly cs y] is p - y *)
Lemma shift_poly_reval : forall cs y u, reval (shift_poly cs y) u = reval cs u - Q2R y.
Proof.
  intros cs y u. unfold reval. destruct cs as [|c r]; cbn [shift_poly map horner ROps add mul zero].
  - rewrite Q2R_Qred', Q2R_opp. Lra.lra.
  - rewrite Q2R_Qred', Q2R_minus. Lra.lra.
Qed.

(** ---------------------------------------------------------------- *)
(** * C13: first crossing                                             *)
(** ---------------------------------------------------------------- *)
Section WithFirstRoot.
  Hypothesis first_root_sound : forall depth cs lo hi, (lo <= hi)%Q ->
    match first_root depth cs lo hi with
    | NoRoot => forall x, Q2R lo <= x <= Q2R hi -> reval cs x <> 0
    | Maybe a b => (lo <= a)%Q /\ (a <= b)%Q /\ (b <= hi)%Q /\
                   forall x, Q2R lo <= x < Q2R a -> reval cs x <> 0
    end.

  Lemma takeoff_first_crossing : forall segs target,
    match scan_takeoff segs target with
    | NoCrossing => forall c s, In (c, s) segs -> forall u, 0 <= u <= 1 -> reval (zpoly s) u <> Q2R target
    | CrossIn start_ms dur_ms a b _ =>
      exists pre c s post, segs = pre ++ (c, s) :: post /\ c_start_ms c = start_ms /\ sg_dur s = dur_ms /\
        (forall c' s', In (c', s') pre -> forall u, 0 <= u <= 1 -> reval (zpoly s') u <> Q2R target) /\
        (forall u, 0 <= u < Q2R a -> reval (zpoly s) u <> Q2R target) /\ (0 <= a)%Q /\ (a <= b)%Q /\ (b <= 1)%Q
    end.
  Proof.
    intros segs target. induction segs as [|[c s] rest IH].
    - cbn. intros c s [].
    - cbn [scan_takeoff].
      assert (H01 : (0 <= 1)%Q) by (intro Hc; discriminate Hc).
      pose proof (first_root_sound root_depth (shift_poly (zpoly s) target) 0 1 H01) as Hfr.
      destruct (first_root root_depth (shift_poly (zpoly s) target) 0 1) as [|a b].
      + assert (Hs : forall u, 0 <= u <= 1 -> reval (zpoly s) u <> Q2R target).
        { intros u Hu Heq. apply (Hfr u).
          - rewrite Q2R_0', Q2R_1'. exact Hu.
          - rewrite shift_poly_reval, Heq. Lra.lra. }
        destruct (scan_takeoff rest target) as [|st du a b dg].
        * intros c' s' [Heq|Hin].
          -- inversion Heq; subst c' s'. exact Hs.
          -- exact (IH c' s' Hin).
        * destruct IH as [pre [c1 [s1 [post [Hsegs [Hst [Hdu [Hpre Hrest]]]]]]]].
          exists ((c, s) :: pre), c1, s1, post.
          split; [rewrite Hsegs; reflexivity|].
          split; [exact Hst|]. split; [exact Hdu|].
          split; [|exact Hrest].
          intros c' s' [Heq|Hin].
          -- inversion Heq; subst c' s'. exact Hs.
          -- exact (Hpre c' s' Hin).
      + destruct Hfr as [H0a [Hab [Hb1 Hno]]].
        exists [], c, s, rest.
        split; [reflexivity|]. split; [reflexivity|]. split; [reflexivity|].
        split; [intros c' s' []|].
        split; [|split; [exact H0a|split; [exact Hab|exact Hb1]]].
        intros u Hu Heq. apply (Hno u).
        * rewrite Q2R_0'. exact Hu.
        * rewrite shift_poly_reval, Heq. Lra.lra.
  Qed.
End WithFirstRoot.

(** ---------------------------------------------------------------- *)
(** * C15: bounds of one axis over all segments                       *)
(** ---------------------------------------------------------------- *)

Lemma Qmin'_le_l : forall a b, Q2R (Qmin' a b) <= Q2R a.
Proof.
  intros a b. unfold Qmin'. destruct (Qle_bool a b) eqn:E; [Lra.lra|].
  apply Qle_bool_false in E. apply Qlt_le_weak in E. apply Qle_Rle. exact E.
Qed.
Lemma Qmin'_le_r : forall a b, Q2R (Qmin' a b) <= Q2R b.
Proof.
  intros a b. unfold Qmin'. destruct (Qle_bool a b) eqn:E; [|Lra.lra].
  apply Qle_bool_true in E. apply Qle_Rle. exact E.
Qed.
Lemma Qmax'_ge_l : forall a b, Q2R a <= Q2R (Qmax' a b).
Proof.
  intros a b. unfold Qmax'. destruct (Qle_bool a b) eqn:E; [|Lra.lra].
  apply Qle_bool_true in E. apply Qle_Rle. exact E.
Qed.
Lemma Qmax'_ge_r : forall a b, Q2R b <= Q2R (Qmax' a b).
Proof.
  intros a b. unfold Qmax'. destruct (Qle_bool a b) eqn:E; [Lra.lra|].
  apply Qle_bool_false in E. apply Qlt_le_weak in E. apply Qle_Rle. exact E.
Qed.
Lemma Qmin'_cases : forall a b, Qmin' a b = a \/ Qmin' a b = b.
Proof. intros a b. unfold Qmin'. destruct (Qle_bool a b); [left|right]; reflexivity. Qed.
Lemma Qmax'_cases : forall a b, Qmax' a b = a \/ Qmax' a b = b.
Proof. intros a b. unfold Qmax'. destruct (Qle_bool a b); [right|left]; reflexivity. Qed.

Lemma axis_bounds_none : forall sel segs, axis_bounds sel segs = None -> segs = [].
Proof.
  intros sel [|[c s] rest] H; [reflexivity|].
  cbn [axis_bounds] in H. destruct (axis_bounds sel rest); discriminate H.
Qed.

Section WithExtrema.
  Hypothesis poly_max_sound : forall depth cs lo hi l u, (lo <= hi)%Q ->
    poly_max depth cs lo hi = (l, u) ->
    (exists x, (lo <= x)%Q /\ (x <= hi)%Q /\ (horner QOps cs x == l)%Q) /\
    (forall x, Q2R lo <= x <= Q2R hi -> reval cs x <= Q2R u).

  Hypothesis poly_min_sound : forall depth cs lo hi l u, (lo <= hi)%Q ->
    poly_min depth cs lo hi = (l, u) ->
    (exists x, (lo <= x)%Q /\ (x <= hi)%Q /\ (horner QOps cs x == u)%Q) /\
    (forall x, Q2R lo <= x <= Q2R hi -> Q2R l <= reval cs x).

  (** one segment *)
  Lemma seg_axis_bounds_sound : forall pts mnl mnu mxl mxu,
    seg_axis_bounds pts = ((mnl, mnu), (mxl, mxu)) ->
    (forall u, 0 <= u <= 1 -> Q2R mnl <= reval (make_bezier QOps 1%Q pts) u <= Q2R mxu) /\
    (exists x, (0 <= x)%Q /\ (x <= 1)%Q /\ (horner QOps (make_bezier QOps 1%Q pts) x == mnu)%Q) /\
    (exists x, (0 <= x)%Q /\ (x <= 1)%Q /\ (horner QOps (make_bezier QOps 1%Q pts) x == mxl)%Q).
  Proof.
    intros pts mnl mnu mxl mxu H. unfold seg_axis_bounds in H. cbv zeta in H.
    assert (H01 : (0 <= 1)%Q) by (intro Hc; discriminate Hc).
    injection H as Hmin Hmax.
    destruct (poly_min_sound _ _ _ _ _ _ H01 Hmin) as [Hmin_att Hmin_bd].
    destruct (poly_max_sound _ _ _ _ _ _ H01 Hmax) as [Hmax_att Hmax_bd].
    split; [|split; assumption].
    intros u Hu. split.
    - apply Hmin_bd. rewrite Q2R_0', Q2R_1'. exact Hu.
    - apply Hmax_bd. rewrite Q2R_0', Q2R_1'. exact Hu.
  Qed.

  Lemma axis_bounds_sound : forall sel segs mnl mnu mxl mxu,
    axis_bounds sel segs = Some ((mnl, mnu), (mxl, mxu)) ->
    (forall c s u, In (c, s) segs -> 0 <= u <= 1 ->
       Q2R mnl <= reval (make_bezier QOps 1%Q (sel s)) u <= Q2R mxu) /\
    (exists c s x, In (c, s) segs /\ (0 <= x)%Q /\ (x <= 1)%Q /\ (horner QOps (make_bezier QOps 1%Q (sel s)) x == mnu)%Q) /\
    (exists c s x, In (c, s) segs /\ (0 <= x)%Q /\ (x <= 1)%Q /\ (horner QOps (make_bezier QOps 1%Q (sel s)) x == mxl)%Q).
  Proof.
    intros sel segs. induction segs as [|[c s] rest IH]; intros mnl mnu mxl mxu H.
    - discriminate H.
    - cbn [axis_bounds] in H.
      destruct (seg_axis_bounds (sel s)) as [[al au] [bl bu]] eqn:Eseg.
      destruct (seg_axis_bounds_sound _ _ _ _ _ Eseg) as [Hs_bd [[xmin [Hxmin0 [Hxmin1 Hxmin]]] [xmax [Hxmax0 [Hxmax1 Hxmax]]]]].
      destruct (axis_bounds sel rest) as [[[cl cu] [dl du]]|] eqn:Erest.
      + destruct (IH cl cu dl du eq_refl) as [Hr_bd [[c1 [s1 [x1 [Hin1 [Hx10 [Hx11 Hx1]]]]]] [c2 [s2 [x2 [Hin2 [Hx20 [Hx21 Hx2]]]]]]]].
        cbn [join_bounds] in H. injection H as Hmnl Hmnu Hmxl Hmxu.
        subst mnl mnu mxl mxu.
        split; [|split].
        * intros c' s' u [Heq|Hin] Hu.
          -- inversion Heq; subst c' s'. specialize (Hs_bd u Hu).
             pose proof (Qmin'_le_l al cl). pose proof (Qmax'_ge_l bu du). Lra.lra.
          -- specialize (Hr_bd c' s' u Hin Hu).
             pose proof (Qmin'_le_r al cl). pose proof (Qmax'_ge_r bu du). Lra.lra.
        * destruct (Qmin'_cases au cu) as [E|E]; rewrite E.
          -- exists c, s, xmin. split; [left; reflexivity|]. repeat split; assumption.
          -- exists c1, s1, x1. split; [right; exact Hin1|]. repeat split; assumption.
        * destruct (Qmax'_cases bl dl) as [E|E]; rewrite E.
          -- exists c, s, xmax. split; [left; reflexivity|]. repeat split; assumption.
          -- exists c2, s2, x2. split; [right; exact Hin2|]. repeat split; assumption.
      + injection H as Hmnl Hmnu Hmxl Hmxu. subst al au bl bu.
        split; [|split].
        * intros c' s' u [Heq|Hin] Hu.
          -- inversion Heq; subst c' s'. exact (Hs_bd u Hu).
          -- apply axis_bounds_none in Erest. subst rest. destruct Hin.
        * exists c, s, xmin. split; [left; reflexivity|]. repeat split; assumption.
        * exists c, s, xmax. split; [left; reflexivity|]. repeat split; assumption.
  Qed.
End WithExtrema.
