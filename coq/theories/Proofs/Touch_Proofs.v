(** A straight segment takes, in [0,1], the two values the library's own
    evaluation gives at the ends of [0,1]. *)
From Coq Require Import QArith ZArith Bool Lia Lqa.
From SB Require Import Base.Prelude Base.Num Base.F32 Model.Touch Proofs.Utils_Proofs.
Local Open Scope Q_scope.

Lemma Qltb_true a b : Qltb a b = true <-> a < b.
Proof.
  unfold Qltb. rewrite negb_true_iff. split; intro H.
  - apply Qnot_le_lt. intro Hle. apply Qle_bool_iff in Hle. congruence.
  - destruct (Qle_bool b a) eqn:E; [|reflexivity]. apply Qle_bool_iff in E. exfalso. exact (Qlt_not_le _ _ H E).
Qed.

Lemma Qltb_false a b : Qltb a b = false <-> b <= a.
Proof.
  unfold Qltb. rewrite negb_false_iff. apply Qle_bool_iff.
Qed.

Lemma Qabs'_small a : Qltb (Qabs' a) FLT_MIN = false -> 0 < a \/ a < 0.
Proof.
  intro H. apply Qltb_false in H. unfold Qabs' in H.
  assert (Hm : 0 < FLT_MIN) by (unfold FLT_MIN, pow2; cbn; reflexivity).
  destruct (Qle_bool 0 a) eqn:E.
  - left. apply Qlt_le_trans with FLT_MIN; assumption.
  - right. apply Qopp_lt_compat in Hm. assert (- - a <= - FLT_MIN) by (apply Qopp_le_compat; exact H).
    rewrite Qopp_involutive in H0. apply Qle_lt_trans with (- FLT_MIN); [exact H0|]. exact Hm.
Qed.

Lemma eval_end0 b a : rnd32 b == b -> eval_linear_f32 b a 0 == b.
Proof.
  intro Hb. unfold eval_linear_f32, fadd, fmul.
  rewrite (rnd32_zero (a * 0)) by ring.
  rewrite <- Hb at 2. apply rnd32_comp. ring.
Qed.

Lemma eval_end1 b a : rnd32 a == a -> eval_linear_f32 b a 1 == fadd a b.
Proof.
  intro Ha. unfold eval_linear_f32, fadd, fmul.
  apply rnd32_comp. rewrite <- Ha at 2. apply Qplus_inj_r. apply rnd32_comp. ring.
Qed.

Section Ends.
Variables b a : Q.
Hypothesis Hb : rnd32 b == b.
Hypothesis Ha : rnd32 a == a.
Hypothesis Hsig : Qltb (Qabs' a) FLT_MIN = false.

Lemma between_pos : 0 < a -> b <= fadd a b.
Proof.
  intro H. unfold fadd. rewrite <- Hb at 1. apply rnd32_monotone. lra.
Qed.

Lemma between_neg : a < 0 -> fadd a b <= b.
Proof.
  intro H. unfold fadd. rewrite <- Hb at 2. apply rnd32_monotone. lra.
Qed.

Lemma touches_when_between y :
  (0 < a -> b <= y /\ y <= fadd a b) -> (a < 0 -> fadd a b <= y /\ y <= b) ->
  touches_linear b a y <> None.
Proof.
  intros Hp Hn. unfold touches_linear. rewrite Hsig.
  destruct (Qabs'_small a Hsig) as [H|H].
  - destruct (Hp H) as [H1 H2].
    rewrite (proj2 (Qltb_true 0 a) H), (proj2 (Qle_bool_iff b y) H1), (proj2 (Qle_bool_iff y (fadd a b)) H2).
    cbn. discriminate.
  - destruct (Hn H) as [H1 H2].
    assert (E : Qltb 0 a = false) by (apply Qltb_false; apply Qlt_le_weak; exact H).
    rewrite E, (proj2 (Qltb_true a 0) H), (proj2 (Qle_bool_iff (fadd a b) y) H1), (proj2 (Qle_bool_iff y b) H2).
    cbn. discriminate.
Qed.

Theorem touches_linear_end0 : touches_linear b a (eval_linear_f32 b a 0) <> None.
Proof.
  apply touches_when_between; intro H; rewrite (eval_end0 b a Hb).
  - split; [apply Qle_refl | apply between_pos; exact H].
  - split; [apply between_neg; exact H | apply Qle_refl].
Qed.

Theorem touches_linear_end1 : touches_linear b a (eval_linear_f32 b a 1) <> None.
Proof.
  apply touches_when_between; intro H; rewrite (eval_end1 b a Ha).
  - split; [apply between_pos; exact H | apply Qle_refl].
  - split; [apply Qle_refl | apply between_neg; exact H].
Qed.
End Ends.

(** the evaluation above is the generic Horner scheme of the binary32 model on two coefficients *)
From SB Require Import Model.Poly.
Import List.ListNotations.
Lemma eval_linear_is_horner b a u : rnd32 a == a -> eval_linear_f32 b a u == horner F32Ops [b; a] u.
Proof.
  intro Ha. cbn [horner]. unfold eval_linear_f32. cbn [add mul zero F32Ops]. unfold fadd at 1 3. unfold fmul at 1 2.
  apply rnd32_comp.
  assert (E : fadd a (fmul u 0) == a).
  { unfold fadd, fmul. rewrite (rnd32_zero (u * 0)) by ring. rewrite <- Ha at 2. apply rnd32_comp. ring. }
  rewrite Qplus_comm. apply Qplus_inj_l. apply rnd32_comp. rewrite E. ring.
Qed.
