(** Proofs for C01 (trajectory decoding, position, durations).  Statements are
    used verbatim by Props/Properties_C01.v. *)
From Coq Require Import ZArith QArith Qfield List Lia ZifyBool.
From SB Require Import Base.Prelude Base.Num Gen.Generated Model.Codec Model.Poly Model.Traj
  Spec.BezierSpec Spec.TrajSpec.
Import ListNotations.
Local Open Scope Z_scope.

Ltac Zify.zify_post_hook ::= Z.div_mod_to_equations.

(* ------------------------------------------------------------------ *)
(** * Non-vacuity example *)
Example traj_example :
  let T := mkstraj 10 true (1, -2, 3, -450)
             [mksseg 1000 [5] [] [] [];
              mksseg 2500 [1; 2; 3; 4; 5; 6; 7] [9; 8; 7] [] [900];
              mksseg 1 [] [] [0] []] in
  wf_straj T = true /\
  match traj_init (encode_traj T) with
  | Ok tr => match position_at tr (QFin (3 # 2)) with
             | Ok p => vec4_eq p (traj_pos T (QFin (3 # 2)))
             | _ => False
             end
  | _ => False
  end.
Proof. vm_compute. repeat split; reflexivity. Qed.

(* ------------------------------------------------------------------ *)
(** * The chained abstract segments (identical copy of the definition in
      Props/Properties_C01.v) *)
Fixpoint spec_segments (scale : Z) (start : vec4) (start_ms : Z) (segs : list sseg)
  : list (Z * Z * (list Q * list Q * list Q * list Q)) :=
  match segs with
  | [] => []
  | s :: rest =>
    let c := ctrl scale start s in
    (start_ms, ss_dur s, c) :: spec_segments scale (ctrl_end c start) ((start_ms + ss_dur s) mod 4294967296) rest
  end.

(* ------------------------------------------------------------------ *)
(** * Bytes *)
Lemma le16_split u : 0 <= u < 65536 -> le16 (u mod 256) (u / 256) = u.
Proof. intros H. unfold le16. lia. Qed.

Lemma sx16_mod v : -32768 <= v < 32768 -> sx16 (v mod 65536) = v.
Proof.
  intros H. unfold sx16.
  destruct (v mod 65536 <? 32768) eqn:E; lia.
Qed.

Lemma i16b_spec v : i16b v = true -> -32768 <= v < 32768.
Proof. unfold i16b. lia. Qed.

Lemma e16_decode v : i16b v = true ->
  sx16 (le16 ((v mod 65536) mod 256) ((v mod 65536) / 256)) = v.
Proof.
  intros H. apply i16b_spec in H.
  rewrite le16_split by (apply Z.mod_pos_bound; lia).
  apply sx16_mod; exact H.
Qed.

Lemma flat_map_e16_length vs : length (flat_map e16 vs) = (2 * length vs)%nat.
Proof. induction vs as [|v vs IH]; cbn [flat_map e16 app length]; lia. Qed.

Lemma take_i16_enc : forall vs rest, forallb i16b vs = true ->
  take_i16 (length vs) (flat_map e16 vs ++ rest) = Some (vs, rest).
Proof.
  induction vs as [|v vs IH]; intros rest H.
  - reflexivity.
  - cbn [forallb] in H. apply andb_prop in H. destruct H as [Hv Hvs].
    cbn [length flat_map e16 app take_i16].
    rewrite IH by exact Hvs. rewrite e16_decode by exact Hv. reflexivity.
Qed.

(* ------------------------------------------------------------------ *)
(** * Segment header *)
Lemma len_ok_spec l : len_ok l = true ->
  forallb i16b l = true /\ 0 <= bits_of_len l <= 3 /\
  (Nat.pow 2 (Z.to_nat (bits_of_len l)) - 1 = length l)%nat.
Proof.
  unfold len_ok, bits_of_len.
  destruct (length l) as [|[|[|[|[|[|[|[|n]]]]]]]]; intros H; try discriminate H;
    (split; [exact H|split; [lia|reflexivity]]).
Qed.

Lemma header_bits b0 b1 b2 b3 :
  0 <= b0 <= 3 -> 0 <= b1 <= 3 -> 0 <= b2 <= 3 -> 0 <= b3 <= 3 ->
  let h := b0 + 4 * b1 + 16 * b2 + 64 * b3 in
  Z.land h 3 = b0 /\ Z.land (Z.shiftr h 2) 3 = b1 /\
  Z.land (Z.shiftr h 4) 3 = b2 /\ Z.land (Z.shiftr h 6) 3 = b3.
Proof.
  intros H0 H1 H2 H3 h. subst h.
  change 3 with (Z.ones 2). rewrite !Z.land_ones by lia.
  rewrite !Z.shiftr_div_pow2 by lia.
  change (2 ^ 2) with 4. change (2 ^ 4) with 16. change (2 ^ 6) with 64.
  change (Z.ones 2) with 3 in *.
  lia.
Qed.

Lemma decode_segment_gen scale start header d0 d1 xs ys zs ws rest :
  scale <> 0 ->
  (num_coords header - 1 = length xs)%nat ->
  (num_coords (Z.shiftr header 2) - 1 = length ys)%nat ->
  (num_coords (Z.shiftr header 4) - 1 = length zs)%nat ->
  (num_coords (Z.shiftr header 6) - 1 = length ws)%nat ->
  forallb i16b xs = true -> forallb i16b ys = true ->
  forallb i16b zs = true -> forallb i16b ws = true ->
  decode_segment scale start
    (header :: d0 :: d1 :: flat_map e16 xs ++ flat_map e16 ys ++ flat_map e16 zs ++ flat_map e16 ws ++ rest)
  = Ok (Some (mkseg (le16 d0 d1)
                (vx start :: map (coord_of scale) xs) (vy start :: map (coord_of scale) ys)
                (vz start :: map (coord_of scale) zs) (vyaw start :: map angle_of ws)
                (1 + (2 + 2 * (length xs + length ys + length zs + length ws))), rest)).
Proof.
  intros Hs Hx Hy Hz Hw Bx By Bz Bw.
  unfold decode_segment. cbv zeta. rewrite ?shorter_length.
  rewrite Hx, Hy, Hz, Hw.
  destruct (scale =? 0) eqn:Es; [lia|].
  match goal with |- context [(?a <? ?b)%nat] => destruct (a <? b)%nat eqn:El end.
  { exfalso. apply Nat.ltb_lt in El. cbn [length] in El.
    rewrite !app_length, !flat_map_e16_length in El. lia. }
  rewrite (take_i16_enc xs) by exact Bx.
  rewrite (take_i16_enc ys) by exact By.
  rewrite (take_i16_enc zs) by exact Bz.
  rewrite (take_i16_enc ws) by exact Bw.
  reflexivity.
Qed.

Definition dseg (scale : Z) (start : vec4) (s : sseg) : segment :=
  mkseg (ss_dur s)
        (vx start :: map (coord_of scale) (ss_x s)) (vy start :: map (coord_of scale) (ss_y s))
        (vz start :: map (coord_of scale) (ss_z s)) (vyaw start :: map angle_of (ss_yaw s))
        (1 + (2 + 2 * (length (ss_x s) + length (ss_y s) + length (ss_z s) + length (ss_yaw s)))).

Lemma wf_sseg_spec s : wf_sseg s = true ->
  0 <= ss_dur s < 65536 /\ len_ok (ss_x s) = true /\ len_ok (ss_y s) = true /\
  len_ok (ss_z s) = true /\ len_ok (ss_yaw s) = true.
Proof.
  unfold wf_sseg. intros H.
  repeat (apply andb_prop in H; destruct H as [H ?]).
  repeat split; try assumption; lia.
Qed.

Lemma decode_segment_enc scale start s rest :
  scale <> 0 -> wf_sseg s = true ->
  decode_segment scale start (enc_sseg s ++ rest) = Ok (Some (dseg scale start s, rest)).
Proof.
  intros Hs Hwf. apply wf_sseg_spec in Hwf.
  destruct Hwf as (Hd & Lx & Ly & Lz & Lw).
  apply len_ok_spec in Lx, Ly, Lz, Lw.
  destruct Lx as (Bx & Rx & Nx), Ly as (By & Ry & Ny), Lz as (Bz & Rz & Nz), Lw as (Bw & Rw & Nw).
  pose proof (header_bits _ _ _ _ Rx Ry Rz Rw) as Hh. cbv zeta in Hh.
  destruct Hh as (H0 & H1 & H2 & H3).
  unfold enc_sseg, dseg.
  unfold e16 at 1. cbn [app].
  rewrite <- !app_assoc.
  rewrite decode_segment_gen; try assumption.
  - rewrite le16_split by (apply Z.mod_pos_bound; lia).
    rewrite Z.mod_small by lia. reflexivity.
  - unfold num_coords. rewrite H0. exact Nx.
  - unfold num_coords. rewrite H1. exact Ny.
  - unfold num_coords. rewrite H2. exact Nz.
  - unfold num_coords. rewrite H3. exact Nw.
Qed.

Lemma enc_sseg_length s :
  length (enc_sseg s) =
  (3 + 2 * (length (ss_x s) + length (ss_y s) + length (ss_z s) + length (ss_yaw s)))%nat.
Proof.
  unfold enc_sseg, e16. cbn [length app].
  rewrite !app_length, !flat_map_e16_length. lia.
Qed.

(* ------------------------------------------------------------------ *)
(** * Block header *)
Lemma byte_sweep (P : Z -> bool) n :
  forallb P (map Z.of_nat (seq 0 n)) = true -> forall s, 0 <= s < Z.of_nat n -> P s = true.
Proof.
  intros H s Hs. rewrite forallb_forall in H. apply H.
  rewrite <- (Z2Nat.id s) by lia. apply in_map. apply in_seq. lia.
Qed.

Lemma scale_bits s : 0 < s < 128 ->
  Z.land s 127 = s /\ Z.land (s + 128) 127 = s /\ Z.land s 128 = 0 /\ Z.land (s + 128) 128 = 128.
Proof.
  intros Hs.
  assert (H : ((Z.land s 127 =? s) && (Z.land (s + 128) 127 =? s) &&
               (Z.land s 128 =? 0) && (Z.land (s + 128) 128 =? 128)) = true).
  { apply (byte_sweep (fun s => (Z.land s 127 =? s) && (Z.land (s + 128) 127 =? s) &&
               (Z.land s 128 =? 0) && (Z.land (s + 128) 128 =? 128)) 128).
    - vm_compute. reflexivity.
    - lia. }
  lia.
Qed.

Definition enc_tr (T : straj) : traj :=
  mktraj (encode_traj T) (st_scale T) (st_use_yaw T) (sstart T).

Lemma wf_straj_spec T : wf_straj T = true ->
  0 < st_scale T < 128 /\ forallb wf_sseg (st_segs T) = true /\
  let '(x, y, z, w) := st_start T in
  i16b x = true /\ i16b y = true /\ i16b z = true /\ i16b w = true.
Proof.
  unfold wf_straj. destruct (st_start T) as [[[x y] z] w]. intros H.
  repeat (apply andb_prop in H; destruct H as [H ?]).
  repeat split; try assumption; lia.
Qed.

Lemma traj_init_enc T : wf_straj T = true ->
  traj_init (encode_traj T) = Ok (enc_tr T) /\
  skipn traj_header_length (encode_traj T) = flat_map enc_sseg (st_segs T).
Proof.
  intros Hwf. apply wf_straj_spec in Hwf. destruct Hwf as (Hs & _ & Hst).
  unfold enc_tr, sstart, encode_traj.
  destruct (st_start T) as [[[x y] z] w]. destruct Hst as (Hx & Hy & Hz & Hw).
  unfold e16. cbn [app traj_init traj_header_length skipn].
  split; [|reflexivity].
  rewrite !e16_decode by assumption.
  pose proof (scale_bits _ Hs) as (S1 & S2 & S3 & S4).
  destruct (st_use_yaw T).
  - rewrite S2, S4. reflexivity.
  - rewrite Z.add_0_r, S1, S3. reflexivity.
Qed.

(* ------------------------------------------------------------------ *)
(** * Walking the segments *)
Definition seg_proj (cs : cursor * segment) : Z * Z * (list Q * list Q * list Q * list Q) :=
  (c_start_ms (fst cs), sg_dur (snd cs),
   (sg_x (snd cs), sg_y (snd cs), sg_z (snd cs), sg_yaw (snd cs))).

Lemma enc_sseg_app_length s rest :
  (length rest < length (enc_sseg s ++ rest))%nat.
Proof. rewrite app_length, enc_sseg_length. lia. Qed.

Lemma segments_from_enc tr : t_scale tr <> 0 ->
  forall segs fuel c, forallb wf_sseg segs = true ->
  c_rest c = flat_map enc_sseg segs ->
  (length (c_rest c) < fuel)%nat ->
  exists r, segments_from fuel tr c = Ok r /\
    map seg_proj r = spec_segments (t_scale tr) (c_start c) (c_start_ms c) segs.
Proof.
  intros Hs. induction segs as [|s segs IH]; intros fuel c Hwf Hrest Hfuel.
  - destruct fuel as [|f]; [lia|].
    cbn [segments_from flat_map] in *. rewrite Hrest. cbn [decode_segment bind].
    exists []. split; reflexivity.
  - destruct fuel as [|f]; [lia|].
    cbn [forallb] in Hwf. apply andb_prop in Hwf. destruct Hwf as [Hw Hws].
    cbn [flat_map] in Hrest.
    cbn [segments_from]. rewrite Hrest.
    rewrite decode_segment_enc by assumption. cbn [bind].
    destruct (IH f (next_cursor c (dseg (t_scale tr) (c_start c) s) (flat_map enc_sseg segs)) Hws)
      as (r & Hr & Hm).
    + reflexivity.
    + cbn [next_cursor c_rest]. rewrite Hrest in Hfuel.
      pose proof (enc_sseg_app_length s (flat_map enc_sseg segs)). lia.
    + rewrite Hr. cbn [bind]. eexists. split; [reflexivity|].
      cbn [map spec_segments]. rewrite Hm. reflexivity.
Qed.

Lemma skipn_length_le {A} n (l : list A) : (length (skipn n l) <= length l)%nat.
Proof. rewrite skipn_length. lia. Qed.

Theorem decode_encode : forall T, wf_straj T = true ->
  exists tr, traj_init (encode_traj T) = Ok tr /\
    t_scale tr = st_scale T /\ t_use_yaw tr = st_use_yaw T /\ t_start tr = sstart T /\
    exists segs, segments tr = Ok segs /\
      map (fun cs => (c_start_ms (fst cs), sg_dur (snd cs),
                      (sg_x (snd cs), sg_y (snd cs), sg_z (snd cs), sg_yaw (snd cs)))) segs
      = spec_segments (st_scale T) (sstart T) 0 (st_segs T).
Proof.
  intros T Hwf. destruct (traj_init_enc T Hwf) as [Hi Hsk].
  apply wf_straj_spec in Hwf. destruct Hwf as (Hs & Hsegs & _).
  exists (enc_tr T). split; [exact Hi|].
  split; [reflexivity|]. split; [reflexivity|]. split; [reflexivity|].
  unfold segments.
  destruct (segments_from_enc (enc_tr T)) with (segs := st_segs T)
    (fuel := S (length (t_bytes (enc_tr T)))) (c := cursor0 (enc_tr T)) as (r & Hr & Hm).
  - cbn [enc_tr t_scale]. lia.
  - exact Hsegs.
  - exact Hsk.
  - unfold cursor0. cbn [c_rest]. pose proof (skipn_length_le traj_header_length (t_bytes (enc_tr T))). lia.
  - exists r. split; [exact Hr|]. exact Hm.
Qed.

(* ------------------------------------------------------------------ *)
(** * Durations *)
Definition sum_dur (segs : list sseg) (acc : Z) : Z := fold_left (fun a s => a + ss_dur s) segs acc.

Lemma total_duration_from_enc tr : t_scale tr <> 0 ->
  forall segs fuel c acc, forallb wf_sseg segs = true ->
  c_rest c = flat_map enc_sseg segs ->
  (length (c_rest c) < fuel)%nat ->
  total_duration_from fuel tr c (u32 acc) = Ok (u32 (sum_dur segs acc)).
Proof.
  intros Hs. induction segs as [|s segs IH]; intros fuel c acc Hwf Hrest Hfuel.
  - destruct fuel as [|f]; [lia|].
    cbn [total_duration_from flat_map] in *. rewrite Hrest. reflexivity.
  - destruct fuel as [|f]; [lia|].
    cbn [forallb] in Hwf. apply andb_prop in Hwf. destruct Hwf as [Hw Hws].
    cbn [flat_map] in Hrest.
    cbn [total_duration_from]. rewrite Hrest.
    rewrite decode_segment_enc by assumption. cbn [bind dseg sg_dur].
    replace (u32 (u32 acc + ss_dur s)) with (u32 (acc + ss_dur s))
      by (unfold u32; rewrite Zplus_mod_idemp_l; reflexivity).
    rewrite IH.
    + reflexivity.
    + exact Hws.
    + reflexivity.
    + cbn [next_cursor c_rest]. rewrite Hrest in Hfuel.
      pose proof (enc_sseg_app_length s (flat_map enc_sseg segs)). lia.
Qed.

Theorem durations_agree : forall T, wf_straj T = true ->
  exists tr, traj_init (encode_traj T) = Ok tr /\
    total_duration_msec tr = Ok (total_ms T mod 4294967296).
Proof.
  intros T Hwf. destruct (traj_init_enc T Hwf) as [Hi Hsk].
  apply wf_straj_spec in Hwf. destruct Hwf as (Hs & Hsegs & _).
  exists (enc_tr T). split; [exact Hi|].
  unfold total_duration_msec.
  change 0 with (u32 0) at 1.
  rewrite (total_duration_from_enc (enc_tr T)) with (segs := st_segs T).
  - reflexivity.
  - cbn [enc_tr t_scale]. lia.
  - exact Hsegs.
  - exact Hsk.
  - unfold cursor0. cbn [c_rest]. pose proof (skipn_length_le traj_header_length (t_bytes (enc_tr T))). lia.
Qed.

Lemma sum_dur_bounds : forall segs acc, forallb wf_sseg segs = true ->
  acc <= sum_dur segs acc <= acc + 65535 * Z.of_nat (length segs).
Proof.
  induction segs as [|s segs IH]; intros acc Hwf.
  - cbn [sum_dur fold_left length]. lia.
  - cbn [forallb] in Hwf. apply andb_prop in Hwf. destruct Hwf as [Hw Hws].
    apply wf_sseg_spec in Hw. destruct Hw as (Hd & _).
    unfold sum_dur in *. cbn [fold_left length].
    specialize (IH (acc + ss_dur s) Hws). lia.
Qed.

Lemma flat_map_enc_length segs :
  (3 * length segs <= length (flat_map enc_sseg segs))%nat.
Proof.
  induction segs as [|s segs IH]; cbn [flat_map length]; [lia|].
  rewrite app_length, enc_sseg_length. lia.
Qed.

Theorem block_duration_cannot_wrap : forall T, wf_straj T = true ->
  (length (encode_traj T) <= 65535)%nat -> total_ms T < 4294967296.
Proof.
  intros T Hwf Hlen. destruct (traj_init_enc T Hwf) as [_ Hsk].
  apply wf_straj_spec in Hwf. destruct Hwf as (Hs & Hsegs & _).
  pose proof (skipn_length_le traj_header_length (encode_traj T)) as Hle.
  rewrite Hsk in Hle.
  pose proof (flat_map_enc_length (st_segs T)) as H3.
  pose proof (sum_dur_bounds (st_segs T) 0 Hsegs) as Hb.
  assert (Hc : Z.of_nat 65535 = 65535) by (vm_compute; reflexivity).
  apply Nat2Z.inj_le in Hlen. rewrite Hc in Hlen.
  unfold total_ms. unfold sum_dur in Hb. lia.
Qed.

(* ------------------------------------------------------------------ *)
(** * Power basis + Horner = de Casteljau, over the rationals *)
Local Open Scope Q_scope.

Lemma strip_add a b a' b' : a == a' -> b == b' -> Qred (a + b) == a' + b'.
Proof. intros H1 H2. rewrite Qred_correct, H1, H2. reflexivity. Qed.
Lemma strip_sub a b a' b' : a == a' -> b == b' -> Qred (a - b) == a' - b'.
Proof. intros H1 H2. rewrite Qred_correct, H1, H2. reflexivity. Qed.
Lemma strip_mul a b a' b' : a == a' -> b == b' -> Qred (a * b) == a' * b'.
Proof. intros H1 H2. rewrite Qred_correct, H1, H2. reflexivity. Qed.
Lemma strip_div a b a' b' : a == a' -> b == b' -> Qred (a / b) == a' / b'.
Proof. intros H1 H2. rewrite Qred_correct, H1, H2. reflexivity. Qed.
Lemma strip_both x y x' y' : x == x' -> y == y' -> x' == y' -> x == y.
Proof. intros H1 H2 H3. rewrite H1, H2. exact H3. Qed.

(** remove every [Qred] of a term built from the [QOps] operations *)
Ltac strip :=
  lazymatch goal with
  | |- Qred (_ + _) == _ => eapply strip_add; strip
  | |- Qred (_ - _) == _ => eapply strip_sub; strip
  | |- Qred (_ * _) == _ => eapply strip_mul; strip
  | |- Qred (_ / _) == _ => eapply strip_div; strip
  | |- _ == _ => apply Qeq_refl
  end.

Ltac bez_unfold :=
  cbv [horner make_bezier make_linear stretch stretch_from bez_coeff sumto sgn fac facs QOps
       zero one add sub mul div ofZ length map seq nth Nat.sub Nat.add Nat.even
       bezier dc dc_step lerp qone inject_Z].

Ltac bez_solve := bez_unfold; (eapply strip_both; [strip | strip | ]); field.

Lemma qbez_alg_is_bezier : forall pts u, (1 <= length pts <= 8)%nat ->
  horner QOps (make_bezier QOps 1 pts) u == bezier QOps pts u.
Proof.
  intros pts u H.
  destruct pts as [|a [|b [|c [|d [|e [|f [|g [|h [|i pts]]]]]]]]]; cbn [length] in H; try lia.
  - bez_solve.
  - bez_solve.
  - bez_solve.
  - bez_solve.
  - bez_solve.
  - bez_solve.
  - bez_solve.
  - bez_solve.
Qed.

(* ------------------------------------------------------------------ *)
(** * End points of a Bezier curve (any number of control points) *)
Lemma lerp_0 a b : lerp QOps a b 0 == a.
Proof.
  cbv [lerp QOps zero one add sub mul].
  eapply Qeq_trans; [strip|]. ring.
Qed.

Lemma lerp_1 a b : lerp QOps a b 1 == b.
Proof.
  cbv [lerp QOps zero one add sub mul].
  eapply Qeq_trans; [strip|]. ring.
Qed.

Lemma dc_step_length u : forall xs : list Q, length (dc_step QOps xs u) = (length xs - 1)%nat.
Proof.
  induction xs as [|a xs IH]; [reflexivity|].
  destruct xs as [|b tl]; [reflexivity|].
  change (dc_step QOps (a :: b :: tl) u) with (lerp QOps a b u :: dc_step QOps (b :: tl) u).
  cbn [length] in *. lia.
Qed.

Lemma last_dc_step_1 : forall (xs : list Q) d, (2 <= length xs)%nat ->
  last (dc_step QOps xs 1) d == last xs d.
Proof.
  induction xs as [|a xs IH]; intros d H; [cbn [length] in H; lia|].
  destruct xs as [|b tl]; [cbn [length] in H; lia|].
  destruct tl as [|c tl].
  - cbn [dc_step last]. apply lerp_1.
  - change (last (a :: b :: c :: tl) d) with (last (b :: c :: tl) d).
    change (last (dc_step QOps (a :: b :: c :: tl) 1) d)
      with (last (dc_step QOps (b :: c :: tl) 1) d).
    apply IH. cbn [length]. lia.
Qed.

Lemma dc_1 : forall fuel (xs : list Q) d, (length xs <= fuel)%nat -> xs <> [] ->
  dc QOps fuel xs 1 == last xs d.
Proof.
  induction fuel as [|f IH]; intros xs d Hl Hne.
  - destruct xs; [congruence | cbn [length] in Hl; lia].
  - destruct xs as [|a [|b tl]]; [congruence | cbn [dc last]; reflexivity |].
    change (dc QOps (S f) (a :: b :: tl) 1) with (dc QOps f (dc_step QOps (a :: b :: tl) 1) 1).
    rewrite (IH _ d).
    + apply last_dc_step_1. cbn [length]; lia.
    + rewrite dc_step_length. cbn [length] in *. lia.
    + cbn [dc_step]. discriminate.
Qed.

Lemma dc_0 : forall fuel (xs : list Q) d, (length xs <= fuel)%nat -> xs <> [] ->
  dc QOps fuel xs 0 == hd d xs.
Proof.
  induction fuel as [|f IH]; intros xs d Hl Hne.
  - destruct xs; [congruence | cbn [length] in Hl; lia].
  - destruct xs as [|a [|b tl]]; [congruence | cbn [dc hd]; reflexivity |].
    change (dc QOps (S f) (a :: b :: tl) 0) with (dc QOps f (dc_step QOps (a :: b :: tl) 0) 0).
    rewrite (IH _ d).
    + cbn [dc_step hd]. apply lerp_0.
    + rewrite dc_step_length. cbn [length] in *. lia.
    + cbn [dc_step]. discriminate.
Qed.

Lemma bezier_1 (xs : list Q) d : xs <> [] -> bezier QOps xs 1 == last xs d.
Proof. intros H. unfold bezier. apply dc_1; [lia|exact H]. Qed.

Lemma bezier_0 (xs : list Q) d : xs <> [] -> bezier QOps xs 0 == hd d xs.
Proof. intros H. unfold bezier. apply dc_0; [lia|exact H]. Qed.

Local Open Scope Z_scope.

Theorem segments_join : forall c u, let '(cx, cy, cz, cw) := c in
  cx <> [] -> cy <> [] -> cz <> [] -> cw <> [] -> forall start,
  vec4_eq (bez4 c 1) (ctrl_end c start) /\
  vec4_eq (bez4 c 0) (mkvec4 (hd u cx) (hd u cy) (hd u cz) (hd u cw)).
Proof.
  intros [[[cx cy] cz] cw] u Hx Hy Hz Hw start.
  unfold vec4_eq, bez4, ctrl_end. cbn [vx vy vz vyaw].
  repeat split; (apply bezier_1 || apply bezier_0); assumption.
Qed.

(* ------------------------------------------------------------------ *)
(** * Position *)
Lemma vec4_eq_refl v : vec4_eq v v.
Proof. unfold vec4_eq. repeat split; reflexivity. Qed.

Lemma len_ok_le7 l : len_ok l = true -> (length l <= 7)%nat.
Proof.
  unfold len_ok.
  destruct (length l) as [|[|[|[|[|[|[|[|n]]]]]]]]; intros H; try discriminate H; lia.
Qed.

Lemma eval_dseg_eq scale start s u : wf_sseg s = true ->
  vec4_eq (eval4 (poly4 (dseg scale start s)) u) (bez4 (ctrl scale start s) u).
Proof.
  intros Hwf. apply wf_sseg_spec in Hwf. destruct Hwf as (_ & Lx & Ly & Lz & Lw).
  apply len_ok_le7 in Lx, Ly, Lz, Lw.
  unfold vec4_eq, eval4, poly4, dseg, bez4, ctrl. cbn [sg_x sg_y sg_z sg_yaw vx vy vz vyaw].
  repeat split; apply qbez_alg_is_bezier; cbn [length]; rewrite map_length; lia.
Qed.

Lemma seek_fwd_fin tr : t_scale tr <> 0 ->
  forall segs fuel c q, forallb wf_sseg segs = true ->
  c_rest c = flat_map enc_sseg segs ->
  (length (c_rest c) < fuel)%nat ->
  0 <= c_start_ms c -> sum_dur segs (c_start_ms c) < 4294967296 ->
  exists l, seek_fwd fuel tr c (QFin q) = Ok l /\
    vec4_eq (position_of l) (pos_from (t_scale tr) (c_start c) (c_start_ms c) segs q).
Proof.
  intros Hs. induction segs as [|s segs IH]; intros fuel c q Hwf Hrest Hfuel Hms Hsum.
  - destruct fuel as [|f]; [lia|].
    cbn [seek_fwd flat_map] in *. rewrite Hrest. cbn [decode_segment bind].
    eexists. split; [reflexivity|]. cbn [position_of pos_from]. apply vec4_eq_refl.
  - destruct fuel as [|f]; [lia|].
    cbn [forallb] in Hwf. apply andb_prop in Hwf. destruct Hwf as [Hw Hws].
    cbn [flat_map] in Hrest.
    cbn [seek_fwd]. rewrite Hrest.
    rewrite decode_segment_enc by assumption. cbn [bind].
    change (sg_dur (dseg (t_scale tr) (c_start c) s)) with (ss_dur s).
    pose proof (sum_dur_bounds segs (c_start_ms c + ss_dur s) Hws) as Hb.
    pose proof (wf_sseg_spec s Hw) as (Hd & _).
    change (sum_dur (s :: segs) (c_start_ms c)) with (sum_dur segs (c_start_ms c + ss_dur s)) in Hsum.
    assert (Hu : u32 (c_start_ms c + ss_dur s) = c_start_ms c + ss_dur s).
    { unfold u32. apply Z.mod_small. lia. }
    rewrite Hu. cbn [before pos_from].
    destruct (Qltb (ms_sec (c_start_ms c + ss_dur s)) q) eqn:E.
    + destruct (IH f (next_cursor c (dseg (t_scale tr) (c_start c) s) (flat_map enc_sseg segs)) q Hws)
        as (l & Hl & Hv).
      * reflexivity.
      * cbn [next_cursor c_rest]. rewrite Hrest in Hfuel.
        pose proof (enc_sseg_app_length s (flat_map enc_sseg segs)). lia.
      * cbn [next_cursor c_start_ms].
        change (sg_dur (dseg (t_scale tr) (c_start c) s)) with (ss_dur s). rewrite Hu. lia.
      * cbn [next_cursor c_start_ms].
        change (sg_dur (dseg (t_scale tr) (c_start c) s)) with (ss_dur s). rewrite Hu. exact Hsum.
      * exists l. split; [exact Hl|].
        cbn [next_cursor c_start_ms c_start] in Hv.
        change (sg_dur (dseg (t_scale tr) (c_start c) s)) with (ss_dur s) in Hv.
        rewrite Hu in Hv. exact Hv.
    + eexists. split; [reflexivity|]. cbn [position_of rel_time].
      change (sg_dur (dseg (t_scale tr) (c_start c) s)) with (ss_dur s).
      destruct (ss_dur s =? 0) eqn:E0; apply eval_dseg_eq; exact Hw.
Qed.

Lemma seek_fwd_inf tr : t_scale tr <> 0 ->
  forall segs fuel c, forallb wf_sseg segs = true ->
  c_rest c = flat_map enc_sseg segs ->
  (length (c_rest c) < fuel)%nat ->
  exists c', seek_fwd fuel tr c QPosInf = Ok (OnEnd c') /\
    c_start c' = end_from (t_scale tr) (c_start c) segs.
Proof.
  intros Hs. induction segs as [|s segs IH]; intros fuel c Hwf Hrest Hfuel.
  - destruct fuel as [|f]; [lia|].
    cbn [seek_fwd flat_map] in *. rewrite Hrest. cbn [decode_segment bind].
    eexists. split; reflexivity.
  - destruct fuel as [|f]; [lia|].
    cbn [forallb] in Hwf. apply andb_prop in Hwf. destruct Hwf as [Hw Hws].
    cbn [flat_map] in Hrest.
    cbn [seek_fwd]. rewrite Hrest.
    rewrite decode_segment_enc by assumption. cbn [bind before].
    destruct (IH f (next_cursor c (dseg (t_scale tr) (c_start c) s) (flat_map enc_sseg segs)) Hws)
      as (c' & Hl & Hv).
    + reflexivity.
    + cbn [next_cursor c_rest]. rewrite Hrest in Hfuel.
      pose proof (enc_sseg_app_length s (flat_map enc_sseg segs)). lia.
    + exists c'. split; [exact Hl|]. exact Hv.
Qed.

Theorem position_exact : forall T t, wf_straj T = true -> total_ms T < 4294967296 ->
  exists tr p, traj_init (encode_traj T) = Ok tr /\ position_at tr t = Ok p /\
    vec4_eq p (traj_pos T t).
Proof.
  intros T t Hwf Htot. destruct (traj_init_enc T Hwf) as [Hi Hsk].
  apply wf_straj_spec in Hwf. destruct Hwf as (Hs & Hsegs & _).
  exists (enc_tr T).
  assert (Hscale : t_scale (enc_tr T) <> 0) by (cbn [enc_tr t_scale]; lia).
  assert (Hfuel : (length (c_rest (cursor0 (enc_tr T))) < S (length (t_bytes (enc_tr T))))%nat).
  { unfold cursor0. cbn [c_rest].
    pose proof (skipn_length_le traj_header_length (t_bytes (enc_tr T))). lia. }
  assert (Hseek : seek (enc_tr T) (cursor0 (enc_tr T)) t =
                  seek_fwd (S (length (t_bytes (enc_tr T)))) (enc_tr T) (cursor0 (enc_tr T)) (clamp0 t)).
  { unfold seek. cbv zeta. destruct (after _ _); reflexivity. }
  unfold position_at, traj_pos. rewrite Hseek.
  destruct (clamp0 t) as [| |q] eqn:Ec.
  - exfalso. destruct t as [| |q]; cbn [clamp0] in Ec; try discriminate Ec.
    destruct (Qle_bool q 0); discriminate Ec.
  - destruct (seek_fwd_inf (enc_tr T) Hscale (st_segs T) _ (cursor0 (enc_tr T)) Hsegs Hsk Hfuel)
      as (c' & Hl & Hv).
    rewrite Hl. cbn [bind position_of]. eexists. split; [exact Hi|]. split; [reflexivity|].
    rewrite Hv. apply vec4_eq_refl.
  - destruct (seek_fwd_fin (enc_tr T) Hscale (st_segs T) _ (cursor0 (enc_tr T)) q Hsegs Hsk Hfuel)
      as (l & Hl & Hv).
    + cbn [cursor0 c_start_ms]. lia.
    + exact Htot.
    + rewrite Hl. cbn [bind]. eexists. split; [exact Hi|]. split; [reflexivity|].
      exact Hv.
Qed.
