(** Proofs for C20: the binary32 rounding model, src/utils.c, the float parts
    of src/lights/colors.c and src/buffer.c. *)
From Coq Require Import ZArith QArith Qround Qabs Qpower List Lia Lqa ZifyBool.
From SB Require Import Base.Prelude Base.Num Base.F32 Gen.Generated Model.Colors Model.Utils Model.Buffer.
Import ListNotations.
Local Open Scope Q_scope.

(** * Boolean comparisons on Q *)
Lemma Qltb_true a b : Qltb a b = true <-> a < b.
Proof.
  unfold Qltb. rewrite Bool.negb_true_iff. split; intros H.
  - apply Qnot_le_lt. intros H1. apply Qle_bool_iff in H1. congruence.
  - destruct (Qle_bool b a) eqn:E; [|reflexivity].
    apply Qle_bool_iff in E. exfalso. apply (Qlt_not_le _ _ H E).
Qed.

Lemma Qltb_false a b : Qltb a b = false <-> b <= a.
Proof.
  unfold Qltb. rewrite Bool.negb_false_iff. apply Qle_bool_iff.
Qed.

Lemma Qle_bool_false a b : Qle_bool a b = false <-> b < a.
Proof.
  split; intros H.
  - apply Qnot_le_lt. intros H1. apply Qle_bool_iff in H1. congruence.
  - destruct (Qle_bool a b) eqn:E; [|reflexivity].
    apply Qle_bool_iff in E. exfalso. apply (Qlt_not_le _ _ H E).
Qed.

Lemma Qeq_bool_false a b : Qeq_bool a b = false <-> ~ a == b.
Proof.
  split; intros H.
  - apply Qeq_bool_neq; exact H.
  - destruct (Qeq_bool a b) eqn:E; [|reflexivity]. apply Qeq_bool_iff in E. contradiction.
Qed.

(** * RGBW, integer methods *)
Lemma rgbw_min_sub_law : forall c, (0 <= red c <= 255)%Z -> (0 <= green c <= 255)%Z -> (0 <= blue c <= 255)%Z ->
  let o := rgbw_min_sub c in
  (ww o = Z.min (red c) (Z.min (green c) (blue c)) /\
   wr o + ww o = red c /\ wg o + ww o = green c /\ wb o + ww o = blue c /\
   (wr o = 0 \/ wg o = 0 \/ wb o = 0))%Z.
Proof.
  intros c Hr Hg Hb. unfold rgbw_min_sub. cbn [wr wg wb ww]. lia.
Qed.

Lemma rgbw_fixed_law : forall c w, let o := rgbw_fixed c w in
  wr o = red c /\ wg o = green c /\ wb o = blue c /\ ww o = w.
Proof. intros c w. unfold rgbw_fixed. cbn [wr wg wb ww]. auto. Qed.

(** * Travel time *)
Lemma travel_time_special : forall d v a,
  (d < 0 -> travel_time (FVal d) (FVal v) (FVal a) = FInf false) /\
  (v <= 0 -> travel_time (FVal d) (FVal v) (FVal a) = FInf false) /\
  (a <= 0 -> travel_time (FVal d) (FVal v) (FVal a) = FInf false) /\
  (0 < v -> 0 < a -> d == 0 -> travel_time (FVal d) (FVal v) (FVal a) = FVal 0) /\
  (0 < d -> 0 < v -> travel_time (FVal d) (FVal v) (FInf false) = FVal (fdiv d v)).
Proof.
  intros d v a. unfold travel_time.
  split; [|split; [|split; [|split]]].
  - intros H. apply Qltb_true in H. rewrite H. reflexivity.
  - intros H. apply Qle_bool_iff in H. rewrite H. rewrite Bool.orb_true_r. reflexivity.
  - intros H. apply Qle_bool_iff in H. rewrite H. rewrite Bool.orb_true_r. reflexivity.
  - intros Hv Ha Hd.
    assert (E1 : Qltb d 0 = false) by (apply Qltb_false; rewrite Hd; apply Qle_refl).
    assert (E2 : Qle_bool v 0 = false) by (apply Qle_bool_false; exact Hv).
    assert (E3 : Qle_bool a 0 = false) by (apply Qle_bool_false; exact Ha).
    rewrite E1, E2, E3. cbn [orb]. unfold is_zero.
    assert (E4 : Qeq_bool d 0 = true) by (apply Qeq_bool_iff; exact Hd).
    rewrite E4. reflexivity.
  - intros Hd Hv.
    assert (E1 : Qltb d 0 = false) by (apply Qltb_false; apply Qlt_le_weak; exact Hd).
    assert (E2 : Qle_bool v 0 = false) by (apply Qle_bool_false; exact Hv).
    rewrite E1, E2. cbn [orb]. unfold is_zero.
    assert (E4 : Qeq_bool d 0 = false).
    { apply Qeq_bool_false. intros E. rewrite E in Hd. apply (Qlt_irrefl _ Hd). }
    rewrite E4. unfold fn_div.
    assert (E5 : Qeq_bool v 0 = false).
    { apply Qeq_bool_false. intros E. rewrite E in Hv. apply (Qlt_irrefl _ Hv). }
    rewrite E5. reflexivity.
Qed.

Definition cruise_time (d v a : Q) : Q := d / v + v / a.
Definition reaches_full_speed (d v a : Q) : bool := Qle_bool (v * v / a) d.

Lemma profile_is_cruise_form : forall d v a, 0 < v -> 0 < a ->
  let t1 := v / a in let s1 := a / 2 * t1 * t1 in
  2 * t1 + (d - 2 * s1) / v == cruise_time d v a /\ 2 * s1 == v * v / a.
Proof.
  intros d v a Hv Ha. cbv zeta. unfold cruise_time.
  assert (Hv' : ~ v == 0) by (intros E; rewrite E in Hv; apply (Qlt_irrefl _ Hv)).
  assert (Ha' : ~ a == 0) by (intros E; rewrite E in Ha; apply (Qlt_irrefl _ Ha)).
  split; field; auto.
Qed.

Lemma profile_regimes_meet : forall v a, 0 < v -> 0 < a ->
  let d := v * v / a in
  cruise_time d v a == 2 * (v / a) /\ (2 * (v / a)) * (2 * (v / a)) == 4 * d / a.
Proof.
  intros v a Hv Ha. cbv zeta. unfold cruise_time.
  assert (Hv' : ~ v == 0) by (intros E; rewrite E in Hv; apply (Qlt_irrefl _ Hv)).
  assert (Ha' : ~ a == 0) by (intros E; rewrite E in Ha; apply (Qlt_irrefl _ Ha)).
  split; field; auto.
Qed.

Lemma cruise_time_monotone : forall d1 d2 v a, 0 < v -> 0 < a -> d1 <= d2 ->
  cruise_time d1 v a <= cruise_time d2 v a.
Proof.
  intros d1 d2 v a Hv Ha Hd. unfold cruise_time.
  apply Qplus_le_l. unfold Qdiv. apply Qmult_le_compat_r; [exact Hd|].
  apply Qlt_le_weak. apply Qinv_lt_0_compat. exact Hv.
Qed.

(** * Seconds to milliseconds: non-finite arguments *)
Lemma msec_conversion_nonfinite :
  msec_of_sec FNan = Err SB_EINVAL /\ msec_of_sec (FInf true) = Err SB_EINVAL /\ msec_of_sec (FInf false) = Err SB_EOVERFLOW.
Proof. repeat split. Qed.

(** * Interval expansion *)
Lemma expand_never_inverts : forall lo hi off a b, lo <= hi ->
  interval_expand lo hi off = (a, b) -> a <= b.
Proof.
  intros lo hi off a b _. unfold interval_expand.
  destruct (Qltb (fadd hi off) (fsub lo off)) eqn:E; intros H; injection H as <- <-.
  - apply Qle_refl.
  - apply Qltb_false in E. exact E.
Qed.

(** * The growable byte buffer *)
Section BufferProofs.
Local Open Scope nat_scope.

Definition buf_ok (b : buffer) : Prop := (bf_size b <= bf_cap b)%nat /\ (bf_owned b = true -> 1 <= bf_cap b)%nat.

Lemma grow_ge_cap : forall f cap need, cap <= grow f cap need.
Proof.
  induction f as [|f IH]; intros cap need; cbn [grow]; [lia|].
  destruct (cap <? need) eqn:E; [|lia].
  specialize (IH (2 * cap) need). lia.
Qed.

Lemma grow_ge : forall f cap need,
  (Z.of_nat need <= Z.of_nat cap * 2 ^ Z.of_nat f)%Z -> need <= grow f cap need.
Proof.
  induction f as [|f IH]; intros cap need H; cbn [grow].
  - change (2 ^ Z.of_nat 0)%Z with 1%Z in H. lia.
  - destruct (cap <? need) eqn:E; [|apply Nat.ltb_ge in E; exact E].
    apply IH. rewrite Nat2Z.inj_succ, Z.pow_succ_r in H by lia.
    rewrite Nat2Z.inj_mul. change (Z.of_nat 2) with 2%Z. lia.
Qed.

Lemma grow_gt : forall f cap need, cap < need -> 2 * cap <= grow (S f) cap need.
Proof.
  intros f cap need H. cbn [grow]. apply Nat.ltb_lt in H. rewrite H. apply grow_ge_cap.
Qed.

Lemma grow64_ge cap need : 1 <= cap -> (Z.of_nat need <= 2 ^ 64)%Z -> need <= grow 64 cap need.
Proof.
  intros Hc Hn. apply grow_ge. change (Z.of_nat 64) with 64%Z.
  assert (0 < 2 ^ 64)%Z by (apply Z.pow_pos_nonneg; lia). nia.
Qed.

Lemma firstn_all_le {A} n (l : list A) : length l <= n -> firstn n l = l.
Proof. intros H. apply firstn_all2. exact H. Qed.

(** buf_realloc, fully characterised *)
Lemma buf_realloc_ok b c b' : buf_ok b -> bf_size b <= Nat.max c 1 -> buf_realloc b c = Ok b' ->
  bf_data b' = bf_data b /\ bf_cap b' = Nat.max c 1 /\ bf_owned b' = bf_owned b.
Proof.
  intros [Hs Ho] Hc. unfold buf_realloc.
  destruct (bf_cap b =? Nat.max c 1) eqn:E.
  - intros H; injection H as <-. apply Nat.eqb_eq in E. auto.
  - destruct (bf_owned b) eqn:Eo; cbn [negb]; intros H; [|discriminate].
    injection H as <-. cbn [bf_data bf_cap bf_owned].
    split; [|auto]. apply firstn_all_le. exact Hc.
Qed.

Lemma buf_ensure_ok b n b' : buf_ok b -> (Z.of_nat (bf_size b + n) <= 2 ^ 64)%Z ->
  buf_ensure b n = Ok b' ->
  bf_data b' = bf_data b /\ bf_size b + n <= bf_cap b' /\ bf_owned b' = bf_owned b /\ buf_ok b'.
Proof.
  intros Hok Hb. unfold buf_ensure.
  destruct (n =? 0) eqn:E.
  - apply Nat.eqb_eq in E. intros H; injection H as <-. destruct Hok as [Hs Ho]. subst n.
    split; [reflexivity|]. split; [lia|]. split; [reflexivity|]. split; assumption.
  - intros H.
    set (g := grow 64 (Nat.max (bf_cap b) 1) (bf_size b + n)) in *.
    assert (Hg : bf_size b + n <= g) by (apply grow64_ge; [lia|exact Hb]).
    apply buf_realloc_ok in H; [|exact Hok|lia].
    destruct H as (Hd & Hc & Ho). split; [exact Hd|]. split; [lia|]. split; [exact Ho|].
    unfold buf_ok, bf_size. rewrite Hd, Hc. fold (bf_size b). split; lia.
Qed.

Lemma buffer_refines_list' : forall b bytes n v, buf_ok b ->
  ((Z.of_nat (bf_size b + length bytes) < 2 ^ 60)%Z ->
   forall b', buf_append b bytes = Ok b' -> bf_data b' = bf_data b ++ bytes /\ buf_ok b' /\ bf_owned b' = bf_owned b) /\
  ((Z.of_nat (bf_size b + (bf_size b + n)) < 2 ^ 60)%Z ->
   forall b', buf_extend_zeros b n = Ok b' -> bf_data b' = bf_data b ++ repeat 0%Z n /\ buf_ok b') /\
  (forall b', buf_resize b n = Ok b' ->
     bf_data b' = firstn n (bf_data b) ++ repeat 0%Z (n - bf_size b) /\ buf_ok b') /\
  (forall b', buf_prune b = Ok b' -> bf_data b' = bf_data b /\ buf_ok b') /\
  (bf_data (buf_fill b v) = repeat v (bf_size b) /\ buf_ok (buf_fill b v)).
Proof.
  intros b bytes n v Hok.
  assert (H60 : (2 ^ 60 <= 2 ^ 64)%Z) by (apply Z.pow_le_mono_r; lia).
  split; [|split; [|split; [|split]]].
  - intros Hb b'. unfold buf_append.
    destruct (buf_ensure b (length bytes)) as [b1| | |] eqn:E; cbn [bind]; intros H; try discriminate.
    injection H as <-. apply buf_ensure_ok in E; [|exact Hok|lia].
    destruct E as (Hd & Hc & Ho & [Hs1 Ho1]). cbn [bf_data bf_cap bf_owned].
    split; [rewrite Hd; reflexivity|]. split; [|exact Ho].
    unfold buf_ok, bf_size. cbn [bf_data bf_cap bf_owned]. rewrite app_length, Hd.
    fold (bf_size b). split; [lia|exact Ho1].
  - intros Hb b'. unfold buf_extend_zeros.
    destruct (buf_ensure b (bf_size b + n)) as [b1| | |] eqn:E; cbn [bind]; intros H; try discriminate.
    injection H as <-. apply buf_ensure_ok in E; [|exact Hok|lia].
    destruct E as (Hd & Hc & Ho & [Hs1 Ho1]). cbn [bf_data bf_cap bf_owned].
    split; [rewrite Hd; reflexivity|].
    unfold buf_ok, bf_size. cbn [bf_data bf_cap bf_owned]. rewrite app_length, repeat_length, Hd.
    fold (bf_size b). split; [lia|exact Ho1].
  - intros b'. unfold buf_resize.
    destruct (bf_owned b) eqn:Eo; cbn [negb]; [|discriminate].
    destruct (bf_size b <? n) eqn:En.
    + apply Nat.ltb_lt in En.
      destruct (buf_realloc b n) as [b1| | |] eqn:E; cbn [bind]; intros H; try discriminate.
      injection H as <-. apply buf_realloc_ok in E; [|exact Hok|lia].
      destruct E as (Hd & Hc & Ho). cbn [bf_data bf_cap bf_owned].
      unfold bf_size at 1. rewrite Hd. fold (bf_size b).
      split; [rewrite firstn_all_le by (fold (bf_size b); lia); reflexivity|].
      unfold buf_ok, bf_size. cbn [bf_data bf_cap bf_owned]. rewrite app_length, repeat_length, Hc, Hd.
      fold (bf_size b). split; lia.
    + apply Nat.ltb_ge in En. intros H; injection H as <-. cbn [bf_data bf_cap bf_owned].
      replace (n - bf_size b) with 0 by lia. cbn [repeat]. rewrite app_nil_r.
      split; [reflexivity|]. destruct Hok as [Hs Ho].
      unfold buf_ok, bf_size. cbn [bf_data bf_cap bf_owned]. rewrite firstn_length.
      fold (bf_size b). split; [lia|intros _; exact (Ho Eo)].
  - intros b' H. unfold buf_prune in H. apply buf_realloc_ok in H; [|exact Hok|lia].
    destruct H as (Hd & Hc & Ho). split; [exact Hd|].
    unfold buf_ok, bf_size. rewrite Hd, Hc. fold (bf_size b). split; lia.
  - unfold buf_fill. cbn [bf_data]. split; [reflexivity|]. destruct Hok as [Hs Ho].
    unfold buf_ok, bf_size. cbn [bf_data bf_cap bf_owned]. rewrite repeat_length.
    fold (bf_size b). split; assumption.
Qed.

Lemma view_realloc_fails b c : bf_owned b = false -> bf_cap b < Nat.max c 1 -> buf_realloc b c = Err SB_FAILURE.
Proof.
  intros Ho Hc. unfold buf_realloc.
  destruct (bf_cap b =? Nat.max c 1) eqn:E; [apply Nat.eqb_eq in E; lia|].
  rewrite Ho. reflexivity.
Qed.

Lemma view_ensure_fails b n : bf_owned b = false -> bf_cap b = bf_size b -> 0 < n -> buf_ensure b n = Err SB_FAILURE.
Proof.
  intros Ho Hc Hn. unfold buf_ensure.
  destruct (n =? 0) eqn:E; [apply Nat.eqb_eq in E; lia|].
  apply view_realloc_fails; [exact Ho|].
  destruct (Nat.max (bf_cap b) 1 <? bf_size b + n) eqn:E1.
  - apply Nat.ltb_lt in E1. pose proof (grow_gt 63 _ _ E1) as G. lia.
  - apply Nat.ltb_ge in E1. pose proof (grow_ge_cap 64 (Nat.max (bf_cap b) 1) (bf_size b + n)) as G. lia.
Qed.

(** [buf_prune] of an EMPTY view fails (capacity 0 is not max 0 1): the
    last conjunct needs a non-empty view. *)
Lemma view_cannot_change_size' : forall b bytes n, bf_owned b = false -> bf_cap b = bf_size b ->
  (bytes <> [] -> buf_append b bytes = Err SB_FAILURE) /\
  buf_resize b n = Err SB_FAILURE /\
  (0 < n -> buf_extend_zeros b n = Err SB_FAILURE)%nat /\
  (1 <= bf_size b -> buf_prune b = Ok b)%nat.
Proof.
  intros b bytes n Ho Hc. split; [|split; [|split]].
  - intros Hb. unfold buf_append. rewrite view_ensure_fails; auto.
    destruct bytes; [congruence|cbn [length]; lia].
  - unfold buf_resize. rewrite Ho. reflexivity.
  - intros Hn. unfold buf_extend_zeros. rewrite view_ensure_fails; auto. lia.
  - intros Hs. unfold buf_prune, buf_realloc.
    destruct (bf_cap b =? Nat.max (bf_size b) 1) eqn:E; [reflexivity|].
    apply Nat.eqb_neq in E. lia.
Qed.

Lemma view_prune_empty_counterexample :
  let b := mkbuf [] 0 false in
  bf_owned b = false /\ bf_cap b = bf_size b /\ buf_prune b = Err SB_FAILURE.
Proof. repeat split. Qed.

End BufferProofs.
(** * Powers of two *)
Lemma pow2_Qpower e : pow2 e == 2 ^ e.
Proof.
  unfold pow2. destruct (0 <=? e)%Z eqn:E.
  - apply Z.leb_le in E. rewrite Zpower_Qpower by exact E. reflexivity.
  - apply Z.leb_gt in E. destruct e as [|p|p]; try lia.
    change (Z.to_pos (- Z.neg p)) with p.
    change (2 ^ Z.neg p) with (/ (inject_Z 2 ^ Z.pos p)).
    rewrite <- Zpower_Qpower by lia.
    rewrite <- Pos2Z.inj_pow. reflexivity.
Qed.

Lemma pow2_add a b : pow2 (a + b) == pow2 a * pow2 b.
Proof. rewrite !pow2_Qpower. apply Qpower_plus. discriminate. Qed.

Lemma pow2_nonneg_eq e : (0 <= e)%Z -> pow2 e = inject_Z (2 ^ e).
Proof. intros H. unfold pow2. apply Z.leb_le in H. rewrite H. reflexivity. Qed.

Lemma pow2_pos e : 0 < pow2 e.
Proof.
  unfold pow2. destruct (0 <=? e)%Z eqn:E.
  - apply Z.leb_le in E. rewrite <- (Zlt_Qlt 0). apply Z.pow_pos_nonneg; lia.
  - reflexivity.
Qed.

Lemma pow2_0 : pow2 0 == 1.
Proof. reflexivity. Qed.

Lemma pow2_opp e : pow2 (- e) == / pow2 e.
Proof.
  assert (H : pow2 e * pow2 (- e) == 1).
  { rewrite <- pow2_add. replace (e + - e)%Z with 0%Z by lia. reflexivity. }
  pose proof (pow2_pos e) as Hp.
  assert (Hn : ~ pow2 e == 0) by (intros E; rewrite E in Hp; apply (Qlt_irrefl _ Hp)).
  rewrite <- (Qmult_1_l (/ pow2 e)). rewrite <- H. field. exact Hn.
Qed.

Lemma pow2_ge1 e : (0 <= e)%Z -> 1 <= pow2 e.
Proof.
  intros H. rewrite pow2_nonneg_eq by exact H. rewrite <- (Zle_Qle 1).
  assert (0 < 2 ^ e)%Z by (apply Z.pow_pos_nonneg; lia). lia.
Qed.

Lemma pow2_le_mono a b : (a <= b)%Z -> pow2 a <= pow2 b.
Proof.
  intros H. replace b with (a + (b - a))%Z by lia. rewrite pow2_add.
  pose proof (pow2_ge1 (b - a) ltac:(lia)) as H1. pose proof (pow2_pos a) as H2.
  rewrite <- (Qmult_1_r (pow2 a)) at 1. apply Qmult_le_l; assumption.
Qed.

Lemma pow2_lt_inv a b : pow2 a < pow2 b -> (a < b)%Z.
Proof.
  intros H. destruct (Z_lt_le_dec a b) as [L|L]; [exact L|].
  apply pow2_le_mono in L. exfalso. apply (Qlt_not_le _ _ H L).
Qed.

Lemma pow2_succ e : pow2 (e + 1) == 2 * pow2 e.
Proof. rewrite pow2_add. change (pow2 1) with 2. ring. Qed.

(** pow2 (x - y) as an explicit fraction *)
Lemma pow2_sub x y : (0 <= x)%Z -> (0 <= y)%Z -> pow2 (x - y) == Qmake (2 ^ x) (Z.to_pos (2 ^ y)).
Proof.
  intros Hx Hy. replace (x - y)%Z with (x + - y)%Z by lia.
  rewrite pow2_add, pow2_opp, !pow2_nonneg_eq by assumption.
  assert (0 < 2 ^ y)%Z by (apply Z.pow_pos_nonneg; lia).
  rewrite (Qmake_Qdiv (2 ^ x)). rewrite Z2Pos.id by assumption. reflexivity.
Qed.

(** * The exponent *)
Lemma exponent_spec a : 0 < a -> pow2 (exponent a) <= a /\ a < pow2 (exponent a + 1).
Proof.
  intros Ha. destruct a as [n d]. unfold exponent. cbn [Qnum Qden].
  assert (Hn : (0 < n)%Z) by (unfold Qlt in Ha; cbn in Ha; lia).
  set (ln := Z.log2 n). set (ld := Z.log2 (Z.pos d)).
  assert (Hln : (0 <= ln)%Z) by apply Z.log2_nonneg.
  assert (Hld : (0 <= ld)%Z) by apply Z.log2_nonneg.
  destruct (Z.log2_spec n Hn) as [N1 N2]. fold ln in N1, N2.
  destruct (Z.log2_spec (Z.pos d) ltac:(lia)) as [D1 D2]. fold ld in D1, D2.
  assert (P1 : (0 < 2 ^ ln)%Z) by (apply Z.pow_pos_nonneg; lia).
  assert (P2 : (0 < 2 ^ ld)%Z) by (apply Z.pow_pos_nonneg; lia).
  destruct (Qle_bool (pow2 (ln - ld)) (n # d)) eqn:E.
  - split; [apply Qle_bool_iff; exact E|].
    replace (ln - ld + 1)%Z with ((ln + 1) - ld)%Z by lia.
    rewrite pow2_sub by lia. unfold Qlt. cbn [Qnum Qden]. rewrite Z2Pos.id by lia.
    replace (Z.succ ln) with (ln + 1)%Z in N2 by lia. nia.
  - replace (ln - ld - 1 + 1)%Z with (ln - ld)%Z by lia.
    split.
    + replace (ln - ld - 1)%Z with (ln - (ld + 1))%Z by lia.
      rewrite pow2_sub by lia. unfold Qle. cbn [Qnum Qden].
      assert (0 < 2 ^ (ld + 1))%Z by (apply Z.pow_pos_nonneg; lia).
      rewrite Z2Pos.id by lia. replace (Z.succ ld) with (ld + 1)%Z in D2 by lia. nia.
    + apply Qnot_le_lt. intros H. apply Qle_bool_iff in H. congruence.
Qed.

Lemma exponent_unique a e : pow2 e <= a -> a < pow2 (e + 1) -> 0 < a -> exponent a = e.
Proof.
  intros L U Ha. destruct (exponent_spec a Ha) as [L' U'].
  assert (H1 : (e < exponent a + 1)%Z) by (apply pow2_lt_inv; eapply Qle_lt_trans; eassumption).
  assert (H2 : (exponent a < e + 1)%Z) by (apply pow2_lt_inv; eapply Qle_lt_trans; eassumption).
  lia.
Qed.

Lemma exponent_comp a b : 0 < a -> a == b -> exponent a = exponent b.
Proof.
  intros Ha E. destruct (exponent_spec a Ha) as [L U].
  symmetry. apply exponent_unique; rewrite <- E; assumption.
Qed.

Lemma exponent_ge a E : 0 < a -> pow2 E <= a -> (E <= exponent a)%Z.
Proof.
  intros Ha L. destruct (exponent_spec a Ha) as [_ U].
  assert (E < exponent a + 1)%Z by (apply pow2_lt_inv; eapply Qle_lt_trans; eassumption). lia.
Qed.

Lemma exponent_le a E : 0 < a -> a < pow2 (E + 1) -> (exponent a <= E)%Z.
Proof.
  intros Ha U. destruct (exponent_spec a Ha) as [L _].
  assert (exponent a < E + 1)%Z by (apply pow2_lt_inv; eapply Qle_lt_trans; eassumption). lia.
Qed.
(** * Rounding to the nearest integer, ties to even *)
Lemma rhe_cases x :
  let m := Qfloor x in let f := x - inject_Z m in
  (f < 1 # 2 /\ round_half_even x = m) \/
  ((1 # 2) < f /\ round_half_even x = (m + 1)%Z) \/
  (f == 1 # 2 /\ round_half_even x = if Z.even m then m else (m + 1)%Z).
Proof.
  cbv zeta. unfold round_half_even.
  set (m := Qfloor x).
  destruct (Qcompare (Qred (x - inject_Z m)) (1 # 2)) eqn:E.
  - right; right. apply Qeq_alt in E. rewrite Qred_correct in E. auto.
  - left. apply Qlt_alt in E. rewrite Qred_correct in E. auto.
  - right; left. apply Qgt_alt in E. rewrite Qred_correct in E. auto.
Qed.

Lemma rhe_floor_bounds x : inject_Z (Qfloor x) <= x /\ x < inject_Z (Qfloor x) + 1.
Proof.
  split; [apply Qfloor_le|]. pose proof (Qlt_floor x) as H. rewrite inject_Z_plus in H. exact H.
Qed.

Lemma rhe_error x : - (1 # 2) <= inject_Z (round_half_even x) - x <= 1 # 2.
Proof.
  destruct (rhe_floor_bounds x) as [L U].
  destruct (rhe_cases x) as [[F ->]|[[F ->]|[F ->]]]; cbv zeta in F.
  - split; lra.
  - rewrite inject_Z_plus. change (inject_Z 1) with 1. split; lra.
  - destruct (Z.even (Qfloor x)); [|rewrite inject_Z_plus; change (inject_Z 1) with 1]; split; lra.
Qed.

Lemma rhe_Z n : round_half_even (inject_Z n) = n.
Proof.
  destruct (rhe_cases (inject_Z n)) as [[F ->]|[[F ->]|[F ->]]]; cbv zeta in F;
    rewrite Qfloor_Z in *; try reflexivity; exfalso; lra.
Qed.

Lemma rhe_comp x y : x == y -> round_half_even x = round_half_even y.
Proof.
  intros E. unfold round_half_even. rewrite (Qfloor_comp _ _ E).
  assert (H : Qred (x - inject_Z (Qfloor y)) == Qred (y - inject_Z (Qfloor y))).
  { rewrite !Qred_correct, E. reflexivity. }
  rewrite (Qcompare_comp _ _ H _ _ (Qeq_refl (1 # 2))). reflexivity.
Qed.

Lemma rhe_mono x y : x <= y -> (round_half_even x <= round_half_even y)%Z.
Proof.
  intros H. pose proof (Qfloor_resp_le _ _ H) as Hf.
  destruct (rhe_floor_bounds x) as [Lx Ux]. destruct (rhe_floor_bounds y) as [Ly Uy].
  assert (Bx : (Qfloor x <= round_half_even x <= Qfloor x + 1)%Z).
  { destruct (rhe_cases x) as [[F ->]|[[F ->]|[F ->]]]; [lia|lia|destruct (Z.even (Qfloor x)); lia]. }
  assert (By : (Qfloor y <= round_half_even y <= Qfloor y + 1)%Z).
  { destruct (rhe_cases y) as [[F ->]|[[F ->]|[F ->]]]; [lia|lia|destruct (Z.even (Qfloor y)); lia]. }
  destruct (Z.eq_dec (Qfloor x) (Qfloor y)) as [Em|Em]; [|lia].
  destruct (rhe_cases x) as [[Fx Rx]|[[Fx Rx]|[Fx Rx]]]; cbv zeta in Fx; [lia| |].
  - destruct (rhe_cases y) as [[Fy Ry]|[[Fy Ry]|[Fy Ry]]]; cbv zeta in Fy; rewrite <- Em in *.
    + exfalso; lra.
    + lia.
    + exfalso; lra.
  - destruct (rhe_cases y) as [[Fy Ry]|[[Fy Ry]|[Fy Ry]]]; cbv zeta in Fy; rewrite <- Em in *.
    + exfalso; lra.
    + lia.
    + lia.
Qed.

(** * rnd32 on positive rationals *)
Definition rpos (a : Q) : Q :=
  inject_Z (round_half_even (a * pow2 (23 - exponent a))) * pow2 (exponent a - 23).

Lemma pow2_cancel e : pow2 (23 - e) * pow2 (e - 23) == 1.
Proof. rewrite <- pow2_add. replace (23 - e + (e - 23))%Z with 0%Z by lia. reflexivity. Qed.

Lemma pow2_e23 e : pow2 e == 8388608 * pow2 (e - 23).
Proof. replace e with (23 + (e - 23))%Z at 1 by lia. rewrite pow2_add. reflexivity. Qed.

(** the scaled significand lies in [2^23, 2^24) *)
Lemma scaled_bounds a : 0 < a ->
  let s := a * pow2 (23 - exponent a) in 8388608 <= s /\ s < 16777216.
Proof.
  intros Ha. cbv zeta. destruct (exponent_spec a Ha) as [L U].
  set (e := exponent a) in *. pose proof (pow2_pos (23 - e)) as Hp.
  split.
  - change 8388608 with (pow2 23). replace 23%Z with (e + (23 - e))%Z at 1 by lia.
    rewrite pow2_add. apply Qmult_le_r; assumption.
  - change 16777216 with (pow2 24). replace 24%Z with ((e + 1) + (23 - e))%Z by lia.
    rewrite pow2_add. apply Qmult_lt_r; assumption.
Qed.

Lemma rhe_scaled_bounds a : 0 < a ->
  (8388608 <= round_half_even (a * pow2 (23 - exponent a)) <= 16777216)%Z.
Proof.
  intros Ha. destruct (scaled_bounds a Ha) as [L U]. cbv zeta in L, U.
  split.
  - rewrite <- (rhe_Z 8388608). apply rhe_mono. exact L.
  - rewrite <- (rhe_Z 16777216). apply rhe_mono. apply Qlt_le_weak. exact U.
Qed.

Lemma rpos_bounds a : 0 < a -> pow2 (exponent a) <= rpos a /\ rpos a <= pow2 (exponent a + 1).
Proof.
  intros Ha. destruct (rhe_scaled_bounds a Ha) as [L U]. unfold rpos.
  set (e := exponent a) in *. set (m := round_half_even _) in *.
  pose proof (pow2_pos (e - 23)) as Hp.
  rewrite Zle_Qle in L, U.
  split.
  - rewrite (pow2_e23 e). apply Qmult_le_r; assumption.
  - rewrite pow2_succ, (pow2_e23 e). rewrite Qmult_assoc. apply Qmult_le_r; assumption.
Qed.

Lemma rpos_pos a : 0 < a -> 0 < rpos a.
Proof.
  intros Ha. destruct (rpos_bounds a Ha) as [L _].
  eapply Qlt_le_trans; [apply pow2_pos|exact L].
Qed.

Lemma rpos_comp a b : 0 < a -> a == b -> rpos a == rpos b.
Proof.
  intros Ha E. unfold rpos. rewrite <- (exponent_comp a b Ha E).
  rewrite (rhe_comp (a * pow2 (23 - exponent a)) (b * pow2 (23 - exponent a))); [reflexivity|].
  apply Qmult_comp; [exact E|reflexivity].
Qed.

Lemma rpos_error a : 0 < a -> Qabs (rpos a - a) <= a * (1 # 16777216).
Proof.
  intros Ha. destruct (exponent_spec a Ha) as [L _]. unfold rpos.
  set (e := exponent a) in *.
  pose proof (rhe_error (a * pow2 (23 - e))) as [E1 E2].
  set (m := inject_Z (round_half_even (a * pow2 (23 - e)))) in *.
  set (s := a * pow2 (23 - e)) in *.
  pose proof (pow2_pos (e - 23)) as Hp. set (P := pow2 (e - 23)) in *.
  assert (Ea : a == s * P).
  { unfold s, P. rewrite <- Qmult_assoc, pow2_cancel. ring. }
  rewrite (pow2_e23 e) in L. fold P in L.
  assert (M1 : (m - s) * P <= (1 # 2) * P) by (apply Qmult_le_r; assumption).
  assert (M2 : - (1 # 2) * P <= (m - s) * P) by (apply Qmult_le_r; assumption).
  apply Qabs_Qle_condition. split; lra.
Qed.

Lemma rpos_mono a b : 0 < a -> a <= b -> rpos a <= rpos b.
Proof.
  intros Ha H. assert (Hb : 0 < b) by (eapply Qlt_le_trans; eassumption).
  destruct (exponent_spec a Ha) as [La Ua]. destruct (exponent_spec b Hb) as [Lb Ub].
  assert (He : (exponent a <= exponent b)%Z).
  { apply exponent_ge; [exact Hb|]. eapply Qle_trans; eassumption. }
  destruct (Z.eq_dec (exponent a) (exponent b)) as [Ee|Ee].
  - unfold rpos. rewrite <- Ee. apply Qmult_le_r; [apply pow2_pos|].
    rewrite <- Zle_Qle. apply rhe_mono. apply Qmult_le_r; [apply pow2_pos|exact H].
  - destruct (rpos_bounds a Ha) as [_ U]. destruct (rpos_bounds b Hb) as [L _].
    eapply Qle_trans; [exact U|]. eapply Qle_trans; [|exact L]. apply pow2_le_mono. lia.
Qed.

Lemma rpos_exact a : 0 < a -> (exists m, a * pow2 (23 - exponent a) == inject_Z m) -> rpos a == a.
Proof.
  intros Ha [m Hm]. unfold rpos. rewrite (rhe_comp _ _ Hm), rhe_Z, <- Hm.
  rewrite <- Qmult_assoc, pow2_cancel. ring.
Qed.

(** * rnd32 *)
Lemma rnd32_pos q : 0 < q -> rnd32 q == rpos q.
Proof.
  intros H. unfold rnd32. assert (H' : Qcompare q 0 = Gt) by (apply Qgt_alt; exact H). rewrite H'.
  cbv zeta. unfold Qabs'.
  assert (E : Qle_bool 0 q = true) by (apply Qle_bool_iff; apply Qlt_le_weak; exact H).
  rewrite E. rewrite Qred_correct. unfold rpos.
  rewrite (rhe_comp _ _ (Qred_correct _)). reflexivity.
Qed.

Lemma rnd32_neg q : q < 0 -> rnd32 q == - rpos (- q).
Proof.
  intros H. unfold rnd32. assert (H' : Qcompare q 0 = Lt) by (apply Qlt_alt; exact H). rewrite H'.
  cbv zeta. unfold Qabs'.
  assert (E : Qle_bool 0 q = false) by (apply Qle_bool_false; exact H).
  rewrite E. rewrite !Qred_correct. unfold rpos.
  rewrite (rhe_comp _ _ (Qred_correct _)). reflexivity.
Qed.

Lemma rnd32_zero q : q == 0 -> rnd32 q = 0.
Proof. intros H. unfold rnd32. assert (H' : Qcompare q 0 = Eq) by (apply Qeq_alt; exact H). rewrite H'. reflexivity. Qed.

Lemma rnd32_comp a b : a == b -> rnd32 a == rnd32 b.
Proof.
  intros E. destruct (Q_dec a 0) as [[H|H]|H].
  - rewrite (rnd32_neg a H), (rnd32_neg b) by (rewrite <- E; exact H).
    apply Qopp_comp. apply rpos_comp; [lra|rewrite E; reflexivity].
  - rewrite (rnd32_pos a H), (rnd32_pos b) by (rewrite <- E; exact H).
    apply rpos_comp; assumption.
  - rewrite (rnd32_zero a H), (rnd32_zero b) by (rewrite <- E; exact H). reflexivity.
Qed.

Global Instance rnd32_proper : Proper (Qeq ==> Qeq) rnd32.
Proof. intros a b E. apply rnd32_comp. exact E. Qed.

Lemma rnd32_opp q : rnd32 (- q) == - rnd32 q.
Proof.
  destruct (Q_dec q 0) as [[H|H]|H].
  - rewrite (rnd32_neg q H), (rnd32_pos (- q)) by lra. ring.
  - rewrite (rnd32_pos q H), (rnd32_neg (- q)) by lra.
    apply Qopp_comp. apply rpos_comp; [lra|ring].
  - rewrite (rnd32_zero q H), (rnd32_zero (- q)) by lra. reflexivity.
Qed.

Lemma rnd32_sign_pos q : 0 < q -> 0 < rnd32 q.
Proof. intros H. rewrite (rnd32_pos q H). apply rpos_pos. exact H. Qed.

Lemma rnd32_sign_neg q : q < 0 -> rnd32 q < 0.
Proof. intros H. rewrite (rnd32_neg q H). pose proof (rpos_pos (- q) ltac:(lra)). lra. Qed.

Lemma rnd32_nonneg q : 0 <= q -> 0 <= rnd32 q.
Proof.
  intros H. destruct (Q_dec q 0) as [[H1|H1]|H1]; [lra| |].
  - apply Qlt_le_weak, rnd32_sign_pos, H1.
  - rewrite (rnd32_zero q H1). lra.
Qed.

Lemma rnd32_error : forall q, ~ q == 0 -> Qabs (rnd32 q - q) <= Qabs q * (1 # 16777216).
Proof.
  intros q Hq. destruct (Q_dec q 0) as [[H|H]|H]; [| |contradiction].
  - rewrite (rnd32_neg q H). rewrite (Qabs_neg q) by lra.
    setoid_replace (- rpos (- q) - q) with (- (rpos (- q) - - q)) by ring.
    rewrite Qabs_opp. apply rpos_error. lra.
  - rewrite (rnd32_pos q H). rewrite (Qabs_pos q) by lra. apply rpos_error. exact H.
Qed.

Lemma rnd32_monotone : forall a b, a <= b -> rnd32 a <= rnd32 b.
Proof.
  intros a b H.
  destruct (Q_dec a 0) as [[Ha|Ha]|Ha]; destruct (Q_dec b 0) as [[Hb|Hb]|Hb]; try (exfalso; lra).
  - rewrite (rnd32_neg a Ha), (rnd32_neg b Hb).
    pose proof (rpos_mono (- b) (- a) ltac:(lra) ltac:(lra)). lra.
  - pose proof (rnd32_sign_neg a Ha). pose proof (rnd32_sign_pos b Hb). lra.
  - pose proof (rnd32_sign_neg a Ha). rewrite (rnd32_zero b Hb). lra.
  - rewrite (rnd32_pos a Ha), (rnd32_pos b Hb). apply rpos_mono; assumption.
  - pose proof (rnd32_sign_pos b Hb). rewrite (rnd32_zero a Ha). lra.
  - rewrite (rnd32_zero a Ha), (rnd32_zero b Hb). lra.
Qed.

(** * Representable numbers *)
Lemma rpos_repr m k : (0 < m < 16777216)%Z -> rpos (inject_Z m * pow2 k) == inject_Z m * pow2 k.
Proof.
  intros Hm. set (a := inject_Z m * pow2 k).
  assert (Ha : 0 < a).
  { unfold a. apply Qmult_lt_0_compat; [rewrite <- (Zlt_Qlt 0); lia|apply pow2_pos]. }
  set (l := Z.log2 m). destruct (Z.log2_spec m ltac:(lia)) as [L U]. fold l in L, U.
  assert (Hl : (0 <= l)%Z) by apply Z.log2_nonneg.
  assert (Hl24 : (l < 24)%Z) by (apply Z.log2_lt_pow2; lia).
  assert (Ee : exponent a = (l + k)%Z).
  { apply exponent_unique; [| |exact Ha]; unfold a.
    - rewrite pow2_add. apply Qmult_le_r; [apply pow2_pos|].
      rewrite pow2_nonneg_eq by lia. rewrite <- Zle_Qle. lia.
    - replace (l + k + 1)%Z with ((l + 1) + k)%Z by lia. rewrite pow2_add.
      apply Qmult_lt_r; [apply pow2_pos|].
      rewrite pow2_nonneg_eq by lia. rewrite <- Zlt_Qlt. lia. }
  apply rpos_exact; [exact Ha|]. rewrite Ee. exists (m * 2 ^ (23 - l))%Z.
  unfold a. rewrite inject_Z_mult, <- pow2_nonneg_eq by lia.
  rewrite <- Qmult_assoc, <- pow2_add.
  replace (k + (23 - (l + k)))%Z with (23 - l)%Z by lia. reflexivity.
Qed.

Lemma rnd32_repr m k : (Z.abs m < 16777216)%Z -> rnd32 (inject_Z m * pow2 k) == inject_Z m * pow2 k.
Proof.
  intros Hm. destruct (Z.lt_trichotomy m 0) as [H|[H|H]].
  - setoid_replace (inject_Z m * pow2 k) with (- (inject_Z (- m) * pow2 k))
      by (rewrite inject_Z_opp; ring).
    rewrite rnd32_opp. apply Qopp_comp.
    assert (Hp : 0 < inject_Z (- m) * pow2 k).
    { apply Qmult_lt_0_compat; [rewrite <- (Zlt_Qlt 0); lia|apply pow2_pos]. }
    rewrite (rnd32_pos _ Hp). apply rpos_repr. lia.
  - subst m. rewrite rnd32_zero by ring. ring.
  - assert (Hp : 0 < inject_Z m * pow2 k).
    { apply Qmult_lt_0_compat; [rewrite <- (Zlt_Qlt 0); lia|apply pow2_pos]. }
    rewrite (rnd32_pos _ Hp). apply rpos_repr. lia.
Qed.

Lemma rnd32_exact_on_small_integers : forall n, (Z.abs n <= 16777216)%Z -> rnd32 (inject_Z n) == inject_Z n.
Proof.
  intros n Hn. destruct (Z_lt_le_dec (Z.abs n) 16777216) as [H|H].
  - rewrite (rnd32_comp (inject_Z n) (inject_Z n * pow2 0)) by (rewrite pow2_0; ring).
    rewrite (rnd32_repr n 0 H). rewrite pow2_0. ring.
  - assert (E : n = 16777216%Z \/ n = (- 16777216)%Z) by lia.
    destruct E as [-> | ->].
    + change (inject_Z 16777216) with (inject_Z 1 * pow2 24). apply rnd32_repr. lia.
    + change (inject_Z (-16777216)) with (inject_Z (-1) * pow2 24). apply rnd32_repr. lia.
Qed.

Lemma rnd32_int_le q n : (Z.abs n <= 16777216)%Z -> q <= inject_Z n -> rnd32 q <= inject_Z n.
Proof.
  intros Hn H. rewrite <- (rnd32_exact_on_small_integers n Hn). apply rnd32_monotone. exact H.
Qed.

Lemma rnd32_int_ge q n : (Z.abs n <= 16777216)%Z -> inject_Z n <= q -> inject_Z n <= rnd32 q.
Proof.
  intros Hn H. rewrite <- (rnd32_exact_on_small_integers n Hn). apply rnd32_monotone. exact H.
Qed.

(** a positive binary32 value not below 2^E is a multiple of 2^(E-23) *)
Lemma rnd32_fix_grid q E : 0 < q -> rnd32 q == q -> pow2 E <= q ->
  exists z, q == inject_Z z * pow2 (E - 23).
Proof.
  intros Hq Hf HE. rewrite (rnd32_pos q Hq) in Hf. unfold rpos in Hf.
  pose proof (exponent_ge q E Hq HE) as He.
  set (e := exponent q) in *. set (M := round_half_even _) in *.
  exists (M * 2 ^ (e - E))%Z. rewrite <- Hf.
  rewrite inject_Z_mult, <- pow2_nonneg_eq by lia.
  rewrite <- Qmult_assoc, <- pow2_add.
  replace (e - E + (E - 23))%Z with (e - 23)%Z by lia. reflexivity.
Qed.

Lemma rnd32_fix_abs x : rnd32 x == x -> rnd32 (Qabs' x) == Qabs' x.
Proof.
  intros H. unfold Qabs'. destruct (Qle_bool 0 x); [exact H|].
  rewrite rnd32_opp, H. reflexivity.
Qed.

(** anything above the midpoint between a binary32 value and its successor
    rounds above that value *)
Lemma rnd32_above_mid K e x : (8388608 <= K < 16777216)%Z ->
  inject_Z K * pow2 (e - 23) + pow2 (e - 24) < x -> inject_Z K * pow2 (e - 23) < rnd32 x.
Proof.
  intros [K1 K2] Hx.
  pose proof (pow2_pos (e - 23)) as Hp. set (P := pow2 (e - 23)) in *.
  assert (Eh : pow2 (e - 24) == (1 # 2) * P).
  { unfold P. replace (e - 24)%Z with (-1 + (e - 23))%Z by lia. rewrite pow2_add. reflexivity. }
  assert (Ee : pow2 e == 8388608 * P) by apply pow2_e23.
  rewrite Zle_Qle in K1. rewrite Zlt_Qlt in K2.
  assert (K1' : 8388608 * P <= inject_Z K * P) by (apply Qmult_le_r; assumption).
  assert (K2' : inject_Z K * P < 16777216 * P) by (apply Qmult_lt_r; assumption).
  assert (Hx0 : 0 < x) by lra.
  rewrite (rnd32_pos x Hx0).
  assert (HeX : (e <= exponent x)%Z) by (apply exponent_ge; [exact Hx0|lra]).
  destruct (Z.eq_dec (exponent x) e) as [EX|EX].
  - unfold rpos. rewrite EX. fold P.
    pose proof (rhe_error (x * pow2 (23 - e))) as [E1 _].
    set (M := round_half_even (x * pow2 (23 - e))) in *.
    pose proof (pow2_pos (23 - e)) as Hr. pose proof (pow2_cancel e) as Hc. fold P in Hc.
    set (R := pow2 (23 - e)) in *.
    assert (S1 : (inject_Z K * P + (1 # 2) * P) * R < x * R) by (apply Qmult_lt_r; [assumption|lra]).
    assert (S2 : (inject_Z K * P + (1 # 2) * P) * R == inject_Z K + (1 # 2)).
    { setoid_replace ((inject_Z K * P + (1 # 2) * P) * R) with ((inject_Z K + (1 # 2)) * (R * P)) by ring.
      rewrite Hc. ring. }
    assert (S3 : inject_Z K < inject_Z M) by lra.
    rewrite <- Zlt_Qlt in S3. assert (S4 : (K + 1 <= M)%Z) by lia.
    rewrite Zle_Qle, inject_Z_plus in S4. change (inject_Z 1) with 1 in S4.
    assert (S5 : (inject_Z K + 1) * P <= inject_Z M * P) by (apply Qmult_le_r; assumption).
    lra.
  - destruct (rpos_bounds x Hx0) as [L _].
    assert (L2 : pow2 (e + 1) <= pow2 (exponent x)) by (apply pow2_le_mono; lia).
    rewrite pow2_succ, Ee in L2. lra.
Qed.

(** * floor, ceiling, truncation *)
Lemma ftrunc_nonneg v : 0 <= v -> ftrunc v = Qfloor v.
Proof. intros H. unfold ftrunc. apply Qle_bool_iff in H. rewrite H. reflexivity. Qed.

Lemma Qfloor_between v lo hi : inject_Z lo <= v -> v <= inject_Z hi -> (lo <= Qfloor v <= hi)%Z.
Proof.
  intros L U. split.
  - rewrite <- (Qfloor_Z lo). apply Qfloor_resp_le. exact L.
  - rewrite <- (Qfloor_Z hi). apply Qfloor_resp_le. exact U.
Qed.

(** * Colour interpolation *)
Lemma clamp_trunc v lo hi : (0 <= lo)%Z -> (hi <= 255)%Z -> inject_Z lo <= v -> v <= inject_Z hi ->
  (lo <= (if Qltb v 0 then 0 else if Qltb (inject_Z 255) v then 255 else ftrunc v) <= hi)%Z.
Proof.
  intros Hlo Hhi L U.
  rewrite Zle_Qle in Hlo, Hhi. change (inject_Z 0) with 0 in Hlo.
  assert (E1 : Qltb v 0 = false) by (apply Qltb_false; lra).
  assert (E2 : Qltb (inject_Z 255) v = false) by (apply Qltb_false; lra).
  rewrite E1, E2. rewrite ftrunc_nonneg by lra. apply Qfloor_between; assumption.
Qed.

Lemma interp_value_range a b r : (0 <= a <= 255)%Z -> (0 <= b <= 255)%Z -> 0 <= r -> r <= 1 ->
  let v := fadd (inject_Z a) (fmul (inject_Z (b - a)) r) in
  inject_Z (Z.min a b) <= v /\ v <= inject_Z (Z.max a b).
Proof.
  intros Ha Hb R0 R1. cbv zeta. unfold fadd, fmul.
  set (t := rnd32 (inject_Z (b - a) * r)).
  assert (Eb : inject_Z b == inject_Z a + inject_Z (b - a)).
  { unfold Zminus. rewrite inject_Z_plus, inject_Z_opp. ring. }
  destruct (Z_le_gt_dec a b) as [H|H].
  - rewrite Z.min_l, Z.max_r by lia.
    assert (D0 : 0 <= inject_Z (b - a)) by (rewrite <- (Zle_Qle 0); lia).
    assert (T0 : inject_Z 0 <= t).
    { apply rnd32_int_ge; [lia|]. change (inject_Z 0) with 0. apply Qmult_le_0_compat; assumption. }
    assert (T1 : t <= inject_Z (b - a)).
    { apply rnd32_int_le; [lia|]. rewrite <- (Qmult_1_r (inject_Z (b - a))) at 2.
      destruct (Q_dec (inject_Z (b - a)) 0) as [[D|D]|D]; [lra| |rewrite D; lra].
      apply Qmult_le_l; assumption. }
    change (inject_Z 0) with 0 in T0.
    split; [apply rnd32_int_ge|apply rnd32_int_le]; try lia; lra.
  - rewrite Z.min_r, Z.max_l by lia.
    assert (D0 : inject_Z (b - a) <= 0) by (rewrite <- (Zle_Qle _ 0); lia).
    assert (T0 : t <= inject_Z 0).
    { apply rnd32_int_le; [lia|]. change (inject_Z 0) with 0.
      setoid_replace (inject_Z (b - a) * r) with (- (- inject_Z (b - a) * r)) by ring.
      assert (0 <= - inject_Z (b - a) * r) by (apply Qmult_le_0_compat; lra). lra. }
    assert (T1 : inject_Z (b - a) <= t).
    { apply rnd32_int_ge; [lia|].
      assert (X : - inject_Z (b - a) * r <= - inject_Z (b - a) * 1).
      { destruct (Q_dec (- inject_Z (b - a)) 0) as [[D|D]|D]; [lra| |rewrite D; lra].
        apply Qmult_le_l; assumption. }
      lra. }
    change (inject_Z 0) with 0 in T0.
    split; [apply rnd32_int_ge|apply rnd32_int_le]; try lia; lra.
Qed.

Lemma interp_endpoints_and_between : forall a b r, (0 <= a <= 255)%Z -> (0 <= b <= 255)%Z ->
  interp_channel a b 0 = a /\ interp_channel a b 1 = b /\
  (0 <= r -> r <= 1 -> (Z.min a b <= interp_channel a b r <= Z.max a b)%Z).
Proof.
  intros a b r Ha Hb.
  assert (Eb : inject_Z b == inject_Z a + inject_Z (b - a)).
  { unfold Zminus. rewrite inject_Z_plus, inject_Z_opp. ring. }
  split; [|split].
  - unfold interp_channel. cbv zeta.
    assert (V : fadd (inject_Z a) (fmul (inject_Z (b - a)) 0) == inject_Z a).
    { unfold fadd, fmul. rewrite (rnd32_zero (inject_Z (b - a) * 0)) by ring.
      rewrite (rnd32_comp (inject_Z a + 0) (inject_Z a)) by ring.
      apply rnd32_exact_on_small_integers. lia. }
    set (v := fadd _ _) in *.
    assert (G : (a <= (if Qltb v 0 then 0 else if Qltb (inject_Z 255) v then 255 else ftrunc v) <= a)%Z)
      by (apply clamp_trunc; try lia; rewrite V; apply Qle_refl).
    lia.
  - unfold interp_channel. cbv zeta.
    assert (V : fadd (inject_Z a) (fmul (inject_Z (b - a)) 1) == inject_Z b).
    { unfold fadd, fmul.
      rewrite (rnd32_comp (inject_Z (b - a) * 1) (inject_Z (b - a))) by ring.
      rewrite (rnd32_exact_on_small_integers (b - a)) by lia.
      rewrite (rnd32_comp (inject_Z a + inject_Z (b - a)) (inject_Z b)) by (rewrite Eb; reflexivity).
      apply rnd32_exact_on_small_integers. lia. }
    set (v := fadd _ _) in *.
    assert (G : (b <= (if Qltb v 0 then 0 else if Qltb (inject_Z 255) v then 255 else ftrunc v) <= b)%Z)
      by (apply clamp_trunc; try lia; rewrite V; apply Qle_refl).
    lia.
  - intros R0 R1. destruct (interp_value_range a b r Ha Hb R0 R1) as [L U]. cbv zeta in L, U.
    unfold interp_channel. cbv zeta. apply clamp_trunc; try lia; assumption.
Qed.

(** * RGBW with a reference colour *)
Definition chanf (w x : Z) (d : Q) : Z :=
  let corr := fmul (inject_Z w) d in
  if Qltb corr (inject_Z x) then ftrunc (fsub (inject_Z x) corr) else 0%Z.

Lemma chanf_bound w x d : (0 <= w)%Z -> (0 <= x <= 255)%Z -> 0 <= d -> (0 <= chanf w x d <= x)%Z.
Proof.
  intros Hw Hx Hd. unfold chanf. cbv zeta.
  assert (C0 : 0 <= fmul (inject_Z w) d).
  { unfold fmul. apply rnd32_nonneg. apply Qmult_le_0_compat; [|exact Hd].
    rewrite <- (Zle_Qle 0). exact Hw. }
  set (corr := fmul (inject_Z w) d) in *.
  destruct (Qltb corr (inject_Z x)) eqn:E; [|lia].
  apply Qltb_true in E. unfold fsub.
  assert (L : inject_Z 0 <= rnd32 (inject_Z x - corr)).
  { apply rnd32_int_ge; [lia|]. change (inject_Z 0) with 0. lra. }
  assert (U : rnd32 (inject_Z x - corr) <= inject_Z x) by (apply rnd32_int_le; [lia|lra]).
  rewrite ftrunc_nonneg by exact L. apply Qfloor_between; assumption.
Qed.

Lemma ref_mul_pos mx c : (1 <= mx)%Z ->
  0 < (if (1 <=? c)%Z then fdiv (inject_Z mx) (inject_Z c) else inject_Z 255).
Proof.
  intros Hm. destruct (1 <=? c)%Z eqn:E; [|reflexivity].
  apply Z.leb_le in E. unfold fdiv. apply rnd32_sign_pos.
  apply Qlt_shift_div_l; [rewrite <- (Zlt_Qlt 0); lia|].
  rewrite Qmult_0_l. rewrite <- (Zlt_Qlt 0). lia.
Qed.

Lemma recip_nonneg m : 0 < m -> 0 <= fdiv 1 m.
Proof.
  intros H. unfold fdiv. apply rnd32_nonneg. apply Qlt_le_weak.
  apply Qlt_shift_div_l; [exact H|]. rewrite Qmult_0_l. reflexivity.
Qed.

Lemma rgbw_reference_le : forall c ref,
  (0 <= red c <= 255)%Z -> (0 <= green c <= 255)%Z -> (0 <= blue c <= 255)%Z ->
  (0 <= red ref <= 255)%Z -> (0 <= green ref <= 255)%Z -> (0 <= blue ref <= 255)%Z ->
  let o := rgbw_reference c ref in
  (0 <= wr o <= red c /\ 0 <= wg o <= green c /\ 0 <= wb o <= blue c /\ 0 <= ww o <= 255)%Z.
Proof.
  intros c ref Hr Hg Hb _ _ _. cbv zeta. unfold rgbw_reference, ref_mul. cbv zeta.
  set (mx := Z.max 1 (Z.max (red ref) (Z.max (green ref) (blue ref)))).
  assert (Hmx : (1 <= mx)%Z) by (unfold mx; lia).
  pose proof (ref_mul_pos mx (red ref) Hmx) as P0.
  pose proof (ref_mul_pos mx (green ref) Hmx) as P1.
  pose proof (ref_mul_pos mx (blue ref) Hmx) as P2.
  set (m0 := if (1 <=? red ref)%Z then _ else _) in *.
  set (m1 := if (1 <=? green ref)%Z then _ else _) in *.
  set (m2 := if (1 <=? blue ref)%Z then _ else _) in *.
  cbv beta iota.
  set (mn := Qmin' _ _).
  set (w := if Qle_bool mn 0 then 0%Z else _).
  assert (Hw : (0 <= w <= 255)%Z).
  { unfold w. destruct (Qle_bool mn 0) eqn:E0; [lia|].
    destruct (Qle_bool mn (inject_Z 255)) eqn:E1; [|lia].
    apply Qle_bool_false in E0. apply Qle_bool_iff in E1.
    rewrite ftrunc_nonneg by lra. apply Qfloor_between; [change (inject_Z 0) with 0; lra|exact E1]. }
  cbn [wr wg wb ww].
  pose proof (chanf_bound w (red c) (fdiv 1 m0) ltac:(lia) Hr (recip_nonneg m0 P0)) as C0.
  pose proof (chanf_bound w (green c) (fdiv 1 m1) ltac:(lia) Hg (recip_nonneg m1 P1)) as C1.
  pose proof (chanf_bound w (blue c) (fdiv 1 m2) ltac:(lia) Hb (recip_nonneg m2 P2)) as C2.
  unfold chanf in C0, C1, C2. cbv zeta in C0, C1, C2.
  split; [exact C0|]. split; [exact C1|]. split; [exact C2|exact Hw].
Qed.

(** * Seconds to milliseconds *)
Lemma max_duration_sec_value : max_duration_sec = 8589935 # 2.
Proof. vm_compute. reflexivity. Qed.

Lemma rnd32_4294967000 : rnd32 (inject_Z 4294967000) = inject_Z 4294967040.
Proof. vm_compute. reflexivity. Qed.

(** the largest binary32 value below 4294967.5 is 4294967 *)
Lemma below_max_duration q : 0 <= q -> rnd32 q == q -> q < 8589935 # 2 -> q <= inject_Z 4294967.
Proof.
  intros Hq Hf Hlt. change (inject_Z 4294967) with (4294967 # 1).
  destruct (Qlt_le_dec q (pow2 22)) as [H|H].
  - change (pow2 22) with (4194304 # 1) in H. lra.
  - assert (Hq0 : 0 < q) by (pose proof (pow2_pos 22); lra).
    destruct (rnd32_fix_grid q 22 Hq0 Hf H) as [z Hz].
    change (pow2 (22 - 23)) with (1 # 2) in Hz.
    assert (Z1 : inject_Z z < inject_Z 8589935) by (change (inject_Z 8589935) with (8589935 # 1); lra).
    rewrite <- Zlt_Qlt in Z1. assert (Z2 : (z <= 8589934)%Z) by lia.
    rewrite Zle_Qle in Z2. change (inject_Z 8589934) with (8589934 # 1) in Z2. lra.
Qed.

(** The statement of Properties_C20 quantifies over all rationals, but for
    q = 4294967.4 (not a binary32 value) the product rounds to 2^32: the
    argument has to be a binary32 value, as it is in the C code. *)
Lemma msec_conversion_counterexample :
  msec_of_sec (FVal (42949674 # 10)) = Ok 4294967296%Z.
Proof. vm_compute. reflexivity. Qed.

Lemma msec_conversion' : forall q, rnd32 q == q ->
  match msec_of_sec (FVal q) with
  | Ok m => 0 <= q /\ (0 <= m < 4294967296)%Z /\ Qabs (inject_Z m - q * 1000) <= 1 + q * 1000 * (1 # 8388608)
  | Err e => (e = SB_EINVAL /\ q < 0) \/ (e = SB_EOVERFLOW /\ inject_Z 4294967 < q)
  | _ => False
  end.
Proof.
  intros q Hf. unfold msec_of_sec.
  destruct (Qltb q 0) eqn:E0.
  { apply Qltb_true in E0. left. split; [reflexivity|exact E0]. }
  apply Qltb_false in E0.
  rewrite max_duration_sec_value.
  destruct (Qle_bool (8589935 # 2) q) eqn:E1.
  { apply Qle_bool_iff in E1. right. split; [reflexivity|].
    change (inject_Z 4294967) with (4294967 # 1). lra. }
  apply Qle_bool_false in E1.
  split; [exact E0|].
  pose proof (below_max_duration q E0 Hf E1) as Hq.
  change (inject_Z 4294967) with (4294967 # 1) in Hq.
  unfold fmul. change (inject_Z 1000) with 1000.
  set (p := rnd32 (q * 1000)).
  assert (P0 : 0 <= p) by (apply rnd32_nonneg; lra).
  assert (P1 : p <= inject_Z 4294967040).
  { rewrite <- rnd32_4294967000. apply rnd32_monotone.
    change (inject_Z 4294967000) with (4294967000 # 1). lra. }
  rewrite ftrunc_nonneg by exact P0.
  destruct (rhe_floor_bounds p) as [F1 F2].
  split.
  - destruct (Qfloor_between p 0 4294967040 P0 P1) as [G1 G2]. lia.
  - apply Qabs_Qle_condition.
    destruct (Q_dec q 0) as [[H|H]|H]; [lra| |].
    + assert (Hn : ~ q * 1000 == 0) by lra.
      pose proof (rnd32_error (q * 1000) Hn) as Er. fold p in Er.
      rewrite (Qabs_pos (q * 1000)) in Er by lra.
      apply Qabs_Qle_condition in Er. destruct Er as [Er1 Er2].
      split; lra.
    + assert (Ep : p = 0) by (apply rnd32_zero; lra).
      rewrite Ep in *. change (Qfloor 0) with 0%Z. change (inject_Z 0) with 0. split; lra.
Qed.

(** * Coordinate scale *)
Lemma div32767_le mc k : mc <= inject_Z (k * 32767) -> mc / inject_Z 32767 <= inject_Z k.
Proof.
  intros H. apply Qle_shift_div_r; [reflexivity|]. rewrite <- inject_Z_mult. exact H.
Qed.

Lemma div32767_lt mc k : inject_Z (k * 32767) < mc -> inject_Z k < mc / inject_Z 32767.
Proof.
  intros H. apply Qlt_shift_div_l; [reflexivity|]. rewrite <- inject_Z_mult. exact H.
Qed.

Lemma Qmax'_cases a b : Qmax' a b = a \/ Qmax' a b = b.
Proof. unfold Qmax'. destruct (Qle_bool a b); auto. Qed.

Lemma maxabs_fix x y z : rnd32 x == x -> rnd32 y == y -> rnd32 z == z ->
  let m := Qmax' (Qmax' (Qabs' x) (Qabs' y)) (Qabs' z) in rnd32 m == m.
Proof.
  intros Hx Hy Hz. cbv zeta.
  destruct (Qmax'_cases (Qmax' (Qabs' x) (Qabs' y)) (Qabs' z)) as [-> | ->];
    [destruct (Qmax'_cases (Qabs' x) (Qabs' y)) as [-> | ->]|]; apply rnd32_fix_abs; assumption.
Qed.

(** per-scale arithmetic facts, checked by computation for k = 1..127 *)
Definition scale_chk (k : Z) : bool :=
  let ek := Z.log2 k in let K := (k * 2 ^ (23 - ek))%Z in
  let P := (k * 32767)%Z in let E := Z.log2 P in
  Qeq_bool (inject_Z K * pow2 (ek - 23)) (inject_Z k) &&
  (8388608 <=? K)%Z && (K <? 16777216)%Z &&
  Qltb (inject_Z k + pow2 (ek - 24)) ((inject_Z P + pow2 (E - 23)) / inject_Z 32767) &&
  Qeq_bool (inject_Z (P * 2 ^ (23 - E)) * pow2 (E - 23)) (inject_Z P) &&
  Qle_bool (pow2 E) (inject_Z P).

Lemma scale_chk_all : forallb scale_chk (map Z.of_nat (seq 1 127)) = true.
Proof. vm_compute. reflexivity. Qed.

Lemma scale_chk_ok k : (1 <= k <= 127)%Z -> scale_chk k = true.
Proof.
  intros Hk. pose proof scale_chk_all as H. rewrite forallb_forall in H. apply H.
  apply in_map_iff. exists (Z.to_nat k). split; [lia|]. apply in_seq. lia.
Qed.

(** a binary32 value above k * 32767 divides to something that rounds above k *)
Lemma scale_quotient_above mc k : (1 <= k <= 127)%Z -> rnd32 mc == mc ->
  inject_Z (k * 32767) < mc -> inject_Z k < rnd32 (mc / inject_Z 32767).
Proof.
  intros Hk Hf Hgt. pose proof (scale_chk_ok k Hk) as C. unfold scale_chk in C. cbv zeta in C.
  set (ek := Z.log2 k) in *. set (K := (k * 2 ^ (23 - ek))%Z) in *.
  set (P := (k * 32767)%Z) in *. set (E := Z.log2 P) in *.
  apply andb_prop in C. destruct C as [C C6]. apply andb_prop in C. destruct C as [C C5].
  apply andb_prop in C. destruct C as [C C4]. apply andb_prop in C. destruct C as [C C3].
  apply andb_prop in C. destruct C as [C1 C2].
  apply Qeq_bool_iff in C1. apply Z.leb_le in C2. apply Z.ltb_lt in C3. apply Qltb_true in C4.
  apply Qeq_bool_iff in C5. apply Qle_bool_iff in C6.
  assert (Hmc : 0 < mc).
  { assert (0 < inject_Z P) by (rewrite <- (Zlt_Qlt 0); lia). lra. }
  destruct (rnd32_fix_grid mc E Hmc Hf ltac:(lra)) as [z Hz].
  pose proof (pow2_pos (E - 23)) as Hp. set (G := pow2 (E - 23)) in *.
  set (PZ := (P * 2 ^ (23 - E))%Z) in *.
  assert (Z1 : inject_Z PZ * G < inject_Z z * G) by lra.
  apply Qmult_lt_r in Z1; [|exact Hp]. rewrite <- Zlt_Qlt in Z1.
  assert (Z2 : (PZ + 1 <= z)%Z) by lia.
  rewrite Zle_Qle, inject_Z_plus in Z2. change (inject_Z 1) with 1 in Z2.
  assert (Z3 : (inject_Z PZ + 1) * G <= inject_Z z * G) by (apply Qmult_le_r; assumption).
  assert (Z4 : inject_Z P + G <= mc) by lra.
  assert (Z5 : (inject_Z P + G) / inject_Z 32767 <= mc / inject_Z 32767).
  { unfold Qdiv. apply Qmult_le_compat_r; [exact Z4|]. discriminate. }
  rewrite <- C1. apply rnd32_above_mid; [lia|]. rewrite C1. lra.
Qed.

Lemma scale_mx sc : (0 <= sc <= 127)%Z ->
  let s := if (sc =? 0)%Z then 1%Z else sc in
  s = Z.max sc 1 /\ f32_of_Z (s * 32767) == inject_Z (s * 32767).
Proof.
  intros Hs. cbv zeta.
  assert (E : (if (sc =? 0)%Z then 1%Z else sc) = Z.max sc 1) by (destruct (sc =? 0)%Z eqn:E; lia).
  rewrite E. split; [reflexivity|]. unfold f32_of_Z. apply rnd32_exact_on_small_integers. lia.
Qed.

(** As stated in Properties_C20 (arbitrary rational coordinates) the second
    conjunct fails: the quotient can round down to an integer. *)
Lemma scale_update_minimal_counterexample :
  scale_update 1 (32767001 # 1000) 0 0 = Ok 1%Z /\
  ~ Qmax' (Qmax' (Qabs' (32767001 # 1000)) (Qabs' 0)) (Qabs' 0) <= inject_Z (1 * 32767).
Proof. split; [vm_compute; reflexivity|]. vm_compute. intros H. apply H. reflexivity. Qed.

Lemma scale_update_minimal' : forall sc x y z s, (0 <= sc <= 127)%Z ->
  rnd32 x == x -> rnd32 y == y -> rnd32 z == z ->
  scale_update sc x y z = Ok s ->
  let m := Qmax' (Qmax' (Qabs' x) (Qabs' y)) (Qabs' z) in
  (Z.max sc 1 <= s <= 127)%Z /\ m <= inject_Z (s * 32767) /\
  (s = Z.max sc 1 \/ inject_Z ((s - 1) * 32767) < m).
Proof.
  intros sc x y z s Hsc Hx Hy Hz. pose proof (maxabs_fix x y z Hx Hy Hz) as Hf. cbv zeta in Hf.
  unfold scale_update. cbv zeta.
  destruct (scale_mx sc Hsc) as [Es Emx]. cbv zeta in Es, Emx.
  set (s0 := if (sc =? 0)%Z then 1%Z else sc) in *.
  set (mc := Qmax' (Qmax' (Qabs' x) (Qabs' y)) (Qabs' z)) in *.
  destruct (Qltb (f32_of_Z (s0 * 32767)) mc) eqn:E.
  - apply Qltb_true in E. rewrite Emx in E.
    set (p := fdiv mc (inject_Z 32767)).
    destruct (fceil p <=? 127)%Z eqn:E2; intros H; [|discriminate].
    injection H as <-. apply Z.leb_le in E2. unfold fceil in *.
    pose proof (Qle_ceiling p) as Cu. pose proof (Qceiling_lt p) as Cl.
    assert (L1 : inject_Z s0 <= p).
    { unfold p, fdiv. apply rnd32_int_ge; [lia|]. apply Qlt_le_weak. apply div32767_lt. exact E. }
    assert (L2 : (s0 <= Qceiling p)%Z).
    { rewrite Zle_Qle. eapply Qle_trans; eassumption. }
    split; [lia|]. split.
    + apply Qnot_lt_le. intros Hc.
      pose proof (scale_quotient_above mc (Qceiling p) ltac:(lia) Hf Hc) as Q. fold (fdiv mc (inject_Z 32767)) in Q.
      fold p in Q. apply (Qlt_not_le _ _ Q Cu).
    + right. apply Qnot_le_lt. intros Hc.
      assert (Q : p <= inject_Z (Qceiling p - 1)).
      { apply (rnd32_int_le (mc / inject_Z 32767) (Qceiling p - 1)); [lia|]. apply div32767_le. exact Hc. }
      apply (Qlt_not_le _ _ Cl Q).
  - apply Qltb_false in E. rewrite Emx in E. intros H. injection H as <-.
    split; [lia|]. split; [exact E|]. left. exact Es.
Qed.

Lemma scale_update_overflow : forall sc x y z, (0 <= sc <= 127)%Z ->
  scale_update sc x y z = Err SB_EOVERFLOW ->
  inject_Z (127 * 32767) < Qmax' (Qmax' (Qabs' x) (Qabs' y)) (Qabs' z).
Proof.
  intros sc x y z Hsc. unfold scale_update. cbv zeta.
  set (mc := Qmax' (Qmax' (Qabs' x) (Qabs' y)) (Qabs' z)).
  destruct (Qltb _ mc) eqn:E; [|discriminate].
  set (p := fdiv mc (inject_Z 32767)).
  destruct (fceil p <=? 127)%Z eqn:E2; [discriminate|]. intros _.
  apply Z.leb_gt in E2. unfold fceil in E2.
  apply Qnot_le_lt. intros Hc.
  assert (Q : p <= inject_Z 127).
  { unfold p, fdiv. apply rnd32_int_le; [lia|]. apply div32767_le. exact Hc. }
  apply Qceiling_resp_le in Q. rewrite Qceiling_Z in Q. lia.
Qed.
