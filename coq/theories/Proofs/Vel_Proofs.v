(** Proofs for Props/Properties_C07.v: velocity and acceleration of a
    trajectory segment are the time derivatives of its position. *)
From Coq Require Import Reals QArith Qreals List ZArith Lia Lra.
From Coquelicot Require Import Coquelicot.
From SB Require Import Base.Prelude Base.Num Gen.Generated Model.Poly Model.Traj Spec.BezierSpec
  Proofs.Poly_Proofs.
Import ListNotations.
Local Open Scope R_scope.

(** Identical copies of the definitions of Props/Properties_C07.v. *)
Definition axis_pos (pts : list Q) (start_ms dur_ms : Z) (t : R) : R :=
  horner ROps (make_bezier ROps 1 (map Q2R pts)) ((t - Q2R (ms_sec start_ms)) / Q2R (ms_sec dur_ms)).
Definition dstep (dur_ms : Z) (cs : list Q) : list Q :=
  scale QOps (deriv QOps cs) (Qinv (ms_sec dur_ms)).
Definition axis_vel (pts : list Q) (start_ms dur_ms : Z) (t : R) : R :=
  horner ROps (map Q2R (dstep dur_ms (make_bezier QOps 1%Q pts))) ((t - Q2R (ms_sec start_ms)) / Q2R (ms_sec dur_ms)).
Definition axis_acc (pts : list Q) (start_ms dur_ms : Z) (t : R) : R :=
  horner ROps (map Q2R (dstep dur_ms (dstep dur_ms (make_bezier QOps 1%Q pts)))) ((t - Q2R (ms_sec start_ms)) / Q2R (ms_sec dur_ms)).

Lemma ms_sec_pos : forall d, (0 < d)%Z -> 0 < Q2R (ms_sec d).
Proof.
  intros d Hd. unfold ms_sec, Q2R. simpl.
  apply Rmult_lt_0_compat; [apply IZR_lt; exact Hd | apply Rinv_0_lt_compat; lra].
Qed.

(** One differentiation step of the model: derivative of the polynomial, then
    scaling by 1/duration, is the time derivative of the evaluated function. *)
Lemma dstep_is_derive : forall (cs : list Q) (s0 : R) dur (t : R), (0 < dur)%Z ->
  is_derive (fun t : R => horner ROps (map Q2R cs) ((t - s0) / Q2R (ms_sec dur))) t
            (horner ROps (map Q2R (dstep dur cs)) ((t - s0) / Q2R (ms_sec dur))).
Proof.
  intros cs s0 dur t Hd.
  pose proof (ms_sec_pos dur Hd) as Hpos.
  set (d0 := Q2R (ms_sec dur)) in *.
  unfold dstep.
  rewrite scale_Q2R, deriv_Q2R, scale_law, Q2R_inv_total. fold d0.
  evar_last.
  - apply (is_derive_comp (K:=R_AbsRing) (V:=R_NormedModule)
             (horner ROps (map Q2R cs)) (fun t : R => (t - s0) / d0) t
             (horner ROps (deriv ROps (map Q2R cs)) ((t - s0) / d0)) (/ d0)).
    + apply deriv_law.
    + auto_derive; [exact I | field; lra].
  - unfold scal; simpl. unfold mult; simpl. reflexivity.
Qed.

Lemma velocity_is_derivative : forall pts start_ms dur_ms (t : R),
  (1 <= length pts <= 8)%nat -> (0 < dur_ms)%Z ->
  is_derive (axis_pos pts start_ms dur_ms) t (axis_vel pts start_ms dur_ms t).
Proof.
  intros pts s dur t _ Hd. unfold axis_pos, axis_vel.
  replace (make_bezier ROps 1 (map Q2R pts)) with (map Q2R (make_bezier QOps 1%Q pts))
    by (rewrite make_bezier_Q2R, Q2R_1; reflexivity).
  apply dstep_is_derive, Hd.
Qed.

Lemma acceleration_is_derivative : forall pts start_ms dur_ms (t : R),
  (1 <= length pts <= 8)%nat -> (0 < dur_ms)%Z ->
  is_derive (axis_vel pts start_ms dur_ms) t (axis_acc pts start_ms dur_ms t).
Proof.
  intros pts s dur t _ Hd. unfold axis_vel, axis_acc.
  apply dstep_is_derive, Hd.
Qed.

(** * The player model returns these functions *)
Lemma rel_time_Q2R : forall c s (t : Q), (0 < sg_dur s)%Z ->
  Q2R (rel_time c s (QFin t))
  = (Q2R t - Q2R (ms_sec (c_start_ms c))) / Q2R (ms_sec (sg_dur s)).
Proof.
  intros c s t Hd. unfold rel_time.
  replace (sg_dur s =? 0)%Z with false by (symmetry; apply Z.eqb_neq; lia).
  rewrite Q2R_div_total, Q2R_minus. reflexivity.
Qed.

Lemma dpoly4_pos : forall s p, (0 < sg_dur s)%Z ->
  dpoly4 s p = map4 (dstep (sg_dur s)) p.
Proof.
  intros s [[[px py] pz] pw] Hd. unfold dpoly4.
  replace (sg_dur s =? 0)%Z with false by (symmetry; apply Z.eqb_neq; lia).
  reflexivity.
Qed.

Lemma model_velocity_is_axis_vel : forall c s (t : Q),
  (0 < sg_dur s)%Z ->
  let l := OnSegment c s (rel_time c s (QFin t)) in
  Q2R (vx (position_of l)) = axis_pos (sg_x s) (c_start_ms c) (sg_dur s) (Q2R t) /\
  Q2R (vx (velocity_of l)) = axis_vel (sg_x s) (c_start_ms c) (sg_dur s) (Q2R t) /\
  Q2R (vx (acceleration_of l)) = axis_acc (sg_x s) (c_start_ms c) (sg_dur s) (Q2R t) /\
  Q2R (vy (velocity_of l)) = axis_vel (sg_y s) (c_start_ms c) (sg_dur s) (Q2R t) /\
  Q2R (vz (velocity_of l)) = axis_vel (sg_z s) (c_start_ms c) (sg_dur s) (Q2R t) /\
  Q2R (vyaw (velocity_of l)) = axis_vel (sg_yaw s) (c_start_ms c) (sg_dur s) (Q2R t).
Proof.
  intros c s t Hd l. subst l.
  unfold position_of, velocity_of, acceleration_of, axis_pos, axis_vel, axis_acc.
  rewrite !(dpoly4_pos _ _ Hd).
  unfold poly4, map4, eval4, qone. cbn [vx vy vz vyaw].
  rewrite !horner_Q2R, (rel_time_Q2R c s t Hd), make_bezier_Q2R, Q2R_1.
  repeat split; reflexivity.
Qed.

Lemma beyond_end_zero : forall c, velocity_of (OnEnd c) = zero4 /\ acceleration_of (OnEnd c) = zero4.
Proof. intros c. split; reflexivity. Qed.

Lemma before_zero_clamped : forall tr c (t : Q), (t <= 0)%Q ->
  seek tr c (QFin t) = seek tr c (QFin 0) /\ seek tr c QNegInf = seek tr c (QFin 0).
Proof.
  intros tr c t Ht. unfold seek.
  assert (H1 : clamp0 (QFin t) = QFin 0).
  { unfold clamp0. replace (Qle_bool t 0) with true; [reflexivity|].
    symmetry. apply Qle_bool_iff. exact Ht. }
  rewrite H1. split; reflexivity.
Qed.

Example velocity_example :
  axis_vel [0; 0; 30; 30]%Q 0 2000 1 = 45 / 2.
Proof.
  unfold axis_vel.
  set (l := dstep 2000 (make_bezier QOps 1%Q [0; 0; 30; 30]%Q)).
  vm_compute in l. subst l.
  unfold ms_sec, Q2R. simpl. field.
Qed.
