(** Proofs for C10 (yaw control: header, piecewise-linear yaw and rate,
    durations, accumulated yaw range, history independence of the yaw player).
    Statements are used verbatim by Props/Properties_C10.v; the definitions
    [yreachable] and [ypositive] live here and are used there. *)
From Coq Require Import ZArith QArith List Lia ZifyBool.
From SB Require Import Base.Prelude Base.Num Gen.Generated Model.Codec Model.Traj Model.Yaw
  Spec.TrajSpec Spec.YawSpec Proofs.Player_Proofs.
Import ListNotations.
Local Open Scope Z_scope.

Ltac Zify.zify_post_hook ::= Z.div_mod_to_equations.

(* ------------------------------------------------------------------ *)
(** * Definitions shared with Props/Properties_C10.v *)

(** Cursors the yaw player can be parked on. *)
Inductive yreachable (y : yawctl) : ycursor -> Prop :=
| yreach0 : yreachable y (ycursor0 y)
| yreachS : forall c dur change r, yreachable y c ->
    decode_delta (yc_rest c) = Some (dur, change, r) ->
    yreachable y (ynext c dur change r).

(** Every setpoint lasts at least 1 ms and start times do not wrap. *)
Definition ypositive (y : yawctl) : Prop :=
  forall c dur change r, yreachable y c ->
    decode_delta (yc_rest c) = Some (dur, change, r) ->
    0 < dur /\ yc_start_ms c + dur < 4294967296.

(* ------------------------------------------------------------------ *)
(** * Non-vacuity example *)
Example yaw_example :
  let Y := mksyaw 1 (-100) [(1000, 900); (500, -32768); (2000, 0)] in
  wf_syaw Y = true /\
  match yaw_init (encode_yaw Y) with
  | Ok y => yaw_at y (QFin (5 # 4)) = Ok ((-100 # 10) + (900 # 10) + (-32768 # 10) * ((5 # 4) - (1000 # 1000)) / (500 # 1000))%Q
            \/ exists v, yaw_at y (QFin (5 # 4)) = Ok v /\ (v == yaw_spec Y (QFin (5 # 4)))%Q
  | _ => False
  end.
Proof.
  cbv zeta. split; [vm_compute; reflexivity|].
  match goal with |- match ?e with _ => _ end =>
    let v := eval vm_compute in e in change e with v end.
  cbv iota. right.
  match goal with |- exists v, ?e = _ /\ _ =>
    let v := eval vm_compute in e in
    match v with Ok ?q => exists q end end.
  split; [vm_compute; reflexivity|].
  vm_compute. reflexivity.
Qed.

(* ------------------------------------------------------------------ *)
(** * Bytes *)
Lemma le16_split u : 0 <= u < 65536 -> le16 (u mod 256) (u / 256) = u.
Proof. intros H. unfold le16. lia. Qed.

Lemma sx16_mod v : -32768 <= v < 32768 -> sx16 (v mod 65536) = v.
Proof.
  intros H. unfold sx16.
  destruct (v mod 65536 <? 32768) eqn:E; lia.
Qed.

Lemma i16b_spec v : i16b v = true -> -32768 <= v < 32768.
Proof. unfold i16b. lia. Qed.

Lemma e16_decode v : i16b v = true ->
  sx16 (le16 ((v mod 65536) mod 256) ((v mod 65536) / 256)) = v.
Proof.
  intros H. apply i16b_spec in H.
  rewrite le16_split by (apply Z.mod_pos_bound; lia).
  apply sx16_mod; exact H.
Qed.

Lemma e16_decode_u v : 0 <= v < 65536 ->
  le16 ((v mod 65536) mod 256) ((v mod 65536) / 256) = v.
Proof.
  intros H. rewrite le16_split by (apply Z.mod_pos_bound; lia).
  apply Z.mod_small; exact H.
Qed.

Lemma land1_odd f : negb (Z.land f 1 =? 0) = Z.odd f.
Proof.
  change 1 with (Z.ones 1). rewrite Z.land_ones by lia.
  change (2 ^ 1) with 2. rewrite Zmod_odd.
  destruct (Z.odd f); reflexivity.
Qed.

(* ------------------------------------------------------------------ *)
(** * Deltas *)
Definition wf_delta (dc : Z * Z) : bool := (0 <=? fst dc) && (fst dc <? 65536) && i16b (snd dc).
Definition enc_delta (dc : Z * Z) : list Z := e16 (fst dc) ++ e16 (snd dc).
Definition enc_deltas (ds : list (Z * Z)) : list Z := flat_map enc_delta ds.

Lemma wf_delta_spec dc : wf_delta dc = true -> 0 <= fst dc < 65536 /\ i16b (snd dc) = true.
Proof.
  unfold wf_delta. intros H.
  apply andb_prop in H. destruct H as [H Hc].
  split; [lia|exact Hc].
Qed.

Lemma decode_delta_enc dc rest : wf_delta dc = true ->
  decode_delta (enc_delta dc ++ rest) = Some (fst dc, snd dc, rest).
Proof.
  intros H. apply wf_delta_spec in H. destruct H as [Hd Hc].
  unfold enc_delta, e16. cbn [app decode_delta].
  rewrite e16_decode by exact Hc. rewrite e16_decode_u by exact Hd. reflexivity.
Qed.

Lemma enc_delta_length dc : length (enc_delta dc) = 4%nat.
Proof. reflexivity. Qed.

Lemma enc_deltas_length ds : length (enc_deltas ds) = (4 * length ds)%nat.
Proof.
  induction ds as [|dc ds IH]; [reflexivity|].
  unfold enc_deltas in *. cbn [flat_map]. rewrite app_length, enc_delta_length, IH.
  cbn [length]. lia.
Qed.

Lemma decode_delta_length rest d c r :
  decode_delta rest = Some (d, c, r) -> length rest = (4 + length r)%nat.
Proof.
  destruct rest as [|b0 [|b1 [|b2 [|b3 r']]]]; cbn [decode_delta]; intros H; try discriminate H.
  injection H as _ _ <-. reflexivity.
Qed.

(* ------------------------------------------------------------------ *)
(** * Header *)
Definition enc_y (Y : syaw) : yawctl :=
  mkyaw (encode_yaw Y) (Z.odd (sy_flags Y)) (sy_offset Y) (length (sy_deltas Y)).

Lemma wf_syaw_spec Y : wf_syaw Y = true ->
  0 <= sy_flags Y < 256 /\ i16b (sy_offset Y) = true /\ forallb wf_delta (sy_deltas Y) = true.
Proof.
  unfold wf_syaw. intros H.
  apply andb_prop in H. destruct H as [H Hds].
  apply andb_prop in H. destruct H as [H Ho].
  split; [lia|]. split; [exact Ho|exact Hds].
Qed.

Lemma encode_yaw_eq Y :
  encode_yaw Y = sy_flags Y :: e16 (sy_offset Y) ++ enc_deltas (sy_deltas Y).
Proof. reflexivity. Qed.

Lemma encode_yaw_length Y : length (encode_yaw Y) = (3 + 4 * length (sy_deltas Y))%nat.
Proof.
  rewrite encode_yaw_eq. unfold e16. cbn [app length]. rewrite enc_deltas_length. lia.
Qed.

Lemma yaw_init_enc Y : wf_syaw Y = true ->
  yaw_init (encode_yaw Y) = Ok (enc_y Y) /\
  skipn yaw_header_length (encode_yaw Y) = enc_deltas (sy_deltas Y).
Proof.
  intros Hwf. apply wf_syaw_spec in Hwf. destruct Hwf as (Hf & Ho & _).
  split; [|reflexivity].
  pose proof (encode_yaw_length Y) as Hlen.
  unfold enc_y. rewrite encode_yaw_eq in *. unfold e16 in *. cbn [app] in *.
  cbn [yaw_init]. rewrite Hlen.
  rewrite land1_odd. rewrite e16_decode by exact Ho.
  change (Z.to_nat YAW_SIZE_OF_DELTA) with 4%nat. unfold yaw_header_length.
  replace ((3 + 4 * length (sy_deltas Y) - 3) / 4)%nat with (length (sy_deltas Y)).
  - reflexivity.
  - replace (3 + 4 * length (sy_deltas Y) - 3)%nat with (length (sy_deltas Y) * 4)%nat by lia.
    rewrite Nat.div_mul by lia. reflexivity.
Qed.

Theorem header_fields_roundtrip : forall Y, wf_syaw Y = true ->
  exists y, yaw_init (encode_yaw Y) = Ok y /\
    y_auto y = Z.odd (sy_flags Y) /\ y_offset y = sy_offset Y /\
    y_num_deltas y = length (sy_deltas Y) /\
    yaw_is_empty y = match sy_deltas Y with [] => true | _ => false end.
Proof.
  intros Y Hwf. destruct (yaw_init_enc Y Hwf) as [Hi _].
  exists (enc_y Y). split; [exact Hi|].
  split; [reflexivity|]. split; [reflexivity|]. split; [reflexivity|].
  unfold yaw_is_empty, enc_y. cbn [y_num_deltas].
  destruct (sy_deltas Y); reflexivity.
Qed.

Lemma skipn_length_le {A} n (l : list A) : (length (skipn n l) <= length l)%nat.
Proof. rewrite skipn_length. lia. Qed.

Lemma ycursor0_fuel y : (length (yc_rest (ycursor0 y)) < S (length (y_bytes y)))%nat.
Proof.
  unfold ycursor0. cbn [yc_rest].
  pose proof (skipn_length_le yaw_header_length (y_bytes y)). lia.
Qed.

(* ------------------------------------------------------------------ *)
(** * Durations *)
Definition sum_dur (ds : list (Z * Z)) (acc : Z) : Z := fold_left (fun a dc => a + fst dc) ds acc.
Definition sum_chg (ds : list (Z * Z)) (acc : Z) : Z := fold_left (fun a dc => a + snd dc) ds acc.

Lemma ytotal_from_enc : forall ds fuel c acc, forallb wf_delta ds = true ->
  yc_rest c = enc_deltas ds -> (length (yc_rest c) < fuel)%nat ->
  ytotal_from fuel c (u32 acc) = u32 (sum_dur ds acc).
Proof.
  induction ds as [|dc ds IH]; intros fuel c acc Hwf Hrest Hfuel.
  - destruct fuel as [|f]; [lia|].
    cbn [ytotal_from]. rewrite Hrest. reflexivity.
  - destruct fuel as [|f]; [lia|].
    cbn [forallb] in Hwf. apply andb_prop in Hwf. destruct Hwf as [Hw Hws].
    unfold enc_deltas in Hrest. cbn [flat_map] in Hrest. fold (enc_deltas ds) in Hrest.
    cbn [ytotal_from]. rewrite Hrest.
    rewrite decode_delta_enc by exact Hw.
    replace (u32 (u32 acc + fst dc)) with (u32 (acc + fst dc))
      by (unfold u32; rewrite Zplus_mod_idemp_l; reflexivity).
    rewrite IH.
    + reflexivity.
    + exact Hws.
    + reflexivity.
    + cbn [ynext yc_rest]. rewrite Hrest in Hfuel.
      rewrite app_length, enc_delta_length in Hfuel. lia.
Qed.

Theorem duration_sum : forall Y, wf_syaw Y = true ->
  exists y, yaw_init (encode_yaw Y) = Ok y /\
    yaw_total_duration_msec y = yaw_total_ms Y mod 4294967296.
Proof.
  intros Y Hwf. destruct (yaw_init_enc Y Hwf) as [Hi Hsk].
  apply wf_syaw_spec in Hwf. destruct Hwf as (_ & _ & Hds).
  exists (enc_y Y). split; [exact Hi|].
  unfold yaw_total_duration_msec.
  change 0 with (u32 0) at 1.
  rewrite ytotal_from_enc with (ds := sy_deltas Y).
  - reflexivity.
  - exact Hds.
  - exact Hsk.
  - apply ycursor0_fuel.
Qed.

Lemma sum_dur_bounds : forall ds acc, forallb wf_delta ds = true ->
  acc <= sum_dur ds acc.
Proof.
  induction ds as [|dc ds IH]; intros acc Hwf.
  - cbn [sum_dur fold_left]. lia.
  - cbn [forallb] in Hwf. apply andb_prop in Hwf. destruct Hwf as [Hw Hws].
    apply wf_delta_spec in Hw. destruct Hw as (Hd & _).
    unfold sum_dur in *. cbn [fold_left].
    specialize (IH (acc + fst dc) Hws). lia.
Qed.

(* ------------------------------------------------------------------ *)
(** * Yaw and rate *)
Lemma yseek_fwd_fin : forall ds fuel c q, forallb wf_delta ds = true ->
  yc_rest c = enc_deltas ds -> (length (yc_rest c) < fuel)%nat ->
  0 <= yc_start_ms c -> sum_dur ds (yc_start_ms c) < 4294967296 ->
  exists l, yseek_fwd fuel c (QFin q) = Ok l /\
    yaw_of l = yaw_from (yc_start_ddeg c) (yc_start_ms c) ds q /\
    yaw_rate_of l = rate_from (yc_start_ms c) ds q.
Proof.
  induction ds as [|dc ds IH]; intros fuel c q Hwf Hrest Hfuel Hms Hsum.
  - destruct fuel as [|f]; [lia|].
    cbn [yseek_fwd]. rewrite Hrest. cbn [enc_deltas flat_map decode_delta].
    eexists. split; [reflexivity|]. split; reflexivity.
  - destruct fuel as [|f]; [lia|].
    cbn [forallb] in Hwf. apply andb_prop in Hwf. destruct Hwf as [Hw Hws].
    unfold enc_deltas in Hrest. cbn [flat_map] in Hrest. fold (enc_deltas ds) in Hrest.
    cbn [yseek_fwd]. rewrite Hrest.
    rewrite decode_delta_enc by exact Hw.
    destruct dc as [dur change]. cbn [fst snd] in *.
    pose proof (sum_dur_bounds ds (yc_start_ms c + dur) Hws) as Hb.
    pose proof (wf_delta_spec _ Hw) as (Hd & _). cbn [fst] in Hd.
    change (sum_dur ((dur, change) :: ds) (yc_start_ms c))
      with (sum_dur ds (yc_start_ms c + dur)) in Hsum.
    assert (Hu : u32 (yc_start_ms c + dur) = yc_start_ms c + dur).
    { unfold u32. apply Z.mod_small. lia. }
    rewrite Hu. cbn [before yaw_from rate_from].
    destruct (Qltb (ms_sec (yc_start_ms c + dur)) q) eqn:E.
    + destruct (IH f (ynext c dur change (enc_deltas ds)) q Hws) as (l & Hl & Hv & Hr).
      * reflexivity.
      * cbn [ynext yc_rest]. rewrite Hrest in Hfuel.
        rewrite app_length, enc_delta_length in Hfuel. lia.
      * cbn [ynext yc_start_ms]. rewrite Hu. lia.
      * cbn [ynext yc_start_ms]. rewrite Hu. exact Hsum.
      * exists l. split; [exact Hl|].
        cbn [ynext yc_start_ms yc_start_ddeg] in Hv, Hr. rewrite Hu in Hv, Hr.
        split; [exact Hv|exact Hr].
    + eexists. split; [reflexivity|]. cbn [yaw_of yaw_rate_of yrel].
      destruct (dur =? 0) eqn:E0; split; reflexivity.
Qed.

Lemma yseek_fwd_inf : forall ds fuel c, forallb wf_delta ds = true ->
  yc_rest c = enc_deltas ds -> (length (yc_rest c) < fuel)%nat ->
  exists c', yseek_fwd fuel c QPosInf = Ok (YEnd c') /\
    yc_start_ddeg c' = sum_chg ds (yc_start_ddeg c).
Proof.
  induction ds as [|dc ds IH]; intros fuel c Hwf Hrest Hfuel.
  - destruct fuel as [|f]; [lia|].
    cbn [yseek_fwd]. rewrite Hrest. cbn [enc_deltas flat_map decode_delta].
    eexists. split; reflexivity.
  - destruct fuel as [|f]; [lia|].
    cbn [forallb] in Hwf. apply andb_prop in Hwf. destruct Hwf as [Hw Hws].
    unfold enc_deltas in Hrest. cbn [flat_map] in Hrest. fold (enc_deltas ds) in Hrest.
    cbn [yseek_fwd]. rewrite Hrest.
    rewrite decode_delta_enc by exact Hw. cbn [before].
    destruct (IH f (ynext c (fst dc) (snd dc) (enc_deltas ds)) Hws) as (c' & Hl & Hv).
    + reflexivity.
    + cbn [ynext yc_rest]. rewrite Hrest in Hfuel.
      rewrite app_length, enc_delta_length in Hfuel. lia.
    + exists c'. split; [exact Hl|]. exact Hv.
Qed.

Lemma yseek_fresh_unfold : forall y t,
  yseek y (ycursor0 y) t = yseek_fwd (S (length (y_bytes y))) (ycursor0 y) (clamp0 t).
Proof. intros y t. unfold yseek. cbv zeta. destruct (after _ _); reflexivity. Qed.

Lemma clamp0_not_neginf t : clamp0 t <> QNegInf.
Proof.
  destruct t as [| |q]; cbn [clamp0]; try discriminate.
  destruct (Qle_bool q 0); discriminate.
Qed.

(** the landing of a fresh query, with its yaw and rate *)
Lemma yseek_enc : forall Y t, wf_syaw Y = true -> yaw_total_ms Y < 4294967296 ->
  exists l, yseek (enc_y Y) (ycursor0 (enc_y Y)) t = Ok l /\
    yaw_of l = yaw_spec Y t /\
    match yaw_rate_of l, rate_spec Y t with
    | Some a, Some b => (a == b)%Q
    | None, None => True
    | _, _ => False
    end.
Proof.
  intros Y t Hwf Htot. destruct (yaw_init_enc Y Hwf) as [_ Hsk].
  apply wf_syaw_spec in Hwf. destruct Hwf as (_ & _ & Hds).
  rewrite yseek_fresh_unfold. unfold yaw_spec, rate_spec.
  pose proof (clamp0_not_neginf t) as Hn.
  destruct (clamp0 t) as [| |q] eqn:Ec.
  - congruence.
  - destruct (yseek_fwd_inf (sy_deltas Y) _ (ycursor0 (enc_y Y)) Hds Hsk (ycursor0_fuel _))
      as (c' & Hl & Hv).
    exists (YEnd c'). split; [exact Hl|].
    cbn [yaw_of yaw_rate_of]. rewrite Hv. split; reflexivity.
  - destruct (yseek_fwd_fin (sy_deltas Y) _ (ycursor0 (enc_y Y)) q Hds Hsk (ycursor0_fuel _))
      as (l & Hl & Hv & Hr).
    + cbn [ycursor0 yc_start_ms]. lia.
    + exact Htot.
    + exists l. split; [exact Hl|]. split; [exact Hv|].
      rewrite Hr. cbn [ycursor0 yc_start_ms].
      destruct (rate_from 0 (sy_deltas Y) q); [reflexivity|exact I].
Qed.

Theorem yaw_exact : forall Y t, wf_syaw Y = true -> yaw_total_ms Y < 4294967296 ->
  exists y v, yaw_init (encode_yaw Y) = Ok y /\ yaw_at y t = Ok v /\ (v == yaw_spec Y t)%Q.
Proof.
  intros Y t Hwf Htot. destruct (yaw_init_enc Y Hwf) as [Hi _].
  destruct (yseek_enc Y t Hwf Htot) as (l & Hl & Hv & _).
  exists (enc_y Y), (yaw_of l). split; [exact Hi|].
  unfold yaw_at. rewrite Hl. cbn [bind]. split; [reflexivity|].
  rewrite Hv. reflexivity.
Qed.

Theorem rate_exact : forall Y t, wf_syaw Y = true -> yaw_total_ms Y < 4294967296 ->
  exists y r, yaw_init (encode_yaw Y) = Ok y /\ yaw_rate_at y t = Ok r /\
    match r, rate_spec Y t with
    | Some a, Some b => (a == b)%Q
    | None, None => True
    | _, _ => False
    end.
Proof.
  intros Y t Hwf Htot. destruct (yaw_init_enc Y Hwf) as [Hi _].
  destruct (yseek_enc Y t Hwf Htot) as (l & Hl & _ & Hr).
  exists (enc_y Y), (yaw_rate_of l). split; [exact Hi|].
  unfold yaw_rate_at. rewrite Hl. cbn [bind]. split; [reflexivity|exact Hr].
Qed.

(* ------------------------------------------------------------------ *)
(** * Range of the accumulated yaw *)
Lemma sum_chg_bounds : forall ds acc, forallb wf_delta ds = true ->
  acc - 32768 * Z.of_nat (length ds) <= sum_chg ds acc <= acc + 32767 * Z.of_nat (length ds).
Proof.
  induction ds as [|dc ds IH]; intros acc Hwf.
  - cbn [sum_chg fold_left length]. lia.
  - cbn [forallb] in Hwf. apply andb_prop in Hwf. destruct Hwf as [Hw Hws].
    apply wf_delta_spec in Hw. destruct Hw as (_ & Hc). apply i16b_spec in Hc.
    unfold sum_chg in *. cbn [fold_left length].
    specialize (IH (acc + snd dc) Hws). lia.
Qed.

Lemma forallb_firstn {A} (f : A -> bool) : forall k l,
  forallb f l = true -> forallb f (firstn k l) = true.
Proof.
  induction k as [|k IH]; intros l H; [reflexivity|].
  destruct l as [|a l]; [reflexivity|].
  cbn [forallb firstn] in *. apply andb_prop in H. destruct H as [Ha Hl].
  rewrite Ha, (IH l Hl). reflexivity.
Qed.

Theorem accumulated_yaw_fits_int32 : forall Y, wf_syaw Y = true ->
  (length (encode_yaw Y) <= 65535)%nat ->
  forall k, -2147483648 <= fold_left (fun a dc => a + snd dc) (firstn k (sy_deltas Y)) (sy_offset Y) < 2147483648.
Proof.
  intros Y Hwf Hlen k.
  apply wf_syaw_spec in Hwf. destruct Hwf as (_ & Ho & Hds).
  apply i16b_spec in Ho.
  rewrite encode_yaw_length in Hlen.
  pose proof (firstn_length k (sy_deltas Y)) as Hk.
  pose proof (sum_chg_bounds (firstn k (sy_deltas Y)) (sy_offset Y) (forallb_firstn _ k _ Hds)) as Hb.
  unfold sum_chg in Hb.
  assert (Hc : Z.of_nat 65535 = 65535) by (vm_compute; reflexivity).
  apply Nat2Z.inj_le in Hlen. rewrite Hc in Hlen.
  clear Hc. lia.
Qed.

(* ------------------------------------------------------------------ *)
(** * Fuel *)
Lemma yseek_fwd_unfold : forall f c t,
  yseek_fwd (S f) c t =
  match decode_delta (yc_rest c) with
  | None => Ok (YEnd c)
  | Some (dur, change, r) =>
    if before (u32 (yc_start_ms c + dur)) t then yseek_fwd f (ynext c dur change r) t
    else Ok (YOn c dur change (yrel c dur t))
  end.
Proof. reflexivity. Qed.

Lemma yseek_fwd_fuel_irrel : forall t f1 f2 c,
  (length (yc_rest c) < f1)%nat -> (length (yc_rest c) < f2)%nat ->
  yseek_fwd f1 c t = yseek_fwd f2 c t.
Proof.
  intros t f1. induction f1 as [|f1 IH]; intros f2 c H1 H2; [lia|].
  destruct f2 as [|f2]; [lia|].
  cbn [yseek_fwd].
  destruct (decode_delta (yc_rest c)) as [[[dur change] r]|] eqn:E; [|reflexivity].
  destruct (before (u32 (yc_start_ms c + dur)) t) eqn:B; [|reflexivity].
  apply decode_delta_length in E.
  apply IH; cbn [ynext yc_rest]; lia.
Qed.

Lemma yseek_fwd_not_fuel : forall t f c,
  (length (yc_rest c) < f)%nat -> yseek_fwd f c t <> Fuel.
Proof.
  intros t f. induction f as [|f IH]; intros c H; [lia|].
  cbn [yseek_fwd].
  destruct (decode_delta (yc_rest c)) as [[[dur change] r]|] eqn:E; [|discriminate].
  destruct (before (u32 (yc_start_ms c + dur)) t) eqn:B; [|discriminate].
  apply decode_delta_length in E.
  apply IH; cbn [ynext yc_rest]; lia.
Qed.

Lemma yreachable_rest_length : forall y c, yreachable y c ->
  (length (yc_rest c) <= length (y_bytes y))%nat.
Proof.
  intros y c H. induction H as [|c dur change r Hr IH Hd].
  - pose proof (ycursor0_fuel y). lia.
  - apply decode_delta_length in Hd. cbn [ynext yc_rest]. lia.
Qed.

Lemma yseek_start_reachable : forall y c t, yreachable y c ->
  yreachable y (if after (yc_start_ms c) t then ycursor0 y else c).
Proof. intros y c t H. destruct (after (yc_start_ms c) t); [constructor|assumption]. Qed.

Lemma yseek_never_out_of_fuel : forall y c t, yreachable y c -> yseek y c t <> Fuel.
Proof.
  intros y c t H. unfold yseek.
  apply yseek_fwd_not_fuel.
  pose proof (yreachable_rest_length y _ (yseek_start_reachable y c (clamp0 t) H)). lia.
Qed.

(* ------------------------------------------------------------------ *)
(** * The landing cursor is reachable *)
Lemma yseek_fwd_landing_reachable : forall y t f c l,
  yreachable y c -> yseek_fwd f c t = Ok l -> yreachable y (ylanding_cursor l).
Proof.
  intros y t f. induction f as [|f IH]; intros c l Hr H; [discriminate|].
  cbn [yseek_fwd] in H.
  destruct (decode_delta (yc_rest c)) as [[[dur change] r]|] eqn:E.
  - destruct (before (u32 (yc_start_ms c + dur)) t) eqn:B.
    + eapply IH; [|eassumption]. econstructor; eassumption.
    + injection H as <-. exact Hr.
  - injection H as <-. exact Hr.
Qed.

Lemma yseek_landing_reachable : forall y c t l,
  yreachable y c -> yseek y c t = Ok l -> yreachable y (ylanding_cursor l).
Proof.
  intros y c t l Hr H. unfold yseek in H.
  eapply yseek_fwd_landing_reachable; [|eassumption].
  apply yseek_start_reachable; assumption.
Qed.

(* ------------------------------------------------------------------ *)
(** * Start times along the chain *)
Lemma yreachable_start_nonneg : forall y c,
  ypositive y -> yreachable y c -> 0 <= yc_start_ms c.
Proof.
  intros y c Hp H. induction H as [|c dur change r Hr IH Hd].
  - cbn. lia.
  - destruct (Hp _ _ _ _ Hr Hd) as [Hd0 Hlt].
    cbn [ynext yc_start_ms]. unfold u32. rewrite Z.mod_small; lia.
Qed.

Lemma ynext_start : forall y c dur change r,
  ypositive y -> yreachable y c ->
  decode_delta (yc_rest c) = Some (dur, change, r) ->
  u32 (yc_start_ms c + dur) = yc_start_ms c + dur /\ 0 < dur.
Proof.
  intros y c dur change r Hp Hr Hd.
  destruct (Hp _ _ _ _ Hr Hd) as [Hd0 Hlt].
  pose proof (yreachable_start_nonneg y c Hp Hr).
  unfold u32. rewrite Z.mod_small; lia.
Qed.

(* ------------------------------------------------------------------ *)
(** * Core: a forward search from the first setpoint passes through every
    reachable cursor that starts at or before [t], or stops on the setpoint
    just before it when [t] is exactly the boundary. *)
Definition yboundary_case (y : yawctl) (F : nat) (c : ycursor) (t : qtime) : Prop :=
  exists c0 dur change r,
    yreachable y c0 /\
    decode_delta (yc_rest c0) = Some (dur, change, r) /\
    c = ynext c0 dur change r /\
    qtime_eq t (QFin (ms_sec (yc_start_ms c0 + dur))) /\
    yc_start_ms c = yc_start_ms c0 + dur /\
    yseek_fwd F (ycursor0 y) t = Ok (YOn c0 dur change (yrel c0 dur t)).

Lemma yseek_fwd_through : forall y t c,
  ypositive y -> yreachable y c ->
  after (yc_start_ms c) t = false ->
  let F := S (length (y_bytes y)) in
  yseek_fwd F (ycursor0 y) t = yseek_fwd F c t \/ yboundary_case y F c t.
Proof.
  intros y t c Hp Hr. induction Hr as [|c dur change r Hr IH Hd]; intros Ha F.
  - left. reflexivity.
  - destruct (ynext_start y c dur change r Hp Hr Hd) as [Hu Hpos].
    assert (Hs' : yc_start_ms (ynext c dur change r) = yc_start_ms c + dur)
      by (cbn [ynext yc_start_ms]; exact Hu).
    rewrite Hs' in Ha.
    assert (Hac : after (yc_start_ms c) t = false).
    { destruct t as [| |q]; try discriminate; try reflexivity.
      apply after_false_fin. apply after_false_fin in Ha.
      eapply Qle_trans; [|exact Ha]. apply ms_sec_le. lia. }
    specialize (IH Hac). fold F in IH.
    destruct IH as [IH|IH].
    + assert (Hstep : yseek_fwd F c t =
                if before (yc_start_ms c + dur) t
                then yseek_fwd F (ynext c dur change r) t
                else Ok (YOn c dur change (yrel c dur t))).
      { unfold F. rewrite (yseek_fwd_unfold _ c). rewrite Hd. rewrite Hu.
        destruct (before (yc_start_ms c + dur) t) eqn:B; [|reflexivity].
        pose proof (yreachable_rest_length y c Hr) as Hl.
        pose proof (decode_delta_length _ _ _ _ Hd) as Hl'.
        apply yseek_fwd_fuel_irrel; cbn [ynext yc_rest]; lia. }
      destruct (before (yc_start_ms c + dur) t) eqn:B.
      * left. rewrite IH. exact Hstep.
      * right. exists c, dur, change, r.
        split; [exact Hr|]. split; [exact Hd|]. split; [reflexivity|].
        split; [|split; [exact Hs'|rewrite IH; exact Hstep]].
        destruct t as [| |q]; try discriminate.
        cbn [qtime_eq]. apply after_false_fin in Ha. apply before_false_fin in B.
        apply Qle_antisym; assumption.
    + exfalso.
      destruct IH as (c0 & dur0 & change0 & r0 & _ & _ & _ & Hq & Hs0 & _).
      destruct t as [| |q]; cbn [qtime_eq] in Hq; try contradiction.
      apply after_false_fin in Ha. rewrite Hq in Ha.
      pose proof (proj1 (ms_sec_le _ _) Ha). lia.
Qed.

(** A search started on a cursor whose start time is exactly [t] stays there. *)
Lemma yseek_fwd_at_start : forall y f c t,
  ypositive y -> yreachable y c ->
  qtime_eq t (QFin (ms_sec (yc_start_ms c))) ->
  yseek_fwd (S f) c t =
  match decode_delta (yc_rest c) with
  | None => Ok (YEnd c)
  | Some (dur, change, _) => Ok (YOn c dur change (yrel c dur t))
  end.
Proof.
  intros y f c t Hp Hr Hq. cbn [yseek_fwd].
  destruct (decode_delta (yc_rest c)) as [[[dur change] r]|] eqn:E; [|reflexivity].
  destruct (ynext_start y c dur change r Hp Hr E) as [Hu Hpos]. rewrite Hu.
  destruct t as [| |q]; cbn [qtime_eq] in Hq; try contradiction.
  assert (B : before (yc_start_ms c + dur) (QFin q) = false).
  { apply before_false_fin. rewrite Hq. apply ms_sec_le. lia. }
  rewrite B. reflexivity.
Qed.

Lemma yseek_vs_fresh : forall y c t,
  ypositive y -> yreachable y c ->
  yseek y (ycursor0 y) t = yseek y c t \/
  (after (yc_start_ms c) (clamp0 t) = false /\
   yboundary_case y (S (length (y_bytes y))) c (clamp0 t)).
Proof.
  intros y c t Hp Hr. rewrite yseek_fresh_unfold. unfold yseek. cbv zeta.
  destruct (after (yc_start_ms c) (clamp0 t)) eqn:Ha.
  - left. reflexivity.
  - destruct (yseek_fwd_through y (clamp0 t) c Hp Hr Ha) as [H|H].
    + left. exact H.
    + right. split; [reflexivity|exact H].
Qed.

(* ------------------------------------------------------------------ *)
(** * C10 history independence, corrected statement: the boundary instant is
    compared as a rational ([qtime_eq]), not syntactically. *)
Theorem yaw_history_independent' : forall y c t l,
  yreachable y c -> ypositive y ->
  yseek y c t = Ok l ->
  yreachable y (ylanding_cursor l) /\
  exists l0, yseek y (ycursor0 y) t = Ok l0 /\
    (l = l0 \/
     match l0 with
     | YOn c0 dur change _ =>
         Player_Proofs.qtime_eq (clamp0 t) (QFin (ms_sec (yc_start_ms c0 + dur))) /\
         exists r, decode_delta (yc_rest c0) = Some (dur, change, r) /\ ylanding_cursor l = ynext c0 dur change r
     | YEnd _ => False
     end).
Proof.
  intros y c t l Hr Hp H.
  split; [eapply yseek_landing_reachable; eassumption|].
  destruct (yseek_vs_fresh y c t Hp Hr) as [E|[Ha Hb]].
  - exists l. split; [rewrite E; exact H|]. left. reflexivity.
  - destruct Hb as (c0 & dur0 & change0 & r0 & Hr0 & Hd0 & Hc & Hq & Hs & Hf).
    exists (YOn c0 dur0 change0 (yrel c0 dur0 (clamp0 t))).
    split; [rewrite yseek_fresh_unfold; exact Hf|].
    right. split; [exact Hq|]. exists r0. split; [exact Hd0|].
    rewrite <- Hc.
    unfold yseek in H. cbv zeta in H. rewrite Ha in H.
    rewrite (yseek_fwd_at_start y) in H; [|exact Hp|exact Hr|rewrite Hs; exact Hq].
    destruct (decode_delta (yc_rest c)) as [[[dur change] r]|];
      injection H as <-; reflexivity.
Qed.

(** With the canonical representation of [t] the original right disjunct
    implies the corrected one. *)
Lemma qtime_eq_of_eq : forall a b, a = QFin b -> qtime_eq a (QFin b).
Proof. intros a b ->. cbn [qtime_eq]. reflexivity. Qed.

(* ------------------------------------------------------------------ *)
(** * The statement with syntactic equality of the boundary instant is false *)
Module Counterexample.

(** two setpoints of 1000 ms *)
Definition yA : yawctl := mkyaw [0;0;0; 232;3;0;0; 232;3;0;0] false 0 2.

Lemma yA_is_init : yaw_init (y_bytes yA) = Ok yA.
Proof. reflexivity. Qed.

Definition second : ycursor :=
  match decode_delta (yc_rest (ycursor0 yA)) with
  | Some (d, c, r) => ynext (ycursor0 yA) d c r
  | None => ycursor0 yA
  end.
Definition third : ycursor :=
  match decode_delta (yc_rest second) with
  | Some (d, c, r) => ynext second d c r
  | None => second
  end.

Lemma reachable_second : yreachable yA second.
Proof. eapply (yreachS yA (ycursor0 yA)); [constructor|vm_compute; reflexivity]. Qed.

Lemma reachable_A : forall c, yreachable yA c ->
  c = ycursor0 yA \/ c = second \/ c = third.
Proof.
  intros c H. induction H as [|c d ch r Hr IH Hd]; [left; reflexivity|].
  destruct IH as [->|[->| ->]]; vm_compute in Hd; try discriminate;
    injection Hd as <- <- <-; [right; left|right; right]; reflexivity.
Qed.

Lemma positive_A : ypositive yA.
Proof.
  intros c d ch r Hr Hd. apply reachable_A in Hr.
  destruct Hr as [->|[->| ->]]; vm_compute in Hd; try discriminate;
    injection Hd as <- _ _; vm_compute; split; reflexivity.
Qed.

(** [t = 1 # 1] is the boundary [1000 # 1000] written differently. *)
Lemma yaw_history_independent_false :
  ~ (forall y c t l,
       yreachable y c -> ypositive y ->
       yseek y c t = Ok l ->
       yreachable y (ylanding_cursor l) /\
       exists l0, yseek y (ycursor0 y) t = Ok l0 /\
         (l = l0 \/
          match l0 with
          | YOn c0 dur change _ =>
              clamp0 t = QFin (ms_sec (yc_start_ms c0 + dur)) /\
              exists r, decode_delta (yc_rest c0) = Some (dur, change, r) /\ ylanding_cursor l = ynext c0 dur change r
          | YEnd _ => False
          end)).
Proof.
  intros H.
  destruct (yseek yA second (QFin 1)) as [l| | |] eqn:E; try (vm_compute in E; discriminate).
  destruct (H yA second (QFin 1) l reachable_second positive_A E) as [_ (l0 & H0 & Hs)].
  vm_compute in E. injection E as <-.
  vm_compute in H0. injection H0 as <-.
  destruct Hs as [Hs|[Hs _]]; vm_compute in Hs; discriminate.
Qed.

End Counterexample.
