(** C01 -- Trajectory position and duration follow the format definition.
    Statements only; proofs in Proofs/Traj_Proofs.v (and Poly_Proofs.v). *)
From Coq Require Import QArith List ZArith.
From SB Require Import Base.Prelude Base.Num Gen.Generated Model.Codec Model.Poly Model.Traj
  Spec.BezierSpec Spec.TrajSpec Proofs.Traj_Proofs Base.F32 Proofs.F32Poly_Proofs Proofs.BezierGrowth_Proofs.
Import ListNotations.
Local Open Scope Z_scope.

(** Chained start points / start times of the abstract segments. *)
Fixpoint spec_segments (scale : Z) (start : vec4) (start_ms : Z) (segs : list sseg)
  : list (Z * Z * (list Q * list Q * list Q * list Q)) :=
  match segs with
  | [] => []
  | s :: rest =>
    let c := ctrl scale start s in
    (start_ms, ss_dur s, c) :: spec_segments scale (ctrl_end c start) ((start_ms + ss_dur s) mod 4294967296) rest
  end.

(** Decoding the encoding of any well-formed abstract trajectory gives back
    its header fields and, segment by segment, its durations, chained start
    times and control points (previous end point, then stored points times the
    scale; yaw in tenths of a degree reduced to [0,360)). *)
Theorem decode_encode : forall T, wf_straj T = true ->
  exists tr, traj_init (encode_traj T) = Ok tr /\
    t_scale tr = st_scale T /\ t_use_yaw tr = st_use_yaw T /\ t_start tr = sstart T /\
    exists segs, segments tr = Ok segs /\
      map (fun cs => (c_start_ms (fst cs), sg_dur (snd cs),
                      (sg_x (snd cs), sg_y (snd cs), sg_z (snd cs), sg_yaw (snd cs)))) segs
      = spec_segments (st_scale T) (sstart T) 0 (st_segs T).
Proof. exact Traj_Proofs.decode_encode. Qed.
Print Assumptions decode_encode.

(** The position the player model reports (power-basis polynomial built by
    the transcription of sb_poly_make_bezier, evaluated by Horner) is the
    point of the Bezier curve (de Casteljau) of the segment whose span contains
    t at the elapsed fraction; start point at or before 0, last end point at or
    after the end.  (Total duration below 2^32 ms, as for every block that
    fits a 16-bit block length.) *)
Theorem position_exact : forall T t, wf_straj T = true -> total_ms T < 4294967296 ->
  exists tr p, traj_init (encode_traj T) = Ok tr /\ position_at tr t = Ok p /\
    vec4_eq p (traj_pos T t).
Proof. exact Traj_Proofs.position_exact. Qed.
Print Assumptions position_exact.

(** Consecutive segments join: the curve of a segment ends where the next
    one starts (so there is no gap at boundaries), and the trajectory ends at
    the last end point. *)
Theorem segments_join : forall c u, let '(cx, cy, cz, cw) := c in
  cx <> [] -> cy <> [] -> cz <> [] -> cw <> [] -> forall start,
  vec4_eq (bez4 c 1) (ctrl_end c start) /\
  vec4_eq (bez4 c 0) (mkvec4 (hd u cx) (hd u cy) (hd u cz) (hd u cw)).
Proof. exact Traj_Proofs.segments_join. Qed.
Print Assumptions segments_join.

(** Every way of asking for the total duration is the sum of the segment
    durations (in the uint32 arithmetic of the code). *)
Theorem durations_agree : forall T, wf_straj T = true ->
  exists tr, traj_init (encode_traj T) = Ok tr /\
    total_duration_msec tr = Ok (total_ms T mod 4294967296).
Proof. exact Traj_Proofs.durations_agree. Qed.
Print Assumptions durations_agree.

(** A 16-bit block cannot hold enough segments to wrap a uint32 duration. *)
Theorem block_duration_cannot_wrap : forall T, wf_straj T = true ->
  (length (encode_traj T) <= 65535)%nat -> total_ms T < 4294967296.
Proof. exact Traj_Proofs.block_duration_cannot_wrap. Qed.
Print Assumptions block_duration_cannot_wrap.

(** Non-vacuity: a three-segment trajectory with a degree-7 axis, a cubic and
    a negative yaw. *)
Example traj_example :
  let T := mkstraj 10 true (1, -2, 3, -450)
             [mksseg 1000 [5] [] [] [];
              mksseg 2500 [1; 2; 3; 4; 5; 6; 7] [9; 8; 7] [] [900];
              mksseg 1 [] [] [0] []] in
  wf_straj T = true /\
  match traj_init (encode_traj T) with
  | Ok tr => match position_at tr (QFin (3 # 2)) with
             | Ok p => vec4_eq p (traj_pos T (QFin (3 # 2)))
             | _ => False
             end
  | _ => False
  end.
Proof. exact Traj_Proofs.traj_example. Qed.

(** ---- the binary32 evaluation of a segment axis ---- *)
(** The power-basis coefficients of a unit-duration Bezier polynomial with
    1..8 control points grow by at most 3^n (sum_j |c_j| <= 3^n max|P|), so
    evaluating that polynomial in binary32 at any point of the segment is
    within 17 * 2^-24 * 3^n * max|P| of the exact value.  This is the
    evaluation term E of the comparison tolerance tol_at (Spec/TrajSpec.v:
    (2n+6) * 2^-24 * 3^n * max|P| >= this bound for every n); the remaining
    terms of tol_at (rounding of the coefficients themselves and of the curve
    parameter) stay assumed. *)
Theorem bezier_coefficient_growth : forall pts u M,
  (1 <= length pts <= 8)%nat -> (forall p, In p pts -> Qabs.Qabs p <= M)%Q -> (0 <= u)%Q -> (u <= 1)%Q ->
  (F32Poly_Proofs.abs_eval (make_bezier QOps 1%Q pts) u <= BezierGrowth_Proofs.pow3q (length pts - 1) * M)%Q.
Proof. exact BezierGrowth_Proofs.bezier_abs_eval_bound. Qed.
Print Assumptions bezier_coefficient_growth.

Theorem segment_axis_binary32_evaluation_error : forall pts u M,
  (1 <= length pts <= 8)%nat -> (forall p, In p pts -> Qabs.Qabs p <= M)%Q -> (0 <= u)%Q -> (u <= 1)%Q ->
  (Qabs.Qabs (horner F32.F32Ops (make_bezier QOps 1%Q pts) u - horner QOps (make_bezier QOps 1%Q pts) u)
   <= (17 # 16777216) * (BezierGrowth_Proofs.pow3q (length pts - 1) * M))%Q.
Proof. exact BezierGrowth_Proofs.bezier_f32_eval_error. Qed.
Print Assumptions segment_axis_binary32_evaluation_error.
