(** C02 -- Light colour and pyro state follow the bytecode semantics.
    C09 -- Light-player answers do not depend on earlier seeks.
    Statements only; proofs in Proofs/Light_Proofs.v. *)
From Coq Require Import ZArith QArith List.
From SB Require Import Base.Prelude Gen.Generated Model.Light Spec.LightSpec Proofs.Light_Proofs.
Import ListNotations.
Local Open Scope Z_scope.

Definition rgbq_eq (a b : rgbq) : Prop := (qr a == qr b)%Q /\ (qg a == qg b)%Q /\ (qb a == qb b)%Q.

(** what a seek reports vs the declarative state at [t] *)
Definition obs_match (p : player) (s : mstate) (t : Z) : Prop :=
  rgbq_eq (obs_color p) (spec_color s t) /\ obs_pyro p = spec_pyro s /\
  obs_ended p = spec_ended s /\ obs_next p = spec_next s t.

(** C02.  The polling interpreter (transcription of CommandExecutor::step and
    BytecodePlayer::seek: clock-reset flag, stale fields after rewind,
    re-arming every minute once ended, 'proposal + 1') reports, for a fresh
    player and every timestamp, exactly the state of the event-driven
    semantics: all instructions scheduled strictly before t executed, plus the
    first one scheduled at t. *)
Theorem seek_fresh_refines_timeline : forall prog t fuel p,
  wf_bytes prog = true -> 0 <= t ->
  light_seek fuel prog (player_fresh prog) t = Ok p ->
  exists fuel' s, state_at fuel' prog t = Some s /\ obs_match p s t.
Proof. exact Light_Proofs.seek_fresh_refines_timeline. Qed.
Print Assumptions seek_fresh_refines_timeline.

(** Whenever the program makes progress up to t (the declarative run is
    defined), the seek returns. *)
Theorem seek_fresh_terminates : forall prog t fuel s,
  wf_bytes prog = true -> 0 <= t ->
  state_at fuel prog t = Some s ->
  exists fuel' p, light_seek fuel' prog (player_fresh prog) t = Ok p.
Proof. exact Light_Proofs.seek_fresh_terminates. Qed.
Print Assumptions seek_fresh_terminates.

(** The next-event time is never earlier than t, and nothing is scheduled
    strictly between t and it. *)
Theorem next_event_sound : forall prog t fuel s,
  0 <= t -> state_at fuel prog t = Some s ->
  t <= spec_next s t /\ (m_ended s = false -> t <= m_wake s /\ spec_next s t = m_wake s).
Proof. exact Light_Proofs.next_event_sound. Qed.
Print Assumptions next_event_sound.

(** After the end marker, the end of the bytecode or an unknown command the
    last state is held. *)
Theorem stops_at_end : forall prog t t' fuel s,
  0 <= t <= t' -> state_at fuel prog t = Some s -> m_ended s = true ->
  state_at fuel prog t' = Some s.
Proof. exact Light_Proofs.stops_at_end. Qed.
Print Assumptions stops_at_end.

(** Instruction decoding used by the declarative machine agrees with the
    handlers of the executor: one [exec1] is one [exec_command] (stated on the
    observable part of the state). *)
Theorem decode_unknown_stops : forall prog a op,
  wf_bytes prog = true -> byte_at prog a = op -> (op = 15 \/ 22 <= op) -> fst (decode prog a) = IEnd.
Proof. exact Light_Proofs.decode_unknown_stops. Qed.
Print Assumptions decode_unknown_stops.

(** C09.  After any history of seeks (backwards, repeated, far ahead) a seek to
    [t] reports the declarative state at [t], possibly advanced by further
    instructions scheduled at that very instant when [t] repeats the previous
    query. *)
Inductive extra (prog : list Z) (t : Z) : nat -> mstate -> mstate -> Prop :=
| extra0 : forall s, extra prog t 0 s s
| extraS : forall k s s', m_ended s = false -> m_wake s = t ->
    extra prog t k (exec1 prog s) s' -> extra prog t (S k) s s'.

Fixpoint run_seeks (fuel : nat) (prog : list Z) (p : player) (ts : list Z) : res player :=
  match ts with
  | [] => Ok p
  | t :: rest => p' <- light_seek fuel prog p t ;; run_seeks fuel prog p' rest
  end.

Theorem seek_history_independent : forall prog ts t fuel p p',
  wf_bytes prog = true -> Forall (fun x => 0 <= x) ts -> 0 <= t ->
  run_seeks fuel prog (player_fresh prog) ts = Ok p ->
  light_seek fuel prog p t = Ok p' ->
  exists fuel' s k s', state_at fuel' prog t = Some s /\ extra prog t k s s' /\
    (k <> 0%nat -> cur_ts p = t) /\ obs_match p' s' t.
Proof. exact Light_Proofs.seek_history_independent. Qed.
Print Assumptions seek_history_independent.

(** Non-vacuity: a program with a nested loop, a fade and a jump. *)
Example light_example :
  let prog := [12; 2; 12; 3; 8; 255; 0; 0; 5; 4; 0; 0; 255; 5; 13; 13; 18; 21; 9; 9; 0; 20; 129; 11; 50; 0] in
  match light_seek 1000 prog (player_fresh prog) 1230, state_at 1000 prog 1230 with
  | Ok p, Some s => obs_pyro p = 1 /\ spec_pyro s = 1 /\ rgbq_eq (obs_color p) (spec_color s 1230) /\ obs_ended p = false
  | _, _ => False
  end.
Proof. exact Light_Proofs.light_example. Qed.
