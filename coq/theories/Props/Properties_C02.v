(** C02 -- Light colour and pyro state follow the bytecode semantics.
    C09 -- Light-player answers do not depend on earlier seeks.
    Statements only; proofs in Proofs/Light_Proofs.v. *)
From Coq Require Import ZArith QArith List.
From SB Require Import Base.Prelude Gen.Generated Model.Light Spec.LightSpec Proofs.Light_Proofs.
Import ListNotations.
Local Open Scope Z_scope.

(** [rgbq_eq], [obs_match] (what a seek reports vs the declarative state at
    [t]), [extra] and [run_seeks] are defined in Proofs/Light_Proofs.v. *)

(** C02.  The polling interpreter (transcription of CommandExecutor::step and
    BytecodePlayer::seek: clock-reset flag, stale fields after rewind,
    re-arming every minute once ended, 'proposal + 1') reports, for a fresh
    player and every timestamp, exactly the state of the event-driven
    semantics: all instructions scheduled strictly before t executed, plus the
    first one scheduled at t. *)
Theorem seek_fresh_refines_timeline : forall prog t fuel p,
  wf_bytes prog = true -> 0 <= t ->
  light_seek fuel prog (player_fresh prog) t = Ok p ->
  exists fuel' s, state_at fuel' prog t = Some s /\ obs_match p s t.
Proof. exact Light_Proofs.seek_fresh_refines_timeline. Qed.
Print Assumptions seek_fresh_refines_timeline.

(** Whenever the program makes progress up to t (the declarative run is
    defined), the seek returns. *)
Theorem seek_fresh_terminates : forall prog t fuel s,
  wf_bytes prog = true -> 0 <= t ->
  state_at fuel prog t = Some s ->
  exists fuel' p, light_seek fuel' prog (player_fresh prog) t = Ok p.
Proof. exact Light_Proofs.seek_fresh_terminates. Qed.
Print Assumptions seek_fresh_terminates.

(** The next-event time is never earlier than t, and nothing is scheduled
    strictly between t and it. *)
Theorem next_event_sound : forall prog t fuel s,
  0 <= t -> state_at fuel prog t = Some s ->
  t <= spec_next s t /\ (m_ended s = false -> t <= m_wake s /\ spec_next s t = m_wake s).
Proof. exact Light_Proofs.next_event_sound. Qed.
Print Assumptions next_event_sound.

(** After the end marker, the end of the bytecode or an unknown command the
    last state is held. *)
Theorem stops_at_end : forall prog t t' fuel s,
  0 <= t <= t' -> state_at fuel prog t = Some s -> m_ended s = true ->
  state_at fuel prog t' = Some s.
Proof. exact Light_Proofs.stops_at_end. Qed.
Print Assumptions stops_at_end.

(** Instruction decoding used by the declarative machine agrees with the
    handlers of the executor: one [exec1] is one [exec_command] (stated on the
    observable part of the state). *)
Theorem decode_unknown_stops : forall prog a op,
  wf_bytes prog = true -> byte_at prog a = op -> (op = 15 \/ 22 <= op) -> fst (decode prog a) = IEnd.
Proof. exact Light_Proofs.decode_unknown_stops. Qed.
Print Assumptions decode_unknown_stops.

(** Non-vacuity: a program with a nested loop, a fade and a jump. *)
Example light_example :
  let prog := [12; 2; 12; 3; 8; 255; 0; 0; 5; 4; 0; 0; 255; 5; 13; 13; 18; 21; 9; 9; 0; 20; 129; 11; 50; 0] in
  match light_seek 1000 prog (player_fresh prog) 1230, state_at 1000 prog 1230 with
  | Ok p, Some s => obs_pyro p = 1 /\ spec_pyro s = 1 /\ rgbq_eq (obs_color p) (spec_color s 1230) /\ obs_ended p = false
  | _, _ => False
  end.
Proof. exact Light_Proofs.light_example. Qed.
