(** C03 -- Arbitrary bytes are handled without memory errors, UB or hangs.
    What Coq carries: every read of the models is a checked read (pattern
    matching on the byte list), so 'reads outside the supplied bytes' and
    'does not return' are VALUES of the models ([OOB], [Fuel]); the theorems
    below say that for ANY byte string no model ever produces them (the light
    interpreter: under the progress hypothesis; without it the seek does not
    terminate -- finding D8).  Memory safety of the compiled code itself
    (sanitizer verdicts) is the correspondence part of the check.
    Statements only; proofs in Proofs/Safety_Proofs.v and the per-model files. *)
From Coq Require Import ZArith QArith List.
From SB Require Import Base.Prelude Base.Num Gen.Generated Model.Codec Model.Crc Model.Container Model.Loaders
  Model.Traj Model.Yaw Model.Rth Model.Light Model.Stats Spec.LightSpec Proofs.Light_Proofs Proofs.Safety_Proofs Proofs.Safety2_Proofs.
Import ListNotations.
Local Open Scope Z_scope.

(** container: both routes, every byte string, every lookup *)
Theorem container_total : forall r bytes ty p,
  parser_init r bytes <> Fuel /\ (forall s o, parser_init r bytes <> OOB s o) /\
  (parser_init r bytes = Ok p -> find_first p ty <> Fuel /\ forall s o, find_first p ty <> OOB s o).
Proof. exact Safety_Proofs.container_total. Qed.
Print Assumptions container_total.

(** trajectory: every byte string as a block, every query time *)
Theorem trajectory_total : forall bytes tr t,
  traj_init bytes = Ok tr ->
  (position_at tr t <> Fuel /\ velocity_at tr t <> Fuel /\ acceleration_at tr t <> Fuel /\
   total_duration_msec tr <> Fuel /\ segments tr <> Fuel) /\
  (forall s o, position_at tr t <> OOB s o /\ total_duration_msec tr <> OOB s o).
Proof. exact Safety_Proofs.trajectory_total. Qed.
Print Assumptions trajectory_total.

(** a block shorter than its header is refused, a segment cut short is a parse error *)
Theorem trajectory_short_header : forall bytes, (length bytes < 9)%nat -> traj_init bytes = Err SB_EPARSE.
Proof. exact Safety_Proofs.trajectory_short_header. Qed.
Print Assumptions trajectory_short_header.

(** the statistics queries on whatever loaded (takeoff / landing proposals; the
    bounding box walks the same segment list) *)
Theorem stats_total : forall bytes tr ascent speed acc descent thr,
  traj_init bytes = Ok tr ->
  Stats.propose_takeoff tr ascent speed acc <> Fuel /\
  (forall s o, Stats.propose_takeoff tr ascent speed acc <> OOB s o) /\
  Stats.propose_landing tr descent thr <> Fuel /\
  (forall s o, Stats.propose_landing tr descent thr <> OOB s o) /\
  (forall s o, segments tr <> OOB s o).
Proof. exact Safety2_Proofs.stats_total. Qed.
Print Assumptions stats_total.

(** yaw control *)
Theorem yaw_total : forall bytes y t,
  yaw_init bytes = Ok y -> yaw_at y t <> Fuel /\ yaw_rate_at y t <> Fuel /\
  (forall s o, yaw_at y t <> OOB s o).
Proof. exact Safety_Proofs.yaw_total. Qed.
Print Assumptions yaw_total.

Theorem yaw_short_header : forall bytes, (length bytes < 3)%nat -> yaw_init bytes = Err SB_EPARSE.
Proof. exact Safety_Proofs.yaw_short_header. Qed.

(** RTH plan: every byte string, every time, every point index *)
Theorem rth_total : forall bytes pl t i,
  plan_init bytes = Ok pl ->
  evaluate_at pl t <> Fuel /\ (forall s o, evaluate_at pl t <> OOB s o) /\
  get_point pl i <> Fuel /\ (forall s o, get_point pl i <> OOB s o).
Proof. exact Safety_Proofs.rth_total. Qed.
Print Assumptions rth_total.

Theorem rth_short_header : forall bytes, (length bytes < 3)%nat -> plan_init bytes = Err SB_EPARSE.
Proof. exact Safety_Proofs.rth_short_header. Qed.

(** light programs: the interpreter's reads are total (reads past the end give
    the end marker), the loop stack never exceeds its capacity, jump targets
    are validated *)
Theorem light_loop_stack_bounded : forall prog fuel ts p,
  Light_Proofs.run_seeks fuel prog (player_fresh prog) ts = Ok p ->
  Z.of_nat (length (loops (ex p))) <= CONFIG_MAX_LOOP_DEPTH.
Proof. exact Safety_Proofs.light_loop_stack_bounded. Qed.
Print Assumptions light_loop_stack_bounded.

Theorem light_pc_valid : forall prog fuel ts p,
  Light_Proofs.run_seeks fuel prog (player_fresh prog) ts = Ok p -> 0 <= pc (ex p) < 2147483647 + Z.of_nat (length prog) + 1.
Proof. exact Safety_Proofs.light_pc_valid. Qed.
Print Assumptions light_pc_valid.

(** without the progress hypothesis the seek does not return: a witness
    (finding D8: BytecodePlayer::seek loops forever on zero-time cycles) *)
Theorem light_seek_no_progress_refuted :
  forall fuel, light_seek fuel [18; 0] (player_fresh [18; 0]) 1 = Fuel.
Proof. exact Safety_Proofs.light_seek_no_progress_refuted. Qed.
Print Assumptions light_seek_no_progress_refuted.
