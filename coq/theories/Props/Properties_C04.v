(** C04 -- Show-file container is parsed exactly as laid out.
    Statements only; proofs in Proofs/Container_Proofs.v. *)
From SB Require Import Base.Prelude Gen.Generated Model.Crc Model.Container Spec.CrcSpec Spec.ContainerSpec Proofs.Container_Proofs.
Local Open Scope Z_scope.

(** Same data, same route, same start: any cursor position. *)
Definition same_file (p q : parser) : Prop :=
  p_bytes q = p_bytes p /\ p_route q = p_route p /\ p_start q = p_start p.

(** Initialisation classifies every byte string exactly as the grammar says
    (magic, version 1|2, feature byte, checksum, first record header absent or
    complete), on both routes, with the same error codes. *)
Theorem init_classifies : forall r bytes, wf_bytes bytes = true ->
  match parser_init r bytes, init_spec bytes with
  | Ok p, Ok h => p_version p = h_version h /\ p_features p = h_features h /\ p_start p = h_start h
                  /\ p_bytes p = bytes /\ p_route p = r
  | Err e, Err e' => e = e'
  | _, _ => False
  end.
Proof. exact Container_Proofs.init_classifies. Qed.
Print Assumptions init_classifies.

(** The blocks seen by walking the parser are exactly the records laid end to
    end after the header, in order, ending at the end of data or a type-0
    record; a header cut short is a read error; a body cut short is a read
    error from memory and plain end of data from a descriptor. *)
Theorem iteration_is_records : forall r bytes p, wf_bytes bytes = true ->
  parser_init r bytes = Ok p ->
  walk (S (length bytes)) p =
    (fst (all_records bytes (p_start p)), tail_error r (snd (all_records bytes (p_start p)))).
Proof. exact Container_Proofs.iteration_is_records. Qed.
Print Assumptions iteration_is_records.

(** Lookup: first record of that type, else the error that ends the walk,
    else 'not found' -- from any cursor position. *)
Theorem find_first_spec : forall r bytes p q ty, wf_bytes bytes = true ->
  parser_init r bytes = Ok p -> same_file p q ->
  match find_first q ty, find_spec r bytes (p_start p) ty with
  | Ok q', Ok b => p_type q' = b_type b /\ p_len q' = b_len b /\ p_body q' = b_body b /\ same_file p q'
  | Err e, Err e' => e = e'
  | _, _ => False
  end.
Proof. exact Container_Proofs.find_first_spec. Qed.
Print Assumptions find_first_spec.

(** Reading the current block yields exactly its body bytes, or a read error
    when the body is cut short; the memory view route yields the same bytes
    when they are all there. *)
Theorem read_block_spec : forall q, block_valid q = true ->
  (p_body q <= length (p_bytes q))%nat ->
  let b := mkblock (p_type q) (p_len q) (p_body q) in
  match read_current_block q, body_of (p_bytes q) b with
  | Ok (got, _), Some body => got = body
  | Err e, None => e = SB_EREAD
  | _, _ => False
  end.
Proof. exact Container_Proofs.read_block_spec'. Qed.
Print Assumptions read_block_spec.

(** Both routes of the 'ex' variant: the same bytes (copied for a descriptor,
    viewed for memory) or a read error -- never a view beyond the buffer. *)
Theorem read_block_ex_spec : forall q, block_valid q = true ->
  (p_body q <= length (p_bytes q))%nat ->
  let b := mkblock (p_type q) (p_len q) (p_body q) in
  match read_current_block_ex q, body_of (p_bytes q) b with
  | Ok (got, owned, _), Some body =>
      got = body /\ owned = (match p_route q with Fd => true | Mem => false end)
  | Err e, None => e = SB_EREAD
  | _, _ => False
  end.
Proof. exact Container_Proofs.read_block_ex_spec'. Qed.
Print Assumptions read_block_ex_spec.

(** The extra hypothesis holds for every block the parser can be parked on. *)
Theorem reachable_blocks_start_inside : forall r bytes p q ty,
  parser_init r bytes = Ok p ->
  (block_valid p = true -> (p_body p <= length (p_bytes p))%nat) /\
  (forall p', (block_valid p' = true -> (p_body p' <= length (p_bytes p'))%nat) ->
     (seek_to_next_block p' = Ok q -> block_valid q = true -> (p_body q <= length (p_bytes q))%nat) /\
     (rewind p' = Ok q -> block_valid q = true -> (p_body q <= length (p_bytes q))%nat) /\
     (find_first p' ty = Ok q -> block_valid q = true -> (p_body q <= length (p_bytes q))%nat)).
Proof. exact Container_Proofs.reachable_blocks_start_inside. Qed.
Print Assumptions reachable_blocks_start_inside.

(** Round trip: the records of an encoded list of blocks are those blocks. *)
Theorem records_of_encoding : forall hdr bs, wf_blocks bs = true ->
  all_records (hdr ++ flat_map enc_block bs) (length hdr) = (layout (length hdr) bs, TEnd).
Proof. exact Container_Proofs.records_of_encoding. Qed.
Print Assumptions records_of_encoding.

Theorem layout_bodies : forall hdr bs, wf_blocks bs = true ->
  map (body_of (hdr ++ flat_map enc_block bs)) (layout (length hdr) bs) = map (fun tb => Some (snd tb)) bs
  /\ map b_type (layout (length hdr) bs) = map fst bs.
Proof. exact Container_Proofs.layout_bodies. Qed.
Print Assumptions layout_bodies.

(** Non-vacuity: a version-1 file with three blocks (one empty, one of type 200). *)
Example container_example :
  let bytes := enc_header_v1 ++ flat_map enc_block [(3, [1; 2]); (200, []); (1, [9; 9; 9])] in
  match parser_init Mem bytes with
  | Ok p => fst (walk 50 p) = [mkblock 3 2 8; mkblock 200 0 13; mkblock 1 3 16]
  | _ => False
  end.
Proof. exact Container_Proofs.container_example. Qed.
