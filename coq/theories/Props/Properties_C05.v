(** C05 -- Checksummed files reject every detectable corruption.
    Statements only; proofs in Proofs/Crc_Proofs.v. *)
From SB Require Import Base.Prelude Gen.Generated Model.Crc Model.Container Spec.CrcSpec Spec.ContainerSpec Proofs.Crc_Proofs Proofs.CrcOrder_Proofs.
Local Open Scope Z_scope.

(** The table in crc32.c (regenerated from the source on every run) is the
    reflected CRC-32 table: entry i = eight register steps from i. *)
Theorem crc_table_is_bitwise :
  length crc32_tab = 256%nat /\
  forall i, (i < 256)%nat -> nth i crc32_tab 0 = Nat.iter 8 bstep (Z.of_nat i).
Proof. exact Crc_Proofs.crc_table_is_bitwise. Qed.
Print Assumptions crc_table_is_bitwise.

(** The table-driven update is the bit-serial CRC, for any data and any
    32-bit starting value. *)
Theorem update_is_bitwise : forall crc bytes,
  0 <= crc < 4294967296 -> wf_bytes bytes = true ->
  crc_update crc bytes = crc_bits crc (bits_of bytes).
Proof. exact Crc_Proofs.update_is_bitwise. Qed.
Print Assumptions update_is_bitwise.

(** The value does not depend on how the data is split across calls. *)
Theorem chunking_irrelevant : forall crc a b,
  crc_update (crc_update crc a) b = crc_update crc (a ++ b).
Proof. exact Crc_Proofs.chunking_irrelevant. Qed.
Print Assumptions chunking_irrelevant.

(** The chunked whole-file computation (256-byte reads, field zeroed in the
    first chunk) is the CRC of the file with bytes 6..9 zeroed, for every
    length, multiples of 256 included. *)
Theorem file_crc_is_crc_of_zeroed : forall bytes,
  file_crc bytes = crc_update 0 (zero_field bytes).
Proof. exact Crc_Proofs.file_crc_is_crc_of_zeroed. Qed.
Print Assumptions file_crc_is_crc_of_zeroed.

(** A checksummed file is accepted only if the stored value equals the
    AP-CRC32 of the file with the field zeroed (both routes). *)
Theorem accept_only_if_stored_equals_crc : forall r bytes p,
  wf_bytes bytes = true -> parser_init r bytes = Ok p ->
  Z.land (p_features p) SB_BINARY_FEATURE_CRC32 <> 0 ->
  stored_crc bytes = Some (crc_spec (zero_field bytes)).
Proof. exact Crc_Proofs.accept_only_if_stored_equals_crc. Qed.
Print Assumptions accept_only_if_stored_equals_crc.

(** Two byte strings of the same length that differ, and differ only inside a
    window of at most 4 consecutive bytes, have different checksums (any
    starting value). *)
Definition differ_only_in (a b : list Z) (lo w : nat) : Prop :=
  length a = length b /\ a <> b /\
  forall i, (i < lo \/ lo + w <= i)%nat -> nth_error a i = nth_error b i.

Theorem burst_detected : forall crc a b lo w,
  0 <= crc < 4294967296 -> wf_bytes a = true -> wf_bytes b = true ->
  (w <= 4)%nat -> differ_only_in a b lo w ->
  crc_update crc a <> crc_update crc b.
Proof. exact Crc_Proofs.burst_detected. Qed.
Print Assumptions burst_detected.

(** Consequently: an accepted checksummed file, altered only inside a window
    of at most 4 bytes lying entirely after the checksum field, or only inside
    the checksum field, is reported as corrupted by both routes. *)
Theorem burst_after_field_rejected : forall r r' bytes bytes' p lo w,
  wf_bytes bytes = true -> wf_bytes bytes' = true ->
  parser_init r bytes = Ok p -> Z.land (p_features p) SB_BINARY_FEATURE_CRC32 <> 0 ->
  (w <= 4)%nat -> (10 <= lo)%nat -> differ_only_in bytes bytes' lo w ->
  parser_init r' bytes' = Err SB_ECORRUPTED.
Proof. exact Crc_Proofs.burst_after_field_rejected. Qed.
Print Assumptions burst_after_field_rejected.

Theorem change_inside_field_rejected : forall r r' bytes bytes' p,
  wf_bytes bytes = true -> wf_bytes bytes' = true ->
  parser_init r bytes = Ok p -> Z.land (p_features p) SB_BINARY_FEATURE_CRC32 <> 0 ->
  differ_only_in bytes bytes' 6 4 ->
  parser_init r' bytes' = Err SB_ECORRUPTED.
Proof. exact Crc_Proofs.change_inside_field_rejected. Qed.
Print Assumptions change_inside_field_rejected.

(** One or two flipped bits: the register orbit from 1 does not return to 1
    within [orbit_bound] steps (checked by computation inside the kernel), so
    any one- or two-bit alteration within a span of at most [orbit_bound] bits
    changes the checksum.  The bound is part of the statement; the true order
    2^32-1 is not proved. *)
Definition orbit_bound : Z := Crc_Proofs.orbit_bound.

Definition flip_bit (bytes : list Z) (i : nat) : list Z :=
  match nth_error bytes (i / 8) with
  | Some x => upd bytes (i / 8) (Z.lxor x (Z.shiftl 1 (Z.of_nat (i mod 8))))
  | None => bytes
  end.

Theorem one_bit_detected : forall crc bytes i,
  0 <= crc < 4294967296 -> wf_bytes bytes = true -> (i < 8 * length bytes)%nat ->
  crc_update crc (flip_bit bytes i) <> crc_update crc bytes.
Proof. exact Crc_Proofs.one_bit_detected. Qed.
Print Assumptions one_bit_detected.

Theorem two_bits_detected_upto : forall crc bytes i j,
  0 <= crc < 4294967296 -> wf_bytes bytes = true ->
  (i < j)%nat -> (j < 8 * length bytes)%nat -> Z.of_nat j - Z.of_nat i <= orbit_bound ->
  crc_update crc (flip_bit (flip_bit bytes i) j) <> crc_update crc bytes.
Proof. exact Crc_Proofs.two_bits_detected_upto. Qed.
Print Assumptions two_bits_detected_upto.

(** ... and without the bound: the register step has multiplicative order
    exactly 2^32 - 1 (the reflected polynomial 0xEDB88320 is primitive: the
    step's (2^32-1)-th power is the identity and none of its powers with
    exponent (2^32-1)/p, p in {3, 5, 17, 257, 65537}, is -- computed inside the
    kernel with 32x32 bit matrices and repeated squaring), so two flipped bits
    are detected whenever they are less than 2^32 - 1 bit positions (512 MiB)
    apart: for every file a 32-bit CRC can protect at all. *)
Theorem two_bits_detected : forall crc bytes i j,
  0 <= crc < 4294967296 -> wf_bytes bytes = true ->
  (i < j)%nat -> (j < 8 * length bytes)%nat -> Z.of_nat j - Z.of_nat i < 4294967295 ->
  crc_update crc (flip_bit (flip_bit bytes i) j) <> crc_update crc bytes.
Proof. exact CrcOrder_Proofs.two_bits_detected. Qed.
Print Assumptions two_bits_detected.

(** Non-vacuity: the standard check string "123456789". *)
Example crc_check_value :
  crc_update 0 [49; 50; 51; 52; 53; 54; 55; 56; 57] = crc_spec [49; 50; 51; 52; 53; 54; 55; 56; 57]
  /\ crc_update 0 [49; 50; 51; 52; 53; 54; 55; 56; 57] = 771566984.
Proof. exact Crc_Proofs.crc_check_value. Qed.
