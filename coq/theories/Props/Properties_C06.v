(** C06 -- Loading from a descriptor and from memory are interchangeable.
    Statements only; proofs in Proofs/Loaders_Proofs.v. *)
From Coq Require Import ZArith List.
From SB Require Import Base.Prelude Gen.Generated Model.Crc Model.Container Model.Loaders Spec.CrcSpec Spec.ContainerSpec
  Proofs.Loaders_Proofs.
Import ListNotations.
Local Open Scope Z_scope.

(** For every byte string and each of the four object kinds the two routes
    either both fail or both succeed with the same block bytes. *)
Theorem routes_agree : forall k bytes, wf_bytes bytes = true ->
  agree (load k Fd bytes) (load k Mem bytes).
Proof. exact Loaders_Proofs.routes_agree. Qed.
Print Assumptions routes_agree.

(** When they fail, the error codes are equal except for a file that ends
    inside a block (read error from memory, not-found / read error from a
    descriptor). *)
Theorem route_errors_differ_only_on_short_body : forall k bytes e1 e2, wf_bytes bytes = true ->
  load k Fd bytes = Err e1 -> load k Mem bytes = Err e2 -> e1 <> e2 ->
  exists h, header_spec bytes = Ok h /\ snd (all_records bytes (h_start h)) = TShortBody.
Proof. exact Loaders_Proofs.route_errors_differ_only_on_short_body. Qed.
Print Assumptions route_errors_differ_only_on_short_body.

(** A successful load yields exactly the body of the first record of the
    kind's type, which is at least as long as the kind's header. *)
Theorem load_is_first_block : forall k r bytes body owned, wf_bytes bytes = true ->
  load k r bytes = Ok (body, owned) ->
  exists h b, header_spec bytes = Ok h /\
    first_of_type (fst (all_records bytes (h_start h))) (kind_type k) = Some b /\
    body_of bytes b = Some body /\ (min_len k <= length body)%nat.
Proof. exact Loaders_Proofs.load_is_first_block. Qed.
Print Assumptions load_is_first_block.

(** The model's loaders never run out of fuel and never read out of bounds. *)
Theorem load_total : forall k r bytes,
  load k r bytes <> Fuel /\ forall s o, load k r bytes <> OOB s o.
Proof. exact Loaders_Proofs.load_total. Qed.
Print Assumptions load_total.

Example load_example :
  let bytes := enc_header_v1 ++ flat_map enc_block [(3, [1; 2]); (5, [1; 0; 0; 10; 0; 5; 0]); (1, [1; 0;0; 0;0; 0;0; 0;0])] in
  load KYaw Fd bytes = Ok ([1; 0; 0; 10; 0; 5; 0], true) /\
  load KYaw Mem bytes = Ok ([1; 0; 0; 10; 0; 5; 0], false) /\
  load KRth Mem bytes = Err SB_ENOENT /\
  load KLight Fd (enc_header_v1 ++ flat_map enc_block [(2, [])]) = Ok ([], true) /\
  load KLight Mem (enc_header_v1 ++ flat_map enc_block [(2, [])]) = Ok ([], true).
Proof. exact Loaders_Proofs.load_example. Qed.
