(** C07 -- Velocity and acceleration are the time derivatives of the position.
    Statements only; proofs in Proofs/Poly_Proofs.v and Proofs/Vel_Proofs.v. *)
From Coq Require Import Reals QArith Qreals List ZArith.
From Coquelicot Require Import Coquelicot.
From SB Require Import Base.Prelude Base.Num Gen.Generated Model.Poly Model.Traj Spec.BezierSpec Proofs.Vel_Proofs.
Import ListNotations.
Local Open Scope R_scope.

(** One axis of a segment as a function of real time: the Bezier polynomial of
    the control points [pts] evaluated at the elapsed fraction. *)
Definition axis_pos (pts : list Q) (start_ms dur_ms : Z) (t : R) : R :=
  horner ROps (make_bezier ROps 1 (map Q2R pts)) ((t - Q2R (ms_sec start_ms)) / Q2R (ms_sec dur_ms)).

(** The polynomial the model evaluates for the k-th derivative of that axis
    (sb_i_get_dpoly / sb_i_get_ddpoly: derivative, then scaling by 1/duration). *)
Definition dstep (dur_ms : Z) (cs : list Q) : list Q :=
  scale QOps (deriv QOps cs) (Qinv (ms_sec dur_ms)).
Definition axis_vel (pts : list Q) (start_ms dur_ms : Z) (t : R) : R :=
  horner ROps (map Q2R (dstep dur_ms (make_bezier QOps 1%Q pts))) ((t - Q2R (ms_sec start_ms)) / Q2R (ms_sec dur_ms)).
Definition axis_acc (pts : list Q) (start_ms dur_ms : Z) (t : R) : R :=
  horner ROps (map Q2R (dstep dur_ms (dstep dur_ms (make_bezier QOps 1%Q pts)))) ((t - Q2R (ms_sec start_ms)) / Q2R (ms_sec dur_ms)).

(** For every curve degree (1..8 control points) and every duration >= 1 ms,
    at every real time: velocity is the derivative of position, acceleration
    the derivative of velocity. *)
Theorem velocity_is_derivative : forall pts start_ms dur_ms t,
  (1 <= length pts <= 8)%nat -> (0 < dur_ms)%Z ->
  is_derive (axis_pos pts start_ms dur_ms) t (axis_vel pts start_ms dur_ms t).
Proof. exact Vel_Proofs.velocity_is_derivative. Qed.
Print Assumptions velocity_is_derivative.

Theorem acceleration_is_derivative : forall pts start_ms dur_ms t,
  (1 <= length pts <= 8)%nat -> (0 < dur_ms)%Z ->
  is_derive (axis_vel pts start_ms dur_ms) t (axis_acc pts start_ms dur_ms t).
Proof. exact Vel_Proofs.acceleration_is_derivative. Qed.
Print Assumptions acceleration_is_derivative.

(** What the player model returns at a landing inside a segment is exactly
    these functions at the query time (x axis shown; the four axes are the
    same code). *)
Theorem model_velocity_is_axis_vel : forall c s (t : Q),
  (0 < sg_dur s)%Z ->
  let l := OnSegment c s (rel_time c s (QFin t)) in
  Q2R (vx (position_of l)) = axis_pos (sg_x s) (c_start_ms c) (sg_dur s) (Q2R t) /\
  Q2R (vx (velocity_of l)) = axis_vel (sg_x s) (c_start_ms c) (sg_dur s) (Q2R t) /\
  Q2R (vx (acceleration_of l)) = axis_acc (sg_x s) (c_start_ms c) (sg_dur s) (Q2R t) /\
  Q2R (vy (velocity_of l)) = axis_vel (sg_y s) (c_start_ms c) (sg_dur s) (Q2R t) /\
  Q2R (vz (velocity_of l)) = axis_vel (sg_z s) (c_start_ms c) (sg_dur s) (Q2R t) /\
  Q2R (vyaw (velocity_of l)) = axis_vel (sg_yaw s) (c_start_ms c) (sg_dur s) (Q2R t).
Proof. exact Vel_Proofs.model_velocity_is_axis_vel. Qed.
Print Assumptions model_velocity_is_axis_vel.

(** Beyond the end both are zero; before time zero they are the values at zero. *)
Theorem beyond_end_zero : forall c, velocity_of (OnEnd c) = zero4 /\ acceleration_of (OnEnd c) = zero4.
Proof. exact Vel_Proofs.beyond_end_zero. Qed.
Print Assumptions beyond_end_zero.

Theorem before_zero_clamped : forall tr c (t : Q), (t <= 0)%Q ->
  seek tr c (QFin t) = seek tr c (QFin 0) /\ seek tr c QNegInf = seek tr c (QFin 0).
Proof. exact Vel_Proofs.before_zero_clamped. Qed.
Print Assumptions before_zero_clamped.

Example velocity_example :
  (* a cubic x axis 0,0,30,30 over 2 s: speed at mid-time is 22.5 units/s *)
  axis_vel [0; 0; 30; 30]%Q 0 2000 1 = 45 / 2.
Proof. exact Vel_Proofs.velocity_example. Qed.
