(** C08 -- Trajectory answers do not depend on earlier queries (yaw player:
    Props/Properties_C10.v).  Statements only; proofs in Proofs/Player_Proofs.v. *)
From Coq Require Import QArith List ZArith.
From SB Require Import Base.Prelude Base.Num Gen.Generated Model.Poly Model.Traj Proofs.Player_Proofs.
Import ListNotations.
Local Open Scope Z_scope.

(** Cursors a player can be parked on: the first segment, or the successor of
    a reachable cursor whose segment decodes. *)
Inductive reachable (tr : traj) : cursor -> Prop :=
| reach0 : reachable tr (cursor0 tr)
| reachS : forall c s rest', reachable tr c ->
    decode_segment (t_scale tr) (c_start c) (c_rest c) = Ok (Some (s, rest')) ->
    reachable tr (next_cursor c s rest').

(** Every segment lasts at least 1 ms and start times do not wrap. *)
Definition positive_durations (tr : traj) : Prop :=
  forall c s rest', reachable tr c ->
    decode_segment (t_scale tr) (c_start c) (c_rest c) = Ok (Some (s, rest')) ->
    0 < sg_dur s /\ c_start_ms c + sg_dur s < 4294967296.

(** [l] is the fresh answer [l0], or [t] is exactly the boundary between the
    segment of [l0] and the next one and [l] is parked on that next one. *)
Definition same_or_adjacent (tr : traj) (l l0 : landing) (t : qtime) : Prop :=
  l = l0 \/
  match l0 with
  | OnSegment c0 s0 _ =>
    clamp0 t = QFin (ms_sec (c_start_ms c0 + sg_dur s0)) /\
    exists rest', decode_segment (t_scale tr) (c_start c0) (c_rest c0) = Ok (Some (s0, rest')) /\
                  landing_cursor l = next_cursor c0 s0 rest'
  | OnEnd _ => False
  end.

(** From any reachable cursor (i.e. after any history of queries) a query
    lands where a fresh player lands, or on the adjoining segment when [t] is
    exactly a boundary; and the cursor it leaves behind is reachable again. *)
Theorem seek_history_independent : forall tr c t l,
  positive_durations tr -> reachable tr c ->
  seek tr c t = Ok l ->
  reachable tr (landing_cursor l) /\
  exists l0, seek tr (cursor0 tr) t = Ok l0 /\ same_or_adjacent tr l l0 t.
Proof. exact Player_Proofs.seek_history_independent. Qed.
Print Assumptions seek_history_independent.

(** Errors do not depend on history either. *)
Theorem seek_error_independent : forall tr c t e,
  positive_durations tr -> reachable tr c ->
  seek tr c t = Err e -> seek tr (cursor0 tr) t = Err e.
Proof. exact Player_Proofs.seek_error_independent. Qed.
Print Assumptions seek_error_independent.

(** Any sequence of earlier queries leaves a reachable cursor. *)
Fixpoint run_history (tr : traj) (c : cursor) (ts : list qtime) : cursor :=
  match ts with
  | [] => c
  | t :: rest => match seek tr c t with
                 | Ok l => run_history tr (landing_cursor l) rest
                 | _ => run_history tr c rest
                 end
  end.

Theorem history_reachable : forall tr ts,
  positive_durations tr -> reachable tr (run_history tr (cursor0 tr) ts).
Proof. exact Player_Proofs.history_reachable. Qed.
Print Assumptions history_reachable.

(** The value returned is a function of the landing only (segment and
    relative time): no other state enters -- in particular the derivative
    cache of the C player is a function of the segment. *)
Theorem value_fn_of_landing : forall l l', l = l' ->
  position_of l = position_of l' /\ velocity_of l = velocity_of l' /\ acceleration_of l = acceleration_of l'.
Proof. exact Player_Proofs.value_fn_of_landing. Qed.

(** The player never needs more fuel than it has. *)
Theorem seek_never_out_of_fuel : forall tr c t, reachable tr c -> seek tr c t <> Fuel.
Proof. exact Player_Proofs.seek_never_out_of_fuel. Qed.
Print Assumptions seek_never_out_of_fuel.
