(** C08 -- Trajectory answers do not depend on earlier queries (yaw player:
    Props/Properties_C10.v).  Statements only; proofs in Proofs/Player_Proofs.v,
    which also holds the definitions used here:
    [reachable] (cursors a player can be parked on: the first segment, or the
    successor of a reachable cursor whose segment decodes),
    [positive_durations] (every segment lasts at least 1 ms and start times do
    not wrap), [qtime_eq] (equality of query times as rationals),
    [same_or_adjacent'] ([l] is the fresh answer [l0], or [t] is exactly the
    boundary between the segment of [l0] and the next one and [l] is parked on
    that next one), [parked] (the initial cursor, or one whose segment header
    decoded: what a query leaves behind), [run_history]. *)
From Coq Require Import QArith List ZArith.
From SB Require Import Base.Prelude Base.Num Gen.Generated Model.Poly Model.Traj Proofs.Player_Proofs.
Import ListNotations.
Local Open Scope Z_scope.

Print reachable.
Print positive_durations.
Print qtime_eq.
Print same_or_adjacent'.
Print parked.
Print run_history.

(** From any reachable cursor (i.e. after any history of queries) a query
    lands where a fresh player lands, or on the adjoining segment when [t] is
    exactly a boundary; and the cursor it leaves behind is reachable again. *)
Theorem seek_history_independent : forall tr c t l,
  positive_durations tr -> reachable tr c ->
  seek tr c t = Ok l ->
  reachable tr (landing_cursor l) /\
  exists l0, seek tr (cursor0 tr) t = Ok l0 /\ same_or_adjacent' tr l l0 t.
Proof. exact Player_Proofs.seek_history_independent'. Qed.
Print Assumptions seek_history_independent.

(** Errors do not depend on history either (for a cursor a query can leave
    the player on: [history_parked]). *)
Theorem seek_error_independent : forall tr c t e,
  positive_durations tr -> reachable tr c -> parked tr c ->
  seek tr c t = Err e -> seek tr (cursor0 tr) t = Err e.
Proof. exact Player_Proofs.seek_error_independent'. Qed.
Print Assumptions seek_error_independent.

(** Any sequence of earlier queries leaves a reachable, parked cursor. *)
Theorem history_reachable : forall tr ts,
  positive_durations tr -> reachable tr (run_history tr (cursor0 tr) ts).
Proof. exact Player_Proofs.history_reachable. Qed.
Print Assumptions history_reachable.

Theorem history_parked : forall tr ts, parked tr (run_history tr (cursor0 tr) ts).
Proof. exact Player_Proofs.history_parked. Qed.
Print Assumptions history_parked.

Theorem seek_error_after_history : forall tr ts t e,
  positive_durations tr ->
  seek tr (run_history tr (cursor0 tr) ts) t = Err e -> seek tr (cursor0 tr) t = Err e.
Proof. exact Player_Proofs.seek_error_after_history. Qed.
Print Assumptions seek_error_after_history.

(** The value returned is a function of the landing only (segment and
    relative time): no other state enters -- in particular the derivative
    cache of the C player is a function of the segment. *)
Theorem value_fn_of_landing : forall l l', l = l' ->
  position_of l = position_of l' /\ velocity_of l = velocity_of l' /\ acceleration_of l = acceleration_of l'.
Proof. exact Player_Proofs.value_fn_of_landing. Qed.

(** The player never needs more fuel than it has. *)
Theorem seek_never_out_of_fuel : forall tr c t, reachable tr c -> seek tr c t <> Fuel.
Proof. exact Player_Proofs.seek_never_out_of_fuel. Qed.
Print Assumptions seek_never_out_of_fuel.

(** The first formulation (syntactic equality of the boundary instant;
    errors from any reachable cursor) is refuted: *)
Check Player_Proofs.Counterexamples.seek_history_independent_false.
Check Player_Proofs.Counterexamples.seek_error_independent_false.
Print Assumptions Player_Proofs.Counterexamples.seek_history_independent_false.
Print Assumptions Player_Proofs.Counterexamples.seek_error_independent_false.
