(** C09 -- Light-player answers do not depend on earlier seeks.
    Statements only; proofs in Proofs/Light_Proofs.v. *)
From Coq Require Import ZArith QArith List.
From SB Require Import Base.Prelude Gen.Generated Model.Light Spec.LightSpec Proofs.Light_Proofs.
Import ListNotations.
Local Open Scope Z_scope.

(** C09.  After any history of seeks (backwards, repeated, far ahead) a seek to
    [t] reports the declarative state at [t], possibly advanced by further
    instructions scheduled at that very instant when [t] repeats the previous
    query. *)
(** CORRECTED: the next-event clause is [obs_match_rep] (Light_Proofs): as
    [obs_match], except that when the query repeats the instant at which the
    player had already reported the end ([cur_ts p = t], [obs_ended p = true])
    the executor re-arms and reports [t + 60000] where [spec_next] says [t].
    The statement with plain [obs_match] is false
    ([Light_Proofs.seek_history_independent_counterexample]: program [0],
    seeks 0 then 0). *)
Theorem seek_history_independent : forall prog ts t fuel p p',
  wf_bytes prog = true -> Forall (fun x => 0 <= x) ts -> 0 <= t ->
  run_seeks fuel prog (player_fresh prog) ts = Ok p ->
  light_seek fuel prog p t = Ok p' ->
  exists fuel' s k s', state_at fuel' prog t = Some s /\ extra prog t k s s' /\
    (k <> 0%nat -> cur_ts p = t) /\ obs_match_rep p p' s' t.
Proof. exact Light_Proofs.seek_history_independent'. Qed.
Print Assumptions seek_history_independent.

(** The original conclusion, away from that corner. *)
Theorem seek_history_independent_strict : forall prog ts t fuel p p',
  wf_bytes prog = true -> Forall (fun x => 0 <= x) ts -> 0 <= t ->
  run_seeks fuel prog (player_fresh prog) ts = Ok p ->
  (obs_ended p = false \/ cur_ts p <> t) ->
  light_seek fuel prog p t = Ok p' ->
  exists fuel' s k s', state_at fuel' prog t = Some s /\ extra prog t k s s' /\
    (k <> 0%nat -> cur_ts p = t) /\ obs_match p' s' t.
Proof. exact Light_Proofs.seek_history_independent_strict. Qed.
Print Assumptions seek_history_independent_strict.


(** Non-vacuity: a history with a back-jump and a repeated instant on a program
    with zero-duration commands. *)
Example history_example :
  let prog := [4; 10; 20; 30; 0; 20; 129; 4; 1; 2; 3; 5; 0] in
  match run_seeks 100 prog (player_fresh prog) [50; 0; 0], light_seek 100 prog (player_fresh prog) 0 with
  | Ok p, Ok p0 => obs_pyro p = 1 /\ obs_pyro p0 = 0 /\ cur_ts p = 0
  | _, _ => False
  end.
Proof. vm_compute. repeat split. Qed.
