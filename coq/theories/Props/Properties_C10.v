(** C10 -- Yaw setpoints evaluate to the piecewise-linear curve they encode.
    Statements only; proofs in Proofs/Yaw_Proofs.v. *)
From Coq Require Import QArith List ZArith.
From SB Require Import Base.Prelude Base.Num Gen.Generated Model.Codec Model.Traj Model.Yaw Spec.TrajSpec Spec.YawSpec Proofs.Yaw_Proofs.
Import ListNotations.
Local Open Scope Z_scope.

(** Auto-yaw flag, offset and number of setpoints are exactly those stored. *)
Theorem header_fields_roundtrip : forall Y, wf_syaw Y = true ->
  exists y, yaw_init (encode_yaw Y) = Ok y /\
    y_auto y = Z.odd (sy_flags Y) /\ y_offset y = sy_offset Y /\
    y_num_deltas y = length (sy_deltas Y) /\
    yaw_is_empty y = match sy_deltas Y with [] => true | _ => false end.
Proof. exact Yaw_Proofs.header_fields_roundtrip. Qed.
Print Assumptions header_fields_roundtrip.

(** Yaw and yaw rate of the player model are the declared piecewise-linear
    curve and its slope, at every time (before zero: the offset; after the
    last setpoint: the final yaw, zero rate).  Total duration below 2^32 ms,
    as for every block that fits a 16-bit block length. *)
Theorem yaw_exact : forall Y t, wf_syaw Y = true -> yaw_total_ms Y < 4294967296 ->
  exists y v, yaw_init (encode_yaw Y) = Ok y /\ yaw_at y t = Ok v /\ (v == yaw_spec Y t)%Q.
Proof. exact Yaw_Proofs.yaw_exact. Qed.
Print Assumptions yaw_exact.

Theorem rate_exact : forall Y t, wf_syaw Y = true -> yaw_total_ms Y < 4294967296 ->
  exists y r, yaw_init (encode_yaw Y) = Ok y /\ yaw_rate_at y t = Ok r /\
    match r, rate_spec Y t with
    | Some a, Some b => (a == b)%Q
    | None, None => True
    | _, _ => False
    end.
Proof. exact Yaw_Proofs.rate_exact. Qed.
Print Assumptions rate_exact.

Theorem duration_sum : forall Y, wf_syaw Y = true ->
  exists y, yaw_init (encode_yaw Y) = Ok y /\
    yaw_total_duration_msec y = yaw_total_ms Y mod 4294967296.
Proof. exact Yaw_Proofs.duration_sum. Qed.
Print Assumptions duration_sum.

(** The accumulated yaw is kept in 32-bit tenths of a degree and cannot
    overflow for a block that fits a 16-bit length (at most 16383 setpoints). *)
Theorem accumulated_yaw_fits_int32 : forall Y, wf_syaw Y = true ->
  (length (encode_yaw Y) <= 65535)%nat ->
  forall k, -2147483648 <= fold_left (fun a dc => a + snd dc) (firstn k (sy_deltas Y)) (sy_offset Y) < 2147483648.
Proof. exact Yaw_Proofs.accumulated_yaw_fits_int32. Qed.
Print Assumptions accumulated_yaw_fits_int32.

(** History independence of the yaw player (C08), same shape as for the
    trajectory player: from any cursor the player can be parked on, a query
    lands where a fresh player lands or, exactly at a boundary, on the
    adjoining setpoint. *)
Theorem yaw_history_independent : forall y c t l,
  Yaw_Proofs.yreachable y c -> Yaw_Proofs.ypositive y ->
  yseek y c t = Ok l ->
  Yaw_Proofs.yreachable y (ylanding_cursor l) /\
  exists l0, yseek y (ycursor0 y) t = Ok l0 /\
    (l = l0 \/
     match l0 with
     | YOn c0 dur change _ =>
         Player_Proofs.qtime_eq (clamp0 t) (QFin (ms_sec (yc_start_ms c0 + dur))) /\
         exists r, decode_delta (yc_rest c0) = Some (dur, change, r) /\ ylanding_cursor l = ynext c0 dur change r
     | YEnd _ => False
     end).
Proof. exact Yaw_Proofs.yaw_history_independent'. Qed.
Print Assumptions yaw_history_independent.

Example yaw_example :
  let Y := mksyaw 1 (-100) [(1000, 900); (500, -32768); (2000, 0)] in
  wf_syaw Y = true /\
  match yaw_init (encode_yaw Y) with
  | Ok y => yaw_at y (QFin (5 # 4)) = Ok ((-100 # 10) + (900 # 10) + (-32768 # 10) * ((5 # 4) - (1000 # 1000)) / (500 # 1000))%Q
            \/ exists v, yaw_at y (QFin (5 # 4)) = Ok v /\ (v == yaw_spec Y (QFin (5 # 4)))%Q
  | _ => False
  end.
Proof. exact Yaw_Proofs.yaw_example. Qed.
Print Assumptions yaw_example.
