(** C11 -- RTH plan evaluation returns the entry in force at the given time.
    Statements only; proofs in Proofs/Rth_Proofs.v. *)
From SB Require Import Base.Prelude Gen.Generated Model.Codec Model.Rth Spec.RthSpec Proofs.Rth_Proofs.
From Coq Require Import QArith.
Local Open Scope Z_scope.

(** Decoding the encoding of any well-formed abstract plan and scanning it
    byte by byte as the C code does gives exactly the declared meaning, for
    every query time (negative, infinite and NaN included). *)
Theorem evaluate_encode : forall p t pl, wf_splan p = true ->
  plan_init (encode_plan p) = Ok pl ->
  evaluate_at pl t = eval_spec p t.
Proof. exact Rth_Proofs.evaluate_encode. Qed.
Print Assumptions evaluate_encode.

Theorem init_encode : forall p, wf_splan p = true ->
  exists pl, plan_init (encode_plan p) = Ok pl /\
    pl_scale pl = sp_scale p /\ pl_num_points pl = length (sp_points p) /\
    num_entries pl = length (sp_entries p) /\
    forall i, get_point pl i = (if i <? 0 then get_point pl i else point_of p i).
Proof. exact Rth_Proofs.init_encode. Qed.
Print Assumptions init_encode.

(** The returned action is never 'same as previous'. *)
Theorem never_same_as_previous : forall p t r, wf_splan p = true ->
  eval_spec p t = Ok r -> r_action r = 1 \/ r_action r = 2 \/ r_action r = 3.
Proof. exact Rth_Proofs.never_same_as_previous. Qed.
Print Assumptions never_same_as_previous.

(** No wrapped values: a returned time is the binary32 image of a cumulative
    time below 2^32, and every returned duration or delay is at most 2^24. *)
Theorem overflow_never_wraps : forall p t r, wf_splan p = true ->
  eval_spec p t = Ok r ->
  (match r_time r with
   | Some ts => exists cum, 0 <= cum < 4294967296 /\ ts = f32_of_u32 cum
   | None => True
   end) /\
  0 <= r_duration r <= RTH_MAX_DURATION /\ 0 <= r_pre_delay r <= RTH_MAX_DURATION /\
  0 <= r_post_delay r <= RTH_MAX_DURATION /\ 0 <= r_neck_duration r <= RTH_MAX_DURATION.
Proof. exact Rth_Proofs.overflow_never_wraps. Qed.
Print Assumptions overflow_never_wraps.

(** The integer -> binary32 conversion used by the comparison is exact up to
    2^24 and monotone (so 'first entry whose cumulative time is at least t' is
    well defined). *)
Theorem f32_of_u32_exact_small : forall n, 0 <= n <= 16777216 -> f32_of_u32 n = n.
Proof. exact Rth_Proofs.f32_of_u32_exact_small. Qed.
Print Assumptions f32_of_u32_exact_small.

Theorem f32_of_u32_monotone : forall a b, 0 <= a <= b -> b < 4294967296 -> f32_of_u32 a <= f32_of_u32 b.
Proof. exact Rth_Proofs.f32_of_u32_monotone. Qed.
Print Assumptions f32_of_u32_monotone.

(** Non-vacuity: a plan with a run of 'same as previous' entries. *)
Example rth_example :
  let p := mksplan 10 [(100, -200); (5, 6)]
             [mksentry 0 3 1 30 (-5) 2 50 (Some 3) None;
              mksentry 15 0 0 0 0 0 20 None (Some 1);
              mksentry 300 0 0 0 0 0 30 None None;
              mksentry 10 1 0 0 0 0 0 None None] in
  wf_splan p = true /\
  match plan_init (encode_plan p) with
  | Ok pl => evaluate_at pl (TFin (20 # 1)) = eval_spec p (TFin (20 # 1)) /\
             evaluate_at pl (TFin (20 # 1)) = Ok (mkeval (Some 315) 3 30 (50, 60) 300 0 0 (-50) 2)
  | _ => False
  end.
Proof. exact Rth_Proofs.rth_example. Qed.
