(** C12 -- An RTH entry converts to the trajectory it describes.
    Statements only; proofs in Proofs/Builder_Proofs.v. *)
From Coq Require Import ZArith QArith Qround Qabs List Lia.
From SB Require Import Base.Prelude Base.Num Base.F32 Gen.Generated Model.Codec Model.Traj Model.Utils Model.Rth Model.Builder
  Proofs.Builder_Proofs Proofs.Utils_Proofs Proofs.BuilderFast_Proofs Spec.TrajSpec Spec.BuilderSpec Proofs.BuilderSpec_Proofs.
Import ListNotations.
Local Open Scope Z_scope.

(** ---- C12 ---- *)
(** phases of the conversion, as the code converts them to whole milliseconds *)
Definition phase_ms (e : rth_entry) : res (Z * Z * Z * Z) :=
  let start_time := match re_time e with
                    | FVal q => if Qltb q 0 then FVal 0%Q else FVal q
                    | FInf true => FVal 0%Q
                    | x => x
                    end in
  d0 <- msec_of_sec (fn_add start_time (if fgt0 (re_pre_delay e) then re_pre_delay e else FVal 0%Q)) ;;
  dn <- (if negb (Qeq_bool (re_neck e) 0) || fnonzero (re_neck_duration e) then msec_of_sec (re_neck_duration e) else Ok 0) ;;
  da <- (if has_target (re_action e) then msec_of_sec (re_duration e) else Ok 0) ;;
  dp <- (if fgt0 (re_post_delay e) then msec_of_sec (re_post_delay e) else Ok 0) ;;
  Ok (d0, dn, da, dp).

(** The generated trajectory decodes, and lasts exactly the sum of the phases
    (hold until the entry time plus pre-delay, neck, leg, post-delay) in whole
    milliseconds; a landing entry has no leg. *)
Theorem phases_durations : forall e start bytes,
  rth_to_trajectory e start = Ok bytes ->
  exists d0 dn da dp tr, phase_ms e = Ok (d0, dn, da, dp) /\
    traj_init bytes = Ok tr /\
    total_duration_msec tr = Ok ((d0 + dn + da + dp) mod 4294967296) /\
    (re_action e = SB_RTH_ACTION_LAND -> da = 0).
Proof. exact Builder_Proofs.phases_durations. Qed.
Print Assumptions phases_durations.

(** the scale of the generated trajectory holds the start coordinates (these
    are binary32 numbers in the C code; for arbitrary rationals only up to
    the rounding of the division by 32767: [conversion_scale_any]) *)
Theorem conversion_scale : forall e start bytes tr,
  (rnd32 (vx start) == vx start)%Q -> (rnd32 (vy start) == vy start)%Q -> (rnd32 (vz start) == vz start)%Q ->
  rth_to_trajectory e start = Ok bytes -> traj_init bytes = Ok tr ->
  1 <= t_scale tr <= 127 /\
  (Qabs' (vx start) <= inject_Z (t_scale tr * 32767))%Q /\
  (Qabs' (vy start) <= inject_Z (t_scale tr * 32767))%Q /\
  (Qabs' (vz start) <= inject_Z (t_scale tr * 32767))%Q.
Proof. exact (Builder_Proofs.conversion_scale_b32 Utils_Proofs.rnd32_error Utils_Proofs.scale_update_minimal'). Qed.
Print Assumptions conversion_scale.

Theorem conversion_scale_any : forall e start bytes tr,
  rth_to_trajectory e start = Ok bytes -> traj_init bytes = Ok tr ->
  1 <= t_scale tr <= 127 /\
  (Qabs' (vx start) * (1 - (1 # 16777216)) <= inject_Z (t_scale tr * 32767))%Q /\
  (Qabs' (vy start) * (1 - (1 # 16777216)) <= inject_Z (t_scale tr * 32767))%Q /\
  (Qabs' (vz start) * (1 - (1 # 16777216)) <= inject_Z (t_scale tr * 32767))%Q.
Proof. exact (Builder_Proofs.conversion_scale' Utils_Proofs.rnd32_error). Qed.
Print Assumptions conversion_scale_any.

Theorem conversion_unknown_action : forall e start,
  re_action e <> SB_RTH_ACTION_LAND -> re_action e <> SB_RTH_ACTION_GO_TO_KEEPING_ALTITUDE ->
  re_action e <> SB_RTH_ACTION_GO_TO_WITH_ALTITUDE ->
  forall bytes, rth_to_trajectory e start <> Ok bytes.
Proof. exact Builder_Proofs.conversion_unknown_action. Qed.
Print Assumptions conversion_unknown_action.

Example conversion_example :
  let e := mkrthe (FVal (5 # 1)) SB_RTH_ACTION_GO_TO_WITH_ALTITUDE (FVal (70 # 1)) ((40000 # 1)%Q, (- (1000 # 1))%Q) (3000 # 1)
                  (FVal (2 # 1)) (FVal (3 # 1)) (500 # 1) (FVal (4 # 1)) in
  match rth_to_trajectory e (mkvec4 (10 # 1) (20 # 1) (1000 # 1) (0 # 1)) with
  | Ok bytes => match traj_init bytes with
                | Ok tr => total_duration_msec tr = Ok (7000 + 4000 + 70000 + 3000) /\ t_scale tr = 2
                | _ => False
                end
  | _ => False
  end.
Proof. exact Builder_Proofs.conversion_example. Qed.
Print Assumptions conversion_example.

(** The executable conversion used by the correspondence (closed-form holds, so
    that entry times of weeks can be run) is the transcription above. *)
Theorem conversion_closed_form : forall e start, rth_to_trajectory_fast e start = rth_to_trajectory e start.
Proof. exact BuilderFast_Proofs.rth_fast_eq. Qed.
Print Assumptions conversion_closed_form.

(** ---- the generated trajectory, declaratively (Spec/BuilderSpec.v) ----
    Whatever the conversion produces is the encoding of a well-formed abstract
    trajectory made of straight-line segments only, whose end point is the
    quantisation (per axis at most the requested coordinate and less than one
    quantum - the scale of the generated trajectory - below it, up to the
    binary32 rounding of the division) of the point the entry describes: the
    start point raised by the neck, then the target keeping that altitude or
    at the target altitude, or - for a landing entry - no horizontal leg.
    With C01's position theorem on [encode_traj T] every position lies on a
    polygon through quantised points; the quantisation of the intermediate
    corner points and the timing of the phases are covered by [phases_durations]
    and by the probes of the correspondence (the full "within one quantum at
    every instant" is checked there on every run, not proved). *)
Theorem conversion_refines_spec : forall e start bytes,
  rth_to_trajectory e start = Ok bytes ->
  exists T, bytes = encode_traj T /\ wf_straj T = true /\ Forall linear_seg (st_segs T) /\
            close_to (st_scale T) (end_of T) (rth_final_target e start).
Proof. exact BuilderSpec_Proofs.conversion_refines_spec. Qed.
Print Assumptions conversion_refines_spec.
