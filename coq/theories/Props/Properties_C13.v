(** C13 -- Proposed takeoff time matches the first crossing of the takeoff altitude.
    Statements only; proofs in Proofs/RootCert_Proofs.v and Proofs/Stats_Proofs.v.
    The closed-form cubic solver of the code goes through libm (cbrtf, cpowf)
    and has no exact model; what is proved is the CERTIFICATE side: the
    interval checker used as the oracle is sound over the reals, so every
    per-instance verdict 'no crossing before' / 'crossing inside this box' of a
    run is a theorem about that instance. *)
From Coq Require Import Reals QArith Qreals List ZArith Lra.
From SB Require Import Base.Prelude Base.Num Base.F32 Gen.Generated Model.Poly Model.Traj Model.Utils Model.RootCert Model.Stats
  Proofs.RootCert_Proofs Proofs.Stats_Proofs.
Import ListNotations.
Local Open Scope R_scope.

(** evaluation over the reals of a polynomial with rational coefficients *)
Definition reval (cs : list Q) (x : R) : R := horner ROps (map Q2R cs) x.

(** the interval Horner scheme encloses the range over the whole real interval *)
Theorem irange_sound : forall cs lo hi x, Q2R lo <= x <= Q2R hi ->
  Q2R (fst (irange cs (lo, hi))) <= reval cs x <= Q2R (snd (irange cs (lo, hi))).
Proof. exact RootCert_Proofs.irange_sound. Qed.
Print Assumptions irange_sound.

(** verdicts of the leftmost-root search *)
Theorem first_root_sound : forall depth cs lo hi, (lo <= hi)%Q ->
  match first_root depth cs lo hi with
  | NoRoot => forall x, Q2R lo <= x <= Q2R hi -> reval cs x <> 0
  | Maybe a b => (lo <= a)%Q /\ (a <= b)%Q /\ (b <= hi)%Q /\
                 forall x, Q2R lo <= x < Q2R a -> reval cs x <> 0
  end.
Proof. exact RootCert_Proofs.first_root_sound'. Qed.
Print Assumptions first_root_sound.

(** a sign change certifies a real root inside *)
Theorem sign_change_root : forall cs a b, (a <= b)%Q -> sign_change cs a b = true ->
  exists x, Q2R a <= x <= Q2R b /\ reval cs x = 0.
Proof. exact RootCert_Proofs.sign_change_root. Qed.
Print Assumptions sign_change_root.

(** the scan over the segments: no earlier segment reaches the altitude, and
    in the reported segment nothing before the box does -- 'first crossing' *)
Theorem takeoff_first_crossing : forall segs target,
  match scan_takeoff segs target with
  | NoCrossing => forall c s, In (c, s) segs -> forall u, 0 <= u <= 1 -> reval (zpoly s) u <> Q2R target
  | CrossIn start_ms dur_ms a b _ =>
    exists pre c s post, segs = pre ++ (c, s) :: post /\ c_start_ms c = start_ms /\ sg_dur s = dur_ms /\
      (forall c' s', In (c', s') pre -> forall u, 0 <= u <= 1 -> reval (zpoly s') u <> Q2R target) /\
      (forall u, 0 <= u < Q2R a -> reval (zpoly s) u <> Q2R target) /\ (0 <= a)%Q /\ (a <= b)%Q /\ (b <= 1)%Q
  end.
Proof. exact (Stats_Proofs.takeoff_first_crossing RootCert_Proofs.first_root_sound'). Qed.
Print Assumptions takeoff_first_crossing.

(** infinity exactly for invalid parameters: negative or non-finite ascent,
    non-positive or non-finite speed, non-positive acceleration *)
Theorem takeoff_invalid_parameters : forall tr ascent speed acc,
  stats_valid acc speed ascent (FVal (5 # 2)) = false -> propose_takeoff tr ascent speed acc = Ok None.
Proof. exact Stats_Proofs.takeoff_invalid_parameters. Qed.
Print Assumptions takeoff_invalid_parameters.

Theorem stats_valid_spec : forall acc speed ascent,
  stats_valid acc speed ascent (FVal (5 # 2)) = true <->
  (exists h, ascent = FVal h /\ (0 <= h)%Q) /\ (exists v, speed = FVal v /\ (0 < v)%Q) /\
  (match acc with FVal a => (0 < a)%Q | FInf n => n = false | FNan => True end).
Proof. exact Stats_Proofs.stats_valid_spec. Qed.
Print Assumptions stats_valid_spec.

Example takeoff_example :
  (* linear climb 0 -> 1000 over 10 s, target 250: crossing certified around u = 1/4 *)
  match first_root 40 (shift_poly [0%Q; 1000 # 1] (250 # 1)) 0 1 with
  | Maybe a b => (a <= 1 # 4)%Q /\ (1 # 4 <= b)%Q /\ (b - a <= 1 # 1000000)%Q
  | NoRoot => False
  end.
Proof. exact Stats_Proofs.takeoff_example. Qed.
