(** C14 -- Proposed landing time leaves exactly the preferred descent.
    Statements only; proofs in Proofs/Stats_Proofs.v. *)
From Coq Require Import QArith List ZArith.
From SB Require Import Base.Prelude Base.Num Base.F32 Gen.Generated Model.Poly Model.Traj Model.Utils Model.RootCert Model.Stats
  Proofs.Stats_Proofs.
Import ListNotations.
Local Open Scope Z_scope.

(** The run tracked across the pass is the longest suffix of segments each of
    which descends vertically (within the threshold horizontally, not higher at
    its end); the remembered time is the end of the last segment that does not. *)
Theorem landing_run_is_longest_suffix : forall segs thr run fallback,
  landing_scan segs thr None 0 = (run, fallback) ->
  exists pre r, segs = pre ++ r /\
    forallb (fun cs => descending_vertically (snd cs) thr) r = true /\
    (match rev pre with
     | [] => fallback = 0
     | (c, s) :: _ => descending_vertically s thr = false /\ fallback = u32 (c_start_ms c + sg_dur s)
     end) /\
    run = (match r with [] => None | _ => Some r end).
Proof. exact Stats_Proofs.landing_run_is_longest_suffix. Qed.
Print Assumptions landing_run_is_longest_suffix.

(** The three cases of the property, in exact arithmetic: empty run -> the end
    of the last non-vertical segment (the total duration); the run descends by
    no more than the preferred descent -> the start of the run; otherwise an
    instant inside the first segment of the run that is not wholly above the
    target altitude 'end of the run + preferred descent'. *)
Theorem landing_cases : forall segs descent thr run fallback,
  (0 < descent)%Q -> landing_scan segs thr None 0 = (run, fallback) ->
  match run with
  | None => landing_of qsub qadd end_alt_exact segs descent thr = LandAtMs fallback
  | Some [] => True
  | Some (((c0, s0) :: _) as r) =>
    let top := first_q (sg_z s0) in
    let bottom := last_q (sg_z (snd (last r (c0, s0)))) in
    if Qle_bool (top - bottom) descent
    then landing_of qsub qadd end_alt_exact segs descent thr = LandAtMs (c_start_ms c0)
    else match landing_of qsub qadd end_alt_exact segs descent thr with
         | LandIn start_ms _ _ _ _ => exists c s, In (c, s) r /\ c_start_ms c = start_ms /\
                                       (last_q (sg_z s) < bottom + descent)%Q
         | LandAtMsFallback start_ms => exists c s, In (c, s) r /\ c_start_ms c = start_ms
         | LandAtMs ms => ms = fallback
         end
  end.
Proof. exact Stats_Proofs.landing_cases. Qed.
Print Assumptions landing_cases.

(** With the binary32 subtraction of the code the third case fails for a
    preferred descent below the resolution of the run's altitude: the code
    answers the start of the run, the exact computation an instant inside it
    (finding D9). *)
Theorem landing_tiny_descent_refuted : exists tr descent,
  (0 < descent)%Q /\
  propose_landing tr (FVal descent) (FVal 0%Q) <> propose_landing_spec tr (FVal descent) (FVal 0%Q).
Proof. exact Stats_Proofs.landing_tiny_descent_refuted. Qed.
Print Assumptions landing_tiny_descent_refuted.

(** non-positive, tiny (<= FLT_MIN) or non-finite preferred descent: the total duration *)
Theorem landing_degenerate_descent : forall tr d thr total,
  total_duration_msec tr = Ok total -> (exists segs, segments tr = Ok segs) ->
  (match d with FVal q => (q <= FLT_MIN)%Q | _ => True end) ->
  propose_landing tr d thr = Ok (LandAtMs total).
Proof. exact Stats_Proofs.landing_degenerate_descent. Qed.
Print Assumptions landing_degenerate_descent.

Example landing_example :
  (* hover, then two vertical linear descents 1000 -> 400 -> 0; preferred descent 100 *)
  let bytes := [1; 0;0; 0;0; 232;3; 0;0;   1; 208;7; 100;0;   16; 16;39; 144;1;  16; 16;39; 0;0] in
  match traj_init bytes with
  | Ok tr => match propose_landing tr (FVal (100 # 1)) (FVal (1 # 20)) with
             | Ok (LandIn 12000 10000 a b 1) => (a <= 3 # 4)%Q /\ (3 # 4 <= b)%Q
             | _ => False
             end
  | _ => False
  end.
Proof. exact Stats_Proofs.landing_example. Qed.
