(** C15 -- Bounding box contains the whole trajectory and is tight.
    Statements only; proofs in Proofs/RootCert_Proofs.v and Proofs/Stats_Proofs.v.
    The enclosures computed by the oracle are certified: the box must lie
    between them, hence contains every position and every face is attained (up
    to the width of the enclosure, 2^-14 of the parameter range, and the float
    tolerance of the comparison). *)
From Coq Require Import Reals QArith Qreals List ZArith Lra.
From SB Require Import Base.Prelude Base.Num Gen.Generated Model.Poly Model.Traj Model.RootCert Model.Stats
  Proofs.RootCert_Proofs Proofs.Stats_Proofs.
Import ListNotations.
Local Open Scope R_scope.

Definition reval (cs : list Q) (x : R) : R := horner ROps (map Q2R cs) x.

(** poly_max: the lower bound is a value of the polynomial at a point of the
    interval, the upper bound dominates the polynomial on the whole interval *)
Theorem poly_max_sound : forall depth cs lo hi l u, (lo <= hi)%Q ->
  poly_max depth cs lo hi = (l, u) ->
  (exists x, (lo <= x)%Q /\ (x <= hi)%Q /\ (horner QOps cs x == l)%Q) /\
  (forall x, Q2R lo <= x <= Q2R hi -> reval cs x <= Q2R u).
Proof. exact RootCert_Proofs.poly_max_sound. Qed.
Print Assumptions poly_max_sound.

Theorem poly_min_sound : forall depth cs lo hi l u, (lo <= hi)%Q ->
  poly_min depth cs lo hi = (l, u) ->
  (exists x, (lo <= x)%Q /\ (x <= hi)%Q /\ (horner QOps cs x == u)%Q) /\
  (forall x, Q2R lo <= x <= Q2R hi -> Q2R l <= reval cs x).
Proof. exact RootCert_Proofs.poly_min_sound. Qed.
Print Assumptions poly_min_sound.

(** over all segments: every position of the axis lies between the certified
    bounds, and both inner bounds are positions the trajectory passes through *)
Theorem axis_bounds_sound : forall sel segs mnl mnu mxl mxu,
  axis_bounds sel segs = Some ((mnl, mnu), (mxl, mxu)) ->
  (forall c s u, In (c, s) segs -> 0 <= u <= 1 ->
     Q2R mnl <= reval (make_bezier QOps 1%Q (sel s)) u <= Q2R mxu) /\
  (exists c s x, In (c, s) segs /\ (0 <= x)%Q /\ (x <= 1)%Q /\ (horner QOps (make_bezier QOps 1%Q (sel s)) x == mnu)%Q) /\
  (exists c s x, In (c, s) segs /\ (0 <= x)%Q /\ (x <= 1)%Q /\ (horner QOps (make_bezier QOps 1%Q (sel s)) x == mxl)%Q).
Proof. exact (Stats_Proofs.axis_bounds_sound RootCert_Proofs.poly_max_sound RootCert_Proofs.poly_min_sound). Qed.
Print Assumptions axis_bounds_sound.

Example bbox_example :
  (* cubic 0, 300, -300, 0: maximum 50*sqrt(3)... enclosed *)
  match poly_max 14 (make_bezier QOps 1%Q [0%Q; (300 # 1)%Q; (- (300 # 1))%Q; 0%Q]) 0 1 with
  | (l, u) => (86 # 1 <= l)%Q /\ (u <= 87 # 1)%Q
  end.
Proof. exact Stats_Proofs.bbox_example. Qed.
