(** C16 -- Trajectory builder round-trips and failed calls change nothing.
    Statements only; proofs in Proofs/Builder_Proofs.v. *)
From Coq Require Import ZArith QArith Qround Qabs List Lia.
From SB Require Import Base.Prelude Base.Num Base.F32 Gen.Generated Model.Codec Model.Traj Model.Utils Model.Rth Model.Builder
  Proofs.Builder_Proofs Proofs.Utils_Proofs Proofs.BuilderFast_Proofs Spec.TrajSpec Spec.BuilderSpec Proofs.BuilderSpec_Proofs Proofs.BuilderMarks_Proofs Model.Poly Spec.BezierSpec.
Import ListNotations.
Local Open Scope Z_scope.

(** A builder whose bytes decode as a trajectory with the builder's scale. *)
Definition builder_wf (b : builder) : Prop :=
  0 < bb_scale b < 128 /\
  exists tr segs, traj_init (bb_bytes b) = Ok tr /\ t_scale tr = bb_scale b /\ segments tr = Ok segs.

Definition builder_duration_of (b : builder) : res Z :=
  tr <- traj_init (bb_bytes b) ;; total_duration_msec tr.

(** init gives a well-formed, empty builder; invalid scales are refused
    (the C parameter is a uint8_t: the scale is never negative) *)
Theorem builder_init_wf : forall scale flags b, 0 <= scale ->
  builder_init scale flags = Ok b -> builder_wf b /\ builder_duration_of b = Ok 0 /\ bb_scale b = scale.
Proof. exact Builder_Proofs.builder_init_wf'. Qed.
Print Assumptions builder_init_wf.

Theorem builder_init_invalid : forall scale flags,
  (scale = 0 \/ 127 < scale) -> builder_init scale flags = Err SB_EINVAL.
Proof. exact Builder_Proofs.builder_init_invalid. Qed.

(** every successful call keeps the bytes decodable, and the decoded
    trajectory lasts exactly the previous duration plus the requested one
    (however long: the halving recursion above 60 s loses nothing) *)
Theorem append_line_duration : forall b target dur b' D,
  builder_wf b -> 0 <= dur < 4294967296 -> builder_duration_of b = Ok D ->
  append_line b target dur = Ok b' ->
  builder_wf b' /\ builder_duration_of b' = Ok ((D + dur) mod 4294967296) /\
  bb_last b' = target /\ bb_scale b' = bb_scale b.
Proof. exact Builder_Proofs.append_line_duration. Qed.
Print Assumptions append_line_duration.

Theorem hold_duration : forall b dur b' D,
  builder_wf b -> 0 <= dur < 4294967296 -> builder_duration_of b = Ok D ->
  hold_position_for b dur = Ok b' ->
  builder_wf b' /\ builder_duration_of b' = Ok ((D + dur) mod 4294967296) /\ bb_last b' = bb_last b.
Proof. exact Builder_Proofs.hold_duration. Qed.
Print Assumptions hold_duration.

(** the recursion never runs out of fuel for 32-bit durations *)
Theorem append_line_total : forall b target dur,
  0 <= dur < 4294967296 -> append_line b target dur <> Fuel /\ hold_position_for b dur <> Fuel.
Proof. exact Builder_Proofs.append_line_total. Qed.
Print Assumptions append_line_total.

(** a call fails exactly when a coordinate is not representable (start
    position: also when segments were already written); in the model a failing
    call returns no new builder: the caller keeps the old one unchanged *)
Theorem append_line_fails_iff : forall b target dur,
  0 < bb_scale b < 128 -> 0 <= dur <= 60000 ->
  (exists e, append_line b target dur = Err e) <->
  (exists e, validate_point (bb_scale b) target = Err e).
Proof. exact Builder_Proofs.append_line_fails_iff. Qed.
Print Assumptions append_line_fails_iff.

Theorem set_start_after_segment_fails : forall b start,
  length (bb_bytes b) <> 9%nat -> set_start_position b start = Err SB_FAILURE.
Proof. exact Builder_Proofs.set_start_after_segment_fails. Qed.

(** quantisation: a stored coordinate times the scale is within one quantum
    (plus binary32 rounding of the division, relative to |c|) below the
    requested value *)
Theorem quantisation_within_quantum : forall s c v, 0 < s < 128 ->
  scale_coordinate s c = Ok v ->
  -32768 <= v <= 32767 /\
  (inject_Z (v * s) <= c + Qabs' c * (1 # 8388608) + (1 # 8388608) /\
   c - Qabs' c * (1 # 8388608) - (1 # 8388608) < inject_Z ((v + 1) * s))%Q.
Proof. exact (Builder_Proofs.quantisation_within_quantum' Utils_Proofs.rnd32_error). Qed.
Print Assumptions quantisation_within_quantum.

Example builder_example :
  match builder_init 10 0 with
  | Ok b0 =>
    match set_start_position b0 (mkvec4 (100 # 1) (-(55 # 1)) (7 # 2) (725 # 2)) with
    | Ok b1 =>
      match append_line b1 (mkvec4 (2000 # 1) (0 # 1) (505 # 1) (90 # 1)) 150001 with
      | Ok b2 => builder_duration_of b2 = Ok 150001 /\ length (bb_bytes b2) = (9 + 11 + 11 + 11 + 11)%nat
      | _ => False
      end
    | _ => False
    end
  | _ => False
  end.
Proof. exact Builder_Proofs.builder_example. Qed.
Print Assumptions builder_init_invalid.
Print Assumptions set_start_after_segment_fails.
Print Assumptions builder_example.

(** The correspondence runs holds of days (tens of thousands of 60 s segments)
    through the closed form [hold_fast]; it is the transcription of the C loop
    for every builder and every duration. *)
Theorem hold_closed_form : forall b dur, hold_position_for b dur = hold_fast b dur.
Proof. exact BuilderFast_Proofs.hold_fast_eq. Qed.
Print Assumptions hold_closed_form.

(** ---- the builder refines the declarative trajectory (Spec/BuilderSpec.v) ----
    After ANY sequence of set-start / append-line / hold calls (failing calls
    leave the builder as it was; durations of any size below 2^32 ms, so the
    halving above 60 s and the chunking of holds are included) the builder's
    bytes are exactly the encoding of a well-formed abstract trajectory [T]
    such that
      - every segment of [T] is a straight line (no or one stored value per axis),
      - [T] lasts exactly the sum of the durations the successful calls asked for,
      - the end point of [T] is the quantisation of the point given to the last
        successful call: per axis at most the requested coordinate and less than
        one quantum (the scale) below it, up to the binary32 rounding of the
        division (relative 2^-23).
    With C01's [position_exact] (the player's position on [encode_traj T] is the
    Bezier curve of [T]'s control points) this is the round trip of the property
    for the x, y, z axes at the end of every call sequence
    ([builder_passes_requested_points] below extends it to the instant of every
    append-line call); the yaw axis is covered by the correspondence only. *)
Theorem builder_refines_spec : forall scale flags b0 calls,
  0 <= scale -> builder_init scale flags = Ok b0 -> Forall call_ok calls ->
  exists T, builds (fst (brun b0 0 calls)) T /\ total_ms T = snd (brun b0 0 calls) /\ st_scale T = scale.
Proof. exact BuilderSpec_Proofs.builder_refines_spec. Qed.
Print Assumptions builder_refines_spec.

(** ... and it passes, at the cumulative time of EVERY successful append-line
    call, within one quantum of the point given to that call (x, y, z; lines of
    positive duration - a zero-duration line is a jump and has no position at
    its instant): [bmarks] lists (cumulative milliseconds, requested point) of
    the successful append-line calls, [pos_ms T m] is the position of the
    abstract trajectory at millisecond m (TrajSpec's [pos_from]: de Casteljau on
    the chained control points).  Proof: appending straight-line segments of
    positive duration does not change the position at earlier instants
    ([pos_prefix]) and the position at the end of a chain is its end point
    ([pos_end]), carried through the halving recursion and the hold loop. *)
Theorem builder_passes_requested_points : forall scale flags b0 calls,
  0 <= scale -> builder_init scale flags = Ok b0 -> Forall call_pos calls ->
  exists T, builds (fst (brun b0 0 calls)) T /\ total_ms T = snd (brun b0 0 calls) /\
            Forall (fun mp => 0 <= fst mp <= total_ms T /\ close_to scale (pos_ms T (fst mp)) (snd mp))
                   (bmarks b0 0 calls).
Proof. exact BuilderMarks_Proofs.builder_passes_requested_points. Qed.
Print Assumptions builder_passes_requested_points.

(** a segment with two control points on an axis moves on the straight line between them *)
Theorem linear_segment_is_straight : forall a c u : Q, (bezier QOps [a; c] u == a + (c - a) * u)%Q.
Proof. exact BuilderSpec_Proofs.bezier_two. Qed.
Print Assumptions linear_segment_is_straight.

(** non-vacuity: a start position, a line of 150.001 s (split in four), a failing call and a hold *)
Example builder_refines_example :
  let calls := [CStart (mkvec4 (100 # 1) (-(55 # 1)) (7 # 2) (725 # 2));
                CLine (mkvec4 (2000 # 1) (0 # 1) (505 # 1) (90 # 1)) 150001;
                CLine (mkvec4 (400000 # 1) (0 # 1) (0 # 1) (0 # 1)) 1000;
                CHold 61000] in
  Forall call_ok calls /\
  match builder_init 10 0 with
  | Ok b0 => snd (brun b0 0 calls) = 211001 /\
             length (bb_bytes (fst (brun b0 0 calls))) = (9 + 4 * 11 + 2 * 3)%nat
  | _ => False
  end.
Proof. exact BuilderSpec_Proofs.builder_refines_example. Qed.
