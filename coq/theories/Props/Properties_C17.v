(** C17 -- Everything allocated is released once, also on failure paths.
    Statements only; proofs in Proofs/Alloc_Proofs.v.  The model
    (Model/Alloc.v) runs any sequence of API calls over an abstract heap whose
    [free] / [realloc] / [delete] are checked (misuse is the event [EvBad]) and
    in which the (k+1)-th C allocation request can be made to fail. *)
From Coq Require Import ZArith List Permutation.
From SB Require Import Base.Prelude Gen.Generated Model.Container Model.Loaders Model.Builder Model.Alloc Proofs.Alloc_Proofs.
Import ListNotations.
Local Open Scope nat_scope.

(** no block is released twice, nothing that is not a live library block is
    ever freed, resized or deleted -- in particular never the memory the caller
    supplied for a view *)
Definition no_bad (h : heap) : Prop := forall p, ~ In (EvBad p) (h_trace h).

(** For EVERY number of slots, EVERY sequence of calls and EVERY failure index
    (none, or the (k+1)-th allocation request fails): no illegal release
    happens anywhere in the run ... *)
Theorem no_double_free_no_caller_memory_touched : forall n fail ops,
  no_bad (snd (scenario n fail ops)).
Proof. exact Alloc_Proofs.scenario_no_bad. Qed.
Print Assumptions no_double_free_no_caller_memory_touched.

(** ... and once every object has been destroyed nothing is left allocated:
    every allocation was released exactly once (with the theorem above), also
    when an allocation failed half-way through a call, and whatever state the
    failing call left its object in, it can still be destroyed. *)
Theorem nothing_leaked : forall n fail ops,
  h_live (snd (scenario n fail ops)) = [].
Proof. exact Alloc_Proofs.scenario_no_leak. Qed.
Print Assumptions nothing_leaked.

(** reachable states: what a prefix of any scenario leads to *)
Definition reachable (s : slots) (h : heap) : Prop :=
  exists n fail ops, snd (fst (run (repeat ONone n) (heap0 fail) ops)) = s /\ snd (run (repeat ONone n) (heap0 fail) ops) = h.

(** a load / create call that reports an error leaves nothing allocated: the
    slot stays empty and the set of live blocks is what it was *)
Definition is_create (c : op) : bool :=
  match c with
  | OpBufInit _ _ | OpBufFromBytes _ _ | OpEmpty _ _ | OpFromBuffer _ _ _ _ | OpTrajFromBytes _ _
  | OpFromFile _ _ _ _ _ | OpBuilderInit _ _ | OpRthToTraj _ _ _ | OpPlayerInit _ _ | OpPolySolve _ => true
  | _ => false
  end.

Theorem failed_create_leaves_nothing : forall s h c e s' h',
  reachable s h -> is_create c = true -> step s h c = (Rc e, s', h') -> e <> 0%Z ->
  s' = s /\ Permutation (h_live h') (h_live h).
Proof. exact Alloc_Proofs.failed_create_leaves_nothing. Qed.
Print Assumptions failed_create_leaves_nothing.

(** the call during which the injected failure fires reports SB_ENOMEM *)
Theorem allocation_failure_reports_enomem : forall s h c r s' h' k,
  reachable s h -> h_fail h = Some k -> step s h c = (r, s', h') -> h_fail h' = None ->
  r = Rc SB_ENOMEM.
Proof. exact Alloc_Proofs.allocation_failure_reports_enomem. Qed.
Print Assumptions allocation_failure_reports_enomem.

(** a buffer that is a view never reallocates: growing it is refused *)
Theorem view_never_grows : forall b n h e b' h',
  bown b = false -> bsz b < n -> b_resize b n h = (e, b', h') -> e = SB_FAILURE /\ b' = b /\ h' = h.
Proof. exact Alloc_Proofs.view_never_grows. Qed.
Print Assumptions view_never_grows.

(** non-vacuity: a scenario with a builder hand-over, a descriptor load, a
    player and an injected failure in the middle of a split append *)
Example scenario_example :
  let ops := [OpBuilderInit 0 1; OpBuilderHold 0 130000; OpBuilderFinish 0 1; OpEmpty KLight 2; OpPlayerInit 3 2] in
  let '(rcs, _, h) := scenario 4 (Some 2) ops in
  rcs = [Rc 0%Z; Rc SB_ENOMEM; Rc 0%Z; Rc 0%Z; Rc 0%Z; Rc 0%Z] /\ h_live h = [] /\
  trace_of h = [EvAlloc 0 9; EvRealloc 0 1 36; EvReallocFail 1 72; EvAlloc 2 9; EvAlloc 3 1; EvNew 4; EvNew 5;
                EvFree 2; EvFree 1; EvFree 3; EvDelete 5; EvDelete 4].
Proof. exact Alloc_Proofs.scenario_example. Qed.
