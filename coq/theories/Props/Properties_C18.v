(** C18 -- Polynomial toolkit: construction and calculus laws (root finding is
    in Props/Properties_C18_roots.v).  Statements only; proofs in
    Proofs/Poly_Proofs.v.  Carrier: Coq reals. *)
From Coq Require Import Reals QArith Qreals List ZArith.
From Coquelicot Require Import Coquelicot.
From SB Require Import Base.Num Gen.Generated Model.Poly Spec.BezierSpec Model.RootCert Model.Touch Model.Solve32 Proofs.Poly_Proofs Proofs.RootCert_Proofs Proofs.F32Poly_Proofs Proofs.Touch_Proofs Proofs.Solve32_Proofs.
Import ListNotations.
Local Open Scope R_scope.

(** The factorial table of poly.c (regenerated from the source). *)
Theorem facs_are_factorials : facs = map (fun n => Z.of_nat (fact n)) (seq 0 8).
Proof. exact Poly_Proofs.facs_are_factorials. Qed.
Print Assumptions facs_are_factorials.

(** A polynomial built from 1..8 Bezier control points and a duration
    evaluates to that Bezier curve (de Casteljau) at u / duration. *)
Theorem bezier_alg_is_bezier : forall pts d u,
  (1 <= length pts <= 8)%nat -> d <> 0 ->
  horner ROps (make_bezier ROps d pts) u = bezier ROps pts (u / d).
Proof. exact Poly_Proofs.bezier_alg_is_bezier. Qed.
Print Assumptions bezier_alg_is_bezier.

Theorem bezier_endpoints : forall pts a, pts <> [] ->
  bezier ROps pts 0 = hd a pts /\ bezier ROps pts 1 = last pts a.
Proof. exact Poly_Proofs.bezier_endpoints. Qed.
Print Assumptions bezier_endpoints.

(** Derivative: the evaluated function of [deriv cs] is the derivative of the
    evaluated function of [cs], for every length. *)
Theorem deriv_law : forall cs u,
  is_derive (horner ROps cs) u (horner ROps (deriv ROps cs) u).
Proof. exact Poly_Proofs.deriv_law. Qed.
Print Assumptions deriv_law.

Theorem scale_law : forall cs k u, horner ROps (scale ROps cs k) u = k * horner ROps cs u.
Proof. exact Poly_Proofs.scale_law. Qed.
Print Assumptions scale_law.

Theorem stretch_law : forall cs k u, k <> 0 ->
  horner ROps (stretch ROps cs k) u = horner ROps cs (u / k).
Proof. exact Poly_Proofs.stretch_law. Qed.
Print Assumptions stretch_law.

Theorem add_constant_law : forall cs c u,
  horner ROps (add_constant ROps cs c) u = horner ROps cs u + c.
Proof. exact Poly_Proofs.add_constant_law. Qed.
Print Assumptions add_constant_law.

(** Hodograph: the derivative of the degree-n Bezier polynomial is n times the
    Bezier curve of the forward differences. *)
Theorem hodograph : forall pts u, (2 <= length pts <= 8)%nat ->
  horner ROps (deriv ROps (make_bezier ROps 1 pts)) u
  = INR (length pts - 1) * bezier ROps (diffs ROps pts) u.
Proof. exact Poly_Proofs.hodograph. Qed.
Print Assumptions hodograph.

(** The executable instance (exact rationals, what the extracted model runs)
    computes the same numbers as the real-number instance the theorems are
    about. *)
Theorem Q_instance_agrees : forall cs u pts d,
  Q2R (horner QOps cs u) = horner ROps (map Q2R cs) (Q2R u) /\
  map Q2R (deriv QOps cs) = deriv ROps (map Q2R cs) /\
  (forall k, map Q2R (scale QOps cs k) = scale ROps (map Q2R cs) (Q2R k)) /\
  (~ (d == 0)%Q -> (length pts <= 8)%nat ->
     map Q2R (make_bezier QOps d pts) = make_bezier ROps (Q2R d) (map Q2R pts)).
Proof. exact Poly_Proofs.Q_instance_agrees. Qed.
Print Assumptions Q_instance_agrees.

(** sb_poly_make_linear has a second branch: for a duration below FLT_EPSILON
    in magnitude the code returns the constant (x0+x1)/2 instead of dividing.
    [make_bezier_c] is the transcription with that branch; it is the generic
    [make_bezier] (the subject of the theorems above) on every other duration,
    and on a tiny duration its value is the midpoint whatever the argument. *)
Theorem make_bezier_c_agrees : forall d pts,
  Qle_bool SB.Base.F32.FLT_EPSILON (Qabs' d) = true -> make_bezier_c d pts = make_bezier QOps d pts.
Proof. exact Poly_Proofs.make_bezier_c_agrees. Qed.
Print Assumptions make_bezier_c_agrees.

Theorem make_linear_tiny_duration : forall d x0 x1 u,
  Qle_bool SB.Base.F32.FLT_EPSILON (Qabs' d) = false ->
  (horner QOps (make_linear_c d x0 x1) u == (x0 + x1) / 2)%Q.
Proof. exact Poly_Proofs.make_linear_tiny. Qed.
Print Assumptions make_linear_tiny_duration.

Example bezier_example :
  horner ROps (make_bezier ROps 2 [0; 3; 3; 6]) 1 = 3.
Proof. exact Poly_Proofs.bezier_example. Qed.

(** ---- root finding: the certificates used as the oracle are sound ---- *)
Definition reval (cs : list Q) (x : R) : R := horner ROps (map Q2R cs) x.

(** every real root within the Cauchy bound lies in one of the boxes *)
Theorem root_boxes_complete : forall depth cs lo hi x,
  Q2R lo <= x <= Q2R hi -> reval cs x = 0 ->
  exists a b, In (a, b) (root_boxes depth cs lo hi) /\ Q2R a <= x <= Q2R b.
Proof. exact RootCert_Proofs.root_boxes_complete. Qed.
Print Assumptions root_boxes_complete.

(** outside the Cauchy bound a polynomial with non-zero leading coefficient has no root *)
Theorem cauchy_bound_sound : forall cs x, cs <> [] -> ~ (last cs 0 == 0)%Q ->
  reval cs x = 0 -> Rabs x <= Q2R (cauchy_bound cs).
Proof. exact RootCert_Proofs.cauchy_bound_sound. Qed.
Print Assumptions cauchy_bound_sound.

(** degree <= 2 closed forms of the code (over the reals): every real solution
    and nothing else *)
Theorem solve_linear_exact : forall a b y x, a <> 0 -> (a * x + b = y <-> x = (y - b) / a).
Proof. exact RootCert_Proofs.solve_linear_exact. Qed.
Print Assumptions solve_linear_exact.

Theorem solve_quadratic_exact : forall a b c x, a <> 0 ->
  let d := b * b - 4 * a * c in
  (a * x * x + b * x + c = 0 <->
   (0 <= d /\ (x = (- b - sqrt d) / (2 * a) \/ x = (- b + sqrt d) / (2 * a)))).
Proof. exact RootCert_Proofs.solve_quadratic_exact. Qed.
Print Assumptions solve_quadratic_exact.

(** ---- evaluation in binary32: rounding error of Horner's scheme ---- *)
(** For EVERY coefficient list and EVERY argument the Horner scheme carried out
    in the binary32 model (each operation followed by rounding to nearest even)
    is within gamma_(2n) * sum |c_i| |u|^i of the exact value (Higham's bound;
    n the number of coefficients), hence within 17 * 2^-24 * sum |c_i| |u|^i for
    the polynomials of the library (at most 8 coefficients). *)
Theorem horner_binary32_error : forall (cs : list Q) (u : Q),
  (Qabs.Qabs (horner F32.F32Ops cs u - horner QOps cs u) <=
   F32Poly_Proofs.gamma32 (2 * length cs) * F32Poly_Proofs.abs_eval cs u)%Q.
Proof. exact F32Poly_Proofs.horner_f32_error. Qed.
Print Assumptions horner_binary32_error.

Theorem horner_binary32_error_deg7 : forall cs u, (length cs <= 8)%nat ->
  (Qabs.Qabs (horner F32.F32Ops cs u - horner QOps cs u) <= (17 # 16777216) * F32Poly_Proofs.abs_eval cs u)%Q.
Proof. exact F32Poly_Proofs.horner_f32_error_deg7. Qed.
Print Assumptions horner_binary32_error_deg7.

(** a + b*u in binary32 (yaw and colour interpolation) *)
Theorem lerp_binary32_error : forall a b u,
  (Qabs.Qabs (F32.fadd a (F32.fmul b u) - (a + b * u)) <=
   F32Poly_Proofs.gamma32 2 * (Qabs.Qabs a + Qabs.Qabs b * Qabs.Qabs u))%Q.
Proof. exact F32Poly_Proofs.lerp_f32_error. Qed.
Print Assumptions lerp_binary32_error.

(** ---- straight segments and the values at the ends of [0,1] ---- *)
(** sb_i_poly_touches_2d in binary32 ([Model.Touch.touches_linear]; reached for a
    significant leading coefficient, FLT_MIN <= |a|): the value the library's own
    evaluation (Horner in binary32) gives at u = 0 and at u = 1 is reported as
    taken in [0,1], for EVERY pair of binary32 coefficients - also where
    fl(a + b) is not a + b and (fl(a + b) - b) / a exceeds 1. *)
Theorem touches_linear_end_values : forall b a : Q,
  (F32.rnd32 b == b)%Q -> (F32.rnd32 a == a)%Q -> Qltb (Qabs' a) F32.FLT_MIN = false ->
  Touch.touches_linear b a (Touch.eval_linear_f32 b a 0) <> None /\
  Touch.touches_linear b a (Touch.eval_linear_f32 b a 1) <> None.
Proof. intros b a Hb Ha Hs. split; [exact (Touch_Proofs.touches_linear_end0 b a Hb Hs) | exact (Touch_Proofs.touches_linear_end1 b a Hb Ha Hs)]. Qed.
Print Assumptions touches_linear_end_values.

Theorem eval_linear_is_horner : forall b a u : Q, (F32.rnd32 a == a)%Q ->
  (Touch.eval_linear_f32 b a u == horner F32.F32Ops [b; a] u)%Q.
Proof. exact Touch_Proofs.eval_linear_is_horner. Qed.
Print Assumptions eval_linear_is_horner.

(** not vacuous: slope 0.1f from 1 (p(1) = fl(1 + 0.1f), and (p(1) - 1) / 0.1f > 1) *)
Example touches_linear_example :
  let a := (13421773 # 134217728)%Q in
  (F32.rnd32 a == a)%Q /\ Qltb (Qabs' a) F32.FLT_MIN = false /\
  match Touch.touches_linear 1 a (Touch.eval_linear_f32 1 a 1) with Some u => (1 < u)%Q | None => False end.
Proof. vm_compute. repeat split; reflexivity. Qed.

(** ---- the closed forms for at most three significant coefficients, in binary32 ---- *)
(** [Model.Solve32.solve32] transcribes sb_i_poly_count_significant_coeffs and
    sb_i_poly_solve_1d/_2d/_3d operation by operation (each followed by rnd32,
    sqrtf correctly rounded); the correspondence check compares its roots with
    sb_poly_solve bit for bit.  About that model, for EVERY input: *)
Theorem solve32_at_most_two_roots : forall cs y rs, Solve32.solve32 cs y = Some rs -> (length rs <= 2)%nat.
Proof. exact Solve32_Proofs.solve32_at_most_two. Qed.
Print Assumptions solve32_at_most_two_roots.

(** the straight-line solver returns the correctly rounded root of c1 x + (c0 (-) y) *)
Theorem solve_linear32_correctly_rounded : forall c0 c1 y, Solve32.is_zero32 c1 = false ->
  Solve32.solve_linear32 c0 c1 y = [F32.rnd32 (- (F32.fsub c0 y) / c1)%Q].
Proof. exact Solve32_Proofs.solve_linear32_rounded. Qed.
Print Assumptions solve_linear32_correctly_rounded.

(** the sign of the COMPUTED discriminant decides the number of roots: one (|d| < FLT_MIN), two, none *)
Theorem quadratic32_root_count : forall c0 c1 c2 y, Solve32.is_zero32 c2 = false ->
  let d := Solve32_Proofs.disc32 c0 c1 c2 y in
  (Solve32.is_zero32 d = true -> length (Solve32.solve_quadratic32 c0 c1 c2 y) = 1%nat) /\
  (Solve32.is_zero32 d = false -> (0 < d)%Q -> length (Solve32.solve_quadratic32 c0 c1 c2 y) = 2%nat) /\
  (Solve32.is_zero32 d = false -> (d <= 0)%Q -> Solve32.solve_quadratic32 c0 c1 c2 y = []).
Proof. exact Solve32_Proofs.quadratic32_trichotomy. Qed.
Print Assumptions quadratic32_root_count.

(** Vieta: whenever two roots are returned (and not both are zero), their product is (c0 (-) y) / c2 up to
    two roundings - whatever cancellation happens in the discriminant.  This is what the cancellation-free
    form (q / a and c / q for the one sum q that does not cancel) buys; the textbook form
    (-b +- sqrt d) / 2a does not have this property in binary32. *)
Theorem quadratic32_vieta : forall c0 c1 c2 y r0 r1, Solve32.is_zero32 c2 = false ->
  Solve32.solve_quadratic32 c0 c1 c2 y = [r0; r1] -> ~ (r0 == 0 /\ r1 == 0)%Q ->
  (Qabs.Qabs (r0 * r1 - F32.fsub c0 y / c2) <=
   (2 * Solve32_Proofs.eps + Solve32_Proofs.eps * Solve32_Proofs.eps) * Qabs.Qabs (F32.fsub c0 y / c2))%Q.
Proof. exact Solve32_Proofs.quadratic32_vieta. Qed.
Print Assumptions quadratic32_vieta.

(** not vacuous: x^2 - 3x + 2 and 0.001 x^2 + 1000 x + 1 (4ac negligible next to b^2: the small root survives) *)
Example solve32_example :
  match Solve32.solve32 [2; -3; 1]%Q 0 with Some [r0; r1] => (r0 == 1 /\ r1 == 2)%Q | _ => False end /\
  match Solve32.solve32 [1; 1000; F32.rnd32 (1 # 1000)]%Q 0 with
  | Some [r0; r1] => (r0 < -999999 /\ -(1001 # 1000000) < r1 /\ r1 < -(999 # 1000000))%Q | _ => False end.
Proof. vm_compute. repeat split; reflexivity. Qed.
