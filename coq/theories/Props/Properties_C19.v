(** C19 -- Binary codecs are exact inverses and respect their buffers.
    Statements only; every proof is [exact <lemma>] from Proofs/Codec_Proofs.v. *)
From SB Require Import Base.Prelude Gen.Generated Model.Codec Model.Colors Spec.CodecSpec Proofs.Codec_Proofs.
Local Open Scope Z_scope.

(** Writing then parsing any 16-bit unsigned value returns it, advances the
    offset by 2, stores it little-endian, and touches no other byte. *)
Theorem parse_write_u16 : forall b off v,
  (off + 2 <= length b)%nat -> 0 <= v < 65536 ->
  let (b', o') := write_u16 b off v in
  parse_u16 b' off = Some (v, (off + 2)%nat) /\ o' = (off + 2)%nat /\
  rd b' off = Some (v mod 256) /\ rd b' (off + 1) = Some (v / 256) /\
  length b' = length b /\
  forall j, j <> off -> j <> (off + 1)%nat -> rd b' j = rd b j.
Proof. exact Codec_Proofs.parse_write_u16. Qed.
Print Assumptions parse_write_u16.

Theorem parse_write_i16 : forall b off v,
  (off + 2 <= length b)%nat -> -32768 <= v < 32768 ->
  let (b', o') := write_i16 b off v in
  parse_i16 b' off = Some (v, (off + 2)%nat) /\ o' = (off + 2)%nat /\
  length b' = length b /\
  forall j, j <> off -> j <> (off + 1)%nat -> rd b' j = rd b j.
Proof. exact Codec_Proofs.parse_write_i16. Qed.
Print Assumptions parse_write_i16.

Theorem parse_write_u32 : forall b off v,
  (off + 4 <= length b)%nat -> 0 <= v < 4294967296 ->
  let (b', o') := write_u32 b off v in
  parse_u32 b' off = Some (v, (off + 4)%nat) /\ o' = (off + 4)%nat /\
  rd b' off = Some (v mod 256) /\ rd b' (off + 1) = Some ((v / 256) mod 256) /\
  rd b' (off + 2) = Some ((v / 65536) mod 256) /\ rd b' (off + 3) = Some (v / 16777216) /\
  length b' = length b /\
  forall j, (j < off \/ off + 4 <= j)%nat -> rd b' j = rd b j.
Proof. exact Codec_Proofs.parse_write_u32. Qed.
Print Assumptions parse_write_u32.

Theorem parse_write_i32 : forall b off v,
  (off + 4 <= length b)%nat -> -2147483648 <= v < 2147483648 ->
  let (b', o') := write_i32 b off v in
  parse_i32 b' off = Some (v, (off + 4)%nat) /\ o' = (off + 4)%nat /\
  length b' = length b /\
  forall j, (j < off \/ off + 4 <= j)%nat -> rd b' j = rd b j.
Proof. exact Codec_Proofs.parse_write_i32. Qed.
Print Assumptions parse_write_i32.

(** The C decoder (two loops, bit budget) computes exactly the declarative
    base-128 little-endian reading, for every byte list, stated length within
    the list and start offset: value when it fits in 5 bytes and 32 bits,
    overflow after skipping the whole encoding otherwise, parse error when the
    stated length ends inside the encoding. *)
Theorem varuint_spec_holds : forall b n off,
  wf_bytes b = true -> (n <= length b)%nat ->
  parse_varuint32 b n off = varuint_spec b n off.
Proof. exact Codec_Proofs.varuint_spec_holds. Qed.
Print Assumptions varuint_spec_holds.

(** The decoder never reads at or beyond the stated length: its answer is a
    function of the first [n] bytes only (and is never an out-of-bounds read
    when [n] is within the list). *)
Theorem varuint_reads_below_n : forall b b' n off,
  firstn n b = firstn n b' ->
  parse_varuint32 b n off = parse_varuint32 b' n off.
Proof. exact Codec_Proofs.varuint_reads_below_n. Qed.
Print Assumptions varuint_reads_below_n.

Theorem varuint_never_oob : forall b n off,
  (n <= length b)%nat ->
  forall o, parse_varuint32 b n off <> VuOOB o.
Proof. exact Codec_Proofs.varuint_never_oob. Qed.
Print Assumptions varuint_never_oob.

(** RGB565: decoding any of the 65536 codes and re-encoding gives the code
    back; encoding any 24-bit colour keeps the top 5/6/5 bits of the channels. *)
Theorem rgb565_roundtrip : forall c, 0 <= c < 65536 -> encode_rgb565 (decode_rgb565 c) = c.
Proof. exact Codec_Proofs.rgb565_roundtrip. Qed.
Print Assumptions rgb565_roundtrip.

Theorem rgb565_keeps_top_bits : forall r g b,
  0 <= r < 256 -> 0 <= g < 256 -> 0 <= b < 256 ->
  decode_rgb565 (encode_rgb565 (mkrgb r g b)) = mkrgb (8 * (r / 8)) (4 * (g / 4)) (8 * (b / 8)).
Proof. exact Codec_Proofs.rgb565_keeps_top_bits. Qed.
Print Assumptions rgb565_keeps_top_bits.

(** Non-vacuity: a concrete 6-byte non-canonical encoding overflows after the
    whole encoding is skipped, and a 5-byte one decodes to 2^32-1. *)
Example varuint_examples :
  parse_varuint32 [255; 255; 255; 255; 15; 7] 6 0 = VuOk 4294967295 5 /\
  parse_varuint32 [128; 128; 128; 128; 128; 0; 9] 7 0 = VuErr SB_EOVERFLOW 6 /\
  parse_varuint32 [128; 128; 128] 3 0 = VuErr SB_EPARSE 3.
Proof. exact Codec_Proofs.varuint_examples. Qed.
