(** C20 -- Supporting utilities honour their documented contracts.
    Statements only; proofs in Proofs/Utils_Proofs.v. *)
From Coq Require Import ZArith QArith Qround Qabs List Lia.
From SB Require Import Base.Prelude Base.Num Base.F32 Gen.Generated Model.Colors Model.Utils Model.Buffer Proofs.Utils_Proofs.
Import ListNotations.
Local Open Scope Q_scope.

(** ---- the binary32 rounding model itself ---- *)
Theorem rnd32_error : forall q, ~ q == 0 -> Qabs (rnd32 q - q) <= Qabs q * (1 # 16777216).
Proof. exact Utils_Proofs.rnd32_error. Qed.
Print Assumptions rnd32_error.

Theorem rnd32_monotone : forall a b, a <= b -> rnd32 a <= rnd32 b.
Proof. exact Utils_Proofs.rnd32_monotone. Qed.
Print Assumptions rnd32_monotone.

Theorem rnd32_exact_on_small_integers : forall n, (Z.abs n <= 16777216)%Z -> rnd32 (inject_Z n) == inject_Z n.
Proof. exact Utils_Proofs.rnd32_exact_on_small_integers. Qed.
Print Assumptions rnd32_exact_on_small_integers.

(** ---- travel time ---- *)
(** invalid arguments give infinity; zero distance takes no time; infinite
    acceleration means constant speed *)
Theorem travel_time_special : forall d v a,
  (d < 0 -> travel_time (FVal d) (FVal v) (FVal a) = FInf false) /\
  (v <= 0 -> travel_time (FVal d) (FVal v) (FVal a) = FInf false) /\
  (a <= 0 -> travel_time (FVal d) (FVal v) (FVal a) = FInf false) /\
  (0 < v -> 0 < a -> d == 0 -> travel_time (FVal d) (FVal v) (FVal a) = FVal 0) /\
  (0 < d -> 0 < v -> travel_time (FVal d) (FVal v) (FInf false) = FVal (fdiv d v)).
Proof. exact Utils_Proofs.travel_time_special. Qed.
Print Assumptions travel_time_special.

(** the exact accelerate-cruise-decelerate profile the code evaluates in
    binary32: when the distance allows full speed the time is d/v + v/a,
    otherwise the profile is triangular and the squared time is 4 d / a; the
    two regimes agree at the boundary d = v^2/a and the time never decreases
    with the distance *)
Definition cruise_time (d v a : Q) : Q := d / v + v / a.
Definition reaches_full_speed (d v a : Q) : bool := Qle_bool (v * v / a) d.

Theorem profile_is_cruise_form : forall d v a, 0 < v -> 0 < a ->
  let t1 := v / a in let s1 := a / 2 * t1 * t1 in
  2 * t1 + (d - 2 * s1) / v == cruise_time d v a /\ 2 * s1 == v * v / a.
Proof. exact Utils_Proofs.profile_is_cruise_form. Qed.
Print Assumptions profile_is_cruise_form.

Theorem profile_regimes_meet : forall v a, 0 < v -> 0 < a ->
  let d := v * v / a in
  cruise_time d v a == 2 * (v / a) /\ (2 * (v / a)) * (2 * (v / a)) == 4 * d / a.
Proof. exact Utils_Proofs.profile_regimes_meet. Qed.
Print Assumptions profile_regimes_meet.

Theorem cruise_time_monotone : forall d1 d2 v a, 0 < v -> 0 < a -> d1 <= d2 ->
  cruise_time d1 v a <= cruise_time d2 v a.
Proof. exact Utils_Proofs.cruise_time_monotone. Qed.
Print Assumptions cruise_time_monotone.

(** ---- coordinate scale ---- *)
(** the scale is raised to exactly the smallest value whose 16-bit range holds
    the point, or overflow is reported above 127 (coordinates are binary32
    values; up to 127 * 32767 every product scale * 32767 is exact) *)
Theorem scale_update_minimal : forall sc x y z s, (0 <= sc <= 127)%Z ->
  rnd32 x == x -> rnd32 y == y -> rnd32 z == z ->
  scale_update sc x y z = Ok s ->
  let m := Qmax' (Qmax' (Qabs' x) (Qabs' y)) (Qabs' z) in
  (Z.max sc 1 <= s <= 127)%Z /\ m <= inject_Z (s * 32767) /\
  (s = Z.max sc 1 \/ inject_Z ((s - 1) * 32767) < m).
Proof. exact Utils_Proofs.scale_update_minimal'. Qed.
Print Assumptions scale_update_minimal.

Theorem scale_update_overflow : forall sc x y z, (0 <= sc <= 127)%Z ->
  scale_update sc x y z = Err SB_EOVERFLOW ->
  inject_Z (127 * 32767) < Qmax' (Qmax' (Qabs' x) (Qabs' y)) (Qabs' z).
Proof. exact Utils_Proofs.scale_update_overflow. Qed.
Print Assumptions scale_update_overflow.

(** ---- seconds to milliseconds ---- *)
Theorem msec_conversion : forall q, rnd32 q == q ->
  match msec_of_sec (FVal q) with
  | Ok m => 0 <= q /\ (0 <= m < 4294967296)%Z /\ Qabs (inject_Z m - q * 1000) <= 1 + q * 1000 * (1 # 8388608)
  | Err e => (e = SB_EINVAL /\ q < 0) \/ (e = SB_EOVERFLOW /\ inject_Z 4294967 < q)
  | _ => False
  end.
Proof. exact Utils_Proofs.msec_conversion'. Qed.
Print Assumptions msec_conversion.

Theorem msec_conversion_nonfinite :
  msec_of_sec FNan = Err SB_EINVAL /\ msec_of_sec (FInf true) = Err SB_EINVAL /\ msec_of_sec (FInf false) = Err SB_EOVERFLOW.
Proof. exact Utils_Proofs.msec_conversion_nonfinite. Qed.

(** ---- interval expansion ---- *)
Theorem expand_never_inverts : forall lo hi off a b, lo <= hi ->
  interval_expand lo hi off = (a, b) -> a <= b.
Proof. exact Utils_Proofs.expand_never_inverts. Qed.
Print Assumptions expand_never_inverts.

(** ---- colour interpolation ---- *)
Theorem interp_endpoints_and_between : forall a b r, (0 <= a <= 255)%Z -> (0 <= b <= 255)%Z ->
  interp_channel a b 0 = a /\ interp_channel a b 1 = b /\
  (0 <= r -> r <= 1 -> (Z.min a b <= interp_channel a b r <= Z.max a b)%Z).
Proof. exact Utils_Proofs.interp_endpoints_and_between. Qed.
Print Assumptions interp_endpoints_and_between.

(** ---- RGBW ---- *)
Theorem rgbw_min_sub_law : forall c, (0 <= red c <= 255)%Z -> (0 <= green c <= 255)%Z -> (0 <= blue c <= 255)%Z ->
  let o := rgbw_min_sub c in
  (ww o = Z.min (red c) (Z.min (green c) (blue c)) /\
   wr o + ww o = red c /\ wg o + ww o = green c /\ wb o + ww o = blue c /\
   (wr o = 0 \/ wg o = 0 \/ wb o = 0))%Z.
Proof. exact Utils_Proofs.rgbw_min_sub_law. Qed.
Print Assumptions rgbw_min_sub_law.

Theorem rgbw_fixed_law : forall c w, let o := rgbw_fixed c w in
  wr o = red c /\ wg o = green c /\ wb o = blue c /\ ww o = w.
Proof. exact Utils_Proofs.rgbw_fixed_law. Qed.

Theorem rgbw_reference_le : forall c ref,
  (0 <= red c <= 255)%Z -> (0 <= green c <= 255)%Z -> (0 <= blue c <= 255)%Z ->
  (0 <= red ref <= 255)%Z -> (0 <= green ref <= 255)%Z -> (0 <= blue ref <= 255)%Z ->
  let o := rgbw_reference c ref in
  (0 <= wr o <= red c /\ 0 <= wg o <= green c /\ 0 <= wb o <= blue c /\ 0 <= ww o <= 255)%Z.
Proof. exact Utils_Proofs.rgbw_reference_le. Qed.
Print Assumptions rgbw_reference_le.

(** ---- the growable byte buffer is a byte vector ---- *)
Definition buf_ok (b : buffer) : Prop := (bf_size b <= bf_cap b)%nat /\ (bf_owned b = true -> 1 <= bf_cap b)%nat.

Theorem buffer_refines_list : forall b bytes n v, buf_ok b ->
  (* append: contents survive growth *)
  ((Z.of_nat (bf_size b + length bytes) < 2 ^ 60)%Z ->
   forall b', buf_append b bytes = Ok b' -> bf_data b' = bf_data b ++ bytes /\ buf_ok b' /\ bf_owned b' = bf_owned b) /\
  ((Z.of_nat (bf_size b + (bf_size b + n)) < 2 ^ 60)%Z ->
   forall b', buf_extend_zeros b n = Ok b' -> bf_data b' = bf_data b ++ repeat 0%Z n /\ buf_ok b') /\
  (forall b', buf_resize b n = Ok b' ->
     bf_data b' = firstn n (bf_data b) ++ repeat 0%Z (n - bf_size b) /\ buf_ok b') /\
  (forall b', buf_prune b = Ok b' -> bf_data b' = bf_data b /\ buf_ok b') /\
  (bf_data (buf_fill b v) = repeat v (bf_size b) /\ buf_ok (buf_fill b v)).
Proof. exact Utils_Proofs.buffer_refines_list'. Qed.
Print Assumptions buffer_refines_list.

(** a view can be neither grown nor shrunk *)
Theorem view_cannot_change_size : forall b bytes n, bf_owned b = false -> bf_cap b = bf_size b ->
  (bytes <> [] -> buf_append b bytes = Err SB_FAILURE) /\
  buf_resize b n = Err SB_FAILURE /\
  (0 < n -> buf_extend_zeros b n = Err SB_FAILURE)%nat /\
  (1 <= bf_size b -> buf_prune b = Ok b)%nat.
Proof. exact Utils_Proofs.view_cannot_change_size'. Qed.
Print Assumptions view_cannot_change_size.
