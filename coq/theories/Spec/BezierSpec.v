(** Bezier curves declaratively: de Casteljau's repeated linear interpolation,
    polymorphic in the field like the algorithms it is compared with. *)
From Coq Require Import ZArith List.
From SB Require Import Base.Num.
Import ListNotations.

Section Bezier.
  Context {A : Type} (o : Ops A).

  Definition lerp (a b u : A) : A := add o (mul o (sub o (one o) u) a) (mul o u b).

  Fixpoint dc_step (xs : list A) (u : A) : list A :=
    match xs with
    | a :: ((b :: _) as tl) => lerp a b u :: dc_step tl u
    | _ => []
    end.

  (** [bezier pts u]: the point of the Bezier curve with control points [pts]
      at parameter [u]; the empty list is the zero curve. *)
  Fixpoint dc (fuel : nat) (xs : list A) (u : A) : A :=
    match xs with
    | [] => zero o
    | [a] => a
    | _ => match fuel with
           | O => zero o
           | S f => dc f (dc_step xs u) u
           end
    end.
  Definition bezier (pts : list A) (u : A) : A := dc (length pts) pts u.

  (** Hodograph: the derivative of a degree-n Bezier curve is n times the
      Bezier curve of the forward differences. *)
  Fixpoint diffs (xs : list A) : list A :=
    match xs with
    | a :: ((b :: _) as tl) => sub o b a :: diffs tl
    | _ => []
    end.
End Bezier.
