(** What the trajectory builder builds, declaratively: the abstract
    trajectory (Spec/TrajSpec.v) whose encoding the builder's bytes are, call
    by call, and the relation "within one coordinate quantum of the requested
    point" between its end point and the point given to the last call. *)
From Coq Require Import ZArith QArith List.
From SB Require Import Base.Prelude Base.Num Base.F32 Gen.Generated Model.Codec Model.Traj Model.Utils Model.Rth Model.Builder Spec.TrajSpec.
Import ListNotations.
Local Open Scope Z_scope.

(** the int16 with the same two bytes as [v] *)
Definition n16 (v : Z) : Z := sx16 (v mod 65536).
Definition opt16 (c : bool) (v : Z) : list Z := if c then [n16 v] else [].

(** the stored segment of one builder segment: per axis nothing (axis
    unchanged) or one value (a straight line to it) *)
Definition line_sseg (cx cy cz cw : bool) (dur x y z w : Z) : sseg :=
  mksseg dur (opt16 cx x) (opt16 cy y) (opt16 cz z) (opt16 cw w).

Definition snoc_seg (T : straj) (s : sseg) : straj :=
  mkstraj (st_scale T) (st_use_yaw T) (st_start T) (st_segs T ++ [s]).

Definition end_of (T : straj) : vec4 := end_from (st_scale T) (sstart T) (st_segs T).

(** [e] (a decoded coordinate, a multiple of the scale) is the quantisation
    of the requested coordinate [c]: at most [c] and less than one quantum
    below it, up to the binary32 rounding of the division (relative 2^-23) *)
Definition quantum_of (sc : Z) (e c : Q) : Prop :=
  (e <= c + Qabs' c * (1 # 8388608) + (1 # 8388608) /\
   c - Qabs' c * (1 # 8388608) - (1 # 8388608) < e + inject_Z sc)%Q.

Definition close_to (sc : Z) (e l : vec4) : Prop :=
  quantum_of sc (vx e) (vx l) /\ quantum_of sc (vy e) (vy l) /\ quantum_of sc (vz e) (vz l).

(** every stored segment is a straight line (0 or 1 stored value per axis) *)
Definition linear_seg (s : sseg) : Prop :=
  (length (ss_x s) <= 1)%nat /\ (length (ss_y s) <= 1)%nat /\ (length (ss_z s) <= 1)%nat /\ (length (ss_yaw s) <= 1)%nat.

(** The refinement invariant between a builder and the abstract trajectory. *)
Definition builds (b : builder) (T : straj) : Prop :=
  bb_bytes b = encode_traj T /\ wf_straj T = true /\ st_scale T = bb_scale b /\
  Forall linear_seg (st_segs T) /\ close_to (bb_scale b) (end_of T) (bb_last b).

(** builder calls; a failing call leaves the builder as it was *)
Inductive bcall := CStart (p : vec4) | CLine (p : vec4) (dur : Z) | CHold (dur : Z).
Definition bstep (b : builder) (c : bcall) : res builder :=
  match c with
  | CStart p => set_start_position b p
  | CLine p d => append_line b p d
  | CHold d => hold_position_for b d
  end.
Definition bapply (b : builder) (c : bcall) : builder :=
  match bstep b c with Ok b' => b' | _ => b end.
Definition call_ok (c : bcall) : Prop :=
  match c with CStart _ => True | CLine _ d => 0 <= d < 4294967296 | CHold d => d < 4294967296 end.

Definition dur_of (c : bcall) : Z :=
  match c with CStart _ => 0 | CLine _ d => d | CHold d => Z.max d 0 end.

(** run the calls; a failing call leaves the builder as it was; the second
    component adds up the durations requested by the successful calls *)
Fixpoint brun (b : builder) (acc : Z) (calls : list bcall) : builder * Z :=
  match calls with
  | [] => (b, acc)
  | c :: r => match bstep b c with
              | Ok b' => brun b' (acc + dur_of c) r
              | _ => brun b acc r
              end
  end.


(** ---- the point an RTH entry's trajectory must end at ---- *)
Definition rth_neck_target (e : rth_entry) (start : vec4) : vec4 :=
  if negb (Qeq_bool (re_neck e) 0) || fnonzero (re_neck_duration e)
  then mkvec4 (vx start) (vy start) (fadd (vz start) (re_neck e)) (vyaw start) else start.

Definition rth_final_target (e : rth_entry) (start : vec4) : vec4 :=
  let t1 := rth_neck_target e start in
  let a := re_action e in
  if a =? SB_RTH_ACTION_LAND then t1
  else if a =? SB_RTH_ACTION_GO_TO_KEEPING_ALTITUDE then mkvec4 (fst (re_target e)) (snd (re_target e)) (vz t1) (vyaw t1)
  else mkvec4 (fst (re_target e)) (snd (re_target e)) (re_altitude e) (vyaw t1).

(** ---- the points the trajectory passes at the cumulative time of each call ---- *)
(** position of the abstract trajectory at a whole millisecond *)
Definition pos_ms (T : straj) (m : Z) : vec4 :=
  pos_from (st_scale T) (sstart T) 0 (st_segs T) (ms_sec m).

(** (cumulative milliseconds, requested point) of every successful append-line call *)
Fixpoint bmarks (b : builder) (acc : Z) (calls : list bcall) : list (Z * vec4) :=
  match calls with
  | [] => []
  | c :: r => match bstep b c with
              | Ok b' => match c with
                         | CLine p d => (acc + d, p) :: bmarks b' (acc + d) r
                         | _ => bmarks b' (acc + dur_of c) r
                         end
              | _ => bmarks b acc r
              end
  end.

(** durations for which the instants are meaningful: a zero-duration line is a
    jump (no position "at" its instant) *)
Definition call_pos (c : bcall) : Prop :=
  match c with CStart _ => True | CLine _ d => 0 < d < 4294967296 | CHold d => d < 4294967296 end.
