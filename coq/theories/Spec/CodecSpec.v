(** Declarative reading of the base-128 little-endian variable-length
    unsigned integer, independent of the C loop structure. *)
From SB Require Import Base.Prelude Gen.Generated Model.Codec.
Local Open Scope Z_scope.

(** The bytes of the encoding that starts at the head of [s]: everything up to
    and including the first byte whose top bit is clear; [None] if [s] ends
    first. *)
Fixpoint take_enc (s : list Z) : option (list Z) :=
  match s with
  | [] => None
  | x :: t =>
    if x <? 128 then Some [x]
    else match take_enc t with Some e => Some (x :: e) | None => None end
  end.

(** Value of an encoding: 7-bit groups, least significant first. *)
Fixpoint value_of (e : list Z) : Z :=
  match e with
  | [] => 0
  | x :: t => x mod 128 + 128 * value_of t
  end.

(** What the decoder must answer for the first [n] bytes of [b] from [off]. *)
Definition varuint_spec (b : list Z) (n off : nat) : vu_result :=
  let window := firstn (n - off) (skipn off b) in
  match take_enc window with
  | None => VuErr SB_EPARSE (Nat.max off n)
  | Some e =>
    if (length e <=? 5)%nat && (value_of e <? 4294967296)
    then VuOk (value_of e) (off + length e)
    else VuErr SB_EOVERFLOW (off + length e)
  end.
