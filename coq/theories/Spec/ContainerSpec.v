(** The .skyb container read declaratively: header classification and the
    list of (type, length, body offset) records laid end to end. *)
From SB Require Import Base.Prelude Gen.Generated Model.Crc Model.Container Spec.CrcSpec.
Local Open Scope Z_scope.

(** ---- header ---- *)
Record header := mkheader { h_version : Z; h_features : Z; h_start : nat }.

(** Accepted exactly when: magic "skyb", version 1 or 2, for version 2 a
    feature byte, and when the checksum feature is set a 4-byte checksum that
    equals the AP-CRC32 of the file with that field zeroed. *)
Definition header_spec (bytes : list Z) : res header :=
  match bytes with
  | 115 :: 107 :: 121 :: 98 :: ver :: rest =>
    if ver =? 1 then Ok (mkheader 1 0 5)
    else if ver =? 2 then
      match rest with
      | [] => Err SB_EPARSE
      | features :: rest' =>
        if Z.land features SB_BINARY_FEATURE_CRC32 =? 0 then Ok (mkheader 2 features 6)
        else match rest' with
             | c0 :: c1 :: c2 :: c3 :: _ =>
               if le32 c0 c1 c2 c3 =? crc_update 0 (zero_field bytes)
               then Ok (mkheader 2 features 10) else Err SB_ECORRUPTED
             | _ => Err SB_EPARSE
             end
      end
    else Err SB_EPARSE
  | _ => Err SB_EPARSE
  end.

(** ---- records ---- *)
Inductive tail := TEnd | TCutHeader | TShortBody.

Record block := mkblock { b_type : Z; b_len : nat; b_body : nat }.

(** Records from position [pos]: ends at the end of the data or at a record of
    type 0 ([TEnd]), inside a record header ([TCutHeader]), or after a record
    whose body extends beyond the data ([TShortBody]). *)
Fixpoint records (fuel : nat) (bytes : list Z) (pos : nat) : list block * tail :=
  match fuel with
  | O => ([], TEnd)
  | S f =>
    match skipn pos bytes with
    | [] => ([], TEnd)
    | ty :: l0 :: l1 :: _ =>
      if ty =? 0 then ([], TEnd)
      else
        let len := Z.to_nat (le16 l0 l1) in
        let body := (pos + 3)%nat in
        if (length bytes <? body + len)%nat then ([mkblock ty len body], TShortBody)
        else let '(rs, t) := records f bytes (body + len) in (mkblock ty len body :: rs, t)
    | _ => ([], TCutHeader)
    end
  end.

Definition all_records (bytes : list Z) (start : nat) : list block * tail :=
  records (S (length bytes)) bytes start.

(** How an iteration over the blocks ends, per route: the one allowed
    difference is a body cut short (read error from memory, plain end of data
    from a descriptor). *)
Definition tail_error (r : route) (t : tail) : option Z :=
  match t, r with
  | TEnd, _ => None
  | TCutHeader, _ => Some SB_EREAD
  | TShortBody, Mem => Some SB_EREAD
  | TShortBody, Fd => None
  end.

(** Body bytes of a record, when they are all there. *)
Definition body_of (bytes : list Z) (b : block) : option (list Z) :=
  if (length bytes <? b_body b + b_len b)%nat then None
  else Some (firstn (b_len b) (skipn (b_body b) bytes)).

(** ---- what the parser must do, in terms of the above ---- *)

(** Walk of the model parser: the blocks seen through get_current_block /
    seek_to_next_block from a freshly initialised parser, and the error (if
    any) that ends the walk. *)
Fixpoint walk (fuel : nat) (p : parser) : list block * option Z :=
  match fuel with
  | O => ([], None)
  | S f =>
    if block_valid p then
      let b := mkblock (p_type p) (p_len p) (p_body p) in
      match seek_to_next_block p with
      | Ok p' => let '(bs, e) := walk f p' in (b :: bs, e)
      | Err e => ([b], Some e)
      | _ => ([b], Some (-1))
      end
    else ([], None)
  end.

(** Expected result of initialisation: header errors first; then the first
    record header must be absent or complete. *)
Definition init_spec (bytes : list Z) : res header :=
  h <- header_spec bytes ;;
  match skipn (h_start h) bytes with
  | [] => Ok h
  | _ :: _ :: _ :: _ => Ok h
  | _ => Err SB_EREAD
  end.

(** Expected result of a lookup. *)
Fixpoint first_of_type (bs : list block) (ty : Z) : option block :=
  match bs with
  | [] => None
  | b :: t => if b_type b =? ty then Some b else first_of_type t ty
  end.

Definition find_spec (r : route) (bytes : list Z) (start : nat) (ty : Z) : res block :=
  let '(bs, t) := all_records bytes start in
  match first_of_type bs ty with
  | Some b => Ok b
  | None => match tail_error r t with Some e => Err e | None => Err SB_ENOENT end
  end.

(** ---- encoder (for the round-trip statement) ---- *)
Definition enc_block (tb : Z * list Z) : list Z :=
  let '(ty, body) := tb in
  ty :: (Z.of_nat (length body) mod 256) :: (Z.of_nat (length body) / 256) :: body.

Definition enc_header_v1 : list Z := magic ++ [1].
Definition enc_header_v2_nocrc (features : Z) : list Z := magic ++ [2; features].

Definition wf_blocks (bs : list (Z * list Z)) : bool :=
  forallb (fun tb => (0 <? fst tb) && (fst tb <? 256) && (Z.of_nat (length (snd tb)) <? 65536) && wf_bytes (snd tb)) bs.

Fixpoint layout (pos : nat) (bs : list (Z * list Z)) : list block :=
  match bs with
  | [] => []
  | (ty, body) :: t => mkblock ty (length body) (pos + 3) :: layout (pos + 3 + length body) t
  end.
