(** AP-CRC32 declaratively: reflected CRC-32 (polynomial 0x04C11DB7, reflected
    0xEDB88320), initial value 0, no final inversion, one message bit at a
    time, least significant bit of each byte first. *)
From SB Require Import Base.Prelude.
Local Open Scope Z_scope.

Definition POLY : Z := 3988292384. (* 0xEDB88320 *)

(** One step of the shift register. *)
Definition bstep (s : Z) : Z :=
  if Z.odd s then Z.lxor (Z.shiftr s 1) POLY else Z.shiftr s 1.

(** Feeding one message bit. *)
Definition bit_step (s : Z) (bit : bool) : Z := bstep (Z.lxor s (Z.b2z bit)).

(** Bits of a byte, least significant first. *)
Definition bits_of_byte (x : Z) : list bool :=
  map (fun k => Z.testbit x (Z.of_nat k)) (seq 0 8).

Definition bits_of (bytes : list Z) : list bool := flat_map bits_of_byte bytes.

Definition crc_bits (s : Z) (bits : list bool) : Z := fold_left bit_step bits s.

Definition crc_spec (bytes : list Z) : Z := crc_bits 0 (bits_of bytes).

(** The file with its checksum field (bytes 6..9) zeroed. *)
Definition zero_field (bytes : list Z) : list Z :=
  if (10 <=? length bytes)%nat
  then upd (upd (upd (upd bytes 6 0) 7 0) 8 0) 9 0
  else bytes.

(** Stored checksum: bytes 6..9, little endian. *)
Definition stored_crc (bytes : list Z) : option Z :=
  match nth_error bytes 6, nth_error bytes 7, nth_error bytes 8, nth_error bytes 9 with
  | Some a, Some b, Some c, Some d => Some (le32 a b c d)
  | _, _, _, _ => None
  end.
