(** Light programs declaratively: commands decoded into abstract
    instructions, an event-driven machine that executes one instruction per
    event on a clock starting at 0, and "the state at time t". *)
From Coq Require Import ZArith QArith List.
From SB Require Import Base.Prelude Gen.Generated Model.Light.
Import ListNotations.
Local Open Scope Z_scope.

(** ---- instructions ---- *)
Inductive instr :=
| IEnd                                  (* end marker, end of bytecode, unknown opcode, bad jump *)
| INop
| ISleep (d : Z)                        (* duration in ms (20 ms units already applied) *)
| IWaitUntil (d : Z)                    (* deadline on the program clock, ms *)
| ISet (c : rgbq) (d : Z)
| IFade (c : rgbq) (d : Z)
| ILoopBegin (n : Z)
| ILoopEnd
| IResetClock
| IJump (a : Z)
| IPyroSet (m : Z)                      (* turn on the channels of the mask *)
| IPyroClear (m : Z)
| IPyroAll (m : Z).

(** byte at an address; reads at or beyond the end give the end marker *)
Definition byte_at (prog : list Z) (a : Z) : Z :=
  if (0 <=? a) && (a <? Z.of_nat (length prog))
  then nth (Z.to_nat a) prog CMD_END else CMD_END.

(** address after a byte read at [a]: reads past the end do not advance *)
Definition adv (prog : list Z) (a : Z) : Z :=
  if (0 <=? a) && (a <? Z.of_nat (length prog)) then a + 1 else a.

(** base-128 little-endian varint at [a]: value (low 64 bits) and the address
    after it *)
Fixpoint varint_at (fuel : nat) (prog : list Z) (a : Z) (shift : Z) : Z * Z :=
  match fuel with
  | O => (0, a)
  | S f =>
    let b := byte_at prog a in
    let a' := adv prog a in
    let lo := if shift <? 64 then Z.shiftl (Z.land b 127) shift else 0 in
    if Z.land b 128 =? 0 then (lo mod 18446744073709551616, a')
    else let '(hi, a'') := varint_at f prog a' (if shift <? 64 then shift + 7 else shift) in
         (Z.lor lo hi mod 18446744073709551616, a'')
  end.
Definition varint (prog : list Z) (a : Z) : Z * Z := varint_at (S (length prog)) prog a 0.

Definition dur_at (prog : list Z) (a : Z) : Z * Z :=
  let '(v, a') := varint prog a in ((v * 20) mod 18446744073709551616, a').

Definition rgb_at (prog : list Z) (a : Z) : rgbq * Z :=
  let a1 := adv prog a in let a2 := adv prog a1 in
  (rgbq_of (byte_at prog a) (byte_at prog a1) (byte_at prog a2), adv prog a2).

(** instruction at [a] and the address of the next one *)
Definition decode (prog : list Z) (a : Z) : instr * Z :=
  let op := byte_at prog a in
  let a1 := adv prog a in
  if op =? 0 then (IEnd, a1)
  else if op =? 1 then (INop, a1)
  else if op =? 2 then let '(d, n) := dur_at prog a1 in (ISleep d, n)
  else if op =? 3 then let '(d, n) := dur_at prog a1 in (IWaitUntil d, n)
  else if op =? 4 then let '(c, a2) := rgb_at prog a1 in let '(d, n) := dur_at prog a2 in (ISet c d, n)
  else if op =? 5 then let g := byte_at prog a1 in let '(d, n) := dur_at prog (adv prog a1) in (ISet (rgbq_of g g g) d, n)
  else if op =? 6 then let '(d, n) := dur_at prog a1 in (ISet black d, n)
  else if op =? 7 then let '(d, n) := dur_at prog a1 in (ISet white d, n)
  else if op =? 8 then let '(c, a2) := rgb_at prog a1 in let '(d, n) := dur_at prog a2 in (IFade c d, n)
  else if op =? 9 then let g := byte_at prog a1 in let '(d, n) := dur_at prog (adv prog a1) in (IFade (rgbq_of g g g) d, n)
  else if op =? 10 then let '(d, n) := dur_at prog a1 in (IFade black d, n)
  else if op =? 11 then let '(d, n) := dur_at prog a1 in (IFade white d, n)
  else if op =? 12 then (ILoopBegin (byte_at prog a1), adv prog a1)
  else if op =? 13 then (ILoopEnd, a1)
  else if op =? 14 then (IResetClock, a1)
  else if op =? 16 then let '(_, a2) := rgb_at prog a1 in let '(d, n) := dur_at prog a2 in (ISet black d, n)
  else if op =? 17 then let '(_, a2) := rgb_at prog a1 in let '(d, n) := dur_at prog a2 in (IFade black d, n)
  else if op =? 18 then let '(v, n) := varint prog a1 in
                        if v <? 2147483647 then (IJump v, n) else (IEnd, n)
  else if op =? 19 then
    let params := byte_at prog a1 in
    let a2 := adv prog a1 in
    if Z.land params 48 =? 0 then (INop, a2)
    else let '(v, n) := varint prog a2 in if v <? 2147483647 then (INop, n) else (IEnd, n)
  else if op =? 20 then
    let m := byte_at prog a1 in
    (if Z.land m 128 =? 0 then IPyroClear (Z.land m 127) else IPyroSet (Z.land m 127), adv prog a1)
  else if op =? 21 then (IPyroAll (Z.land (byte_at prog a1) 127), adv prog a1)
  else (IEnd, a1).

(** ---- the event-driven machine ---- *)
Record fade := mkfade { f_t0 : Z; f_dur : Z; f_from : rgbq; f_to : rgbq }.

Record mstate := mkm {
  m_pc : Z;
  m_loops : list (Z * Z);      (* (first address of the body, iterations left + 1; 0 = forever), innermost first *)
  m_origin : Z;                (* program clock = wall clock - origin *)
  m_clock : Z;                 (* program clock at which the next instruction is scheduled *)
  m_wake : Z;                  (* wall-clock instant of the next instruction *)
  m_color : rgbq;              (* colour in effect outside a fade *)
  m_pyro : Z;
  m_ended : bool;
  m_fade : option fade         (* the fade that started last, if it is still the colour source *)
}.

(** An empty program has ended before the clock starts (no instruction is
    ever executed): its "instant of the end" is -1. *)
Definition minit (prog : list Z) : mstate :=
  match prog with
  | [] => mkm 0 [] 0 0 (-1) black 0 true None
  | _ => mkm 0 [] 0 0 0 black 0 false None
  end.

(** colour shown at wall-clock instant [t] *)
Definition color_at (s : mstate) (t : Z) : rgbq :=
  match m_fade s with
  | Some f =>
    if t <? f_t0 f + f_dur f
    then interp (f_from f) (f_to f) (if t <? f_t0 f then 0 else (t - f_t0 f) # (Z.to_pos (f_dur f)))
    else f_to f
  | None => m_color s
  end.

(** schedule the next instruction [d] ms later on the program clock *)
Definition after_ms (s : mstate) (d : Z) : Z * Z :=
  let k := m_clock s + d in (k, Z.max (m_wake s) (m_origin s + k)).

(** execute the instruction at [m_pc], which starts at instant [m_wake] *)
Definition exec1 (prog : list Z) (s : mstate) : mstate :=
  let w := m_wake s in
  let '(i, n) := decode prog (m_pc s) in
  (* the colour in effect now: a finished fade has become its target *)
  let cur := color_at s w in
  let s0 := mkm n (m_loops s) (m_origin s) (m_clock s) w
                (match m_fade s with Some f => if w <? f_t0 f + f_dur f then m_color s else f_to f | None => m_color s end)
                (m_pyro s) false
                (match m_fade s with Some f => if w <? f_t0 f + f_dur f then Some f else None | None => None end) in
  match i with
  | IEnd => mkm n (m_loops s0) (m_origin s0) (m_clock s0) w (m_color s0) (m_pyro s0) true (m_fade s0)
  | INop => s0
  | ISleep d => let '(k, w') := after_ms s0 d in
                mkm n (m_loops s0) (m_origin s0) k w' (m_color s0) (m_pyro s0) false (m_fade s0)
  | IWaitUntil d => let w' := Z.max w (m_origin s0 + d) in
                    mkm n (m_loops s0) (m_origin s0) (w' - m_origin s0) w' (m_color s0) (m_pyro s0) false (m_fade s0)
  | ISet c d => let '(k, w') := after_ms s0 d in
                mkm n (m_loops s0) (m_origin s0) k w' c (m_pyro s0) false None
  | IFade c d => let '(k, w') := after_ms s0 d in
                 if w' - w =? 0 then mkm n (m_loops s0) (m_origin s0) k w' c (m_pyro s0) false None
                 else mkm n (m_loops s0) (m_origin s0) k w' (m_color s0) (m_pyro s0) false
                          (Some (mkfade w (w' - w) (m_color s0) c))
  | ILoopBegin it =>
    if Z.of_nat (length (m_loops s0)) <? 4
    then mkm n ((n, it) :: m_loops s0) (m_origin s0) (m_clock s0) w (m_color s0) (m_pyro s0) false (m_fade s0)
    else s0
  | ILoopEnd =>
    match m_loops s0 with
    | [] => s0
    | (start, it) :: rest =>
      if it =? 0 then mkm start (m_loops s0) (m_origin s0) (m_clock s0) w (m_color s0) (m_pyro s0) false (m_fade s0)
      else if it =? 1 then mkm n rest (m_origin s0) (m_clock s0) w (m_color s0) (m_pyro s0) false (m_fade s0)
      else mkm start ((start, it - 1) :: rest) (m_origin s0) (m_clock s0) w (m_color s0) (m_pyro s0) false (m_fade s0)
    end
  | IResetClock => mkm n (m_loops s0) w 0 w (m_color s0) (m_pyro s0) false (m_fade s0)
  | IJump a => mkm a [] (m_origin s0) (m_clock s0) w (m_color s0) (m_pyro s0) false (m_fade s0)
  | IPyroSet m => mkm n (m_loops s0) (m_origin s0) (m_clock s0) w (m_color s0) (Z.lor (m_pyro s0) m) false (m_fade s0)
  | IPyroClear m => mkm n (m_loops s0) (m_origin s0) (m_clock s0) w (m_color s0) (Z.land (m_pyro s0) (127 - m)) false (m_fade s0)
  | IPyroAll m => mkm n (m_loops s0) (m_origin s0) (m_clock s0) w (m_color s0) m false (m_fade s0)
  end.

(** State at wall-clock instant [t]: every instruction scheduled strictly
    before [t] has been executed, plus the first one scheduled exactly at [t].
    [None]: the program makes no progress (a loop iteration or jump cycle that
    consumes no time before [t]) within the given number of instructions. *)
Fixpoint run_until (fuel : nat) (prog : list Z) (s : mstate) (t : Z) : option mstate :=
  if m_ended s then Some s
  else if t <? m_wake s then Some s
  else match fuel with
       | O => None
       | S f =>
         if m_wake s =? t then Some (exec1 prog s)
         else run_until f prog (exec1 prog s) t
       end.

Definition state_at (fuel : nat) (prog : list Z) (t : Z) : option mstate :=
  run_until fuel prog (minit prog) t.

(** Observables of the declarative state at [t]. *)
Definition spec_color (s : mstate) (t : Z) : rgbq := color_at s t.
Definition spec_pyro (s : mstate) : Z := m_pyro s.
Definition spec_ended (s : mstate) : bool := m_ended s.
(** next event: the instant of the next instruction; once ended, a minute on
    (the instant itself when the end is reached exactly at [t]: [m_wake] of an
    ended state is the instant at which it ended) *)
Definition spec_next (s : mstate) (t : Z) : Z :=
  if m_ended s then (if m_wake s =? t then t else t + 60000) else m_wake s.
