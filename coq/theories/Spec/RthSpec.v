(** Return-to-home plans declaratively: an abstract plan, its encoder, and the
    meaning of "the entry in force at time t". *)
From SB Require Import Base.Prelude Gen.Generated Model.Codec Model.Rth.
From Coq Require Import QArith.
Local Open Scope Z_scope.

(** One stored entry.  [se_code] is the stored action code (0 = same as
    previous); the parameter fields are meaningful only for the codes that
    store them. *)
Record sentry := mksentry {
  se_dt : Z;                 (* seconds since the previous entry *)
  se_code : Z;               (* 0..3 *)
  se_point : Z;              (* index into the point table (codes 2, 3) *)
  se_alt : Z;                (* stored int16 (code 3) *)
  se_neck : Z;               (* stored int16 (code 3) *)
  se_neck_dur : Z;           (* seconds (code 3) *)
  se_dur : Z;                (* seconds; present when the resolved action has a target *)
  se_pre : option Z;         (* pre-delay, seconds *)
  se_post : option Z         (* post-delay, seconds *)
}.

Record splan := mksplan {
  sp_scale : Z;              (* 0..127 *)
  sp_points : list (Z * Z);  (* stored int16 pairs *)
  sp_entries : list sentry
}.

Definition u32 (v : Z) : bool := (0 <=? v) && (v <? 4294967296).
Definition i16 (v : Z) : bool := (-32768 <=? v) && (v <? 32768).
Definition opt_ok (o : option Z) : bool := match o with Some v => u32 v | None => true end.

Definition wf_sentry (e : sentry) : bool :=
  u32 (se_dt e) && (0 <=? se_code e) && (se_code e <=? 3) && u32 (se_point e) &&
  i16 (se_alt e) && i16 (se_neck e) && u32 (se_neck_dur e) && u32 (se_dur e) &&
  opt_ok (se_pre e) && opt_ok (se_post e).

Definition wf_splan (p : splan) : bool :=
  (0 <=? sp_scale p) && (sp_scale p <? 128) &&
  (Z.of_nat (length (sp_points p)) <? 65536) && (Z.of_nat (length (sp_entries p)) <? 65536) &&
  forallb (fun xy => i16 (fst xy) && i16 (snd xy)) (sp_points p) &&
  forallb wf_sentry (sp_entries p).

(** ---- encoder ---- *)
Definition enc_u16 (v : Z) : list Z := [v mod 256; v / 256].
Definition enc_i16 (v : Z) : list Z := enc_u16 (v mod 65536).

(** Canonical (shortest) base-128 little-endian encoding; 5 groups suffice
    for 32 bits. *)
Fixpoint enc_varuint_fuel (fuel : nat) (v : Z) : list Z :=
  match fuel with
  | O => [v mod 128]
  | S f => if v <? 128 then [v] else (128 + v mod 128) :: enc_varuint_fuel f (v / 128)
  end.
Definition enc_varuint (v : Z) : list Z := enc_varuint_fuel 4 v.

Definition enc_opt (o : option Z) : list Z := match o with Some v => enc_varuint v | None => [] end.

(** Action in force for an entry, given the one in force before it. *)
Definition resolve (prev code : Z) : Z := if code =? 0 then prev else code.

Definition enc_entry (prev : Z) (e : sentry) : list Z :=
  let a := resolve prev (se_code e) in
  let flags := 16 * se_code e + (match se_pre e with Some _ => 2 | None => 0 end)
                              + (match se_post e with Some _ => 1 | None => 0 end) in
  [flags] ++ enc_varuint (se_dt e)
  ++ (if se_code e =? 0 then []
      else (if has_target a then enc_varuint (se_point e) else [])
           ++ (if has_altitude a then enc_i16 (se_alt e) else [])
           ++ (if has_neck a then enc_i16 (se_neck e) ++ enc_varuint (se_neck_dur e) else []))
  ++ (if has_duration a then enc_varuint (se_dur e) else [])
  ++ enc_opt (se_pre e) ++ enc_opt (se_post e).

Fixpoint enc_entries (prev : Z) (es : list sentry) : list Z :=
  match es with
  | [] => []
  | e :: t => enc_entry prev e ++ enc_entries (resolve prev (se_code e)) t
  end.

Definition encode_plan (p : splan) : list Z :=
  [sp_scale p] ++ enc_u16 (Z.of_nat (length (sp_points p)))
  ++ flat_map (fun xy => enc_i16 (fst xy) ++ enc_i16 (snd xy)) (sp_points p)
  ++ enc_u16 (Z.of_nat (length (sp_entries p)))
  ++ enc_entries SB_RTH_ACTION_LAND (sp_entries p).

(** ---- meaning ---- *)

(** The state carried from entry to entry: resolved action and its
    parameters (most recent explicit action). *)
Record carried := mkcarried { c_action : Z; c_point : Z; c_alt : Z; c_neck : Z; c_neck_dur : Z }.
Definition carried0 : carried := mkcarried SB_RTH_ACTION_LAND 0 0 0 0.

Definition carry (scale : Z) (c : carried) (e : sentry) : carried :=
  if se_code e =? 0 then c
  else let a := se_code e in
       mkcarried a
                 (if has_target a then se_point e else 0)
                 (if has_altitude a then se_alt e * scale else 0)
                 (if has_neck a then se_neck e * scale else 0)
                 (if has_neck a then se_neck_dur e else 0).

(** A duration field above the limit that is actually stored for this entry. *)
Definition too_long (v : Z) : bool := RTH_MAX_DURATION <? v.
Definition entry_overflows (c' : carried) (e : sentry) : bool :=
  ((negb (se_code e =? 0)) && has_neck (c_action c') && too_long (se_neck_dur e))
  || (has_duration (c_action c') && too_long (se_dur e))
  || (match se_pre e with Some v => too_long v | None => false end)
  || (match se_post e with Some v => too_long v | None => false end).

Definition point_of (p : splan) (idx : Z) : res (Z * Z) :=
  if Z.of_nat (length (sp_points p)) <=? idx then Err SB_EINVAL
  else match nth_error (sp_points p) (Z.to_nat idx) with
       | Some (x, y) => Ok (x * sp_scale p, y * sp_scale p)
       | None => Err SB_EINVAL
       end.

Definition result_of (p : splan) (cum : Z) (c : carried) (e : sentry) : res eval_result :=
  tgt <- (if has_target (c_action c) then point_of p (c_point c) else Ok (0, 0)) ;;
  Ok (mkeval (Some (f32_of_u32 cum)) (c_action c)
             (if has_duration (c_action c) then se_dur e else 0)
             tgt (c_alt c)
             (match se_pre e with Some v => v | None => 0 end)
             (match se_post e with Some v => v | None => 0 end)
             (c_neck c) (c_neck_dur c)).

(** Walk the entries in order: the answer is the first entry whose cumulative
    time (as the binary32 value the comparison uses) is at least [t], the last
    one when there is none; an overflow met on the way is the answer instead. *)
Fixpoint eval_entries (p : splan) (t : ftime) (cum : Z) (c : carried) (es : list sentry) : res eval_result :=
  match es with
  | [] => Err (-1)   (* not reached: callers pass a non-empty list *)
  | e :: rest =>
    if 4294967296 <=? cum + se_dt e then Err SB_EOVERFLOW else
    let cum' := cum + se_dt e in
    let c' := carry (sp_scale p) c e in
    if entry_overflows c' e then Err SB_EOVERFLOW else
    if time_reached cum' t then result_of p cum' c' e
    else match rest with
         | [] => result_of p cum' c' e
         | _ => eval_entries p t cum' c' rest
         end
  end.

Definition immediate_landing : eval_result := mkeval None SB_RTH_ACTION_LAND 0 (0, 0) 0 0 0 0 0.

Definition eval_spec (p : splan) (t : ftime) : res eval_result :=
  if time_neg t then Ok immediate_landing
  else match sp_entries p with
       | [] => Ok immediate_landing
       | es => eval_entries p t 0 carried0 es
       end.
