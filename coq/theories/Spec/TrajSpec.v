(** Trajectory blocks declaratively: an abstract trajectory, its encoder, the
    position it defines (de Casteljau on chained control points), and the
    comparison tolerances used by the correspondence check. *)
From Coq Require Import ZArith QArith List.
From SB Require Import Base.Prelude Base.Num Gen.Generated Model.Codec Model.Poly Model.Traj Spec.BezierSpec.
Import ListNotations.
Local Open Scope Z_scope.

(** A stored segment: duration and, per axis, the stored 16-bit values (0, 1,
    3 or 7 of them: constant, linear, cubic, degree 7). *)
Record sseg := mksseg { ss_dur : Z; ss_x : list Z; ss_y : list Z; ss_z : list Z; ss_yaw : list Z }.

Record straj := mkstraj {
  st_scale : Z;
  st_use_yaw : bool;
  st_start : Z * Z * Z * Z;      (* stored int16: x, y, z, yaw (tenths of a degree) *)
  st_segs : list sseg
}.

Definition i16b (v : Z) : bool := (-32768 <=? v) && (v <? 32768).
Definition len_ok (l : list Z) : bool :=
  match length l with 0%nat | 1%nat | 3%nat | 7%nat => forallb i16b l | _ => false end.
Definition wf_sseg (s : sseg) : bool :=
  (0 <=? ss_dur s) && (ss_dur s <? 65536) &&
  len_ok (ss_x s) && len_ok (ss_y s) && len_ok (ss_z s) && len_ok (ss_yaw s).
Definition wf_straj (t : straj) : bool :=
  let '(x, y, z, w) := st_start t in
  (0 <? st_scale t) && (st_scale t <? 128) && i16b x && i16b y && i16b z && i16b w &&
  forallb wf_sseg (st_segs t).

(** ---- encoder ---- *)
Definition e16 (v : Z) : list Z := let u := v mod 65536 in [u mod 256; u / 256].
Definition bits_of_len (l : list Z) : Z :=
  match length l with 0%nat => 0 | 1%nat => 1 | 3%nat => 2 | _ => 3 end.
Definition enc_sseg (s : sseg) : list Z :=
  (bits_of_len (ss_x s) + 4 * bits_of_len (ss_y s) + 16 * bits_of_len (ss_z s) + 64 * bits_of_len (ss_yaw s))
  :: e16 (ss_dur s)
  ++ flat_map e16 (ss_x s) ++ flat_map e16 (ss_y s) ++ flat_map e16 (ss_z s) ++ flat_map e16 (ss_yaw s).
Definition encode_traj (t : straj) : list Z :=
  let '(x, y, z, w) := st_start t in
  (st_scale t + (if st_use_yaw t then 128 else 0)) :: e16 x ++ e16 y ++ e16 z ++ e16 w
  ++ flat_map enc_sseg (st_segs t).

(** ---- meaning ---- *)
Definition sstart (t : straj) : vec4 :=
  let '(x, y, z, w) := st_start t in
  mkvec4 (coord_of (st_scale t) x) (coord_of (st_scale t) y) (coord_of (st_scale t) z) (angle_of w).

(** control points of a segment: the previous end point, then the stored
    points times the scale (yaw: tenths of a degree reduced to [0,360)) *)
Definition ctrl (scale : Z) (start : vec4) (s : sseg) : list Q * list Q * list Q * list Q :=
  (vx start :: map (coord_of scale) (ss_x s), vy start :: map (coord_of scale) (ss_y s),
   vz start :: map (coord_of scale) (ss_z s), vyaw start :: map angle_of (ss_yaw s)).

Definition ctrl_end (c : list Q * list Q * list Q * list Q) (start : vec4) : vec4 :=
  let '(cx, cy, cz, cw) := c in
  mkvec4 (last cx (vx start)) (last cy (vy start)) (last cz (vz start)) (last cw (vyaw start)).

Definition bez4 (c : list Q * list Q * list Q * list Q) (u : Q) : vec4 :=
  let '(cx, cy, cz, cw) := c in
  mkvec4 (bezier QOps cx u) (bezier QOps cy u) (bezier QOps cz u) (bezier QOps cw u).

(** Position at time [t] (seconds, already clamped to >= 0): the segment whose
    span contains [t] -- the first one ending at or after [t] -- at the
    elapsed fraction; the last end point after the end. *)
Fixpoint pos_from (scale : Z) (start : vec4) (start_ms : Z) (segs : list sseg) (t : Q) : vec4 :=
  match segs with
  | [] => start
  | s :: rest =>
    let c := ctrl scale start s in
    let end_ms := start_ms + ss_dur s in
    if Qltb (ms_sec end_ms) t then pos_from scale (ctrl_end c start) end_ms rest t
    else if ss_dur s =? 0 then bez4 c (1 # 2)
    else bez4 c ((t - ms_sec start_ms) / ms_sec (ss_dur s))
  end.

Fixpoint end_from (scale : Z) (start : vec4) (segs : list sseg) : vec4 :=
  match segs with
  | [] => start
  | s :: rest => end_from scale (ctrl_end (ctrl scale start s) start) rest
  end.

Definition traj_pos (tr : straj) (t : qtime) : vec4 :=
  match clamp0 t with
  | QFin q => pos_from (st_scale tr) (sstart tr) 0 (st_segs tr) q
  | QPosInf => end_from (st_scale tr) (sstart tr) (st_segs tr)
  | QNegInf => sstart tr
  end.

Definition total_ms (tr : straj) : Z := fold_left (fun a s => a + ss_dur s) (st_segs tr) 0.

Definition vec4_eq (a b : vec4) : Prop :=
  vx a == vx b /\ vy a == vy b /\ vz a == vz b /\ vyaw a == vyaw b.

(** ---- comparison tolerance for the binary32 implementation ----
    The code evaluates the true curve at a perturbed instant (rounding of the
    segment times and of the division) and rounds each Horner step, so the
    error splits into a Lipschitz part [L * dt] and an evaluation part [E]:
      dt = 2^-22 (|t| + S + d)       L = n * max|P_{i+1}-P_i| / d
      E  = (2n+6) 2^-24 K_n max|P|    K_n = 3^n (n >= 2), 1 otherwise
    taken over the segment the exact search selects and its neighbours (the
    binary32 comparisons may select a neighbour when t is within rounding of a
    boundary), times a safety factor 4.  These formulas are *assumed* bounds
    (validated by the thorough tier), not theorems. *)
Local Open Scope Q_scope.
Definition qabs_max (l : list Q) : Q := fold_left (fun a x => Qmax' a (Qabs' x)) l 0.

Fixpoint qdiffs (l : list Q) : list Q :=
  match l with
  | a :: ((b :: _) as tl) => (b - a) :: qdiffs tl
  | _ => []
  end.

Definition pow3 (n : nat) : Q := inject_Z (Z.pow 3 (Z.of_nat n))%Z.
Definition two_m (k : Z) : Q := 1 # (Pos.pow 2 (Z.to_pos k)).

(** error bound of one axis of one segment for the [k]-th derivative
    (k = 0 position, 1 velocity, 2 acceleration) *)
Definition axis_tol (k : nat) (pts : list Q) (d t S0 : Q) : Q :=
  let n := (length pts - 1)%nat in
  let nq := inject_Z (Z.of_nat n) in
  let kn := if (2 <=? n)%nat then pow3 n else 1 in
  let dk := Qred (Qpower d (Z.of_nat k)) in            (* d^k *)
  let dl := nth k [qdiffs pts; qdiffs (qdiffs pts); qdiffs (qdiffs (qdiffs pts))] [] in
  let lip := Qred (Qpower nq (Z.of_nat (S k)) * qabs_max dl / (dk * d)) in
  let dt := Qred (two_m 22 * (Qabs' t + S0 + d)) in
  let ev := Qred ((inject_Z (2 * Z.of_nat n + 6 + 2 * Z.of_nat k)%Z) * two_m 24 * kn
                  * Qpower nq (Z.of_nat k) * qabs_max pts / dk) in
  Qred (lip * dt + ev).

Definition seg_tol (k : nat) (c : cursor) (s : segment) (t : Q) : Q :=
  if (sg_dur s =? 0)%Z then 0 else
  let d := ms_sec (sg_dur s) in
  let S0 := ms_sec (c_start_ms c) in
  Qmax' (Qmax' (axis_tol k (sg_x s) d t S0) (axis_tol k (sg_y s) d t S0))
        (Qmax' (axis_tol k (sg_z s) d t S0) (axis_tol k (sg_yaw s) d t S0)).

(** segments whose span is within a rounding margin of [t] *)
Definition near (c : cursor) (s : segment) (t : Q) : bool :=
  let m := Qred (two_m 20 * (1 + Qabs' t)) in
  Qle_bool (ms_sec (c_start_ms c) - m) t && Qle_bool t (ms_sec (c_start_ms c + sg_dur s)%Z + m).

Definition tol_at (k : nat) (segs : list (cursor * segment)) (t : Q) : Q :=
  let base := two_m 18 in   (* absolute floor: 2^-18 *)
  Qred (4 * fold_left (fun a cs => if near (fst cs) (snd cs) t
                                   then Qmax' a (seg_tol k (fst cs) (snd cs) t) else a) segs 0 + base).

(** per-component tolerance: the bound above plus the representation error of
    the value itself *)
Definition final_tol (tol v : Q) : Q := Qred (tol + two_m 22 * Qabs' v).
