(** Yaw control blocks declaratively: the piecewise-linear curve in tenths of
    a degree, and the comparison tolerance. *)
From Coq Require Import ZArith QArith List.
From SB Require Import Base.Prelude Base.Num Gen.Generated Model.Codec Model.Traj Model.Yaw Spec.TrajSpec.
Import ListNotations.
Local Open Scope Z_scope.

Record syaw := mksyaw {
  sy_flags : Z;                     (* any flag byte; bit 0 = auto yaw *)
  sy_offset : Z;                    (* signed 16 bit, tenths of a degree *)
  sy_deltas : list (Z * Z)          (* (duration ms, signed change in tenths) *)
}.

Definition wf_syaw (y : syaw) : bool :=
  (0 <=? sy_flags y) && (sy_flags y <? 256) && i16b (sy_offset y) &&
  forallb (fun dc => (0 <=? fst dc) && (fst dc <? 65536) && i16b (snd dc)) (sy_deltas y).

Definition encode_yaw (y : syaw) : list Z :=
  sy_flags y :: e16 (sy_offset y) ++ flat_map (fun dc => e16 (fst dc) ++ e16 (snd dc)) (sy_deltas y).

(** yaw in degrees at time [t] >= 0: offset plus completed changes plus the
    elapsed fraction of the change in progress *)
Fixpoint yaw_from (start_ddeg start_ms : Z) (ds : list (Z * Z)) (t : Q) : Q :=
  match ds with
  | [] => ddeg start_ddeg
  | (dur, change) :: rest =>
    let end_ms := start_ms + dur in
    if Qltb (ms_sec end_ms) t then yaw_from (start_ddeg + change) end_ms rest t
    else if dur =? 0 then (ddeg start_ddeg + ddeg change * (1 # 2))%Q
    else (ddeg start_ddeg + ddeg change * ((t - ms_sec start_ms) / ms_sec dur))%Q
  end.

Fixpoint rate_from (start_ms : Z) (ds : list (Z * Z)) (t : Q) : option Q :=
  match ds with
  | [] => Some 0%Q
  | (dur, change) :: rest =>
    let end_ms := start_ms + dur in
    if Qltb (ms_sec end_ms) t then rate_from end_ms rest t
    else if dur =? 0 then None
    else Some (ddeg change / ms_sec dur)%Q
  end.

Definition final_yaw (y : syaw) : Q :=
  ddeg (fold_left (fun a dc => a + snd dc) (sy_deltas y) (sy_offset y)).

Definition yaw_spec (y : syaw) (t : qtime) : Q :=
  match clamp0 t with
  | QFin q => yaw_from (sy_offset y) 0 (sy_deltas y) q
  | QPosInf => final_yaw y
  | QNegInf => ddeg (sy_offset y)
  end.

Definition rate_spec (y : syaw) (t : qtime) : option Q :=
  match clamp0 t with
  | QFin q => rate_from 0 (sy_deltas y) q
  | QPosInf => Some 0%Q
  | QNegInf => rate_from 0 (sy_deltas y) 0
  end.

Definition yaw_total_ms (y : syaw) : Z := fold_left (fun a dc => a + fst dc) (sy_deltas y) 0.

(** ---- tolerance (assumed float32 bound, safety factor 4) ---- *)
Local Open Scope Q_scope.
Definition yaw_tol (start_ddeg change dur_ms start_ms : Z) (t : Q) : Q :=
  let s := Qabs' (ddeg start_ddeg) in
  let c := Qabs' (ddeg change) in
  let d := ms_sec dur_ms in
  let dt := two_m 22 * (Qabs' t + ms_sec start_ms + d) in
  Qred (4 * ((if (dur_ms =? 0)%Z then 0 else c / d * dt) + 4 * two_m 24 * (s + c)) + two_m 18).

(** maximum of [yaw_tol] over the setpoints whose span is within a rounding
    margin of [t] (the binary32 comparisons may select a neighbour) *)
Fixpoint yaw_tol_from (fuel : nat) (c : ycursor) (t : Q) (acc : Q) : Q :=
  match fuel with
  | O => acc
  | S f =>
    match decode_delta (yc_rest c) with
    | None => Qmax' acc (yaw_tol (yc_start_ddeg c) 0 0 (yc_start_ms c) t)
    | Some (dur, change, r) =>
      let m := Qred (two_m 20 * (1 + Qabs' t)) in
      let near := Qle_bool (ms_sec (yc_start_ms c) - m) t && Qle_bool t (ms_sec (yc_start_ms c + dur)%Z + m) in
      yaw_tol_from f (ynext c dur change r) t
                   (if near then Qmax' acc (yaw_tol (yc_start_ddeg c) change dur (yc_start_ms c) t) else acc)
    end
  end.

Definition yaw_tol_at (y : yawctl) (t : Q) : Q :=
  yaw_tol_from (S (length (y_bytes y))) (ycursor0 y) t 0.
