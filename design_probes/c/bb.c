#include <skybrush/trajectory.h>
#include <stdio.h>
#include <stdlib.h>
#include <string.h>
int main(int argc,char**argv){
  const char* hx = argv[1]; size_t n = strlen(hx)/2; uint8_t* p = malloc(n?n:1);
  for (size_t i=0;i<n;i++){ unsigned v; sscanf(hx+2*i,"%2x",&v); p[i]=v; }
  sb_trajectory_t t; sb_trajectory_init_from_buffer(&t,p,n);
  sb_bounding_box_t b; int rc = sb_trajectory_get_axis_aligned_bounding_box(&t,&b);
  printf("%d %.9g %.9g %.9g %.9g %.9g %.9g\n", rc, b.x.min,b.x.max,b.y.min,b.y.max,b.z.min,b.z.max); return 0; }
