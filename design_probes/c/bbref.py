import random, struct, subprocess, sys
from fractions import Fraction as F
from math import comb
def i16(v): return struct.pack('<h', v)
def bez(P,u):
    n=len(P)-1
    return sum(comb(n,i)*(1-u)**(n-i)*u**i*P[i] for i in range(n+1))
rng=random.Random(int(sys.argv[1])); bad=0; tot=0; worst_out=0; worst_slack=0
for it in range(int(sys.argv[2])):
    scale=rng.choice([1,2,10]); start=[rng.randrange(-300,300) for _ in range(3)]
    segs=[]
    for _ in range(rng.randrange(1,5)):
        degs=[rng.choice([0,1,2]) for _ in range(3)]
        segs.append((rng.choice([1000,3000]),degs,[[rng.randrange(-2000,2000) for _ in range((1<<d)-1)] for d in degs]))
    b=bytes([scale])+b''.join(i16(v) for v in start)+i16(0)
    for dur,degs,pts in segs:
        b+=bytes([degs[0]|degs[1]<<2|degs[2]<<4])+struct.pack('<H',dur)
        for ax in range(3):
            for v in pts[ax]: b+=i16(v)
    out=subprocess.run(['./bb',b.hex()],capture_output=True,text=True).stdout.split()
    box=[float(x) for x in out[1:]]
    cur=[F(v*scale) for v in start]
    lo=[None]*3; hi=[None]*3
    for dur,degs,pts in segs:
        for ax in range(3):
            P=[cur[ax]]+[F(v*scale) for v in pts[ax]]
            for k in range(0,401):
                v=bez(P,F(k,400))
                lo[ax]=v if lo[ax] is None else min(lo[ax],v); hi[ax]=v if hi[ax] is None else max(hi[ax],v)
            cur[ax]=P[-1]
    for ax in range(3):
        tot+=1
        mn,mx=box[2*ax],box[2*ax+1]
        rng_=float(hi[ax]-lo[ax])+1
        out_lo=float(lo[ax])-mn; out_hi=mx-float(hi[ax])   # should be >= -tol (containment) and small (tightness, up to sampling 1/400)
        if out_lo < -1e-3*rng_ or out_hi < -1e-3*rng_:
            bad+=1; print('NOT CONTAINED',b.hex(),ax,mn,mx,float(lo[ax]),float(hi[ax]))
        worst_slack=max(worst_slack,out_lo/rng_,out_hi/rng_)
print('axes',tot,'bad',bad,'worst relative slack (tightness, incl. sampling)',worst_slack)
