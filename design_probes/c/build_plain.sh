set -e
SRC=/repo/src
OBJ=/tmp/probe/c2/obj; mkdir -p $OBJ
FLAGS="-O2 -g -DNDEBUG -fno-omit-frame-pointer -I/repo/include"
for f in buffer crc32 error parsing utils formats/binary lights/colors rth_plan/rth_plan trajectory/builder trajectory/poly trajectory/trajectory trajectory/stats yaw_control/yaw_control; do
  gcc -std=gnu99 $FLAGS -c $SRC/$f.c -o $OBJ/$(basename $f).o &
done
for f in error_handler executor loop_stack program transition trigger; do
  g++ -std=c++11 $FLAGS -c $SRC/lights/$f.cpp -o $OBJ/$f.o &
done
wait
ar rcs $OBJ/libsb.a $OBJ/*.o
