#define _GNU_SOURCE
#include <skybrush/formats/binary.h>
#include <stdio.h>
#include <stdlib.h>
#include <string.h>
#include <unistd.h>
#include <sys/mman.h>
/* usage: ch <hexfile> <m|f> ; prints init rc, version, then iteration, then find_first for types 0..7 */
int main(int argc,char**argv){
  const char* hx = argv[1]; size_t n = strlen(hx)/2; uint8_t* p = malloc(n?n:1);
  for (size_t i=0;i<n;i++){ unsigned v; sscanf(hx+2*i,"%2x",&v); p[i]=v; }
  sb_binary_file_parser_t ps; int rc;
  if (argv[2][0]=='m') rc = sb_binary_file_parser_init_from_buffer(&ps,p,n);
  else { int fd = memfd_create("x",0); if (write(fd,p,n)!=(ssize_t)n) return 9; lseek(fd,0,SEEK_SET); rc = sb_binary_file_parser_init_from_file(&ps,fd); }
  printf("init %d\n", rc); if (rc) return 0;
  printf("ver %d\n", sb_binary_file_parser_get_version(&ps));
  for (int k=0;k<50;k++){ sb_binary_block_t b = sb_binary_file_get_current_block(&ps);
    uint8_t* body = calloc(1, b.length?b.length:1); int r = sb_binary_file_read_current_block(&ps, body);
    printf("blk %d %u %ld read %d ", b.type, b.length, b.start_of_body, r);
    if (!r) for (unsigned i=0;i<b.length && i<8;i++) printf("%02x", body[i]);
    printf("\n"); free(body);
    int s = sb_binary_file_seek_to_next_block(&ps); printf("next %d\n", s); if (s) break; }
  for (int t=0;t<8;t++){ int r = sb_binary_file_find_first_block_by_type(&ps,t); sb_binary_block_t b = sb_binary_file_get_current_block(&ps); printf("find %d %d", t, r); if(!r) printf(" %d %u %ld", b.type,b.length,b.start_of_body); printf("\n"); }
  return 0; }
