import random, subprocess, sys, struct, glob
EPARSE,EREAD,ENOENT,ECORR=8,5,18,19
tab=[]
for i in range(256):
    c=i
    for _ in range(8): c=(c>>1)^(0xEDB88320 if c&1 else 0)
    tab.append(c)
def crc(b,c=0):
    for x in b: c=tab[(c^x)&0xff]^(c>>8)
    return c
def model(b,route):
    out=[]
    if len(b)<4 or b[:4]!=b'skyb': return ['init %d'%EPARSE]
    if len(b)<5: return ['init %d'%EPARSE]
    ver=b[4]
    if ver not in (1,2): return ['init %d'%EPARSE]
    off=5; feat=0
    if ver==2:
        if len(b)<6: return ['init %d'%EPARSE]
        feat=b[5]; off=6
    if feat&1:
        if len(b)<off+4: return ['init %d'%EPARSE]
        stored=struct.unpack('<I',b[off:off+4])[0]; off+=4
        z=bytearray(b); z[6:10]=b'\0\0\0\0'
        if crc(z)!=stored: return ['init %d'%ECORR]
    first=off
    def hdr(o):
        # returns ('err',code) | (type,len,body)
        if o>=len(b): return (0,0,0)
        if o+3>len(b): return ('err',EREAD)
        return (b[o], b[o+1]|b[o+2]<<8, o+3)
    cur=hdr(first)
    if cur[0]=='err': return ['init %d'%cur[1]]
    out.append('init 0'); out.append('ver %d'%ver)
    def readcur(cur):
        if cur[0]==0: return EREAD,b''
        if route=='m' and cur[2]>len(b): return EREAD,b''
        body=b[cur[2]:cur[2]+cur[1]]
        if len(body)!=cur[1]: return EREAD,b''
        return 0,body
    def nxt(cur):
        if cur[0]==0: return EREAD,cur
        o=cur[2]+cur[1]
        if route=='m' and o>len(b): return EREAD,cur
        h=hdr(o)
        if h[0]=='err': return EREAD,(cur[0],)+('?',)  # partial state; not printed after error
        return 0,h
    c=cur
    for k in range(50):
        r,body=readcur(c)
        out.append('blk %d %d %d read %d %s'%(c[0],c[1],c[2],r,body[:8].hex() if r==0 else ''))
        s,c2=nxt(c); out.append('next %d'%s)
        if s: break
        c=c2
    for t in range(8):
        c=hdr(first)  # rewind: cannot fail (checked at init)
        while True:
            if c[0]==0: out.append('find %d %d'%(t,ENOENT)); break
            if c[0]==t: out.append('find %d 0 %d %d %d'%(t,c[0],c[1],c[2])); break
            s,c2=nxt(c)
            if s: out.append('find %d %d'%(t,s)); break
            c=c2
    return out
def genfile(rng):
    ver=rng.choice([1,2]); b=bytearray(b'skyb'+bytes([ver]))
    feat=0
    if ver==2:
        feat=rng.choice([0,1,1,2,3]); b.append(feat)
    if feat&1: b+=b'\0\0\0\0'
    for _ in range(rng.randrange(0,5)):
        t=rng.choice([0,1,2,3,4,5,7,255,rng.randrange(256)]); L=rng.choice([0,1,2,3,5,250,300,rng.randrange(0,40)])
        b+=bytes([t])+struct.pack('<H',L)+bytes(rng.randrange(256) for _ in range(L))
    if feat&1:
        z=bytearray(b); z[6:10]=b'\0\0\0\0'; b[6:10]=struct.pack('<I',crc(z))
        if rng.random()<0.15: b[rng.randrange(6,len(b))]^=1<<rng.randrange(8)
    return bytes(b)
rng=random.Random(int(sys.argv[1])); tot=0; bad=0
files=[open(f,'rb').read() for f in glob.glob('/repo/test/fixtures/*.skyb')][:4]+[genfile(rng) for _ in range(int(sys.argv[2]))]
for f in files:
    cuts=set([len(f)]+[rng.randrange(0,len(f)+1) for _ in range(12)]+list(range(0,min(len(f),14))))
    for cut in cuts:
        g=f[:cut]
        for route in 'mf':
            if len(g)==0 and route=='m': pass
            out=subprocess.run(['./ch',g.hex(),route],capture_output=True,text=True).stdout.strip().split('\n')
            exp=model(g,route); tot+=1
            out=[l.rstrip() for l in out]; exp=[l.rstrip() for l in exp]
            if out!=exp:
                bad+=1
                if bad<5:
                    print('MISMATCH',route,g.hex()[:120],len(g))
                    for a,bb in zip(out,exp):
                        if a!=bb: print('  got',a,'| exp',bb); break
                    if len(out)!=len(exp): print('  len',len(out),len(exp))
print('cases',tot,'bad',bad)
