import random, struct, subprocess, sys
from fractions import Fraction as F
from math import comb
def f32(x): return struct.unpack('<f', struct.pack('<f', x))[0]
def bits(x): return struct.unpack('<I', struct.pack('<f', x))[0]
def frombits(u): return struct.unpack('<f', struct.pack('<I', u))[0]
def i16(v): return struct.pack('<h', v)
def bez(P,u):
    n=len(P)-1
    return sum(comb(n,i)*(1-u)**(n-i)*u**i*P[i] for i in range(n+1))
rng=random.Random(int(sys.argv[1])); worst=0; n=0; inf=0; early=0; illc=0
for it in range(int(sys.argv[2])):
    z0=rng.randrange(0,100); segs=[]; z=z0
    for _ in range(rng.randrange(1,4)):
        dur=rng.choice([1000,2500,5000,10000])
        pts=[z+rng.randrange(-200,1500) for _ in range(3)]
        segs.append((dur,pts)); z=pts[-1]
    b=bytes([1])+i16(0)+i16(0)+i16(z0)+i16(0)
    for dur,pts in segs: b+=bytes([0x20])+struct.pack('<H',dur)+b''.join(i16(v) for v in pts)
    # power-basis conditioning check per property: cubic coeff >= 5% of max(|quad|,|lin|)
    ok=True; prev=z0
    for dur,pts in segs:
        P=[prev]+pts; c1=3*(P[1]-P[0]); c2=3*(P[0]-2*P[1]+P[2]); c3=P[3]-3*P[2]+3*P[1]-P[0]
        if abs(c3)<0.05*max(abs(c2),abs(c1)): ok=False
        prev=pts[-1]
    if not ok: illc+=1; continue
    h=float(rng.choice([1,5,50,200,500,1000]))
    out=subprocess.run(['./sh',b.hex(),'T','%08x'%bits(h),'%08x'%bits(1.0),'%08x'%bits(float('inf'))],capture_output=True,text=True).stdout.split()
    E=frombits(int(out[5],16))  # earliest_above_sec
    target=z0+h
    # exact first crossing by dense sampling
    def zexact(t):
        S=F(0); prev=z0
        for dur,pts in segs:
            d=F(dur,1000)
            if t<=S+d: return bez([F(prev)]+[F(p) for p in pts],(t-S)/d)
            S+=d; prev=pts[-1]
        return F(prev)
    total=sum(s[0] for s in segs)
    reached=None
    N=600
    for k in range(N+1):
        t=F(total,1000)*k/N
        if zexact(t)>=target: reached=t; break
    if E==float('inf'):
        inf+=1
        if reached is not None and zexact(reached)>target+1: print('MISSED crossing',b.hex(),h,float(reached))
        continue
    n+=1
    err=abs(float(zexact(F(E))-target)); worst=max(worst,err)
    if err>0.5: print('ALT ERR',b.hex(),h,E,err)
    if reached is not None and reached < F(E)-F(total,1000)/N*2 and zexact(reached)>target+1: early+=1; print('EARLIER crossing exists',b.hex(),h,'E',E,'earlier',float(reached))
print('checked',n,'inf',inf,'illcond skipped',illc,'worst |z(E)-target|',worst,'early',early)
