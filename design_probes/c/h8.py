import random, subprocess, sys, struct
sys.argv=['x','5','0']
src=open('tref.py').read().split("rng=random.Random(int(sys.argv[1])); worst")[0]
exec(src)
rng=random.Random(11); bad=0; tot=0; bnd=0
for it in range(300):
    T=gen_traj(rng); b=encode(T); scale,start,segs=T
    if not segs: continue
    total=sum(s[0] for s in segs)
    times=[0.0,-1.0,float('inf'),f32(total/1000.0)]
    S=0; bset=set()
    for dur,_,_ in segs:
        times.append(f32((S+rng.random()*dur)/1000.0)); S+=dur; times.append(f32(S/1000.0)); bset.add(f32(S/1000.0))
    seq=[rng.choice(times) for _ in range(25)]
    hist=subprocess.run(['./th',b.hex()]+['%08x'%bits(t) for t in seq],capture_output=True,text=True).stdout.strip().split('\n')[1:]
    fresh={}
    for t in set(seq):
        fresh[t]=subprocess.run(['./th',b.hex(),'%08x'%bits(t)],capture_output=True,text=True).stdout.strip().split('\n')[1]
    for t,l in zip(seq,hist):
        tot+=1
        if l!=fresh[t]:
            if t in bset: bnd+=1
            else:
                bad+=1
                if bad<5: print('DIFF',b.hex(),t,'\n hist ',l,'\n fresh',fresh[t])
print('tot',tot,'bad',bad,'boundary-latitude',bnd)
