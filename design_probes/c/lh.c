#include <skybrush/lights.h>
#include <stdio.h>
#include <stdlib.h>
#include <string.h>
#include <unistd.h>
/* usage: lh <hexprog> <mode f|h> t1 t2 ... ; prints r g b pyro ended next per t */
int main(int argc,char**argv){
  const char* hx = argv[1]; size_t n = strlen(hx)/2; uint8_t* p = malloc(n?n:1);
  for (size_t i=0;i<n;i++){ unsigned v; sscanf(hx+2*i,"%2x",&v); p[i]=v; }
  sb_light_program_t lp; sb_light_program_init_from_buffer(&lp,p,n);
  int fresh = argv[2][0]=='f';
  sb_light_player_t pl; if(!fresh) sb_light_player_init(&pl,&lp);
  alarm(5);
  for (int i=3;i<argc;i++){ unsigned long t = strtoul(argv[i],0,10), nx=0;
    if (fresh) sb_light_player_init(&pl,&lp);
    int ended = sb_light_player_seek(&pl,t,&nx);
    sb_rgb_color_t c = sb_light_player_get_color_at(&pl,t);  /* repeated query at same t: latitude! */
    (void)c;
    if (fresh) { sb_light_player_destroy(&pl); sb_light_player_init(&pl,&lp); ended = sb_light_player_seek(&pl,t,&nx); }
    /* read state without re-seeking: use seek result only: need color; re-init to avoid double-step */
    if (fresh) { /* get color via a second fresh player */ sb_light_player_t q; sb_light_player_init(&q,&lp); c = sb_light_player_get_color_at(&q,t); uint8_t py; sb_light_player_destroy(&q); sb_light_player_init(&q,&lp); py = sb_light_player_get_pyro_channels_at(&q,t); sb_light_player_destroy(&q);
      printf("%lu %d %d %d %d %d %lu\n", t, c.red,c.green,c.blue, py, ended, nx); sb_light_player_destroy(&pl); }
  }
  return 0; }
