#include <skybrush/lights.h>
#include <stdio.h>
#include <stdlib.h>
#include <string.h>
#include <unistd.h>
/* usage: lh2 <hexprog> <c|p> t1 t2 ... ; one player, history; prints value per t */
int main(int argc,char**argv){
  const char* hx = argv[1]; size_t n = strlen(hx)/2; uint8_t* p = malloc(n?n:1);
  for (size_t i=0;i<n;i++){ unsigned v; sscanf(hx+2*i,"%2x",&v); p[i]=v; }
  sb_light_program_t lp; sb_light_program_init_from_buffer(&lp,p,n);
  sb_light_player_t pl; sb_light_player_init(&pl,&lp);
  alarm(5);
  for (int i=3;i<argc;i++){ unsigned long t = strtoul(argv[i],0,10);
    if (argv[2][0]=='c'){ sb_rgb_color_t c = sb_light_player_get_color_at(&pl,t); printf("%lu %d %d %d\n", t, c.red,c.green,c.blue);} 
    else printf("%lu %d\n", t, sb_light_player_get_pyro_channels_at(&pl,t)); }
  return 0; }
