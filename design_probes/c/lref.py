import random, subprocess, sys
INT_MAX = 2**31-1
CAP = int(sys.argv[2]) if len(sys.argv)>2 else 5   # loop depth the code effectively allows today
STALE = True  # replicate D15 (stale start colour after zero-duration fade)?
class S: pass
def run(prog, t, maxsteps=20000):
    s=S(); s.pc=0; s.loops=[]; s.origin=0; s.cumul=0; s.w=0; s.color=(0,0,0); s.start=(0,0,0); s.fade=None; s.pyro=0; s.ended=(len(prog)==0)
    def nb():
        if s.pc < len(prog):
            b=prog[s.pc]; s.pc+=1; return b
        return 0
    def varint():
        r=0; sh=0
        while True:
            b=nb(); r |= (b&0x7f)<<sh; sh+=7
            if not b&0x80: return r & (2**64-1)
    def delay():
        d=varint()*20; s.cumul+=d; s.w=max(s.w, s.origin+s.cumul)
    def setc(c): s.color=c; s.start=c
    def fade(c):
        now=s.w; delay(); dur=s.w-now
        if dur==0:
            s.color=c; s.fade=None
            if not STALE: s.start=c
        else:
            s.fade=(now,dur,s.start,c); s.color=s.start
    def exec1():
        # complete fade
        if s.fade and s.w >= s.fade[0]+s.fade[1]:
            s.color=s.fade[3]; s.start=s.fade[3]; s.fade=None
        op=nb()
        if op==0: s.ended=True
        elif op==1: pass
        elif op==2: delay()
        elif op==3:
            d=varint(); s.w=max(s.w, s.origin+d*20); s.cumul=s.w-s.origin
        elif op==4:
            c=(nb(),nb(),nb()); delay(); setc(c)
        elif op==5:
            g=nb(); delay(); setc((g,g,g))
        elif op==6: delay(); setc((0,0,0))
        elif op==7: delay(); setc((255,255,255))
        elif op==8: c=(nb(),nb(),nb()); fade(c)
        elif op==9: g=nb(); fade((g,g,g))
        elif op==10: fade((0,0,0))
        elif op==11: fade((255,255,255))
        elif op==12:
            n=nb()
            if len(s.loops)<CAP: s.loops.append([s.pc,n])
        elif op==13:
            if s.loops:
                top=s.loops[-1]
                if top[1]==0: s.pc=top[0]
                elif top[1]==1: s.loops.pop()
                else: top[1]-=1; s.pc=top[0]
        elif op==14: s.origin=s.w; s.cumul=0
        elif op==16: nb();nb();nb(); delay(); setc((0,0,0))
        elif op==17: nb();nb();nb(); fade((0,0,0))
        elif op==18:
            a=varint()
            if a<INT_MAX: s.pc=a; s.loops=[]
            else: s.ended=True
        elif op==19:
            p=nb()
            if p&0x30:
                a=varint()
                if a>=INT_MAX: s.ended=True
        elif op==20:
            m=nb()
            if m&128: s.pyro |= (m&127)
            else: s.pyro &= ~(m|128)&0xff
        elif op==21: s.pyro=nb()&127
        else: s.ended=True
    steps=0
    ended_before=False
    while not s.ended and s.w < t:
        exec1(); steps+=1
        if steps>maxsteps: return None
    ended_before = s.ended
    if not s.ended and s.w==t:
        exec1()
    # colour
    if s.fade:
        t0,dur,c0,c1=s.fade
        if t>=t0+dur: col=c1
        else:
            col=tuple(('f',c0[i],c1[i],t-t0,dur) for i in range(3))
    else: col=s.color
    nxt = t+60000 if ended_before else s.w
    return col, s.pyro&127, int(s.ended), nxt
def gen(rng):
    n=rng.randint(0,14); out=[]
    for _ in range(n):
        k=rng.random()
        d=rng.choice([0,0,1,1,2,3,5,50])
        if k<0.12: out+= [4,rng.randrange(256),rng.randrange(256),rng.randrange(256),d]
        elif k<0.2: out+=[5,rng.randrange(256),d]
        elif k<0.25: out+=[rng.choice([6,7]),d]
        elif k<0.4: out+=[8,rng.randrange(256),rng.randrange(256),rng.randrange(256),d]
        elif k<0.45: out+=[9,rng.randrange(256),d]
        elif k<0.5: out+=[rng.choice([10,11]),d]
        elif k<0.6: out+=[2,d]
        elif k<0.65: out+=[3,rng.choice([0,1,5,20,100])]
        elif k<0.72: out+=[12,rng.choice([0,1,2,3])]
        elif k<0.8: out+=[13]
        elif k<0.83: out+=[14]
        elif k<0.86: out+=[1]
        elif k<0.9: out+=[20,rng.randrange(256)]
        elif k<0.93: out+=[21,rng.randrange(256)]
        elif k<0.95: out+=[18,rng.randrange(0,30)]
        elif k<0.96: out+=[19,rng.randrange(256),rng.randrange(0,128)]
        elif k<0.97: out+=[rng.choice([16,17]),1,2,3,d]
        elif k<0.98: out+=[0]
        else: out+=[rng.randrange(22,256)]
    return bytes(out)
rng=random.Random(int(sys.argv[1]))
bad=0; tot=0; skipped=0
for it in range(400):
    prog=gen(rng)
    ts=sorted(set([0,20,40,60,100]+[rng.randrange(0,3000) for _ in range(6)]+[rng.randrange(0,30)*20 for _ in range(6)]))
    exp=[run(prog,t) for t in ts]
    if any(e is None for e in exp): skipped+=1; continue
    try:
        out=subprocess.run(['./lh',prog.hex() or '', 'f']+[str(t) for t in ts],capture_output=True,text=True,timeout=10,env={'ASAN_OPTIONS':'detect_leaks=0'})
    except subprocess.TimeoutExpired:
        print('TIMEOUT',prog.hex()); bad+=1; continue
    lines=out.stdout.strip().split('\n')
    if out.returncode!=0 or len(lines)!=len(ts):
        print('CRASH',prog.hex(),out.stderr[:300]); bad+=1; continue
    for t,e,l in zip(ts,exp,lines):
        f=list(map(int,l.split())); tot+=1
        col,py,en,nx=e
        ok = (py==f[4] and en==f[5] and nx==f[6])
        for i in range(3):
            c=col[i]
            if isinstance(c,tuple):
                _,a,b,num,den=c
                exact=a+(b-a)*num/den
                if abs(exact-f[1+i])>=1.0: ok=False
            elif c!=f[1+i]: ok=False
        if not ok:
            bad+=1; print('MISMATCH prog',prog.hex(),'t',t,'exp',e,'got',f[1:]); break
print('total',tot,'bad',bad,'skipped(no progress)',skipped)
