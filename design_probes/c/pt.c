#include <skybrush/poly.h>
#include <stdio.h>
int main(){ sb_poly_t p; float xs[4]={49,1509,70,1502}; sb_poly_make_bezier(&p,1,xs,4);
 printf("coeffs %g %g %g %g\n",p.coeffs[0],p.coeffs[1],p.coeffs[2],p.coeffs[3]);
 float r=-1; int t = sb_poly_touches(&p,50,&r); printf("touches=%d r=%g\n",t,r);
 float roots[3]; uint8_t n; sb_poly_solve(&p,50,roots,&n); printf("n=%d",n); for(int i=0;i<n;i++) printf(" %.9g",roots[i]); printf("\n");
 printf("p(0)=%g p(0.001)=%g p(1)=%g\n", sb_poly_eval(&p,0), sb_poly_eval(&p,0.001f), sb_poly_eval(&p,1)); return 0; }
