#include <skybrush/rth_plan.h>
#include <stdio.h>
#include <stdlib.h>
#include <string.h>
static float f_of(const char* s){ uint32_t u = strtoul(s,0,16); float f; memcpy(&f,&u,4); return f; }
static uint32_t b_of(float f){ uint32_t u; memcpy(&u,&f,4); return u; }
int main(int argc,char**argv){
  const char* hx = argv[1]; size_t n = strlen(hx)/2; uint8_t* p = malloc(n?n:1);
  for (size_t i=0;i<n;i++){ unsigned v; sscanf(hx+2*i,"%2x",&v); p[i]=v; }
  sb_rth_plan_t pl; sb_rth_plan_init_from_buffer(&pl,p,n);
  printf("N %zu %zu %d\n", sb_rth_plan_get_num_points(&pl), sb_rth_plan_get_num_entries(&pl), sb_rth_plan_is_empty(&pl));
  for (int i=2;i<argc;i++){ sb_rth_plan_entry_t e; int rc = sb_rth_plan_evaluate_at(&pl,f_of(argv[i]),&e);
    if (rc) printf("E %d\n", rc); else printf("E 0 %08x %d %08x %08x %08x %08x %08x %08x %08x %08x\n", b_of(e.time_sec), e.action, b_of(e.duration_sec), b_of(e.target.x), b_of(e.target.y), b_of(e.target_altitude), b_of(e.pre_delay_sec), b_of(e.post_delay_sec), b_of(e.pre_neck_mm), b_of(e.pre_neck_duration_sec)); }
  return 0; }
