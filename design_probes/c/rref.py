import random, struct, subprocess, sys
def f32(x): return struct.unpack('<f', struct.pack('<f', x))[0]
def bits(x): return struct.unpack('<I', struct.pack('<f', x))[0]
def i16(v): return struct.pack('<h', v)
def varu(v):
    out=b''
    while True:
        b=v&0x7f; v>>=7
        if v: out+=bytes([b|0x80])
        else: return out+bytes([b])
def varu_pad(v,rng):
    e=varu(v)
    if rng.random()<0.1 and len(e)<5:  # non-canonical padding
        e=e[:-1]+bytes([e[-1]|0x80,0])
    return e
rng=random.Random(int(sys.argv[1]))
EOVER,EINVAL=20,2
def gen():
    scale=rng.choice([1,1,2,10,127])
    npts=rng.randrange(0,4); pts=[(rng.randrange(-32768,32768),rng.randrange(-32768,32768)) for _ in range(npts)]
    ents=[]
    for _ in range(rng.randrange(0,7)):
        e=dict(dt=rng.choice([0,0,1,5,15,127,128,300,20000,2**24,2**31,2**32-1] if rng.random()<0.15 else [0,1,5,10,15,30,127,128,200]),
               act=rng.choice([0,0,1,2,2,3,3]), pre=rng.random()<0.3, post=rng.random()<0.3,
               pidx=rng.randrange(0,max(1,npts+ (1 if rng.random()<0.1 else 0))), alt=rng.randrange(-32768,32768), neck=rng.randrange(-100,100), neckdur=rng.choice([0,1,5,300]),
               dur=rng.choice([0,1,30,50,127,128,16777216,16777217] if rng.random()<0.1 else [0,1,20,30,50,200]), predelay=rng.choice([1,2,5,200]), postdelay=rng.choice([1,3,129]))
        ents.append(e)
    return scale,pts,ents
def encode(P):
    scale,pts,ents=P
    b=bytes([scale])+struct.pack('<H',len(pts))+b''.join(i16(x)+i16(y) for x,y in pts)+struct.pack('<H',len(ents))
    act=1
    for e in ents:
        flags=(e['act']<<4)|(2 if e['pre'] else 0)|(1 if e['post'] else 0)
        b+=bytes([flags])+varu_pad(e['dt'],rng)
        if e['act']!=0:
            act=e['act']
            if act in (2,3): b+=varu(e['pidx'])
            if act==3: b+=i16(e['alt'])+i16(e['neck'])+varu(e['neckdur'])
        if act in (2,3): b+=varu(e['dur'])
        if e['pre']: b+=varu(e['predelay'])
        if e['post']: b+=varu(e['postdelay'])
    return b
def spec(P,t):
    scale,pts,ents=P
    land=dict(rc=0,time=t,act=1,dur=0,tx=0,ty=0,alt=0,pre=0,post=0,neck=0,neckdur=0)
    if t<0 or not ents: return land
    cum=0; act=1; pidx=0; alt=0; neck=0; neckdur=0; res=None
    for e in ents:
        if cum+e['dt']>=2**32: return dict(rc=EOVER)
        cum+=e['dt']
        if e['act']!=0:
            act=e['act']
            pidx=e['pidx'] if act in (2,3) else 0
            if act==3:
                alt=e['alt']*scale; neck=e['neck']*scale
                if e['neckdur']>2**24: return dict(rc=EOVER)
                neckdur=e['neckdur']
            else: alt=0;neck=0;neckdur=0
        dur=0
        if act in (2,3):
            if e['dur']>2**24: return dict(rc=EOVER)
            dur=e['dur']
        pre=e['predelay'] if e['pre'] else 0; post=e['postdelay'] if e['post'] else 0
        res=dict(rc=0,time=f32(float(cum)),act=act,dur=dur,alt=alt,pre=pre,post=post,neck=neck,neckdur=neckdur,pidx=pidx)
        if f32(float(cum))>=t: break
    if res['act'] in (2,3):
        if res['pidx']>=len(pts): return dict(rc=EINVAL)
        res['tx']=pts[res['pidx']][0]*scale; res['ty']=pts[res['pidx']][1]*scale
    else: res['tx']=res['ty']=0
    return res
bad=0;tot=0
for it in range(int(sys.argv[2])):
    P=gen(); b=encode(P)
    cums=[]; c=0
    for e in P[2]: c+=e['dt']; cums.append(c)
    ts=[-1.0,0.0,0.5,1e9,float('inf')]+[f32(float(x)) for x in cums]+[f32(x+0.5) for x in cums[:3]]
    out=subprocess.run(['./rh',b.hex()]+['%08x'%bits(t) for t in ts],capture_output=True,text=True).stdout.strip().split('\n')
    N=out[0].split(); assert int(N[1])==len(P[1]) and int(N[2])==len(P[2])
    for t,l in zip(ts,out[1:]):
        tot+=1; w=l.split(); s=spec(P,t)
        if s['rc']!=0: exp='E %d'%s['rc']
        else: exp='E 0 %08x %d %08x %08x %08x %08x %08x %08x %08x %08x'%(bits(s['time']),s['act'],bits(float(s['dur'])),bits(float(s['tx'])),bits(float(s['ty'])),bits(float(s['alt'])),bits(float(s['pre'])),bits(float(s['post'])),bits(float(s['neck'])),bits(float(s['neckdur'])))
        if exp!=l.strip():
            bad+=1
            if bad<6: print('MISMATCH',b.hex(),t,'\n got',l,'\n exp',exp)
print('tot',tot,'bad',bad)
