#include <skybrush/trajectory.h>
#include <stdio.h>
#include <stdlib.h>
#include <string.h>
#include <math.h>
static float f_of(const char* s){ uint32_t u = strtoul(s,0,16); float f; memcpy(&f,&u,4); return f; }
static uint32_t b_of(float f){ uint32_t u; memcpy(&u,&f,4); return u; }
/* usage: sh <hexblock> T h v a | L descent thr */
int main(int argc,char**argv){
  const char* hx = argv[1]; size_t n = strlen(hx)/2; uint8_t* p = malloc(n?n:1);
  for (size_t i=0;i<n;i++){ unsigned v; sscanf(hx+2*i,"%2x",&v); p[i]=v; }
  sb_trajectory_t t; sb_trajectory_init_from_buffer(&t,p,n);
  int i=2;
  while (i<argc){
    if (argv[i][0]=='T'){ float r = sb_trajectory_propose_takeoff_time_sec(&t,f_of(argv[i+1]),f_of(argv[i+2]),f_of(argv[i+3]));
      sb_trajectory_stats_calculator_t c; sb_trajectory_stats_calculator_init(&c,1); c.min_ascent=f_of(argv[i+1]); c.takeoff_speed=f_of(argv[i+2]); c.acceleration=f_of(argv[i+3]); sb_trajectory_stats_t st; int rc=sb_trajectory_stats_calculator_run(&c,&t,&st);
      printf("T %08x stats rc=%d %08x %08x\n", b_of(r), rc, rc?0:b_of(st.takeoff_time_sec), rc?0:b_of(st.earliest_above_sec)); i+=4; }
    else { float r = sb_trajectory_propose_landing_time_sec(&t,f_of(argv[i+1]),f_of(argv[i+2]));
      sb_trajectory_stats_calculator_t c; sb_trajectory_stats_calculator_init(&c,1); c.preferred_descent=f_of(argv[i+1]); c.verticality_threshold=f_of(argv[i+2]); sb_trajectory_stats_t st; int rc=sb_trajectory_stats_calculator_run(&c,&t,&st);
      printf("L %08x stats rc=%d %08x\n", b_of(r), rc, rc?0:b_of(st.landing_time_sec)); i+=3; }
  }
  return 0; }
