import random, struct, subprocess, sys
from fractions import Fraction as F
sys.path.insert(0,'.')
def f32(x): return struct.unpack('<f', struct.pack('<f', x))[0]
def bits(x): return struct.unpack('<I', struct.pack('<f', x))[0]
def frombits(u): return struct.unpack('<f', struct.pack('<I', u))[0]
def i16(v): return struct.pack('<h', v)
rng=random.Random(int(sys.argv[1]))
def gen():
    # segments: list of (dur, dx, dy, z_end) linear/constant per axis; ends with vertical run
    z=rng.randrange(0,50); x=0;y=0
    start=(x,y,z); segs=[]
    for _ in range(rng.randrange(0,5)):
        dur=rng.choice([500,1000,2000,3000])
        nx=x+rng.choice([0,0,1,100,-50]); ny=y+rng.choice([0,0,2,30]); nz=z+rng.choice([0,0,10,100,-5,-20,50])
        segs.append((dur,nx,ny,nz)); x,y,z=nx,ny,nz
    for _ in range(rng.randrange(0,4)):
        dur=rng.choice([500,1000,2000])
        nx=x+rng.choice([0,0,0,1,-1,3]); ny=y+rng.choice([0,0,1]); nz=z-rng.choice([0,5,10,40])
        segs.append((dur,nx,ny,nz)); x,y,z=nx,ny,nz
    return start,segs
def encode(start,segs):
    b=bytes([1])+i16(start[0])+i16(start[1])+i16(start[2])+i16(0)
    px,py,pz=start
    for dur,nx,ny,nz in segs:
        hdr=0; body=b''
        # always encode linear for changed, constant for same (like builder), sometimes linear with same value
        for k,(p,nv) in enumerate(((px,nx),(py,ny),(pz,nz))):
            if p!=nv or rng.random()<0.2: hdr|=1<<(2*k); body+=i16(nv)
        b+=bytes([hdr])+struct.pack('<H',dur)+body; px,py,pz=nx,ny,nz
    return b
def landing_spec(start,segs,descent,thr):
    total=F(sum(s[0] for s in segs),1000)
    if descent<=0: return total
    # R: longest suffix of segments each with |dx|<=thr,|dy|<=thr, z_end<=z_start
    pts=[start]+[(s[1],s[2],s[3]) for s in segs]
    k=len(segs)
    while k>0:
        a=pts[k-1]; b=pts[k]
        if abs(a[0]-b[0])<=thr and abs(a[1]-b[1])<=thr and b[2]<=a[2]: k-=1
        else: break
    if k==len(segs): return total
    tstart=F(sum(s[0] for s in segs[:k]),1000)
    drop=pts[k][2]-pts[-1][2]
    if drop<=descent: return tstart
    # instant inside R where remaining descent == descent  -> altitude = z_end + descent; first time reaching it going down
    target=pts[-1][2]+descent
    t=tstart
    for i in range(k,len(segs)):
        a=pts[i][2]; b=pts[i+1][2]; d=F(segs[i][0],1000)
        if b<=target<=a and a!=b:
            return t+(F(a)-target)/(a-b)*d
        if a==b==target: return t   # plateau exactly at target: first instant
        t+=d
    return None
def takeoff_spec(start,segs,h,v,a):
    target=start[2]+h
    pts=[start]+[(s[1],s[2],s[3]) for s in segs]
    t=F(0); E=None
    for i,s in enumerate(segs):
        z0=pts[i][2]; z1=pts[i+1][2]; d=F(s[0],1000)
        lo,hi=min(z0,z1),max(z0,z1)
        if lo<=target<=hi:
            E = t if z0==target else t+(target-z0)/(F(z1)-z0)*d
            break
        t+=d
    if E is None: return None
    if h==0: T=F(0)
    elif a==float('inf'): T=F(h)/F(v)
    else:
        import math
        s1=F(v)*F(v)/F(a)/2
        if F(h)>=2*s1: T=2*F(v)/F(a)+(F(h)-2*s1)/F(v)
        else: T=None; Tf=2*math.sqrt(h/a)
        if T is None: return float(E)-Tf
    return float(E-T)
bad=0;tot=0
for it in range(int(sys.argv[2])):
    start,segs=gen(); b=encode(start,segs)
    args=[]
    qs=[]
    for _ in range(4):
        d=rng.choice([0.0,-1.0,1.0,5.0,7.5,10.0,40.0,1000.0,2.5,f32(1e-3)]); thr=rng.choice([0.0,1.0,2.0,0.5,-1.0])
        qs.append(('L',d,thr)); args+=['L','%08x'%bits(d),'%08x'%bits(thr)]
    for _ in range(3):
        h=rng.choice([0.0,1.0,5.0,10.0,25.0,100.0,500.0]); v=rng.choice([1.0,2.0,10.0]); a=rng.choice([1.0,4.0,float('inf'),100.0])
        qs.append(('T',h,v,a)); args+=['T','%08x'%bits(h),'%08x'%bits(v),'%08x'%bits(a)]
    out=subprocess.run(['./sh',b.hex()]+args,capture_output=True,text=True).stdout.strip().split('\n')
    for q,l in zip(qs,out):
        w=l.split(); got=frombits(int(w[1],16)); tot+=1
        if q[0]=='L':
            exp=landing_spec(start,segs,q[1],max(q[2],0.0))
            st=frombits(int(w[4],16)); strc=w[3]
            ok = exp is not None and abs(got-float(exp))<=1e-3*(1+float(exp))
            if not ok:
                bad+=1
                if bad<8: print('LAND',b.hex(),q,'got',got,'exp',exp and float(exp),'stats',strc,st, 'segs',start,segs)
            elif strc=='rc=0' and abs(st-got)>1e-6 and q[1]>0: print('STATS differs',q,got,st)
        else:
            exp=takeoff_spec(start,segs,q[1],q[2],q[3])
            if exp is None: ok = got==float('inf')
            else: ok = abs(got-exp)<=1e-3*(1+abs(exp))
            if not ok:
                bad+=1
                if bad<8: print('TAKEOFF',b.hex(),q,'got',got,'exp',exp,'segs',start,segs)
print('tot',tot,'bad',bad)
