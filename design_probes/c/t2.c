#include <skybrush/lights.h>
#include <skybrush/utils.h>
#include <stdio.h>
#include <stdlib.h>
#include <string.h>
int main(int argc,char**argv){
  uint8_t f[] = {0x04,0xff,0,0,0,  0x08,0,0xff,0,0,  0x08,0,0,0xff,50, 0};
  uint8_t* p = malloc(sizeof f); memcpy(p,f,sizeof f);
  sb_light_program_t lp; sb_light_program_init_from_buffer(&lp,p,sizeof f);
  sb_light_player_t pl; sb_light_player_init(&pl,&lp);
  for (unsigned long t=0;t<=1200;t+=100){ sb_rgb_color_t c = sb_light_player_get_color_at(&pl, t); printf("t=%lu %d %d %d\n", t, c.red,c.green,c.blue); }
  uint32_t r; int rc = sb_uint32_msec_duration_from_float_seconds(&r, 4294967.5f); printf("rc=%d r=%u\n", rc, r);
  return 0; }
