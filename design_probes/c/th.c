#include <skybrush/trajectory.h>
#include <stdio.h>
#include <stdlib.h>
#include <string.h>
#include <math.h>
static float f_of(const char* s){ uint32_t u = strtoul(s,0,16); float f; memcpy(&f,&u,4); return f; }
static uint32_t b_of(float f){ uint32_t u; memcpy(&u,&f,4); return u; }
int main(int argc,char**argv){
  const char* hx = argv[1]; size_t n = strlen(hx)/2; uint8_t* p = malloc(n?n:1);
  for (size_t i=0;i<n;i++){ unsigned v; sscanf(hx+2*i,"%2x",&v); p[i]=v; }
  sb_trajectory_t t; sb_trajectory_init_from_buffer(&t,p,n);
  printf("D %u %08x\n", sb_trajectory_get_total_duration_msec(&t), b_of(sb_trajectory_get_total_duration_sec(&t)));
  sb_trajectory_player_t pl; sb_trajectory_player_init(&pl,&t);
  for (int i=2;i<argc;i++){ float tt=f_of(argv[i]); sb_vector3_with_yaw_t v,w,a;
    sb_trajectory_player_get_position_at(&pl,tt,&v);
    sb_trajectory_player_get_velocity_at(&pl,tt,&w);
    sb_trajectory_player_get_acceleration_at(&pl,tt,&a);
    printf("P %zu %08x %08x %08x %08x V %08x %08x %08x %08x A %08x %08x %08x %08x\n", pl.current_segment.start, b_of(v.x),b_of(v.y),b_of(v.z),b_of(v.yaw), b_of(w.x),b_of(w.y),b_of(w.z),b_of(w.yaw), b_of(a.x),b_of(a.y),b_of(a.z),b_of(a.yaw)); }
  return 0; }
