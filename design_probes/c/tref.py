import random, struct, subprocess, sys
from fractions import Fraction as F
from math import comb
def f32(x): return struct.unpack('<f', struct.pack('<f', x))[0]
def bits(x): return struct.unpack('<I', struct.pack('<f', x))[0]
def frombits(u): return struct.unpack('<f', struct.pack('<I', u))[0]
def i16(v): return struct.pack('<h', v)
def gen_traj(rng):
    scale = rng.choice([1,1,1,2,10,127,rng.randrange(1,128)])
    big = rng.random()<0.3
    def coord():
        if big: return rng.choice([0,1,-1,32767,-32768,rng.randrange(-32768,32768)])
        return rng.randrange(-300,300)
    def ang(): return rng.choice([0,1,-1,3599,3600,-3600,900,rng.randrange(-32768,32768)])
    start=(coord(),coord(),coord(),ang())
    segs=[]
    for _ in range(rng.randrange(0,7)):
        dur=rng.choice([1,2,10,999,1000,1001,5000,59999,60000,65535,rng.randrange(1,65536)])
        degs=[rng.choice([0,1,1,2,3]) for _ in range(4)]
        pts=[[ (ang() if ax==3 else coord()) for _ in range((1<<d)-1)] for ax,d in enumerate(degs)]
        segs.append((dur,degs,pts))
    return scale,start,segs
def encode(T):
    scale,start,segs=T
    b=bytes([scale])+b''.join(i16(v) for v in start)
    for dur,degs,pts in segs:
        b+=bytes([degs[0]|degs[1]<<2|degs[2]<<4|degs[3]<<6])+struct.pack('<H',dur)
        for ax in range(4):
            for v in pts[ax]: b+=i16(v)
    return b
def yawdec(v): return F(v%3600,10)
def bez(P,u):
    n=len(P)-1
    return sum(comb(n,i)*(1-u)**(n-i)*u**i*P[i] for i in range(n+1))
def dbez(P,u):
    n=len(P)-1
    if n==0: return F(0)
    return n*bez([P[i+1]-P[i] for i in range(n)],u)
def ddbez(P,u):
    n=len(P)-1
    if n<2: return F(0)
    Q=[P[i+1]-P[i] for i in range(n)]
    return n*(n-1)*bez([Q[i+1]-Q[i] for i in range(n-1)],u)
def spec(T,tf):
    """tf: python float (a float32 value). returns (pos[4], vel[4], acc[4], tol info) exact, using float32 comparisons for segment selection like the C code (fresh player)."""
    scale,start,segs=T
    cur=[F(start[0]*scale),F(start[1]*scale),F(start[2]*scale),yawdec(start[3])]
    if tf<=0: tf=0.0
    S=0
    for dur,degs,pts in segs:
        E=S+dur
        e_sec=f32(E/1000.0)  # double then single rounding = correctly rounded
        P=[]
        for ax in range(4):
            if ax<3: P.append([cur[ax]]+[F(v*scale) for v in pts[ax]])
            else: P.append([cur[ax]]+[yawdec(v) for v in pts[ax]])
        if not (e_sec < tf):
            # this segment
            s_sec=f32(S/1000.0); d_sec=f32(dur/1000.0)
            if tf==float('inf'): u=F(1); uf=F(1)
            else:
                u=(F(tf)-F(S,1000))/F(dur,1000)   # ideal
                uf=F(f32((f32(tf-s_sec))/d_sec))  # what C computes (float)
            d=F(dur,1000)
            return ([bez(P[a],u) for a in range(4)],[dbez(P[a],u)/d for a in range(4)],[ddbez(P[a],u)/d/d for a in range(4)],P,u,uf,d)
        cur=[P[a][-1] for a in range(4)]
        S=E
    return (cur,[F(0)]*4,[F(0)]*4,None,None,None,None)
EPS=F(1,2**24)
def tol_pos(P,u,uf,d):
    n=len(P)-1
    M=max(abs(p) for p in P)
    if n==0: return M*EPS*2
    dP=max(abs(P[i+1]-P[i]) for i in range(n))
    du=abs(uf-u)+4*EPS*(abs(u)+1)
    conv=sum(comb(n,j)*2**j for j in range(n+1))*M if n>=2 else (abs(P[0])+abs(P[1]-P[0]))
    return n*dP*du + (2*n+6)*EPS*conv*max(1,abs(u))**n + F(1,10**30)
rng=random.Random(int(sys.argv[1])); worst=0; bad=0; tot=0
for it in range(int(sys.argv[2])):
    T=gen_traj(rng); b=encode(T); scale,start,segs=T
    total=sum(s[0] for s in segs)
    times=[0.0,-1.0,float('inf'),float('-inf'),f32(total/1000.0),f32(total/1000.0+1)]
    S=0
    for dur,_,_ in segs:
        for k in range(3): times.append(f32((S+rng.random()*dur)/1000.0))
        S+=dur
    rng.shuffle(times)
    out=subprocess.run(['./th',b.hex()]+['%08x'%bits(t) for t in times],capture_output=True,text=True).stdout.strip().split('\n')
    D=out[0].split(); assert int(D[1])==total, (D,total)
    assert frombits(int(D[2],16))==f32(total/1000.0)
    # fresh-player spec needs fresh player: the harness uses one player with history; C08 says same except boundary. accept.
    for t,l in zip(times,out[1:]):
        w=l.split(); pos=[frombits(int(x,16)) for x in w[2:6]]
        sp,sv,sa,P,u,uf,d=spec(T,t)
        for a in range(4):
            tot+=1
            tol = tol_pos(P[a],u,uf,d) if P else abs(sp[a])*EPS*2
            err=abs(F(pos[a])-sp[a])
            r = float(err/tol) if tol>0 else (0 if err==0 else 1e9)
            worst=max(worst,r)
            if r>1:
                bad+=1
                if bad<6: print('EXCEED',b.hex(),'t',t,'axis',a,'got',pos[a],'exp',float(sp[a]),'err',float(err),'tol',float(tol),'n',len(P[a])-1 if P else None,'u',float(u) if u is not None else None)
print('queries',tot,'bad',bad,'worst err/tol',worst)
