open F32
let rec z_of_int n = if n = 0 then Z0 else if n > 0 then Zpos (pos_of_int n) else Zneg (pos_of_int (-n))
and pos_of_int n = if n = 1 then XH else if n land 1 = 0 then XO (pos_of_int (n lsr 1)) else XI (pos_of_int (n lsr 1))
let rec int_of_pos = function XH -> 1 | XO p -> 2 * int_of_pos p | XI p -> 2 * int_of_pos p + 1
let int_of_z = function Z0 -> 0 | Zpos p -> int_of_pos p | Zneg p -> - (int_of_pos p)
let () =
  let x = fdiv (of_Z (z_of_int 12345)) (of_Z (z_of_int 1000)) in
  Printf.printf "%x\n" (int_of_z (to_bits x));
  let t0 = Sys.time () in
  let acc = ref x in
  for i = 1 to 200000 do acc := fadd (fmul !acc (of_bits (z_of_int 0x3f7fff00))) (of_Z (z_of_int (i land 1023))) done;
  Printf.printf "%x %f s\n" (int_of_z (to_bits !acc)) (Sys.time () -. t0)
