From Flocq Require Import Core BinarySingleNaN Binary Bits.
Notation mode_NE := BinarySingleNaN.mode_NE.
Require Import ZArith Extraction ExtrOcamlBasic.
Open Scope Z_scope.
Definition fadd := b32_plus mode_NE.
Definition fmul := b32_mult mode_NE.
Definition fdiv := b32_div mode_NE.
Definition fsub := b32_minus mode_NE.
Definition fsqrt := b32_sqrt mode_NE.
Definition of_bits := b32_of_bits.
Definition to_bits := bits_of_b32.
Definition of_Z (z : Z) : binary32 := binary_normalize 24 128 (eq_refl _) (eq_refl _) mode_NE z 0 false.
Definition fcmp := b32_compare.
Definition ftrunc : binary32 -> Z := Btrunc 24 128.
Eval vm_compute in to_bits (fdiv (of_Z 12345) (of_Z 1000)).
Extraction "f32.ml" fadd fmul fdiv fsub fsqrt of_bits to_bits of_Z fcmp ftrunc.
