From Flocq Require Import Version.
Eval vm_compute in Flocq_version.
From Flocq Require Import Core BinarySingleNaN Bits.
Require Import ZArith.
Open Scope Z_scope.
(* binary32 via BinarySingleNaN *)
Definition prec := 24.
Definition emax := 128.
Lemma Hprec : FLX.Prec_gt_0 prec. Proof. unfold FLX.Prec_gt_0, prec; reflexivity. Qed.
Lemma Hmax : (prec < emax)%Z. Proof. reflexivity. Qed.
Definition f32 := binary_float prec emax.
Check (@Bplus prec emax Hprec Hmax mode_NE).
Check (@Bmult prec emax Hprec Hmax mode_NE).
Check (@Bdiv prec emax Hprec Hmax mode_NE).
Check (@Bsqrt prec emax Hprec Hmax mode_NE).
Check (@binary_normalize prec emax Hprec Hmax mode_NE).
Definition of_Z (z:Z) : f32 := @binary_normalize prec emax Hprec Hmax mode_NE z 0 false.
Definition fadd := @Bplus prec emax Hprec Hmax mode_NE.
Definition fmul := @Bmult prec emax Hprec Hmax mode_NE.
Definition fdiv := @Bdiv prec emax Hprec Hmax mode_NE.
Definition thousand := of_Z 1000.
Eval vm_compute in (fdiv (of_Z 12345) thousand).
Time Eval vm_compute in (let x := fdiv (of_Z 12345) thousand in 
  Z.iter 1000 (fun a => fadd (fmul a x) x) x).
Print Assumptions fdiv.
