Require Import Reals Lra List ZArith.
Import ListNotations.
Open Scope R_scope.
(* code algorithm: power basis coefficients c_j = n!/(n-j)! * sum_{i<=j} (-1)^(i+j) x_i /(i! (j-i)!) *)
Fixpoint horner (cs : list R) (t : R) : R :=
  match cs with [] => 0 | c :: cs' => c + t * horner cs' t end.
Definition fact_R (n:nat) : R := INR (fact n).
Fixpoint sumto (f : nat -> R) (n : nat) : R := match n with O => f O | S m => sumto f m + f n end.
Definition sgn (k:nat) : R := if Nat.even k then 1 else -1.
Definition coeff (xs : list R) (n j : nat) : R :=
  (sumto (fun i => sgn (i+j) * nth i xs 0 / fact_R i / fact_R (j - i)) j) * fact_R n / fact_R (n - j).
Definition bez_coeffs (xs : list R) : list R :=
  let n := (length xs - 1)%nat in map (coeff xs n) (seq 0 (S n)).
(* spec: de Casteljau *)
Fixpoint dc_step (xs : list R) (t:R) : list R :=
  match xs with a :: ((b :: _) as tl) => ((1-t)*a + t*b) :: dc_step tl t | _ => [] end.
Fixpoint dc (fuel:nat) (xs : list R) (t:R) : R :=
  match fuel with O => nth 0 xs 0 | S f => match xs with [a] => a | _ => dc f (dc_step xs t) t end end.
Lemma bez7 : forall a b c d e f g h t, horner (bez_coeffs [a;b;c;d;e;f;g;h]) t = dc 8 [a;b;c;d;e;f;g;h] t.
Proof. intros. unfold bez_coeffs, coeff, sumto, sgn, fact_R. simpl. Time field. Qed.
Lemma bez3 : forall a b c d t, horner (bez_coeffs [a;b;c;d]) t = dc 8 [a;b;c;d] t.
Proof. intros. unfold bez_coeffs, coeff, sumto, sgn, fact_R. simpl. Time field. Qed.
