Require Import NArith.
Open Scope N_scope.
Definition P : N := 0xEDB88320.
Definition bstep (s : N) : N := if N.testbit s 0 then N.lxor (N.shiftr s 1) P else N.shiftr s 1.
(* iterate n times, checking never returns to start *)
Fixpoint sweep_pos (p : positive) (k : N * bool) : N * bool :=
  match p with
  | xH => let '(s,ok) := k in let s' := bstep s in (s', andb ok (negb (N.eqb s' 128)))
  | xO q => sweep_pos q (sweep_pos q k)
  | xI q => let k1 := sweep_pos q (sweep_pos q k) in let '(s,ok) := k1 in let s' := bstep s in (s', andb ok (negb (N.eqb s' 128)))
  end.
Time Eval vm_compute in sweep_pos (2^22)%positive (128, true).
Time Eval vm_compute in sweep_pos (2^25)%positive (128, true).
