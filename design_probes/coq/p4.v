From Flocq Require Import Core BinarySingleNaN Binary Bits.
Require Import ZArith Reals Lra Lia.
Open Scope Z_scope.
Notation mNE := BinarySingleNaN.mode_NE.
Definition of_Z (z : Z) : binary32 := binary_normalize 24 128 (eq_refl _) (eq_refl _) mNE z 0 false.
Definition fdiv := b32_div mNE.
Definition f1000 := of_Z 1000.
Definition sec_of_msec (k : Z) : binary32 := fdiv (of_Z k) f1000.
Check binary_normalize_correct.
Check Bdiv_correct.
Check round_le.
Search (Bcompare _ _ _ _ = _) .
