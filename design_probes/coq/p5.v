Require Import NArith Lia Bool.
Open Scope N_scope.
Definition P : N := 0xEDB88320.
Definition bstep (s : N) : N := if N.testbit s 0 then N.lxor (N.shiftr s 1) P else N.shiftr s 1.

Lemma P_bit31 : N.testbit P 31 = true. Proof. reflexivity. Qed.
Lemma P_lt : P < 2^32. Proof. reflexivity. Qed.

Lemma shiftr1_bit31 s : s < 2^32 -> N.testbit (N.shiftr s 1) 31 = false.
Proof.
  intros H. rewrite N.shiftr_spec by lia. change (31+1) with 32.
  destruct (N.eq_dec s 0) as [->|Hz]; [reflexivity|].
  apply N.bits_above_log2. apply N.log2_lt_pow2; lia.
Qed.

Lemma bstep_bit31 s : s < 2^32 -> N.testbit (bstep s) 31 = N.testbit s 0.
Proof.
  intros H. unfold bstep. destruct (N.testbit s 0) eqn:E.
  - rewrite N.lxor_spec, shiftr1_bit31, P_bit31 by assumption. reflexivity.
  - apply shiftr1_bit31; assumption.
Qed.

Lemma bstep_inj s t : s < 2^32 -> t < 2^32 -> bstep s = bstep t -> s = t.
Proof.
  intros Hs Ht E.
  assert (B0 : N.testbit s 0 = N.testbit t 0).
  { rewrite <- (bstep_bit31 s Hs), <- (bstep_bit31 t Ht), E. reflexivity. }
  assert (Sh : N.shiftr s 1 = N.shiftr t 1).
  { unfold bstep in E. rewrite <- B0 in E. destruct (N.testbit s 0).
    - apply (f_equal (fun x => N.lxor x P)) in E.
      rewrite !N.lxor_assoc, N.lxor_nilpotent, !N.lxor_0_r in E. exact E.
    - exact E. }
  apply N.bits_inj. intros n. destruct (N.eq_dec n 0) as [->|Hn]; [exact B0|].
  replace n with ((n-1)+1) by lia. rewrite <- !N.shiftr_spec by lia. rewrite Sh. reflexivity.
Qed.

Lemma bstep_lt s : s < 2^32 -> bstep s < 2^32.
Proof.
  intros H. unfold bstep.
  assert (N.shiftr s 1 < 2^32). { rewrite N.shiftr_div_pow2. apply N.div_lt_upper_bound; lia. }
  destruct (N.testbit s 0); [|assumption].
  destruct (N.eq_dec (N.lxor (N.shiftr s 1) P) 0) as [->|Hz]; [lia|].
  apply N.log2_lt_pow2; [lia|].
  eapply N.le_lt_trans; [apply N.log2_lxor|].
  apply N.max_lub_lt; (destruct (N.eq_dec _ 0) as [->|]; [reflexivity| apply N.log2_lt_pow2; [lia|assumption]]) || (apply N.log2_lt_pow2; [reflexivity| exact P_lt]).
Qed.
Print Assumptions bstep_inj.
