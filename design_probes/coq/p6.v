Require Import Reals QArith Qreals Lra List ZArith.
Import ListNotations.
Record Ops (A : Type) := { zero : A; one : A; add : A -> A -> A; sub : A -> A -> A; mul : A -> A -> A; div : A -> A -> A; ofZ : Z -> A }.
Arguments zero {A}. Arguments one {A}. Arguments add {A}. Arguments sub {A}. Arguments mul {A}. Arguments div {A}. Arguments ofZ {A}.
Definition ROps : Ops R := {| zero := 0%R; one := 1%R; add := Rplus; sub := Rminus; mul := Rmult; div := Rdiv; ofZ := IZR |}.
Definition QOps : Ops Q := {| zero := 0%Q; one := 1%Q; add := fun a b => Qred (Qplus a b); sub := fun a b => Qred (Qminus a b); mul := fun a b => Qred (Qmult a b); div := fun a b => Qred (Qdiv a b); ofZ := inject_Z |}.
Section Alg.
  Context {A : Type} (o : Ops A).
  Fixpoint horner (cs : list A) (t : A) : A := match cs with [] => zero o | c :: r => add o c (mul o t (horner r t)) end.
  Definition facs : list Z := [1;1;2;6;24;120;720;5040]%Z.
  Definition fac (i : nat) : A := ofZ o (nth i facs 0%Z).
  Fixpoint sumto (f : nat -> A) (n : nat) : A := match n with O => f O | S m => add o (sumto f m) (f n) end.
  Definition sgn (k : nat) : A := if Nat.even k then one o else sub o (zero o) (one o).
  Definition coeff (xs : list A) (n j : nat) : A :=
    div o (mul o (sumto (fun i => div o (div o (mul o (sgn (i+j)) (nth i xs (zero o))) (fac i)) (fac (j-i))) j) (fac n)) (fac (n-j)).
  Definition bez_coeffs (xs : list A) : list A := let n := (length xs - 1)%nat in map (coeff xs n) (seq 0 (S n)).
End Alg.
Open Scope R_scope.
Fixpoint dc_step (xs : list R) (t:R) : list R := match xs with a :: ((b :: _) as tl) => ((1-t)*a + t*b) :: dc_step tl t | _ => [] end.
Fixpoint dc (fuel:nat) (xs : list R) (t:R) : R := match fuel with O => nth 0 xs 0 | S f => match xs with [a] => a | _ => dc f (dc_step xs t) t end end.
Lemma bez7 : forall a b c d e f g h t, horner ROps (bez_coeffs ROps [a;b;c;d;e;f;g;h]) t = dc 8 [a;b;c;d;e;f;g;h] t.
Proof. intros. cbv [horner bez_coeffs coeff sumto sgn fac facs ROps zero one add sub mul div ofZ length map seq nth Nat.sub Nat.add Nat.even dc dc_step]. Time field. Qed.
Eval vm_compute in horner QOps (bez_coeffs QOps [1#1;2#1;5#1;3#1]%Q) (1#3)%Q.
Print Assumptions bez7.
