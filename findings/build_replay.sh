#!/bin/bash
# Builds findings/replay.c against /repo's working tree with ASan+UBSan into /verif/build/findings
set -e
OUT=/verif/build/findings; mkdir -p $OUT
SRC=${SB_REPO:-/repo}/src
FLAGS="-O1 -g -fsanitize=address,undefined,float-cast-overflow -fno-sanitize-recover=undefined,float-cast-overflow -fno-omit-frame-pointer -I${SB_REPO:-/repo}/include"
pids=()
for f in buffer crc32 error parsing utils formats/binary lights/colors rth_plan/rth_plan trajectory/builder trajectory/poly trajectory/trajectory trajectory/stats yaw_control/yaw_control; do
  gcc -std=gnu99 $FLAGS -c $SRC/$f.c -o $OUT/$(basename $f).o &
done
for f in error_handler executor loop_stack program transition trigger; do
  g++ -std=c++11 $FLAGS -c $SRC/lights/$f.cpp -o $OUT/$f.o &
done
wait
gcc -std=gnu99 $FLAGS -c /verif/findings/replay.c -o $OUT/replay_main.o
g++ $FLAGS $OUT/*.o -lm -o $OUT/replay
