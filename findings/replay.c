#include <skybrush/skybrush.h>
#include <skybrush/formats/binary.h>
#include <skybrush/trajectory.h>
#include <skybrush/lights.h>
#include <skybrush/yaw_control.h>
#include <skybrush/rth_plan.h>
#include <skybrush/utils.h>
#include <skybrush/buffer.h>
#include <stdio.h>
#include <stdlib.h>
#include <string.h>
#include <math.h>
#include <unistd.h>

static uint8_t* heapcopy(const uint8_t* b, size_t n){ uint8_t* p = malloc(n?n:1); memcpy(p,b,n); return p; }

int main(int argc, char** argv) {
  int which = atoi(argv[1]);
  if (which == 1) { /* in-memory trajectory block with length exceeding file */
    uint8_t f[] = {'s','k','y','b',1, 1, 0x40,0x00, 1,0,0,0,0,0,0,0,0, 0x01, 0x10,0x27, 0x10,0x00};
    size_t n = sizeof(f); uint8_t* p = heapcopy(f,n);
    sb_trajectory_t t; int rc = sb_trajectory_init_from_binary_file_in_memory(&t,p,n);
    printf("rc=%d\n", rc);
    if (!rc) { sb_trajectory_player_t pl; sb_trajectory_player_init(&pl,&t); sb_vector3_with_yaw_t v; rc = sb_trajectory_player_get_position_at(&pl, 1e9f, &v); printf("rc=%d %f\n", rc, v.x);
      printf("dur=%u\n", sb_trajectory_get_total_duration_msec(&t)); }
  }
  if (which == 2) { /* trajectory buffer shorter than header */
    uint8_t f[] = {1,0,0}; uint8_t* p = heapcopy(f,3);
    sb_trajectory_t t; int rc = sb_trajectory_init_from_buffer(&t,p,3); printf("rc=%d\n", rc);
  }
  if (which == 3) { /* light program JUMP 0 hang */
    uint8_t f[] = {0x12, 0x00}; uint8_t* p = heapcopy(f,2);
    sb_light_program_t lp; sb_light_program_init_from_buffer(&lp,p,2);
    sb_light_player_t pl; sb_light_player_init(&pl,&lp);
    alarm(3);
    sb_rgb_color_t c = sb_light_player_get_color_at(&pl, 1); printf("%d\n", c.red);
  }
  if (which == 4) { /* varint shift UB */
    uint8_t f[] = {0x02, 0x80,0x80,0x80,0x80,0x80,0x80,0x80,0x80,0x80,0x80,0x80,0x01}; uint8_t* p = heapcopy(f,sizeof f);
    sb_light_program_t lp; sb_light_program_init_from_buffer(&lp,p,sizeof f);
    sb_light_player_t pl; sb_light_player_init(&pl,&lp);
    sb_rgb_color_t c = sb_light_player_get_color_at(&pl, 1); printf("%d\n", c.red);
  }
  if (which == 5) { /* landing time with tiny preferred descent */
    sb_trajectory_builder_t b; sb_trajectory_builder_init(&b, 1, 0);
    sb_vector3_with_yaw_t s = {0,0,10000,0}, e = {0,0,0,0}, m={5000,0,10000,0};
    sb_trajectory_builder_set_start_position(&b, s);
    sb_trajectory_builder_append_line(&b, m, 5000);
    sb_vector3_with_yaw_t m2={5000,0,0,0};
    sb_trajectory_builder_append_line(&b, m2, 10000);
    sb_trajectory_t t; sb_trajectory_init_from_builder(&t,&b);
    printf("total=%f\n", sb_trajectory_get_total_duration_sec(&t));
    float ds[] = {1e-10f, 1e-5f, 1e-3f, 0.5f, 1.0f, 100.0f, 9999.0f, 10000.0f, 20000.0f};
    for (int i=0;i<9;i++) printf("descent=%g landing=%f\n", ds[i], sb_trajectory_propose_landing_time_sec(&t, ds[i], 0));
    (void)e;
  }
  if (which == 6) { /* builder failed append leaves garbage */
    sb_trajectory_builder_t b; sb_trajectory_builder_init(&b, 1, 0);
    sb_vector3_with_yaw_t s = {0,0,0,0}, bad = {100,40000,5,0};
    sb_trajectory_builder_set_start_position(&b, s);
    size_t before = sb_buffer_size(&b.buffer);
    int rc = sb_trajectory_builder_append_line(&b, bad, 1000);
    printf("rc=%d size before=%zu after=%zu\n", rc, before, sb_buffer_size(&b.buffer));
  }
  if (which == 7) { /* light clear on view */
    uint8_t f[] = {'s','k','y','b',1, 2, 0x04,0x00, 0x04,0xff,0,0,50};
    size_t n = sizeof(f); uint8_t* p = heapcopy(f,n);
    sb_light_program_t lp; int rc = sb_light_program_init_from_binary_file_in_memory(&lp,p,n); printf("rc=%d\n",rc);
    sb_light_program_clear(&lp);
    sb_light_player_t pl; sb_light_player_init(&pl,&lp);
    sb_rgb_color_t c = sb_light_player_get_color_at(&pl, 100); printf("after clear (view) red=%d size=%zu\n", c.red, sb_buffer_size(&lp.buffer));
  }
  if (which == 8) { /* zero-length trajectory block in memory vs fd */
    uint8_t f[] = {'s','k','y','b',1, 1, 0x00,0x00};
    size_t n = sizeof(f); uint8_t* p = heapcopy(f,n);
    sb_trajectory_t t; int rc = sb_trajectory_init_from_binary_file_in_memory(&t,p,n); printf("mem rc=%d\n",rc);
  }
  if (which == 9) { /* msec conversion UB */
    uint32_t r; int rc = sb_uint32_msec_duration_from_float_seconds(&r, 4294967.5f); printf("rc=%d r=%u\n", rc, r);
  }
  if (which == 10) { /* rth leak on failure */
    sb_rth_plan_entry_t e; memset(&e,0,sizeof e); e.action = SB_RTH_ACTION_GO_TO_KEEPING_ALTITUDE; e.duration_sec = -1; 
    sb_vector3_with_yaw_t s = {0,0,0,0}; sb_trajectory_t t;
    int rc = sb_trajectory_init_from_rth_plan_entry(&t,&e,s); printf("rc=%d\n", rc);
  }
  if (which == 11) { /* 5 nested loops */
    uint8_t f[] = {0x0c,2,0x0c,2,0x0c,2,0x0c,2,0x0c,2, 0x02,1, 0x0d,0x0d,0x0d,0x0d,0x0d, 0x04,9,9,9,50, 0};
    uint8_t* p = heapcopy(f,sizeof f);
    sb_light_program_t lp; sb_light_program_init_from_buffer(&lp,p,sizeof f);
    sb_light_player_t pl; sb_light_player_init(&pl,&lp);
    for (unsigned long t=0;t<1500;t+=20){ sb_rgb_color_t c = sb_light_player_get_color_at(&pl, t); if (c.red==9) { printf("color set at %lu\n", t); break; } }
  }
  if (which == 12) { /* degree-7 bbox uninit */
    uint8_t f[9+3+7*2] = {1, 0,0,0,0,0,0,0,0, 0x03, 0xe8,0x03, 1,0,2,0,3,0,4,0,5,0,6,0,7,0};
    uint8_t* p = heapcopy(f,sizeof f);
    sb_trajectory_t t; sb_trajectory_init_from_buffer(&t,p,sizeof f);
    sb_bounding_box_t bb; sb_trajectory_get_axis_aligned_bounding_box(&t,&bb); printf("x:[%g,%g]\n", bb.x.min, bb.x.max);
  }

  if (which == 13) { /* D15: zero-duration fade leaves a stale start colour */
    uint8_t f[] = {0x04,0xff,0,0,0,  0x08,0,0xff,0,0,  0x08,0,0,0xff,50, 0};
    uint8_t* p = heapcopy(f,sizeof f);
    sb_light_program_t lp; sb_light_program_init_from_buffer(&lp,p,sizeof f);
    sb_light_player_t pl; sb_light_player_init(&pl,&lp);
    sb_rgb_color_t c = sb_light_player_get_color_at(&pl, 500);
    printf("t=500 (mid-fade green->blue expected 0 127 127): %d %d %d\n", c.red,c.green,c.blue);
  }
  if (which == 14) { /* D3: last segment truncated (claims a cubic x, bytes end after the duration) */
    uint8_t f[] = {1, 0,0,0,0,0,0,0,0, 0x02, 0xe8,0x03, 1};
    uint8_t* p = heapcopy(f,sizeof f);
    sb_trajectory_t t; int rc = sb_trajectory_init_from_buffer(&t,p,sizeof f); printf("rc=%d\n", rc);
    sb_trajectory_player_t pl; rc = sb_trajectory_player_init(&pl,&t); printf("player init rc=%d\n", rc); sb_vector3_with_yaw_t v;
    if (!rc) { rc = sb_trajectory_player_get_position_at(&pl, 0.5f, &v); printf("pos rc=%d x=%f\n", rc, v.x); }
    /* second segment truncated: the first answers, the second is a parse error, then the first answers again */
    uint8_t g[] = {1, 5,0,0,0,0,0,0,0, 0x01, 0xe8,0x03, 10,0, 0x02, 0xe8,0x03, 1};
    uint8_t* q = heapcopy(g,sizeof g);
    rc = sb_trajectory_init_from_buffer(&t,q,sizeof g); rc = sb_trajectory_player_init(&pl,&t); printf("player init rc=%d\n", rc);
    rc = sb_trajectory_player_get_position_at(&pl, 0.5f, &v); printf("pos(0.5) rc=%d x=%f\n", rc, v.x);
    rc = sb_trajectory_player_get_position_at(&pl, 1.5f, &v); printf("pos(1.5) rc=%d\n", rc);
    rc = sb_trajectory_player_get_position_at(&pl, 0.0f, &v); printf("pos(0) rc=%d x=%f (start is 5)\n", rc, v.x);
  }
  if (which == 15) { /* D2/D3: yaw control shorter than its header; truncated delta */
    uint8_t f[] = {1, 0}; uint8_t* p = heapcopy(f,sizeof f);
    sb_yaw_control_t y; int rc = sb_yaw_control_init_from_buffer(&y,p,sizeof f); printf("rc=%d\n", rc);
    uint8_t g[] = {0, 10,0, 0xe8,0x03, 5}; uint8_t* q = heapcopy(g,sizeof g);
    rc = sb_yaw_control_init_from_buffer(&y,q,sizeof g); printf("rc=%d deltas=%zu\n", rc, y.num_deltas);
    sb_yaw_player_t pl; sb_yaw_player_init(&pl,&y); float r; rc = sb_yaw_player_get_yaw_at(&pl, 0.5f, &r); printf("yaw rc=%d %f\n", rc, r);
  }
  if (which == 16) { /* D2/D4: RTH plan shorter than header; entry table beyond the end */
    uint8_t f[] = {1, 0}; uint8_t* p = heapcopy(f,sizeof f);
    sb_rth_plan_t pl; int rc = sb_rth_plan_init_from_buffer(&pl,p,sizeof f); printf("rc=%d\n", rc);
    /* scale 1, 0 points, 1 entry, flags byte missing */
    uint8_t g[] = {1, 0,0, 1,0}; uint8_t* q = heapcopy(g,sizeof g);
    rc = sb_rth_plan_init_from_buffer(&pl,q,sizeof g); printf("rc=%d n=%zu\n", rc, sb_rth_plan_get_num_entries(&pl));
    sb_rth_plan_entry_t e; rc = sb_rth_plan_evaluate_at(&pl, 5, &e); printf("eval rc=%d\n", rc);
    /* go-to-with-altitude entry whose altitude bytes are missing */
    uint8_t h[] = {1, 1,0, 5,0,6,0, 1,0, 0x30, 0x00, 0x00}; uint8_t* r2 = heapcopy(h,sizeof h);
    rc = sb_rth_plan_init_from_buffer(&pl,r2,sizeof h); rc = sb_rth_plan_evaluate_at(&pl, 5, &e); printf("eval2 rc=%d\n", rc);
    /* point table beyond the end: 100 points claimed */
    uint8_t k[] = {1, 100,0, 5,0}; uint8_t* r3 = heapcopy(k,sizeof k);
    rc = sb_rth_plan_init_from_buffer(&pl,r3,sizeof k); sb_vector2_t pt; rc = sb_rth_plan_get_point(&pl, 50, &pt); printf("point rc=%d\n", rc);
  }
  if (which == 17) { /* D7: opcode 0x10 uses the uninitialised signal source */
    uint8_t f[] = {0x10, 0,1,2, 5, 0}; uint8_t* p = heapcopy(f,sizeof f);
    sb_light_program_t lp; sb_light_program_init_from_buffer(&lp,p,sizeof f);
    sb_light_player_t pl; sb_light_player_init(&pl,&lp);
    sb_rgb_color_t c = sb_light_player_get_color_at(&pl, 10); printf("%d %d %d\n", c.red, c.green, c.blue);
  }

  if (which == 18) { /* zero-length light program block: descriptor vs memory */
    uint8_t f[] = {'s','k','y','b',1, 2, 0x00,0x00};
    size_t n = sizeof(f); uint8_t* p = heapcopy(f,n);
    sb_light_program_t lp; int rc = sb_light_program_init_from_binary_file_in_memory(&lp,p,n); printf("mem rc=%d\n",rc);
    if (!rc) sb_light_program_destroy(&lp);
    FILE* tf = tmpfile(); fwrite(f,1,n,tf); fflush(tf); lseek(fileno(tf),0,SEEK_SET);
    rc = sb_light_program_init_from_binary_file(&lp, fileno(tf)); printf("fd rc=%d\n",rc);
    if (!rc) sb_light_program_destroy(&lp);
  }

  if (which == 19) { /* appending to a zero-length view never returns */
    uint8_t dummy[1] = {0}; sb_buffer_t b; sb_buffer_init_view(&b, dummy, 0);
    alarm(3);
    int rc = sb_buffer_append_byte(&b, 7); printf("append to an empty view: rc=%d\n", rc);
  }

  if (which == 20) { /* D18: a duration of >= 2^63 ms makes the clock conversion cast a negative double to unsigned long (UBSan float-cast-overflow) */
    uint8_t f[] = {0x02, 0xff,0xff,0xff,0xff,0xff,0xff,0xff,0xff,0x7f, 0x04,1,1,1,1, 0};
    uint8_t* p = heapcopy(f,sizeof f);
    sb_light_program_t lp; sb_light_program_init_from_buffer(&lp,p,sizeof f);
    sb_light_player_t pl; sb_light_player_init(&pl,&lp);
    sb_rgb_color_t c = sb_light_player_get_color_at(&pl, 1000); printf("%d %d %d\n", c.red, c.green, c.blue);
  }
  if (which == 21) { /* D20: touches returns u = 1 when the value is reached at the end of the segment although it is reached earlier inside it:
                        altitude Bezier 0, 3000, 4000, 3000 (= 9000u - 6000u^2) crosses 3000 at u = 0.5 and ends on it; takeoff altitude 3000 */
    uint8_t tr[] = {1, 0,0, 0,0, 0,0, 0,0,          /* scale 1, start (0,0,0), yaw 0 */
                    0x20, 0x10,0x27,                 /* cubic z, 10 s */
                    0xb8,0x0b, 0xa0,0x0f, 0xb8,0x0b, /* 3000, 4000, 3000 */
                    0x10, 0x10,0x27, 0x70,0x17 };     /* linear z to 6000, 10 s */
    sb_trajectory_t t; sb_trajectory_init_from_buffer(&t, heapcopy(tr, sizeof tr), sizeof tr);
    sb_poly_t p; float cs[] = {0, 9000, -6000}; sb_poly_make(&p, cs, 3);
    float u = -1; sb_bool_t r = sb_poly_touches(&p, 3000, &u);
    printf("touches=%d u=%g (first crossing is at u=0.5)\n", r, u);
    float tt = sb_trajectory_propose_takeoff_time_sec(&t, 3000, 1000000, INFINITY);
    printf("takeoff time=%g (first crossing at 5 s, travel time 0.003 s: expected ~4.997)\n", tt);
    return (u > 0.6f || tt > 6.0f) ? 1 : 0;
  }
  if (which == 22) { /* D21: the quadratic formula cancels when the leading coefficient nearly vanishes: the x axis with Bezier points
                        1, -1674, -1674, 1 is exactly 1 - 5025u + 5025u^2, but the binary32 conversion leaves a cubic coefficient of -1.2e-4;
                        the derivative's root 0.5 is then computed as 0 and the bounding box misses the minimum -1255.25 */
    uint8_t tr[] = {1, 1,0, 0,0, 0,0, 0,0,
                    0x02, 0x10,0x27, 0x76,0xf9, 0x76,0xf9, 0x01,0x00 };
    sb_trajectory_t t; sb_trajectory_init_from_buffer(&t, heapcopy(tr, sizeof tr), sizeof tr);
    sb_bounding_box_t box; sb_trajectory_get_axis_aligned_bounding_box(&t, &box);
    sb_trajectory_player_t pl; sb_trajectory_player_init(&pl, &t);
    sb_vector3_with_yaw_t v; sb_trajectory_player_get_position_at(&pl, 5.0f, &v);
    printf("box x = [%g, %g], position at t=5 s: x = %g\n", box.x.min, box.x.max, v.x);
    return (v.x < box.x.min - 1) ? 1 : 0;
  }
  if (which == 23) { /* D22: ArrayBytecodeStore kept the program size in 16 bits: a light program of 65536 + n bytes handed to
                        sb_light_program_init_from_buffer played as its first n bytes only (here n = 0: an empty program, black and ended,
                        although the program sets white for 100 s at its very beginning) */
    size_t n = 65536; uint8_t* p = malloc(n); memset(p, 0x01, n);          /* NOPs */
    p[0] = 0x07; p[1] = 0x88; p[2] = 0x27;                                   /* SET_WHITE for 5000 x 20 ms */
    sb_light_program_t lp; sb_light_program_init_from_buffer(&lp, p, n);
    sb_light_player_t pl; sb_light_player_init(&pl, &lp);
    sb_rgb_color_t c = sb_light_player_get_color_at(&pl, 1000); printf("colour at 1 s: %d %d %d (expected 255 255 255)\n", c.red, c.green, c.blue);
    return c.red == 255 ? 0 : 1;
  }
  if (which == 24) { /* D23: altitude Bezier 179, 2179, 3179, 3179 (deceleration to rest: really the quadratic 179 + 6000u - 3000u^2) keeps a
                        cubic coefficient of -3.7e-4 of rounding noise after sb_poly_make_bezier; the closed-form cubic solver then overflows in
                        binary32 (q^2 ~ 1e39), returns NaN roots, sb_poly_touches answers "no" for every altitude and the takeoff time of a
                        trajectory that climbs 3 m is infinity */
    float xs[4] = {179, 2179, 3179, 3179};
    sb_poly_t p; sb_poly_make_bezier(&p, 1, xs, 4);
    float r = -1; sb_bool_t t = sb_poly_touches(&p, 1904.3391f, &r);
    printf("coefficients %g %g %g %g; touches(1904.34) = %d at u = %g (expected 1 at 0.348166)\n", p.coeffs[0], p.coeffs[1], p.coeffs[2], p.coeffs[3], t, r);
    uint8_t tr[] = {1, 0,0, 0,0, 0xb3,0x00, 0,0,  0x20, 0x10,0x27, 0x83,0x08, 0x6b,0x0c, 0x6b,0x0c,  0x10, 0x88,0x13, 0x53,0x10};
    sb_trajectory_t tj; sb_trajectory_init_from_buffer(&tj, heapcopy(tr, sizeof tr), sizeof tr);
    float tt = sb_trajectory_propose_takeoff_time_sec(&tj, 1725.3391f, 1000, 1000000);
    printf("takeoff time = %g (the altitude is reached at 3.48 s)\n", tt);
    return (t && isfinite(tt)) ? 0 : 1;
  }
  if (which == 25) { /* D24: (x - 0.44)(x - 0.5)(x - 0.56) = x^3 - 1.5 x^2 + 0.7464 x - 0.1232: the closed form's double-root test
                        |q^2/4 + p^3/27| < 1e-8 is absolute and that quantity is -s^6/27 for roots s apart (here -1.7e-9): three distinct
                        roots are answered as a double root, and sb_poly_touches misses the first solution by 0.058 */
    float cs[4] = {-0.1232f, 0.7464f, -1.5f, 1.0f};
    sb_poly_t p; sb_poly_make(&p, cs, 4);
    float roots[8] = {0}; uint8_t n = 0; sb_poly_solve(&p, 0, roots, &n);
    float r = -1; sb_bool_t t = sb_poly_touches(&p, 0, &r);
    printf("sb_poly_solve: %d root(s): %g %g %g (expected 3: 0.44 0.5 0.56); touches(0) = %d at u = %g (first solution 0.44)\n", n, roots[0], roots[1], roots[2], t, r);
    return (n == 3 && t && fabsf(r - 0.44f) < 0.01f) ? 0 : 1;
  }
  return 0;
}