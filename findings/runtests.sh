#!/bin/bash
# Rebuilds /repo/_build and runs the repository's own suite (guard off)
cmake --build /repo/_build 2>&1 | tail -2
ctest --test-dir /repo/_build -j8 --timeout 900 2>&1 | tail -4
