/* Link-time interposition of the C allocator (-Wl,--wrap=malloc,calloc,realloc,free)
 * for the allocation-discipline check (C17).  While tracking is on (the harness
 * switches it on around library calls only) every allocation gets a logical
 * block identifier in order of creation, every event is appended to a log in
 * the notation of the model (Model/Alloc.v), and the k-th allocation request
 * can be made to fail.  With tracking off the wrappers pass straight through. */
#include <stddef.h>
#include <stdio.h>
#include <stdlib.h>
#include <string.h>
#include <malloc.h>

void* __real_malloc(size_t);
void* __real_calloc(size_t, size_t);
void* __real_realloc(void*, size_t);
void __real_free(void*);

static int aw_on = 0;
/* outside the tracked scenarios (C17): let the next k allocator calls of the library fail (used around a single
   library call by the route comparison of C06) */
static int aw_fail_plain = 0;
static long aw_fail_in = -1; /* allocations still to succeed before the failing one; -1: none */
static unsigned aw_next = 0;

struct ent {
    void* p;
    unsigned id;
    int live;
};
static struct ent* aw_tab = 0;
static size_t aw_n = 0, aw_cap = 0;

static char* aw_log = 0;
static size_t aw_len = 0, aw_logcap = 0;
static int aw_bad = 0;

static void aw_put(const char* s)
{
    size_t l = strlen(s);
    if (aw_len + l + 2 > aw_logcap) {
        aw_logcap = (aw_logcap + l + 2) * 2;
        aw_log = (char*)__real_realloc(aw_log, aw_logcap);
    }
    if (aw_len) {
        aw_log[aw_len++] = ',';
    }
    memcpy(aw_log + aw_len, s, l);
    aw_len += l;
    aw_log[aw_len] = 0;
}

static unsigned aw_register(void* p)
{
    if (aw_n == aw_cap) {
        aw_cap = aw_cap ? aw_cap * 2 : 64;
        aw_tab = (struct ent*)__real_realloc(aw_tab, aw_cap * sizeof(struct ent));
    }
    aw_tab[aw_n].p = p;
    aw_tab[aw_n].id = aw_next;
    aw_tab[aw_n].live = 1;
    aw_n++;
    return aw_next++;
}

static struct ent* aw_find_live(void* p)
{
    for (size_t i = aw_n; i > 0; i--) {
        if (aw_tab[i - 1].p == p && aw_tab[i - 1].live) {
            return &aw_tab[i - 1];
        }
    }
    return 0;
}

/* ---- control (called by the harness with tracking off) */
void aw_reset(long fail_at /* 0: none, k >= 1: the k-th allocation fails */)
{
    aw_on = 0;
    aw_n = 0;
    aw_next = 0;
    aw_len = 0;
    aw_bad = 0;
    if (aw_log) {
        aw_log[0] = 0;
    }
    aw_fail_in = fail_at > 0 ? fail_at - 1 : -1;
}
void aw_track(int on) { aw_on = on; }
void aw_fail_next_plain(int k) { aw_fail_plain = k; }
const char* aw_events(void) { return aw_log && aw_len ? aw_log : "-"; }
int aw_bad_events(void) { return aw_bad; }
size_t aw_live(void)
{
    size_t k = 0;
    for (size_t i = 0; i < aw_n; i++) {
        k += aw_tab[i].live ? 1 : 0;
    }
    return k;
}
/* releases whatever is still registered as live (after the count was taken) */
void aw_release_leaks(void)
{
    for (size_t i = 0; i < aw_n; i++) {
        if (aw_tab[i].live) {
            aw_tab[i].live = 0;
            __real_free(aw_tab[i].p);
        }
    }
}
/* a block allocated by the caller and handed to the library with ownership */
void* aw_caller_alloc(size_t n)
{
    char b[64];
    void* p = __real_malloc(n ? n : 1);
    unsigned id = aw_register(p);
    snprintf(b, sizeof b, "c%u:%zu", id, n);
    aw_put(b);
    return p;
}

static int aw_should_fail(void)
{
    if (aw_fail_in == 0) {
        aw_fail_in = -1;
        return 1;
    }
    if (aw_fail_in > 0) {
        aw_fail_in--;
    }
    return 0;
}

static void* aw_do_alloc(size_t n, int zero)
{
    char b[64];
    if (aw_should_fail()) {
        snprintf(b, sizeof b, "af:%zu", n);
        aw_put(b);
        return 0;
    }
    void* p = zero ? __real_calloc(n ? n : 1, 1) : __real_malloc(n ? n : 1);
    unsigned id = aw_register(p);
    snprintf(b, sizeof b, "a%u:%zu", id, n);
    aw_put(b);
    return p;
}

/* operator new / delete of the harness come here */
void* aw_new(size_t n)
{
    char b[64];
    if (!aw_on) {
        return __real_malloc(n ? n : 1);
    }
    void* p = __real_malloc(n ? n : 1);
    unsigned id = aw_register(p);
    snprintf(b, sizeof b, "n%u", id);
    aw_put(b);
    return p;
}
void aw_delete(void* p)
{
    char b[64];
    if (!p) {
        return;
    }
    if (!aw_on) {
        __real_free(p);
        return;
    }
    struct ent* e = aw_find_live(p);
    if (!e) {
        aw_bad++;
        aw_put("bad");
        return;
    }
    e->live = 0;
    snprintf(b, sizeof b, "d%u", e->id);
    aw_put(b);
    __real_free(p);
}

void* __wrap_malloc(size_t n)
{
    if (!aw_on) {
        if (aw_fail_plain > 0) {
            aw_fail_plain--;
            return 0;
        }
        return __real_malloc(n);
    }
    return aw_do_alloc(n, 0);
}

void* __wrap_calloc(size_t a, size_t b)
{
    if (!aw_on) {
        if (aw_fail_plain > 0) {
            aw_fail_plain--;
            return 0;
        }
        return __real_calloc(a, b);
    }
    return aw_do_alloc(a * b, 1);
}

void* __wrap_realloc(void* p, size_t n)
{
    char b[80];
    if (!aw_on) {
        if (aw_fail_plain > 0) {
            aw_fail_plain--;
            return 0;
        }
        return __real_realloc(p, n);
    }
    struct ent* e = p ? aw_find_live(p) : 0;
    if (!e) {
        /* realloc of a null pointer, of caller memory or of a freed block */
        aw_bad++;
        aw_put("bad");
        return 0;
    }
    if (aw_should_fail()) {
        snprintf(b, sizeof b, "rf%u:%zu", e->id, n);
        aw_put(b);
        return 0;
    }
    unsigned old = e->id;
    e->live = 0;
    /* always move the block (legal for realloc, and what size-class allocators do when a block shrinks): a pointer
       captured before the call then refers to released memory and its later use / release is seen */
    size_t have = malloc_usable_size(p);
    void* q = __real_malloc(n ? n : 1);
    if (q) {
        memcpy(q, p, have < n ? have : n);
        memset(p, 0xDD, have);
        __real_free(p);
    }
    unsigned id = aw_register(q);
    snprintf(b, sizeof b, "r%u>%u:%zu", old, id, n);
    aw_put(b);
    return q;
}

void __wrap_free(void* p)
{
    char b[64];
    if (!aw_on) {
        __real_free(p);
        return;
    }
    if (!p) {
        return;
    }
    struct ent* e = aw_find_live(p);
    if (!e) {
        aw_bad++;
        aw_put("bad");
        return;
    }
    e->live = 0;
    snprintf(b, sizeof b, "f%u", e->id);
    aw_put(b);
    __real_free(p);
}
